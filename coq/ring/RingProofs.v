(* Proofs about the ring-buffer model (Model.v).  C20.v states the theorems and closes each of
   them by `exact <lemma of this file>`. *)
From Coq Require Import List Arith ZArith Bool Lia PeanoNat ZifyNat.
From KV.Base Require Import Consts.
From KV.Ring Require Import Model.
Import ListNotations.
Local Open Scope nat_scope.

(* lia understands `/` and `mod` by a constant (used for new_size only) *)
Local Ltac Zify.zify_post_hook ::= Z.div_mod_to_equations.

(* ------------------------------------------------------------------------------------ *)
(* constants and arithmetic                                                               *)

Lemma ring_min_val : Z.to_nat c_RINGBUFFER_MIN = 8.
Proof. reflexivity. Qed.

Lemma ring_exp_val : Z.to_nat c_RINGBUFFER_EXP = 1024.
Proof. vm_compute. reflexivity. Qed.

Lemma new_size_spec (c : nat) :
  (c < 8 /\ new_size c = 8) \/
  (8 <= c < 1024 /\ new_size c = c * 2) \/
  (1024 <= c /\ new_size c = c + (c + 9) / 10).
Proof.
  unfold new_size. rewrite ring_min_val, ring_exp_val.
  destruct (Nat.ltb_spec c 8) as [H8|H8].
  - left. split; [exact H8 | reflexivity].
  - destruct (Nat.ltb_spec c 1024) as [Hk|Hk].
    + right. left. split; [split; assumption | reflexivity].
    + right. right. split; [exact Hk | reflexivity].
Qed.

Lemma new_size_gt (c : nat) : c < new_size c.
Proof.
  destruct (new_size_spec c) as [[H E]|[[H E]|[H E]]]; rewrite E; lia.
Qed.

(* a mod c for a < 2c, without nonlinear arithmetic *)
Lemma mod_wrap_cases (a c : nat) :
  0 < c -> a < 2 * c ->
  (a < c /\ a mod c = a) \/ (c <= a /\ a mod c = a - c).
Proof.
  intros Hc Ha. destruct (Nat.lt_ge_cases a c) as [H|H].
  - left. split; [exact H | apply Nat.mod_small; exact H].
  - right. split; [exact H |].
    replace a with ((a - c) + 1 * c) at 1 by lia.
    rewrite Nat.mod_add by lia. apply Nat.mod_small. lia.
Qed.

(* replace every `a mod c` whose bounds lia can establish by a or a - c *)
Ltac mod_cases :=
  repeat match goal with
  | |- context [?a mod ?c] =>
      let H0 := fresh "Hc" in
      let H1 := fresh "Ha" in
      let H := fresh "Hm" in
      let E := fresh "Em" in
      assert (H0 : 0 < c) by lia;
      assert (H1 : a < 2 * c) by lia;
      destruct (mod_wrap_cases a c H0 H1) as [[H E]|[H E]];
      rewrite E in *; clear H0 H1 E
  | X : context [?a mod ?c] |- _ =>
      let H0 := fresh "Hc" in
      let H1 := fresh "Ha" in
      let H := fresh "Hm" in
      let E := fresh "Em" in
      assert (H0 : 0 < c) by lia;
      assert (H1 : a < 2 * c) by lia;
      destruct (mod_wrap_cases a c H0 H1) as [[H E]|[H E]];
      rewrite E in *; clear H0 H1 E
  end.

(* case-split every nat comparison in goal and hypotheses *)
Ltac bd_lt a b :=
  let E := fresh "E" in
  destruct (Nat.lt_ge_cases a b) as [E|E];
  [ rewrite (proj2 (Nat.ltb_lt a b) E) in * | rewrite (proj2 (Nat.ltb_ge a b) E) in * ].
Ltac bd_le a b :=
  let E := fresh "E" in
  destruct (Nat.le_gt_cases a b) as [E|E];
  [ rewrite (proj2 (Nat.leb_le a b) E) in * | rewrite (proj2 (Nat.leb_gt a b) E) in * ].
Ltac bd_eq a b :=
  let E := fresh "E" in
  destruct (Nat.eq_dec a b) as [E|E];
  [ rewrite (proj2 (Nat.eqb_eq a b) E) in * | rewrite (proj2 (Nat.eqb_neq a b) E) in * ].
Ltac bdestr1 :=
  match goal with
  | |- context [?a <? ?b] => bd_lt a b
  | |- context [?a <=? ?b] => bd_le a b
  | |- context [?a =? ?b] => bd_eq a b
  | H : context [?a <? ?b] |- _ => bd_lt a b
  | H : context [?a <=? ?b] |- _ => bd_le a b
  | H : context [?a =? ?b] |- _ => bd_eq a b
  end.

Ltac crush_step :=
  first [ progress mod_cases
        | bdestr1
        | progress cbn [andb orb negb] in * ].
Ltac crush :=
  repeat crush_step;
  try discriminate;
  try first [ lia | reflexivity | f_equal; lia ].

(* ------------------------------------------------------------------------------------ *)
(* lists                                                                                  *)

Section ListLemmas.
Context {A : Type}.
Implicit Types (l e dst src : list A).

Lemma set_nth_length l : forall i v, length (set_nth l i v) = length l.
Proof.
  induction l as [|x l IH]; intros [|i] v; simpl; try reflexivity.
  f_equal. apply IH.
Qed.

Lemma nth_set_nth l : forall i j v d,
  nth j (set_nth l i v) d = if (j =? i) && (j <? length l) then v else nth j l d.
Proof.
  induction l as [|x l IH]; intros i j v d.
  - assert (E : (j <? length (@nil A)) = false) by (apply Nat.ltb_ge; simpl; lia).
    rewrite E, andb_false_r. destruct i; reflexivity.
  - destruct i as [|i], j as [|j]; try reflexivity.
    change (nth j (set_nth l i v) d =
            if (j =? i) && (j <? length l) then v else nth j l d).
    apply IH.
Qed.

Lemma nth_firstn' : forall n l i d,
  nth i (firstn n l) d = if i <? n then nth i l d else d.
Proof.
  induction n as [|n IH]; intros l i d.
  - simpl. destruct i; reflexivity.
  - destruct l as [|x l].
    + simpl. destruct i; destruct (_ <? _); reflexivity.
    + destruct i as [|i]; [reflexivity|].
      change (nth i (firstn n l) d = if i <? n then nth i l d else d).
      apply IH.
Qed.

Lemma nth_skipn' : forall n l i d, nth i (skipn n l) d = nth (n + i) l d.
Proof.
  induction n as [|n IH]; intros l i d; [reflexivity|].
  destruct l as [|x l].
  - simpl. destruct i; reflexivity.
  - simpl. apply IH.
Qed.

Lemma nth_repeat' (x : A) : forall n i d,
  nth i (repeat x n) d = if i <? n then x else d.
Proof.
  induction n as [|n IH]; intros i d.
  - simpl. destruct i; reflexivity.
  - destruct i as [|i]; [reflexivity|].
    change (nth i (repeat x n) d = if i <? n then x else d). apply IH.
Qed.

Lemma nth_app' l1 l2 i d :
  nth i (l1 ++ l2) d = if i <? length l1 then nth i l1 d else nth (i - length l1) l2 d.
Proof.
  destruct (Nat.ltb_spec i (length l1)) as [H|H].
  - apply app_nth1. exact H.
  - apply app_nth2. lia.
Qed.

Lemma copy_into_length : forall dst src, length (copy_into dst src) = length dst.
Proof.
  induction dst as [|x dst IH]; intros [|s src]; simpl; try reflexivity.
  f_equal. apply IH.
Qed.

Lemma nth_copy_into : forall dst src i d,
  nth i (copy_into dst src) d =
  if (i <? length src) && (i <? length dst) then nth i src d else nth i dst d.
Proof.
  induction dst as [|x dst IH]; intros src i d.
  - assert (E : (i <? length (@nil A)) = false) by (apply Nat.ltb_ge; simpl; lia).
    rewrite E, andb_false_r. destruct src; reflexivity.
  - destruct src as [|s src].
    + simpl copy_into. assert (E : (i <? length (@nil A)) = false) by (apply Nat.ltb_ge; simpl; lia).
      rewrite E. reflexivity.
    + destruct i as [|i]; [reflexivity|].
      change (nth i (copy_into dst src) d =
              if (i <? length src) && (i <? length dst) then nth i src d else nth i dst d).
      apply IH.
Qed.

Lemma skipn_cons_nth (d : A) : forall a e,
  a < length e -> skipn a e = nth a e d :: skipn (S a) e.
Proof.
  induction a as [|a IH]; intros [|x e] H; simpl in H; try lia.
  - reflexivity.
  - change (skipn a e = nth a e d :: skipn (S a) e). apply IH. lia.
Qed.

Lemma map_nth_seq (d : A) e : forall n a,
  a + n <= length e ->
  map (fun i => nth i e d) (seq a n) = firstn n (skipn a e).
Proof.
  induction n as [|n IH]; intros a H; [reflexivity|].
  rewrite (skipn_cons_nth d a e) by lia.
  simpl. f_equal. apply IH. lia.
Qed.

Lemma NoDup_app' (l1 l2 : list nat) :
  NoDup l1 -> NoDup l2 -> (forall x, In x l1 -> ~ In x l2) -> NoDup (l1 ++ l2).
Proof.
  intros H1 H2 H. induction H1 as [|x l1 Hx H1 IH]; simpl; [exact H2|].
  constructor.
  - rewrite in_app_iff. intros [Hi|Hi]; [exact (Hx Hi)|].
    apply (H x); [left; reflexivity | exact Hi].
  - apply IH. intros y Hy. apply H. right. exact Hy.
Qed.

End ListLemmas.

Section ClearRange.
Context {A : Type} (zero : A).

Lemma clear_range_length : forall (l : list A) lo hi,
  length (clear_range zero l lo hi) = length l.
Proof.
  induction l as [|x l IH]; intros lo hi; [reflexivity|].
  destruct lo as [|lo], hi as [|hi]; simpl; try reflexivity; f_equal; apply IH.
Qed.

Lemma nth_clear_range : forall (l : list A) lo hi i,
  nth i (clear_range zero l lo hi) zero =
  if (lo <=? i) && (i <? hi) then zero else nth i l zero.
Proof.
  induction l as [|x l IH]; intros lo hi i.
  - simpl. destruct i; destruct (_ && _); reflexivity.
  - destruct hi as [|hi].
    + assert (E : (i <? 0) = false) by (apply Nat.ltb_ge; lia).
      rewrite E, andb_false_r. destruct lo; reflexivity.
    + destruct lo as [|lo], i as [|i]; try reflexivity.
      * change (nth i (clear_range zero l 0 hi) zero =
                if (0 <=? i) && (i <? hi) then zero else nth i l zero).
        apply IH.
      * change (nth i (clear_range zero l lo hi) zero =
                if (lo <=? i) && (i <? hi) then zero else nth i l zero).
        apply IH.
Qed.

End ClearRange.

Ltac list_norm :=
  repeat first
    [ rewrite app_length | rewrite firstn_length | rewrite skipn_length
    | rewrite repeat_length | rewrite set_nth_length | rewrite clear_range_length
    | rewrite copy_into_length | rewrite seq_length | rewrite map_length
    | rewrite nth_app' | rewrite nth_firstn' | rewrite nth_skipn'
    | rewrite nth_repeat' | rewrite nth_set_nth | rewrite nth_clear_range
    | rewrite nth_copy_into ].

(* ------------------------------------------------------------------------------------ *)
(* the ring                                                                               *)

Ltac unr :=
  unfold wf, len, is_full, is_empty, max_len in *; unfold cap in *;
  cbn [head tail elems] in *.

Section RingProofs.
Context {A : Type} (zero : A).
Notation ring := (ring A).

Lemma abs_length (r : ring) : wf r -> length (abs r) = len r.
Proof.
  destruct r as [h t e]. unfold abs. unr. intros (Hc & Hh & Ht).
  list_norm. crush.
Qed.

Lemma abs_nth (r : ring) i d :
  wf r -> i < len r ->
  nth i (abs r) d = nth ((head r + i) mod cap r) (elems r) d.
Proof.
  destruct r as [h t e]. unfold abs. unr. intros (Hc & Hh & Ht) Hi.
  list_norm. crush.
Qed.

Lemma abs_nil (r : ring) : wf r -> len r = 0 -> abs r = [].
Proof.
  intros W L. apply length_zero_iff_nil. rewrite abs_length by exact W. exact L.
Qed.

Lemma abs_cons (r : ring) :
  wf r -> len r <> 0 ->
  exists q, abs r = nth (head r) (elems r) zero :: q.
Proof.
  intros W L. pose proof (abs_length r W) as HL.
  pose proof (abs_nth r 0 zero W ltac:(lia)) as HN.
  destruct (abs r) as [|x q]; simpl in HL; [lia|].
  exists q. f_equal. simpl in HN. rewrite HN.
  destruct r as [h t e]. unr. destruct W as (Hc & Hh & Ht).
  rewrite Nat.add_0_r. rewrite Nat.mod_small by exact Hh. reflexivity.
Qed.

Lemma len_empty_iff (r : ring) : wf r -> (len r = 0 <-> head r = tail r).
Proof.
  destruct r as [h t e]. unr. intros (Hc & Hh & Ht). crush.
Qed.

(* ---- dead slots and `clean` ---- *)

Definition dead (h t i : nat) : Prop :=
  (h <= t /\ (i < h \/ t <= i)) \/ (t < h /\ t <= i < h).

Lemma live_idx_dead (r : ring) i : live_idx r i = false <-> dead (head r) (tail r) i.
Proof.
  destruct r as [h t e]. unfold live_idx, dead. cbn [head tail elems].
  split; intros H; crush.
Qed.

Lemma clean_iff (r : ring) :
  clean zero r <->
  (forall i, i < cap r -> dead (head r) (tail r) i -> nth i (elems r) zero = zero).
Proof.
  unfold clean. split; intros H i Hi Hd; apply H; try exact Hi; apply live_idx_dead; exact Hd.
Qed.

(* ---- grow ---- *)

Lemma grow_cap (r : ring) : cap (grow zero r) = new_size (cap r).
Proof.
  destruct r as [h t e]. unfold grow. unr.
  pose proof (new_size_gt (length e)) as Hns.
  set (ns := new_size (length e)) in *. clearbody ns.
  bd_lt h t; list_norm; lia.
Qed.

Lemma grow_nth (r : ring) i :
  wf r ->
  nth i (elems (grow zero r)) zero =
  if i <? (if head r =? tail r then cap r else len r)
  then nth ((head r + i) mod cap r) (elems r) zero else zero.
Proof.
  destruct r as [h t e]. unfold grow. unr. intros (Hc & Hh & Ht).
  pose proof (new_size_gt (length e)) as Hns.
  set (ns := new_size (length e)) in *. clearbody ns.
  bd_lt h t; list_norm; crush.
Qed.

Lemma grow_head (r : ring) : head (grow zero r) = 0.
Proof. reflexivity. Qed.

Lemma grow_tail (r : ring) : tail (grow zero r) = len r.
Proof. reflexivity. Qed.

Lemma len_lt (r : ring) : wf r -> len r < cap r.
Proof.
  destruct r as [h t e]. unr. intros (Hc & Hh & Ht). crush.
Qed.

Lemma grow_len (r : ring) : len (grow zero r) = len r.
Proof.
  unfold len at 1. rewrite grow_head, grow_tail. simpl. apply Nat.sub_0_r.
Qed.

Lemma grow_wf (r : ring) : wf r -> wf (grow zero r).
Proof.
  intros W. pose proof (len_lt r W) as Hl. pose proof (new_size_gt (cap r)) as Hn.
  unfold wf. rewrite grow_cap, grow_head, grow_tail. lia.
Qed.

Lemma grow_abs (r : ring) : wf r -> abs (grow zero r) = abs r.
Proof.
  intros W. pose proof (grow_wf r W) as Wg. pose proof (grow_len r) as Lg.
  pose proof (len_lt r W) as Hl. pose proof (new_size_gt (cap r)) as Hn.
  apply nth_ext with (d := zero) (d' := zero).
  - rewrite !abs_length by assumption. exact Lg.
  - intros i Hi. rewrite abs_length in Hi by assumption. rewrite Lg in Hi.
    rewrite (abs_nth (grow zero r)) by (assumption || lia).
    rewrite (abs_nth r) by assumption.
    rewrite grow_head, grow_cap. simpl (0 + i).
    rewrite (Nat.mod_small i (new_size (cap r))) by lia.
    rewrite grow_nth by assumption.
    destruct (i <? _) eqn:E; [reflexivity|].
    apply Nat.ltb_ge in E. destruct (head r =? tail r); lia.
Qed.

Lemma grow_not_full (r : ring) : wf r -> is_full (grow zero r) = false.
Proof.
  intros W. pose proof (len_lt r W) as Hl. pose proof (new_size_gt (cap r)) as Hn.
  unfold is_full. rewrite grow_cap, grow_head, grow_tail.
  rewrite Nat.mod_small by lia. apply Nat.eqb_neq. lia.
Qed.

Lemma grow_clean (r : ring) : wf r -> clean zero r -> clean zero (grow zero r).
Proof.
  intros W C. rewrite clean_iff in *. intros i Hi D.
  rewrite grow_head, grow_tail in D. rewrite grow_nth by assumption.
  destruct r as [h t e]. unr. destruct W as (Hc & Hh & Ht). unfold dead in D.
  crush; apply C; unfold dead; lia.
Qed.

(* ---- push ---- *)

Definition push_nf (r : ring) (v : A) : ring :=
  mkRing (head r) ((tail r + 1) mod cap r) (set_nth (elems r) (tail r) v).

Lemma push_eq (r : ring) v :
  push zero r v = push_nf (if is_full r then grow zero r else r) v.
Proof. reflexivity. Qed.

Lemma push_nf_wf (r : ring) v : wf r -> wf (push_nf r v).
Proof.
  destruct r as [h t e]. unfold push_nf. unr. intros (Hc & Hh & Ht).
  rewrite set_nth_length. repeat split; try lia; apply Nat.mod_upper_bound; lia.
Qed.

Lemma push_nf_len (r : ring) v :
  wf r -> is_full r = false -> len (push_nf r v) = len r + 1.
Proof.
  destruct r as [h t e]. unfold push_nf. unr. intros (Hc & Hh & Ht) F.
  rewrite set_nth_length. crush.
Qed.

Lemma push_nf_abs (r : ring) v :
  wf r -> is_full r = false -> abs (push_nf r v) = abs r ++ [v].
Proof.
  intros W F. pose proof (push_nf_wf r v W) as W'. pose proof (push_nf_len r v W F) as L.
  apply nth_ext with (d := zero) (d' := zero).
  - rewrite app_length, !abs_length by assumption. simpl. exact L.
  - intros i Hi. rewrite abs_length in Hi by assumption.
    rewrite (abs_nth (push_nf r v)) by assumption.
    rewrite nth_app', abs_length by assumption.
    destruct (Nat.ltb_spec i (len r)) as [Hlt|Hge].
    + rewrite (abs_nth r) by assumption.
      destruct r as [h t e]. unfold push_nf in *. unr. destruct W as (Hc & Hh & Ht).
      list_norm. crush.
    + assert (Ei : i = len r) by lia. subst i. rewrite Nat.sub_diag. simpl nth at 2.
      destruct r as [h t e]. unfold push_nf in *. unr. destruct W as (Hc & Hh & Ht).
      list_norm. crush.
Qed.

Lemma push_nf_clean (r : ring) v :
  wf r -> is_full r = false -> clean zero r -> clean zero (push_nf r v).
Proof.
  intros W F C. rewrite clean_iff in *. intros i Hi D.
  destruct r as [h t e]. unfold push_nf in *. unr. destruct W as (Hc & Hh & Ht).
  unfold dead in D. rewrite set_nth_length in Hi. list_norm.
  crush; apply C; unfold dead; lia.
Qed.

Lemma push_spec (r : ring) v :
  wf r ->
  wf (push zero r v) /\ abs (push zero r v) = abs r ++ [v] /\
  (clean zero r -> clean zero (push zero r v)).
Proof.
  intros W. rewrite push_eq. destruct (is_full r) eqn:F.
  - pose proof (grow_wf r W) as Wg. pose proof (grow_not_full r W) as Fg.
    split; [apply push_nf_wf; exact Wg|]. split.
    + rewrite push_nf_abs by assumption. rewrite grow_abs by assumption. reflexivity.
    + intros C. apply push_nf_clean; try assumption. apply grow_clean; assumption.
  - split; [apply push_nf_wf; exact W|]. split.
    + apply push_nf_abs; assumption.
    + intros C. apply push_nf_clean; assumption.
Qed.

Lemma abs_ext (r : ring) (q : list A) :
  wf r -> length q = len r ->
  (forall i, i < len r -> nth ((head r + i) mod cap r) (elems r) zero = nth i q zero) ->
  abs r = q.
Proof.
  intros W L H. apply nth_ext with (d := zero) (d' := zero).
  - rewrite abs_length by exact W. symmetry. exact L.
  - intros i Hi. rewrite abs_length in Hi by exact W.
    rewrite abs_nth by assumption. apply H. exact Hi.
Qed.

(* ---- pop / peek ---- *)

Definition pop_ring (r : ring) : ring :=
  mkRing ((head r + 1) mod cap r) (tail r) (set_nth (elems r) (head r) zero).

Lemma pop_eq (r : ring) :
  pop zero r =
  if len r =? 0 then (r, None) else (pop_ring r, Some (nth (head r) (elems r) zero)).
Proof. reflexivity. Qed.

Lemma pop_ring_wf (r : ring) : wf r -> wf (pop_ring r).
Proof.
  destruct r as [h t e]. unfold pop_ring. unr. intros (Hc & Hh & Ht).
  rewrite set_nth_length. repeat split; try lia; apply Nat.mod_upper_bound; lia.
Qed.

Lemma pop_ring_len (r : ring) : wf r -> len r <> 0 -> len (pop_ring r) = len r - 1.
Proof.
  destruct r as [h t e]. unfold pop_ring. unr. intros (Hc & Hh & Ht) L.
  rewrite set_nth_length. crush.
Qed.

Lemma pop_ring_abs (r : ring) :
  wf r -> len r <> 0 -> abs r = nth (head r) (elems r) zero :: abs (pop_ring r).
Proof.
  intros W L. destruct (abs_cons r W L) as [q Hq].
  pose proof (abs_length r W) as AL. pose proof (pop_ring_wf r W) as W'.
  pose proof (pop_ring_len r W L) as L'.
  assert (Hn : forall i, i < len r - 1 ->
            nth i q zero = nth ((head r + S i) mod cap r) (elems r) zero).
  { intros i Hi. rewrite <- abs_nth by (assumption || lia). rewrite Hq. reflexivity. }
  rewrite Hq in AL. simpl in AL. rewrite Hq. f_equal. symmetry.
  apply abs_ext; [exact W' | lia |].
  intros i Hi. rewrite Hn by lia.
  destruct r as [h t e]. unfold pop_ring in *. unr. destruct W as (Hc & Hh & Ht).
  list_norm. crush.
Qed.

Lemma pop_ring_clean (r : ring) :
  wf r -> len r <> 0 -> clean zero r -> clean zero (pop_ring r).
Proof.
  intros W L C. rewrite clean_iff in *. intros i Hi D.
  destruct r as [h t e]. unfold pop_ring in *. unr. destruct W as (Hc & Hh & Ht).
  unfold dead in D. rewrite set_nth_length in Hi. list_norm.
  crush; apply C; unfold dead; lia.
Qed.

Lemma pop_spec (r : ring) :
  wf r ->
  wf (fst (pop zero r)) /\
  (abs (fst (pop zero r)), snd (pop zero r)) = q_pop (abs r) /\
  (clean zero r -> clean zero (fst (pop zero r))).
Proof.
  intros W. rewrite pop_eq. destruct (Nat.eqb_spec (len r) 0) as [L|L]; cbn [fst snd].
  - split; [exact W|]. split; [|intros C; exact C].
    rewrite (abs_nil r W L). reflexivity.
  - split; [apply pop_ring_wf; exact W|]. split.
    + rewrite (pop_ring_abs r W L). reflexivity.
    + apply pop_ring_clean; assumption.
Qed.

Lemma peek_spec (r : ring) : wf r -> peek zero r = q_peek (abs r).
Proof.
  intros W. unfold peek. destruct (Nat.eqb_spec (len r) 0) as [L|L].
  - rewrite (abs_nil r W L). reflexivity.
  - destruct (abs_cons r W L) as [q Hq]. rewrite Hq. reflexivity.
Qed.

(* ---- clear / discard ---- *)

Lemma clear_spec (r : ring) :
  wf r ->
  wf (clear zero r) /\ abs (clear zero r) = [] /\
  (clean zero r -> clean zero (clear zero r)).
Proof.
  intros W.
  assert (W' : wf (clear zero r)).
  { destruct r as [h t e]. unfold clear. unr. destruct W as (Hc & Hh & Ht).
    bd_le h t; list_norm; lia. }
  split; [exact W'|]. split.
  - apply abs_nil; [exact W' | reflexivity].
  - intros C. rewrite clean_iff in *. intros i Hi D. clear D.
    destruct r as [h t e]. unfold clear in *. unr. destruct W as (Hc & Hh & Ht).
    bd_le h t; rewrite ?clear_range_length in Hi; list_norm; crush; apply C; unfold dead; lia.
Qed.

Definition discard_lo (r : ring) (n : nat) : ring :=
  mkRing (head r + n) (tail r) (clear_range zero (elems r) (head r) (head r + n)).

Definition discard_hi (r : ring) (n : nat) : ring :=
  mkRing (head r + n - cap r) (tail r)
         (clear_range zero (clear_range zero (elems r) (head r) (cap r)) 0 (head r + n - cap r)).

Lemma discard_eq (r : ring) n :
  discard zero r n =
  let m := Nat.min n (len r) in
  if m =? len r then (clear zero r, m)
  else if head r + m <? cap r then (discard_lo r m, m) else (discard_hi r m, m).
Proof. reflexivity. Qed.

Lemma discard_part_spec (r r' : ring) n :
  wf r -> n < len r ->
  (head r + n < cap r /\ r' = discard_lo r n) \/
  (cap r <= head r + n /\ r' = discard_hi r n) ->
  wf r' /\ abs r' = skipn n (abs r) /\ (clean zero r -> clean zero r').
Proof.
  intros W Hn Hr. pose proof (abs_length r W) as AL.
  assert (HS : forall i, i < len r - n ->
            nth i (skipn n (abs r)) zero =
            nth ((head r + (n + i)) mod cap r) (elems r) zero).
  { intros i Hi. rewrite nth_skipn'. apply abs_nth; [exact W | lia]. }
  assert (HL : length (skipn n (abs r)) = len r - n) by (rewrite skipn_length; lia).
  revert HS HL. generalize (skipn n (abs r)). intros q HS HL. clear AL.
  assert (W' : wf r').
  { destruct r as [h t e]. unfold discard_lo, discard_hi in Hr. unr.
    destruct W as (Hc & Hh & Ht).
    destruct Hr as [[Hlt ->]|[Hge ->]]; cbn [head tail elems]; list_norm; crush. }
  assert (L' : len r' = len r - n).
  { destruct r as [h t e]. unfold discard_lo, discard_hi in Hr. unr.
    destruct W as (Hc & Hh & Ht).
    destruct Hr as [[Hlt ->]|[Hge ->]]; cbn [head tail elems]; list_norm; crush. }
  split; [exact W'|]. split.
  - apply abs_ext; [exact W' | lia |].
    intros i Hi. rewrite L' in Hi. rewrite HS by exact Hi.
    clear HS HL q W' L'.
    destruct r as [h t e]. unfold discard_lo, discard_hi in Hr. unr.
    destruct W as (Hc & Hh & Ht).
    destruct Hr as [[Hlt ->]|[Hge ->]]; cbn [head tail elems]; list_norm; crush.
  - intros C. rewrite clean_iff in *. intros i Hi D. clear HS HL q W' L'.
    destruct r as [h t e]. unfold discard_lo, discard_hi in Hr. unr.
    destruct W as (Hc & Hh & Ht). unfold dead in D.
    destruct Hr as [[Hlt ->]|[Hge ->]]; cbn [head tail elems] in *;
      rewrite ?clear_range_length in Hi; list_norm; crush; apply C; unfold dead; lia.
Qed.

Lemma discard_spec (r : ring) n :
  wf r ->
  wf (fst (discard zero r n)) /\
  abs (fst (discard zero r n)) = skipn n (abs r) /\
  snd (discard zero r n) = Nat.min n (length (abs r)) /\
  (clean zero r -> clean zero (fst (discard zero r n))).
Proof.
  intros W. pose proof (abs_length r W) as AL. rewrite discard_eq. rewrite AL.
  cbv zeta.
  destruct (Nat.eqb_spec (Nat.min n (len r)) (len r)) as [E|E]; cbn [fst snd].
  - destruct (clear_spec r W) as (Wc & Ac & Cc).
    split; [exact Wc|]. split; [|split; [reflexivity | exact Cc]].
    rewrite Ac. symmetry. apply skipn_all2. lia.
  - assert (Hn : n < len r) by lia.
    replace (Nat.min n (len r)) with n by lia.
    destruct (Nat.ltb_spec (head r + n) (cap r)) as [E2|E2]; cbn [fst snd].
    + destruct (discard_part_spec r (discard_lo r n) n W Hn) as (W' & A' & C').
      { left. split; [exact E2 | reflexivity]. }
      split; [exact W'|]. split; [exact A'|]. split; [reflexivity | exact C'].
    + destruct (discard_part_spec r (discard_hi r n) n W Hn) as (W' & A' & C').
      { right. split; [exact E2 | reflexivity]. }
      split; [exact W'|]. split; [exact A'|]. split; [reflexivity | exact C'].
Qed.

(* ---- iteration ---- *)

Lemma visit_spec (f : @visitor A) : forall idxs seen e,
  NoDup idxs -> (forall i, In i idxs -> i < length e) ->
  length (visit zero f seen e idxs) = length e /\
  map (fun i => nth i (visit zero f seen e idxs) zero) idxs =
    q_visit f seen (map (fun i => nth i e zero) idxs) /\
  (forall j, ~ In j idxs -> nth j (visit zero f seen e idxs) zero = nth j e zero).
Proof.
  induction idxs as [|i rest IH]; intros seen e ND B.
  - simpl. split; [reflexivity|]. split; [reflexivity|]. intros j Hj. reflexivity.
  - inversion ND as [|x l Hni ND' Ex]; subst x l.
    assert (Bi : i < length e) by (apply B; left; reflexivity).
    simpl visit. simpl map. simpl q_visit.
    destruct (f seen (nth i e zero)) as [v' cont] eqn:Ef.
    assert (Hrest : map (fun k => nth k (set_nth e i v') zero) rest =
                    map (fun k => nth k e zero) rest).
    { apply map_ext_in. intros k Hk. rewrite nth_set_nth.
      destruct (Nat.eqb_spec k i) as [Hki|Hki]; [subst k; contradiction | reflexivity]. }
    assert (Hi : nth i (set_nth e i v') zero = v').
    { rewrite nth_set_nth, Nat.eqb_refl, (proj2 (Nat.ltb_lt _ _) Bi). reflexivity. }
    assert (Hother : forall j, ~ In j (i :: rest) ->
                       nth j (set_nth e i v') zero = nth j e zero).
    { intros j Hj. rewrite nth_set_nth.
      destruct (Nat.eqb_spec j i) as [Hji|Hji]; [|reflexivity].
      exfalso. apply Hj. left. symmetry. exact Hji. }
    destruct cont.
    + destruct (IH (nth i e zero :: seen) (set_nth e i v') ND') as (L & M & U).
      { intros k Hk. rewrite set_nth_length. apply B. right. exact Hk. }
      rewrite set_nth_length in L. split; [exact L|]. split.
      * rewrite (U i Hni), Hi. f_equal. rewrite M, Hrest. reflexivity.
      * intros j Hj. rewrite U by (intros Hc; apply Hj; right; exact Hc).
        apply Hother. exact Hj.
    + split; [apply set_nth_length|]. split.
      * rewrite Hi. f_equal. exact Hrest.
      * exact Hother.
Qed.

Lemma fwd_order_NoDup (r : ring) : wf r -> NoDup (fwd_order r).
Proof.
  destruct r as [h t e]. unfold fwd_order. unr. intros (Hc & Hh & Ht).
  bd_lt h t; [apply seq_NoDup|].
  apply NoDup_app'; try apply seq_NoDup.
  intros x Hx Hy. rewrite in_seq in Hx, Hy. lia.
Qed.

Lemma fwd_order_In (r : ring) i :
  wf r -> head r <> tail r ->
  (In i (fwd_order r) <-> i < cap r /\ ~ dead (head r) (tail r) i).
Proof.
  destruct r as [h t e]. unfold fwd_order, dead. unr. intros (Hc & Hh & Ht) Hne.
  bd_lt h t; rewrite ?in_app_iff, ?in_seq; lia.
Qed.

Lemma fwd_order_abs (r : ring) :
  wf r -> head r <> tail r ->
  abs r = map (fun i => nth i (elems r) zero) (fwd_order r).
Proof.
  destruct r as [h t e]. unfold abs, fwd_order. unr. intros (Hc & Hh & Ht) Hne.
  bd_lt h t.
  - rewrite map_nth_seq by lia. bd_le h t; [|lia].
    rewrite firstn_app, skipn_length.
    replace (t - h - (length e - h)) with 0 by lia.
    simpl. apply app_nil_r.
  - bd_le h t; [lia|].
    rewrite map_app, !map_nth_seq by lia.
    rewrite firstn_app, skipn_length. simpl skipn.
    rewrite !(firstn_all2 (skipn h e)) by (rewrite skipn_length; lia).
    f_equal. f_equal. lia.
Qed.

Definition visited (r : ring) (f : @visitor A) (idxs : list nat) : ring :=
  mkRing (head r) (tail r) (visit zero f [] (elems r) idxs).

Lemma visited_spec (r : ring) f idxs :
  wf r -> head r <> tail r -> NoDup idxs ->
  (forall i, In i idxs <-> In i (fwd_order r)) ->
  wf (visited r f idxs) /\
  fwd_order (visited r f idxs) = fwd_order r /\
  map (fun i => nth i (elems (visited r f idxs)) zero) idxs =
    q_visit f [] (map (fun i => nth i (elems r) zero) idxs) /\
  (clean zero r -> clean zero (visited r f idxs)).
Proof.
  intros W Hne ND HI.
  assert (Hnot : forall i, i < cap r -> dead (head r) (tail r) i -> ~ In i idxs).
  { intros i Hi D Hin. apply HI in Hin. apply fwd_order_In in Hin; try assumption.
    destruct Hin as [_ Hin]. exact (Hin D). }
  destruct (visit_spec f idxs [] (elems r) ND) as (L & M & U).
  { intros i Hi. apply HI in Hi. apply fwd_order_In in Hi; try assumption. apply Hi. }
  assert (Hcap : cap (visited r f idxs) = cap r) by exact L.
  split. { unfold wf. rewrite Hcap. exact W. }
  split. { unfold fwd_order. rewrite Hcap. reflexivity. }
  split. { exact M. }
  intros C. rewrite clean_iff in *. intros i Hi D. rewrite Hcap in Hi.
  cbn [visited head tail elems] in *.
  rewrite U by (apply Hnot; assumption). apply C; assumption.
Qed.

Lemma map_rev_eq {B C : Type} (g : B -> C) l X :
  map g (rev l) = X -> map g l = rev X.
Proof. intros H. rewrite <- H, map_rev, rev_involutive. reflexivity. Qed.

Lemma foreach_spec (r : ring) f :
  wf r ->
  wf (foreach zero r f) /\ abs (foreach zero r f) = q_foreach (abs r) f /\
  (clean zero r -> clean zero (foreach zero r f)).
Proof.
  intros W. unfold foreach. destruct (Nat.eqb_spec (len r) 0) as [L|L].
  - split; [exact W|]. split; [|intros C; exact C].
    rewrite (abs_nil r W L). reflexivity.
  - assert (Hne : head r <> tail r) by (rewrite <- len_empty_iff; assumption).
    fold (visited r f (fwd_order r)).
    destruct (visited_spec r f (fwd_order r) W Hne (fwd_order_NoDup r W)
                (fun i => iff_refl _)) as (W' & F' & M' & C').
    split; [exact W'|]. split; [|exact C'].
    rewrite (fwd_order_abs _ W' Hne), F', M'.
    rewrite <- fwd_order_abs by assumption. reflexivity.
Qed.

Lemma foreach_rev_spec (r : ring) f :
  wf r ->
  wf (foreach_rev zero r f) /\ abs (foreach_rev zero r f) = q_foreach_rev (abs r) f /\
  (clean zero r -> clean zero (foreach_rev zero r f)).
Proof.
  intros W. unfold foreach_rev. destruct (Nat.eqb_spec (len r) 0) as [L|L].
  - split; [exact W|]. split; [|intros C; exact C].
    rewrite (abs_nil r W L). reflexivity.
  - assert (Hne : head r <> tail r) by (rewrite <- len_empty_iff; assumption).
    fold (visited r f (rev (fwd_order r))).
    destruct (visited_spec r f (rev (fwd_order r)) W Hne
                (@NoDup_rev _ _ (fwd_order_NoDup r W))
                (fun i => iff_sym (in_rev (fwd_order r) i))) as (W' & F' & M' & C').
    split; [exact W'|]. split; [|exact C'].
    rewrite (fwd_order_abs _ W' Hne), F'.
    rewrite (map_rev_eq _ _ _ M'). rewrite map_rev.
    rewrite <- fwd_order_abs by assumption. reflexivity.
Qed.

(* ---- one step, then histories ---- *)

Lemma step_spec (r : ring) (o : op A) :
  wf r ->
  wf (fst (step zero r o)) /\
  abs (fst (step zero r o)) = fst (q_step (abs r) o) /\
  snd (step zero r o) = snd (q_step (abs r) o) /\
  (clean zero r -> clean zero (fst (step zero r o))).
Proof.
  intros W. destruct o as [v| | |n| |f|f|]; cbn [step q_step].
  - destruct (push_spec r v W) as (W' & A' & C'). cbn [fst snd].
    split; [exact W'|]. split; [exact A'|]. split; [reflexivity | exact C'].
  - destruct (pop_spec r W) as (W' & A' & C').
    destruct (pop zero r) as [r' x]. destruct (q_pop (abs r)) as [q' y].
    cbn [fst snd] in *. inversion A' as [[Ha Hx]].
    split; [exact W'|]. split; [reflexivity|]. split; [reflexivity | exact C'].
  - cbn [fst snd]. rewrite (peek_spec r W).
    split; [exact W|]. split; [reflexivity|]. split; [reflexivity | intros C; exact C].
  - destruct (discard_spec r n W) as (W' & A' & N' & C').
    destruct (discard zero r n) as [r' k]. unfold q_discard. cbn [fst snd] in *.
    split; [exact W'|]. split; [exact A'|]. split; [rewrite N'; reflexivity | exact C'].
  - destruct (clear_spec r W) as (W' & A' & C'). cbn [fst snd].
    split; [exact W'|]. split; [exact A'|]. split; [reflexivity | exact C'].
  - destruct (foreach_spec r f W) as (W' & A' & C'). cbn [fst snd].
    split; [exact W'|]. split; [exact A'|]. split; [reflexivity | exact C'].
  - destruct (foreach_rev_spec r f W) as (W' & A' & C'). cbn [fst snd].
    split; [exact W'|]. split; [exact A'|]. split; [reflexivity | exact C'].
  - cbn [fst snd]. rewrite (abs_length r W).
    split; [exact W|]. split; [reflexivity|]. split; [reflexivity | intros C; exact C].
Qed.

Lemma run_spec : forall (ops : list (op A)) (r : ring),
  wf r ->
  let '(r', outs) := run zero r ops in
  let '(q', qouts) := q_run (abs r) ops in
  wf r' /\ abs r' = q' /\ outs = qouts.
Proof.
  induction ops as [|o ops IH]; intros r W.
  - simpl. split; [exact W|]. split; reflexivity.
  - simpl run. simpl q_run.
    destruct (step_spec r o W) as (W1 & A1 & O1 & _).
    destruct (step zero r o) as [r1 x]. destruct (q_step (abs r) o) as [q1 y].
    cbn [fst snd] in W1, A1, O1. subst q1 y.
    specialize (IH r1 W1).
    destruct (run zero r1 ops) as [r2 xs]. destruct (q_run (abs r1) ops) as [q2 ys].
    destruct IH as (W2 & A2 & O2).
    split; [exact W2|]. split; [exact A2|]. rewrite O2. reflexivity.
Qed.

Lemma run_clean : forall (ops : list (op A)) (r : ring),
  wf r -> clean zero r -> clean zero (fst (run zero r ops)).
Proof.
  induction ops as [|o ops IH]; intros r W C.
  - exact C.
  - simpl run.
    destruct (step_spec r o W) as (W1 & _ & _ & C1). specialize (C1 C).
    destruct (step zero r o) as [r1 x]. cbn [fst snd] in W1, C1.
    specialize (IH r1 W1 C1).
    destruct (run zero r1 ops) as [r2 xs]. exact IH.
Qed.

(* ---- Len / MaxLen / IsEmpty / IsFull ---- *)

Lemma len_facts (r : ring) :
  wf r ->
  len r = length (abs r) /\ max_len r = cap r - 1 /\ len r <= max_len r /\
  (is_empty r = true <-> abs r = []) /\ (is_full r = true <-> len r = max_len r).
Proof.
  intros W. pose proof (abs_length r W) as AL. pose proof (len_lt r W) as LL.
  pose proof (len_empty_iff r W) as LE.
  split; [symmetry; exact AL|]. split; [reflexivity|].
  split; [unfold max_len; lia|]. split.
  - unfold is_empty. rewrite Nat.eqb_eq, <- LE, <- length_zero_iff_nil, AL. reflexivity.
  - clear AL LL LE. destruct r as [h t e]. unr. destruct W as (Hc & Hh & Ht).
    split; intros H; crush.
Qed.

(* ---- NewRingBuffer ---- *)

Lemma new_ring_facts (size : nat) :
  wf (new_ring zero size) /\ clean zero (new_ring zero size) /\
  abs (new_ring zero size) = [] /\
  cap (new_ring zero size) = Nat.max size (Z.to_nat c_RINGBUFFER_MIN).
Proof.
  unfold new_ring. rewrite ring_min_val.
  set (s := if size <=? 8 then 8 else size).
  assert (Hs : s = Nat.max size 8) by (subst s; destruct (Nat.leb_spec size 8); lia).
  assert (Hcap : cap (mkRing 0 0 (repeat zero s)) = s) by apply repeat_length.
  assert (W : wf (mkRing 0 0 (repeat zero s))).
  { unfold wf. rewrite Hcap. cbn [head tail]. lia. }
  split; [exact W|]. split; [|split].
  - intros i Hi Hl. cbn [elems]. apply nth_repeat.
  - apply abs_nil; [exact W | reflexivity].
  - rewrite Hcap. exact Hs.
Qed.

(* ---- grow regimes ---- *)

Lemma grow_facts (r : ring) :
  wf r ->
  wf (grow zero r) /\ abs (grow zero r) = abs r /\ head (grow zero r) = 0 /\
  cap (grow zero r) = new_size (cap r) /\ cap r < cap (grow zero r) /\
  (cap r < 8 -> cap (grow zero r) = 8) /\
  (8 <= cap r < 1024 -> cap (grow zero r) = 2 * cap r) /\
  (1024 <= cap r -> cap (grow zero r) = cap r + (cap r + 9) / 10).
Proof.
  intros W. pose proof (new_size_gt (cap r)) as Hgt.
  split; [apply grow_wf; exact W|]. split; [apply grow_abs; exact W|].
  split; [reflexivity|]. split; [apply grow_cap|].
  rewrite grow_cap. split; [exact Hgt|].
  destruct (new_size_spec (cap r)) as [[H E]|[[H E]|[H E]]]; rewrite E;
    (split; [|split]); intros H'; lia.
Qed.

End RingProofs.

(* ------------------------------------------------------------------------------------ *)
(* the lemmas C20.v refers to                                                             *)

Lemma ring_refines_queue :
  forall (A : Type) (zero : A) (ops : list (op A)) (r : ring A),
    wf r ->
    let '(r', outs) := run zero r ops in
    let '(q', qouts) := q_run (abs r) ops in
    wf r' /\ abs r' = q' /\ outs = qouts.
Proof. intros A zero ops r. apply run_spec. Qed.

Lemma ring_len_facts :
  forall (A : Type) (r : ring A), wf r ->
    len r = length (abs r) /\ max_len r = cap r - 1 /\ len r <= max_len r /\
    (is_empty r = true <-> abs r = []) /\ (is_full r = true <-> len r = max_len r).
Proof. intros A r. apply len_facts. Qed.

Lemma ring_no_retention :
  forall (A : Type) (zero : A) (ops : list (op A)) (r : ring A),
    wf r -> clean zero r -> clean zero (fst (run zero r ops)).
Proof. intros A zero ops r. apply run_clean. Qed.

Lemma ring_new_facts :
  forall (A : Type) (zero : A) (size : nat),
    let r := new_ring zero size in
    wf r /\ clean zero r /\ abs r = [] /\ cap r = Nat.max size (Z.to_nat c_RINGBUFFER_MIN).
Proof. intros A zero size. cbv zeta. apply new_ring_facts. Qed.

Lemma ring_grow_facts :
  forall (A : Type) (zero : A) (r : ring A), wf r ->
    let g := grow zero r in
    wf g /\ abs g = abs r /\ head g = 0 /\ cap g = new_size (cap r) /\ cap r < cap g /\
    (cap r < 8 -> cap g = 8) /\
    (8 <= cap r < 1024 -> cap g = 2 * cap r) /\
    (1024 <= cap r -> cap g = cap r + (cap r + 9) / 10).
Proof. intros A zero r W. cbv zeta. apply grow_facts. exact W. Qed.

Lemma ring_wrapped_example :
  let r := mkRing 3 2 [10; 11; 0; 7; 8; 9]%Z in
  wf r /\ clean 0%Z r /\ abs r = [7; 8; 9; 10; 11]%Z /\ is_full r = true /\
  abs (fst (run 0%Z r [OPush 12%Z; OPop; ODiscard 2])) = [10; 11; 12]%Z.
Proof.
  cbv zeta. split; [|split; [|split; [|split]]].
  - unfold wf, cap. cbn [head tail elems length]. lia.
  - intros i Hi Hl. unfold cap in Hi. cbn [elems length] in Hi.
    do 6 (destruct i as [|i]; [first [reflexivity | discriminate Hl]|]). lia.
  - vm_compute. reflexivity.
  - vm_compute. reflexivity.
  - vm_compute. reflexivity.
Qed.

Print Assumptions ring_refines_queue.
Print Assumptions ring_len_facts.
Print Assumptions ring_no_retention.
Print Assumptions ring_new_facts.
Print Assumptions ring_grow_facts.
Print Assumptions ring_wrapped_example.
