(* ringbuffer.go transcribed.  Executable Gallina only; proofs are in RingProofs.v.
   A slot holds a value of A; `zero` is Go's zero value of T ("var zero T"), which is what a
   cleared slot contains.  head/tail/len are nat (they index a list). *)
From Coq Require Import List Arith ZArith Bool.
From KV.Base Require Import Consts.
Import ListNotations.
Local Open Scope nat_scope.

Section Ring.
Context {A : Type} (zero : A).

Record ring := mkRing { head : nat; tail : nat; elems : list A }.

Definition cap (r : ring) : nat := length (elems r).

(* func (r *RingBuffer[T]) Len() int *)
Definition len (r : ring) : nat :=
  if head r <=? tail r then tail r - head r else cap r - head r + tail r.

Definition is_empty (r : ring) : bool := head r =? tail r.
Definition max_len (r : ring) : nat := cap r - 1.
Definition is_full (r : ring) : bool := ((tail r + 1) mod cap r) =? head r.

Fixpoint set_nth (l : list A) (i : nat) (v : A) : list A :=
  match l, i with
  | [], _ => []
  | _ :: t, O => v :: t
  | x :: t, S i' => x :: set_nth t i' v
  end.

(* clear(elements[lo:hi]) *)
Fixpoint clear_range (l : list A) (lo hi : nat) : list A :=
  match l with
  | [] => []
  | x :: t =>
      match lo, hi with
      | _, O => x :: t
      | O, S hi' => zero :: clear_range t O hi'
      | S lo', S hi' => x :: clear_range t lo' hi'
      end
  end.

Definition new_size (c : nat) : nat :=
  if c <? Z.to_nat c_RINGBUFFER_MIN then Z.to_nat c_RINGBUFFER_MIN
  else if c <? Z.to_nat c_RINGBUFFER_EXP then c * 2
  else c + (c + 9) / 10.

(* the live elements in queue order, straight from the two `copy` calls of grow() *)
Definition live (r : ring) : list A :=
  if head r <? tail r then firstn (tail r - head r) (skipn (head r) (elems r))
  else skipn (head r) (elems r) ++ firstn (tail r) (elems r).

(* copy(dst, src): overwrite a prefix of dst by src, never beyond len(dst) *)
Fixpoint copy_into (dst src : list A) : list A :=
  match dst, src with
  | [], _ => []
  | d, [] => d
  | _ :: d', s :: s' => s :: copy_into d' s'
  end.

Definition grow (r : ring) : ring :=
  let n := len r in
  let ns := new_size (cap r) in
  let fresh := repeat zero ns in
  let ne :=
    if head r <? tail r then copy_into fresh (firstn (tail r - head r) (skipn (head r) (elems r)))
    else
      let first := skipn (head r) (elems r) in
      let k := Nat.min (length first) ns in
      firstn k (copy_into fresh first) ++ copy_into (skipn k fresh) (firstn (tail r) (elems r)) in
  mkRing 0 n ne.

Definition push (r : ring) (v : A) : ring :=
  let r1 := if is_full r then grow r else r in
  mkRing (head r1) ((tail r1 + 1) mod cap r1) (set_nth (elems r1) (tail r1) v).

Definition pop (r : ring) : ring * option A :=
  if len r =? 0 then (r, None)
  else
    let v := nth (head r) (elems r) zero in
    (mkRing ((head r + 1) mod cap r) (tail r) (set_nth (elems r) (head r) zero), Some v).

Definition peek (r : ring) : option A :=
  if len r =? 0 then None else Some (nth (head r) (elems r) zero).

Definition clear (r : ring) : ring :=
  let e :=
    if head r <=? tail r then clear_range (elems r) (head r) (tail r)
    else clear_range (clear_range (elems r) (head r) (cap r)) 0 (tail r) in
  mkRing 0 0 e.

Definition discard (r : ring) (n : nat) : ring * nat :=
  let cur := len r in
  let n := Nat.min n cur in
  if n =? cur then (clear r, n)
  else
    let c := cap r in
    let e := head r + n in
    if e <? c then (mkRing e (tail r) (clear_range (elems r) (head r) e), n)
    else (mkRing (e - c) (tail r) (clear_range (clear_range (elems r) (head r) c) 0 (e - c)), n).

(* Iteration with in-place mutation and early stop.  A visitor is a Go closure; whatever
   state it keeps is a function of the values it has been shown so far, so it is modelled as
   f seen v = (value left in the slot, continue?) where `seen` lists the values of the slots
   visited earlier in this iteration (as they were when visited, most recent first).
   `idxs` is the index order. *)
Definition visitor := list A -> A -> A * bool.
Fixpoint visit (f : visitor) (seen : list A) (e : list A) (idxs : list nat) : list A :=
  match idxs with
  | [] => e
  | i :: rest =>
      let v := nth i e zero in
      let '(v', cont) := f seen v in
      let e' := set_nth e i v' in
      if cont then visit f (v :: seen) e' rest else e'
  end.

Definition fwd_order (r : ring) : list nat :=
  if head r <? tail r then seq (head r) (tail r - head r)
  else seq (head r) (cap r - head r) ++ seq 0 (tail r).

Definition foreach (r : ring) (f : visitor) : ring :=
  if len r =? 0 then r else mkRing (head r) (tail r) (visit f [] (elems r) (fwd_order r)).

Definition foreach_rev (r : ring) (f : visitor) : ring :=
  if len r =? 0 then r else mkRing (head r) (tail r) (visit f [] (elems r) (rev (fwd_order r))).

Definition new_ring (size : nat) : ring :=
  let s := if size <=? Z.to_nat c_RINGBUFFER_MIN then Z.to_nat c_RINGBUFFER_MIN else size in
  mkRing 0 0 (repeat zero s).

(* ---- the abstract FIFO queue: a list, oldest first ---- *)
Definition q_push (q : list A) (v : A) := q ++ [v].
Definition q_pop (q : list A) : list A * option A :=
  match q with [] => ([], None) | x :: t => (t, Some x) end.
Definition q_peek (q : list A) : option A := hd_error q.
Definition q_discard (q : list A) (n : nat) : list A * nat := (skipn n q, Nat.min n (length q)).
Fixpoint q_visit (f : visitor) (seen : list A) (q : list A) : list A :=
  match q with
  | [] => []
  | x :: t => let '(x', cont) := f seen x in if cont then x' :: q_visit f (x :: seen) t else x' :: t
  end.
Definition q_foreach (q : list A) (f : visitor) := q_visit f [] q.
Definition q_foreach_rev (q : list A) (f : visitor) := rev (q_visit f [] (rev q)).

(* abstraction function: the queue a ring represents *)
Definition abs (r : ring) : list A := firstn (len r) (skipn (head r) (elems r) ++ elems r).

(* operations, for histories *)
Inductive op :=
| OPush (v : A) | OPop | OPeek | ODiscard (n : nat) | OClear
| OForEach (f : visitor) | OForEachRev (f : visitor) | OLen.

Inductive out := RNone | RVal (v : option A) | RNat (n : nat).

Definition step (r : ring) (o : op) : ring * out :=
  match o with
  | OPush v => (push r v, RNone)
  | OPop => let '(r', v) := pop r in (r', RVal v)
  | OPeek => (r, RVal (peek r))
  | ODiscard n => let '(r', k) := discard r n in (r', RNat k)
  | OClear => (clear r, RNone)
  | OForEach f => (foreach r f, RNone)
  | OForEachRev f => (foreach_rev r f, RNone)
  | OLen => (r, RNat (len r))
  end.

Definition q_step (q : list A) (o : op) : list A * out :=
  match o with
  | OPush v => (q_push q v, RNone)
  | OPop => let '(q', v) := q_pop q in (q', RVal v)
  | OPeek => (q, RVal (q_peek q))
  | ODiscard n => let '(q', k) := q_discard q n in (q', RNat k)
  | OClear => ([], RNone)
  | OForEach f => (q_foreach q f, RNone)
  | OForEachRev f => (q_foreach_rev q f, RNone)
  | OLen => (q, RNat (length q))
  end.

Fixpoint run (r : ring) (ops : list op) : ring * list out :=
  match ops with
  | [] => (r, [])
  | o :: t => let '(r1, x) := step r o in let '(r2, xs) := run r1 t in (r2, x :: xs)
  end.

Fixpoint q_run (q : list A) (ops : list op) : list A * list out :=
  match ops with
  | [] => (q, [])
  | o :: t => let '(q1, x) := q_step q o in let '(q2, xs) := q_run q1 t in (q2, x :: xs)
  end.

(* well-formed layouts: every layout reachable through any history, and more *)
Definition live_idx (r : ring) (i : nat) : bool :=
  if head r <=? tail r then (head r <=? i) && (i <? tail r)
  else (head r <=? i) || (i <? tail r).

Definition wf (r : ring) : Prop :=
  1 <= cap r /\ head r < cap r /\ tail r < cap r.

(* "popped or discarded slots no longer retain their elements" *)
Definition clean (r : ring) : Prop :=
  forall i, i < cap r -> live_idx r i = false -> nth i (elems r) zero = zero.

End Ring.

Arguments ring A : clear implicits.
Arguments op A : clear implicits.
Arguments out A : clear implicits.
