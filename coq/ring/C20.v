(* C20 - the ring buffer is a FIFO queue for every operation sequence.
   Statements only; every proof is `exact <lemma of RingProofs>`. *)
From Coq Require Import List Arith ZArith.
From KV.Base Require Import Consts.
From KV.Ring Require Import Model RingProofs.
Import ListNotations.

(* Refinement: from EVERY well-formed layout (any capacity >= 1, any head/tail, wrapped or
   not - hence every state reachable through any growth history), every operation sequence
   yields exactly the outputs of the list queue and ends in a layout representing the queue's
   final content; well-formedness is preserved. *)
Theorem c20_refines :
  forall (A : Type) (zero : A) (ops : list (op A)) (r : ring A),
    wf r ->
    let '(r', outs) := run zero r ops in
    let '(q', qouts) := q_run (abs r) ops in
    wf r' /\ abs r' = q' /\ outs = qouts.
Proof. exact ring_refines_queue. Qed.
Print Assumptions c20_refines.

(* Len / MaxLen / IsEmpty / IsFull agree with the queue. *)
Theorem c20_len :
  forall (A : Type) (r : ring A), wf r ->
    len r = length (abs r) /\ max_len r = cap r - 1 /\ len r <= max_len r /\
    (is_empty r = true <-> abs r = []) /\ (is_full r = true <-> len r = max_len r).
Proof. exact ring_len_facts. Qed.
Print Assumptions c20_len.

(* Popped, discarded or cleared slots no longer retain their elements: if every slot outside
   the live range holds the zero value, that remains so after any operation sequence. *)
Theorem c20_no_retention :
  forall (A : Type) (zero : A) (ops : list (op A)) (r : ring A),
    wf r -> clean zero r -> clean zero (fst (run zero r ops)).
Proof. exact ring_no_retention. Qed.
Print Assumptions c20_no_retention.

(* NewRingBuffer yields a well-formed, clean, empty ring of capacity max(size, 8). *)
Theorem c20_new_ring :
  forall (A : Type) (zero : A) (size : nat),
    let r := new_ring zero size in
    wf r /\ clean zero r /\ abs r = [] /\ cap r = Nat.max size (Z.to_nat c_RINGBUFFER_MIN).
Proof. exact ring_new_facts. Qed.
Print Assumptions c20_new_ring.

(* Growth: 8 below 8, doubling below 1024, +10 % (rounded up) from there on; order kept. *)
Theorem c20_grow_regimes :
  forall (A : Type) (zero : A) (r : ring A), wf r ->
    let g := grow zero r in
    wf g /\ abs g = abs r /\ head g = 0 /\ cap g = new_size (cap r) /\ cap r < cap g /\
    (cap r < 8 -> cap g = 8) /\
    (8 <= cap r < 1024 -> cap g = 2 * cap r) /\
    (1024 <= cap r -> cap g = cap r + (cap r + 9) / 10).
Proof. exact ring_grow_facts. Qed.
Print Assumptions c20_grow_regimes.

(* Non-vacuity: a wrapped, full layout is well-formed and clean; pushing makes it grow. *)
Example c20_wrapped_example :
  let r := mkRing 3 2 [10; 11; 0; 7; 8; 9]%Z in
  wf r /\ clean 0%Z r /\ abs r = [7; 8; 9; 10; 11]%Z /\ is_full r = true /\
  abs (fst (run 0%Z r [OPush 12%Z; OPop; ODiscard 2])) = [10; 11; 12]%Z.
Proof. exact ring_wrapped_example. Qed.
