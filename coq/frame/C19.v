(* C19 - out-of-band messages: intact or absent, and never disturb the stream.
   Statements only; every proof is `exact <lemma>`.

   "or not at all" (a corrupted OOB datagram has no effect) is the integrity gate's theorem
   (C06's engine); "never to another session" on a listener is the demultiplexer's (C11's
   engine, boundary B3) - the session-level demultiplexer modelled here has one handler. *)
From Coq Require Import ZArith List Bool.
From KV.Base Require Import Consts Word.
From KV.Frame Require Import Wire Frame WireProofs FrameProofs FecProofs FrameExamples.
Import ListNotations.
Local Open Scope Z_scope.

(* SendOOB -> encodeOOB -> nonce/CRC/encrypt (or AEAD seal) -> wire -> packetInput ->
   kcpInput -> handler: exactly the payload, any length with 4 + |payload| <= mtu (0 included),
   every cipher class; no parity, encoder untouched, receiver state untouched. *)
Theorem c19_roundtrip :
  forall (rs_encode : Z -> Z -> list bytes -> list bytes) (K : crypto),
    (forall b, k_dec K (k_enc K b) = b) ->
    (forall b, blen (k_enc K b) = blen b) ->
    (forall n p, k_open K n (k_seal K n p) = Some p) ->
    (forall n p, blen (k_seal K n p) = blen p + k_ov K) ->
    (forall b, 0 <= k_crc K b < W32) ->
    forall (Core Dec : Type) (core_input : Core -> bytes -> Z -> Core) (dec_new : Z -> Z -> Dec)
           (dec_decode : Dec -> bytes -> Dec * list bytes)
           (c : cipher) (e : fecenc) (nonce : bytes) (conv : Z) (payload : bytes) (mtu now : Z)
           (st : rxstate Core Dec),
      blen nonce = nonce_len K c -> is_u32 conv ->
      c_convSize + blen payload <= mtu ->
      rx_handler Core Dec st = true ->
      exists r : req,
        send_oob (Some e) mtu conv payload false = OobQueued r /\
        (let '(fe1, body, ps) := stage1 rs_encode (Some e) r now in
         fe1 = Some e /\ ps = [] /\
         packet_input K Core Dec core_input dec_new dec_decode c st (frame K c nonce body) =
           (st, [EvOOB payload])).
Proof. exact oob_roundtrip. Qed.
Print Assumptions c19_roundtrip.

Example c19_roundtrip_example :
  match send_oob ex_fec 21 287454020 [7; 8; 9] false with
  | OobQueued r =>
    let '(fe1, body, ps) := stage1 toy_rs ex_fec r 0 in
    fe1 = ex_fec /\ ps = [] /\
    ex_pi CCrc ex_rx (frame toyK CCrc ex_nonce16 body) = (ex_rx, [EvOOB [7; 8; 9]]) /\
    ex_pi CAead ex_rx (frame toyK CAead ex_nonce12 body) = (ex_rx, [EvOOB [7; 8; 9]]) /\
    (match send_oob ex_fec 21 287454020 [] false with
     | OobQueued r0 => let '(_, b0, _) := stage1 toy_rs ex_fec r0 0 in
                       ex_pi CCrc ex_rx (frame toyK CCrc ex_nonce16 b0) = (ex_rx, [EvOOB []])
     | _ => False end) /\
    (let '(_, b1, _) := stage1 toy_rs ex_fec (mkReq ex_kcp false) 0 in
     fst (ex_pi CCrc ex_rx (frame toyK CCrc ex_nonce16 b1)) <> ex_rx)
  | _ => False
  end.
Proof. exact ex_oob_roundtrip. Qed.

(* SendOOB errors iff there is no FEC encoder or 4 + |payload| > mtu (the core's mtu);
   GetOOBMaxSize = mtu - 4 (0 without FEC); a payload is accepted iff it is at most that. *)
Theorem c19_limits :
  forall (fe : option fecenc) (mtu conv : Z) (data : bytes) (q : bool),
    (oob_is_error (send_oob fe mtu conv data q) = true <-> fe = None \/ mtu < c_convSize + blen data) /\
    oob_max_size fe mtu = match fe with Some _ => mtu - c_convSize | None => 0 end /\
    (forall e, fe = Some e ->
       (blen data <= oob_max_size fe mtu <-> oob_is_error (send_oob fe mtu conv data q) = false)).
Proof. exact oob_limits. Qed.
Print Assumptions c19_limits.

Example c19_limits_example :
  oob_max_size ex_fec 21 = 17 /\
  (exists r, send_oob ex_fec 21 1 (repeat 0 17) false = OobQueued r) /\
  send_oob ex_fec 21 1 (repeat 0 18) false = OobErrTooLarge /\
  send_oob None 21 1 [] false = OobErrNoFec /\ oob_max_size None 21 = 0 /\
  send_oob ex_fec 21 1 [] true = OobDropped.
Proof. exact ex_oob_limits. Qed.

(* encodeOOB leaves next / shardCount / maxSize / shardCache / tsLatestPacket as they were;
   hence inserting OOB requests anywhere in the post-processing stream leaves the encoder's
   final state and the whole sequence of data and parity packets (ids, sizes, parity bytes)
   identical - "never weakens its FEC protection". *)
Theorem c19_no_disturb_tx :
  forall (rs_encode : Z -> Z -> list bytes -> list bytes),
    (forall (e : fecenc) (x : bytes), fst (encode_oob e x) = e) /\
    (forall (rs : list (req * Z)) (fe : option fecenc),
       fst (stage1_run rs_encode fe rs) = fst (stage1_run rs_encode fe (filter is_data rs)) /\
       filter is_data_out (snd (stage1_run rs_encode fe rs)) =
         snd (stage1_run rs_encode fe (filter is_data rs))).
Proof. exact (fun rs => conj encode_oob_state (no_disturb_tx rs)). Qed.
Print Assumptions c19_no_disturb_tx.

Example c19_no_disturb_tx_example :
  length (filter is_data ex_mixed) = 4%nat /\
  filter is_data_out (snd (stage1_run toy_rs ex_fec ex_mixed)) = snd (stage1_run toy_rs ex_fec (filter is_data ex_mixed)) /\
  fst (stage1_run toy_rs ex_fec ex_mixed) = fst (stage1_run toy_rs ex_fec (filter is_data ex_mixed)) /\
  length (concat (map snd (snd (stage1_run toy_rs ex_fec ex_mixed)))) = 2%nat.
Proof. exact ex_no_disturb_tx. Qed.

(* an 0xF3 packet changes neither the core nor the FEC decoder (whose state contains the
   autotune window); it only reaches the handler *)
Theorem c19_no_disturb_rx :
  forall (K : crypto) (Core Dec : Type) (core_input : Core -> bytes -> Z -> Core) (dec_new : Z -> Z -> Dec)
         (dec_decode : Dec -> bytes -> Dec * list bytes),
    (forall (st : rxstate Core Dec) (data : bytes),
       rd16 (skipn 4 data) = c_typeOOB ->
       fst (kcp_input Core Dec core_input dec_new dec_decode st data) = st) /\
    (forall (c : cipher) (st : rxstate Core Dec) (dgram d : bytes),
       unframe K c dgram = Some d -> rd16 (skipn 4 d) = c_typeOOB ->
       fst (packet_input K Core Dec core_input dec_new dec_decode c st dgram) = st).
Proof.
  exact (fun K Core Dec ci dn dd =>
           conj (no_disturb_rx Core Dec ci dn dd) (no_disturb_rx_packet K Core Dec ci dn dd)).
Qed.
Print Assumptions c19_no_disturb_rx.
