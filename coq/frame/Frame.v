(* The SEQUENTIAL datagram pipeline of sess.go / fec.go as pure functions.  No proofs here.

     KCP output -> [fecEncoder.encode | encodeOOB] -> nonce, CRC32, encrypt | AEAD seal -> wire
     wire -> packetInput (decrypt, verify, min size) -> kcpInput (FEC type demultiplexer)

   Abstract (Section variables K : crypto and rs_encode; their laws are hypotheses of the
   theorems, not of the model):
     enc dec          BlockCrypt.Encrypt / Decrypt of a whole buffer (CFB, salsa20, xor, none)
     seal open        cipher.AEAD Seal / Open (AES-GCM), nonce size aead_ns, tag size aead_ov
     crc              crc32.ChecksumIEEE                       (the gate engine models the real one)
     rs_encode d p    reedsolomon.Encoder.Encode: the p parity shards of d equal-sized data shards
     core / decoder   KCP.Input and fecDecoder.decode as state transformers
   The nonce stream (fillRand) is an input: a list of nonces, one consumed per packet.
   A request's buffer is modelled by its payload only: the reserved header bytes of the pool
   buffer are all overwritten before the packet leaves (nonce 16/12, CRC 4, FEC header 6+2). *)
From Coq Require Import ZArith List Bool.
From KV.Base Require Import Consts Word.
From KV.Frame Require Import Wire.
Import ListNotations.
Local Open Scope Z_scope.

(* s.block.(type): nil | *aeadCrypt | default (nonce + CRC32 + Encrypt) *)
Inductive cipher := CNone | CCrc | CAead.

Definition cipher_eqb (a b : cipher) : bool :=
  match a, b with CNone, CNone | CCrc, CCrc | CAead, CAead => true | _, _ => false end.

(* sealOOB writes the literal uint32(0xffffffff) *)
Definition oob_seqid : Z := W32 - 1.

(* The abstract cryptographic primitives, packaged so that every function below takes them as
   one Section variable K. *)
Record crypto := mkCrypto {
  k_enc : bytes -> bytes;                  (* BlockCrypt.Encrypt(buf, buf) *)
  k_dec : bytes -> bytes;                  (* BlockCrypt.Decrypt(buf, buf) *)
  k_ns : Z;                                (* aead.NonceSize() *)
  k_ov : Z;                                (* aead.Overhead() *)
  k_seal : bytes -> bytes -> bytes;        (* seal nonce plaintext *)
  k_open : bytes -> bytes -> option bytes; (* open nonce ciphertext *)
  k_crc : bytes -> Z                       (* crc32.ChecksumIEEE *)
}.

(* ------------------------------------------------------------------ fecEncoder (fec.go) *)

Record fecenc := mkFecenc {
  fe_d : Z; fe_p : Z;            (* dataShards, parityShards *)
  fe_ss : Z; fe_paws : Z;        (* shardSize, paws *)
  fe_next : Z;                   (* next seqid *)
  fe_count : Z;                  (* shardCount *)
  fe_maxsize : Z;                (* maxSize (counted from the start of the buffer, as in Go) *)
  fe_hoff : Z; fe_poff : Z;      (* headerOffset, payloadOffset *)
  fe_cache : list bytes;         (* shardCache[i][payloadOffset:len] for i < shardCount *)
  fe_ts : Z                      (* tsLatestPacket *)
}.

(* newFECEncoder; reedsolomon.New refuses more than 256 shards *)
Definition fec_new (d p off : Z) : option fecenc :=
  if (d <=? 0) || (p <=? 0) || (256 <? d + p) then None
  else Some (mkFecenc d p (d + p) ((W32 - 1) / (d + p) * (d + p)) 0 0 0 off (off + c_fecHeaderSize) [] 0).

Definition fe_set (e : fecenc) (next count maxsize : Z) (cache : list bytes) (ts : Z) : fecenc :=
  mkFecenc (fe_d e) (fe_p e) (fe_ss e) (fe_paws e) next count maxsize (fe_hoff e) (fe_poff e) cache ts.

(* | FEC SEQID(4B) | FEC TYPE(2B) | *)
Definition fec_hdr (seqid ty : Z) : bytes := le32 seqid ++ le16 ty.
(* | SIZE (2B) | PAYLOAD(SIZE-2) |   with SIZE = uint16(len(b[payloadOffset:])) *)
Definition size_prefixed (payload : bytes) : bytes := le16 (u16 (blen payload + 2)) ++ payload.
(* clear(shard[slen:maxSize]) *)
Definition pad_to (n : Z) (s : bytes) : bytes := s ++ repeat 0 (Z.to_nat (n - blen s)).

(* sealParity over ps[0..]: each consumes one id *)
Fixpoint seal_parities (next paws : Z) (pars : list bytes) : list bytes * Z :=
  match pars with
  | [] => ([], next)
  | par :: t =>
    let '(l, nx) := seal_parities ((next + 1) mod paws) paws t in
    ((fec_hdr next c_typeParity ++ par) :: l, nx)
  end.

(* fecEncoder.encode(b, rto): returns the new state, the sealed data packet b[headerOffset:]
   and the parity packets ps[k][headerOffset:] (empty unless this packet completes a group
   and the last two data packets were less than rto ms apart).  `now` = time.Now().UnixMilli().
   codec.Encode is assumed to succeed (d+p equal-sized non-empty shards), returning p shards. *)
Section Encoder.
Variable rs_encode : Z -> Z -> list bytes -> list bytes.

Definition fec_encode (e : fecenc) (payload : bytes) (now rto : Z) : fecenc * bytes * list bytes :=
  let pkt := fec_hdr (fe_next e) c_typeData ++ size_prefixed payload in       (* sealData + size *)
  let next1 := (fe_next e + 1) mod fe_paws e in
  let sz := fe_poff e + 2 + blen payload in                                    (* len(b) *)
  let cache := fe_cache e ++ [size_prefixed payload] in
  let count := fe_count e + 1 in
  let maxsize := if fe_maxsize e <? sz then sz else fe_maxsize e in
  if count =? fe_d e then
    if now - fe_ts e <? rto then
      let shards := map (pad_to (maxsize - fe_poff e)) cache in
      let pars := rs_encode (fe_d e) (fe_p e) shards in
      let '(ps, next2) := seal_parities next1 (fe_paws e) pars in
      (fe_set e next2 0 0 [] now, pkt, ps)
    else
      (fe_set e ((next1 + fe_p e) mod fe_paws e) 0 0 [] now, pkt, [])        (* skipParity *)
  else (fe_set e next1 count maxsize cache now, pkt, []).

(* fecEncoder.encodeOOB(b): sealOOB + size; takes the encoder, returns it *)
Definition encode_oob (e : fecenc) (payload : bytes) : fecenc * bytes :=
  (e, fec_hdr oob_seqid c_typeOOB ++ size_prefixed payload).

(* a run of the encoder over (payload, now) pairs: per input the data packet and its parity *)
Fixpoint fec_run (e : fecenc) (ins : list (bytes * Z)) : fecenc * list (bytes * list bytes) :=
  match ins with
  | [] => (e, [])
  | (x, now) :: t =>
    let '(e1, pkt, ps) := fec_encode e x now c_maxFECEncodeLatency in
    let '(e2, l) := fec_run e1 t in
    (e2, (pkt, ps) :: l)
  end.

(* ------------------------------------------------------------------ postProcess (sess.go) *)

Record req := mkReq { rq_payload : bytes; rq_oob : bool }.    (* sendRequest *)

(* Stage 1: FEC encoding.  Result: encoder, the packet body from headerOffset on, parity bodies *)
Definition stage1 (fe : option fecenc) (r : req) (now : Z) : option fecenc * bytes * list bytes :=
  match fe with
  | None => (None, rq_payload r, [])
  | Some e =>
    if rq_oob r then
      let '(e1, b) := encode_oob e (rq_payload r) in (Some e1, b, [])
    else
      let '(e1, b, ps) := fec_encode e (rq_payload r) now c_maxFECEncodeLatency in (Some e1, b, ps)
  end.

(* postProcess, right after fecEncoder.encode (repair ce5cd67): parity is as long as the longest data
   packet of its group; if it no longer fits the accepted wire MTU (minus the AEAD overhead) it
   is not sent.  Only ecc[0] is measured (all parity shards of a group have one length); wire = 0
   means "no MTU accepted yet".  The encoder has already consumed the parity ids. *)
Definition drop_long_parity (wire ov hoff : Z) (ps : list bytes) : list bytes :=
  match ps with
  | [] => []
  | p0 :: _ => if (0 <? wire) && (wire - ov <? hoff + blen p0) then [] else ps
  end.

Definition stage1w (wire ov : Z) (fe : option fecenc) (r : req) (now : Z) : option fecenc * bytes * list bytes :=
  let '(fe1, b, ps) := stage1 fe r now in
  (fe1, b, match fe with Some e => drop_long_parity wire ov (fe_hoff e) ps | None => ps end).

(* a history of requests, each with the clock and the wire MTU in force when it is post-processed *)
Fixpoint stage1w_run (ov : Z) (fe : option fecenc) (rs : list (req * Z * Z)) : option fecenc * list (req * bytes * list bytes) :=
  match rs with
  | [] => (fe, [])
  | (r, now, wire) :: t =>
    let '(fe1, b, ps) := stage1w wire ov fe r now in
    let '(fe2, l) := stage1w_run ov fe1 t in
    (fe2, (r, b, ps) :: l)
  end.

Fixpoint stage1_run (fe : option fecenc) (rs : list (req * Z)) : option fecenc * list (req * bytes * list bytes) :=
  match rs with
  | [] => (fe, [])
  | (r, now) :: t =>
    let '(fe1, b, ps) := stage1 fe r now in
    let '(fe2, l) := stage1_run fe1 t in
    (fe2, (r, b, ps) :: l)
  end.

Section Cipher.
Variable K : crypto.
Local Notation enc := (k_enc K).
Local Notation dec := (k_dec K).
Local Notation aead_ns := (k_ns K).
Local Notation aead_ov := (k_ov K).
Local Notation seal := (k_seal K).
Local Notation open := (k_open K).
Local Notation crc := (k_crc K).

Definition cipher_hdr (c : cipher) : Z :=
  match c with CNone => 0 | CAead => aead_ns | CCrc => c_cryptHeaderSize end.
Definition uses_nonce (c : cipher) : bool := negb (cipher_eqb c CNone).
Definition nonce_len (c : cipher) : Z :=
  match c with CNone => 0 | CAead => aead_ns | CCrc => c_nonceSize end.

(* sess.headerSize, and the offset newUDPSession hands to newFECEncoder *)
Definition header_size (c : cipher) (fe : option fecenc) : Z :=
  cipher_hdr c + match fe with Some _ => c_fecHeaderSizePlus2 | None => 0 end.
Definition sess_fec_new (c : cipher) (d p : Z) : option fecenc := fec_new d p (cipher_hdr c).

(* UDPSession.SetMtu: the core's mtu (KCP.SetMtu accepts IKCP_OVERHEAD < m <= mtuLimit when no
   queued segment is larger than the new mss - that part is the core's) *)
Definition aead_extra (c : cipher) : Z := if cipher_eqb c CAead then aead_ov else 0.
Definition sess_kcp_mtu (c : cipher) (fe : option fecenc) (mtu : Z) : Z :=
  Z.min c_mtuLimit mtu - header_size c fe - aead_extra c.
Definition sess_set_mtu (c : cipher) (fe : option fecenc) (mtu : Z) : option Z :=
  let m := sess_kcp_mtu c fe mtu in
  if (m <=? c_IKCP_OVERHEAD) || (c_mtuLimit <? m) then None else Some m.

(* s.wireMtu after the call: stored only when the core accepted (repair ce5cd67) *)
Definition sess_wire_mtu (c : cipher) (fe : option fecenc) (mtu old_wire : Z) : Z :=
  match sess_set_mtu c fe mtu with Some _ => Z.min c_mtuLimit mtu | None => old_wire end.

(* Stage 2 for one packet: what leaves for the wire, given the nonce fillRand produced *)
Definition frame (c : cipher) (nonce body : bytes) : bytes :=
  match c with
  | CNone => body
  | CAead => nonce ++ seal nonce body
  | CCrc => enc (nonce ++ le32 (crc body) ++ body)
  end.

(* the packet itself, then its parity packets; one fresh nonce each *)
Fixpoint frame_all (c : cipher) (bodies : list bytes) (nonces : list bytes) : list bytes * list bytes :=
  match bodies with
  | [] => ([], nonces)
  | b :: t =>
    if uses_nonce c then
      let '(l, ns) := frame_all c t (tl nonces) in (frame c (hd [] nonces) b :: l, ns)
    else
      let '(l, ns) := frame_all c t nonces in (b :: l, ns)
  end.

(* one iteration of postProcess: datagrams in the order they enter txqueue, nonces left *)
Definition pp_step (c : cipher) (fe : option fecenc) (wire : Z) (r : req) (now : Z) (nonces : list bytes)
  : option fecenc * list bytes * list bytes :=
  let '(fe1, b, ps) := stage1w wire (aead_extra c) fe r now in
  let '(outs, ns) := frame_all c (b :: ps) nonces in
  (fe1, outs, ns).

Fixpoint pp_run (c : cipher) (fe : option fecenc) (rs : list (req * Z * Z)) (nonces : list bytes)
  : option fecenc * list bytes :=
  match rs with
  | [] => (fe, [])
  | (r, now, wire) :: t =>
    let '(fe1, outs, ns) := pp_step c fe wire r now nonces in
    let '(fe2, l) := pp_run c fe1 t ns in
    (fe2, outs ++ l)
  end.

(* ------------------------------------------------------------------ packetInput (sess.go) *)

Definition min_pkt : Z := Z.min c_IKCP_OVERHEAD (c_fecHeaderSizePlus2 + c_convSize).

Definition unframe (c : cipher) (data : bytes) : option bytes :=
  let r :=
    match c with
    | CNone => Some data
    | CAead =>
      if blen data <? aead_ns + aead_ov then None
      else open (ztake aead_ns data) (zdrop aead_ns data)
    | CCrc =>
      if blen data <? c_cryptHeaderSize then None else
      let d := zdrop c_nonceSize (dec data) in
      if crc (zdrop c_crcSize d) =? rd32 d then Some (zdrop c_crcSize d) else None
    end in
  match r with
  | None => None
  | Some d => if blen d <? min_pkt then None else Some d
  end.

(* ------------------------------------------------------------------ kcpInput (sess.go) *)

Section Demux.
Variables Core Dec : Type.
Variable core_input : Core -> bytes -> Z -> Core.       (* KCP.Input(data, pktType, ackNoDelay) *)
Variable dec_new : Z -> Z -> Dec.                        (* newFECDecoder (autotune state inside) *)
Variable dec_decode : Dec -> bytes -> Dec * list bytes.  (* fecDecoder.decode *)

Record rxstate := mkRx { rx_core : Core; rx_dec : option Dec; rx_handler : bool }.
Inductive rx_event := EvOOB (payload : bytes).

Definition feed_recovered (core : Core) (r : bytes) : Core :=
  if 2 <=? blen r then
    let sz := rd16 r in
    if (sz <=? blen r) && (2 <=? sz) then core_input core (zdrop 2 (ztake sz r)) c_IKCP_PACKET_FEC
    else core
  else core.

Definition kcp_input (st : rxstate) (data : bytes) : rxstate * list rx_event :=
  let flag := rd16 (skipn 4 data) in
  if (flag =? c_typeData) || (flag =? c_typeParity) then
    if blen data <? c_fecHeaderSizePlus2 then (st, []) else
    let d0 := match rx_dec st with Some d => d | None => dec_new 1 1 end in
    let core1 :=
      if flag =? c_typeData
      then core_input (rx_core st) (zdrop c_fecHeaderSizePlus2 data) c_IKCP_PACKET_REGULAR
      else rx_core st in
    let '(d1, recs) := dec_decode d0 data in
    (mkRx (fold_left feed_recovered recs core1) (Some d1) (rx_handler st), [])
  else if flag =? c_typeOOB then
    (st, if rx_handler st then [EvOOB (zdrop (c_fecHeaderSizePlus2 + c_convSize) data)] else [])
  else
    (mkRx (core_input (rx_core st) data c_IKCP_PACKET_REGULAR) (rx_dec st) (rx_handler st), []).

(* UDPSession.packetInput *)
Definition packet_input (c : cipher) (st : rxstate) (dgram : bytes) : rxstate * list rx_event :=
  match unframe c dgram with
  | None => (st, [])
  | Some d => kcp_input st d
  end.
End Demux.

(* ------------------------------------------------------------------ SendOOB / GetOOBMaxSize *)

Inductive oob_result :=
| OobErrNoFec         (* "OOB requires FEC to be enabled" *)
| OobErrTooLarge      (* "OOB payload too large" *)
| OobDropped          (* chPostProcessing full: dropped silently, nil error *)
| OobQueued (r : req).

Definition send_oob (fe : option fecenc) (kcp_mtu conv : Z) (data : bytes) (queue_full : bool) : oob_result :=
  match fe with
  | None => OobErrNoFec
  | Some _ =>
    let size := c_convSize + blen data in
    if kcp_mtu <? size then OobErrTooLarge
    else if queue_full then OobDropped
    else OobQueued (mkReq (le32 conv ++ data) true)
  end.

Definition oob_is_error (r : oob_result) : bool :=
  match r with OobErrNoFec | OobErrTooLarge => true | _ => false end.

Definition oob_max_size (fe : option fecenc) (kcp_mtu : Z) : Z :=
  match fe with None => 0 | Some _ => kcp_mtu - c_convSize end.

(* ------------------------------------------------------------------ the documented layout
   An independent decoder written from README.md ("Specification") and the property text
   ONLY; the numbers below are the documented ones, deliberately NOT the generated constants
   of the code - if the code drifts from the documentation, c09_spec_decoder breaks.

     [ NONCE 16 | CRC32 4 (IEEE, of everything after it) ] the whole datagram encrypted, or
     [ AEAD nonce | sealed ]                               then
     [ FEC SEQID 4 | FEC TYPE 2 (0xF1 data, 0xF2 parity, 0xF3 out-of-band) | SIZE 2 = payload+2 ]
     then one or more 24-byte little-endian KCP headers each followed by exactly len bytes. *)

Inductive spec_pkt :=
| SpData (fec : option (Z * Z)) (segs : list wseg)        (* (seqid, size) when FEC is on *)
| SpParity (seqid : Z) (payload : bytes)
| SpOOB (seqid size conv : Z) (payload : bytes).

Definition spec_strip (c : cipher) (dgram : bytes) : option bytes :=
  match c with
  | CNone => Some dgram
  | CCrc =>
    let p := dec dgram in
    if blen p <? 20 then None else
    let rest := skipn 20 p in
    if rd32 (skipn 16 p) =? crc rest then Some rest else None
  | CAead =>
    if blen dgram <? aead_ns then None
    else open (ztake aead_ns dgram) (zdrop aead_ns dgram)
  end.

Definition spec_segments (b : bytes) : option (list wseg) :=
  match parse_all b with
  | Some (s :: l) => Some (s :: l)       (* one or more *)
  | _ => None
  end.

Definition spec_decode (c : cipher) (fec : bool) (dgram : bytes) : option spec_pkt :=
  match spec_strip c dgram with
  | None => None
  | Some rest =>
    if fec then
      if blen rest <? 6 then None else
      let seqid := rd32 rest in
      let ty := rd16 (skipn 4 rest) in
      if ty =? 0xF2 then Some (SpParity seqid (skipn 6 rest))
      else if blen rest <? 8 then None else
      let size := rd16 (skipn 6 rest) in
      let payload := skipn 8 rest in
      if negb (size =? blen payload + 2) then None
      else if ty =? 0xF1 then
        match spec_segments payload with
        | Some segs => Some (SpData (Some (seqid, size)) segs)
        | None => None
        end
      else if ty =? 0xF3 then
        if blen payload <? 4 then None
        else Some (SpOOB seqid size (rd32 payload) (skipn 4 payload))
      else None
    else
      match spec_segments rest with
      | Some segs => Some (SpData None segs)
      | None => None
      end
  end.

End Cipher.
End Encoder.
