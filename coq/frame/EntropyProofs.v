(* Proofs about the model of entropy.go's rngAES (Entropy.v). *)
From Coq Require Import ZArith List Bool Lia PeanoNat.
From KV.Base Require Import Consts.
From KV.Frame Require Import Entropy FrameProofs.
Import ListNotations.
Local Open Scope Z_scope.

Lemma iter_succ_r {A} (f : A -> A) (n : nat) (x : A) : Nat.iter (S n) f x = Nat.iter n f (f x).
Proof. induction n as [|n IH]; [reflexivity|]. cbn [Nat.iter nat_rect] in *. rewrite IH. reflexivity. Qed.

Section RngProofs.
  Variable key : Type.
  Variable E : key -> list Z -> list Z.
  Variable fresh : nat -> key * list Z.

  Definition rng_inv (r : rng key) : Prop :=
    0 <= r_count r <= c_reseedInterval /\ 0 <= r_used r <= r_count r + 1.

  (* what updateSeed leaves behind, before the encryption counts as one more use *)
  Definition upd_inv (r : rng key) : Prop :=
    0 <= r_count r <= c_reseedInterval /\ 0 <= r_used r <= r_count r.

  Lemma update_inv r : rng_inv r -> upd_inv (update_seed key fresh r).
  Proof.
    unfold rng_inv, upd_inv, update_seed. intros [Hc Hu].
    destruct (Z.ltb_spec (r_count r) c_reseedInterval) as [Hlt|Hge].
    - cbn. lia.
    - destruct (fresh (r_epoch r)) as [k s]. cbn. unfold c_reseedInterval. lia.
  Qed.

  (* the reseed happens exactly when the counter has reached reseedInterval, and only then is
     crypto/rand consulted *)
  Lemma update_reseed_iff r :
    rng_inv r ->
    (r_count r = c_reseedInterval ->
       update_seed key fresh r = mkRng (S (r_epoch r)) (fst (fresh (r_epoch r))) (snd (fresh (r_epoch r))) 0 0) /\
    (r_count r <> c_reseedInterval ->
       update_seed key fresh r = mkRng (r_epoch r) (r_key r) (r_seed r) (r_count r + 1) (r_used r)).
  Proof.
    unfold rng_inv, update_seed. intros [Hc Hu].
    destruct (Z.ltb_spec (r_count r) c_reseedInterval) as [Hlt|Hge]; split; intros H; try lia; try reflexivity.
    destruct (fresh (r_epoch r)) as [k s]. reflexivity.
  Qed.

  Lemma read_out n r :
    0 < n ->
    rng_read key E fresh n r =
      (let r1 := update_seed key fresh r in
       let s := E (r_key r1) (r_seed r1) in
       (mkRng (r_epoch r1) (r_key r1) s (r_count r1) (r_used r1 + 1), firstn (Z.to_nat n) s)).
  Proof. intros Hn. unfold rng_read. destruct (Z.leb_spec n 0) as [H|H]; [lia|reflexivity]. Qed.

  Lemma read_empty n r : n <= 0 -> rng_read key E fresh n r = (r, []).
  Proof. intros Hn. unfold rng_read. destruct (Z.leb_spec n 0) as [H|H]; [reflexivity|lia]. Qed.

  Lemma read_inv n r : rng_inv r -> rng_inv (fst (rng_read key E fresh n r)).
  Proof.
    intros Hi. destruct (Z.leb_spec n 0) as [H|H].
    - rewrite read_empty by exact H. exact Hi.
    - rewrite read_out by exact H. pose proof (update_inv r Hi) as [Hc Hu].
      unfold rng_inv. cbn. lia.
  Qed.

  Lemma reads_inv ns : forall r, rng_inv r -> rng_inv (fst (rng_reads key E fresh ns r)).
  Proof.
    induction ns as [|n t IH]; intros r Hi; [exact Hi|].
    cbn [rng_reads]. pose proof (read_inv n r Hi) as H1.
    destruct (rng_read key E fresh n r) as [r1 o]. cbn [fst] in H1.
    specialize (IH r1 H1). destruct (rng_reads key E fresh t r1) as [r2 os]. exact IH.
  Qed.

  (* key exposure: in every reachable state the current key has produced at most
     reseedInterval + 1 outputs *)
  Lemma used_bounded ns r :
    rng_inv r -> r_used (fst (rng_reads key E fresh ns r)) <= c_reseedInterval + 1.
  Proof. intros Hi. destruct (reads_inv ns r Hi) as [Hc Hu]. lia. Qed.

  Lemma reads_length ns : forall r, length (snd (rng_reads key E fresh ns r)) = length ns.
  Proof.
    induction ns as [|n t IH]; intros r; [reflexivity|].
    cbn [rng_reads]. destruct (rng_read key E fresh n r) as [r1 o]. specialize (IH r1).
    destruct (rng_reads key E fresh t r1) as [r2 os]. cbn in *. rewrite IH. reflexivity.
  Qed.

  (* inside one key epoch (no reseed falls into the run) the generator walks the orbit of the seed
     under E_key: the i-th Read returns a prefix of E^(i+1)(seed) *)
  Lemma reads_epoch ns : forall r,
    Forall (fun n => 0 < n) ns ->
    0 <= r_count r -> r_count r + Z.of_nat (length ns) <= c_reseedInterval ->
    fst (rng_reads key E fresh ns r) =
      mkRng (r_epoch r) (r_key r) (Nat.iter (length ns) (E (r_key r)) (r_seed r))
            (r_count r + Z.of_nat (length ns)) (r_used r + Z.of_nat (length ns)) /\
    forall i, nth_error (snd (rng_reads key E fresh ns r)) i =
              option_map (fun n => firstn (Z.to_nat n) (Nat.iter (S i) (E (r_key r)) (r_seed r))) (nth_error ns i).
  Proof.
    induction ns as [|n t IH]; intros r Hpos Hc0 Hc.
    - cbn. split; [destruct r; cbn; f_equal; lia|]. intros [|i]; reflexivity.
    - inversion Hpos as [|n' t' Hn Ht]; subst. cbn [rng_reads]. rewrite read_out by exact Hn.
      cbn [length] in Hc. rewrite Nat2Z.inj_succ in Hc.
      assert (Hu : update_seed key fresh r = mkRng (r_epoch r) (r_key r) (r_seed r) (r_count r + 1) (r_used r)).
      { unfold update_seed. destruct (Z.ltb_spec (r_count r) c_reseedInterval) as [Hlt|Hge]; [reflexivity|lia]. }
      rewrite Hu. cbn [r_epoch r_key r_seed r_count r_used].
      set (r1 := mkRng (r_epoch r) (r_key r) (E (r_key r) (r_seed r)) (r_count r + 1) (r_used r + 1)).
      specialize (IH r1 Ht). cbn [r1 r_epoch r_key r_seed r_count r_used] in IH.
      destruct IH as [IH1 IH2]; [lia|lia|].
      destruct (rng_reads key E fresh t r1) as [r2 os]. cbn [fst snd] in *. split.
      + rewrite IH1. cbn [length]. rewrite iter_succ_r, Nat2Z.inj_succ. f_equal; lia.
      + intros [|i]; [reflexivity|]. cbn [nth_error]. rewrite IH2.
        destruct (nth_error t i); [|reflexivity]. cbn [option_map]. rewrite <- iter_succ_r. reflexivity.
  Qed.

  (* nonces of one epoch: 16-byte (or longer) buffers receive the whole block, so as long as the
     seed orbit has not closed, all nonces drawn under one key are pairwise different *)
  Theorem epoch_nonces_distinct ns r :
    (forall k s, length (E k s) = 16%nat) ->
    (forall x y, E (r_key r) x = E (r_key r) y -> x = y) ->
    Forall (fun n => 16 <= n) ns ->
    0 <= r_count r -> r_count r + Z.of_nat (length ns) <= c_reseedInterval ->
    (forall k, (0 < k < S (length ns))%nat -> Nat.iter k (E (r_key r)) (r_seed r) <> r_seed r) ->
    NoDup (snd (rng_reads key E fresh ns r)).
  Proof.
    intros Hlen Hinj Hn Hc0 Hc Hopen.
    assert (Hpos : Forall (fun n => 0 < n) ns) by (eapply Forall_impl; [|exact Hn]; cbn; intros; lia).
    destruct (reads_epoch ns r Hpos Hc0 Hc) as [_ Hnth].
    apply NoDup_nth_error. intros i j Hi Heq. rewrite reads_length in Hi.
    assert (Hj : (j < length ns)%nat).
    { destruct (Nat.lt_ge_cases j (length ns)) as [H|H]; [exact H|].
      rewrite !Hnth in Heq. apply nth_error_None in H. rewrite H in Heq.
      destruct (nth_error ns i) eqn:Hi'; [discriminate|]. apply nth_error_None in Hi'. lia. }
    rewrite !Hnth in Heq.
    destruct (nth_error ns i) as [ni|] eqn:Ei; [|apply nth_error_None in Ei; lia].
    destruct (nth_error ns j) as [nj|] eqn:Ej; [|apply nth_error_None in Ej; lia].
    cbn [option_map] in Heq. injection Heq as Heq.
    assert (Hfull : forall n (s : list Z), 16 <= n -> length s = 16%nat -> firstn (Z.to_nat n) s = s).
    { intros n s Hn16 Hs. apply firstn_all2. lia. }
    rewrite Forall_forall in Hn.
    rewrite !Hfull in Heq by (try apply Hlen; apply Hn; eapply nth_error_In; eassumption).
    destruct (Nat.lt_trichotomy i j) as [Hlt|[Heqij|Hgt]]; [|exact Heqij|].
    - exfalso. apply (orbit_outputs_distinct (E (r_key r)) (r_seed r) (S (length ns)) Hinj Hopen) with (i := S i) (j := S j); [lia|exact Heq].
    - exfalso. apply (orbit_outputs_distinct (E (r_key r)) (r_seed r) (S (length ns)) Hinj Hopen) with (i := S j) (j := S i); [lia|symmetry; exact Heq].
  Qed.

  (* what sess.go asks for: fillRand of a 12- or 16-byte nonce is exactly one Read *)
  Lemma fill_rand_single f n r :
    (forall k s, length (E k s) = 16%nat) -> 0 < n <= 16 ->
    fill_rand key E fresh (S (S f)) n r = rng_read key E fresh n r.
  Proof.
    intros Hlen Hn. cbn [fill_rand].
    destruct (Z.leb_spec n 0) as [H0|H0]; [lia|].
    rewrite read_out by lia. cbv beta iota zeta.
    set (r1 := update_seed key fresh r). set (s := E (r_key r1) (r_seed r1)).
    assert (Hg : Z.of_nat (length (firstn (Z.to_nat n) s)) = n).
    { rewrite firstn_length. unfold s. rewrite Hlen. lia. }
    rewrite Hg. destruct (Z.leb_spec n 0) as [H1|H1]; [lia|].
    rewrite Z.sub_diag. cbn [Z.leb Z.compare]. rewrite app_nil_r. reflexivity.
  Qed.

  (* io.ReadFull over the generator always fills the whole buffer: n bytes for every n >= 0
     (fuel: one Read per byte is more than enough - each Read yields min(n, 16) > 0 bytes) *)
  Lemma fill_rand_length fuel : forall n r,
    (forall k s, length (E k s) = 16%nat) -> 0 <= n -> n <= Z.of_nat fuel ->
    Z.of_nat (length (snd (fill_rand key E fresh fuel n r))) = n.
  Proof.
    induction fuel as [|f IH]; intros n r Hlen Hn Hf.
    - cbn in *. lia.
    - cbn [fill_rand]. destruct (Z.leb_spec n 0) as [H0|H0]; [cbn; lia|].
      rewrite read_out by exact H0. cbv beta iota zeta.
      set (r1 := update_seed key fresh r). set (s := E (r_key r1) (r_seed r1)).
      assert (Hg : Z.of_nat (length (firstn (Z.to_nat n) s)) = Z.min n 16).
      { rewrite firstn_length. unfold s. rewrite Hlen. lia. }
      destruct (Z.leb_spec (Z.of_nat (length (firstn (Z.to_nat n) s))) 0) as [Hz|Hz]; [lia|].
      specialize (IH (n - Z.of_nat (length (firstn (Z.to_nat n) s)))
                     (mkRng (r_epoch r1) (r_key r1) s (r_count r1) (r_used r1 + 1)) Hlen).
      destruct (fill_rand key E fresh f _ _) as [r2 rest]. cbn [snd] in *.
      rewrite app_length, Nat2Z.inj_add, IH by lia. lia.
  Qed.

End RngProofs.

(* ---- non-vacuity: the toy block function of the harness, a short run from a fresh generator *)
Definition ex_rng : rng Z := mkRng 0%nat 7 [1;2;3;4;5;6;7;8;9;10;11;12;13;14;15;16] (c_reseedInterval - 2) 0.
Definition ex_fresh (i : nat) : Z * list Z := (Z.of_nat i + 100, repeat (Z.of_nat i) 16).
Lemma ex_rng_run :
  rng_inv Z ex_rng /\
  (let '(r, outs) := rng_reads Z toy_E ex_fresh [16; 12; 16; 0; 16] ex_rng in
   r_epoch r = 1%nat /\ r_key r = 100 /\ r_count r = 1 /\ r_used r = 2 /\ NoDup outs /\
   nth 1 outs [] = firstn 12 (toy_E 7 (toy_E 7 (r_seed ex_rng))) /\
   nth 2 outs [] = toy_E 100 (repeat 0 16)).
Proof.
  split; [unfold rng_inv, ex_rng, c_reseedInterval; cbn; lia|].
  vm_compute. repeat split; try reflexivity.
  repeat (constructor; [cbn; intros H; repeat (destruct H as [H|H]; [discriminate H|]); exact H|]). constructor.
Qed.
Lemma ex_epoch_hyps :
  let ns := [16; 16; 20] in
  Forall (fun n => 16 <= n) ns /\ 0 <= r_count (mkRng 0%nat 7 (r_seed ex_rng) 0 0) /\
  (forall k, (0 < k < S (length ns))%nat -> Nat.iter k (toy_E 7) (r_seed ex_rng) <> r_seed ex_rng).
Proof.
  cbn zeta. split; [repeat constructor; lia|]. split; [cbn; lia|].
  intros k Hk. cbn [length] in Hk.
  assert (Hc : k = 1%nat \/ k = 2%nat \/ k = 3%nat) by lia.
  destruct Hc as [Hk1|[Hk1|Hk1]]; subst k; vm_compute; discriminate.
Qed.

Section ChachaProofs.
  Variable gen : Type.
  Variable next : gen -> Z -> gen * list Z.
  Variable reseed : nat -> gen -> gen.

  Definition crng_inv (r : crng gen) : Prop := 0 <= c_count r <= c_reseedInterval.

  Lemma c_update_spec r :
    crng_inv r ->
    crng_inv (c_update gen reseed r) /\
    (c_count r = c_reseedInterval -> c_update gen reseed r = mkCrng (S (c_epoch r)) (reseed (c_epoch r) (c_gen r)) 0) /\
    (c_count r <> c_reseedInterval -> c_update gen reseed r = mkCrng (c_epoch r) (c_gen r) (c_count r + 1)).
  Proof.
    unfold crng_inv, c_update. intros Hc.
    destruct (Z.ltb_spec (c_count r) c_reseedInterval) as [Hlt|Hge]; cbn; repeat split; intros; try lia; try reflexivity.
    all: unfold c_reseedInterval in *; lia.
  Qed.

  Lemma c_read_inv n r : crng_inv r -> crng_inv (fst (c_read gen next reseed n r)).
  Proof.
    intros Hi. unfold c_read. destruct (n <=? 0); [exact Hi|].
    destruct (c_update_spec r Hi) as [Hu _]. destruct (next (c_gen (c_update gen reseed r)) n) as [g o]. exact Hu.
  Qed.

  Lemma c_reads_inv ns : forall r, crng_inv r -> crng_inv (fst (c_reads gen next reseed ns r)).
  Proof.
    induction ns as [|n t IH]; intros r Hi; [exact Hi|].
    cbn [c_reads]. pose proof (c_read_inv n r Hi) as H1.
    destruct (c_read gen next reseed n r) as [r1 o]. cbn [fst] in H1.
    specialize (IH r1 H1). destruct (c_reads gen next reseed t r1) as [r2 os]. exact IH.
  Qed.
End ChachaProofs.
