(* Session half of C10: UDPSession.SetMtu's acceptance rule and the size of everything the
   pipeline of Frame.v puts on the wire (cipher, FEC and AEAD overhead counted; parity and OOB
   included), relative to the core's bound |core datagram| <= core mtu. *)
From Coq Require Import ZArith List Bool Lia.
From KV.Base Require Import Consts Word WordLemmas.
From KV.Frame Require Import Wire Frame WireProofs FrameProofs FecProofs.
Import ListNotations.
Local Open Scope Z_scope.

Ltac Zify.zify_post_hook ::= idtac.


Lemma header_size_nonneg K c fe : 0 <= k_ns K -> 0 <= header_size K c fe.
Proof.
  intros Hns. unfold header_size, cipher_hdr, c_cryptHeaderSize, c_fecHeaderSizePlus2.
  destruct c, fe; lia.
Qed.

(* SetMtu(mtu) is accepted iff min(mtu,1500) - headerSize - AEAD overhead passes the core's range
   check (the core additionally refuses a value its queued segments cannot honour - C10, core) *)
Theorem setmtu_session K c fe mtu :
  0 <= k_ns K -> 0 <= k_ov K ->
  let m := Z.min c_mtuLimit mtu - header_size K c fe - aead_extra K c in
  (c_IKCP_OVERHEAD < m -> sess_set_mtu K c fe mtu = Some m) /\
  (m <= c_IKCP_OVERHEAD -> sess_set_mtu K c fe mtu = None) /\
  (forall m', sess_set_mtu K c fe mtu = Some m' ->
     m' = m /\ c_IKCP_OVERHEAD < m' <= c_mtuLimit /\
     m' + header_size K c fe + aead_extra K c = Z.min c_mtuLimit mtu /\
     Z.min c_mtuLimit mtu <= c_mtuLimit).
Proof.
  intros Hns Hov. cbn zeta.
  pose proof (header_size_nonneg K c fe Hns) as Hh.
  assert (Hx : 0 <= aead_extra K c) by (unfold aead_extra; destruct (cipher_eqb c CAead); lia).
  unfold sess_set_mtu, sess_kcp_mtu.
  set (m := Z.min c_mtuLimit mtu - header_size K c fe - aead_extra K c).
  assert (Hm : m <= c_mtuLimit) by (unfold m; lia).
  destruct ((m <=? c_IKCP_OVERHEAD) || (c_mtuLimit <? m)) eqn:E.
  - apply orb_true_iff in E as [E|E]; [apply Z.leb_le in E|apply Z.ltb_lt in E; lia].
    split; [lia|]. split; [reflexivity|]. intros m' H; discriminate.
  - apply orb_false_iff in E as [E1 E2]. apply Z.leb_gt in E1.
    split; [reflexivity|]. split; [lia|]. intros m' H. inversion H; subst m'.
    repeat split; lia.
Qed.

Section Sizes.
Variable rs_encode : Z -> Z -> list bytes -> list bytes.
Variable K : crypto.
Hypothesis enc_len : forall b, blen (k_enc K b) = blen b.
Hypothesis seal_len : forall n p, blen (k_seal K n p) = blen p + k_ov K.

(* a data packet: |frame| = |core datagram| + headerSize (+ AEAD overhead) <= MTU *)
Theorem session_size c fe mtu m nonce kcp now :
  0 <= k_ns K -> 0 <= k_ov K ->
  sess_set_mtu K c fe mtu = Some m ->
  blen nonce = nonce_len K c ->
  blen kcp <= m ->                       (* the core's bound, C10 core *)
  let '(_, body, _) := stage1 rs_encode fe (mkReq kcp false) now in
  blen (frame K c nonce body) = blen kcp + header_size K c fe + aead_extra K c /\
  blen (frame K c nonce body) <= Z.min c_mtuLimit mtu /\
  blen (frame K c nonce body) <= c_mtuLimit.
Proof using enc_len seal_len.
  intros Hns Hov Hset Hn Hk.
  destruct (setmtu_session K c fe mtu Hns Hov) as (_ & _ & Hacc).
  destruct (Hacc m Hset) as (_ & _ & Hsum & Hcap).
  pose proof (stage1_data_body rs_encode fe kcp now) as Hb.
  destruct (stage1 rs_encode fe (mkReq kcp false) now) as [[fe1 body] ps].
  rewrite (frame_len K enc_len seal_len c nonce body Hn). fold (aead_extra K c).
  assert (Hbody : cipher_hdr K c + blen body = blen kcp + header_size K c fe).
  { subst body. unfold header_size. destruct fe as [e|].
    - rewrite !blen_app, blen_le32, !blen_le16. unfold c_fecHeaderSizePlus2. lia.
    - lia. }
  lia.
Qed.

(* an out-of-band packet SendOOB accepted *)
Theorem session_size_oob c e mtu m nonce conv data now r :
  0 <= k_ns K -> 0 <= k_ov K ->
  sess_set_mtu K c (Some e) mtu = Some m ->
  blen nonce = nonce_len K c ->
  send_oob (Some e) m conv data false = OobQueued r ->
  let '(_, body, _) := stage1 rs_encode (Some e) r now in
  blen (frame K c nonce body) = c_convSize + blen data + header_size K c (Some e) + aead_extra K c /\
  blen (frame K c nonce body) <= Z.min c_mtuLimit mtu.
Proof using enc_len seal_len.
  intros Hns Hov Hset Hn Hsend.
  destruct (setmtu_session K c (Some e) mtu Hns Hov) as (_ & _ & Hacc).
  destruct (Hacc m Hset) as (_ & _ & Hsum & Hcap).
  unfold send_oob in Hsend.
  destruct (m <? c_convSize + blen data) eqn:E; [discriminate|]. apply Z.ltb_ge in E.
  inversion Hsend; subst r; clear Hsend.
  rewrite stage1_oob_body.
  rewrite (frame_len K enc_len seal_len c nonce _ Hn). fold (aead_extra K c).
  rewrite !blen_app, !blen_le32, !blen_le16.
  unfold header_size, c_fecHeaderSizePlus2, c_convSize in *. rewrite !blen_cons. lia.
Qed.

(* ---- parity: as long as the longest data packet of its group *)
Hypothesis rs_count : forall d p shards, length (rs_encode d p shards) = Z.to_nat p.
Hypothesis rs_len : forall d p shards n,
  Forall (fun s => blen s = n) shards -> Forall (fun s => blen s = n) (rs_encode d p shards).

Lemma fold_max_ge (l : list bytes) : forall a,
  a <= fold_left (fun m s => Z.max m (blen s)) l a /\
  (forall s, In s l -> blen s <= fold_left (fun m s => Z.max m (blen s)) l a).
Proof using Type.
  induction l as [|x l IH]; intros a; cbn [fold_left].
  - split; [lia|intros s []].
  - destruct (IH (Z.max a (blen x))) as (H1 & H2). split; [lia|].
    intros s [->|Hin]; [lia|apply H2; exact Hin].
Qed.

Lemma fold_max_le (l : list bytes) B : forall a, a <= B -> (forall s, In s l -> blen s <= B) ->
  fold_left (fun m s => Z.max m (blen s)) l a <= B.
Proof using Type.
  induction l as [|x l IH]; intros a Ha Hl; cbn [fold_left]; [exact Ha|].
  apply IH; [pose proof (Hl x (or_introl eq_refl)); lia|intros s Hs; apply Hl; right; exact Hs].
Qed.

Lemma blen_pad_to n s : blen s <= n -> blen (pad_to n s) = n.
Proof using Type.
  intros H. unfold pad_to. rewrite blen_app. unfold blen at 2. rewrite repeat_length, Z2Nat.id by lia. lia.
Qed.

Lemma nth_error_last {A} (l : list A) (d : A) : l <> [] -> nth_error l (length l - 1) = Some (last l d).
Proof using Type.
  induction l as [|a l IH]; [congruence|]. intros _. destruct l as [|b l]; [reflexivity|].
  cbn [length]. replace (S (S (length l)) - 1)%nat with (S (length (b :: l) - 1)) by (cbn [length]; lia).
  cbn [nth_error last]. apply IH. discriminate.
Qed.

Theorem parity_size d p off e0 pre grp (n : nat) :
  fec_new d p off = Some e0 -> 0 <= off ->
  length pre = (n * Z.to_nat d)%nat -> Z.of_nat (length grp) = d ->
  let outs := snd (fec_run rs_encode e0 (pre ++ grp)) in
  let ps := snd (last outs ([], [])) in
  let imgs := map size_prefixed (map fst grp) in
  forall par, In par ps ->
    (* FEC header + the longest size-prefixed payload of the group *)
    blen par = c_fecHeaderSize + max_len imgs /\
    (forall m, 0 <= m -> Forall (fun x => blen (fst x) <= m) grp -> blen par <= c_fecHeaderSizePlus2 + m).
Proof using rs_count rs_len.
  intros Hnew Hoff Hpre Hgrp outs ps imgs par Hin.
  pose proof (parity_is_rs rs_encode rs_count d p off e0 pre grp n Hnew Hoff Hpre Hgrp) as Hrs.
  cbn zeta in Hrs. fold outs in Hrs. fold ps in Hrs. fold imgs in Hrs.
  destruct Hrs as [Hnil|(Hlen & Hpay)]; [rewrite Hnil in Hin; destruct Hin|].
  (* every shard handed to rs_encode has length max_len imgs *)
  assert (Hsh : Forall (fun s => blen s = max_len imgs) (map (pad_to (max_len imgs)) imgs)).
  { apply Forall_forall. intros s Hs. apply in_map_iff in Hs as (x & <- & Hx).
    apply blen_pad_to. unfold max_len. apply (proj2 (fold_max_ge imgs 0)). exact Hx. }
  pose proof (rs_len d p _ _ Hsh) as Hout. rewrite <- Hpay in Hout.
  assert (Hp6 : blen (skipn 6 par) = max_len imgs).
  { rewrite Forall_forall in Hout. apply Hout. apply in_map. exact Hin. }
  (* the parity packet is a FEC header followed by its payload *)
  assert (Hstruct : exists id payload, par = fec_hdr id c_typeParity ++ payload).
  { destruct (fec_new_wf _ _ _ _ Hnew) as (Hinv & _).
    destruct (fec_run rs_encode e0 (pre ++ grp)) as [e' outs'] eqn:Erun.
    assert (Hne : outs' <> []).
    { intros ->. unfold outs, ps in Hin. cbn in Hin. destruct Hin. }
    pose proof (nth_error_last outs' ([], []) Hne) as Hnth.
    unfold outs in ps. cbn [snd] in ps.
    destruct (last outs' ([], [])) as [pkt ps'] eqn:El. cbn [snd] in ps. subst ps.
    pose proof (fec_run_ids rs_encode rs_count (pre ++ grp) e0 0 outs' e' Hinv Erun _ pkt ps' Hnth) as H.
    cbn zeta in H. destruct H as (_ & [Hn0|(_ & _ & Hpar)]); [rewrite Hn0 in Hin; destruct Hin|].
    apply In_nth_error in Hin as (k & Hk). destruct (Hpar k par Hk) as (payload & ->). eauto. }
  destruct Hstruct as (id & payload & ->).
  unfold fec_hdr in *. rewrite <- app_assoc in *. rewrite skipn6_hdr in Hp6.
  assert (Hlenp : blen (le32 id ++ le16 c_typeParity ++ payload) = c_fecHeaderSize + max_len imgs).
  { rewrite !blen_app, blen_le32, blen_le16, Hp6. unfold c_fecHeaderSize. lia. }
  split; [exact Hlenp|].
  intros m Hm Hall. rewrite Hlenp.
  assert (max_len imgs <= 2 + m).
  { unfold max_len. apply fold_max_le; [lia|]. intros s Hs. unfold imgs in Hs.
    apply in_map_iff in Hs as (x & <- & Hx). apply in_map_iff in Hx as (y & <- & Hy).
    rewrite blen_size_prefixed. rewrite Forall_forall in Hall. specialize (Hall y Hy). lia. }
  unfold c_fecHeaderSize, c_fecHeaderSizePlus2. lia.
Qed.

End Sizes.

(* ---------------------------------------------------------------- the repaired postProcess (ce5cd67):
   parity longer than the accepted wire MTU is not sent *)

Lemma seal_parities_shape paws pars : forall next q,
  In q (fst (seal_parities next paws pars)) -> exists par, In par pars /\ blen q = c_fecHeaderSize + blen par.
Proof.
  induction pars as [|par t IH]; intros next q Hin; [destruct Hin|].
  cbn [seal_parities] in Hin. destruct (seal_parities ((next + 1) mod paws) paws t) as [l nx] eqn:E.
  cbn [fst] in Hin. destruct Hin as [<-|Hin].
  - exists par. split; [left; reflexivity|]. unfold fec_hdr. rewrite !blen_app, blen_le32, blen_le16.
    unfold c_fecHeaderSize. lia.
  - specialize (IH ((next + 1) mod paws) q). rewrite E in IH. destruct (IH Hin) as (p' & Hp & Hl).
    exists p'. split; [right; exact Hp|exact Hl].
Qed.

Section Drop.
Variable rs_encode : Z -> Z -> list bytes -> list bytes.
Variable K : crypto.
Hypothesis enc_len : forall b, blen (k_enc K b) = blen b.
Hypothesis seal_len : forall n p, blen (k_seal K n p) = blen p + k_ov K.
(* a successful reedsolomon.Encode leaves all parity shards of one call equally long *)
Hypothesis rs_same : forall d p shards a b,
  In a (rs_encode d p shards) -> In b (rs_encode d p shards) -> blen a = blen b.

Lemma fec_encode_parity_same e x now rto : forall a b,
  In a (snd (fec_encode rs_encode e x now rto)) -> In b (snd (fec_encode rs_encode e x now rto)) -> blen a = blen b.
Proof using rs_same.
  unfold fec_encode.
  destruct (fe_count e + 1 =? fe_d e); [|intros a b []].
  destruct (now - fe_ts e <? rto); [|intros a b []].
  match goal with |- context [seal_parities ?n ?pw ?pars] =>
    pose proof (seal_parities_shape pw pars n) as Hshape; destruct (seal_parities n pw pars) as [l nx] end.
  cbn [snd fst] in *. intros a b Ha Hb.
  destruct (Hshape a Ha) as (pa & Hpa & La). destruct (Hshape b Hb) as (pb & Hpb & Lb).
  rewrite La, Lb, (rs_same _ _ _ pa pb Hpa Hpb). reflexivity.
Qed.

(* the drop happens after encode: the encoder's state (next, shardCount, maxSize, cache) and the
   data packet are exactly what they are without it, so the id accounting of c09_fec_ids is
   untouched - a dropped parity block has consumed its ids, like an emitted or a skipped one *)
Theorem drop_after_encode wire ov fe r now :
  let '(fe1, b, ps) := stage1 rs_encode fe r now in
  let '(fe1', b', ps') := stage1w rs_encode wire ov fe r now in
  fe1' = fe1 /\ b' = b /\ (ps' = ps \/ (ps' = [] /\ 0 < wire)).
Proof using Type.
  unfold stage1w. destruct (stage1 rs_encode fe r now) as [[fe1 b] ps].
  split; [reflexivity|]. split; [reflexivity|].
  destruct fe as [e|]; [|left; reflexivity].
  unfold drop_long_parity. destruct ps as [|p0 ps]; [left; reflexivity|].
  destruct (0 <? wire) eqn:E; cbn [andb]; [|left; reflexivity].
  destruct (wire - ov <? fe_hoff e + blen p0); [right; split; [reflexivity|apply Z.ltb_lt; exact E]|left; reflexivity].
Qed.

(* UNCONDITIONAL: once a wire MTU has been accepted (wire > 0), every parity datagram that
   postProcess emits is at most that long - whatever the history of the group *)
Theorem parity_size_emitted c e wire r now nonce :
  0 < wire ->
  fe_hoff e = cipher_hdr K c ->                 (* newUDPSession: newFECEncoder(d, p, headerSize of the cipher) *)
  blen nonce = nonce_len K c ->
  let '(_, _, ps) := stage1w rs_encode wire (aead_extra K c) (Some e) r now in
  forall par, In par ps -> blen (frame K c nonce par) <= wire.
Proof using enc_len seal_len rs_same.
  intros Hw Hoff Hn. unfold stage1w, stage1.
  destruct (rq_oob r).
  - cbn. intros par [].
  - pose proof (fec_encode_parity_same e (rq_payload r) now c_maxFECEncodeLatency) as Hsame.
    destruct (fec_encode rs_encode e (rq_payload r) now c_maxFECEncodeLatency) as [[e1 b] ps].
    cbn [snd] in Hsame. unfold drop_long_parity.
    destruct ps as [|p0 ps]; [intros par []|].
    assert (E : (0 <? wire) = true) by (apply Z.ltb_lt; exact Hw). rewrite E. cbn [andb].
    destruct (wire - aead_extra K c <? fe_hoff e + blen p0) eqn:E2; [intros par []|].
    apply Z.ltb_ge in E2. intros par Hin.
    rewrite (frame_len K enc_len seal_len c nonce par Hn). fold (aead_extra K c).
    rewrite (Hsame par p0 Hin (or_introl eq_refl)). lia.
Qed.

(* before any MTU was accepted (wire = 0) nothing is dropped *)
Theorem no_drop_without_mtu ov fe r now :
  stage1w rs_encode 0 ov fe r now = stage1 rs_encode fe r now.
Proof using Type.
  unfold stage1w. destruct (stage1 rs_encode fe r now) as [[fe1 b] ps].
  destruct fe as [e|]; [|reflexivity]. destruct ps; reflexivity.
Qed.

(* SetMtu stores the wire MTU exactly when the core accepts, and it is what the core mtu plus the
   headers add up to *)
Theorem wire_mtu_stored c fe mtu old :
  0 <= k_ns K -> 0 <= k_ov K ->
  (forall m, sess_set_mtu K c fe mtu = Some m ->
     sess_wire_mtu K c fe mtu old = m + header_size K c fe + aead_extra K c /\
     c_IKCP_OVERHEAD < sess_wire_mtu K c fe mtu old <= c_mtuLimit) /\
  (sess_set_mtu K c fe mtu = None -> sess_wire_mtu K c fe mtu old = old).
Proof using Type.
  intros Hns Hov. unfold sess_wire_mtu.
  destruct (setmtu_session K c fe mtu Hns Hov) as (_ & _ & Hacc).
  pose proof (header_size_nonneg K c fe Hns) as Hh.
  assert (Hx : 0 <= aead_extra K c) by (unfold aead_extra; destruct (cipher_eqb c CAead); lia).
  destruct (sess_set_mtu K c fe mtu) as [m0|]; split; try discriminate; try reflexivity.
  intros m H. inversion H; subst m0. destruct (Hacc m eq_refl) as (_ & Hr & Hs & Hc). lia.
Qed.

End Drop.
