(* entropy.go, rngAES - the generator behind every nonce (sess.go: fillRand(nonce) per packet).

     type rngAES struct { mutex; block cipher.Block; seed [16]byte; count uint64 }
     updateSeed: if count < reseedInterval { count++; return }
                 key, seed <- crypto/rand; block = aes.NewCipher(key); count = 0
     Read(p):    if len(p) == 0 { return 0 }; updateSeed(); block.Encrypt(seed, seed); n = copy(p, seed)
     fillRand(p) = io.ReadFull(entropy, p): Read(p[got:]) until p is full

   The block function is abstract (E : key -> block -> block, a Section variable: AES in the code,
   any cipher.Block in the harness); crypto/rand is an oracle `fresh : nat -> key * block` indexed by
   the number of reseeds so far.  `r_used` is a ghost counter: outputs produced under the current
   key.  This file is the executable model only (it is run against the real rngAES by the harness);
   proofs are in EntropyProofs.v. *)
From Coq Require Import ZArith List Bool.
From KV.Base Require Import Consts.
Import ListNotations.
Local Open Scope Z_scope.

Section Rng.
  Variable key : Type.
  Variable E : key -> list Z -> list Z.
  Variable fresh : nat -> key * list Z.

  Record rng := mkRng {
    r_epoch : nat;       (* reseeds so far (ghost) *)
    r_key : key;
    r_seed : list Z;
    r_count : Z;
    r_used : Z           (* outputs produced under r_key (ghost) *)
  }.

  Definition update_seed (r : rng) : rng :=
    if r_count r <? c_reseedInterval
    then mkRng (r_epoch r) (r_key r) (r_seed r) (r_count r + 1) (r_used r)
    else let (k, s) := fresh (r_epoch r) in mkRng (S (r_epoch r)) k s 0 0.

  (* Read(p) with len(p) = n: the new state and the bytes copied into p *)
  Definition rng_read (n : Z) (r : rng) : rng * list Z :=
    if n <=? 0 then (r, [])
    else
      let r1 := update_seed r in
      let s := E (r_key r1) (r_seed r1) in
      (mkRng (r_epoch r1) (r_key r1) s (r_count r1) (r_used r1 + 1), firstn (Z.to_nat n) s).

  (* io.ReadFull: read until n bytes have been produced.  A Read that returns no bytes for a
     non-empty buffer would make ReadFull give up (io.ErrNoProgress after 100 tries): the model
     stops there too; it cannot happen when E returns 16-byte blocks. *)
  Fixpoint fill_rand (fuel : nat) (n : Z) (r : rng) : rng * list Z :=
    match fuel with
    | O => (r, [])
    | S f =>
      if n <=? 0 then (r, [])
      else
        let '(r1, out) := rng_read n r in
        let got := Z.of_nat (length out) in
        if got <=? 0 then (r1, out)
        else let '(r2, rest) := fill_rand f (n - got) r1 in (r2, out ++ rest)
    end.

  (* a sequence of Read calls with the given buffer lengths: final state, outputs in order *)
  Fixpoint rng_reads (ns : list Z) (r : rng) : rng * list (list Z) :=
    match ns with
    | [] => (r, [])
    | n :: t => let '(r1, o) := rng_read n r in let '(r2, os) := rng_reads t r1 in (r2, o :: os)
    end.
End Rng.

Arguments mkRng {key}.
Arguments r_epoch {key}.
Arguments r_key {key}.
Arguments r_seed {key}.
Arguments r_count {key}.
Arguments r_used {key}.

(* the harness's toy cipher.Block: out[i] = in[(i+1) mod 16] + k + i (mod 256) *)
Definition toy_E (k : Z) (s : list Z) : list Z :=
  map (fun p : nat * Z => (snd p + k + Z.of_nat (fst p)) mod 256) (combine (seq 0 16) (tl s ++ [hd 0 s])).

(* rngChacha8 (the generator used where AES hardware is missing): the same counter logic around
   math/rand/v2's ChaCha8, which is abstract here - `next g n` = rand.Read of n bytes, `reseed i g`
   = g.Seed(the i-th 32 bytes drawn from crypto/rand). *)
Section Chacha.
  Variable gen : Type.
  Variable next : gen -> Z -> gen * list Z.
  Variable reseed : nat -> gen -> gen.

  Record crng := mkCrng { c_epoch : nat; c_gen : gen; c_count : Z }.

  Definition c_update (r : crng) : crng :=
    if c_count r <? c_reseedInterval then mkCrng (c_epoch r) (c_gen r) (c_count r + 1)
    else mkCrng (S (c_epoch r)) (reseed (c_epoch r) (c_gen r)) 0.

  Definition c_read (n : Z) (r : crng) : crng * list Z :=
    if n <=? 0 then (r, [])
    else let r1 := c_update r in
         let '(g, o) := next (c_gen r1) n in (mkCrng (c_epoch r1) g (c_count r1), o).

  Fixpoint c_reads (ns : list Z) (r : crng) : crng * list (list Z) :=
    match ns with
    | [] => (r, [])
    | n :: t => let '(r1, o) := c_read n r in let '(r2, os) := c_reads t r1 in (r2, o :: os)
    end.
End Chacha.
Arguments mkCrng {gen}.
Arguments c_epoch {gen}.
Arguments c_gen {gen}.
Arguments c_count {gen}.
