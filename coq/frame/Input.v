(* The receive side behind the integrity gate with Go's run-time faults made explicit
   (sess.go: UDPSession.packetInput / kcpInput, the header peek of Listener.packetInput).
   Every slice expression and every binary.LittleEndian read is a partial operation here; where
   the Go code would fault on a bound the function returns GPanic <site>.  The FEC decoder and
   the ARQ core are abstract total state transformers (their own totality is the FEC and core
   engines' C05).  No proofs in this file. *)
From Coq Require Import ZArith List Bool.
From KV.Base Require Import Consts Word.
From KV.Frame Require Import Wire Frame.
Import ListNotations.
Local Open Scope Z_scope.

Inductive gres (T : Type) := GOk (v : T) | GPanic (site : Z).
Arguments GOk {T} v.
Arguments GPanic {T} site.

(* b[lo:], b[lo:hi] (hi <= len; Go would even allow hi <= cap), Uint16(b[off:]), Uint32(b[off:]) *)
Definition g_from (lo : Z) (b : bytes) : option bytes :=
  if (0 <=? lo) && (lo <=? blen b) then Some (zdrop lo b) else None.
Definition g_slice (lo hi : Z) (b : bytes) : option bytes :=
  if (0 <=? lo) && (lo <=? hi) && (hi <=? blen b) then Some (zdrop lo (ztake hi b)) else None.
Definition g_u16 (off : Z) (b : bytes) : option Z :=
  if (0 <=? off) && (off + 2 <=? blen b) then Some (rd16 (zdrop off b)) else None.
Definition g_u32 (off : Z) (b : bytes) : option Z :=
  if (0 <=? off) && (off + 4 <=? blen b) then Some (rd32 (zdrop off b)) else None.

(* panic sites *)
Definition S_flag := 1.        (* Uint16(data[4:]) in kcpInput *)
Definition S_fecbody := 2.     (* data[fecHeaderSizePlus2:] *)
Definition S_recslice := 3.    (* r[2:sz] *)
Definition S_recsize := 4.     (* Uint16(r) *)
Definition S_oob := 5.         (* data[fecHeaderSizePlus2+convSize:] *)
Definition S_lflag := 11.      (* Uint16(data[4:]) in Listener.packetInput *)
Definition S_lconv := 12.      (* conv / sn reads of the listener *)
Definition S_gate := 20.       (* data[:nonceSize], data[nonceSize:], data[crcSize:], Uint32(data) in packetInput *)

Section Input.
Variable K : crypto.
Variables Core Dec : Type.
Variable core_input : Core -> bytes -> Z -> Core.
Variable dec_new : Z -> Z -> Dec.
Variable dec_decode : Dec -> bytes -> Dec * list bytes.

Local Notation rxstate := (rxstate Core Dec).

(* one recovered shard: len(r) >= 2, sz := Uint16(r), int(sz) <= len(r) && sz >= 2, Input(r[2:sz]) *)
Definition feed_recovered_g (core : Core) (r : bytes) : gres Core :=
  if 2 <=? blen r then
    match g_u16 0 r with
    | None => GPanic S_recsize
    | Some sz =>
      if (sz <=? blen r) && (2 <=? sz) then
        match g_slice 2 sz r with
        | None => GPanic S_recslice
        | Some x => GOk (core_input core x c_IKCP_PACKET_FEC)
        end
      else GOk core
    end
  else GOk core.

Fixpoint feed_all_g (core : Core) (recs : list bytes) : gres Core :=
  match recs with
  | [] => GOk core
  | r :: t =>
    match feed_recovered_g core r with
    | GPanic s => GPanic s
    | GOk core1 => feed_all_g core1 t
    end
  end.

(* UDPSession.kcpInput *)
Definition kcp_input_g (st : rxstate) (data : bytes) : gres (rxstate * list rx_event) :=
  match g_u16 4 data with
  | None => GPanic S_flag
  | Some flag =>
    if (flag =? c_typeData) || (flag =? c_typeParity) then
      if blen data <? c_fecHeaderSizePlus2 then GOk (st, []) else
      let d0 := match rx_dec _ _ st with Some d => d | None => dec_new 1 1 end in
      let core1 :=
        if flag =? c_typeData then
          match g_from c_fecHeaderSizePlus2 data with
          | None => GPanic S_fecbody
          | Some body => GOk (core_input (rx_core _ _ st) body c_IKCP_PACKET_REGULAR)
          end
        else GOk (rx_core _ _ st) in
      match core1 with
      | GPanic s => GPanic s
      | GOk c1 =>
        let '(d1, recs) := dec_decode d0 data in
        match feed_all_g c1 recs with
        | GPanic s => GPanic s
        | GOk c2 => GOk (mkRx _ _ c2 (Some d1) (rx_handler _ _ st), [])
        end
      end
    else if flag =? c_typeOOB then
      if rx_handler _ _ st then
        match g_from (c_fecHeaderSizePlus2 + c_convSize) data with
        | None => GPanic S_oob
        | Some p => GOk (st, [EvOOB p])
        end
      else GOk (st, [])
    else
      GOk (mkRx _ _ (core_input (rx_core _ _ st) data c_IKCP_PACKET_REGULAR) (rx_dec _ _ st) (rx_handler _ _ st), [])
  end.

(* the decrypt / verify part of packetInput *)
Definition unframe_g (c : cipher) (data : bytes) : gres (option bytes) :=
  let r :=
    match c with
    | CNone => GOk (Some data)
    | CAead =>
      if blen data <? k_ns K + k_ov K then GOk None else
      match g_slice 0 (k_ns K) data, g_from (k_ns K) data with
      | Some nonce, Some ct => GOk (k_open K nonce ct)
      | _, _ => GPanic S_gate
      end
    | CCrc =>
      if blen data <? c_cryptHeaderSize then GOk None else
      match g_from c_nonceSize (k_dec K data) with
      | None => GPanic S_gate
      | Some d1 =>
        match g_from c_crcSize d1, g_u32 0 d1 with
        | Some d2, Some sum => if k_crc K d2 =? sum then GOk (Some d2) else GOk None
        | _, _ => GPanic S_gate
        end
      end
    end in
  match r with
  | GPanic s => GPanic s
  | GOk None => GOk None
  | GOk (Some d) => if blen d <? min_pkt then GOk None else GOk (Some d)
  end.

(* UDPSession.packetInput *)
Definition packet_input_g (c : cipher) (st : rxstate) (dgram : bytes) : gres (rxstate * list rx_event) :=
  match unframe_g c dgram with
  | GPanic s => GPanic s
  | GOk None => GOk (st, [])
  | GOk (Some d) => kcp_input_g st d
  end.
End Input.

(* Listener.packetInput, after its gate: what it reads from the packet to route it *)
Inductive lpeek := PkReturn | PkNoConv | PkConv (conv sn : Z).

Definition listener_peek_g (data : bytes) : gres lpeek :=
  match g_u16 4 data with
  | None => GPanic S_lflag
  | Some flag =>
    if flag =? c_typeData then
      if blen data <? c_fecHeaderSizePlus2 + c_IKCP_OVERHEAD then GOk PkNoConv else
      match g_u32 c_fecHeaderSizePlus2 data, g_u32 (c_fecHeaderSizePlus2 + c_IKCP_SN_OFFSET) data with
      | Some conv, Some sn => GOk (PkConv conv sn)
      | _, _ => GPanic S_lconv
      end
    else if flag =? c_typeParity then GOk PkNoConv
    else if flag =? c_typeOOB then
      match g_u32 c_fecHeaderSizePlus2 data with
      | Some conv => GOk (PkConv conv 0)
      | None => GPanic S_lconv
      end
    else
      if blen data <? c_IKCP_OVERHEAD then GOk PkReturn else
      match g_u32 0 data, g_u32 c_IKCP_SN_OFFSET data with
      | Some conv, Some sn => GOk (PkConv conv sn)
      | _, _ => GPanic S_lconv
      end
  end.
