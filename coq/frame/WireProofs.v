(* Proofs about the segment codec of Wire.v. *)
From Coq Require Import ZArith List Bool Lia.
From KV.Base Require Import Consts Word WordLemmas.
From KV.Frame Require Import Wire.
Import ListNotations.
Local Open Scope Z_scope.

Ltac Zify.zify_post_hook ::= Z.div_mod_to_equations.

Definition wseg_ok (s : wseg) : Prop :=
  is_u32 (w_conv s) /\ 0 <= w_cmd s < 256 /\ 0 <= w_frg s < 256 /\ 0 <= w_wnd s < 65536 /\
  is_u32 (w_ts s) /\ is_u32 (w_sn s) /\ is_u32 (w_una s) /\ blen (w_data s) < W32.

Lemma blen_app a b : blen (a ++ b) = blen a + blen b.
Proof. unfold blen. rewrite app_length. lia. Qed.

Lemma blen_nonneg b : 0 <= blen b.
Proof. unfold blen. lia. Qed.

Lemma blen_cons x b : blen (x :: b) = 1 + blen b.
Proof. unfold blen. cbn [length]. lia. Qed.

Lemma blen_nil : blen [] = 0.
Proof. reflexivity. Qed.

Lemma ztake_app_exact a b : ztake (blen a) (a ++ b) = a.
Proof.
  unfold ztake, blen. rewrite Nat2Z.id.
  rewrite firstn_app, Nat.sub_diag, firstn_all. cbn. apply app_nil_r.
Qed.

Lemma zdrop_app_exact a b : zdrop (blen a) (a ++ b) = b.
Proof.
  unfold zdrop, blen. rewrite Nat2Z.id.
  rewrite skipn_app, Nat.sub_diag, skipn_all. reflexivity.
Qed.

Lemma ztake_app_len n a b : blen a = n -> ztake n (a ++ b) = a.
Proof. intros <-. apply ztake_app_exact. Qed.

Lemma zdrop_app_len n a b : blen a = n -> zdrop n (a ++ b) = b.
Proof. intros <-. apply zdrop_app_exact. Qed.

Lemma skipn_app_len (n : nat) (a b : bytes) : length a = n -> skipn n (a ++ b) = b.
Proof. intros <-. rewrite skipn_app, Nat.sub_diag, skipn_all. reflexivity. Qed.

Lemma firstn_app_len (n : nat) (a b : bytes) : length a = n -> firstn n (a ++ b) = a.
Proof. intros <-. rewrite firstn_app, Nat.sub_diag, firstn_all. cbn. apply app_nil_r. Qed.

Lemma le16_length x : length (le16 x) = 2%nat.
Proof. reflexivity. Qed.

Lemma blen_le32 x : blen (le32 x) = 4.
Proof. reflexivity. Qed.

Lemma blen_le16 x : blen (le16 x) = 2.
Proof. reflexivity. Qed.

(* ---- explicit layout: offsets 0,4,5,6,8,12,16,20 little endian, 24 bytes, then len bytes *)
Lemma encode_seg_layout s :
  encode_seg s =
    le32 (w_conv s) ++ [w_cmd s] ++ [w_frg s] ++ le16 (w_wnd s) ++ le32 (w_ts s) ++
    le32 (w_sn s) ++ le32 (w_una s) ++ le32 (blen (w_data s)) ++ w_data s
  /\ blen (encode_seg s) = c_IKCP_OVERHEAD + blen (w_data s)
  /\ (wseg_ok s ->
      rd32 (zdrop 0 (encode_seg s)) = w_conv s /\
      nth 4 (encode_seg s) 0 = w_cmd s /\
      nth 5 (encode_seg s) 0 = w_frg s /\
      rd16 (zdrop 6 (encode_seg s)) = w_wnd s /\
      rd32 (zdrop 8 (encode_seg s)) = w_ts s /\
      rd32 (zdrop 12 (encode_seg s)) = w_sn s /\
      rd32 (zdrop 16 (encode_seg s)) = w_una s /\
      rd32 (zdrop 20 (encode_seg s)) = blen (w_data s) /\
      zdrop 24 (encode_seg s) = w_data s).
Proof.
  split; [reflexivity|]. split.
  - unfold encode_seg, c_IKCP_OVERHEAD, blen. repeat rewrite app_length. cbn [length le32 le16]. lia.
  - intros (Hc & Hcmd & Hf & Hw & Ht & Hs & Hu & Hl).
    pose proof (blen_nonneg (w_data s)) as Hn.
    unfold is_u32, W32 in *. unfold encode_seg, zdrop, le32, le16.
    change (Z.to_nat 0) with 0%nat; change (Z.to_nat 6) with 6%nat; change (Z.to_nat 8) with 8%nat;
    change (Z.to_nat 12) with 12%nat; change (Z.to_nat 16) with 16%nat;
    change (Z.to_nat 20) with 20%nat; change (Z.to_nat 24) with 24%nat.
    cbn [app skipn nth rd32 rd16].
    repeat split; lia.
Qed.

(* ---- round trip *)
Lemma parse_one_encode s rest :
  wseg_ok s -> parse_one (encode_seg s ++ rest) = Some (s, rest).
Proof.
  intros (Hc & Hcmd & Hf & Hw & Ht & Hs & Hu & Hl).
  pose proof (blen_nonneg (w_data s)) as Hn.
  pose proof (blen_nonneg rest) as Hr.
  unfold parse_one.
  assert (Hlen : blen (encode_seg s ++ rest) = 24 + blen (w_data s) + blen rest).
  { rewrite blen_app. unfold encode_seg, blen. repeat rewrite app_length. cbn [length le32 le16]. lia. }
  rewrite Hlen. unfold c_IKCP_OVERHEAD, c_IKCP_SN_OFFSET.
  destruct (24 + blen (w_data s) + blen rest <? 24) eqn:E; [apply Z.ltb_lt in E; lia|].
  assert (Hd : zdrop 24 (encode_seg s ++ rest) = w_data s ++ rest).
  { unfold encode_seg, zdrop, le32, le16. change (Z.to_nat 24) with 24%nat. reflexivity. }
  rewrite Hd. clear Hd.
  unfold is_u32, W32 in *.
  unfold encode_seg, le32, le16.
  change (Z.to_nat 12) with 12%nat.
  cbn [app skipn nth rd32 rd16].
  assert (E32 : forall x, 0 <= x < 4294967296 ->
     x mod 256 + 256 * ((x / 256) mod 256) + 65536 * ((x / 65536) mod 256) + 16777216 * ((x / 16777216) mod 256) = x) by (intros; lia).
  assert (E16 : forall x, 0 <= x < 65536 -> x mod 256 + 256 * ((x / 256) mod 256) = x) by (intros; lia).
  rewrite !E32 by lia. rewrite E16 by lia.
  rewrite blen_app.
  destruct (blen (w_data s) + blen rest <? blen (w_data s)) eqn:E2; [apply Z.ltb_lt in E2; lia|].
  rewrite ztake_app_exact, zdrop_app_exact. destruct s; reflexivity.
Qed.

Lemma encode_seg_cons s rest : exists x l, encode_seg s ++ rest = x :: l.
Proof. unfold encode_seg, le32. cbn [app]. eauto. Qed.

Lemma parse_all_fuel_encode segs : forall fuel,
  Forall wseg_ok segs -> (length (encode_segs segs) <= fuel)%nat ->
  parse_all_fuel fuel (encode_segs segs) = Some segs.
Proof.
  induction segs as [|s segs IH]; intros fuel Hok Hf.
  - destruct fuel; reflexivity.
  - inversion Hok as [|? ? Hs Hrest]; subst.
    unfold encode_segs in *. cbn [map concat] in *.
    destruct (encode_seg_cons s (concat (map encode_seg segs))) as (x & l & Hx).
    assert (Hl24 : (24 <= length (encode_seg s))%nat).
    { unfold encode_seg. repeat rewrite app_length. cbn [length le32 le16]. lia. }
    rewrite app_length in Hf.
    destruct fuel as [|fuel]; [lia|].
    cbn [parse_all_fuel]. rewrite Hx. rewrite <- Hx.
    rewrite parse_one_encode by assumption.
    rewrite IH; [reflexivity|assumption|lia].
Qed.

Lemma parse_all_encode segs :
  Forall wseg_ok segs -> parse_all (encode_segs segs) = Some segs.
Proof. intros. unfold parse_all. apply parse_all_fuel_encode; auto. Qed.

(* the boolean range check agrees with the proposition *)
Lemma wseg_okb_ok s : wseg_okb s = true <-> wseg_ok s.
Proof.
  unfold wseg_okb, wseg_ok, is_u32b, is_u32.
  rewrite !andb_true_iff, !Z.leb_le, !Z.ltb_lt. tauto.
Qed.
