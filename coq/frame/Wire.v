(* Wire format of one KCP segment (kcp.go: segment.encode, the header parsing at the top of
   KCP.Input).  Executable Gallina only - no proofs in this file.

   A segment on the wire is a 24-byte (c_IKCP_OVERHEAD) little-endian header
        conv(4) cmd(1) frg(1) wnd(2) ts(4) sn(4) una(4) len(4)
   followed by exactly `len` bytes of data.  (README.md's diagram omits `len`; the code, the
   Wireshark dissector and the property text have it - DESIGN boundary B6.) *)
From Coq Require Import ZArith List Bool.
From KV.Base Require Import Consts Word.
Import ListNotations.
Local Open Scope Z_scope.

Definition bytes := list Z.
Definition blen (b : bytes) : Z := Z.of_nat (length b).

(* Go slicing b[n:] and b[:n] for 0 <= n <= len b (callers guard the bound) *)
Definition zdrop (n : Z) (b : bytes) : bytes := skipn (Z.to_nat n) b.
Definition ztake (n : Z) (b : bytes) : bytes := firstn (Z.to_nat n) b.

Record wseg := mkWseg {
  w_conv : Z; w_cmd : Z; w_frg : Z; w_wnd : Z; w_ts : Z; w_sn : Z; w_una : Z;
  w_data : bytes }.

(* segment.encode followed by copy(ptr, seg.data) *)
Definition encode_seg (s : wseg) : bytes :=
  le32 (w_conv s) ++ [w_cmd s; w_frg s] ++ le16 (w_wnd s) ++ le32 (w_ts s) ++ le32 (w_sn s)
       ++ le32 (w_una s) ++ le32 (blen (w_data s)) ++ w_data s.

(* the field ranges of the Go struct: uint32 / uint8 / uint16, data of at most 2^32-1 bytes *)
Definition wseg_okb (s : wseg) : bool :=
  is_u32b (w_conv s) && ((0 <=? w_cmd s) && (w_cmd s <? 256)) && ((0 <=? w_frg s) && (w_frg s <? 256))
  && ((0 <=? w_wnd s) && (w_wnd s <? 65536)) && is_u32b (w_ts s) && is_u32b (w_sn s)
  && is_u32b (w_una s) && (blen (w_data s) <? W32).

(* One step of the parsing loop of KCP.Input: header fields at offsets 0,4,5,6,8,12,16,20,
   then `length` bytes.  None = fewer than 24 bytes left, or fewer than `length` bytes after
   the header (Input returns -2 there).  The command / conversation / mtuLimit checks of
   Input are the core's business, not the layout's. *)
Definition parse_one (b : bytes) : option (wseg * bytes) :=
  if blen b <? c_IKCP_OVERHEAD then None else
  let conv := rd32 b in
  let cmd := nth 4 b 0 in
  let frg := nth 5 b 0 in
  let wnd := rd16 (skipn 6 b) in
  let ts := rd32 (skipn 8 b) in
  let sn := rd32 (skipn (Z.to_nat c_IKCP_SN_OFFSET) b) in
  let una := rd32 (skipn 16 b) in
  let length := rd32 (skipn 20 b) in
  let d := zdrop c_IKCP_OVERHEAD b in
  if blen d <? length then None else
  Some (mkWseg conv cmd frg wnd ts sn una (ztake length d), zdrop length d).

(* Walk a whole datagram: zero or more segments, nothing left over.  Each step consumes at
   least 24 bytes, so `length b` is enough fuel. *)
Fixpoint parse_all_fuel (fuel : nat) (b : bytes) : option (list wseg) :=
  match b with
  | [] => Some []
  | _ =>
    match fuel with
    | O => None
    | S f =>
      match parse_one b with
      | None => None
      | Some (s, rest) =>
        match parse_all_fuel f rest with
        | None => None
        | Some l => Some (s :: l)
        end
      end
    end
  end.

Definition parse_all (b : bytes) : option (list wseg) := parse_all_fuel (length b) b.

(* the datagram the core hands to the session's output callback *)
Definition encode_segs (l : list wseg) : bytes := concat (map encode_seg l).
