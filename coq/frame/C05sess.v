(* C05, session part - no datagram content can make the receive path of a session or listener
   fault: the demultiplexer behind the integrity gate (FEC data -> core + decoder, parity ->
   decoder, recovered shards -> size strip -> core, OOB -> handler, raw -> core) with every
   slice expression and header read as a partial operation.  Statements only.

   Abstract, total: the ARQ core (its C05: Kcp.v's `input` with Panic outcomes) and the FEC
   decoder (its C05 in the FEC engine; boundary B2: decode needs >= 6 bytes, kcpInput guarantees
   >= 8).  The decoder's OUTPUT is universally quantified: any list of byte strings. *)
From Coq Require Import ZArith List Bool.
From KV.Base Require Import Consts Word.
From KV.Frame Require Import Wire Frame Input WireProofs InputProofs FrameExamples.
Import ListNotations.
Local Open Scope Z_scope.

(* Every payload that passed the gate (at least min(24, 8+4) = 12 bytes; no upper bound is needed,
   so 0..mtuLimit is covered), decoder present or lazily created (rx_dec = None), handler
   registered or not, any core, any decoder and any decoder output: the guarded Go code never
   reaches a fault, and it computes exactly the total function the C19 theorems are about. *)
Theorem c05_sess_input_total :
  forall (Core Dec : Type) (core_input : Core -> bytes -> Z -> Core) (dec_new : Z -> Z -> Dec)
         (dec_decode : Dec -> bytes -> Dec * list bytes) (st : rxstate Core Dec) (data : bytes),
    min_pkt <= blen data ->
    kcp_input_g Core Dec core_input dec_new dec_decode st data =
      GOk (kcp_input Core Dec core_input dec_new dec_decode st data).
Proof. exact kcp_input_total. Qed.
Print Assumptions c05_sess_input_total.

(* in particular a recovered shard is an arbitrary byte string *)
Theorem c05_recovered_total :
  forall (Core : Type) (core_input : Core -> bytes -> Z -> Core) (recs : list bytes) (core : Core),
    feed_all_g Core core_input core recs = GOk (fold_left (feed_recovered Core core_input) recs core).
Proof. exact feed_all_total. Qed.
Print Assumptions c05_recovered_total.

(* UDPSession.packetInput on ANY datagram (input taken BEFORE decryption): any length, any bytes,
   every cipher class; Decrypt is length-preserving (it works in place), Open may return anything *)
Theorem c05_packet_input_total :
  forall (K : crypto) (Core Dec : Type) (core_input : Core -> bytes -> Z -> Core) (dec_new : Z -> Z -> Dec)
         (dec_decode : Dec -> bytes -> Dec * list bytes),
    (forall b, blen (k_dec K b) = blen b) -> 0 <= k_ns K -> 0 <= k_ov K ->
    forall (c : cipher) (st : rxstate Core Dec) (dgram : bytes),
      packet_input_g K Core Dec core_input dec_new dec_decode c st dgram =
        GOk (packet_input K Core Dec core_input dec_new dec_decode c st dgram).
Proof. exact packet_input_total. Qed.
Print Assumptions c05_packet_input_total.

(* Listener.packetInput: the reads by which it routes a packet (FEC flag, conv, sn) *)
Theorem c05_listener_peek_total :
  forall data : bytes, min_pkt <= blen data -> exists p, listener_peek_g data = GOk p.
Proof. exact listener_peek_total. Qed.
Print Assumptions c05_listener_peek_total.

Example c05_input_example :
  feed_recovered_g _ ex_core_input [] (skipn 6 ex_forged_parity) = GOk [] /\
  feed_recovered_weak [] (skipn 6 ex_forged_parity) = GPanic S_recslice /\
  kcp_input_g _ _ ex_core_input (fun _ _ => []) ex_dec_copy ex_rx_nofec ex_forged_parity =
    GOk (mkRx _ _ [] (Some [ex_forged_parity]) true, []) /\
  feed_recovered_g _ ex_core_input [] [5; 0; 7; 8; 9; 0; 0] = GOk [([7; 8; 9], c_IKCP_PACKET_FEC)] /\
  map (feed_recovered_g _ ex_core_input []) [[9; 0; 1]; [1; 0; 1]; [3]; []] = [GOk []; GOk []; GOk []; GOk []] /\
  listener_peek_g ex_forged_parity = GOk PkNoConv /\
  listener_peek_g [1; 0; 0; 0; 243; 0; 6; 0; 68; 51; 34; 17] = GOk (PkConv 287454020 0) /\
  g_u16 4 [1; 2; 3; 4; 5] = None.
Proof. exact ex_input_total. Qed.
