(* Proofs about the pipeline model of Frame.v (C09 / C19). *)
From Coq Require Import ZArith List Bool Lia.
From KV.Base Require Import Consts Word WordLemmas.
From KV.Frame Require Import Wire Frame WireProofs.
Import ListNotations.
Local Open Scope Z_scope.

(* WordLemmas installs Z.div_mod_to_equations as zify hook; it drags every Section hypothesis into
   each lia proof term.  Nothing here needs div/mod reasoning. *)
Ltac Zify.zify_post_hook ::= idtac.


(* ---------------------------------------------------------------- small list facts *)
Lemma blen_len_nat (b : bytes) (n : nat) : blen b = Z.of_nat n -> length b = n.
Proof. unfold blen. lia. Qed.

Lemma skipn4_le32 x (r : bytes) : skipn 4 (le32 x ++ r) = r.
Proof. reflexivity. Qed.
Lemma skipn6_hdr a b (r : bytes) : skipn 6 (le32 a ++ le16 b ++ r) = r.
Proof. reflexivity. Qed.
Lemma skipn8_hdr a b c (r : bytes) : skipn 8 (le32 a ++ le16 b ++ le16 c ++ r) = r.
Proof. reflexivity. Qed.
Lemma skipn4_hdr a b (r : bytes) : skipn 4 (le32 a ++ le16 b ++ r) = le16 b ++ r.
Proof. reflexivity. Qed.
Lemma skipn6_hdr' a b c (r : bytes) : skipn 6 (le32 a ++ le16 b ++ le16 c ++ r) = le16 c ++ r.
Proof. reflexivity. Qed.

Lemma fec_body_eq seqid ty payload :
  fec_hdr seqid ty ++ size_prefixed payload =
  le32 seqid ++ le16 ty ++ le16 (u16 (blen payload + 2)) ++ payload.
Proof. unfold fec_hdr, size_prefixed. rewrite <- !app_assoc. reflexivity. Qed.

Lemma blen_fec_body seqid ty payload :
  blen (fec_hdr seqid ty ++ size_prefixed payload) = c_fecHeaderSizePlus2 + blen payload.
Proof. rewrite fec_body_eq. rewrite !blen_app, blen_le32, !blen_le16. unfold c_fecHeaderSizePlus2. lia. Qed.

Lemma u16_small x : 0 <= x < 65536 -> u16 x = x.
Proof. unfold u16. intros. apply Z.mod_small. lia. Qed.

Section Pipeline.
Variable rs_encode : Z -> Z -> list bytes -> list bytes.
Variable K : crypto.
Local Notation enc := (k_enc K).
Local Notation dec := (k_dec K).
Local Notation aead_ns := (k_ns K).
Local Notation aead_ov := (k_ov K).
Local Notation seal := (k_seal K).
Local Notation open := (k_open K).
Local Notation crc := (k_crc K).

Hypothesis dec_enc : forall b, dec (enc b) = b.
Hypothesis enc_len : forall b, blen (enc b) = blen b.
Hypothesis open_seal : forall n p, open n (seal n p) = Some p.
Hypothesis seal_len : forall n p, blen (seal n p) = blen p + aead_ov.
Hypothesis crc_range : forall b, 0 <= crc b < W32.

Local Notation frame := (Frame.frame K).
Local Notation unframe := (Frame.unframe K).
Local Notation spec_strip := (Frame.spec_strip K).
Local Notation spec_decode := (Frame.spec_decode K).
Local Notation stage1 := (Frame.stage1 rs_encode).
Local Notation nonce_len := (Frame.nonce_len K).
Local Notation cipher_hdr := (Frame.cipher_hdr K).

(* ---------------------------------------------------------------- frame: the layout *)

Lemma frame_crc_plain nonce body :
  dec (frame CCrc nonce body) = nonce ++ le32 (crc body) ++ body.
Proof using dec_enc. unfold Frame.frame. apply dec_enc. Qed.

Lemma frame_len c nonce body :
  blen nonce = nonce_len c ->
  blen (frame c nonce body) =
    cipher_hdr c + blen body + (if cipher_eqb c CAead then aead_ov else 0).
Proof using enc_len seal_len.
  intros Hn. destruct c; unfold Frame.frame, Frame.cipher_hdr, Frame.nonce_len in Hn |- *; cbn [cipher_eqb].
  - lia.
  - rewrite enc_len, !blen_app, blen_le32, Hn. unfold c_cryptHeaderSize, c_nonceSize. lia.
  - rewrite blen_app, seal_len, Hn. lia.
Qed.

(* the packet body the FEC stage produces for a data request *)
Lemma fec_encode_pkt e x now rto :
  snd (fst (fec_encode rs_encode e x now rto)) = fec_hdr (fe_next e) c_typeData ++ size_prefixed x.
Proof using Type.
  unfold fec_encode.
  destruct (fe_count e + 1 =? fe_d e); [|reflexivity].
  destruct (now - fe_ts e <? rto); [|reflexivity].
  destruct (seal_parities _ _ _). reflexivity.
Qed.

Lemma stage1_data_body fe kcp now :
  let '(_, body, _) := stage1 fe (mkReq kcp false) now in
  body = match fe with
         | None => kcp
         | Some e => le32 (fe_next e) ++ le16 c_typeData ++ le16 (u16 (blen kcp + 2)) ++ kcp
         end.
Proof using Type.
  destruct fe as [e|]; cbn [Frame.stage1 rq_oob rq_payload]; [|reflexivity].
  pose proof (fec_encode_pkt e kcp now c_maxFECEncodeLatency) as H.
  destruct (fec_encode rs_encode e kcp now c_maxFECEncodeLatency) as [[e1 b] ps].
  cbn [fst snd] in H. subst b. apply fec_body_eq.
Qed.

Lemma stage1_oob_body e payload now :
  stage1 (Some e) (mkReq payload true) now =
  (Some e, le32 oob_seqid ++ le16 c_typeOOB ++ le16 (u16 (blen payload + 2)) ++ payload, []).
Proof using Type. cbn [Frame.stage1 rq_oob rq_payload encode_oob]. rewrite fec_body_eq. reflexivity. Qed.

Theorem frame_layout c nonce fe kcp now :
  let '(_, body, _) := stage1 fe (mkReq kcp false) now in
  body = match fe with
         | None => kcp
         | Some e => le32 (fe_next e) ++ le16 c_typeData ++ le16 (u16 (blen kcp + 2)) ++ kcp
         end /\
  frame c nonce body =
    match c with
    | CNone => body
    | CCrc => enc (nonce ++ le32 (crc body) ++ body)
    | CAead => nonce ++ seal nonce body
    end /\
  (c = CCrc -> dec (frame c nonce body) = nonce ++ le32 (crc body) ++ body) /\
  (blen nonce = nonce_len c ->
   blen (frame c nonce body) =
     cipher_hdr c + blen body + (if cipher_eqb c CAead then aead_ov else 0)).
Proof using dec_enc enc_len seal_len.
  pose proof (stage1_data_body fe kcp now) as H.
  destruct (stage1 fe (mkReq kcp false) now) as [[fe1 body] ps].
  split; [exact H|]. split; [destruct c; reflexivity|]. split.
  - intros ->. apply frame_crc_plain.
  - apply frame_len.
Qed.

(* ---------------------------------------------------------------- spec_strip inverts frame *)

Lemma spec_strip_frame c nonce body :
  blen nonce = nonce_len c -> spec_strip c (frame c nonce body) = Some body.
Proof using dec_enc open_seal crc_range.
  intros Hn. destruct c; unfold Frame.spec_strip, Frame.frame, Frame.nonce_len in Hn |- *.
  - reflexivity.
  - rewrite dec_enc. unfold c_nonceSize in Hn.
    pose proof (blen_nonneg body).
    rewrite !blen_app, blen_le32, Hn.
    destruct (16 + (4 + blen body) <? 20) eqn:E; [apply Z.ltb_lt in E; lia|].
    apply (blen_len_nat nonce 16) in Hn.
    rewrite (skipn_app_len 16 nonce) by assumption.
    rewrite rd32_le32 by apply crc_range.
    replace (skipn 20 (nonce ++ le32 (crc body) ++ body)) with body.
    + rewrite Z.eqb_refl. reflexivity.
    + rewrite app_assoc. rewrite skipn_app_len; [reflexivity|]. rewrite app_length, Hn. reflexivity.
  - pose proof (blen_nonneg (seal nonce body)).
    rewrite blen_app, Hn.
    destruct (aead_ns + blen (seal nonce body) <? aead_ns) eqn:E; [apply Z.ltb_lt in E; lia|].
    rewrite ztake_app_len, zdrop_app_len by assumption. apply open_seal.
Qed.

Lemma spec_segments_encode segs :
  Forall wseg_ok segs -> segs <> [] -> spec_segments (encode_segs segs) = Some segs.
Proof using Type.
  intros Hok Hne. unfold spec_segments. rewrite parse_all_encode by assumption.
  destruct segs; [congruence|reflexivity].
Qed.

Definition fec_info (fe : option fecenc) (kcp : bytes) : option (Z * Z) :=
  match fe with None => None | Some e => Some (fe_next e, blen kcp + 2) end.
Definition fec_on (fe : option fecenc) : bool := match fe with Some _ => true | None => false end.

(* data packets, every cipher class, FEC on or off *)
Theorem spec_decoder_data c nonce fe segs now :
  Forall wseg_ok segs -> segs <> [] ->
  blen nonce = nonce_len c ->
  (forall e, fe = Some e -> is_u32 (fe_next e)) ->
  blen (encode_segs segs) + 2 < 65536 ->
  let '(_, body, _) := stage1 fe (mkReq (encode_segs segs) false) now in
  spec_decode c (fec_on fe) (frame c nonce body) = Some (SpData (fec_info fe (encode_segs segs)) segs).
Proof using dec_enc open_seal crc_range.
  intros Hok Hne Hn Hnext Hsz.
  pose proof (stage1_data_body fe (encode_segs segs) now) as Hb.
  destruct (stage1 fe (mkReq (encode_segs segs) false) now) as [[fe1 body] ps].
  unfold Frame.spec_decode. rewrite spec_strip_frame by assumption. subst body.
  pose proof (blen_nonneg (encode_segs segs)) as Hk.
  destruct fe as [e|]; cbn [fec_on fec_info].
  - specialize (Hnext e eq_refl).
    rewrite !blen_app, blen_le32, !blen_le16.
    destruct (4 + (2 + (2 + blen (encode_segs segs))) <? 6) eqn:E1; [apply Z.ltb_lt in E1; lia|].
    destruct (4 + (2 + (2 + blen (encode_segs segs))) <? 8) eqn:E2; [apply Z.ltb_lt in E2; lia|].
    rewrite rd32_le32 by exact Hnext.
    rewrite skipn4_hdr, skipn6_hdr', skipn8_hdr.
    rewrite rd16_le16 by (unfold c_typeData; lia).
    rewrite u16_small by lia.
    rewrite rd16_le16 by lia.
    unfold c_typeData. change (241 =? 242) with false. change (241 =? 241) with true.
    rewrite Z.eqb_refl. cbn [negb].
    rewrite spec_segments_encode by assumption. reflexivity.
  - rewrite spec_segments_encode by assumption. reflexivity.
Qed.

(* out-of-band packets *)
Theorem spec_decoder_oob c nonce e conv payload now :
  blen nonce = nonce_len c -> is_u32 conv ->
  blen payload + c_convSize + 2 < 65536 ->
  let '(_, body, _) := stage1 (Some e) (mkReq (le32 conv ++ payload) true) now in
  spec_decode c true (frame c nonce body) =
    Some (SpOOB oob_seqid (blen payload + c_convSize + 2) conv payload).
Proof using dec_enc open_seal crc_range.
  intros Hn Hc Hsz. rewrite stage1_oob_body.
  unfold Frame.spec_decode. rewrite spec_strip_frame by assumption.
  pose proof (blen_nonneg payload) as Hk. unfold c_convSize in Hsz |- *.
  rewrite !blen_app, !blen_le32, !blen_le16.
  destruct (4 + (2 + (2 + (4 + blen payload))) <? 6) eqn:E1; [apply Z.ltb_lt in E1; lia|].
  destruct (4 + (2 + (2 + (4 + blen payload))) <? 8) eqn:E2; [apply Z.ltb_lt in E2; lia|].
  rewrite rd32_le32 by (unfold oob_seqid, W32; lia).
  rewrite skipn4_hdr, skipn6_hdr', skipn8_hdr.
  rewrite rd16_le16 by (unfold c_typeOOB; lia).
  rewrite u16_small by lia.
  rewrite rd16_le16 by lia.
  unfold c_typeOOB. change (243 =? 242) with false. change (243 =? 241) with false.
  change (243 =? 243) with true.
  rewrite blen_app, blen_le32. rewrite Z.eqb_refl. cbn [negb].
  destruct (4 + blen payload <? 4) eqn:E3; [apply Z.ltb_lt in E3; lia|].
  rewrite rd32_le32 by exact Hc. rewrite skipn4_le32.
  replace (blen payload + 4 + 2) with (4 + blen payload + 2) by lia. reflexivity.
Qed.

(* parity packets *)
Theorem spec_decoder_parity c nonce seqid par :
  blen nonce = nonce_len c -> is_u32 seqid ->
  spec_decode c true (frame c nonce (fec_hdr seqid c_typeParity ++ par)) = Some (SpParity seqid par).
Proof using dec_enc open_seal crc_range.
  intros Hn Hs. unfold Frame.spec_decode. rewrite spec_strip_frame by assumption.
  unfold fec_hdr. rewrite <- app_assoc.
  pose proof (blen_nonneg par).
  rewrite !blen_app, blen_le32, blen_le16.
  destruct (4 + (2 + blen par) <? 6) eqn:E1; [apply Z.ltb_lt in E1; lia|].
  rewrite rd32_le32 by exact Hs. rewrite skipn4_hdr, skipn6_hdr.
  rewrite rd16_le16 by (unfold c_typeParity; lia).
  unfold c_typeParity. change (242 =? 242) with true. reflexivity.
Qed.

(* ---------------------------------------------------------------- fresh nonces, distinct datagrams *)
Local Notation frame_all := (Frame.frame_all K).
Local Notation pp_step := (Frame.pp_step rs_encode K).
Local Notation pp_run := (Frame.pp_run rs_encode K).
Local Notation stage1_run := (Frame.stage1_run rs_encode).
Local Notation stage1w := (Frame.stage1w rs_encode).
Local Notation stage1w_run := (Frame.stage1w_run rs_encode).
Local Notation uses_nonce := Frame.uses_nonce.

Lemma app_inj_len {A} (a c b d : list A) : length a = length c -> a ++ b = c ++ d -> a = c.
Proof using Type.
  revert c. induction a as [|x a IH]; intros [|y c] Hl H; try discriminate; [reflexivity|].
  cbn in *. inversion H; subst. f_equal. apply IH; [lia|assumption].
Qed.

(* a datagram determines its nonce: Encrypt is injective (it has an inverse), and the AEAD
   nonce travels in clear *)
Lemma frame_inj_nonce c n1 n2 b1 b2 :
  uses_nonce c = true -> blen n1 = blen n2 -> frame c n1 b1 = frame c n2 b2 -> n1 = n2.
Proof using dec_enc.
  intros Hu Hl H. assert (Hl' : length n1 = length n2) by (unfold blen in Hl; lia).
  destruct c; [discriminate| |]; unfold Frame.frame in H.
  - apply (f_equal dec) in H. rewrite !dec_enc in H. eapply app_inj_len; eassumption.
  - eapply app_inj_len; eassumption.
Qed.

Definition frame_pair (c : cipher) (nb : bytes * bytes) : bytes := frame c (fst nb) (snd nb).

Lemma frame_all_spec c : uses_nonce c = true -> forall bodies nonces,
  (length bodies <= length nonces)%nat ->
  frame_all c bodies nonces = (map (frame_pair c) (combine nonces bodies), skipn (length bodies) nonces).
Proof using Type.
  intros Hu. induction bodies as [|b t IH]; intros nonces Hl.
  - cbn. destruct nonces; reflexivity.
  - destruct nonces as [|n ns]; [cbn in Hl; lia|].
    cbn [Frame.frame_all]. rewrite Hu. cbn [tl hd]. rewrite IH by (cbn in Hl; lia). reflexivity.
Qed.

Lemma frame_all_none bodies nonces : frame_all CNone bodies nonces = (bodies, nonces).
Proof using Type.
  induction bodies as [|b t IH]; [reflexivity|].
  cbn [Frame.frame_all]. cbn [Frame.uses_nonce cipher_eqb negb]. rewrite IH. reflexivity.
Qed.

(* one iteration of postProcess consumes exactly one nonce per packet it emits - the data or
   OOB packet and every parity packet - and the i-th packet carries the i-th of them *)
Theorem fresh_nonce_each c fe wire r now nonces :
  let '(fe1, b, ps) := stage1w wire (aead_extra K c) fe r now in
  let bodies := b :: ps in
  (uses_nonce c = true -> (length bodies <= length nonces)%nat ->
     pp_step c fe wire r now nonces =
       (fe1, map (frame_pair c) (combine nonces bodies), skipn (length bodies) nonces)) /\
  (c = CNone -> pp_step c fe wire r now nonces = (fe1, bodies, nonces)).
Proof using Type.
  unfold Frame.pp_step. destruct (stage1w wire (aead_extra K c) fe r now) as [[fe1 b] ps]. cbn zeta. split.
  - intros Hu Hl. rewrite frame_all_spec by assumption. reflexivity.
  - intros ->. rewrite frame_all_none. reflexivity.
Qed.

(* all packet bodies of a run, in emission order *)
Definition run_bodies (l : list (req * bytes * list bytes)) : list bytes :=
  concat (map (fun x => snd (fst x) :: snd x) l).

Lemma combine_app_l {A B} (l : list A) (a b : list B) : (length a <= length l)%nat ->
  combine l (a ++ b) = combine l a ++ combine (skipn (length a) l) b.
Proof using Type.
  revert l. induction a as [|x a IH]; intros l Hl.
  - destruct l; reflexivity.
  - destruct l as [|y l]; [cbn in Hl; lia|]. cbn. f_equal. apply IH. cbn in Hl. lia.
Qed.

Lemma pp_run_spec c : uses_nonce c = true -> forall rs fe nonces,
  (length (run_bodies (snd (stage1w_run (aead_extra K c) fe rs))) <= length nonces)%nat ->
  pp_run c fe rs nonces =
    (fst (stage1w_run (aead_extra K c) fe rs),
     map (frame_pair c) (combine nonces (run_bodies (snd (stage1w_run (aead_extra K c) fe rs))))).
Proof using Type.
  intros Hu. induction rs as [|[[r now] wire] rs IH]; intros fe nonces Hl.
  - cbn. destruct nonces; reflexivity.
  - cbn [Frame.pp_run Frame.stage1w_run] in *. unfold Frame.pp_step.
    destruct (stage1w wire (aead_extra K c) fe r now) as [[fe1 b] ps].
    destruct (stage1w_run (aead_extra K c) fe1 rs) as [fe2 l] eqn:Erun.
    cbn [snd fst] in *. unfold run_bodies in Hl. cbn [map concat fst snd] in Hl.
    fold (run_bodies l) in Hl. rewrite app_length in Hl.
    rewrite frame_all_spec by (try assumption; lia).
    specialize (IH fe1 (skipn (length (b :: ps)) nonces)). rewrite Erun in IH. cbn [fst snd] in IH.
    rewrite IH by (rewrite skipn_length; lia).
    unfold run_bodies at 2. cbn [map concat fst snd]. fold (run_bodies l).
    rewrite combine_app_l by lia. rewrite map_app. reflexivity.
Qed.

Lemma NoDup_map_combine {A B C} (f : A * B -> C) :
  (forall a1 a2 b1 b2, f (a1, b1) = f (a2, b2) -> a1 = a2) ->
  forall (ns : list A) (bs : list B), NoDup ns -> NoDup (map f (combine ns bs)).
Proof using Type.
  intros Hinj. induction ns as [|n ns IH]; intros bs Hnd; [constructor|].
  destruct bs as [|b bs]; [constructor|]. inversion Hnd as [|? ? Hnin Hnd']; subst.
  cbn [combine map]. constructor; [|apply IH; assumption].
  intros Hin. apply in_map_iff in Hin as ((n', b') & Hf & Hin).
  apply Hinj in Hf. subst n'. apply in_combine_l in Hin. contradiction.
Qed.

(* With a cipher configured: pairwise distinct nonces give pairwise distinct datagrams - data,
   retransmissions (they are new requests), pure ACK/probe packets, parity and OOB alike. *)
Theorem distinct c fe rs nonces :
  uses_nonce c = true ->
  Forall (fun n => blen n = nonce_len c) nonces ->
  NoDup nonces ->
  (length (run_bodies (snd (stage1w_run (aead_extra K c) fe rs))) <= length nonces)%nat ->
  NoDup (snd (pp_run c fe rs nonces)).
Proof using dec_enc.
  intros Hu Hlen Hnd Hl. rewrite pp_run_spec by assumption. cbn [snd].
  set (bodies := run_bodies (snd (stage1w_run (aead_extra K c) fe rs))) in *.
  (* restrict to the nonces actually used so that the length hypothesis applies to all of them *)
  assert (Hgen : forall ns bs, Forall (fun n => blen n = nonce_len c) ns -> NoDup ns ->
                 NoDup (map (frame_pair c) (combine ns bs))).
  { induction ns as [|n ns IH]; intros bs HF HN; [constructor|].
    destruct bs as [|b bs]; [constructor|].
    inversion HF as [|? ? Hn HF']; subst. inversion HN as [|? ? Hnin HN']; subst.
    cbn [combine map]. constructor; [|apply IH; assumption].
    intros Hin. apply in_map_iff in Hin as ((n', b') & Hf & Hin).
    pose proof (in_combine_l _ _ _ _ Hin) as Hin'.
    unfold frame_pair in Hf. cbn [fst snd] in Hf.
    apply frame_inj_nonce in Hf; [subst; contradiction|assumption|].
    rewrite Forall_forall in HF'. rewrite (HF' n' Hin'), Hn. reflexivity. }
  apply Hgen; assumption.
Qed.

(* ---------------------------------------------------------------- packetInput inverts frame *)
Lemma unframe_frame c nonce body :
  blen nonce = nonce_len c -> min_pkt <= blen body -> unframe c (frame c nonce body) = Some body.
Proof using dec_enc enc_len open_seal seal_len crc_range.
  intros Hn Hmin. pose proof (blen_nonneg body) as Hb.
  assert (Hfin : (if blen body <? min_pkt then None else Some body) = Some body).
  { destruct (blen body <? min_pkt) eqn:E; [apply Z.ltb_lt in E; lia|reflexivity]. }
  destruct c; unfold Frame.unframe, Frame.frame, Frame.nonce_len in Hn |- *.
  - exact Hfin.
  - rewrite enc_len, dec_enc. rewrite !blen_app, blen_le32, Hn.
    unfold c_cryptHeaderSize, c_nonceSize, c_crcSize in Hn, Hmin, Hfin |- *.
    destruct (16 + (4 + blen body) <? 20) eqn:E; [apply Z.ltb_lt in E; lia|].
    rewrite zdrop_app_len by assumption.
    rewrite (zdrop_app_len 4 (le32 (crc body)) body) by reflexivity.
    rewrite rd32_le32 by apply crc_range. rewrite Z.eqb_refl. exact Hfin.
  - rewrite blen_app, seal_len, Hn.
    destruct (aead_ns + (blen body + aead_ov) <? aead_ns + aead_ov) eqn:E; [apply Z.ltb_lt in E; lia|].
    rewrite ztake_app_len, zdrop_app_len by assumption. rewrite open_seal. exact Hfin.
Qed.

(* ---------------------------------------------------------------- C19 *)
Section Rx.
Variables Core Dec : Type.
Variable core_input : Core -> bytes -> Z -> Core.
Variable dec_new : Z -> Z -> Dec.
Variable dec_decode : Dec -> bytes -> Dec * list bytes.
Local Notation kcp_input := (Frame.kcp_input Core Dec core_input dec_new dec_decode).
Local Notation packet_input := (Frame.packet_input K Core Dec core_input dec_new dec_decode).

(* an 0xF3 packet changes neither the core nor the decoder (whose state includes autotune) *)
Lemma kcp_input_oob st data :
  rd16 (skipn 4 data) = c_typeOOB ->
  kcp_input st data =
    (st, if rx_handler _ _ st then [EvOOB (zdrop (c_fecHeaderSizePlus2 + c_convSize) data)] else []).
Proof using Type.
  intros H. unfold Frame.kcp_input. rewrite H. unfold c_typeOOB, c_typeData, c_typeParity.
  change ((243 =? 241) || (243 =? 242)) with false. change (243 =? 243) with true. reflexivity.
Qed.

Theorem no_disturb_rx st data :
  rd16 (skipn 4 data) = c_typeOOB -> fst (kcp_input st data) = st.
Proof using Type. intros H. rewrite kcp_input_oob by assumption. reflexivity. Qed.

Theorem no_disturb_rx_packet c st dgram d :
  unframe c dgram = Some d -> rd16 (skipn 4 d) = c_typeOOB -> fst (packet_input c st dgram) = st.
Proof using Type. intros Hu Ht. unfold Frame.packet_input. rewrite Hu. apply no_disturb_rx. exact Ht. Qed.

(* SendOOB -> encodeOOB -> nonce/CRC/encrypt -> wire -> packetInput -> kcpInput -> handler *)
Theorem oob_roundtrip c e nonce conv payload mtu now st :
  blen nonce = nonce_len c -> is_u32 conv ->
  c_convSize + blen payload <= mtu ->
  rx_handler _ _ st = true ->
  exists r, send_oob (Some e) mtu conv payload false = OobQueued r /\
    let '(fe1, body, ps) := stage1 (Some e) r now in
    fe1 = Some e /\ ps = [] /\
    packet_input c st (frame c nonce body) = (st, [EvOOB payload]).
Proof using dec_enc enc_len open_seal seal_len crc_range.
  intros Hn Hc Hm Hh. unfold send_oob.
  destruct (mtu <? c_convSize + blen payload) eqn:E; [apply Z.ltb_lt in E; lia|].
  eexists. split; [reflexivity|].
  rewrite stage1_oob_body. split; [reflexivity|]. split; [reflexivity|].
  pose proof (blen_nonneg payload) as Hp.
  unfold Frame.packet_input. rewrite unframe_frame; [|assumption|].
  - rewrite kcp_input_oob.
    + rewrite Hh. unfold c_fecHeaderSizePlus2, c_convSize.
      change (zdrop (8 + 4) (le32 oob_seqid ++ le16 c_typeOOB ++ le16 (u16 (blen (le32 conv ++ payload) + 2)) ++ le32 conv ++ payload))
        with payload. reflexivity.
    + rewrite skipn4_hdr. apply rd16_le16. unfold c_typeOOB. lia.
  - rewrite !blen_app, !blen_le32, !blen_le16. unfold min_pkt, c_IKCP_OVERHEAD, c_fecHeaderSizePlus2, c_convSize. lia.
Qed.

End Rx.

Theorem oob_limits fe mtu conv data q :
  (oob_is_error (send_oob fe mtu conv data q) = true <-> fe = None \/ mtu < c_convSize + blen data) /\
  oob_max_size fe mtu = match fe with None => 0 | Some _ => mtu - c_convSize end /\
  (forall e, fe = Some e ->
     (blen data <= oob_max_size fe mtu <-> oob_is_error (send_oob fe mtu conv data q) = false)).
Proof using Type.
  unfold send_oob, oob_max_size. destruct fe as [e|].
  - destruct (mtu <? c_convSize + blen data) eqn:E; [apply Z.ltb_lt in E|apply Z.ltb_ge in E].
    + cbn [oob_is_error]. split; [split; [right; exact E|reflexivity]|]. split; [reflexivity|].
      intros e' _. split; [lia|discriminate].
    + assert (Hne : oob_is_error (if q then OobDropped else OobQueued (mkReq (le32 conv ++ data) true)) = false)
        by (destruct q; reflexivity).
      rewrite Hne. split; [split; [discriminate|intros [H|H]; [discriminate|lia]]|]. split; [reflexivity|].
      intros e' _. split; [reflexivity|lia].
  - cbn [oob_is_error]. split; [split; [left; reflexivity|reflexivity]|]. split; [reflexivity|].
    intros e' H. discriminate.
Qed.

(* encodeOOB hands the encoder back untouched *)
Lemma encode_oob_state e x : fst (encode_oob e x) = e.
Proof using Type. reflexivity. Qed.

Lemma stage1_oob_state fe r now : rq_oob r = true ->
  fst (fst (stage1 fe r now)) = fe /\ snd (stage1 fe r now) = [].
Proof using Type.
  intros Ho. destruct fe as [e|]; cbn [Frame.stage1]; [rewrite Ho|]; split; reflexivity.
Qed.

Definition is_data (x : req * Z) : bool := negb (rq_oob (fst x)).
Definition is_data_out (x : req * bytes * list bytes) : bool := negb (rq_oob (fst (fst x))).

(* inserting OOB requests anywhere in the post-processing stream leaves the encoder's final
   state and the whole sequence of data/parity packets (ids, sizes, parity bytes) identical *)
Theorem no_disturb_tx : forall rs fe,
  fst (stage1_run fe rs) = fst (stage1_run fe (filter is_data rs)) /\
  filter is_data_out (snd (stage1_run fe rs)) = snd (stage1_run fe (filter is_data rs)).
Proof using Type.
  induction rs as [|[r now] rs IH]; intros fe; [split; reflexivity|].
  cbn [filter]. change (is_data (r, now)) with (negb (rq_oob r)).
  destruct (rq_oob r) eqn:Ho; cbn [negb].
  - cbn [Frame.stage1_run].
    pose proof (stage1_oob_state fe r now Ho) as (Hs & _).
    destruct (stage1 fe r now) as [[fe1 b] ps]. cbn [fst] in Hs. subst fe1.
    destruct (IH fe) as (A & B). destruct (stage1_run fe rs) as [fe2 l].
    cbn [fst snd filter] in *. change (is_data_out (r, b, ps)) with (negb (rq_oob r)).
    rewrite Ho. cbn [negb]. split; assumption.
  - cbn [Frame.stage1_run]. destruct (stage1 fe r now) as [[fe1 b] ps].
    destruct (IH fe1) as (A & B).
    destruct (stage1_run fe1 rs) as [fe2 l]. destruct (stage1_run fe1 (filter is_data rs)) as [fe3 l'].
    cbn [fst snd filter] in *. change (is_data_out (r, b, ps)) with (negb (rq_oob r)).
    rewrite Ho. cbn [negb]. split; [assumption|f_equal; assumption].
Qed.

End Pipeline.

(* ---------------------------------------------------------------- entropy.go: rngAES iterates a permutation
   seed <- E_k(seed).  Two of its outputs coincide only if the seed orbit has closed. *)
Lemma orbit_closes {A : Type} (f : A -> A) :
  (forall x y, f x = f y -> x = y) ->
  forall (i j : nat) (s : A), (i < j)%nat -> Nat.iter i f s = Nat.iter j f s -> Nat.iter (j - i) f s = s.
Proof.
  intros Hinj. induction i as [|i IH]; intros j s Hlt H.
  - cbn in H. rewrite Nat.sub_0_r. symmetry. exact H.
  - destruct j as [|j]; [lia|]. cbn [Nat.iter nat_rect] in H. apply Hinj in H.
    cbn [Nat.sub]. apply IH; [lia|exact H].
Qed.

(* hence: as long as the seed has not come back to a previous value, all outputs differ *)
Corollary orbit_outputs_distinct {A : Type} (f : A -> A) (s : A) (n : nat) :
  (forall x y, f x = f y -> x = y) ->
  (forall k, (0 < k < n)%nat -> Nat.iter k f s <> s) ->
  forall i j, (i < j < n)%nat -> Nat.iter i f s <> Nat.iter j f s.
Proof.
  intros Hinj Hopen i j Hij Heq. apply (orbit_closes f Hinj i j s) in Heq; [|lia].
  apply (Hopen (j - i)%nat); [lia|exact Heq].
Qed.
