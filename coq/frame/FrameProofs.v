(* Proofs about the pipeline model of Frame.v (C09 / C19). *)
From Coq Require Import ZArith List Bool Lia.
From KV.Base Require Import Consts Word WordLemmas.
From KV.Frame Require Import Wire Frame WireProofs.
Import ListNotations.
Local Open Scope Z_scope.

Ltac Zify.zify_post_hook ::= Z.div_mod_to_equations.

(* ---------------------------------------------------------------- small list facts *)
Lemma blen_len_nat (b : bytes) (n : nat) : blen b = Z.of_nat n -> length b = n.
Proof. unfold blen. lia. Qed.

Lemma skipn4_le32 x (r : bytes) : skipn 4 (le32 x ++ r) = r.
Proof. reflexivity. Qed.
Lemma skipn6_hdr a b (r : bytes) : skipn 6 (le32 a ++ le16 b ++ r) = r.
Proof. reflexivity. Qed.
Lemma skipn8_hdr a b c (r : bytes) : skipn 8 (le32 a ++ le16 b ++ le16 c ++ r) = r.
Proof. reflexivity. Qed.
Lemma skipn4_hdr a b (r : bytes) : skipn 4 (le32 a ++ le16 b ++ r) = le16 b ++ r.
Proof. reflexivity. Qed.
Lemma skipn6_hdr' a b c (r : bytes) : skipn 6 (le32 a ++ le16 b ++ le16 c ++ r) = le16 c ++ r.
Proof. reflexivity. Qed.

Lemma fec_body_eq seqid ty payload :
  fec_hdr seqid ty ++ size_prefixed payload =
  le32 seqid ++ le16 ty ++ le16 (u16 (blen payload + 2)) ++ payload.
Proof. unfold fec_hdr, size_prefixed. rewrite <- !app_assoc. reflexivity. Qed.

Lemma blen_fec_body seqid ty payload :
  blen (fec_hdr seqid ty ++ size_prefixed payload) = c_fecHeaderSizePlus2 + blen payload.
Proof. rewrite fec_body_eq. rewrite !blen_app, blen_le32, !blen_le16. unfold c_fecHeaderSizePlus2. lia. Qed.

Lemma u16_small x : 0 <= x < 65536 -> u16 x = x.
Proof. unfold u16. intros. apply Z.mod_small. lia. Qed.

Section Pipeline.
Variable rs_encode : Z -> Z -> list bytes -> list bytes.
Variable K : crypto.
Local Notation enc := (k_enc K).
Local Notation dec := (k_dec K).
Local Notation aead_ns := (k_ns K).
Local Notation aead_ov := (k_ov K).
Local Notation seal := (k_seal K).
Local Notation open := (k_open K).
Local Notation crc := (k_crc K).

Hypothesis dec_enc : forall b, dec (enc b) = b.
Hypothesis enc_len : forall b, blen (enc b) = blen b.
Hypothesis open_seal : forall n p, open n (seal n p) = Some p.
Hypothesis seal_len : forall n p, blen (seal n p) = blen p + aead_ov.
Hypothesis aead_ns_nonneg : 0 <= aead_ns.
Hypothesis aead_ov_nonneg : 0 <= aead_ov.
Hypothesis crc_range : forall b, 0 <= crc b < W32.

Local Notation frame := (Frame.frame K).
Local Notation unframe := (Frame.unframe K).
Local Notation spec_strip := (Frame.spec_strip K).
Local Notation spec_decode := (Frame.spec_decode K).
Local Notation stage1 := (Frame.stage1 rs_encode).
Local Notation nonce_len := (Frame.nonce_len K).
Local Notation cipher_hdr := (Frame.cipher_hdr K).

(* ---------------------------------------------------------------- frame: the layout *)

Lemma frame_crc_plain nonce body :
  dec (frame CCrc nonce body) = nonce ++ le32 (crc body) ++ body.
Proof. unfold Frame.frame. apply dec_enc. Qed.

Lemma frame_len c nonce body :
  blen nonce = nonce_len c ->
  blen (frame c nonce body) =
    cipher_hdr c + blen body + (if cipher_eqb c CAead then aead_ov else 0).
Proof.
  intros Hn. destruct c; unfold Frame.frame, Frame.cipher_hdr, Frame.nonce_len in *; cbn [cipher_eqb].
  - lia.
  - rewrite enc_len, !blen_app, blen_le32, Hn. unfold c_cryptHeaderSize, c_nonceSize. lia.
  - rewrite blen_app, seal_len, Hn. lia.
Qed.

(* the packet body the FEC stage produces for a data request *)
Lemma fec_encode_pkt e x now rto :
  snd (fst (fec_encode rs_encode e x now rto)) = fec_hdr (fe_next e) c_typeData ++ size_prefixed x.
Proof.
  unfold fec_encode.
  destruct (fe_count e + 1 =? fe_d e); [|reflexivity].
  destruct (now - fe_ts e <? rto); [|reflexivity].
  destruct (seal_parities _ _ _). reflexivity.
Qed.

Lemma stage1_data_body fe kcp now :
  let '(_, body, _) := stage1 fe (mkReq kcp false) now in
  body = match fe with
         | None => kcp
         | Some e => le32 (fe_next e) ++ le16 c_typeData ++ le16 (u16 (blen kcp + 2)) ++ kcp
         end.
Proof.
  destruct fe as [e|]; cbn [Frame.stage1 rq_oob rq_payload]; [|reflexivity].
  pose proof (fec_encode_pkt e kcp now c_maxFECEncodeLatency) as H.
  destruct (fec_encode rs_encode e kcp now c_maxFECEncodeLatency) as [[e1 b] ps].
  cbn [fst snd] in H. subst b. apply fec_body_eq.
Qed.

Lemma stage1_oob_body e payload now :
  stage1 (Some e) (mkReq payload true) now =
  (Some e, le32 oob_seqid ++ le16 c_typeOOB ++ le16 (u16 (blen payload + 2)) ++ payload, []).
Proof. cbn [Frame.stage1 rq_oob rq_payload encode_oob]. rewrite fec_body_eq. reflexivity. Qed.

Theorem frame_layout c nonce fe kcp now :
  let '(_, body, _) := stage1 fe (mkReq kcp false) now in
  body = match fe with
         | None => kcp
         | Some e => le32 (fe_next e) ++ le16 c_typeData ++ le16 (u16 (blen kcp + 2)) ++ kcp
         end /\
  frame c nonce body =
    match c with
    | CNone => body
    | CCrc => enc (nonce ++ le32 (crc body) ++ body)
    | CAead => nonce ++ seal nonce body
    end /\
  (c = CCrc -> dec (frame c nonce body) = nonce ++ le32 (crc body) ++ body) /\
  (blen nonce = nonce_len c ->
   blen (frame c nonce body) =
     cipher_hdr c + blen body + (if cipher_eqb c CAead then aead_ov else 0)).
Proof.
  pose proof (stage1_data_body fe kcp now) as H.
  destruct (stage1 fe (mkReq kcp false) now) as [[fe1 body] ps].
  split; [exact H|]. split; [destruct c; reflexivity|]. split.
  - intros ->. apply frame_crc_plain.
  - apply frame_len.
Qed.

(* ---------------------------------------------------------------- spec_strip inverts frame *)

Lemma spec_strip_frame c nonce body :
  blen nonce = nonce_len c -> spec_strip c (frame c nonce body) = Some body.
Proof.
  intros Hn. destruct c; unfold Frame.spec_strip, Frame.frame, Frame.nonce_len in *.
  - reflexivity.
  - rewrite dec_enc. unfold c_nonceSize in Hn.
    pose proof (blen_nonneg body).
    rewrite !blen_app, blen_le32, Hn.
    destruct (16 + (4 + blen body) <? 20) eqn:E; [apply Z.ltb_lt in E; lia|].
    apply (blen_len_nat nonce 16) in Hn.
    rewrite (skipn_app_len 16 nonce) by assumption.
    rewrite rd32_le32 by apply crc_range.
    replace (skipn 20 (nonce ++ le32 (crc body) ++ body)) with body.
    + rewrite Z.eqb_refl. reflexivity.
    + rewrite app_assoc. rewrite skipn_app_len; [reflexivity|]. rewrite app_length, Hn. reflexivity.
  - pose proof (blen_nonneg (seal nonce body)).
    rewrite blen_app, Hn.
    destruct (aead_ns + blen (seal nonce body) <? aead_ns) eqn:E; [apply Z.ltb_lt in E; lia|].
    rewrite ztake_app_len, zdrop_app_len by assumption. apply open_seal.
Qed.

Lemma spec_segments_encode segs :
  Forall wseg_ok segs -> segs <> [] -> spec_segments (encode_segs segs) = Some segs.
Proof.
  intros Hok Hne. unfold spec_segments. rewrite parse_all_encode by assumption.
  destruct segs; [congruence|reflexivity].
Qed.

Definition fec_info (fe : option fecenc) (kcp : bytes) : option (Z * Z) :=
  match fe with None => None | Some e => Some (fe_next e, blen kcp + 2) end.
Definition fec_on (fe : option fecenc) : bool := match fe with Some _ => true | None => false end.

(* data packets, every cipher class, FEC on or off *)
Theorem spec_decoder_data c nonce fe segs now :
  Forall wseg_ok segs -> segs <> [] ->
  blen nonce = nonce_len c ->
  (forall e, fe = Some e -> is_u32 (fe_next e)) ->
  blen (encode_segs segs) + 2 < 65536 ->
  let '(_, body, _) := stage1 fe (mkReq (encode_segs segs) false) now in
  spec_decode c (fec_on fe) (frame c nonce body) = Some (SpData (fec_info fe (encode_segs segs)) segs).
Proof.
  intros Hok Hne Hn Hnext Hsz.
  pose proof (stage1_data_body fe (encode_segs segs) now) as Hb.
  destruct (stage1 fe (mkReq (encode_segs segs) false) now) as [[fe1 body] ps].
  unfold Frame.spec_decode. rewrite spec_strip_frame by assumption. subst body.
  pose proof (blen_nonneg (encode_segs segs)) as Hk.
  destruct fe as [e|]; cbn [fec_on fec_info].
  - specialize (Hnext e eq_refl).
    rewrite !blen_app, blen_le32, !blen_le16.
    destruct (4 + (2 + (2 + blen (encode_segs segs))) <? 6) eqn:E1; [apply Z.ltb_lt in E1; lia|].
    destruct (4 + (2 + (2 + blen (encode_segs segs))) <? 8) eqn:E2; [apply Z.ltb_lt in E2; lia|].
    rewrite rd32_le32 by exact Hnext.
    rewrite skipn4_hdr, skipn6_hdr', skipn8_hdr.
    rewrite rd16_le16 by (unfold c_typeData; lia).
    rewrite u16_small by lia.
    rewrite rd16_le16 by lia.
    unfold c_typeData. change (241 =? 242) with false. change (241 =? 241) with true.
    rewrite Z.eqb_refl. cbn [negb].
    rewrite spec_segments_encode by assumption. reflexivity.
  - rewrite spec_segments_encode by assumption. reflexivity.
Qed.

(* out-of-band packets *)
Theorem spec_decoder_oob c nonce e conv payload now :
  blen nonce = nonce_len c -> is_u32 conv ->
  blen payload + c_convSize + 2 < 65536 ->
  let '(_, body, _) := stage1 (Some e) (mkReq (le32 conv ++ payload) true) now in
  spec_decode c true (frame c nonce body) =
    Some (SpOOB oob_seqid (blen payload + c_convSize + 2) conv payload).
Proof.
  intros Hn Hc Hsz. rewrite stage1_oob_body.
  unfold Frame.spec_decode. rewrite spec_strip_frame by assumption.
  pose proof (blen_nonneg payload) as Hk. unfold c_convSize in *.
  rewrite !blen_app, !blen_le32, !blen_le16.
  destruct (4 + (2 + (2 + (4 + blen payload))) <? 6) eqn:E1; [apply Z.ltb_lt in E1; lia|].
  destruct (4 + (2 + (2 + (4 + blen payload))) <? 8) eqn:E2; [apply Z.ltb_lt in E2; lia|].
  rewrite rd32_le32 by (unfold oob_seqid, W32; lia).
  rewrite skipn4_hdr, skipn6_hdr', skipn8_hdr.
  rewrite rd16_le16 by (unfold c_typeOOB; lia).
  rewrite u16_small by lia.
  rewrite rd16_le16 by lia.
  unfold c_typeOOB. change (243 =? 242) with false. change (243 =? 241) with false.
  change (243 =? 243) with true.
  rewrite blen_app, blen_le32. rewrite Z.eqb_refl. cbn [negb].
  destruct (4 + blen payload <? 4) eqn:E3; [apply Z.ltb_lt in E3; lia|].
  rewrite rd32_le32 by exact Hc. rewrite skipn4_le32.
  replace (blen payload + 4 + 2) with (4 + blen payload + 2) by lia. reflexivity.
Qed.

(* parity packets *)
Theorem spec_decoder_parity c nonce seqid par :
  blen nonce = nonce_len c -> is_u32 seqid ->
  spec_decode c true (frame c nonce (fec_hdr seqid c_typeParity ++ par)) = Some (SpParity seqid par).
Proof.
  intros Hn Hs. unfold Frame.spec_decode. rewrite spec_strip_frame by assumption.
  unfold fec_hdr. rewrite <- app_assoc.
  pose proof (blen_nonneg par).
  rewrite !blen_app, blen_le32, blen_le16.
  destruct (4 + (2 + blen par) <? 6) eqn:E1; [apply Z.ltb_lt in E1; lia|].
  rewrite rd32_le32 by exact Hs. rewrite skipn4_hdr, skipn6_hdr.
  rewrite rd16_le16 by (unfold c_typeParity; lia).
  unfold c_typeParity. change (242 =? 242) with true. reflexivity.
Qed.

End Pipeline.
