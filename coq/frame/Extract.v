(* Extraction of the executable frame model.  ExtrOcamlBasic only: nat, positive, Z stay the
   extracted inductive types; no Extract Constant. *)
From Coq Require Import Extraction ExtrOcamlBasic.
From KV.Frame Require Import Wire Frame Input.
Extraction "frame_model.ml"
  encode_seg parse_one parse_all wseg_okb
  mkCrypto fec_new sess_fec_new fec_encode encode_oob stage1 frame pp_step unframe
  kcp_input packet_input kcp_input_g packet_input_g listener_peek_g send_oob oob_max_size sess_set_mtu header_size spec_decode.
