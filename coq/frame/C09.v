(* C09 - datagrams follow the documented frame layout; nonces never repeat.
   Statements only; every proof is `exact <lemma>`.

   Abstract primitives (premises, visible in each statement that needs them):
     K : crypto    k_enc/k_dec (BlockCrypt.Encrypt/Decrypt), k_seal/k_open (AEAD), k_crc (CRC32)
     rs_encode     the Reed-Solomon encoder ("the parity of a group"); the FEC engine supplies it
   The nonce stream is an input; its pairwise distinctness is a hypothesis (entropy.go: AES /
   ChaCha8 output and crypto/rand - trusted base), see c09_distinct and c09_orbit. *)
From Coq Require Import ZArith List Bool.
From KV.Base Require Import Consts Word.
From KV.Frame Require Import Wire Frame WireProofs FrameProofs FecProofs SizeProofs FrameExamples Entropy EntropyProofs.
Import ListNotations.
Local Open Scope Z_scope.

(* ---- one segment: 24-byte little-endian header, then exactly len bytes *)
Theorem c09_seg_roundtrip :
  forall (s : wseg) (rest : bytes), wseg_ok s -> parse_one (encode_seg s ++ rest) = Some (s, rest).
Proof. exact parse_one_encode. Qed.
Print Assumptions c09_seg_roundtrip.

Theorem c09_seg_layout :
  forall s : wseg,
    encode_seg s =
      le32 (w_conv s) ++ [w_cmd s] ++ [w_frg s] ++ le16 (w_wnd s) ++ le32 (w_ts s) ++
      le32 (w_sn s) ++ le32 (w_una s) ++ le32 (blen (w_data s)) ++ w_data s /\
    blen (encode_seg s) = c_IKCP_OVERHEAD + blen (w_data s) /\
    (wseg_ok s ->
       rd32 (zdrop 0 (encode_seg s)) = w_conv s /\
       nth 4 (encode_seg s) 0 = w_cmd s /\
       nth 5 (encode_seg s) 0 = w_frg s /\
       rd16 (zdrop 6 (encode_seg s)) = w_wnd s /\
       rd32 (zdrop 8 (encode_seg s)) = w_ts s /\
       rd32 (zdrop 12 (encode_seg s)) = w_sn s /\
       rd32 (zdrop 16 (encode_seg s)) = w_una s /\
       rd32 (zdrop 20 (encode_seg s)) = blen (w_data s) /\
       zdrop 24 (encode_seg s) = w_data s).
Proof. exact encode_seg_layout. Qed.
Print Assumptions c09_seg_layout.

(* a whole core datagram (one or more segments) parses back, nothing left over *)
Theorem c09_segs_roundtrip :
  forall segs : list wseg, Forall wseg_ok segs -> parse_all (encode_segs segs) = Some segs.
Proof. exact parse_all_encode. Qed.
Print Assumptions c09_segs_roundtrip.

Example c09_seg_example :
  wseg_ok ex_seg1 /\
  encode_seg ex_seg1 = [68; 51; 34; 17; 81; 0; 32; 0; 232; 3; 0; 0; 7; 0; 0; 0; 3; 0; 0; 0; 3; 0; 0; 0; 1; 2; 3] /\
  parse_one (encode_seg ex_seg1 ++ [9; 9]) = Some (ex_seg1, [9; 9]) /\
  parse_all (encode_segs [ex_seg2; ex_seg1]) = Some [ex_seg2; ex_seg1].
Proof. exact ex_seg_roundtrip. Qed.

(* ---- what postProcess puts on the wire for a data request:
        rest = seqid(4) type(2)=0xF1 size(2)=len+2 kcp      when FEC is on, else rest = kcp
        CFB/none/xor/salsa class: Encrypt(nonce(16) ++ crc32(rest) ++ rest) as a whole
        AEAD: nonce ++ Seal(nonce, rest);  no cipher: rest *)
Theorem c09_frame_layout :
  forall (rs_encode : Z -> Z -> list bytes -> list bytes) (K : crypto),
    (forall b, k_dec K (k_enc K b) = b) ->
    (forall b, blen (k_enc K b) = blen b) ->
    (forall n p, blen (k_seal K n p) = blen p + k_ov K) ->
    forall (c : cipher) (nonce : bytes) (fe : option fecenc) (kcp : bytes) (now : Z),
      let '(_, body, _) := stage1 rs_encode fe (mkReq kcp false) now in
      body = match fe with
             | Some e => le32 (fe_next e) ++ le16 c_typeData ++ le16 (u16 (blen kcp + 2)) ++ kcp
             | None => kcp
             end /\
      frame K c nonce body =
        match c with
        | CNone => body
        | CCrc => k_enc K (nonce ++ le32 (k_crc K body) ++ body)
        | CAead => nonce ++ k_seal K nonce body
        end /\
      (c = CCrc -> k_dec K (frame K c nonce body) = nonce ++ le32 (k_crc K body) ++ body) /\
      (blen nonce = nonce_len K c ->
       blen (frame K c nonce body) =
         cipher_hdr K c + blen body + (if cipher_eqb c CAead then k_ov K else 0)).
Proof. exact frame_layout. Qed.
Print Assumptions c09_frame_layout.

(* ---- the decoder written from README.md / the property text recovers the core datagram's
        segments from the wire alone: every cipher class, FEC on or off *)
Theorem c09_spec_decoder :
  forall (rs_encode : Z -> Z -> list bytes -> list bytes) (K : crypto),
    (forall b, k_dec K (k_enc K b) = b) ->
    (forall n p, k_open K n (k_seal K n p) = Some p) ->
    (forall b, 0 <= k_crc K b < W32) ->
    forall (c : cipher) (nonce : bytes) (fe : option fecenc) (segs : list wseg) (now : Z),
      Forall wseg_ok segs -> segs <> [] ->
      blen nonce = nonce_len K c ->
      (forall e, fe = Some e -> is_u32 (fe_next e)) ->
      blen (encode_segs segs) + 2 < 65536 ->
      let '(_, body, _) := stage1 rs_encode fe (mkReq (encode_segs segs) false) now in
      spec_decode K c (fec_on fe) (frame K c nonce body) =
        Some (SpData (fec_info fe (encode_segs segs)) segs).
Proof. exact spec_decoder_data. Qed.
Print Assumptions c09_spec_decoder.

(* ... and recognises out-of-band and parity packets *)
Theorem c09_spec_decoder_oob :
  forall (rs_encode : Z -> Z -> list bytes -> list bytes) (K : crypto),
    (forall b, k_dec K (k_enc K b) = b) ->
    (forall n p, k_open K n (k_seal K n p) = Some p) ->
    (forall b, 0 <= k_crc K b < W32) ->
    forall (c : cipher) (nonce : bytes) (e : fecenc) (conv : Z) (payload : bytes) (now : Z),
      blen nonce = nonce_len K c -> is_u32 conv ->
      blen payload + c_convSize + 2 < 65536 ->
      let '(_, body, _) := stage1 rs_encode (Some e) (mkReq (le32 conv ++ payload) true) now in
      spec_decode K c true (frame K c nonce body) =
        Some (SpOOB oob_seqid (blen payload + c_convSize + 2) conv payload).
Proof. exact spec_decoder_oob. Qed.
Print Assumptions c09_spec_decoder_oob.

Theorem c09_spec_decoder_parity :
  forall (K : crypto),
    (forall b, k_dec K (k_enc K b) = b) ->
    (forall n p, k_open K n (k_seal K n p) = Some p) ->
    (forall b, 0 <= k_crc K b < W32) ->
    forall (c : cipher) (nonce : bytes) (seqid : Z) (par : bytes),
      blen nonce = nonce_len K c -> is_u32 seqid ->
      spec_decode K c true (frame K c nonce (fec_hdr seqid c_typeParity ++ par)) = Some (SpParity seqid par).
Proof. exact spec_decoder_parity. Qed.
Print Assumptions c09_spec_decoder_parity.

Example c09_spec_decoder_example :
  (let '(_, body, _) := stage1 toy_rs ex_fec (mkReq ex_kcp false) 0 in
   spec_decode toyK CCrc true (frame toyK CCrc ex_nonce16 body) = Some (SpData (Some (0, 53)) [ex_seg2; ex_seg1])) /\
  (let '(_, body, _) := stage1 toy_rs (sess_fec_new toyK CAead 2 1) (mkReq ex_kcp false) 0 in
   spec_decode toyK CAead true (frame toyK CAead ex_nonce12 body) = Some (SpData (Some (0, 53)) [ex_seg2; ex_seg1])) /\
  (let '(_, body, _) := stage1 toy_rs None (mkReq ex_kcp false) 0 in
   spec_decode toyK CNone false (frame toyK CNone [] body) = Some (SpData None [ex_seg2; ex_seg1])) /\
  spec_decode toyK CCrc false (rev (ex_nonce16 ++ le32 (toy_crc ex_kcp) ++ (0 :: tl ex_kcp))) = None.
Proof. exact ex_spec_decoder. Qed.

(* ---- FEC ids and types.  The i-th data packet a session's encoder emits sits in slot
        K = (i / d) * (d+p) + i mod d of the data/parity cycle (skipped parity counted); its
        seqid is K mod paws and its type 0xF1, and K mod (d+p) < d.  If it completes a group and
        parity is emitted, the k-th parity packet has seqid (K+1+k) mod paws, type 0xF2 and a
        position >= d in the cycle. *)
Theorem c09_fec_ids :
  forall rs_encode : Z -> Z -> list bytes -> list bytes,
    (forall d p shards, length (rs_encode d p shards) = Z.to_nat p) ->
    forall (d p off : Z) (e0 : fecenc) (ins : list (bytes * Z)),
      fec_new d p off = Some e0 ->
      let ss := d + p in
      let paws := fe_paws e0 in
      forall (i : nat) (pkt : bytes) (ps : list bytes),
        nth_error (snd (fec_run rs_encode e0 ins)) i = Some (pkt, ps) ->
        let K := slot d ss (Z.of_nat i) in
        seqid_of pkt = K mod paws /\
        type_of pkt = c_typeData /\
        (K mod paws) mod ss < d /\
        (exists x now, nth_error ins i = Some (x, now) /\
           pkt = fec_hdr (K mod paws) c_typeData ++ size_prefixed x) /\
        (ps = [] \/
         (Z.of_nat i + 1) mod d = 0 /\
         length ps = Z.to_nat p /\
         (forall (k : nat) (par : bytes),
            nth_error ps k = Some par ->
            let Kp := K + 1 + Z.of_nat k in
            seqid_of par = Kp mod paws /\
            type_of par = c_typeParity /\
            d <= (Kp mod paws) mod ss < ss)).
Proof. exact fec_ids. Qed.
Print Assumptions c09_fec_ids.

(* ids do not repeat within a wrap period (slots are strictly increasing along the emission
   order; two slots less than paws apart have different residues) *)
Theorem c09_fec_ids_distinct :
  forall rs_encode : Z -> Z -> list bytes -> list bytes,
    (forall d p shards, length (rs_encode d p shards) = Z.to_nat p) ->
    forall (d p off : Z) (e0 : fecenc) (ins : list (bytes * Z)),
      fec_new d p off = Some e0 ->
      forall (i1 i2 : nat) (pkt1 : bytes) (ps1 : list bytes) (pkt2 : bytes) (ps2 : list bytes),
        (i1 < i2)%nat ->
        nth_error (snd (fec_run rs_encode e0 ins)) i1 = Some (pkt1, ps1) ->
        nth_error (snd (fec_run rs_encode e0 ins)) i2 = Some (pkt2, ps2) ->
        slot d (d + p) (Z.of_nat i2) - slot d (d + p) (Z.of_nat i1) < fe_paws e0 ->
        seqid_of pkt1 <> seqid_of pkt2.
Proof. exact fec_ids_distinct. Qed.
Print Assumptions c09_fec_ids_distinct.

Theorem c09_slots_distinct :
  (* data slots increase along the emission order *)
  (forall d ss j1 j2, 0 < d -> d <= ss -> 0 <= j1 < j2 -> slot d ss j1 < slot d ss j2) /\
  (* the p parity slots of a group lie strictly between its last data slot and the next group's first *)
  (forall d p j, 0 < d -> 0 <= p -> 0 <= j -> (j + 1) mod d = 0 ->
     slot d (d + p) (j + 1) = slot d (d + p) j + 1 + p) /\
  (* slots less than paws apart have different ids *)
  (forall m K1 K2, 0 < m -> K1 < K2 < K1 + m -> K1 mod m <> K2 mod m).
Proof. exact (conj slot_mono (conj slot_parity_gap mod_distinct)). Qed.
Print Assumptions c09_slots_distinct.

(* OOB: seqid 0xffffffff (>= paws, so never a FEC id), type 0xF3, encoder state untouched *)
Theorem c09_oob_ids :
  forall (e : fecenc) (x : bytes),
    fec_wf e ->
    let '(e', pkt) := encode_oob e x in
    e' = e /\ seqid_of pkt = oob_seqid /\ type_of pkt = c_typeOOB /\ fe_paws e <= oob_seqid /\
    pkt = fec_hdr oob_seqid c_typeOOB ++ size_prefixed x.
Proof. exact encode_oob_ids. Qed.
Print Assumptions c09_oob_ids.

(* the packet completing a group leaves the encoder at the start of the next group: the p parity
   ids are consumed whether the parity is emitted (and then sent, or dropped by postProcess since
   repair ce5cd67 because it no longer fits a lowered MTU) or skipped for discontinuity; and the
   drop, happening after encode, changes neither the encoder nor the data packet *)
Theorem c09_parity_ids_consumed :
  forall rs_encode : Z -> Z -> list bytes -> list bytes,
    (forall d p shards, length (rs_encode d p shards) = Z.to_nat p) ->
    (forall (e : fecenc) (g : Z) (x : bytes) (now rto : Z),
       enc_inv e g -> fe_count e + 1 = fe_d e ->
       let e1 := fst (fst (fec_encode rs_encode e x now rto)) in
       fe_next e1 = ((g + 1) * fe_ss e) mod fe_paws e /\ fe_count e1 = 0) /\
    (forall (wire ov : Z) (fe : option fecenc) (r : req) (now : Z),
       let '(fe1, b, ps) := stage1 rs_encode fe r now in
       let '(fe1', b', ps') := stage1w rs_encode wire ov fe r now in
       fe1' = fe1 /\ b' = b /\ (ps' = ps \/ (ps' = [] /\ 0 < wire))).
Proof. exact (fun rs H => conj (parity_ids_consumed rs H) (drop_after_encode rs)). Qed.
Print Assumptions c09_parity_ids_consumed.

(* ---- parity payloads = rs_encode of the group's zero-padded size-prefixed payloads *)
Theorem c09_parity_is_rs :
  forall rs_encode : Z -> Z -> list bytes -> list bytes,
    (forall d p shards, length (rs_encode d p shards) = Z.to_nat p) ->
    forall (d p off : Z) (e0 : fecenc) (pre grp : list (bytes * Z)) (n : nat),
      fec_new d p off = Some e0 ->
      0 <= off ->
      length pre = (n * Z.to_nat d)%nat ->           (* n complete groups before this one *)
      Z.of_nat (length grp) = d ->
      let outs := snd (fec_run rs_encode e0 (pre ++ grp)) in
      let ps := snd (last outs ([], [])) in          (* what the group's last packet produced *)
      let imgs := map size_prefixed (map fst grp) in
      ps = [] \/                                      (* skipped: >= 500 ms between the last two *)
      length ps = Z.to_nat p /\
      map (skipn 6) ps = rs_encode d p (map (pad_to (max_len imgs)) imgs).
Proof. exact parity_is_rs. Qed.
Print Assumptions c09_parity_is_rs.

Example c09_fec_example :
  match fec_new 2 1 0 with
  | None => False
  | Some e0 =>
    map (fun o => (hdr_summary (fst o), map hdr_summary (snd o))) (snd (fec_run toy_rs e0 ex_ins)) =
      [((0, 241), []); ((1, 241), [(2, 242)]);
       ((3, 241), []); ((4, 241), []);
       ((6, 241), []); ((7, 241), [(8, 242)])] /\
    fe_paws e0 = 4294967295 /\
    map (skipn 6) (snd (nth 1 (snd (fec_run toy_rs e0 ex_ins)) ([], []))) =
      toy_rs 2 1 [[5; 0; 10; 11; 12]; [3; 0; 20; 0; 0]] /\
    (let '(e1, pkt) := encode_oob e0 [1; 2] in e1 = e0 /\ hdr_summary pkt = (4294967295, 243))
  end.
Proof. exact ex_fec_ids. Qed.

(* ---- one fresh nonce per packet: the request's own packet, every parity packet, OOB *)
Theorem c09_fresh_nonce_each :
  forall (rs_encode : Z -> Z -> list bytes -> list bytes) (K : crypto)
         (c : cipher) (fe : option fecenc) (wire : Z) (r : req) (now : Z) (nonces : list bytes),
    let '(fe1, b, ps) := stage1w rs_encode wire (aead_extra K c) fe r now in
    let bodies := b :: ps in
    (uses_nonce c = true -> (length bodies <= length nonces)%nat ->
       pp_step rs_encode K c fe wire r now nonces =
         (fe1, map (frame_pair K c) (combine nonces bodies), skipn (length bodies) nonces)) /\
    (c = CNone -> pp_step rs_encode K c fe wire r now nonces = (fe1, bodies, nonces)).
Proof. exact fresh_nonce_each. Qed.
Print Assumptions c09_fresh_nonce_each.

(* ---- with a cipher configured, pairwise distinct nonces give pairwise distinct datagrams
        over any request history (data, retransmissions, ACK/probe packets, parity, OOB) *)
Theorem c09_distinct :
  forall (rs_encode : Z -> Z -> list bytes -> list bytes) (K : crypto),
    (forall b, k_dec K (k_enc K b) = b) ->
    forall (c : cipher) (fe : option fecenc) (rs : list (req * Z * Z)) (nonces : list bytes),
      uses_nonce c = true ->
      Forall (fun n => blen n = nonce_len K c) nonces ->
      NoDup nonces ->
      (length (run_bodies (snd (stage1w_run rs_encode (aead_extra K c) fe rs))) <= length nonces)%nat ->
      NoDup (snd (pp_run rs_encode K c fe rs nonces)).
Proof. exact distinct. Qed.
Print Assumptions c09_distinct.

Example c09_distinct_example :
  uses_nonce CCrc = true /\
  Forall (fun n => blen n = nonce_len toyK CCrc) (firstn 4 ex_nonces) /\
  NoDup (firstn 4 ex_nonces) /\
  (length (run_bodies (snd (stage1w_run toy_rs (aead_extra toyK CCrc) ex_fec ex_reqs))) <= length (firstn 4 ex_nonces))%nat /\
  length (snd (pp_run toy_rs toyK CCrc ex_fec ex_reqs (firstn 4 ex_nonces))) = 4%nat.
Proof. exact ex_distinct_hyps. Qed.

(* ---- entropy.go, rngAES: seed <- E_k(seed) iterates a bijection; two states (hence two
        16-byte outputs) coincide only if the seed orbit has closed *)
Theorem c09_orbit :
  forall (A : Type) (f : A -> A),
    (forall x y, f x = f y -> x = y) ->
    (forall (i j : nat) (s : A), (i < j)%nat -> Nat.iter i f s = Nat.iter j f s -> Nat.iter (j - i) f s = s) /\
    (forall (s : A) (n : nat), (forall k, (0 < k < n)%nat -> Nat.iter k f s <> s) ->
       forall i j, (i < j < n)%nat -> Nat.iter i f s <> Nat.iter j f s).
Proof. exact (fun A f H => conj (orbit_closes f H) (fun s n => orbit_outputs_distinct f s n H)). Qed.
Print Assumptions c09_orbit.

Example c09_orbit_example :
  (forall x y, negb x = negb y -> x = y) /\ Nat.iter 1 negb true = Nat.iter 3 negb true /\
  Nat.iter (3 - 1) negb true = true.
Proof. exact ex_orbit. Qed.

(* ---- entropy.go, rngAES as a state machine (Entropy.v; run against the real generator by the
        harness): block function E and crypto/rand (fresh) arbitrary.
        In every reachable state 0 <= count <= reseedInterval and the current key has produced at
        most reseedInterval + 1 outputs, whatever buffer lengths the callers pass *)
Theorem c09_rng_key_exposure :
  forall (key : Type) (E : key -> list Z -> list Z) (fresh : nat -> key * list Z) (ns : list Z) (r : rng key),
    rng_inv key r ->
    rng_inv key (fst (rng_reads key E fresh ns r)) /\
    r_used (fst (rng_reads key E fresh ns r)) <= c_reseedInterval + 1.
Proof. exact (fun key E fresh ns r H => conj (reads_inv key E fresh ns r H) (used_bounded key E fresh ns r H)). Qed.
Print Assumptions c09_rng_key_exposure.

(* crypto/rand is consulted exactly when the counter has reached reseedInterval *)
Theorem c09_rng_reseed_exact :
  forall (key : Type) (fresh : nat -> key * list Z) (r : rng key),
    rng_inv key r ->
    (r_count r = c_reseedInterval ->
       update_seed key fresh r = mkRng (S (r_epoch r)) (fst (fresh (r_epoch r))) (snd (fresh (r_epoch r))) 0 0) /\
    (r_count r <> c_reseedInterval ->
       update_seed key fresh r = mkRng (r_epoch r) (r_key r) (r_seed r) (r_count r + 1) (r_used r)).
Proof. exact update_reseed_iff. Qed.
Print Assumptions c09_rng_reseed_exact.

(* inside a key epoch the i-th Read returns a prefix of E_key^(i+1)(seed) *)
Theorem c09_rng_epoch_orbit :
  forall (key : Type) (E : key -> list Z -> list Z) (fresh : nat -> key * list Z) (ns : list Z) (r : rng key),
    Forall (fun n => 0 < n) ns ->
    0 <= r_count r -> r_count r + Z.of_nat (length ns) <= c_reseedInterval ->
    fst (rng_reads key E fresh ns r) =
      mkRng (r_epoch r) (r_key r) (Nat.iter (length ns) (E (r_key r)) (r_seed r))
            (r_count r + Z.of_nat (length ns)) (r_used r + Z.of_nat (length ns)) /\
    forall i, nth_error (snd (rng_reads key E fresh ns r)) i =
              option_map (fun n => firstn (Z.to_nat n) (Nat.iter (S i) (E (r_key r)) (r_seed r))) (nth_error ns i).
Proof. exact reads_epoch. Qed.
Print Assumptions c09_rng_epoch_orbit.

(* hence the 16-byte nonces drawn under one key are pairwise distinct as long as the seed orbit of
   the (injective) block function has not closed - the only way rngAES can repeat a nonce within
   an epoch.  12-byte AEAD nonces are prefixes of these blocks: no such statement holds for them. *)
Theorem c09_rng_epoch_nonces_distinct :
  forall (key : Type) (E : key -> list Z -> list Z) (fresh : nat -> key * list Z) (ns : list Z) (r : rng key),
    (forall k s, length (E k s) = 16%nat) ->
    (forall x y, E (r_key r) x = E (r_key r) y -> x = y) ->
    Forall (fun n => 16 <= n) ns ->
    0 <= r_count r -> r_count r + Z.of_nat (length ns) <= c_reseedInterval ->
    (forall k, (0 < k < S (length ns))%nat -> Nat.iter k (E (r_key r)) (r_seed r) <> r_seed r) ->
    NoDup (snd (rng_reads key E fresh ns r)).
Proof. exact epoch_nonces_distinct. Qed.
Print Assumptions c09_rng_epoch_nonces_distinct.

(* what sess.go asks of the generator - fillRand of a 12- or 16-byte nonce - is exactly one Read *)
Theorem c09_rng_fill_is_one_read :
  forall (key : Type) (E : key -> list Z -> list Z) (fresh : nat -> key * list Z) (f : nat) (n : Z) (r : rng key),
    (forall k s, length (E k s) = 16%nat) -> 0 < n <= 16 ->
    fill_rand key E fresh (S (S f)) n r = rng_read key E fresh n r.
Proof. exact fill_rand_single. Qed.
Print Assumptions c09_rng_fill_is_one_read.

(* ... and for every length fillRand fills the whole buffer (no stale bytes left in a nonce) *)
Theorem c09_rng_fill_total :
  forall (key : Type) (E : key -> list Z -> list Z) (fresh : nat -> key * list Z) (fuel : nat) (n : Z) (r : rng key),
    (forall k s, length (E k s) = 16%nat) -> 0 <= n -> n <= Z.of_nat fuel ->
    Z.of_nat (length (snd (fill_rand key E fresh fuel n r))) = n.
Proof. exact fill_rand_length. Qed.
Print Assumptions c09_rng_fill_total.

(* rngChacha8: the same counter discipline around an arbitrary generator `next` *)
Theorem c09_rng_chacha_counter :
  forall (gen : Type) (next : gen -> Z -> gen * list Z) (reseed : nat -> gen -> gen) (ns : list Z) (r : crng gen),
    crng_inv gen r ->
    crng_inv gen (fst (c_reads gen next reseed ns r)) /\
    (c_count r = c_reseedInterval -> c_update gen reseed r = mkCrng (S (c_epoch r)) (reseed (c_epoch r) (c_gen r)) 0) /\
    (c_count r <> c_reseedInterval -> c_update gen reseed r = mkCrng (c_epoch r) (c_gen r) (c_count r + 1)).
Proof.
  exact (fun gen next reseed ns r H =>
           conj (c_reads_inv gen next reseed ns r H) (proj2 (c_update_spec gen reseed r H))).
Qed.
Print Assumptions c09_rng_chacha_counter.

Example c09_rng_example :
  rng_inv Z ex_rng /\
  (let '(r, outs) := rng_reads Z toy_E ex_fresh [16; 12; 16; 0; 16] ex_rng in
   r_epoch r = 1%nat /\ r_key r = 100 /\ r_count r = 1 /\ r_used r = 2 /\ NoDup outs /\
   nth 1 outs [] = firstn 12 (toy_E 7 (toy_E 7 (r_seed ex_rng))) /\
   nth 2 outs [] = toy_E 100 (repeat 0 16)).
Proof. exact ex_rng_run. Qed.
