(* Proofs about the FEC encoder header state of Frame.v: id/type cycle, parity = rs_encode. *)
From Coq Require Import ZArith List Bool Lia.
From KV.Base Require Import Consts Word WordLemmas.
From KV.Frame Require Import Wire Frame WireProofs.
Import ListNotations.
Local Open Scope Z_scope.

(* ---------------------------------------------------------------- arithmetic *)
Lemma mod_distinct m K1 K2 : 0 < m -> K1 < K2 < K1 + m -> K1 mod m <> K2 mod m.
Proof.
  intros Hm HK Heq.
  assert (H0 : (K2 - K1) mod m = 0).
  { rewrite Zminus_mod, Heq, Z.sub_diag. apply Z.mod_0_l. lia. }
  rewrite Z.mod_small in H0 by lia. lia.
Qed.

Lemma mod_mod_mul K m ss : 0 < ss -> 0 < m -> (K mod (m * ss)) mod ss = K mod ss.
Proof.
  intros Hs Hm. rewrite (Z.mul_comm m ss).
  rewrite Z.rem_mul_r by lia.
  rewrite (Z.mul_comm ss ((K / ss) mod m)), Z.mod_add by lia. apply Z.mod_mod. lia.
Qed.

(* slot of the j-th data packet in the data/parity cycle, counting skipped parity *)
Definition slot (d ss j : Z) : Z := (j / d) * ss + j mod d.

Lemma slot_group d ss g c : 0 <= c < d -> slot d ss (g * d + c) = g * ss + c.
Proof.
  intros Hc. unfold slot.
  assert (Hq : (g * d + c) / d = g).
  { symmetry. apply (Z.div_unique_pos _ _ g c); lia. }
  assert (Hr : (g * d + c) mod d = c).
  { symmetry. apply (Z.mod_unique_pos _ _ g c); lia. }
  rewrite Hq, Hr. reflexivity.
Qed.

Lemma slot_mono d ss j1 j2 : 0 < d -> d <= ss -> 0 <= j1 < j2 -> slot d ss j1 < slot d ss j2.
Proof.
  intros Hd Hss Hj. unfold slot.
  pose proof (Z.div_mod j1 d ltac:(lia)) as E1. pose proof (Z.div_mod j2 d ltac:(lia)) as E2.
  pose proof (Z.mod_pos_bound j1 d Hd) as B1. pose proof (Z.mod_pos_bound j2 d Hd) as B2.
  assert (Hq : j1 / d <= j2 / d) by (apply Z.div_le_mono; lia).
  destruct (Z.eq_dec (j1 / d) (j2 / d)) as [Heq|Hne].
  - rewrite Heq in *. nia.
  - assert (j1 / d + 1 <= j2 / d) by lia. nia.
Qed.

Lemma last_app_ne {A} (l1 l2 : list A) (d : A) : l2 <> [] -> last (l1 ++ l2) d = last l2 d.
Proof.
  intros Hne. induction l1 as [|a l1 IH]; [reflexivity|].
  cbn [app]. destruct (l1 ++ l2) eqn:E.
  - destruct l1; [cbn in E; congruence|discriminate].
  - cbn [last]. exact IH.
Qed.

(* a complete group occupies d+p slots: after its last data packet come the p parity slots *)
Lemma slot_parity_gap d p j : 0 < d -> 0 <= p -> 0 <= j -> (j + 1) mod d = 0 ->
  slot d (d + p) (j + 1) = slot d (d + p) j + 1 + p.
Proof.
  intros Hd Hp Hj Hm. unfold slot. rewrite Hm.
  pose proof (Z.div_mod (j + 1) d ltac:(lia)) as E1. rewrite Hm in E1.
  pose proof (Z.div_mod j d ltac:(lia)) as E2. pose proof (Z.mod_pos_bound j d Hd) as B.
  assert (Hq : j / d = (j + 1) / d - 1).
  { assert (j = d * ((j + 1) / d - 1) + (d - 1)) by lia.
    symmetry. apply (Z.div_unique_pos j d ((j + 1) / d - 1) (d - 1)); lia. }
  assert (Hr : j mod d = d - 1).
  { symmetry. apply (Z.mod_unique_pos j d ((j + 1) / d - 1) (d - 1)); lia. }
  rewrite Hq, Hr. lia.
Qed.

(* ---------------------------------------------------------------- well-formed encoders *)
Definition fec_wf (e : fecenc) : Prop :=
  0 < fe_d e /\ 0 < fe_p e /\ fe_ss e = fe_d e + fe_p e /\ fe_ss e <= 256 /\
  fe_paws e = (W32 - 1) / fe_ss e * fe_ss e /\ 0 <= fe_count e < fe_d e /\ fe_poff e = fe_hoff e + c_fecHeaderSize.

(* g = number of completed groups: next = (g*ss + count) mod paws *)
Definition enc_inv (e : fecenc) (g : Z) : Prop :=
  fec_wf e /\ 0 <= g /\ fe_next e = (g * fe_ss e + fe_count e) mod fe_paws e.

Lemma paws_facts e : fec_wf e ->
  0 < fe_paws e /\ fe_paws e <= oob_seqid /\ 0 < (W32 - 1) / fe_ss e /\ 0 < fe_ss e.
Proof.
  intros (Hd & Hp & Hss & H256 & Hpaws & _). unfold oob_seqid, W32 in *.
  assert (0 < fe_ss e) by lia.
  assert (16777215 <= 4294967295 / fe_ss e).
  { apply Z.div_le_lower_bound; lia. }
  pose proof (Z.mul_div_le 4294967295 (fe_ss e) ltac:(lia)).
  rewrite Hpaws. repeat split; nia.
Qed.

Lemma fec_new_wf d p off e : fec_new d p off = Some e -> enc_inv e 0 /\ fe_d e = d /\ fe_p e = p /\
  fe_count e = 0 /\ fe_cache e = [] /\ fe_maxsize e = 0 /\ fe_hoff e = off /\ fe_next e = 0.
Proof.
  unfold fec_new. destruct ((d <=? 0) || (p <=? 0) || (256 <? d + p)) eqn:E; [discriminate|].
  apply orb_false_iff in E as [E E3]. apply orb_false_iff in E as [E1 E2].
  apply Z.leb_gt in E1, E2. apply Z.ltb_ge in E3.
  intros H; inversion H; subst; clear H. unfold enc_inv, fec_wf. cbn.
  repeat split; lia.
Qed.

(* ---------------------------------------------------------------- parity sealing *)
Fixpoint parity_pkts (K paws : Z) (pars : list bytes) : list bytes :=
  match pars with
  | [] => []
  | par :: t => (fec_hdr (K mod paws) c_typeParity ++ par) :: parity_pkts (K + 1) paws t
  end.

Lemma seal_parities_spec paws pars : 0 < paws -> forall K,
  seal_parities (K mod paws) paws pars = (parity_pkts K paws pars, (K + Z.of_nat (length pars)) mod paws).
Proof.
  intros Hp. induction pars as [|par t IH]; intros K.
  - cbn. rewrite Z.add_0_r. reflexivity.
  - cbn [seal_parities parity_pkts length].
    rewrite Zplus_mod_idemp_l. rewrite IH.
    replace (K + 1 + Z.of_nat (length t)) with (K + Z.of_nat (S (length t))) by lia. reflexivity.
Qed.

Lemma parity_pkts_payloads K paws pars : map (skipn 6) (parity_pkts K paws pars) = pars.
Proof.
  revert K. induction pars as [|par t IH]; intros K; [reflexivity|].
  cbn [parity_pkts map]. rewrite IH. reflexivity.
Qed.

Lemma parity_pkts_length K paws pars : length (parity_pkts K paws pars) = length pars.
Proof. revert K. induction pars; intros; cbn; auto. Qed.

Lemma parity_pkts_nth K paws pars : forall i pkt, nth_error (parity_pkts K paws pars) i = Some pkt ->
  exists par, nth_error pars i = Some par /\
    pkt = fec_hdr ((K + Z.of_nat i) mod paws) c_typeParity ++ par.
Proof.
  revert K. induction pars as [|par t IH]; intros K i pkt H.
  - destruct i; discriminate.
  - destruct i as [|i]; cbn in H.
    + inversion H; subst. exists par. split; [reflexivity|]. rewrite Z.add_0_r. reflexivity.
    + destruct (IH (K + 1) i pkt H) as (par' & Hn & Hp). exists par'. split; [exact Hn|].
      rewrite Hp. replace (K + 1 + Z.of_nat i) with (K + Z.of_nat (S i)) by lia. reflexivity.
Qed.

Section Encoder.
Variable rs_encode : Z -> Z -> list bytes -> list bytes.
(* reedsolomon.Encode fills exactly the p parity shards *)
Hypothesis rs_count : forall d p shards, length (rs_encode d p shards) = Z.to_nat p.

Local Notation fec_encode := (Frame.fec_encode rs_encode).
Local Notation fec_run := (Frame.fec_run rs_encode).

(* ---------------------------------------------------------------- one call of encode *)
Lemma fec_encode_step e g x now rto e1 pkt ps :
  enc_inv e g -> fec_encode e x now rto = (e1, pkt, ps) ->
  let K := g * fe_ss e + fe_count e in
  pkt = fec_hdr (K mod fe_paws e) c_typeData ++ size_prefixed x /\
  fe_d e1 = fe_d e /\ fe_p e1 = fe_p e /\ fe_ss e1 = fe_ss e /\ fe_paws e1 = fe_paws e /\
  fe_hoff e1 = fe_hoff e /\ fe_poff e1 = fe_poff e /\
  (fe_count e + 1 < fe_d e -> enc_inv e1 g /\ fe_count e1 = fe_count e + 1 /\ ps = []) /\
  (fe_count e + 1 = fe_d e ->
     enc_inv e1 (g + 1) /\ fe_count e1 = 0 /\ fe_cache e1 = [] /\ fe_maxsize e1 = 0 /\
     (ps = [] \/
      (now - fe_ts e < rto /\
       ps = parity_pkts (K + 1) (fe_paws e)
              (rs_encode (fe_d e) (fe_p e)
                 (map (pad_to ((if fe_maxsize e <? fe_poff e + 2 + blen x then fe_poff e + 2 + blen x else fe_maxsize e) - fe_poff e))
                      (fe_cache e ++ [size_prefixed x])))))).
Proof.
  intros (Hwf & Hg & Hnext) H. cbn zeta.
  pose proof (paws_facts e Hwf) as (Hpaws & _ & _ & Hss).
  pose proof Hwf as (Hd & Hp & Hsseq & H256 & Hpw & Hc & Hpo).
  unfold Frame.fec_encode in H.
  destruct (fe_count e + 1 =? fe_d e) eqn:Ec.
  - apply Z.eqb_eq in Ec.
    assert (Hnx : (fe_next e + 1) mod fe_paws e = (g * fe_ss e + fe_count e + 1) mod fe_paws e).
    { rewrite Hnext. apply Zplus_mod_idemp_l. }
    assert (Hgrp : forall z, (z + fe_p e) = (g + 1) * fe_ss e + 0 -> z = g * fe_ss e + fe_count e + 1) by (intros; nia).
    destruct (now - fe_ts e <? rto) eqn:Et.
    + rewrite Hnx in H. rewrite seal_parities_spec in H by exact Hpaws.
      inversion H; subst; clear H. cbn [fe_set fe_d fe_p fe_ss fe_paws fe_hoff fe_poff fe_count fe_next fe_cache fe_maxsize].
      split; [rewrite Hnext; reflexivity|]. repeat (split; [reflexivity|]).
      split; [intros; lia|]. intros _.
      split.
      * split; [repeat split; cbn; try lia; try assumption|]. split; [lia|]. cbn.
        rewrite rs_count. f_equal. rewrite Z2Nat.id by lia. nia.
      * repeat (split; [reflexivity|]). right. apply Z.ltb_lt in Et. split; [exact Et|reflexivity].
    + inversion H; subst; clear H. cbn [fe_set fe_d fe_p fe_ss fe_paws fe_hoff fe_poff fe_count fe_next fe_cache fe_maxsize].
      split; [rewrite Hnext; reflexivity|]. repeat (split; [reflexivity|]).
      split; [intros; lia|]. intros _.
      split.
      * split; [repeat split; cbn; try lia; try assumption|]. split; [lia|]. cbn.
        rewrite Hnx, Zplus_mod_idemp_l. f_equal. nia.
      * repeat (split; [reflexivity|]). left. reflexivity.
  - apply Z.eqb_neq in Ec.
    inversion H; subst; clear H. cbn [fe_set fe_d fe_p fe_ss fe_paws fe_hoff fe_poff fe_count fe_next fe_cache fe_maxsize].
    split; [rewrite Hnext; reflexivity|]. repeat (split; [reflexivity|]).
    split; [|intros; lia]. intros Hlt.
    split; [|split; reflexivity].
    split; [repeat split; cbn; try lia; try assumption|]. split; [lia|]. cbn.
    rewrite Hnext, Zplus_mod_idemp_l. f_equal. lia.
Qed.

(* the packet that completes a group always leaves the encoder at the start of the next group:
   the p parity ids are consumed whether the parity is emitted (and later sent or dropped by
   postProcess) or skipped for discontinuity *)
Theorem parity_ids_consumed e g x now rto :
  enc_inv e g -> fe_count e + 1 = fe_d e ->
  let e1 := fst (fst (fec_encode e x now rto)) in
  fe_next e1 = ((g + 1) * fe_ss e) mod fe_paws e /\ fe_count e1 = 0.
Proof.
  intros Hinv Hc. cbn zeta.
  destruct (fec_encode e x now rto) as [[e1 pkt] ps] eqn:E. cbn [fst].
  pose proof (fec_encode_step e g x now rto e1 pkt ps Hinv E) as H. cbn zeta in H.
  destruct H as (_ & _ & _ & Hss & Hpw & _ & _ & _ & Heq).
  destruct (Heq Hc) as ((_ & _ & Hn) & Hc0 & _).
  rewrite Hn, Hc0, Hss, Hpw, Z.add_0_r. split; reflexivity.
Qed.

(* ---------------------------------------------------------------- a whole run: ids and types *)
Definition seqid_of (pkt : bytes) : Z := rd32 pkt.
Definition type_of (pkt : bytes) : Z := rd16 (skipn 4 pkt).

Lemma hdr_fields K ty rest : 0 <= K < W32 -> 0 <= ty < 65536 ->
  seqid_of (fec_hdr K ty ++ rest) = K /\ type_of (fec_hdr K ty ++ rest) = ty.
Proof.
  intros HK Hty. unfold seqid_of, type_of, fec_hdr. rewrite <- app_assoc. split.
  - apply rd32_le32. exact HK.
  - change (skipn 4 (le32 K ++ le16 ty ++ rest)) with (le16 ty ++ rest). apply rd16_le16. exact Hty.
Qed.

Lemma fec_run_ids : forall ins e g outs e',
  enc_inv e g -> fec_run e ins = (e', outs) ->
  forall i pkt ps, nth_error outs i = Some (pkt, ps) ->
    let d := fe_d e in let ss := fe_ss e in let paws := fe_paws e in
    let K := slot d ss (g * d + fe_count e + Z.of_nat i) in
    (exists x now, nth_error ins i = Some (x, now) /\
       pkt = fec_hdr (K mod paws) c_typeData ++ size_prefixed x) /\
    (ps = [] \/
     ((g * d + fe_count e + Z.of_nat i + 1) mod d = 0 /\ length ps = Z.to_nat (fe_p e) /\
      forall k par, nth_error ps k = Some par ->
        exists payload, par = fec_hdr ((K + 1 + Z.of_nat k) mod paws) c_typeParity ++ payload)).
Proof.
  induction ins as [|[x now] ins IH]; intros e g outs e' Hinv Hrun i pkt ps Hnth.
  - cbn in Hrun. inversion Hrun; subst. destruct i; discriminate.
  - cbn [Frame.fec_run] in Hrun.
    destruct (fec_encode e x now c_maxFECEncodeLatency) as [[e1 pkt0] ps0] eqn:Eenc.
    destruct (fec_run e1 ins) as [e2 l] eqn:Erun. inversion Hrun; subst; clear Hrun.
    pose proof Hinv as (Hwf & Hg & _). pose proof Hwf as (Hd & Hp & Hsseq & _ & _ & Hc & _).
    pose proof (fec_encode_step e g x now _ e1 pkt0 ps0 Hinv Eenc) as Hstep.
    cbn zeta in Hstep. destruct Hstep as (Hpkt & Hd1 & Hp1 & Hss1 & Hpaws1 & _ & _ & Hlt & Heq).
    cbn zeta in *.
    destruct i as [|i].
    + cbn in Hnth. inversion Hnth; subst; clear Hnth. rewrite Z.add_0_r.
      rewrite slot_group by lia. split.
      * exists x, now. split; reflexivity.
      * destruct (Z.eq_dec (fe_count e + 1) (fe_d e)) as [E|E].
        -- destruct (Heq E) as (_ & _ & _ & _ & [Hps|(_ & Hps)]); [left; exact Hps|]. right.
           split. { replace (g * fe_d e + fe_count e + 1) with ((g + 1) * fe_d e) by nia. apply Z.mod_mul. lia. }
           split. { rewrite Hps, parity_pkts_length. apply rs_count. }
           intros k par Hk. rewrite Hps in Hk.
           destruct (parity_pkts_nth _ _ _ _ _ Hk) as (payload & _ & Hpar).
           exists payload. rewrite Hpar. do 2 f_equal. 
        -- left. apply Hlt. lia.
    + cbn [nth_error] in Hnth.
      destruct (Z.eq_dec (fe_count e + 1) (fe_d e)) as [E|E].
      * destruct (Heq E) as (Hinv1 & Hc1 & _).
        specialize (IH e1 (g + 1) _ _ Hinv1 Erun i pkt ps Hnth). cbn zeta in IH.
        rewrite Hd1, Hp1, Hss1, Hpaws1, Hc1 in IH.
        replace ((g + 1) * fe_d e + 0 + Z.of_nat i) with (g * fe_d e + fe_count e + Z.of_nat (S i)) in IH by nia.
        exact IH.
      * destruct (Hlt ltac:(lia)) as (Hinv1 & Hc1 & _).
        specialize (IH e1 g _ _ Hinv1 Erun i pkt ps Hnth). cbn zeta in IH.
        rewrite Hd1, Hp1, Hss1, Hpaws1, Hc1 in IH.
        replace (g * fe_d e + (fe_count e + 1) + Z.of_nat i) with (g * fe_d e + fe_count e + Z.of_nat (S i)) in IH by lia.
        exact IH.
Qed.

(* ---------------------------------------------------------------- the run from newFECEncoder *)
Theorem fec_ids d p off e0 ins :
  fec_new d p off = Some e0 ->
  let ss := d + p in let paws := fe_paws e0 in
  forall i pkt ps, nth_error (snd (fec_run e0 ins)) i = Some (pkt, ps) ->
    let K := slot d ss (Z.of_nat i) in
    seqid_of pkt = K mod paws /\ type_of pkt = c_typeData /\ (K mod paws) mod ss < d /\
    (exists x now, nth_error ins i = Some (x, now) /\
       pkt = fec_hdr (K mod paws) c_typeData ++ size_prefixed x) /\
    (ps = [] \/
     ((Z.of_nat i + 1) mod d = 0 /\ length ps = Z.to_nat p /\
      forall k par, nth_error ps k = Some par ->
        let Kp := K + 1 + Z.of_nat k in
        seqid_of par = Kp mod paws /\ type_of par = c_typeParity /\ d <= (Kp mod paws) mod ss < ss)).
Proof.
  intros Hnew ss paws i pkt ps Hnth.
  destruct (fec_new_wf _ _ _ _ Hnew) as (Hinv & Hd & Hp & Hc & _ & _ & _ & _).
  pose proof Hinv as (Hwf & _ & _). pose proof Hwf as (Hd0 & Hp0 & Hss & _ & Hpw & _ & _).
  pose proof (paws_facts _ Hwf) as (Hpaws & Hoob & Hm & Hss0).
  destruct (fec_run e0 ins) as [e' outs] eqn:Erun. cbn [snd] in Hnth.
  pose proof (fec_run_ids ins e0 0 outs e' Hinv Erun i pkt ps Hnth) as H. cbn zeta in H.
  rewrite Hd in Hd0. rewrite Hp in Hp0. rewrite Hd, Hp in Hss.
  rewrite Hd, Hp, Hc, Hss in H. fold ss in H. fold paws in H.
  replace (0 * d + 0 + Z.of_nat i) with (Z.of_nat i) in H by lia.
  destruct H as ((x & now & Hx & Hpkt) & Hps). cbn zeta.
  set (K := slot d ss (Z.of_nat i)) in *.
  assert (Hpaws_eq : paws = (W32 - 1) / ss * ss) by (unfold paws, ss; rewrite Hpw, Hss; reflexivity).
  assert (Hssp : 0 < ss) by (unfold ss; lia).
  assert (Hm' : 0 < (W32 - 1) / ss) by (unfold ss; rewrite <- Hss; exact Hm).
  assert (Hrange : forall z, 0 <= z mod paws < W32).
  { intros z. pose proof (Z.mod_pos_bound z paws Hpaws). unfold oob_seqid in Hoob. fold paws in Hoob. lia. }
  assert (Hmm : forall z, (z mod paws) mod ss = z mod ss).
  { intros z. rewrite Hpaws_eq. apply mod_mod_mul; assumption. }
  assert (HK : K = (Z.of_nat i / d) * ss + Z.of_nat i mod d) by reflexivity.
  pose proof (Z.mod_pos_bound (Z.of_nat i) d Hd0) as Hcb.
  assert (HKss : K mod ss = Z.of_nat i mod d).
  { rewrite HK, Z.add_comm, Z.mod_add by lia. apply Z.mod_small. unfold ss. lia. }
  destruct (hdr_fields (K mod paws) c_typeData (size_prefixed x) (Hrange K) ltac:(unfold c_typeData; lia)) as (Hs1 & Ht1).
  split; [rewrite Hpkt; exact Hs1|]. split; [rewrite Hpkt; exact Ht1|].
  split; [rewrite Hmm, HKss; lia|].
  split; [exists x, now; split; assumption|].
  destruct Hps as [Hps|(Hmod & Hlen & Hpar)]; [left; exact Hps|right].
  split; [exact Hmod|]. split; [exact Hlen|].
  intros k par Hk. destruct (Hpar k par Hk) as (payload & Hpay).
  destruct (hdr_fields ((K + 1 + Z.of_nat k) mod paws) c_typeParity payload (Hrange _) ltac:(unfold c_typeParity; lia)) as (Hs2 & Ht2).
  split; [rewrite Hpay; exact Hs2|]. split; [rewrite Hpay; exact Ht2|].
  rewrite Hmm.
  assert (Hkp : Z.of_nat k < p).
  { assert (k < length ps)%nat by (apply nth_error_Some; congruence). lia. }
  assert (Hcd : Z.of_nat i mod d = d - 1).
  { pose proof (Z.div_mod (Z.of_nat i) d ltac:(lia)). pose proof (Z.div_mod (Z.of_nat i + 1) d ltac:(lia)).
    rewrite Hmod in *. 
    assert ((Z.of_nat i + 1) / d = Z.of_nat i / d + 1 \/ (Z.of_nat i + 1) / d = Z.of_nat i / d).
    { assert (Z.of_nat i / d <= (Z.of_nat i + 1) / d) by (apply Z.div_le_mono; lia).
      assert ((Z.of_nat i + 1) / d <= Z.of_nat i / d + 1).
      { replace (Z.of_nat i / d + 1) with ((Z.of_nat i + 1 * d) / d) by (rewrite Z.div_add by lia; reflexivity).
        apply Z.div_le_mono; lia. }
      lia. }
    nia. }
  replace (K + 1 + Z.of_nat k) with (d + Z.of_nat k + (Z.of_nat i / d) * ss) by (rewrite HK, Hcd; lia).
  rewrite Z.mod_add by lia. rewrite Z.mod_small by (unfold ss; lia). unfold ss. lia.
Qed.

(* ids do not repeat within a wrap period *)
Theorem fec_ids_distinct d p off e0 ins :
  fec_new d p off = Some e0 ->
  forall i1 i2 pkt1 ps1 pkt2 ps2, (i1 < i2)%nat ->
    nth_error (snd (fec_run e0 ins)) i1 = Some (pkt1, ps1) ->
    nth_error (snd (fec_run e0 ins)) i2 = Some (pkt2, ps2) ->
    slot d (d + p) (Z.of_nat i2) - slot d (d + p) (Z.of_nat i1) < fe_paws e0 ->
    seqid_of pkt1 <> seqid_of pkt2.
Proof.
  intros Hnew i1 i2 pkt1 ps1 pkt2 ps2 Hlt H1 H2 Hw.
  destruct (fec_new_wf _ _ _ _ Hnew) as ((Hwf & _ & _) & Hd & Hp & _).
  pose proof Hwf as (Hd0 & Hp0 & _).
  pose proof (paws_facts _ Hwf) as (Hpaws & _).
  destruct (fec_ids d p off e0 ins Hnew i1 pkt1 ps1 H1) as (E1 & _).
  destruct (fec_ids d p off e0 ins Hnew i2 pkt2 ps2 H2) as (E2 & _).
  rewrite E1, E2. apply mod_distinct; [exact Hpaws|].
  pose proof (slot_mono d (d + p) (Z.of_nat i1) (Z.of_nat i2)). lia.
Qed.

(* out-of-band packets: id 0xffffffff (never a FEC id: those are < paws <= 0xffffffff), type 0xF3,
   and the encoder is left as it was - no id is consumed *)
Theorem encode_oob_ids e x : fec_wf e ->
  let '(e', pkt) := encode_oob e x in
  e' = e /\ seqid_of pkt = oob_seqid /\ type_of pkt = c_typeOOB /\ fe_paws e <= oob_seqid /\
  pkt = fec_hdr oob_seqid c_typeOOB ++ size_prefixed x.
Proof.
  intros Hwf. cbn [encode_oob]. pose proof (paws_facts _ Hwf) as (_ & Hle & _).
  destruct (hdr_fields oob_seqid c_typeOOB (size_prefixed x)) as (A & B).
  { unfold oob_seqid, W32. lia. } { unfold c_typeOOB. lia. }
  repeat split; assumption.
Qed.

(* ---------------------------------------------------------------- parity = rs_encode of the group *)
Definition max_len (imgs : list bytes) : Z := fold_left (fun m s => Z.max m (blen s)) imgs 0.

Definition cache_inv (e : fecenc) (pend : list bytes) : Prop :=
  fe_cache e = map size_prefixed pend /\ fe_count e = Z.of_nat (length pend) /\
  fe_maxsize e = match pend with [] => 0 | _ => fe_poff e + max_len (map size_prefixed pend) end.

Lemma max_len_snoc imgs s : max_len (imgs ++ [s]) = Z.max (max_len imgs) (blen s).
Proof. unfold max_len. rewrite fold_left_app. reflexivity. Qed.

Lemma blen_size_prefixed x : blen (size_prefixed x) = 2 + blen x.
Proof. unfold size_prefixed. rewrite blen_app, blen_le16. reflexivity. Qed.

Lemma fec_encode_cache e x now rto e1 pkt ps pend :
  cache_inv e pend -> 0 <= fe_poff e -> 0 <= fe_count e ->
  fec_encode e x now rto = (e1, pkt, ps) ->
  (fe_count e + 1 <> fe_d e -> cache_inv e1 (pend ++ [x])) /\
  (fe_count e + 1 = fe_d e ->
     cache_inv e1 [] /\
     (ps = [] \/
      map (skipn 6) ps =
        rs_encode (fe_d e) (fe_p e)
          (map (pad_to (max_len (map size_prefixed (pend ++ [x])))) (map size_prefixed (pend ++ [x]))))).
Proof.
  intros (Hc & Hn & Hm) Hpo Hcnt H.
  pose proof (blen_nonneg x) as Hx.
  assert (HM : (if fe_maxsize e <? fe_poff e + 2 + blen x then fe_poff e + 2 + blen x else fe_maxsize e)
               = fe_poff e + max_len (map size_prefixed (pend ++ [x]))).
  { rewrite map_app. cbn [map]. rewrite max_len_snoc, blen_size_prefixed.
    destruct pend as [|y pend].
    - rewrite Hm. cbn [map]. unfold max_len at 1. cbn [fold_left].
      destruct (0 <? fe_poff e + 2 + blen x) eqn:E; [lia|apply Z.ltb_ge in E; lia].
    - rewrite Hm.
      destruct (fe_poff e + max_len (map size_prefixed (y :: pend)) <? fe_poff e + 2 + blen x) eqn:E;
        [apply Z.ltb_lt in E|apply Z.ltb_ge in E]; lia. }
  unfold Frame.fec_encode in H. rewrite HM in H.
  destruct (fe_count e + 1 =? fe_d e) eqn:Ec.
  - apply Z.eqb_eq in Ec. split; [intros; lia|]. intros _.
    destruct (now - fe_ts e <? rto).
    + destruct (seal_parities _ _ _) as [ps' nx] eqn:Es. inversion H; subst; clear H.
      split; [repeat split|]. right.
      (* ps' are the sealed shards of rs_encode *)
      replace (fe_poff e + max_len (map size_prefixed (pend ++ [x])) - fe_poff e)
        with (max_len (map size_prefixed (pend ++ [x]))) in Es by lia.
      rewrite Hc in Es.
      assert (Hma : map size_prefixed (pend ++ [x]) = map size_prefixed pend ++ [size_prefixed x])
        by (rewrite map_app; reflexivity).
      rewrite Hma in *.
      assert (Hgen : forall pars next paws l nx', seal_parities next paws pars = (l, nx') -> map (skipn 6) l = pars).
      { induction pars as [|par t IH]; intros next paws l nx' Hs.
        - cbn in Hs. inversion Hs. reflexivity.
        - cbn [seal_parities] in Hs. destruct (seal_parities ((next + 1) mod paws) paws t) as [l0 n0] eqn:E0.
          inversion Hs; subst. cbn [map]. f_equal. eapply IH. exact E0. }
      rewrite (Hgen _ _ _ _ _ Es). reflexivity.
    + inversion H; subst; clear H. split; [repeat split|]. left. reflexivity.
  - apply Z.eqb_neq in Ec. split; [|intros; lia]. intros _.
    inversion H; subst; clear H. unfold cache_inv. cbn [fe_set fe_cache fe_count fe_maxsize fe_poff].
    split; [rewrite Hc, map_app; reflexivity|].
    split; [rewrite Hn, app_length; cbn [length]; lia|].
    destruct pend; reflexivity.
Qed.

Lemma fec_run_app e a b :
  fec_run e (a ++ b) =
  let '(e1, o1) := fec_run e a in let '(e2, o2) := fec_run e1 b in (e2, o1 ++ o2).
Proof.
  revert e. induction a as [|[x now] a IH]; intros e.
  - cbn. destruct (fec_run e b). reflexivity.
  - cbn [app Frame.fec_run]. destruct (fec_encode e x now c_maxFECEncodeLatency) as [[e1 pkt] ps].
    rewrite IH. destruct (fec_run e1 a) as [e2 o1]. destruct (fec_run e2 b) as [e3 o2]. reflexivity.
Qed.

Definition same_params (e e' : fecenc) : Prop :=
  fe_d e' = fe_d e /\ fe_p e' = fe_p e /\ fe_ss e' = fe_ss e /\ fe_paws e' = fe_paws e /\
  fe_hoff e' = fe_hoff e /\ fe_poff e' = fe_poff e.

(* finishing the open group *)
Lemma fec_run_group : forall grp e g pend e' outs,
  enc_inv e g -> cache_inv e pend -> 0 <= fe_poff e ->
  Z.of_nat (length pend + length grp) = fe_d e -> grp <> [] ->
  fec_run e grp = (e', outs) ->
  enc_inv e' (g + 1) /\ cache_inv e' [] /\ same_params e e' /\
  let ps := snd (last outs ([], [])) in
  ps = [] \/
  map (skipn 6) ps =
    rs_encode (fe_d e) (fe_p e)
      (map (pad_to (max_len (map size_prefixed (pend ++ map fst grp)))) (map size_prefixed (pend ++ map fst grp))).
Proof.
  induction grp as [|[x now] grp IH]; intros e g pend e' outs Hinv Hcache Hpo Hlen Hne Hrun; [congruence|].
  cbn [Frame.fec_run] in Hrun.
  destruct (fec_encode e x now c_maxFECEncodeLatency) as [[e1 pkt] ps] eqn:Eenc.
  destruct (fec_run e1 grp) as [e2 l] eqn:Erun. inversion Hrun; subst; clear Hrun.
  pose proof Hcache as (_ & Hcnt & _).
  pose proof (fec_encode_step e g x now _ e1 pkt ps Hinv Eenc) as Hstep. cbn zeta in Hstep.
  destruct Hstep as (_ & Hd1 & Hp1 & Hss1 & Hpaws1 & Hh1 & Hpo1 & Hlt & Heq).
  pose proof (fec_encode_cache e x now _ e1 pkt ps pend Hcache Hpo ltac:(lia) Eenc) as (Hc1 & Hc2).
  cbn [length] in Hlen.
  destruct grp as [|y grp].
  - cbn in Erun. inversion Erun; subst; clear Erun. cbn [length] in Hlen.
    assert (E : fe_count e + 1 = fe_d e) by lia.
    destruct (Heq E) as (Hinv1 & _). destruct (Hc2 E) as (Hcache1 & Hps).
    split; [exact Hinv1|]. split; [exact Hcache1|]. split; [repeat split; assumption|].
    cbn [last snd map]. exact Hps.
  - cbn [length] in Hlen.
    assert (E : fe_count e + 1 < fe_d e) by lia.
    destruct (Hlt E) as (Hinv1 & _ & _). pose proof (Hc1 ltac:(lia)) as Hcache1.
    destruct (IH e1 g (pend ++ [x]) e' l Hinv1 Hcache1 ltac:(lia)) as (A & B & C & D).
    { rewrite app_length. cbn [length]. lia. } { discriminate. } { exact Erun. }
    split; [exact A|]. split; [exact B|].
    split. { destruct C as (? & ? & ? & ? & ? & ?). repeat split; congruence. }
    cbn zeta in *. rewrite Hd1, Hp1 in D. rewrite <- app_assoc in D. cbn [app map fst] in *.
    assert (Hl : l <> []).
    { cbn [Frame.fec_run] in Erun. destruct y. destruct (fec_encode e1 b z c_maxFECEncodeLatency) as [[? ?] ?].
      destruct (fec_run f grp). inversion Erun. discriminate. }
    destruct l as [|o l]; [congruence|]. cbn [last] in *. exact D.
Qed.

(* any number of complete groups *)
Lemma fec_run_groups : forall (n : nat) pre e g e' outs,
  enc_inv e g -> cache_inv e [] -> 0 <= fe_poff e ->
  length pre = (n * Z.to_nat (fe_d e))%nat ->
  fec_run e pre = (e', outs) ->
  enc_inv e' (g + Z.of_nat n) /\ cache_inv e' [] /\ same_params e e'.
Proof.
  induction n as [|n IH]; intros pre e g e' outs Hinv Hcache Hpo Hlen Hrun.
  - destruct pre; [|discriminate]. cbn in Hrun. inversion Hrun; subst.
    rewrite Z.add_0_r. split; [exact Hinv|]. split; [exact Hcache|]. repeat split.
  - pose proof Hinv as ((Hd & _) & _).
    set (dn := Z.to_nat (fe_d e)) in *.
    assert (Hdn : (0 < dn)%nat) by (unfold dn; lia).
    rewrite <- (firstn_skipn dn pre) in Hrun. rewrite fec_run_app in Hrun.
    destruct (fec_run e (firstn dn pre)) as [e1 o1] eqn:E1.
    destruct (fec_run e1 (skipn dn pre)) as [e2 o2] eqn:E2. inversion Hrun; subst; clear Hrun.
    assert (Hl1 : length (firstn dn pre) = dn) by (rewrite firstn_length; cbn in Hlen; lia).
    destruct (fec_run_group (firstn dn pre) e g [] e1 o1 Hinv Hcache Hpo) as (A & B & C & _).
    { cbn [length]. rewrite Hl1. unfold dn. lia. }
    { intros Hnil. rewrite Hnil in Hl1. cbn in Hl1. lia. }
    { exact E1. }
    destruct C as (C1 & C2 & C3 & C4 & C5 & C6).
    destruct (IH (skipn dn pre) e1 (g + 1) e' o2 A B ltac:(lia)) as (A' & B' & C').
    { rewrite skipn_length, C1. fold dn. cbn in Hlen. lia. } { exact E2. }
    split; [replace (g + Z.of_nat (S n)) with (g + 1 + Z.of_nat n) by lia; exact A'|].
    split; [exact B'|].
    destruct C' as (? & ? & ? & ? & ? & ?). repeat split; congruence.
Qed.

Theorem parity_is_rs d p off e0 pre grp (n : nat) :
  fec_new d p off = Some e0 -> 0 <= off ->
  length pre = (n * Z.to_nat d)%nat -> Z.of_nat (length grp) = d ->
  let outs := snd (fec_run e0 (pre ++ grp)) in
  let ps := snd (last outs ([], [])) in
  let imgs := map size_prefixed (map fst grp) in
  ps = [] \/ (length ps = Z.to_nat p /\ map (skipn 6) ps = rs_encode d p (map (pad_to (max_len imgs)) imgs)).
Proof.
  intros Hnew Hoff Hpre Hgrp. cbn zeta.
  destruct (fec_new_wf _ _ _ _ Hnew) as (Hinv & Hd & Hp & Hc & Hca & Hms & Hho & _).
  pose proof Hinv as ((Hd0 & _ & _ & _ & _ & _ & Hpo) & _).
  assert (Hcache : cache_inv e0 []) by (repeat split; assumption).
  assert (Hpoff : 0 <= fe_poff e0) by (rewrite Hpo, Hho; unfold c_fecHeaderSize; lia).
  rewrite fec_run_app.
  destruct (fec_run e0 pre) as [e1 o1] eqn:E1. destruct (fec_run e1 grp) as [e2 o2] eqn:E2.
  destruct (fec_run_groups n pre e0 0 e1 o1 Hinv Hcache Hpoff) as (A & B & C); [rewrite Hd; exact Hpre|exact E1|].
  destruct C as (C1 & C2 & C3 & C4 & C5 & C6).
  assert (Hgne : grp <> []) by (intros ->; cbn in Hgrp; lia).
  destruct (fec_run_group grp e1 _ [] e2 o2 A B ltac:(lia)) as (_ & _ & _ & D); [cbn [length]; lia|exact Hgne|exact E2|].
  cbn zeta in D. cbn [app] in D. rewrite C1, C2, Hd, Hp in D. cbn [snd].
  assert (Ho2 : o2 <> []).
  { destruct grp as [|[x now] grp]; [congruence|]. cbn [Frame.fec_run] in E2.
    destruct (fec_encode e1 x now c_maxFECEncodeLatency) as [[? ?] ?]. destruct (fec_run f grp). inversion E2. discriminate. }
  rewrite last_app_ne by exact Ho2.
  destruct D as [D|D]; [left; exact D|right]. split; [|exact D].
  pose proof (map_length (skipn 6) (snd (last o2 ([], [])))) as Hl. rewrite D in Hl.
  etransitivity; [symmetry; exact Hl|apply rs_count].
Qed.

End Encoder.
