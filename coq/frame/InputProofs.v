(* The guards of the receive path suffice: no datagram reaches a GPanic outcome (C05, session part). *)
From Coq Require Import ZArith List Bool Lia.
From KV.Base Require Import Consts Word WordLemmas.
From KV.Frame Require Import Wire Frame Input WireProofs.
Import ListNotations.
Local Open Scope Z_scope.

Ltac Zify.zify_post_hook ::= idtac.

Lemma zdrop_0 b : zdrop 0 b = b.
Proof. reflexivity. Qed.

Lemma blen_zdrop n b : 0 <= n <= blen b -> blen (zdrop n b) = blen b - n.
Proof. intros H. unfold zdrop, blen in *. rewrite skipn_length. lia. Qed.

Lemma g_from_ok lo b : 0 <= lo <= blen b -> g_from lo b = Some (zdrop lo b).
Proof.
  intros H. unfold g_from.
  destruct (0 <=? lo) eqn:E1; [|apply Z.leb_gt in E1; lia].
  destruct (lo <=? blen b) eqn:E2; [reflexivity|apply Z.leb_gt in E2; lia].
Qed.

Lemma g_slice_ok lo hi b : 0 <= lo <= hi -> hi <= blen b -> g_slice lo hi b = Some (zdrop lo (ztake hi b)).
Proof.
  intros H1 H2. unfold g_slice.
  destruct (0 <=? lo) eqn:E1; [|apply Z.leb_gt in E1; lia].
  destruct (lo <=? hi) eqn:E2; [|apply Z.leb_gt in E2; lia].
  destruct (hi <=? blen b) eqn:E3; [reflexivity|apply Z.leb_gt in E3; lia].
Qed.

Lemma g_u16_ok off b : 0 <= off -> off + 2 <= blen b -> g_u16 off b = Some (rd16 (zdrop off b)).
Proof.
  intros H1 H2. unfold g_u16.
  destruct (0 <=? off) eqn:E1; [|apply Z.leb_gt in E1; lia].
  destruct (off + 2 <=? blen b) eqn:E2; [reflexivity|apply Z.leb_gt in E2; lia].
Qed.

Lemma g_u32_ok off b : 0 <= off -> off + 4 <= blen b -> g_u32 off b = Some (rd32 (zdrop off b)).
Proof.
  intros H1 H2. unfold g_u32.
  destruct (0 <=? off) eqn:E1; [|apply Z.leb_gt in E1; lia].
  destruct (off + 4 <=? blen b) eqn:E2; [reflexivity|apply Z.leb_gt in E2; lia].
Qed.

Section Total.
Variable K : crypto.
Variables Core Dec : Type.
Variable core_input : Core -> bytes -> Z -> Core.
Variable dec_new : Z -> Z -> Dec.
Variable dec_decode : Dec -> bytes -> Dec * list bytes.
Hypothesis dec_len : forall b, blen (k_dec K b) = blen b.
Hypothesis ns_nonneg : 0 <= k_ns K.
Hypothesis ov_nonneg : 0 <= k_ov K.

Local Notation feed_recovered := (Frame.feed_recovered Core core_input).
Local Notation feed_recovered_g := (Input.feed_recovered_g Core core_input).
Local Notation feed_all_g := (Input.feed_all_g Core core_input).
Local Notation kcp_input := (Frame.kcp_input Core Dec core_input dec_new dec_decode).
Local Notation kcp_input_g := (Input.kcp_input_g Core Dec core_input dec_new dec_decode).
Local Notation packet_input := (Frame.packet_input K Core Dec core_input dec_new dec_decode).
Local Notation packet_input_g := (Input.packet_input_g K Core Dec core_input dec_new dec_decode).

(* a recovered shard is an arbitrary byte string: any length, any content *)
Lemma feed_recovered_total core r : feed_recovered_g core r = GOk (feed_recovered core r).
Proof using Type.
  unfold Input.feed_recovered_g, Frame.feed_recovered.
  destruct (2 <=? blen r) eqn:E; [|reflexivity]. apply Z.leb_le in E.
  rewrite g_u16_ok by lia. rewrite zdrop_0.
  destruct ((rd16 r <=? blen r) && (2 <=? rd16 r)) eqn:G; [|reflexivity].
  apply andb_true_iff in G as [G1 G2]. apply Z.leb_le in G1, G2.
  rewrite g_slice_ok by lia. reflexivity.
Qed.

Lemma feed_all_total recs : forall core, feed_all_g core recs = GOk (fold_left feed_recovered recs core).
Proof using Type.
  induction recs as [|r t IH]; intros core; [reflexivity|].
  cbn [Input.feed_all_g fold_left]. rewrite feed_recovered_total. apply IH.
Qed.

(* the demultiplexer, for every payload that passed the minimum-size check of the gate *)
Theorem kcp_input_total st data :
  min_pkt <= blen data -> kcp_input_g st data = GOk (kcp_input st data).
Proof using Type.
  intros Hmin. unfold min_pkt, c_IKCP_OVERHEAD, c_fecHeaderSizePlus2, c_convSize in Hmin.
  assert (H12 : 12 <= blen data) by lia. clear Hmin.
  unfold Input.kcp_input_g, Frame.kcp_input.
  rewrite g_u16_ok by lia. change (zdrop 4 data) with (skipn 4 data).
  set (flag := rd16 (skipn 4 data)).
  destruct ((flag =? c_typeData) || (flag =? c_typeParity)).
  - destruct (blen data <? c_fecHeaderSizePlus2); [reflexivity|].
    rewrite g_from_ok by (unfold c_fecHeaderSizePlus2; lia).
    destruct (flag =? c_typeData);
      destruct (dec_decode _ data) as [d1 recs]; rewrite feed_all_total; reflexivity.
  - destruct (flag =? c_typeOOB); [|reflexivity].
    destruct (rx_handler Core Dec st); [|reflexivity].
    rewrite g_from_ok by (unfold c_fecHeaderSizePlus2, c_convSize; lia). reflexivity.
Qed.

Lemma unframe_total c dgram : unframe_g K c dgram = GOk (unframe K c dgram).
Proof using dec_len ns_nonneg ov_nonneg.
  unfold unframe_g, unframe. destruct c.
  - destruct (blen dgram <? min_pkt); reflexivity.
  - destruct (blen dgram <? c_cryptHeaderSize) eqn:E; [reflexivity|]. apply Z.ltb_ge in E.
    unfold c_cryptHeaderSize, c_nonceSize, c_crcSize in *.
    rewrite g_from_ok by (rewrite dec_len; lia).
    assert (Hl : blen (zdrop 16 (k_dec K dgram)) = blen dgram - 16) by (rewrite blen_zdrop; rewrite dec_len; lia).
    rewrite g_from_ok by lia. rewrite g_u32_ok by lia. rewrite zdrop_0.
    destruct (k_crc K (zdrop 4 (zdrop 16 (k_dec K dgram))) =? rd32 (zdrop 16 (k_dec K dgram))); [|reflexivity].
    destruct (blen (zdrop 4 (zdrop 16 (k_dec K dgram))) <? min_pkt); reflexivity.
  - destruct (blen dgram <? k_ns K + k_ov K) eqn:E; [reflexivity|]. apply Z.ltb_ge in E.
    rewrite g_slice_ok by lia. rewrite g_from_ok by lia. rewrite zdrop_0.
    destruct (k_open K (ztake (k_ns K) dgram) (zdrop (k_ns K) dgram)) as [d|]; [|reflexivity].
    destruct (blen d <? min_pkt); reflexivity.
Qed.

Lemma unframe_min c dgram d : unframe K c dgram = Some d -> min_pkt <= blen d.
Proof using Type.
  unfold unframe.
  match goal with |- match ?r with _ => _ end = _ -> _ => destruct r as [x|]; [|discriminate] end.
  destruct (blen x <? min_pkt) eqn:E; [discriminate|]. intros H; inversion H; subst. apply Z.ltb_ge in E. exact E.
Qed.

(* UDPSession.packetInput on ANY datagram: any length, any bytes, any cipher class, decoder
   present or lazily created, any decoder output *)
Theorem packet_input_total c st dgram :
  packet_input_g c st dgram = GOk (packet_input c st dgram).
Proof using dec_len ns_nonneg ov_nonneg.
  unfold Input.packet_input_g, Frame.packet_input. rewrite unframe_total.
  destruct (unframe K c dgram) as [d|] eqn:E; [|reflexivity].
  apply kcp_input_total. eapply unframe_min. exact E.
Qed.

End Total.

(* the listener's routing reads *)
Theorem listener_peek_total data : min_pkt <= blen data -> exists p, listener_peek_g data = GOk p.
Proof.
  intros Hmin. unfold min_pkt, c_IKCP_OVERHEAD, c_fecHeaderSizePlus2, c_convSize in Hmin.
  assert (H12 : 12 <= blen data) by lia. clear Hmin.
  unfold listener_peek_g. rewrite g_u16_ok by lia.
  destruct (_ =? c_typeData).
  - unfold c_fecHeaderSizePlus2, c_IKCP_OVERHEAD, c_IKCP_SN_OFFSET.
    destruct (blen data <? 8 + 24) eqn:E; [eauto|]. apply Z.ltb_ge in E.
    rewrite !g_u32_ok by lia. eauto.
  - destruct (_ =? c_typeParity); [eauto|].
    destruct (_ =? c_typeOOB).
    + unfold c_fecHeaderSizePlus2. rewrite g_u32_ok by lia. eauto.
    + unfold c_IKCP_OVERHEAD, c_IKCP_SN_OFFSET.
      destruct (blen data <? 24) eqn:E; [eauto|]. apply Z.ltb_ge in E.
      rewrite !g_u32_ok by lia. eauto.
Qed.
