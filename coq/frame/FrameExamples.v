(* A concrete toy instantiation of the abstract primitives, used by the Examples of C09.v and
   C19.v to show that the hypotheses of the theorems are satisfiable and the conclusions are
   non-trivial.  (Toy cipher: Encrypt = Decrypt = list reversal; toy AEAD: a one-byte tag;
   toy CRC: byte sum; toy Reed-Solomon: every parity shard is a copy of the first data shard.) *)
From Coq Require Import ZArith List Bool Lia.
From KV.Base Require Import Consts Word WordLemmas.
From KV.Frame Require Import Wire Frame WireProofs FrameProofs FecProofs.
Import ListNotations.
Local Open Scope Z_scope.

Definition toy_crc (b : bytes) : Z := (fold_left Z.add b 0) mod W32.
Definition toyK : crypto :=
  mkCrypto (@rev Z) (@rev Z) 12 1 (fun _ p => p ++ [7]) (fun _ c => Some (removelast c)) toy_crc.
Definition toy_rs (d p : Z) (shards : list bytes) : list bytes := repeat (hd [] shards) (Z.to_nat p).

Lemma toy_dec_enc b : k_dec toyK (k_enc toyK b) = b.
Proof. apply rev_involutive. Qed.
Lemma toy_enc_len b : blen (k_enc toyK b) = blen b.
Proof. unfold blen. cbn. rewrite rev_length. reflexivity. Qed.
Lemma toy_open_seal n p : k_open toyK n (k_seal toyK n p) = Some p.
Proof. cbn. rewrite removelast_last. reflexivity. Qed.
Lemma toy_seal_len n p : blen (k_seal toyK n p) = blen p + k_ov toyK.
Proof. cbn. rewrite blen_app. reflexivity. Qed.
Lemma toy_crc_range b : 0 <= k_crc toyK b < W32.
Proof. cbn. unfold toy_crc, W32. apply Z.mod_pos_bound. lia. Qed.
Lemma toy_rs_count d p shards : length (toy_rs d p shards) = Z.to_nat p.
Proof. apply repeat_length. Qed.

(* ---- segments *)
Definition ex_seg1 : wseg := mkWseg 287454020 81 0 32 1000 7 3 [1; 2; 3].       (* conv 0x11223344, PUSH *)
Definition ex_seg2 : wseg := mkWseg 287454020 82 0 32 999 6 3 [].                (* ACK *)

Lemma ex_seg_roundtrip :
  wseg_ok ex_seg1 /\
  encode_seg ex_seg1 = [68; 51; 34; 17; 81; 0; 32; 0; 232; 3; 0; 0; 7; 0; 0; 0; 3; 0; 0; 0; 3; 0; 0; 0; 1; 2; 3] /\
  parse_one (encode_seg ex_seg1 ++ [9; 9]) = Some (ex_seg1, [9; 9]) /\
  parse_all (encode_segs [ex_seg2; ex_seg1]) = Some [ex_seg2; ex_seg1].
Proof. split; [unfold wseg_ok, is_u32, W32, blen; cbn; lia|]. repeat split; vm_compute; reflexivity. Qed.

(* ---- framing, every cipher class *)
Definition ex_nonce16 : bytes := [1; 2; 3; 4; 5; 6; 7; 8; 9; 10; 11; 12; 13; 14; 15; 16].
Definition ex_nonce16b : bytes := [1; 2; 3; 4; 5; 6; 7; 8; 9; 10; 11; 12; 13; 14; 15; 17].
Definition ex_nonce12 : bytes := [21; 22; 23; 24; 25; 26; 27; 28; 29; 30; 31; 32].
Definition ex_fec : option fecenc := sess_fec_new toyK CCrc 2 1.
Definition ex_kcp : bytes := encode_segs [ex_seg2; ex_seg1].

Lemma ex_spec_decoder :
  (let '(_, body, _) := stage1 toy_rs ex_fec (mkReq ex_kcp false) 0 in
   spec_decode toyK CCrc true (frame toyK CCrc ex_nonce16 body) = Some (SpData (Some (0, 53)) [ex_seg2; ex_seg1])) /\
  (let '(_, body, _) := stage1 toy_rs (sess_fec_new toyK CAead 2 1) (mkReq ex_kcp false) 0 in
   spec_decode toyK CAead true (frame toyK CAead ex_nonce12 body) = Some (SpData (Some (0, 53)) [ex_seg2; ex_seg1])) /\
  (let '(_, body, _) := stage1 toy_rs None (mkReq ex_kcp false) 0 in
   spec_decode toyK CNone false (frame toyK CNone [] body) = Some (SpData None [ex_seg2; ex_seg1])) /\
  (* a flipped payload byte is refused by the CRC *)
  spec_decode toyK CCrc false (rev (ex_nonce16 ++ le32 (toy_crc ex_kcp) ++ (0 :: tl ex_kcp))) = None.
Proof. repeat split; vm_compute; reflexivity. Qed.

(* ---- the encoder: 2 data + 1 parity; third group's parity skipped (600 ms gap) *)
Definition ex_ins : list (bytes * Z) :=
  [([10; 11; 12], 0); ([20], 5); ([30; 31], 10); ([40; 41; 42; 43], 700); ([50], 705); ([60], 710)].

Definition hdr_summary (pkt : bytes) : Z * Z := (seqid_of pkt, type_of pkt).

Lemma ex_fec_ids :
  match fec_new 2 1 0 with
  | None => False
  | Some e0 =>
    map (fun o => (hdr_summary (fst o), map hdr_summary (snd o))) (snd (fec_run toy_rs e0 ex_ins)) =
      [((0, 241), []); ((1, 241), [(2, 242)]);
       ((3, 241), []); ((4, 241), []);               (* parity id 5 skipped: 700 - 10 >= 500 *)
       ((6, 241), []); ((7, 241), [(8, 242)])] /\
    fe_paws e0 = 4294967295 /\
    (* the parity of the first group: toy_rs of the zero-padded size-prefixed payloads *)
    map (skipn 6) (snd (nth 1 (snd (fec_run toy_rs e0 ex_ins)) ([], []))) =
      toy_rs 2 1 [[5; 0; 10; 11; 12]; [3; 0; 20; 0; 0]] /\
    (* an OOB packet in between: id 0xffffffff, type 0xF3, encoder untouched *)
    (let '(e1, pkt) := encode_oob e0 [1; 2] in e1 = e0 /\ hdr_summary pkt = (4294967295, 243))
  end.
Proof. vm_compute. repeat split; reflexivity. Qed.

(* ---- distinct nonces, distinct datagrams: the same request three times (retransmission) *)
Definition ex_reqs : list (req * Z * Z) := [(mkReq ex_kcp false, 0, 1400); (mkReq ex_kcp false, 1, 1400); (mkReq [0;0;0;1;9] true, 2, 1400)].
Definition ex_nonces : list bytes := [ex_nonce16; ex_nonce16b; rev ex_nonce16; rev ex_nonce16b; ex_nonce16 ++ []].

Lemma ex_distinct_hyps :
  uses_nonce CCrc = true /\
  Forall (fun n => blen n = nonce_len toyK CCrc) (firstn 4 ex_nonces) /\
  NoDup (firstn 4 ex_nonces) /\
  (length (run_bodies (snd (stage1w_run toy_rs (aead_extra toyK CCrc) ex_fec ex_reqs))) <= length (firstn 4 ex_nonces))%nat /\
  length (snd (pp_run toy_rs toyK CCrc ex_fec ex_reqs (firstn 4 ex_nonces))) = 4%nat.
Proof.
  split; [reflexivity|]. split; [repeat constructor|]. split.
  - cbn [firstn ex_nonces]. repeat constructor; cbn; intuition discriminate.
  - split; vm_compute; [repeat constructor|reflexivity].
Qed.

(* ---- the orbit lemma's hypotheses: a bijection whose orbit closes after 2 steps *)
Lemma ex_orbit : (forall x y, negb x = negb y -> x = y) /\ Nat.iter 1 negb true = Nat.iter 3 negb true /\ Nat.iter (3 - 1) negb true = true.
Proof. split; [intros [] []; cbn; congruence|split; reflexivity]. Qed.

(* ---- C19 *)
Definition ex_core_input (log : list (bytes * Z)) (b : bytes) (ty : Z) := log ++ [(b, ty)].
Definition ex_dec_decode (log : list bytes) (b : bytes) : list bytes * list bytes := (log ++ [b], []).
Definition ex_rx : rxstate (list (bytes * Z)) (list bytes) := mkRx _ _ [([1], 0)] (Some [[2]]) true.
Definition ex_pi := packet_input toyK _ _ ex_core_input (fun _ _ => []) ex_dec_decode.

Lemma ex_oob_roundtrip :
  match send_oob ex_fec 21 287454020 [7; 8; 9] false with
  | OobQueued r =>
    let '(fe1, body, ps) := stage1 toy_rs ex_fec r 0 in
    fe1 = ex_fec /\ ps = [] /\
    ex_pi CCrc ex_rx (frame toyK CCrc ex_nonce16 body) = (ex_rx, [EvOOB [7; 8; 9]]) /\
    ex_pi CAead ex_rx (frame toyK CAead ex_nonce12 body) = (ex_rx, [EvOOB [7; 8; 9]]) /\
    (* empty payload *)
    (match send_oob ex_fec 21 287454020 [] false with
     | OobQueued r0 => let '(_, b0, _) := stage1 toy_rs ex_fec r0 0 in
                       ex_pi CCrc ex_rx (frame toyK CCrc ex_nonce16 b0) = (ex_rx, [EvOOB []])
     | _ => False end) /\
    (* a data packet does reach core and decoder *)
    (let '(_, b1, _) := stage1 toy_rs ex_fec (mkReq ex_kcp false) 0 in
     fst (ex_pi CCrc ex_rx (frame toyK CCrc ex_nonce16 b1)) <> ex_rx)
  | _ => False
  end.
Proof. vm_compute. repeat split; try reflexivity. discriminate. Qed.

Lemma ex_oob_limits :
  oob_max_size ex_fec 21 = 17 /\
  (exists r, send_oob ex_fec 21 1 (repeat 0 17) false = OobQueued r) /\
  send_oob ex_fec 21 1 (repeat 0 18) false = OobErrTooLarge /\
  send_oob None 21 1 [] false = OobErrNoFec /\ oob_max_size None 21 = 0 /\
  send_oob ex_fec 21 1 [] true = OobDropped.
Proof. vm_compute. repeat split; try reflexivity. eexists; reflexivity. Qed.

Definition ex_mixed : list (req * Z) :=
  [(mkReq [1; 1; 1] false, 0); (mkReq [0; 0; 0; 9; 5] true, 1); (mkReq [2; 2] false, 2); (mkReq [0; 0; 0; 9] true, 3);
   (mkReq [3] false, 4); (mkReq [0; 0; 0; 9; 6; 6] true, 5); (mkReq [4; 4; 4; 4] false, 6)].

Lemma ex_no_disturb_tx :
  length (filter is_data ex_mixed) = 4%nat /\
  filter is_data_out (snd (stage1_run toy_rs ex_fec ex_mixed)) = snd (stage1_run toy_rs ex_fec (filter is_data ex_mixed)) /\
  fst (stage1_run toy_rs ex_fec ex_mixed) = fst (stage1_run toy_rs ex_fec (filter is_data ex_mixed)) /\
  (* two parity packets were produced along the way *)
  length (concat (map snd (snd (stage1_run toy_rs ex_fec ex_mixed)))) = 2%nat.
Proof. vm_compute. repeat split; reflexivity. Qed.

(* ---- C10, session half *)
Lemma ex_setmtu :
  sess_set_mtu toyK CCrc ex_fec 1400 = Some 1372 /\
  sess_set_mtu toyK CCrc ex_fec 2000 = Some 1472 /\          (* capped at 1500 *)
  sess_set_mtu toyK CCrc ex_fec 53 = Some 25 /\ sess_set_mtu toyK CCrc ex_fec 52 = None /\
  sess_set_mtu toyK CAead (sess_fec_new toyK CAead 2 1) 1500 = Some 1479 /\
  sess_set_mtu toyK CNone None 25 = Some 25 /\ sess_set_mtu toyK CNone None 24 = None /\
  sess_set_mtu toyK CCrc ex_fec (-1) = None /\
  (* a full-sized core datagram of the accepted MTU comes out at exactly the MTU *)
  (let '(_, body, _) := stage1 toy_rs ex_fec (mkReq (repeat 7 25) false) 0 in
   blen (frame toyK CCrc ex_nonce16 body) = 53).
Proof. vm_compute. repeat split; reflexivity. Qed.

(* the repaired postProcess: a 2/1 group whose first packet is long, wire MTU lowered to 40 before
   the second: the encoder produces a parity as long as the first packet, postProcess does not
   send it; with the old MTU (1400) it is sent; the encoder ends in the same state either way *)
Definition ex_big : req := mkReq (repeat 9 60) false.
Definition ex_small : req := mkReq [1; 2; 3] false.
Lemma ex_parity_drop :
  let fe1 := fst (fst (stage1w toy_rs 1400 0 ex_fec ex_big 0)) in
  let '(feA, _, psA) := stage1w toy_rs 40 0 fe1 ex_small 1 in
  let '(feB, _, psB) := stage1w toy_rs 1400 0 fe1 ex_small 1 in
  psA = [] /\ map (fun q => blen q) psB = [68] /\ feA = feB /\
  option_map fe_next feA = Some 3 /\
  match ex_fec with Some e => fe_hoff e = cipher_hdr toyK CCrc | None => False end.
Proof. vm_compute. repeat split; reflexivity. Qed.

(* ---- C05, session part.  The guards are necessary as well as sufficient: the same loop with the
   lower bound of `int(sz) <= len(r) && sz >= 2` removed reaches the slice fault on a recovered
   shard whose size field is 0 - e.g. the "recovery" a lazily created 1+1 decoder performs on one
   forged 12-byte parity datagram. *)
From KV.Frame Require Import Input InputProofs.

Definition feed_recovered_weak (core : list (bytes * Z)) (r : bytes) : gres (list (bytes * Z)) :=
  if 2 <=? blen r then
    match g_u16 0 r with
    | None => GPanic S_recsize
    | Some sz =>
      if sz <=? blen r then
        match g_slice 2 sz r with
        | None => GPanic S_recslice
        | Some x => GOk (ex_core_input core x c_IKCP_PACKET_FEC)
        end
      else GOk core
    end
  else GOk core.

Definition ex_forged_parity : bytes := [1; 0; 0; 0; 242; 0; 0; 0; 9; 9; 9; 9].   (* seqid 1, 0x00f2, size bytes 00 00 *)
Definition ex_dec_copy (log : list bytes) (b : bytes) : list bytes * list bytes := (log ++ [b], [skipn 6 b]).
Definition ex_rx_nofec : rxstate (list (bytes * Z)) (list bytes) := mkRx _ _ [] None true.

Lemma ex_input_total :
  (* the real guards: the shard with size field 0 is ignored *)
  feed_recovered_g _ ex_core_input [] (skipn 6 ex_forged_parity) = GOk [] /\
  (* without the lower bound: the fault of r[2:0] *)
  feed_recovered_weak [] (skipn 6 ex_forged_parity) = GPanic S_recslice /\
  (* the whole demultiplexer on that datagram, session without FEC (lazy 1+1 decoder, which "recovers" a copy) *)
  kcp_input_g _ _ ex_core_input (fun _ _ => []) ex_dec_copy ex_rx_nofec ex_forged_parity =
    GOk (mkRx _ _ [] (Some [ex_forged_parity]) true, []) /\
  (* a recovered shard with a sane size field does reach the core, stripped of the size prefix *)
  feed_recovered_g _ ex_core_input [] [5; 0; 7; 8; 9; 0; 0] = GOk [([7; 8; 9], c_IKCP_PACKET_FEC)] /\
  (* size field larger than the shard, size field 1, one-byte shard, empty shard: ignored *)
  map (feed_recovered_g _ ex_core_input []) [[9; 0; 1]; [1; 0; 1]; [3]; []] = [GOk []; GOk []; GOk []; GOk []] /\
  (* listener peek: a 12-byte parity packet has no readable conv, a 12-byte OOB packet has *)
  listener_peek_g ex_forged_parity = GOk PkNoConv /\
  listener_peek_g [1; 0; 0; 0; 243; 0; 6; 0; 68; 51; 34; 17] = GOk (PkConv 287454020 0) /\
  (* a read the guards do not cover would fault: the model can tell *)
  g_u16 4 [1; 2; 3; 4; 5] = None.
Proof. vm_compute. repeat split; reflexivity. Qed.
