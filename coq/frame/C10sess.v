(* C10, session half - no datagram handed to the PacketConn exceeds the session's configured MTU,
   counting cipher, FEC and AEAD overhead and including parity and out-of-band packets; which
   values UDPSession.SetMtu accepts.  Statements only; every proof is `exact <lemma>`.
   The core half (|core datagram| <= core mtu, never empty, SetMtu at any point of a history)
   is the ARQ core engine's C10.v; its bound is the premise `blen kcp <= m` here. *)
From Coq Require Import ZArith List Bool.
From KV.Base Require Import Consts Word.
From KV.Frame Require Import Wire Frame WireProofs FrameProofs FecProofs SizeProofs FrameExamples.
Import ListNotations.
Local Open Scope Z_scope.

(* UDPSession.SetMtu(mtu) hands the core  m = min(mtu, 1500) - headerSize - AEAD overhead  and is
   accepted iff the core accepts m; statically that is 24 < m (m <= 1500 always holds).  An accepted
   m satisfies m + headerSize + overhead = min(mtu, 1500).  (The core additionally refuses an m
   that a queued or in-flight segment cannot honour: c10_setmtu of the core engine.) *)
Theorem c10_setmtu_session :
  forall (K : crypto) (c : cipher) (fe : option fecenc) (mtu : Z),
    0 <= k_ns K -> 0 <= k_ov K ->
    let m := Z.min c_mtuLimit mtu - header_size K c fe - aead_extra K c in
    (c_IKCP_OVERHEAD < m -> sess_set_mtu K c fe mtu = Some m) /\
    (m <= c_IKCP_OVERHEAD -> sess_set_mtu K c fe mtu = None) /\
    (forall m', sess_set_mtu K c fe mtu = Some m' ->
       m' = m /\ c_IKCP_OVERHEAD < m' <= c_mtuLimit /\
       m' + header_size K c fe + aead_extra K c = Z.min c_mtuLimit mtu /\
       Z.min c_mtuLimit mtu <= c_mtuLimit).
Proof. exact setmtu_session. Qed.
Print Assumptions c10_setmtu_session.

(* |frame ...| = |core datagram| + headerSize (+ AEAD overhead) <= min(mtu, 1500), given the core bound *)
Theorem c10_session_size :
  forall (rs_encode : Z -> Z -> list bytes -> list bytes) (K : crypto),
    (forall b, blen (k_enc K b) = blen b) ->
    (forall n p, blen (k_seal K n p) = blen p + k_ov K) ->
    forall (c : cipher) (fe : option fecenc) (mtu m : Z) (nonce kcp : bytes) (now : Z),
      0 <= k_ns K -> 0 <= k_ov K ->
      sess_set_mtu K c fe mtu = Some m ->
      blen nonce = nonce_len K c ->
      blen kcp <= m ->
      let '(_, body, _) := stage1 rs_encode fe (mkReq kcp false) now in
      blen (frame K c nonce body) = blen kcp + header_size K c fe + aead_extra K c /\
      blen (frame K c nonce body) <= Z.min c_mtuLimit mtu /\
      blen (frame K c nonce body) <= c_mtuLimit.
Proof. exact session_size. Qed.
Print Assumptions c10_session_size.

(* out-of-band: whatever SendOOB accepts (4 + |data| <= core mtu) leaves within the MTU *)
Theorem c10_session_size_oob :
  forall (rs_encode : Z -> Z -> list bytes -> list bytes) (K : crypto),
    (forall b, blen (k_enc K b) = blen b) ->
    (forall n p, blen (k_seal K n p) = blen p + k_ov K) ->
    forall (c : cipher) (e : fecenc) (mtu m : Z) (nonce : bytes) (conv : Z) (data : bytes) (now : Z) (r : req),
      0 <= k_ns K -> 0 <= k_ov K ->
      sess_set_mtu K c (Some e) mtu = Some m ->
      blen nonce = nonce_len K c ->
      send_oob (Some e) m conv data false = OobQueued r ->
      let '(_, body, _) := stage1 rs_encode (Some e) r now in
      blen (frame K c nonce body) = c_convSize + blen data + header_size K c (Some e) + aead_extra K c /\
      blen (frame K c nonce body) <= Z.min c_mtuLimit mtu.
Proof. exact session_size_oob. Qed.
Print Assumptions c10_session_size_oob.

(* parity, UNCONDITIONAL (repair ce5cd67): once an MTU has been accepted (wire > 0), every parity
   datagram postProcess emits is at most that long, whatever the history of its group - a parity
   that no longer fits is not sent (its ids stay consumed: c09_parity_ids_consumed). *)
Theorem c10_parity_size :
  forall (rs_encode : Z -> Z -> list bytes -> list bytes) (K : crypto),
    (forall b, blen (k_enc K b) = blen b) ->
    (forall n p, blen (k_seal K n p) = blen p + k_ov K) ->
    (forall d p shards a b, In a (rs_encode d p shards) -> In b (rs_encode d p shards) -> blen a = blen b) ->
    forall (c : cipher) (e : fecenc) (wire : Z) (r : req) (now : Z) (nonce : bytes),
      0 < wire ->
      fe_hoff e = cipher_hdr K c ->
      blen nonce = nonce_len K c ->
      let '(_, _, ps) := stage1w rs_encode wire (aead_extra K c) (Some e) r now in
      forall par, In par ps -> blen (frame K c nonce par) <= wire.
Proof. exact parity_size_emitted. Qed.
Print Assumptions c10_parity_size.

(* the wire MTU the drop compares with: stored by SetMtu exactly when the core accepts, equal to
   core mtu + headerSize + AEAD overhead = min(mtu, 1500); before any acceptance nothing is dropped *)
Theorem c10_wire_mtu :
  forall (rs_encode : Z -> Z -> list bytes -> list bytes) (K : crypto),
    (forall (c : cipher) (fe : option fecenc) (mtu old : Z),
       0 <= k_ns K -> 0 <= k_ov K ->
       (forall m, sess_set_mtu K c fe mtu = Some m ->
          sess_wire_mtu K c fe mtu old = m + header_size K c fe + aead_extra K c /\
          c_IKCP_OVERHEAD < sess_wire_mtu K c fe mtu old <= c_mtuLimit) /\
       (sess_set_mtu K c fe mtu = None -> sess_wire_mtu K c fe mtu old = old)) /\
    (forall (ov : Z) (fe : option fecenc) (r : req) (now : Z),
       stage1w rs_encode 0 ov fe r now = stage1 rs_encode fe r now).
Proof. exact (fun rs K => conj (wire_mtu_stored K) (no_drop_without_mtu rs)). Qed.
Print Assumptions c10_wire_mtu.

(* what the encoder produces (before the drop): FEC header + the longest size-prefixed payload of
   the group *)
Theorem c10_parity_length :
  forall (rs_encode : Z -> Z -> list bytes -> list bytes),
    (forall d p shards, length (rs_encode d p shards) = Z.to_nat p) ->
    (forall d p shards n, Forall (fun s => blen s = n) shards ->
                          Forall (fun s => blen s = n) (rs_encode d p shards)) ->
    forall (d p off : Z) (e0 : fecenc) (pre grp : list (bytes * Z)) (n : nat),
      fec_new d p off = Some e0 -> 0 <= off ->
      length pre = (n * Z.to_nat d)%nat -> Z.of_nat (length grp) = d ->
      let outs := snd (fec_run rs_encode e0 (pre ++ grp)) in
      let ps := snd (last outs ([], [])) in
      let imgs := map size_prefixed (map fst grp) in
      forall par, In par ps ->
        blen par = c_fecHeaderSize + max_len imgs /\
        (forall m, 0 <= m -> Forall (fun x => blen (fst x) <= m) grp ->
           blen par <= c_fecHeaderSizePlus2 + m).
Proof. exact parity_size. Qed.
Print Assumptions c10_parity_length.

Example c10_parity_drop_example :
  let fe1 := fst (fst (stage1w toy_rs 1400 0 ex_fec ex_big 0)) in
  let '(feA, _, psA) := stage1w toy_rs 40 0 fe1 ex_small 1 in
  let '(feB, _, psB) := stage1w toy_rs 1400 0 fe1 ex_small 1 in
  psA = [] /\ map (fun q => blen q) psB = [68] /\ feA = feB /\
  option_map fe_next feA = Some 3 /\
  match ex_fec with Some e => fe_hoff e = cipher_hdr toyK CCrc | None => False end.
Proof. exact ex_parity_drop. Qed.

Example c10_setmtu_example :
  sess_set_mtu toyK CCrc ex_fec 1400 = Some 1372 /\
  sess_set_mtu toyK CCrc ex_fec 2000 = Some 1472 /\
  sess_set_mtu toyK CCrc ex_fec 53 = Some 25 /\ sess_set_mtu toyK CCrc ex_fec 52 = None /\
  sess_set_mtu toyK CAead (sess_fec_new toyK CAead 2 1) 1500 = Some 1479 /\
  sess_set_mtu toyK CNone None 25 = Some 25 /\ sess_set_mtu toyK CNone None 24 = None /\
  sess_set_mtu toyK CCrc ex_fec (-1) = None /\
  (let '(_, body, _) := stage1 toy_rs ex_fec (mkReq (repeat 7 25) false) 0 in
   blen (frame toyK CCrc ex_nonce16 body) = 53).
Proof. exact ex_setmtu. Qed.
