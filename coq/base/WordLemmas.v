From Coq Require Import ZArith List Lia Bool.
From KV.Base Require Import Word.
Import ListNotations.
Local Open Scope Z_scope.

Ltac Zify.zify_post_hook ::= Z.div_mod_to_equations.

Lemma u32_range x : 0 <= u32 x < W32.
Proof. unfold u32, W32. apply Z.mod_pos_bound. lia. Qed.

Lemma u32_id x : 0 <= x < W32 -> u32 x = x.
Proof. unfold u32, W32. intros. apply Z.mod_small. lia. Qed.

Lemma i32_range x : - H32 <= i32 x < H32.
Proof. unfold i32, W32, H32. lia. Qed.

Lemma i32_id x : - H32 <= x < H32 -> i32 x = x.
Proof. unfold i32, W32, H32. lia. Qed.

Lemma u32_add_mod a b : u32 (u32 a + b) = u32 (a + b).
Proof. unfold u32, W32. rewrite Zplus_mod_idemp_l. reflexivity. Qed.

Lemma u32_add_mod_r a b : u32 (a + u32 b) = u32 (a + b).
Proof. unfold u32, W32. rewrite Zplus_mod_idemp_r. reflexivity. Qed.

Lemma u32_sub_mod_l a b : u32 (u32 a - b) = u32 (a - b).
Proof. unfold u32, W32. rewrite Zminus_mod_idemp_l. reflexivity. Qed.

Lemma u32_sub_mod_r a b : u32 (a - u32 b) = u32 (a - b).
Proof. unfold u32, W32. rewrite Zminus_mod_idemp_r. reflexivity. Qed.

Lemma i32_u32 x : i32 (u32 x) = i32 x.
Proof. unfold i32, u32, W32, H32. lia. Qed.

(* shift invariance: the heart of C12 *)
Lemma itimediff_shift a b k : itimediff (u32 (a + k)) (u32 (b + k)) = itimediff a b.
Proof. unfold itimediff, i32, u32, W32, H32. lia. Qed.

Lemma itimediff_u32_l a b : itimediff (u32 a) b = itimediff a b.
Proof. unfold itimediff, i32, u32, W32, H32. lia. Qed.

Lemma itimediff_u32_r a b : itimediff a (u32 b) = itimediff a b.
Proof. unfold itimediff, i32, u32, W32, H32. lia. Qed.

Lemma itimediff_self a : itimediff a a = 0.
Proof. unfold itimediff, i32, W32, H32. replace (a - a) with 0 by lia. reflexivity. Qed.

(* indices: numbers isn+i, isn+j with |i-j| < 2^31 compare like their indices *)
Lemma itimediff_index isn i j :
  - H32 <= i - j < H32 -> itimediff (u32 (isn + i)) (u32 (isn + j)) = i - j.
Proof. unfold itimediff, i32, u32, W32, H32. lia. Qed.

Lemma u32_inj_index isn i j :
  - H32 <= i - j < H32 -> u32 (isn + i) = u32 (isn + j) -> i = j.
Proof. unfold u32, W32, H32. lia. Qed.

Lemma itimediff_range a b : - H32 <= itimediff a b < H32.
Proof. apply i32_range. Qed.

Lemma rd32_le32 x r : 0 <= x < W32 -> rd32 (le32 x ++ r) = x.
Proof. unfold rd32, le32, W32; cbn [app]. lia. Qed.

Lemma rd16_le16 x r : 0 <= x < 65536 -> rd16 (le16 x ++ r) = x.
Proof. unfold rd16, le16; cbn [app]. lia. Qed.

Lemma le32_bytes x : bytes_ok (le32 x).
Proof. unfold bytes_ok, le32, is_byte. repeat constructor; lia. Qed.

Lemma le16_bytes x : bytes_ok (le16 x).
Proof. unfold bytes_ok, le16, is_byte. repeat constructor; lia. Qed.

Lemma le32_length x : length (le32 x) = 4%nat.
Proof. reflexivity. Qed.
