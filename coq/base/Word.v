(* Machine integers of the Go code, as Z with the wrap written out. *)
From Coq Require Import ZArith List Lia Bool.
Import ListNotations.
Local Open Scope Z_scope.

Definition W32 : Z := 4294967296.      (* 2^32 *)
Definition H32 : Z := 2147483648.      (* 2^31 *)
Definition u32 (x : Z) : Z := x mod W32.
Definition i32 (x : Z) : Z := (x + H32) mod W32 - H32.
Definition u16 (x : Z) : Z := x mod 65536.
Definition u8 (x : Z) : Z := x mod 256.
(* _itimediff(later, earlier) = int32(later - earlier) *)
Definition itimediff (later earlier : Z) : Z := i32 (later - earlier).

Definition is_u32 (x : Z) : Prop := 0 <= x < W32.
Definition is_u32b (x : Z) : bool := (0 <=? x) && (x <? W32).

(* Arithmetic shift right on int32 = floor division *)
Definition asr (x : Z) (k : Z) : Z := x / 2 ^ k.

(* Bytes: Z in [0,256). Little endian encodings. *)
Definition le16 (x : Z) : list Z := [x mod 256; (x / 256) mod 256].
Definition le32 (x : Z) : list Z :=
  [x mod 256; (x / 256) mod 256; (x / 65536) mod 256; (x / 16777216) mod 256].
Definition rd16 (l : list Z) : Z :=
  match l with a :: b :: _ => a + 256 * b | _ => 0 end.
Definition rd32 (l : list Z) : Z :=
  match l with a :: b :: c :: d :: _ => a + 256 * b + 65536 * c + 16777216 * d | _ => 0 end.

Definition is_byte (b : Z) : Prop := 0 <= b < 256.
Definition bytes_ok (l : list Z) : Prop := Forall is_byte l.
