(* CRC-32/IEEE (hash/crc32.ChecksumIEEE) as the bitwise reflected LFSR.  Model file: definitions
   only, all executable.

   Reflected convention: a 32-bit register r is a Z in [0, 2^32); bit k of r (Z.testbit r k) is
   the coefficient of x^(31-k); message bytes are consumed least-significant bit first.
   POLY = 0xEDB88320 is the IEEE generator x^32+x^26+...+x+1 without its x^32 term, reflected
   (bit 31 of POLY is the constant term 1).  The constant belongs to Go's hash/crc32 (crc32.IEEE),
   not to /repo, hence it is written here and compared with hash/crc32 by the harness. *)
From Coq Require Import ZArith List Bool.
Import ListNotations.
Local Open Scope Z_scope.

Definition POLY : Z := 3988292384.       (* 0xEDB88320 *)
Definition MASK32 : Z := 4294967295.     (* 0xFFFFFFFF: initial value and final xor *)
Definition TOP : Z := 2147483648.        (* 2^31: the x^0 coefficient in the reflected register *)

(* One LFSR clock with a zero input bit = multiplication by x modulo the generator. *)
Definition crc_shift (r : Z) : Z :=
  if Z.odd r then Z.lxor (Z.div2 r) POLY else Z.div2 r.

(* The inverse clock (used only in statements: crc_shift is a bijection on 32-bit states). *)
Definition crc_unshift (r : Z) : Z :=
  if Z.testbit r 31 then 2 * Z.lxor r POLY + 1 else 2 * r.

(* n clocks with zero input. *)
Fixpoint clock (n : nat) (r : Z) : Z :=
  match n with O => r | S k => crc_shift (clock k r) end.

(* Byte-level function (what the model and the OCaml driver execute): xor the byte into the
   low end, clock eight times. *)
Definition crc_byte (r b : Z) : Z := clock 8 (Z.lxor r b).
Definition crc_update (r : Z) (m : list Z) : Z := fold_left crc_byte m r.
Definition crc32 (m : list Z) : Z := Z.lxor (crc_update MASK32 m) MASK32.

(* Bit-level LFSR of DESIGN D.3, front-xor form (register' = shift (register xor input bit)),
   i.e. the message polynomial is implicitly multiplied by x^32. *)
Definition lfsr_step (r : Z) (b : bool) : Z := crc_shift (Z.lxor r (Z.b2z b)).
Definition lfsr (r : Z) (bits : list bool) : Z := fold_left lfsr_step bits r.

(* The pure (non-augmented) LFSR: the input bit enters as the x^0 coefficient. *)
Definition nlfsr_step (r : Z) (b : bool) : Z := Z.lxor (crc_shift r) (if b then TOP else 0).
Definition nlfsr (r : Z) (bits : list bool) : Z := fold_left nlfsr_step bits r.

(* Bits of a message in the order the CRC consumes them. *)
Definition byte_bits (b : Z) : list bool := map (Z.testbit b) [0; 1; 2; 3; 4; 5; 6; 7].
Definition bits_of (m : list Z) : list bool := flat_map byte_bits m.

(* Bit p (in CRC order: 8 * byte index + bit index, least significant bit of a byte first). *)
Definition bit_at (m : list Z) (p : nat) : bool :=
  Z.testbit (nth (p / 8) m 0) (Z.of_nat (p mod 8)).

(* Bytewise xor of two byte strings (error pattern applied to a message). *)
Fixpoint xor_bytes (a b : list Z) : list Z :=
  match a, b with
  | x :: a', y :: b' => Z.lxor x y :: xor_bytes a' b'
  | _, _ => []
  end.

Definition is_reg (r : Z) : Prop := 0 <= r < 4294967296.
