(* Proofs about Crc.v: GF(2)-linearity, the zero-clock bijection, byte-level = bit-level,
   and the burst theorem (DESIGN D.3). *)
From Coq Require Import ZArith List Bool Lia Arith.
From KV.Base Require Import Word WordLemmas.
From KV.Gate Require Import Crc.
Import ListNotations.
Local Open Scope Z_scope.
Ltac Zify.zify_post_hook ::= Z.div_mod_to_equations.

(* ------------------------------------------------------------------ bit-level helpers *)

Ltac bitwise :=
  apply Z.bits_inj'; intros ?n ?Hn;
  repeat rewrite ?Z.lxor_spec, ?Z.bits_0;
  repeat match goal with |- context [Z.testbit ?a ?n] =>
    is_var a; destruct (Z.testbit a n) end; reflexivity.

Lemma lxor_swap4 a b c d :
  Z.lxor (Z.lxor a b) (Z.lxor c d) = Z.lxor (Z.lxor a c) (Z.lxor b d).
Proof. bitwise. Qed.

Lemma lxor_cancel_r a b : Z.lxor (Z.lxor a b) b = a.
Proof. bitwise. Qed.

Lemma lxor_affine a b c : Z.lxor (Z.lxor (Z.lxor a b) c) (Z.lxor a c) = b.
Proof. bitwise. Qed.

Lemma small_of_high_bits_clear x k :
  0 <= x -> 0 <= k -> (forall n, k <= n -> Z.testbit x n = false) -> x < 2 ^ k.
Proof.
  intros Hx Hk Hb.
  destruct (Z.lt_ge_cases x (2 ^ k)) as [|Hge]; [assumption|exfalso].
  assert (0 < x) by (pose proof (Z.pow_pos_nonneg 2 k); lia).
  assert (k <= Z.log2 x) by (apply Z.log2_le_pow2; lia).
  pose proof (Z.bit_log2 x ltac:(lia)) as Hbit.
  rewrite Hb in Hbit by lia. discriminate.
Qed.

Lemma high_bits_clear_of_small x k n :
  0 <= x < 2 ^ k -> k <= n -> Z.testbit x n = false.
Proof.
  intros [Hx Hlt] Hn.
  destruct (Z.eq_dec x 0) as [->|]; [apply Z.bits_0|].
  apply Z.bits_above_log2; [lia|].
  assert (Z.log2 x < k); [|lia].
  apply Z.log2_lt_pow2; lia.
Qed.

Lemma lxor_range k a b :
  0 <= k -> 0 <= a < 2 ^ k -> 0 <= b < 2 ^ k -> 0 <= Z.lxor a b < 2 ^ k.
Proof.
  intros Hk Ha Hb. split.
  - apply Z.lxor_nonneg; lia.
  - apply small_of_high_bits_clear; [apply Z.lxor_nonneg; lia | lia |].
    intros n Hn. rewrite Z.lxor_spec.
    rewrite (high_bits_clear_of_small a k n), (high_bits_clear_of_small b k n); auto.
Qed.

Lemma div2_range r : is_reg r -> 0 <= Z.div2 r < 2147483648.
Proof. unfold is_reg. intros. rewrite Z.div2_div. split; [apply Z.div_pos; lia|apply Z.div_lt_upper_bound; lia]. Qed.

Lemma poly_reg : is_reg POLY. Proof. unfold is_reg, POLY; lia. Qed.

Lemma is_reg_pow r : is_reg r <-> 0 <= r < 2 ^ 32.
Proof. unfold is_reg. change (2 ^ 32) with 4294967296. tauto. Qed.

Lemma lxor_reg a b : is_reg a -> is_reg b -> is_reg (Z.lxor a b).
Proof. rewrite !is_reg_pow. intros. apply lxor_range; lia. Qed.

(* ------------------------------------------------------------------ the zero clock *)

(* (1) GF(2)-linearity of one clock; holds for every Z. *)
Lemma crc_shift_lxor a b : crc_shift (Z.lxor a b) = Z.lxor (crc_shift a) (crc_shift b).
Proof.
  unfold crc_shift.
  rewrite <- !Z.bit0_odd, Z.lxor_spec, !Z.div2_spec, Z.shiftr_lxor.
  destruct (Z.testbit a 0), (Z.testbit b 0); cbn [xorb];
    generalize (Z.shiftr a 1) (Z.shiftr b 1) POLY; intros x y p; bitwise.
Qed.

Lemma crc_shift_0 : crc_shift 0 = 0. Proof. reflexivity. Qed.

Lemma crc_shift_reg r : is_reg r -> is_reg (crc_shift r).
Proof.
  intros Hr. unfold crc_shift. pose proof (div2_range r Hr) as Hd.
  destruct (Z.odd r).
  - apply lxor_reg; [unfold is_reg; lia | apply poly_reg].
  - unfold is_reg; lia.
Qed.

Lemma div2_bit31 r : is_reg r -> Z.testbit (Z.div2 r) 31 = false.
Proof.
  intros Hr. apply (high_bits_clear_of_small _ 31); [|lia].
  change (2 ^ 31) with 2147483648. apply div2_range, Hr.
Qed.

Lemma poly_bit31 : Z.testbit POLY 31 = true. Proof. reflexivity. Qed.

(* (3) the zero clock is a bijection on 32-bit states: explicit two-sided inverse.  This is where
   the constant term 1 of the generator (bit 31 of POLY) is used. *)
Lemma crc_unshift_shift r : is_reg r -> crc_unshift (crc_shift r) = r.
Proof.
  intros Hr. unfold crc_shift, crc_unshift.
  pose proof (Z.div2_odd r) as Hdo.
  destruct (Z.odd r) eqn:Ho; cbn [Z.b2z] in Hdo.
  - rewrite Z.lxor_spec, (div2_bit31 r Hr), poly_bit31. cbn [xorb].
    rewrite lxor_cancel_r. lia.
  - rewrite (div2_bit31 r Hr). lia.
Qed.

Lemma crc_shift_unshift r : crc_shift (crc_unshift r) = r.
Proof.
  unfold crc_shift, crc_unshift.
  destruct (Z.testbit r 31).
  - rewrite (Z.add_comm (2 * Z.lxor r POLY) 1), Z.odd_add_mul_2. cbn [Z.odd].
    rewrite (Z.add_comm 1 (2 * Z.lxor r POLY)).
    replace (Z.div2 (2 * Z.lxor r POLY + 1)) with (Z.lxor r POLY)
      by (rewrite Z.div2_div; generalize (Z.lxor r POLY); intros; lia).
    apply lxor_cancel_r.
  - rewrite Z.odd_mul, andb_false_l.
    rewrite Z.div2_div, Z.mul_comm, Z.div_mul; lia.
Qed.

Lemma crc_unshift_reg r : is_reg r -> is_reg (crc_unshift r).
Proof.
  intros Hr. unfold crc_unshift. destruct (Z.testbit r 31) eqn:Hb.
  - assert (0 <= Z.lxor r POLY < 2 ^ 31) as Hx.
    { split; [apply Z.lxor_nonneg; unfold is_reg, POLY in *; lia|].
      apply small_of_high_bits_clear; [apply Z.lxor_nonneg; unfold is_reg, POLY in *; lia|lia|].
      intros n Hn. rewrite Z.lxor_spec.
      destruct (Z.eq_dec n 31) as [->|Hne].
      - rewrite Hb, poly_bit31. reflexivity.
      - rewrite (high_bits_clear_of_small r 32 n) by (try apply is_reg_pow; auto; lia).
        rewrite (high_bits_clear_of_small POLY 32 n) by (try apply is_reg_pow; try apply poly_reg; lia).
        reflexivity. }
    change (2 ^ 31) with 2147483648 in Hx. unfold is_reg. lia.
  - assert (r < 2 ^ 31) as Hx.
    { apply small_of_high_bits_clear; [unfold is_reg in Hr; lia|lia|].
      intros n Hn. destruct (Z.eq_dec n 31) as [->|Hne]; [assumption|].
      apply (high_bits_clear_of_small r 32 n); [apply is_reg_pow, Hr|lia]. }
    change (2 ^ 31) with 2147483648 in Hx. unfold is_reg in *. lia.
Qed.

Lemma crc_shift_inj a b : is_reg a -> is_reg b -> crc_shift a = crc_shift b -> a = b.
Proof.
  intros Ha Hb H. rewrite <- (crc_unshift_shift a Ha), <- (crc_unshift_shift b Hb), H. reflexivity.
Qed.

Lemma crc_shift_eq0 r : is_reg r -> crc_shift r = 0 -> r = 0.
Proof.
  intros Hr H. apply crc_shift_inj; [assumption|unfold is_reg; lia|]. rewrite H. reflexivity.
Qed.

Lemma iter_shift_lxor n a b :
  clock n (Z.lxor a b) = Z.lxor (clock n a) (clock n b).
Proof. induction n; cbn [clock]; [reflexivity|]. rewrite IHn. apply crc_shift_lxor. Qed.

Lemma iter_shift_0 n : clock n 0 = 0.
Proof. induction n; cbn [clock]; [reflexivity|]. rewrite IHn. reflexivity. Qed.

Lemma iter_shift_reg n r : is_reg r -> is_reg (clock n r).
Proof. induction n; cbn [clock]; intros; [assumption|]. apply crc_shift_reg; auto. Qed.

Lemma iter_shift_eq0 n r : is_reg r -> clock n r = 0 -> r = 0.
Proof.
  induction n; cbn [clock]; intros Hr H; [assumption|].
  apply IHn; [assumption|]. apply crc_shift_eq0; [apply iter_shift_reg; assumption|assumption].
Qed.

Lemma iter_shift_comm n r : clock n (crc_shift r) = crc_shift (clock n r).
Proof. induction n; cbn [clock]; [reflexivity|]. rewrite IHn. reflexivity. Qed.

(* ------------------------------------------------------------------ linearity of the CRC *)

Lemma crc_byte_lxor r r' b b' :
  crc_byte (Z.lxor r r') (Z.lxor b b') = Z.lxor (crc_byte r b) (crc_byte r' b').
Proof. unfold crc_byte. rewrite lxor_swap4. apply iter_shift_lxor. Qed.

(* (1) the register after a message is GF(2)-linear in (initial register, message). *)
Lemma crc_update_lxor m : forall m' r r',
  length m = length m' ->
  crc_update (Z.lxor r r') (xor_bytes m m') = Z.lxor (crc_update r m) (crc_update r' m').
Proof.
  induction m as [|x m IH]; intros [|y m'] r r' Hl; try discriminate; [reflexivity|].
  cbn [xor_bytes]. unfold crc_update in *. cbn [fold_left]. rewrite crc_byte_lxor.
  apply IH. cbn in Hl; lia.
Qed.

(* (2) the CRC is affine: the difference of two CRCs of equally long messages is the pure
   (init 0, no final xor) register of the difference. *)
Lemma crc32_xor m e :
  length e = length m ->
  Z.lxor (crc32 (xor_bytes m e)) (crc32 m) = crc_update 0 e.
Proof.
  intros Hl. unfold crc32.
  replace MASK32 with (Z.lxor MASK32 0) at 1 by reflexivity.
  rewrite crc_update_lxor by lia.
  apply lxor_affine.
Qed.

Lemma crc_byte_reg r b : is_reg r -> 0 <= b < 256 -> is_reg (crc_byte r b).
Proof.
  intros Hr Hb. unfold crc_byte. apply iter_shift_reg, lxor_reg; [assumption|unfold is_reg; lia].
Qed.

Lemma crc_update_reg m : forall r, is_reg r -> bytes_ok m -> is_reg (crc_update r m).
Proof.
  induction m as [|x m IH]; intros r Hr Hm; [assumption|].
  inversion Hm; subst. unfold crc_update in *. cbn [fold_left].
  apply IH; [apply crc_byte_reg; assumption|assumption].
Qed.

Lemma crc32_range m : bytes_ok m -> 0 <= crc32 m < W32.
Proof.
  intros Hm. unfold crc32. change W32 with 4294967296.
  apply lxor_reg; [apply crc_update_reg; [unfold is_reg, MASK32; lia|assumption]|unfold is_reg, MASK32; lia].
Qed.

(* ------------------------------------------------------------------ byte level = bit level *)

Lemma lfsr_app r l1 l2 : lfsr r (l1 ++ l2) = lfsr (lfsr r l1) l2.
Proof. unfold lfsr. apply fold_left_app. Qed.

Lemma nlfsr_app r l1 l2 : nlfsr r (l1 ++ l2) = nlfsr (nlfsr r l1) l2.
Proof. unfold nlfsr. apply fold_left_app. Qed.

Lemma lfsr_lxor_state bits : forall r r',
  lfsr (Z.lxor r r') bits = Z.lxor (clock (length bits) r) (lfsr r' bits).
Proof.
  induction bits as [|b t IH]; intros r r'; [reflexivity|].
  unfold lfsr in *. cbn [fold_left length]. unfold lfsr_step at 2 4.
  replace (Z.lxor (Z.lxor r r') (Z.b2z b)) with (Z.lxor r (Z.lxor r' (Z.b2z b)))
    by (generalize (Z.b2z b); intros c; bitwise).
  rewrite crc_shift_lxor, IH. rewrite iter_shift_comm. reflexivity.
Qed.

Definition byte_bits_ok (b : Z) : bool := clock 8 b =? lfsr 0 (byte_bits b).

Lemma byte_bits_all : forallb byte_bits_ok (map Z.of_nat (seq 0 256)) = true.
Proof. vm_compute. reflexivity. Qed.

Lemma byte_bits_pure b : 0 <= b < 256 -> clock 8 b = lfsr 0 (byte_bits b).
Proof.
  intros Hb. pose proof byte_bits_all as H. rewrite forallb_forall in H.
  specialize (H b). apply Z.eqb_eq, H.
  replace b with (Z.of_nat (Z.to_nat b)) by lia. apply in_map, in_seq. lia.
Qed.

Lemma crc_byte_bits r b : 0 <= b < 256 -> crc_byte r b = lfsr r (byte_bits b).
Proof.
  intros Hb. unfold crc_byte. rewrite iter_shift_lxor, (byte_bits_pure b Hb).
  replace r with (Z.lxor r 0) at 2 by apply Z.lxor_0_r.
  rewrite lfsr_lxor_state. reflexivity.
Qed.

(* The byte-level function the model executes is the bit-level LFSR over the message bits. *)
Lemma crc_update_bits m : forall r, bytes_ok m -> crc_update r m = lfsr r (bits_of m).
Proof.
  induction m as [|x m IH]; intros r Hm; [reflexivity|].
  inversion Hm; subst. unfold crc_update in *. cbn [fold_left bits_of flat_map].
  rewrite lfsr_app, <- crc_byte_bits by assumption. apply IH; assumption.
Qed.

(* front-xor LFSR = x^32 times the pure LFSR *)
Lemma top_clock : crc_shift 1 = clock 32 TOP.
Proof. vm_compute. reflexivity. Qed.

Lemma lfsr_nlfsr_step n b : lfsr_step (clock 32 n) b = clock 32 (nlfsr_step n b).
Proof.
  unfold lfsr_step, nlfsr_step. rewrite crc_shift_lxor, iter_shift_lxor, iter_shift_comm.
  destruct b; cbn [Z.b2z].
  - rewrite top_clock. reflexivity.
  - rewrite iter_shift_0. reflexivity.
Qed.

Lemma lfsr_nlfsr bits : forall n, lfsr (clock 32 n) bits = clock 32 (nlfsr n bits).
Proof.
  induction bits as [|b t IH]; intros n; [reflexivity|].
  change (lfsr (clock 32 n) (b :: t)) with (lfsr (lfsr_step (clock 32 n) b) t).
  change (nlfsr n (b :: t)) with (nlfsr (nlfsr_step n b) t).
  rewrite lfsr_nlfsr_step. apply IH.
Qed.

Lemma lfsr0_nlfsr bits : lfsr 0 bits = clock 32 (nlfsr 0 bits).
Proof. rewrite <- lfsr_nlfsr, iter_shift_0. reflexivity. Qed.

Lemma top_reg : is_reg TOP. Proof. unfold is_reg, TOP; lia. Qed.

Lemma nlfsr_step_reg r b : is_reg r -> is_reg (nlfsr_step r b).
Proof.
  intros. unfold nlfsr_step. apply lxor_reg; [apply crc_shift_reg; assumption|].
  destruct b; [apply top_reg|unfold is_reg; lia].
Qed.

Lemma nlfsr_reg bits : forall r, is_reg r -> is_reg (nlfsr r bits).
Proof.
  induction bits as [|b t IH]; intros r Hr; [assumption|].
  unfold nlfsr in *. cbn [fold_left]. apply IH, nlfsr_step_reg, Hr.
Qed.

(* ------------------------------------------------------------------ the burst *)

Lemma nlfsr_zeros z : forall r,
  (forall b, In b z -> b = false) -> nlfsr r z = clock (length z) r.
Proof.
  induction z as [|b t IH]; intros r Hz; [reflexivity|].
  unfold nlfsr in *. cbn [fold_left length]. rewrite IH by (intros; apply Hz; right; assumption).
  rewrite (Hz b) by (left; reflexivity). unfold nlfsr_step. rewrite Z.lxor_0_r.
  rewrite iter_shift_comm. reflexivity.
Qed.

(* (4a) feeding at most p <= 31 further bits after a set bit sitting at position p of the
   register (nothing below it) never clocks that bit out: no reduction occurs, the result is
   non-zero. *)
Lemma nlfsr_window w : forall p n,
  Z.of_nat (length w) <= p <= 31 -> is_reg n ->
  Z.testbit n p = true -> (forall j, 0 <= j < p -> Z.testbit n j = false) ->
  nlfsr n w <> 0.
Proof.
  induction w as [|b t IH]; intros p n Hp Hn Hbit Hlow.
  - cbn. intros ->. rewrite Z.bits_0 in Hbit. discriminate.
  - cbn [length] in Hp. unfold nlfsr in *. cbn [fold_left].
    assert (Hodd : Z.odd n = false) by (rewrite <- Z.bit0_odd; apply Hlow; lia).
    assert (Hs : crc_shift n = Z.shiftr n 1) by (unfold crc_shift; rewrite Hodd; apply Z.div2_spec).
    assert (Htop : forall j, 0 <= j < 31 -> Z.testbit (if b then TOP else 0) j = false).
    { intros j Hj. destruct b; [|apply Z.bits_0].
      change TOP with (2 ^ 31). apply Z.pow2_bits_false. lia. }
    apply (IH (p - 1)).
    + lia.
    + apply nlfsr_step_reg, Hn.
    + unfold nlfsr_step. rewrite Hs, Z.lxor_spec, Z.shiftr_spec, Htop by lia.
      replace (p - 1 + 1) with p by lia. rewrite Hbit. reflexivity.
    + intros j Hj. unfold nlfsr_step. rewrite Hs, Z.lxor_spec, Z.shiftr_spec, Htop by lia.
      rewrite Hlow by lia. reflexivity.
Qed.

Lemma nth_skipn_add {A} (d : A) k : forall (l : list A) i, nth i (skipn k l) d = nth (k + i) l d.
Proof.
  induction k as [|k IH]; intros l i; [reflexivity|].
  destruct l as [|x l]; cbn [skipn]; [destruct i; reflexivity|]. apply IH.
Qed.

(* (4) the pure LFSR of a non-zero error pattern confined to 32 consecutive bit positions is
   non-zero, whatever the number of zero bits before and after it. *)
Lemma nlfsr_burst l : forall s : nat,
  (exists p, nth p l false = true) ->
  (forall p, nth p l false = true -> (s <= p < s + 32)%nat) ->
  nlfsr 0 l <> 0.
Proof.
  induction l as [|b t IH]; intros s [p0 Hp0] Hwin.
  - destruct p0; discriminate.
  - destruct b.
    + (* the burst starts here: s = 0, everything beyond index 31 is zero *)
      assert (s = 0)%nat by (specialize (Hwin 0%nat eq_refl); lia). subst s.
      rewrite <- (firstn_skipn 31 t).
      change (true :: firstn 31 t ++ skipn 31 t) with ((true :: firstn 31 t) ++ skipn 31 t).
      rewrite nlfsr_app, nlfsr_zeros.
      * intros H. apply iter_shift_eq0 in H.
        -- revert H. unfold nlfsr. cbn [fold_left]. change (nlfsr_step 0 true) with TOP.
           apply (nlfsr_window _ 31).
           ++ pose proof (firstn_le_length 31 t). lia.
           ++ apply top_reg.
           ++ reflexivity.
           ++ intros j Hj. change TOP with (2 ^ 31). apply Z.pow2_bits_false. lia.
        -- apply nlfsr_reg. unfold is_reg; lia.
      * intros b Hin. destruct b; [|reflexivity].
        apply (In_nth _ _ false) in Hin. destruct Hin as [i [_ Hi]].
        rewrite nth_skipn_add in Hi. specialize (Hwin (S (31 + i)) Hi). lia.
    + (* leading zero bit: the register stays 0 *)
      unfold nlfsr. cbn [fold_left]. change (nlfsr_step 0 false) with 0.
      apply (IH (pred s)).
      * destruct p0 as [|p0]; [discriminate|]. exists p0. exact Hp0.
      * intros p Hp. specialize (Hwin (S p) Hp). lia.
Qed.

(* bit_at is the p-th bit the LFSR consumes *)
Lemma nth_byte_bits b k : (k < 8)%nat -> nth k (byte_bits b) false = Z.testbit b (Z.of_nat k).
Proof.
  intros Hk. do 8 (destruct k as [|k]; [reflexivity|]). lia.
Qed.

Lemma byte_bits_length b : length (byte_bits b) = 8%nat. Proof. reflexivity. Qed.

Lemma nth_bits_of e : forall p, nth p (bits_of e) false = bit_at e p.
Proof.
  induction e as [|x e IH]; intros p.
  - unfold bit_at. replace (nth (p / 8) [] 0) with 0 by (destruct (p / 8)%nat; reflexivity).
    rewrite Z.bits_0. destruct p; reflexivity.
  - cbn [bits_of flat_map]. destruct (Nat.lt_ge_cases p 8) as [Hlt|Hge].
    + rewrite app_nth1 by (rewrite byte_bits_length; assumption).
      rewrite nth_byte_bits by assumption. unfold bit_at.
      rewrite Nat.div_small, Nat.mod_small by assumption. reflexivity.
    + rewrite app_nth2 by (rewrite byte_bits_length; assumption).
      rewrite byte_bits_length. fold (bits_of e). rewrite IH. unfold bit_at.
      pose proof (Nat.div_mod p 8 ltac:(lia)). pose proof (Nat.div_mod (p - 8) 8 ltac:(lia)).
      pose proof (Nat.mod_upper_bound p 8 ltac:(lia)).
      pose proof (Nat.mod_upper_bound (p - 8) 8 ltac:(lia)).
      replace (p / 8)%nat with (S ((p - 8) / 8)) by lia.
      replace (p mod 8)%nat with ((p - 8) mod 8)%nat by lia. reflexivity.
Qed.

(* The burst theorem: two equally long messages whose difference is non-zero and confined to
   32 consecutive bit positions (in the order the CRC consumes bits) have different CRC-32s. *)
Theorem crc_burst m e (s : nat) :
  bytes_ok e -> length e = length m ->
  (exists p, bit_at e p = true) ->
  (forall p, bit_at e p = true -> (s <= p < s + 32)%nat) ->
  crc32 (xor_bytes m e) <> crc32 m.
Proof.
  intros He Hl Hex Hwin Heq.
  pose proof (crc32_xor m e Hl) as Hx. rewrite Heq, Z.lxor_nilpotent in Hx.
  rewrite crc_update_bits, lfsr0_nlfsr in Hx by assumption. symmetry in Hx.
  apply iter_shift_eq0 in Hx; [|apply nlfsr_reg; unfold is_reg; lia].
  revert Hx. apply (nlfsr_burst _ s).
  - destruct Hex as [p Hp]. exists p. rewrite nth_bits_of. exact Hp.
  - intros p Hp. apply Hwin. rewrite <- nth_bits_of. exact Hp.
Qed.

(* Special cases worth naming. *)
Corollary crc_single_bit m e p0 :
  bytes_ok e -> length e = length m ->
  bit_at e p0 = true -> (forall p, bit_at e p = true -> p = p0) ->
  crc32 (xor_bytes m e) <> crc32 m.
Proof.
  intros He Hl H1 Hu. apply (crc_burst m e p0); auto.
  - exists p0; assumption.
  - intros p Hp. rewrite (Hu p Hp). lia.
Qed.

Lemma byte_nonzero_bit_all :
  forallb (fun x => (x =? 0) || existsb (fun j => Z.testbit x (Z.of_nat j)) (seq 0 8))
          (map Z.of_nat (seq 0 256)) = true.
Proof. vm_compute. reflexivity. Qed.

Lemma byte_nonzero_bit x :
  0 <= x < 256 -> x <> 0 -> exists j, (j < 8)%nat /\ Z.testbit x (Z.of_nat j) = true.
Proof.
  intros Hx Hnz. pose proof byte_nonzero_bit_all as H. rewrite forallb_forall in H.
  specialize (H x). rewrite orb_true_iff, Z.eqb_eq, existsb_exists in H.
  destruct H as [H|[j [Hin Hj]]].
  - replace x with (Z.of_nat (Z.to_nat x)) by lia. apply in_map, in_seq. lia.
  - contradiction.
  - exists j. apply in_seq in Hin. split; [lia|assumption].
Qed.

Corollary crc_four_bytes m e (i : nat) :
  bytes_ok e -> length e = length m ->
  (exists k, nth k e 0 <> 0) ->
  (forall k, nth k e 0 <> 0 -> (i <= k < i + 4)%nat) ->
  crc32 (xor_bytes m e) <> crc32 m.
Proof.
  intros He Hl [k Hk] Hwin. apply (crc_burst m e (8 * i)); auto.
  - assert (Hb : 0 <= nth k e 0 < 256).
    { destruct (Nat.lt_ge_cases k (length e)) as [Hlt|Hge].
      - unfold bytes_ok in He. rewrite Forall_forall in He. apply He, nth_In, Hlt.
      - rewrite nth_overflow in Hk by assumption. congruence. }
    destruct (byte_nonzero_bit _ Hb Hk) as [j [Hj Ht]].
    exists (j + k * 8)%nat. unfold bit_at.
    rewrite Nat.div_add, Nat.mod_add, Nat.div_small, Nat.mod_small by lia. exact Ht.
  - intros p Hp. unfold bit_at in Hp.
    assert (nth (p / 8) e 0 <> 0) as Hnz by (intros H0; rewrite H0, Z.bits_0 in Hp; discriminate).
    specialize (Hwin _ Hnz).
    pose proof (Nat.div_mod p 8 ltac:(lia)). pose proof (Nat.mod_upper_bound p 8 ltac:(lia)). lia.
Qed.

(* Known-answer tests of the model (the standard check value of CRC-32/IEEE). *)
Lemma crc32_check_value : crc32 [49; 50; 51; 52; 53; 54; 55; 56; 57] = 3421780262.
Proof. vm_compute. reflexivity. Qed.
Lemma crc32_empty : crc32 [] = 0. Proof. vm_compute. reflexivity. Qed.

(* compositions stated in C06.v *)

Lemma clock_bijection :
  forall r, is_reg r ->
    is_reg (crc_shift r) /\ is_reg (crc_unshift r) /\
    crc_unshift (crc_shift r) = r /\ crc_shift (crc_unshift r) = r /\ crc_shift 0 = 0.
Proof.
  intros r Hr. repeat split; try (apply crc_shift_reg, Hr); try (apply crc_unshift_reg, Hr).
  - apply crc_unshift_shift, Hr.
  - apply crc_shift_unshift.
Qed.

Lemma crc_bit_level :
  forall m r, bytes_ok m ->
    crc_update r m = lfsr r (bits_of m) /\
    lfsr 0 (bits_of m) = clock 32 (nlfsr 0 (bits_of m)).
Proof. intros. split; [apply crc_update_bits; assumption|apply lfsr0_nlfsr]. Qed.
