(* C06 - packets failing the integrity check have no effect at all.
   Statements only; every proof is `exact <lemma of CrcProofs / GateProofs>`.

   Reading guide.  `core_state` / `kcp_input` are arbitrary: the session value compared below
   contains EVERYTHING behind the gate (KCP core, FEC decoder and its autotune rings, reader
   carry-over, pending wake-up tokens, OOB deliveries) as one opaque component, so "equal
   session" is "no effect on any of it" whatever that state is made of.  `dec`/`open` are
   arbitrary functions unless a premise says otherwise; premises about them are written out in
   each statement (cipher round trip - the subject of C08 -, AEAD functional correctness, and,
   for the AEAD detection guarantee only, the authenticity idealisation `aead_authentic`). *)
From Coq Require Import ZArith List Bool.
From KV.Base Require Import Word Consts.
From KV.Gate Require Import Crc CrcProofs Gate GateProofs.
Import ListNotations.
Local Open Scope Z_scope.

(* ---------------------------------------------------------------- no effect *)

(* Session path.  A datagram that fails the check or is too short to carry one leaves the whole
   session unchanged; the only trace is the counter named by the outcome (none when too short,
   InCsumErrors otherwise).  Every cipher class (cfg), every dec/open, every state. *)
Theorem c06_session_noop :
  forall (core_state : Type) (kcp_input : core_state -> bytes -> core_state)
         (dec : bytes -> bytes) (open : bytes -> bytes -> option bytes) (cfg : gate_cfg)
         (s : sess core_state) (d : bytes),
    integrity_ok dec open cfg d = false ->
    sess_packet_input core_state kcp_input dec open cfg s d
      = (s, if too_short cfg d then ShortDropped else CsumErr).
Proof. exact session_noop. Qed.
Print Assumptions c06_session_noop.

(* Listener path.  Session table (hence every session in it) and accept queue unchanged; no
   session is created: the gate precedes the lookup. *)
Theorem c06_listener_noop :
  forall (core_state : Type) (kcp_input : core_state -> bytes -> core_state)
         (new_core : Z -> core_state)
         (dec : bytes -> bytes) (open : bytes -> bytes -> option bytes) (cfg : gate_cfg)
         (addr : Type) (addr_eqb : addr -> addr -> bool)
         (l : listener core_state addr) (d : bytes) (a : addr),
    integrity_ok dec open cfg d = false ->
    l_packet_input core_state kcp_input new_core dec open cfg addr addr_eqb l d a
      = (l, if too_short cfg d then ShortDropped else CsumErr).
Proof. exact listener_noop. Qed.
Print Assumptions c06_listener_noop.

(* "Consequently corruption never reaches the application": the code behind the gate
   (minimum-size test, kcpInput) runs only on a datagram that passes, and then on exactly the
   verified bytes - the CRC-covered bytes whose CRC equals the stored one, resp. the plaintext
   Open returned. *)
Theorem c06_reached_only_if_ok :
  forall (core_state : Type) (kcp_input : core_state -> bytes -> core_state)
         (new_core : Z -> core_state)
         (dec : bytes -> bytes) (open : bytes -> bytes -> option bytes) (cfg : gate_cfg)
         (addr : Type) (addr_eqb : addr -> addr -> bool)
         (s : sess core_state) (l : listener core_state addr) (d : bytes) (a : addr),
    (fst (sess_packet_input core_state kcp_input dec open cfg s d) <> s ->
       integrity_ok dec open cfg d = true) /\
    (fst (l_packet_input core_state kcp_input new_core dec open cfg addr addr_eqb l d a) <> l ->
       integrity_ok dec open cfg d = true) /\
    (integrity_ok dec open cfg d = true ->
       exists payload,
         sess_packet_input core_state kcp_input dec open cfg s d
           = sess_after_gate core_state kcp_input s payload /\
         l_packet_input core_state kcp_input new_core dec open cfg addr addr_eqb l d a
           = l_after_gate core_state kcp_input new_core addr addr_eqb l payload a /\
         match g_class cfg with
         | ClassCrc => payload = crc_covered dec d /\ crc32 payload = crc_stored dec d
         | ClassAead => open (btake (g_aead_nonce cfg) d) (bdrop (g_aead_nonce cfg) d) = Some payload
         end).
Proof. exact reached_only_if_ok. Qed.
Print Assumptions c06_reached_only_if_ok.

(* ---------------------------------------------------------------- the gate is not vacuous *)

(* What postProcess emits for a packet passes the gate and delivers exactly the framed bytes.
   Premises: cipher round trip (C08), AEAD functional correctness. *)
Theorem c06_gate_not_vacuous :
  forall (core_state : Type) (kcp_input : core_state -> bytes -> core_state)
         (enc dec : bytes -> bytes) (seal : bytes -> bytes -> bytes)
         (open : bytes -> bytes -> option bytes) (cfg : gate_cfg),
    (forall x, dec (enc x) = x) -> (forall x, length (enc x) = length x) ->
    (forall n p, open n (seal n p) = Some p) ->
    (forall n p, blen (seal n p) = blen p + g_aead_overhead cfg) ->
    forall (s : sess core_state) (nonce payload : bytes),
      nonce_ok cfg nonce -> bytes_ok payload ->
      integrity_ok dec open cfg (frame enc seal cfg nonce payload) = true /\
      sess_packet_input core_state kcp_input dec open cfg s (frame enc seal cfg nonce payload)
        = sess_after_gate core_state kcp_input s payload.
Proof. exact gate_not_vacuous. Qed.
Print Assumptions c06_gate_not_vacuous.

(* Every packet of a request - the data packet and each parity packet - gets its own nonce and
   CRC / tag, and passes. *)
Theorem c06_parity_covered :
  forall (enc dec : bytes -> bytes) (seal : bytes -> bytes -> bytes)
         (open : bytes -> bytes -> option bytes) (cfg : gate_cfg),
    (forall x, dec (enc x) = x) -> (forall x, length (enc x) = length x) ->
    (forall n p, open n (seal n p) = Some p) ->
    (forall n p, blen (seal n p) = blen p + g_aead_overhead cfg) ->
    forall (nonces pkts : list bytes),
      Forall (nonce_ok cfg) nonces -> Forall bytes_ok pkts ->
      length (post_process enc seal cfg nonces pkts) = Nat.min (length nonces) (length pkts) /\
      Forall (fun f => integrity_ok dec open cfg f = true) (post_process enc seal cfg nonces pkts).
Proof. exact parity_covered. Qed.
Print Assumptions c06_parity_covered.

(* The CRC input is exactly the bytes after the CRC field (nothing of the nonce, nothing
   skipped), the stored value is the 4 bytes after the nonce, and the verified bytes are what is
   handed on. *)
Theorem c06_crc_covers :
  forall (core_state : Type) (kcp_input : core_state -> bytes -> core_state)
         (dec : bytes -> bytes) (open : bytes -> bytes -> option bytes) (cfg : gate_cfg)
         (s : sess core_state) (d : bytes),
    g_class cfg = ClassCrc -> c_cryptHeaderSize <= blen d ->
    sess_packet_input core_state kcp_input dec open cfg s d =
      if crc32 (bdrop c_cryptHeaderSize (dec d)) =? rd32 (btake c_crcSize (bdrop c_nonceSize (dec d)))
      then sess_after_gate core_state kcp_input s (bdrop c_cryptHeaderSize (dec d))
      else (s, CsumErr).
Proof. exact crc_covers. Qed.
Print Assumptions c06_crc_covers.

(* ---------------------------------------------------------------- what the CRC guarantees *)

(* The mathematical core (DESIGN D.3).  Two equally long messages that differ by a non-zero
   error pattern whose set bits lie within 32 consecutive bit positions have different CRC-32s.
   Bit position p = 8 * byte index + bit index, least significant bit of each byte first: the
   order in which CRC-32/IEEE consumes the message.  Any length, any position, any m. *)
Theorem c06_crc_burst :
  forall (m e : list Z) (s : nat),
    bytes_ok e -> length e = length m ->
    (exists p, bit_at e p = true) ->
    (forall p, bit_at e p = true -> (s <= p < s + 32)%nat) ->
    crc32 (xor_bytes m e) <> crc32 m.
Proof. exact crc_burst. Qed.
Print Assumptions c06_crc_burst.

(* numbering-independent special case: the error is confined to 4 consecutive bytes *)
Theorem c06_crc_four_bytes :
  forall (m e : list Z) (i : nat),
    bytes_ok e -> length e = length m ->
    (exists k, nth k e 0 <> 0) ->
    (forall k, nth k e 0 <> 0 -> (i <= k < i + 4)%nat) ->
    crc32 (xor_bytes m e) <> crc32 m.
Proof. exact crc_four_bytes. Qed.
Print Assumptions c06_crc_four_bytes.

(* The steps of the proof, each a theorem of its own. *)
(* (1)+(2) the register is GF(2)-linear, the CRC affine: the CRC difference of two equally long
   messages is the pure (init 0, no final xor) register of their difference *)
Theorem c06_crc_affine :
  forall m e, length e = length m ->
    Z.lxor (crc32 (xor_bytes m e)) (crc32 m) = crc_update 0 e.
Proof. exact crc32_xor. Qed.
Print Assumptions c06_crc_affine.

(* (3) one clock with a zero input bit is a bijection on 32-bit states, with the explicit
   inverse crc_unshift, and fixes 0 *)
Theorem c06_crc_clock_bijection :
  forall r, is_reg r ->
    is_reg (crc_shift r) /\ is_reg (crc_unshift r) /\
    crc_unshift (crc_shift r) = r /\ crc_shift (crc_unshift r) = r /\ crc_shift 0 = 0.
Proof. exact clock_bijection. Qed.
Print Assumptions c06_crc_clock_bijection.

(* the byte-level function the model (and the OCaml driver) executes is the bit-level LFSR over
   the message bits, and that one is x^32 times the pure LFSR *)
Theorem c06_crc_bit_level :
  forall m r, bytes_ok m ->
    crc_update r m = lfsr r (bits_of m) /\
    lfsr 0 (bits_of m) = clock 32 (nlfsr 0 (bits_of m)).
Proof. exact crc_bit_level. Qed.
Print Assumptions c06_crc_bit_level.

(* (4) the pure LFSR of a burst is non-zero *)
Theorem c06_crc_burst_syndrome :
  forall (l : list bool) (s : nat),
    (exists p, nth p l false = true) ->
    (forall p, nth p l false = true -> (s <= p < s + 32)%nat) ->
    nlfsr 0 l <> 0.
Proof. exact nlfsr_burst. Qed.
Print Assumptions c06_crc_burst_syndrome.

(* Lifted to the gate, at the CRC-covered (decrypted) bytes: a valid datagram d, a datagram d'
   of the same length whose decryption has the same 20 header bytes and differs from d's in the
   covered bytes by a burst e.  d' fails the check (hence has no effect, c06_*_noop). *)
Theorem c06_burst_detected :
  forall (dec : bytes -> bytes) (open : bytes -> bytes -> option bytes) (cfg : gate_cfg)
         (d d' e : bytes) (s : nat),
    g_class cfg = ClassCrc ->
    integrity_ok dec open cfg d = true ->
    blen d' = blen d ->
    btake c_cryptHeaderSize (dec d') = btake c_cryptHeaderSize (dec d) ->
    crc_covered dec d' = xor_bytes (crc_covered dec d) e ->
    bytes_ok e -> length e = length (crc_covered dec d) ->
    (exists p, bit_at e p = true) ->
    (forall p, bit_at e p = true -> (s <= p < s + 32)%nat) ->
    integrity_ok dec open cfg d' = false.
Proof. exact crc_burst_gate. Qed.
Print Assumptions c06_burst_detected.

(* Any change of the stored 4 CRC bytes (the covered bytes being the same) fails the check. *)
Theorem c06_crc_field :
  forall (dec : bytes -> bytes) (open : bytes -> bytes -> option bytes) (cfg : gate_cfg)
         (d d' : bytes),
    g_class cfg = ClassCrc ->
    integrity_ok dec open cfg d = true ->
    bytes_ok (dec d) -> bytes_ok (dec d') -> blen (dec d) = blen d -> blen (dec d') = blen d' ->
    blen d' = blen d ->
    crc_covered dec d' = crc_covered dec d ->
    btake c_crcSize (bdrop c_nonceSize (dec d')) <> btake c_crcSize (bdrop c_nonceSize (dec d)) ->
    integrity_ok dec open cfg d' = false.
Proof. exact crc_field. Qed.
Print Assumptions c06_crc_field.

(* Wire level.  For a cipher that is stream-like beyond its first k <= 20 bytes (a wire error
   pattern that spares the first k bytes comes out of decryption as the same pattern: none and
   xor with k = 0, salsa20 with its 8 clear bytes - instances below), a burst applied to the
   datagram AS RECEIVED, in the bytes after the 20-byte header, is the same burst in the
   CRC-covered bytes, so it is caught.
   NOT claimed for CFB block ciphers: there a wire error in ciphertext block i also garbles
   plaintext block i+1 (c06_cfb_wire_burst_spreads), which is no burst any more; detection is
   then 1 - 2^-32, not guaranteed, and the property's guaranteed class is read at the
   CRC-covered (decrypted) bytes, i.e. c06_burst_detected. *)
Theorem c06_wire_level :
  forall (dec : bytes -> bytes) (open : bytes -> bytes -> option bytes) (cfg : gate_cfg)
         (k : nat) (d e : bytes) (s : nat),
    g_class cfg = ClassCrc ->
    stream_like_beyond dec k -> (k <= Z.to_nat c_cryptHeaderSize)%nat ->
    (forall x, length (dec x) = length x) ->
    integrity_ok dec open cfg d = true ->
    bytes_ok e -> (length e + Z.to_nat c_cryptHeaderSize = length d)%nat ->
    (exists p, bit_at e p = true) ->
    (forall p, bit_at e p = true -> (s <= p < s + 32)%nat) ->
    integrity_ok dec open cfg (xor_bytes d (repeat 0 (Z.to_nat c_cryptHeaderSize) ++ e)) = false.
Proof. exact wire_level. Qed.
Print Assumptions c06_wire_level.

(* the stream-like classes: none (copy), xor (fixed pad of the datagram's length), and
   salsa20-like (first k bytes clear, they select the key stream for the rest) *)
Theorem c06_stream_like_classes :
  stream_like_beyond (fun x => x) 0 /\
  (forall ks : nat -> bytes, (forall n, length (ks n) = n) ->
     stream_like_beyond (fun x => xor_bytes x (ks (length x))) 0) /\
  (forall (k : nat) (ks : bytes -> nat -> bytes), stream_like_beyond (prefix_stream_dec k ks) k).
Proof. exact stream_like_classes. Qed.
Print Assumptions c06_stream_like_classes.

(* CFB: a single wire bit (position 64) decrypts to that bit plus a garbled next block (a set bit
   at position 128): the wire burst is not a burst after decryption. *)
Theorem c06_cfb_wire_burst_spreads :
  let iv := repeat 0 8 in
  let c  := [[1;2;3;4;5;6;7;8]; [9;10;11;12;13;14;15;16]; [17;18;19;20;21;22;23;24]] in
  let c' := [[1;2;3;4;5;6;7;8]; [8;10;11;12;13;14;15;16]; [17;18;19;20;21;22;23;24]] in
  let diff := xor_bytes (concat (cfb_dec_blocks toyE iv c)) (concat (cfb_dec_blocks toyE iv c')) in
  xor_bytes (concat c) (concat c') = repeat 0 8 ++ [1] ++ repeat 0 15 /\
  bit_at diff 64 = true /\ bit_at diff 128 = true.
Proof. exact cfb_wire_burst_spreads. Qed.
Print Assumptions c06_cfb_wire_burst_spreads.

(* AEAD: under the authenticity idealisation (Open succeeds only on what the legitimate sender
   sealed, under the same nonce) every datagram that is not literally one of the sealed frames
   fails the check - "any change".  The idealisation is a PREMISE (cryptographic assumption on
   AES-GCM, not provable here); nothing else in this file depends on it. *)
Theorem c06_aead_any_change :
  forall (dec : bytes -> bytes) (seal : bytes -> bytes -> bytes)
         (open : bytes -> bytes -> option bytes) (cfg : gate_cfg)
         (sent : list (bytes * bytes)) (d : bytes),
    g_class cfg = ClassAead ->
    aead_authentic seal open sent ->
    (forall n p, In (n, p) sent -> blen n = g_aead_nonce cfg) ->
    0 <= g_aead_nonce cfg ->
    ~ In d (map (fun np => fst np ++ seal (fst np) (snd np)) sent) ->
    integrity_ok dec open cfg d = false.
Proof. exact aead_any_change. Qed.
Print Assumptions c06_aead_any_change.

(* ---------------------------------------------------------------- the premises are satisfiable *)

(* known answers of the CRC model *)
Example c06_crc_check_value : crc32 [49; 50; 51; 52; 53; 54; 55; 56; 57] = 3421780262 /\ crc32 [] = 0.
Proof. split; [exact crc32_check_value|exact crc32_empty]. Qed.

(* none cipher, a real-shaped KCP PUSH of 27 bytes: the frame passes and is delivered; flipping
   a covered bit, changing the stored CRC, or truncating to 19 bytes leaves the session (and an
   empty listener: no session created) untouched *)
Example c06_valid_passes :
  integrity_ok ex_id ex_open ex_cfg ex_frame = true /\
  sess_packet_input _ ex_input ex_id ex_open ex_cfg ex_sess ex_frame
    = (mkSess _ 7 [ex_payload], Delivered).
Proof. exact ex_valid_passes. Qed.

Example c06_corrupt_dropped :
  integrity_ok ex_id ex_open ex_cfg (ex_flip ex_frame 25 8) = false /\
  integrity_ok ex_id ex_open ex_cfg (ex_flip ex_frame 17 1) = false /\
  integrity_ok ex_id ex_open ex_cfg (firstn 19 ex_frame) = false /\
  too_short ex_cfg (firstn 19 ex_frame) = true /\
  sess_packet_input _ ex_input ex_id ex_open ex_cfg ex_sess (ex_flip ex_frame 25 8)
    = (ex_sess, CsumErr) /\
  sess_packet_input _ ex_input ex_id ex_open ex_cfg ex_sess (firstn 19 ex_frame)
    = (ex_sess, ShortDropped).
Proof. exact ex_corrupt_dropped. Qed.

Example c06_listener_example :
  let l0 := mkListener (list bytes) nat [] [] in
  let inp := l_packet_input _ ex_input (fun _ => []) ex_id ex_open ex_cfg nat Nat.eqb in
  inp l0 ex_frame 5%nat = (mkListener _ _ [(5%nat, mkSess _ 7 [ex_payload])] [(5%nat, 7)], Created) /\
  inp l0 (ex_flip ex_frame 25 8) 5%nat = (l0, CsumErr) /\
  inp l0 (firstn 19 ex_frame) 5%nat = (l0, ShortDropped).
Proof. exact ex_listener. Qed.
