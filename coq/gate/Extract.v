(* Extraction of the executable gate and CRC models.  ExtrOcamlBasic only: nat, positive, Z stay
   the extracted inductive types; no Extract Constant. *)
From Coq Require Import Extraction ExtrOcamlBasic.
From KV.Gate Require Import Crc Gate.
Extraction "gate_model.ml" crc32 crc_update lfsr nlfsr bits_of xor_bytes clock crc_unshift
  mkCfg too_short integrity_ok sess_packet_input l_packet_input frame post_process min_payload.
