(* Proofs about the integrity gate (Gate.v), on top of the CRC theorems (CrcProofs.v). *)
From Coq Require Import ZArith List Bool Lia Arith.
From KV.Base Require Import Word WordLemmas Consts.
From KV.Gate Require Import Crc CrcProofs Gate.
Import ListNotations.
Local Open Scope Z_scope.

(* ------------------------------------------------------------------ list / byte helpers *)

Lemma hdr_split : c_cryptHeaderSize = c_nonceSize + c_crcSize. Proof. reflexivity. Qed.

Lemma skipn_skipn_add {A} b : forall a (l : list A), skipn a (skipn b l) = skipn (b + a) l.
Proof.
  induction b as [|b IH]; intros a l; [reflexivity|].
  destruct l as [|x l]; [cbn; apply skipn_nil|]. cbn [skipn Nat.add]. apply IH.
Qed.

Lemma bdrop_bdrop_hdr x : bdrop c_crcSize (bdrop c_nonceSize x) = bdrop c_cryptHeaderSize x.
Proof. unfold bdrop. rewrite skipn_skipn_add. reflexivity. Qed.

Lemma blen_app a b : blen (a ++ b) = blen a + blen b.
Proof. unfold blen. rewrite app_length. lia. Qed.

Lemma blen_nonneg a : 0 <= blen a. Proof. unfold blen. lia. Qed.

Lemma bdrop_app_exact n a b : blen a = n -> bdrop n (a ++ b) = b.
Proof.
  unfold bdrop, blen. intros <-. rewrite Nat2Z.id, skipn_app, skipn_all, Nat.sub_diag. reflexivity.
Qed.

Lemma btake_app_exact n a b : blen a = n -> btake n (a ++ b) = a.
Proof.
  unfold btake, blen. intros <-. rewrite Nat2Z.id, firstn_app, firstn_all, Nat.sub_diag.
  cbn. apply app_nil_r.
Qed.

Lemma rd32_firstn4 l : rd32 (firstn 4 l) = rd32 l.
Proof. do 4 (destruct l as [|? l]; [reflexivity|]). reflexivity. Qed.

Lemma rd32_inj l l' :
  bytes_ok l -> bytes_ok l' -> (4 <= length l)%nat -> (4 <= length l')%nat ->
  rd32 l = rd32 l' -> firstn 4 l = firstn 4 l'.
Proof.
  intros Hl Hl' H4 H4' Heq.
  destruct l as [|a [|b [|c [|d l]]]]; cbn in H4; try lia.
  destruct l' as [|a' [|b' [|c' [|d' l']]]]; cbn in H4'; try lia.
  unfold bytes_ok in *. repeat match goal with H : Forall _ (_ :: _) |- _ => inversion H; clear H; subst end.
  unfold is_byte in *. unfold rd32 in Heq. cbn [firstn].
  assert (a = a' /\ b = b' /\ c = c' /\ d = d') as (-> & -> & -> & ->) by lia. reflexivity.
Qed.

Lemma xor_bytes_app a1 : forall b1 a2 b2,
  length a1 = length b1 -> xor_bytes (a1 ++ a2) (b1 ++ b2) = xor_bytes a1 b1 ++ xor_bytes a2 b2.
Proof.
  induction a1 as [|x a1 IH]; intros [|y b1] a2 b2 Hl; try discriminate; [reflexivity|].
  cbn. f_equal. apply IH. cbn in Hl; lia.
Qed.

Lemma xor_bytes_zeros a : xor_bytes a (repeat 0 (length a)) = a.
Proof. induction a as [|x a IH]; [reflexivity|]. cbn. rewrite Z.lxor_0_r, IH. reflexivity. Qed.

Lemma xor_bytes_length a : forall b, length a = length b -> length (xor_bytes a b) = length a.
Proof. induction a as [|x a IH]; intros [|y b] Hl; try discriminate; [reflexivity|]. cbn. rewrite IH; cbn in Hl; lia. Qed.

(* ------------------------------------------------------------------ the gate *)

Definition error_outcome (cfg : gate_cfg) (d : bytes) : outcome :=
  if too_short cfg d then ShortDropped else CsumErr.

Section GateData.
  Variables enc dec : bytes -> bytes.
  Variable seal : bytes -> bytes -> bytes.
  Variable open : bytes -> bytes -> option bytes.
  Variable cfg : gate_cfg.

  Notation too_short := (too_short cfg).
  Notation integrity_ok := (integrity_ok dec open cfg).
  Notation crc_covered := (crc_covered dec).
  Notation crc_stored := (crc_stored dec).
  Notation frame := (frame enc seal cfg).
  Notation post_process := (post_process enc seal cfg).

  (* ---- the gate is not vacuous: what postProcess emits passes, data and parity alike *)

  Section Frames.
    (* cipher round trip, a premise here; it is the subject of C08 *)
    Hypothesis dec_enc : forall x, dec (enc x) = x.
    Hypothesis enc_length : forall x, length (enc x) = length x.
    (* functional correctness of the AEAD (not its security) *)
    Hypothesis open_seal : forall n p, open n (seal n p) = Some p.
    Hypothesis seal_length : forall n p, blen (seal n p) = blen p + g_aead_overhead cfg.

    Definition nonce_ok (n : bytes) : Prop :=
      blen n = match g_class cfg with ClassCrc => c_nonceSize | ClassAead => g_aead_nonce cfg end.

    Lemma frame_ok nonce payload :
      nonce_ok nonce -> bytes_ok payload -> integrity_ok (frame nonce payload) = true.
    Proof.
      unfold nonce_ok, Gate.integrity_ok, Gate.too_short, Gate.frame, Gate.crc_covered, Gate.crc_stored.
      intros Hn Hp. destruct (g_class cfg).
      - rewrite dec_enc. unfold blen at 1. rewrite enc_length. fold (blen (nonce ++ le32 (crc32 payload) ++ payload)).
        rewrite !blen_app. unfold blen at 2. rewrite le32_length.
        pose proof (blen_nonneg payload).
        replace (blen nonce + (Z.of_nat 4 + blen payload) <? c_cryptHeaderSize) with false
          by (symmetry; apply Z.ltb_ge; rewrite Hn; unfold c_cryptHeaderSize, c_nonceSize; lia).
        cbn [negb andb].
        rewrite <- bdrop_bdrop_hdr, (bdrop_app_exact c_nonceSize) by assumption.
        rewrite (bdrop_app_exact c_crcSize) by (unfold blen; rewrite le32_length; reflexivity).
        rewrite rd32_le32 by (apply crc32_range; assumption). apply Z.eqb_refl.
      - rewrite blen_app, seal_length, Hn. pose proof (blen_nonneg payload).
        replace (_ <? _) with false by (symmetry; apply Z.ltb_ge; lia).
        cbn [negb andb]. rewrite (btake_app_exact _ _ _ Hn), (bdrop_app_exact _ _ _ Hn), open_seal.
        reflexivity.
    Qed.

    (* every packet of a request - the data packet and each parity packet - has its own
       nonce and CRC / tag and passes the gate *)
    Lemma parity_covered nonces : forall pkts,
      Forall nonce_ok nonces -> Forall bytes_ok pkts ->
      length (post_process nonces pkts) = Nat.min (length nonces) (length pkts) /\
      Forall (fun f => integrity_ok f = true) (post_process nonces pkts).
    Proof.
      induction nonces as [|n ns IH]; intros pkts Hn Hp; [split; [reflexivity|constructor]|].
      destruct pkts as [|p ps]; [split; [reflexivity|constructor]|].
      inversion Hn; inversion Hp; subst. destruct (IH ps) as [Hl Hf]; auto.
      cbn [Gate.post_process length Nat.min]. split; [rewrite Hl; reflexivity|].
      constructor; [apply frame_ok; assumption|assumption].
    Qed.
  End Frames.

  (* ---- guaranteed detection, CRC classes (statements at the CRC-covered = decrypted bytes) *)

  Lemma not_short_len d d' : blen d' = blen d -> too_short d' = too_short d.
  Proof. unfold Gate.too_short. intros ->. reflexivity. Qed.

  (* any change of the stored 4 bytes, everything after them being equal, fails the check *)
  Lemma crc_field d d' :
    g_class cfg = ClassCrc ->
    integrity_ok d = true ->
    bytes_ok (dec d) -> bytes_ok (dec d') -> blen (dec d) = blen d -> blen (dec d') = blen d' ->
    blen d' = blen d ->
    crc_covered d' = crc_covered d ->
    btake c_crcSize (bdrop c_nonceSize (dec d')) <> btake c_crcSize (bdrop c_nonceSize (dec d)) ->
    integrity_ok d' = false.
  Proof.
    clear enc seal.
    intros Hc Hok Hb Hb' Hld Hld' Hlen Hcov Hne.
    unfold Gate.integrity_ok in *. rewrite (not_short_len d d' Hlen).
    unfold Gate.too_short in *. rewrite Hc in *.
    destruct (blen d <? c_cryptHeaderSize) eqn:Hs; [discriminate|]. cbn [negb andb] in *.
    apply Z.ltb_ge in Hs. rewrite Hcov. apply Z.eqb_eq in Hok. rewrite Hok.
    apply Z.eqb_neq. intros Heq. apply Hne. unfold Gate.crc_stored, btake in *.
    change (Z.to_nat c_crcSize) with 4%nat.
    assert (Hsk : forall x, bytes_ok x -> c_cryptHeaderSize <= blen x ->
                  bytes_ok (bdrop c_nonceSize x) /\ (4 <= length (bdrop c_nonceSize x))%nat).
    { intros x Hx Hl. split.
      - unfold bytes_ok, bdrop in *. rewrite Forall_forall in *. intros y Hy. apply Hx.
        rewrite <- (firstn_skipn (Z.to_nat c_nonceSize) x). apply in_or_app. right. assumption.
      - unfold bdrop, blen in *. rewrite skipn_length.
        unfold c_cryptHeaderSize, c_nonceSize in *. lia. }
    destruct (Hsk (dec d) Hb ltac:(lia)) as [? ?]. destruct (Hsk (dec d') Hb' ltac:(lia)) as [? ?].
    apply rd32_inj; auto.
  Qed.

  (* a <= 32-bit error burst in the CRC-covered bytes, header bytes equal, fails the check *)
  Lemma crc_burst_gate d d' e (s : nat) :
    g_class cfg = ClassCrc ->
    integrity_ok d = true ->
    blen d' = blen d ->
    btake c_cryptHeaderSize (dec d') = btake c_cryptHeaderSize (dec d) ->
    crc_covered d' = xor_bytes (crc_covered d) e ->
    bytes_ok e -> length e = length (crc_covered d) ->
    (exists p, bit_at e p = true) ->
    (forall p, bit_at e p = true -> (s <= p < s + 32)%nat) ->
    integrity_ok d' = false.
  Proof.
    intros Hc Hok Hlen Hhdr Hcov He Hle Hex Hwin.
    unfold Gate.integrity_ok in *. rewrite (not_short_len d d' Hlen).
    unfold Gate.too_short in *. rewrite Hc in *.
    destruct (blen d <? c_cryptHeaderSize) eqn:Hs; [discriminate|]. cbn [negb andb] in *.
    assert (Hst : crc_stored d' = crc_stored d).
    { unfold Gate.crc_stored. rewrite <- (rd32_firstn4 (bdrop _ (dec d'))), <- (rd32_firstn4 (bdrop _ (dec d))).
      unfold bdrop, btake in *. rewrite !firstn_skipn_comm.
      change (Z.to_nat c_nonceSize + 4)%nat with (Z.to_nat c_cryptHeaderSize). rewrite Hhdr. reflexivity. }
    rewrite Hst, Hcov. apply Z.eqb_eq in Hok. rewrite <- Hok. apply Z.eqb_neq.
    apply (crc_burst _ e s); assumption.
  Qed.

  (* ---- wire level.  A cipher is "stream-like beyond k bytes" when a wire error pattern that
     leaves the first k bytes alone comes out of decryption as the same pattern. *)
  Definition stream_like_beyond (k : nat) : Prop :=
    forall d e, length e = length d -> (forall i, (i < k)%nat -> nth i e 0 = 0) ->
      dec (xor_bytes d e) = xor_bytes (dec d) e.

  Lemma wire_level k d e (s : nat) :
    g_class cfg = ClassCrc ->
    stream_like_beyond k -> (k <= Z.to_nat c_cryptHeaderSize)%nat ->
    (forall x, length (dec x) = length x) ->
    integrity_ok d = true ->
    bytes_ok e -> (length e + Z.to_nat c_cryptHeaderSize = length d)%nat ->
    (exists p, bit_at e p = true) ->
    (forall p, bit_at e p = true -> (s <= p < s + 32)%nat) ->
    integrity_ok (xor_bytes d (repeat 0 (Z.to_nat c_cryptHeaderSize) ++ e)) = false.
  Proof.
    clear enc seal.
    intros Hc Hsl Hk Hdl Hok He Hle Hex Hwin.
    set (h := Z.to_nat c_cryptHeaderSize) in *.
    set (E := repeat 0 h ++ e).
    assert (HlE : length E = length d) by (unfold E; rewrite app_length, repeat_length; lia).
    assert (Hdec : dec (xor_bytes d E) = xor_bytes (dec d) E).
    { apply Hsl; [assumption|]. intros i Hi. unfold E. rewrite app_nth1 by (rewrite repeat_length; lia).
      apply nth_repeat. }
    assert (Hsplit : dec d = firstn h (dec d) ++ skipn h (dec d)) by (symmetry; apply firstn_skipn).
    assert (Hfl : length (firstn h (dec d)) = h) by (rewrite firstn_length, Hdl; lia).
    assert (Hx : xor_bytes (dec d) E = firstn h (dec d) ++ xor_bytes (skipn h (dec d)) e).
    { rewrite Hsplit at 1. unfold E. rewrite xor_bytes_app by (rewrite repeat_length; assumption).
      rewrite <- Hfl at 2. rewrite xor_bytes_zeros. reflexivity. }
    apply (crc_burst_gate d _ e s); try assumption.
    - unfold blen. rewrite xor_bytes_length; [reflexivity|lia].
    - rewrite Hdec, Hx. unfold btake. fold h. rewrite firstn_app, Hfl, Nat.sub_diag, firstn_firstn, Nat.min_id.
      cbn. apply app_nil_r.
    - unfold Gate.crc_covered, bdrop. fold h. rewrite Hdec, Hx.
      rewrite skipn_app, Hfl, Nat.sub_diag. rewrite <- Hfl at 1. rewrite skipn_all. reflexivity.
    - unfold Gate.crc_covered, bdrop. fold h. rewrite skipn_length, Hdl. lia.
  Qed.

  (* ---- AEAD.  The cryptographic idealisation, relative to what the legitimate sender has
     sealed so far (`sent`: nonce, plaintext): Open succeeds only on an output of Seal under the
     same nonce.  It is a premise of the theorem below, nothing else depends on it. *)
  Definition aead_authentic (sent : list (bytes * bytes)) : Prop :=
    forall n c p, open n c = Some p -> In (n, p) sent /\ c = seal n p.

  Lemma aead_any_change sent d :
    g_class cfg = ClassAead ->
    aead_authentic sent ->
    (forall n p, In (n, p) sent -> blen n = g_aead_nonce cfg) ->
    0 <= g_aead_nonce cfg ->
    ~ In d (map (fun np => fst np ++ seal (fst np) (snd np)) sent) ->
    integrity_ok d = false.
  Proof.
    intros Hc Hauth Hn Hnn Hnot. unfold Gate.integrity_ok. rewrite Hc.
    destruct (negb (too_short d)); [cbn [andb]|reflexivity].
    destruct (open _ _) as [p|] eqn:Ho; [|reflexivity]. exfalso.
    destruct (Hauth _ _ _ Ho) as [Hin Hct]. apply Hnot.
    apply in_map_iff. exists (btake (g_aead_nonce cfg) d, p). split; [|assumption].
    cbn [fst snd]. rewrite <- Hct. unfold btake, bdrop. apply firstn_skipn.
  Qed.
End GateData.

Section GateProofs.
  Variable core_state : Type.
  Variable kcp_input : core_state -> bytes -> core_state.
  Variable new_core : Z -> core_state.
  Variables enc dec : bytes -> bytes.
  Variable seal : bytes -> bytes -> bytes.
  Variable open : bytes -> bytes -> option bytes.
  Variable cfg : gate_cfg.
  Variable addr : Type.
  Variable addr_eqb : addr -> addr -> bool.

  Notation sess := (sess core_state).
  Notation listener := (listener core_state addr).
  Notation too_short := (too_short cfg).
  Notation integrity_ok := (integrity_ok dec open cfg).
  Notation crc_covered := (crc_covered dec).
  Notation crc_stored := (crc_stored dec).
  Notation sess_packet_input := (sess_packet_input core_state kcp_input dec open cfg).
  Notation sess_after_gate := (sess_after_gate core_state kcp_input).
  Notation l_packet_input := (l_packet_input core_state kcp_input new_core dec open cfg addr addr_eqb).
  Notation l_after_gate := (l_after_gate core_state kcp_input new_core addr addr_eqb).
  Notation frame := (frame enc seal cfg).
  Notation post_process := (post_process enc seal cfg).


  (* A datagram that fails the check, or is too short to carry one, leaves the WHOLE session
     value unchanged; the outcome tells which counter moved (none / InCsumErrors). *)
  Lemma session_noop (s : sess) d :
    integrity_ok d = false -> sess_packet_input s d = (s, error_outcome cfg d).
  Proof.
    unfold Gate.integrity_ok, error_outcome, Gate.too_short, Gate.sess_packet_input,
      Gate.crc_covered, Gate.crc_stored.
    destruct (g_class cfg).
    - destruct (blen d <? c_cryptHeaderSize); [reflexivity|].
      cbn [negb andb]. rewrite bdrop_bdrop_hdr. intros ->. reflexivity.
    - destruct (blen d <? g_aead_nonce cfg + g_aead_overhead cfg); [reflexivity|].
      cbn [negb andb]. destruct (open _ _); [discriminate|reflexivity].
  Qed.

  (* The same for the listener: the session table (hence every session in it) and the accept
     queue are unchanged; in particular no session is created. *)
  Lemma listener_noop (l : listener) d a :
    integrity_ok d = false -> l_packet_input l d a = (l, error_outcome cfg d).
  Proof.
    unfold Gate.integrity_ok, error_outcome, Gate.too_short, Gate.l_packet_input,
      Gate.crc_covered, Gate.crc_stored.
    destruct (g_class cfg).
    - destruct (blen d <? c_cryptHeaderSize); [reflexivity|].
      cbn [negb andb]. rewrite bdrop_bdrop_hdr. intros ->. reflexivity.
    - destruct (blen d <? g_aead_nonce cfg + g_aead_overhead cfg); [reflexivity|].
      cbn [negb andb]. destruct (open _ _); [discriminate|reflexivity].
  Qed.

  (* Conversely the code behind the gate runs only on datagrams that pass. *)
  Lemma session_reached_only_if_ok (s : sess) d :
    integrity_ok d = true ->
    exists payload, sess_packet_input s d = sess_after_gate s payload /\
      match g_class cfg with
      | ClassCrc => payload = crc_covered d /\ crc32 payload = crc_stored d
      | ClassAead => open (btake (g_aead_nonce cfg) d) (bdrop (g_aead_nonce cfg) d) = Some payload
      end.
  Proof.
    unfold Gate.integrity_ok, Gate.too_short, Gate.sess_packet_input, Gate.crc_covered, Gate.crc_stored.
    destruct (g_class cfg).
    - destruct (blen d <? c_cryptHeaderSize); [discriminate|].
      cbn [negb andb]. rewrite bdrop_bdrop_hdr. intros H. rewrite H. cbn [negb].
      eexists; split; [reflexivity|]. split; [reflexivity|]. apply Z.eqb_eq, H.
    - destruct (blen d <? g_aead_nonce cfg + g_aead_overhead cfg); [discriminate|].
      cbn [negb andb]. destruct (open _ _) as [pt|]; [|discriminate].
      intros _. exists pt. split; reflexivity.
  Qed.

  Lemma listener_reached_only_if_ok (l : listener) d a :
    integrity_ok d = true ->
    exists payload, l_packet_input l d a = l_after_gate l payload a /\
      match g_class cfg with
      | ClassCrc => payload = crc_covered d /\ crc32 payload = crc_stored d
      | ClassAead => open (btake (g_aead_nonce cfg) d) (bdrop (g_aead_nonce cfg) d) = Some payload
      end.
  Proof.
    unfold Gate.integrity_ok, Gate.too_short, Gate.l_packet_input, Gate.crc_covered, Gate.crc_stored.
    destruct (g_class cfg).
    - destruct (blen d <? c_cryptHeaderSize); [discriminate|].
      cbn [negb andb]. rewrite bdrop_bdrop_hdr. intros H. rewrite H. cbn [negb].
      eexists; split; [reflexivity|]. split; [reflexivity|]. apply Z.eqb_eq, H.
    - destruct (blen d <? g_aead_nonce cfg + g_aead_overhead cfg); [discriminate|].
      cbn [negb andb]. destruct (open _ _) as [pt|]; [|discriminate].
      intros _. exists pt. split; reflexivity.
  Qed.

  (* Delivered (session) / any table change (listener) implies the datagram passed. *)
  Lemma session_changed_only_if_ok (s : sess) d :
    fst (sess_packet_input s d) <> s -> integrity_ok d = true.
  Proof.
    intros H. destruct (integrity_ok d) eqn:E; [reflexivity|].
    rewrite (session_noop s d E) in H. contradiction H. reflexivity.
  Qed.

  Lemma listener_changed_only_if_ok (l : listener) d a :
    fst (l_packet_input l d a) <> l -> integrity_ok d = true.
  Proof.
    intros H. destruct (integrity_ok d) eqn:E; [reflexivity|].
    rewrite (listener_noop l d a E) in H. contradiction H. reflexivity.
  Qed.

  (* The CRC input is exactly the bytes after the CRC field, and exactly those bytes are what
     is handed on; the stored value is read from the 4 bytes after the nonce. *)
  Lemma crc_covers (s : sess) d :
    g_class cfg = ClassCrc -> c_cryptHeaderSize <= blen d ->
    sess_packet_input s d =
      if crc32 (bdrop c_cryptHeaderSize (dec d)) =? rd32 (btake c_crcSize (bdrop c_nonceSize (dec d)))
      then sess_after_gate s (bdrop c_cryptHeaderSize (dec d))
      else (s, CsumErr).
  Proof.
    intros Hc Hlen. unfold Gate.sess_packet_input. rewrite Hc.
    replace (blen d <? c_cryptHeaderSize) with false by (symmetry; apply Z.ltb_ge; assumption).
    rewrite bdrop_bdrop_hdr. unfold btake. change (Z.to_nat c_crcSize) with 4%nat.
    rewrite rd32_firstn4. destruct (_ =? _); reflexivity.
  Qed.

  (* ... and the receiver gets exactly the payload that was framed. *)
  Lemma frame_delivers (s : sess) nonce payload :
    (forall x, dec (enc x) = x) -> (forall x, length (enc x) = length x) ->
    (forall n p, open n (seal n p) = Some p) ->
    (forall n p, blen (seal n p) = blen p + g_aead_overhead cfg) ->
    nonce_ok cfg nonce -> bytes_ok payload ->
    sess_packet_input s (frame nonce payload) = sess_after_gate s payload.
  Proof.
    intros dec_enc enc_length open_seal seal_length Hn Hp.
    pose proof (frame_ok enc dec seal open cfg dec_enc enc_length open_seal seal_length nonce payload Hn Hp) as Hok.
    destruct (session_reached_only_if_ok s _ Hok) as [pl [-> Hpl]]. f_equal.
    revert Hpl. unfold nonce_ok, Gate.frame, Gate.crc_covered in *. destruct (g_class cfg).
    - intros [-> _]. rewrite dec_enc, <- bdrop_bdrop_hdr, (bdrop_app_exact c_nonceSize) by assumption.
      apply bdrop_app_exact. unfold blen; rewrite le32_length; reflexivity.
    - rewrite (btake_app_exact _ _ _ Hn), (bdrop_app_exact _ _ _ Hn), open_seal. congruence.
  Qed.
End GateProofs.

(* ------------------------------------------------------------------ stream-like instances *)

(* none: Decrypt copies *)
Lemma stream_like_none : stream_like_beyond (fun x => x) 0.
Proof. intros d e _ _. reflexivity. Qed.

(* xor: Decrypt xors with a fixed pad (1500 bytes in crypt.go, any pad here) *)
Lemma xor_bytes_firstn a : forall b n, firstn n (xor_bytes a b) = xor_bytes (firstn n a) (firstn n b).
Proof.
  induction a as [|x a IH]; intros b n.
  - destruct n; reflexivity.
  - destruct b as [|y b]; [destruct n; cbn; [reflexivity|destruct (firstn n (x :: a)); reflexivity]|].
    destruct n; [reflexivity|]. cbn. rewrite IH. reflexivity.
Qed.

Lemma xor_bytes_assoc_swap a : forall b c, xor_bytes (xor_bytes a b) c = xor_bytes (xor_bytes a c) b.
Proof.
  induction a as [|x a IH]; intros [|y b] [|z c]; try reflexivity.
  cbn. rewrite IH. f_equal. rewrite !Z.lxor_assoc, (Z.lxor_comm y z). reflexivity.
Qed.

Lemma stream_like_pad (ks : nat -> bytes) :
  (forall n, length (ks n) = n) ->
  stream_like_beyond (fun x => xor_bytes x (ks (length x))) 0.
Proof.
  intros Hks d e Hl _. rewrite xor_bytes_length by lia. apply xor_bytes_assoc_swap.
Qed.

(* salsa20-like: the first k bytes are clear and select the key stream for the rest *)
Definition prefix_stream_dec (k : nat) (ks : bytes -> nat -> bytes) (x : bytes) : bytes :=
  firstn k x ++ xor_bytes (skipn k x) (ks (firstn k x) (length x - k)%nat).

Lemma xor_bytes_skipn a : forall b n, skipn n (xor_bytes a b) = xor_bytes (skipn n a) (skipn n b).
Proof.
  induction a as [|x a IH]; intros b n.
  - destruct n; reflexivity.
  - destruct b as [|y b]; [destruct n; cbn; [reflexivity|destruct (skipn n a); reflexivity]|].
    destruct n; [reflexivity|]. cbn. apply IH.
Qed.

Lemma firstn_zero_prefix e : forall k, (forall i, (i < k)%nat -> nth i e 0 = 0) -> (k <= length e)%nat ->
  firstn k e = repeat 0 k.
Proof.
  induction e as [|x e IH]; intros k Hz Hk.
  - cbn in Hk. assert (k = 0)%nat by lia. subst. reflexivity.
  - destruct k; [reflexivity|]. cbn [firstn repeat].
    pose proof (Hz 0%nat ltac:(lia)) as H0. cbn in H0. subst x. f_equal.
    apply IH; [|cbn in Hk; lia]. intros i Hi. apply (Hz (S i)). lia.
Qed.

Lemma stream_like_prefix k ks :
  stream_like_beyond (prefix_stream_dec k ks) k.
Proof.
  intros d e Hl Hz. unfold prefix_stream_dec.
  destruct (Nat.le_gt_cases k (length d)) as [Hk|Hk].
  - assert (Hz' : firstn k e = repeat 0 (length (firstn k d))).
    { rewrite (firstn_length_le d Hk). apply firstn_zero_prefix; [assumption|lia]. }
    assert (Hf : firstn k (xor_bytes d e) = firstn k d).
    { rewrite xor_bytes_firstn, Hz'. apply xor_bytes_zeros. }
    rewrite Hf, xor_bytes_length by lia.
    set (K := ks (firstn k d) (length d - k)%nat).
    replace (xor_bytes (firstn k d ++ xor_bytes (skipn k d) K) e)
      with (xor_bytes (firstn k d ++ xor_bytes (skipn k d) K) (firstn k e ++ skipn k e))
      by (rewrite firstn_skipn; reflexivity).
    rewrite xor_bytes_app by (rewrite !firstn_length; lia).
    rewrite Hz', xor_bytes_zeros. f_equal.
    rewrite xor_bytes_skipn. apply xor_bytes_assoc_swap.
  - rewrite !firstn_all2, !skipn_all2 by (rewrite ?xor_bytes_length; lia).
    cbn [xor_bytes]. rewrite !app_nil_r. reflexivity.
Qed.

(* ------------------------------------------------------------------ CFB is NOT stream-like *)

(* textbook CFB decryption over whole blocks: p_i = c_i xor E(c_{i-1}), c_0 = IV *)
Fixpoint cfb_dec_blocks (E : bytes -> bytes) (prev : bytes) (cs : list bytes) : list bytes :=
  match cs with
  | [] => []
  | c :: t => xor_bytes c (E prev) :: cfb_dec_blocks E c t
  end.

Definition toyE (b : bytes) : bytes := repeat ((fold_right Z.add 0 b * 37 + 11) mod 256) 8.

(* one bit flipped on the wire in block 1 comes out of decryption as that bit (position 64) AND a
   garbled block 2 (a set bit at position 128): not a burst of <= 32 bits any more *)
Lemma cfb_wire_burst_spreads :
  let iv := repeat 0 8 in
  let c  := [[1;2;3;4;5;6;7;8]; [9;10;11;12;13;14;15;16]; [17;18;19;20;21;22;23;24]] in
  let c' := [[1;2;3;4;5;6;7;8]; [8;10;11;12;13;14;15;16]; [17;18;19;20;21;22;23;24]] in
  let diff := xor_bytes (concat (cfb_dec_blocks toyE iv c)) (concat (cfb_dec_blocks toyE iv c')) in
  xor_bytes (concat c) (concat c') = repeat 0 8 ++ [1] ++ repeat 0 15 /\
  bit_at diff 64 = true /\ bit_at diff 128 = true.
Proof. vm_compute. repeat split. Qed.

(* ------------------------------------------------------------------ concrete instances *)

(* The none cipher (enc = dec = copy), unit core that records what reaches kcpInput. *)
Definition ex_cfg : gate_cfg := mkCfg ClassCrc 0 0.
Definition ex_input (st : list bytes) (data : bytes) : list bytes := st ++ [data].
Definition ex_open (_ _ : bytes) : option bytes := None.
Definition ex_seal (_ p : bytes) : bytes := p.
Definition ex_id (x : bytes) : bytes := x.
Definition ex_nonce : bytes := [1;2;3;4;5;6;7;8;9;10;11;12;13;14;15;16].
(* a 24-byte KCP header (conv 7, cmd 81 PUSH ...) + 3 data bytes *)
Definition ex_payload : bytes := [7;0;0;0; 81;0;32;0; 0;0;0;0; 0;0;0;0; 0;0;0;0; 3;0;0;0; 65;66;67].
Definition ex_frame : bytes := frame ex_id ex_seal ex_cfg ex_nonce ex_payload.
Definition ex_sess : sess (list bytes) := mkSess _ 7 [].
(* bit 3 of byte 25 flipped (CRC-covered region) *)
Definition ex_flip (d : bytes) (i : nat) (m : Z) : bytes :=
  firstn i d ++ [Z.lxor (nth i d 0) m] ++ skipn (S i) d.

Lemma ex_valid_passes :
  integrity_ok ex_id ex_open ex_cfg ex_frame = true /\
  sess_packet_input _ ex_input ex_id ex_open ex_cfg ex_sess ex_frame
    = (mkSess _ 7 [ex_payload], Delivered).
Proof. vm_compute. split; reflexivity. Qed.

Lemma ex_corrupt_dropped :
  integrity_ok ex_id ex_open ex_cfg (ex_flip ex_frame 25 8) = false /\
  integrity_ok ex_id ex_open ex_cfg (ex_flip ex_frame 17 1) = false /\   (* stored CRC *)
  integrity_ok ex_id ex_open ex_cfg (firstn 19 ex_frame) = false /\      (* too short *)
  too_short ex_cfg (firstn 19 ex_frame) = true /\
  sess_packet_input _ ex_input ex_id ex_open ex_cfg ex_sess (ex_flip ex_frame 25 8)
    = (ex_sess, CsumErr) /\
  sess_packet_input _ ex_input ex_id ex_open ex_cfg ex_sess (firstn 19 ex_frame)
    = (ex_sess, ShortDropped).
Proof. vm_compute. repeat split. Qed.

Lemma ex_listener :
  let l0 := mkListener (list bytes) nat [] [] in
  let inp := l_packet_input _ ex_input (fun _ => []) ex_id ex_open ex_cfg nat Nat.eqb in
  inp l0 ex_frame 5%nat = (mkListener _ _ [(5%nat, mkSess _ 7 [ex_payload])] [(5%nat, 7)], Created) /\
  inp l0 (ex_flip ex_frame 25 8) 5%nat = (l0, CsumErr) /\
  inp l0 (firstn 19 ex_frame) 5%nat = (l0, ShortDropped).
Proof. vm_compute. repeat split. Qed.

(* ------------------------------------------------------------------ compositions stated in C06.v *)

Lemma reached_only_if_ok :
  forall (core_state : Type) (kcp_input : core_state -> bytes -> core_state)
         (new_core : Z -> core_state)
         (dec : bytes -> bytes) (open : bytes -> bytes -> option bytes) (cfg : gate_cfg)
         (addr : Type) (addr_eqb : addr -> addr -> bool)
         (s : sess core_state) (l : listener core_state addr) (d : bytes) (a : addr),
    (fst (sess_packet_input core_state kcp_input dec open cfg s d) <> s ->
       integrity_ok dec open cfg d = true) /\
    (fst (l_packet_input core_state kcp_input new_core dec open cfg addr addr_eqb l d a) <> l ->
       integrity_ok dec open cfg d = true) /\
    (integrity_ok dec open cfg d = true ->
       exists payload,
         sess_packet_input core_state kcp_input dec open cfg s d
           = sess_after_gate core_state kcp_input s payload /\
         l_packet_input core_state kcp_input new_core dec open cfg addr addr_eqb l d a
           = l_after_gate core_state kcp_input new_core addr addr_eqb l payload a /\
         match g_class cfg with
         | ClassCrc => payload = crc_covered dec d /\ crc32 payload = crc_stored dec d
         | ClassAead => open (btake (g_aead_nonce cfg) d) (bdrop (g_aead_nonce cfg) d) = Some payload
         end).
Proof.
  intros. split; [apply session_changed_only_if_ok|split; [apply listener_changed_only_if_ok|]].
  intros H.
  destruct (session_reached_only_if_ok core_state kcp_input dec open cfg s d H) as [p [Hs Hp]].
  destruct (listener_reached_only_if_ok core_state kcp_input new_core dec open cfg addr addr_eqb l d a H)
    as [p' [Hl Hp']].
  assert (p' = p) as ->.
  { destruct (g_class cfg); [destruct Hp, Hp'; congruence|congruence]. }
  exists p. auto.
Qed.

Lemma gate_not_vacuous :
  forall (core_state : Type) (kcp_input : core_state -> bytes -> core_state)
         (enc dec : bytes -> bytes) (seal : bytes -> bytes -> bytes)
         (open : bytes -> bytes -> option bytes) (cfg : gate_cfg),
    (forall x, dec (enc x) = x) -> (forall x, length (enc x) = length x) ->
    (forall n p, open n (seal n p) = Some p) ->
    (forall n p, blen (seal n p) = blen p + g_aead_overhead cfg) ->
    forall (s : sess core_state) (nonce payload : bytes),
      nonce_ok cfg nonce -> bytes_ok payload ->
      integrity_ok dec open cfg (frame enc seal cfg nonce payload) = true /\
      sess_packet_input core_state kcp_input dec open cfg s (frame enc seal cfg nonce payload)
        = sess_after_gate core_state kcp_input s payload.
Proof.
  intros. split; [apply frame_ok|apply frame_delivers]; assumption.
Qed.

Lemma stream_like_classes :
  stream_like_beyond (fun x => x) 0 /\
  (forall ks : nat -> bytes, (forall n, length (ks n) = n) ->
     stream_like_beyond (fun x => xor_bytes x (ks (length x))) 0) /\
  (forall (k : nat) (ks : bytes -> nat -> bytes), stream_like_beyond (prefix_stream_dec k ks) k).
Proof.
  split; [exact stream_like_none|split; [exact stream_like_pad|exact stream_like_prefix]].
Qed.
