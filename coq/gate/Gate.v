(* The integrity gate of sess.go: UDPSession.packetInput, Listener.packetInput, and what
   postProcess puts in front of a packet.  Model file: definitions only, all executable.

   Everything BEHIND the gate is deliberately abstract: `core_state` stands for the whole
   mutable state reachable from a *UDPSession (KCP core, FEC decoder with its autotune rings,
   reader carry-over recvbuf/bufptr, the pending chReadEvent/chWriteEvent tokens, OOB
   deliveries ...), and `kcp_input` for UDPSession.kcpInput.  The property is about the code in
   front of it.

   Ciphers are section variables: (enc, dec) for the classes that go through
   BlockCrypt.Encrypt/Decrypt and carry a CRC32 (CFB block ciphers, salsa20, xor, none), and
   (seal, open) for *aeadCrypt.  The nil cipher is not modelled: the property speaks of
   configured ciphers only. *)
From Coq Require Import ZArith List Bool.
From KV.Base Require Import Word Consts.
From KV.Gate Require Import Crc.
Import ListNotations.
Local Open Scope Z_scope.

Definition bytes := list Z.
Definition blen (d : bytes) : Z := Z.of_nat (length d).
Definition bdrop (n : Z) (d : bytes) : bytes := skipn (Z.to_nat n) d.   (* d[n:] *)
Definition btake (n : Z) (d : bytes) : bytes := firstn (Z.to_nat n) d.  (* d[:n] *)

Inductive cipher_class := ClassCrc | ClassAead.

(* block.NonceSize() and block.Overhead() are run-time values of the cipher.AEAD (12 and 16 for
   AES-GCM); they are configuration, not constants of /repo. *)
Record gate_cfg := mkCfg { g_class : cipher_class; g_aead_nonce : Z; g_aead_overhead : Z }.

(* What happened to a datagram; the comments name the SNMP counter the code bumps. *)
Inductive outcome :=
| ShortDropped          (* shorter than the crypto header: return, no counter *)
| CsumErr               (* DefaultSnmp.InCsumErrors += 1 *)
| InErr                 (* session path, payload below the minimum: KCPInErrors += 1 *)
| PayloadShortDropped   (* listener path, payload below the minimum: return, no counter *)
| Delivered             (* session path: handed to kcpInput *)
| HeaderShortDropped    (* listener, no FEC marker and len < IKCP_OVERHEAD: return *)
| Routed                (* listener: handed to the existing session's kcpInput *)
| ConvMismatchDropped   (* listener: other conversation, sn <> 0: return *)
| NoConvDropped         (* listener: no session and no conversation id in the packet *)
| BacklogFull           (* listener: accept queue full, no session created *)
| Created.              (* listener: new session created, fed, registered, queued *)

(* min(IKCP_OVERHEAD, fecHeaderSizePlus2+convSize) *)
Definition min_payload : Z := Z.min c_IKCP_OVERHEAD (c_fecHeaderSizePlus2 + c_convSize).

Section Gate.
  Variable core_state : Type.
  Variable kcp_input : core_state -> bytes -> core_state.
  Variable new_core : Z -> core_state.                 (* newUDPSession(conv, ...) *)
  Variables enc dec : bytes -> bytes.                  (* block.Encrypt / block.Decrypt *)
  Variable seal : bytes -> bytes -> bytes.             (* nonce -> plaintext -> ciphertext||tag *)
  Variable open : bytes -> bytes -> option bytes.      (* nonce -> ciphertext||tag -> plaintext *)
  Variable cfg : gate_cfg.

  Record sess := mkSess { s_conv : Z; s_core : core_state }.

  (* ---- the property's vocabulary, written from its text *)

  (* "too short to carry one" *)
  Definition too_short (d : bytes) : bool :=
    match g_class cfg with
    | ClassCrc => blen d <? c_cryptHeaderSize
    | ClassAead => blen d <? g_aead_nonce cfg + g_aead_overhead cfg
    end.

  Definition crc_stored (d : bytes) : Z := rd32 (bdrop c_nonceSize (dec d)).
  Definition crc_covered (d : bytes) : bytes := bdrop c_cryptHeaderSize (dec d).

  (* "passes the integrity check" *)
  Definition integrity_ok (d : bytes) : bool :=
    negb (too_short d) &&
    match g_class cfg with
    | ClassCrc => crc32 (crc_covered d) =? crc_stored d
    | ClassAead =>
        match open (btake (g_aead_nonce cfg) d) (bdrop (g_aead_nonce cfg) d) with
        | Some _ => true
        | None => false
        end
    end.

  (* ---- UDPSession.kcpInput / packetInput *)

  Definition sess_kcp_input (s : sess) (data : bytes) : sess :=
    mkSess (s_conv s) (kcp_input (s_core s) data).

  (* the tail of packetInput: minimum size, then kcpInput *)
  Definition sess_after_gate (s : sess) (data : bytes) : sess * outcome :=
    if blen data <? min_payload then (s, InErr) else (sess_kcp_input s data, Delivered).

  Definition sess_packet_input (s : sess) (d : bytes) : sess * outcome :=
    match g_class cfg with
    | ClassAead =>
        let nonceSize := g_aead_nonce cfg in
        if blen d <? nonceSize + g_aead_overhead cfg then (s, ShortDropped) else
        let nonce := btake nonceSize d in
        let ciphertext := bdrop nonceSize d in
        match open nonce ciphertext with
        | None => (s, CsumErr)
        | Some plaintext => sess_after_gate s plaintext
        end
    | ClassCrc =>
        if blen d <? c_cryptHeaderSize then (s, ShortDropped) else
        let data := bdrop c_nonceSize (dec d) in          (* Decrypt(data,data); data[nonceSize:] *)
        let checksum := crc32 (bdrop c_crcSize data) in
        if negb (checksum =? rd32 data) then (s, CsumErr) else
        sess_after_gate s (bdrop c_crcSize data)
    end.

  (* ---- Listener *)

  Variable addr : Type.
  Variable addr_eqb : addr -> addr -> bool.

  (* sessions: addr.String() -> *UDPSession; accepts: the content of chAccepts, oldest first,
     each queued session identified by (address, conversation). *)
  Record listener := mkListener { l_sessions : list (addr * sess); l_accepts : list (addr * Z) }.

  Fixpoint tbl_get (a : addr) (t : list (addr * sess)) : option sess :=
    match t with
    | [] => None
    | (a', s) :: t' => if addr_eqb a a' then Some s else tbl_get a t'
    end.
  Fixpoint tbl_del (a : addr) (t : list (addr * sess)) : list (addr * sess) :=
    match t with
    | [] => []
    | (a', s) :: t' => if addr_eqb a a' then tbl_del a t' else (a', s) :: tbl_del a t'
    end.
  Definition tbl_set (a : addr) (s : sess) (t : list (addr * sess)) : list (addr * sess) :=
    (a, s) :: tbl_del a t.

  (* conversation id / sn extraction: Some (hasConv, conv, sn), or None for the early return *)
  Definition l_header (data : bytes) : option (bool * Z * Z) :=
    let fecFlag := rd16 (bdrop 4 data) in
    if fecFlag =? c_typeData then
      if blen data <? c_fecHeaderSizePlus2 + c_IKCP_OVERHEAD then Some (false, 0, 0)
      else Some (true, rd32 (bdrop c_fecHeaderSizePlus2 data),
                 rd32 (bdrop (c_fecHeaderSizePlus2 + c_IKCP_SN_OFFSET) data))
    else if fecFlag =? c_typeParity then Some (false, 0, 0)
    else if fecFlag =? c_typeOOB then Some (true, rd32 (bdrop c_fecHeaderSizePlus2 data), 0)
    else if blen data <? c_IKCP_OVERHEAD then None
    else Some (true, rd32 data, rd32 (bdrop c_IKCP_SN_OFFSET data)).

  Definition l_create (l : listener) (a : addr) (hasConv : bool) (conv : Z) (data : bytes)
    : listener * outcome :=
    if negb hasConv then (l, NoConvDropped) else
    if c_acceptBacklog <=? Z.of_nat (length (l_accepts l)) then (l, BacklogFull) else
    let s := sess_kcp_input (mkSess conv (new_core conv)) data in
    (mkListener (tbl_set a s (l_sessions l)) (l_accepts l ++ [(a, conv)]), Created).

  (* the part of Listener.packetInput behind the gate *)
  Definition l_after_gate (l : listener) (data : bytes) (a : addr) : listener * outcome :=
    if blen data <? min_payload then (l, PayloadShortDropped) else
    match l_header data with
    | None => (l, HeaderShortDropped)
    | Some (hasConv, conv, sn) =>
        match tbl_get a (l_sessions l) with
        | Some s =>
            if negb hasConv || (conv =? s_conv s) then
              (mkListener (tbl_set a (sess_kcp_input s data) (l_sessions l)) (l_accepts l), Routed)
            else if negb (sn =? 0) then (l, ConvMismatchDropped)
            else (* s.Close() removes the session from the table *)
              l_create (mkListener (tbl_del a (l_sessions l)) (l_accepts l)) a hasConv conv data
        | None => l_create l a hasConv conv data
        end
    end.

  (* Listener.packetInput: the same gate, BEFORE the session lookup *)
  Definition l_packet_input (l : listener) (d : bytes) (a : addr) : listener * outcome :=
    match g_class cfg with
    | ClassAead =>
        let nonceSize := g_aead_nonce cfg in
        if blen d <? nonceSize + g_aead_overhead cfg then (l, ShortDropped) else
        let nonce := btake nonceSize d in
        let ciphertext := bdrop nonceSize d in
        match open nonce ciphertext with
        | None => (l, CsumErr)
        | Some plaintext => l_after_gate l plaintext a
        end
    | ClassCrc =>
        if blen d <? c_cryptHeaderSize then (l, ShortDropped) else
        let data := bdrop c_nonceSize (dec d) in
        let checksum := crc32 (bdrop c_crcSize data) in
        if negb (checksum =? rd32 data) then (l, CsumErr) else
        l_after_gate l (bdrop c_crcSize data) a
    end.

  (* ---- postProcess, stage 2: what is put around one packet given its nonce.
     `payload` is buf[cryptHeaderSize:] (resp. buf[nonceSize:] under AEAD): FEC header and
     KCP bytes, or a parity shard. *)
  Definition frame (nonce payload : bytes) : bytes :=
    match g_class cfg with
    | ClassCrc => enc (nonce ++ le32 (crc32 payload) ++ payload)
    | ClassAead => nonce ++ seal nonce payload
    end.

  (* one request = the data packet followed by the parity packets FEC produced for it; every
     one of them gets its own nonce and its own CRC / tag *)
  Fixpoint post_process (nonces : list bytes) (pkts : list bytes) : list bytes :=
    match nonces, pkts with
    | n :: ns, p :: ps => frame n p :: post_process ns ps
    | _, _ => []
    end.
End Gate.
