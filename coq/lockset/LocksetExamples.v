(* LocksetExamples.v - non-vacuity: the race predicate is satisfiable (a two-thread program with
   an unguarded write has an execution with a race, and the discipline rejects it); the same
   program with the write under a mutex is accepted and therefore race free. *)
From Coq Require Import List Bool Arith PeanoNat PArith Relations Lia.
From KV.Lockset Require Import Lockset LocksetProofs.
Import ListNotations.

Definition ex_x : sloc := Glob 1.
Definition ex_m : sloc := Glob 1.

(* one root, any number of activations: x = ... without a lock *)
Definition ex_racy : program :=
  mkProgram (mkThread 1 [] false false)
            [mkThread 1 [mkEdge 1 [] (Wr ex_x) 2 []] true true].

(* the same write between Lock and Unlock *)
Definition ex_locked : program :=
  mkProgram (mkThread 1 [] false false)
            [mkThread 1 [mkEdge 1 [] (Acq ex_m) 2 [(ex_m, true)];
                         mkEdge 2 [(ex_m, true)] (Wr ex_x) 3 [(ex_m, true)];
                         mkEdge 3 [(ex_m, true)] (Rel ex_m) 4 []] true true].

Lemma ex_racy_rejected : discipline_ok ex_racy = false.
Proof. vm_compute. reflexivity. Qed.
Lemma ex_locked_accepted : discipline_ok ex_locked = true.
Proof. vm_compute. reflexivity. Qed.
Lemma ex_locked_race_free : race_free ex_locked.
Proof. apply lockset_sound. exact ex_locked_accepted. Qed.

(* hb only goes forward in time *)
Lemma hb_lt tr i j : hb tr i j -> i < j.
Proof. intro H. induction H. - destruct H; auto. - lia. Qed.

(* the racy program races: two activations write x one after the other *)
Lemma ex_racy_races : exists tr s i j ei ej, exec ex_racy tr s /\ race tr i j ei ej.
Proof.
  set (t1 := T 0 0 0). set (t2 := T 0 0 1).
  set (e := mkEdge 1 [] (Wr ex_x) 2 []).
  set (s0 := init_state ex_racy).
  set (s1 := mkState (upd_node (st_node s0) t1 (2%positive, [])) (st_lk s0) true).
  set (s2 := mkState (upd_node (st_node s1) t2 (2%positive, [])) (st_lk s1) true).
  assert (S1 : step ex_racy s0 (t1, Wr ex_x) s1).
  { apply (step_intro ex_racy s0 t1 (mkThread 1 [e] true true) e (st_lk s0)).
    - reflexivity. - left; reflexivity. - reflexivity. - intro; discriminate. - constructor. }
  assert (S2 : step ex_racy s1 (t2, Wr ex_x) s2).
  { apply (step_intro ex_racy s1 t2 (mkThread 1 [e] true true) e (st_lk s1)).
    - reflexivity. - left; reflexivity. - reflexivity. - intro; discriminate. - constructor. }
  exists [(t2, Wr ex_x); (t1, Wr ex_x)], s2, 0, 1, (t1, Wr ex_x), (t2, Wr ex_x).
  split.
  - unfold exec. econstructor; [econstructor; [constructor | exact S1] | exact S2].
  - repeat split.
    + lia.
    + discriminate.
    + exists ex_x, KW, KW. repeat split; auto; intro; discriminate.
    + intro H. (* the only possible path is the single edge 0 -> 1, which is none of po/publication/sync *)
      assert (D : forall i j, hb [(t2, Wr ex_x); (t1, Wr ex_x)] i j -> i = 0 -> j = 1 -> False).
      { intros i j Hh. induction Hh as [i j H1 | i k j H1 IH1 H2 IH2]; intros -> ->.
        - destruct H1 as [ei ej _ Hi Hj Hor]. unfold at_time in Hi, Hj. simpl in Hi, Hj.
          inversion Hi; inversion Hj; subst. simpl in Hor.
          destruct Hor as [E | [E | E]]; try discriminate; auto.
        - apply hb_lt in H1. apply hb_lt in H2. lia. }
      exact (D 0 1 H eq_refl eq_refl).
Qed.
