(* C14 - concurrent use of sessions and listeners is free of data races.
   Statements only.  The general theorems are proved once in LocksetProofs.v; the theorems about
   kcp-go are computed (vm_compute) on the GENERATED access summary GenAccess.kcpgo_access. *)
From Coq Require Import List Bool Arith PArith Relations.
From KV.Lockset Require Import Lockset LocksetProofs LocksetExamples GenAccess.
Import ListNotations.

(* General soundness, all programs: if the computable discipline accepts P then no execution of
   P - any number of sessions, any number of concurrent callers of every root, any interleaving
   permitted by the mutexes - contains two conflicting accesses of different threads that are
   not ordered by happens-before (program order, publication, Unlock -> later Lock). *)
Theorem c14_lockset_sound : forall P, discipline_ok P = true -> race_free P.
Proof. exact lockset_sound. Qed.
Print Assumptions c14_lockset_sound.

(* ... and with an exception list X: every race of every execution is between two roots that X
   names for that location. *)
Theorem c14_lockset_sound_except :
  forall X P, discipline_ok_except X P = true -> race_free_except X P.
Proof. exact lockset_sound_except. Qed.
Print Assumptions c14_lockset_sound_except.

(* The core, independent of the discipline: two events of different threads, both made while
   holding one mutex (at least one of them exclusively), are ordered by happens-before. *)
Theorem c14_common_lock_ordered :
  forall P, thread_ok (p_main P) = true -> forallb thread_ok (p_roots P) = true ->
  forall tr l1 l2 l3 s1 s1' s2 s2' e1 e2 m b1 b2,
    tr = l3 ++ e2 :: l2 ++ e1 :: l1 ->
    exec P l1 s1 -> step P s1 e1 s1' -> exec_from P s1' l2 s2 -> step P s2 e2 s2' ->
    fst e1 <> fst e2 -> cl (fst e1) m = cl (fst e2) m -> b1 || b2 = true ->
    In (m, b1) (L s1 (fst e1)) -> snd e1 <> rel_act b1 m -> In (m, b2) (L s2 (fst e2)) ->
    hb tr (length l1) (length (l2 ++ e1 :: l1)).
Proof. exact common_lock_ordered. Qed.
Print Assumptions c14_common_lock_ordered.

(* Non-vacuity: the race predicate is satisfiable and the discipline separates the two toy
   programs (an unguarded write races and is rejected; the guarded one is accepted). *)
Example c14_race_is_satisfiable :
  (exists tr s i j ei ej, exec ex_racy tr s /\ race tr i j ei ej) /\
  discipline_ok ex_racy = false /\ discipline_ok ex_locked = true.
Proof. exact (conj ex_racy_races (conj ex_racy_rejected ex_locked_accepted)). Qed.

(* The generated summary is well bracketed: every edge of every control-flow graph changes the
   lock set exactly as its action says (no lock re-acquired, none released that is not held,
   equal lock sets wherever control-flow paths meet). *)
Theorem c14_kcpgo_well_bracketed :
  thread_ok (p_main kcpgo_access) = true /\ forallb thread_ok (p_roots kcpgo_access) = true.
Proof. vm_compute. split; reflexivity. Qed.
Print Assumptions c14_kcpgo_well_bracketed.

(* ... and it is not trivial: more than a thousand accesses over more than a hundred locations *)
Example c14_summary_nontrivial :
  Nat.ltb 1000 (length (accs kcpgo_access)) = true /\ Nat.ltb 100 (length (locs_of (accs kcpgo_access))) = true /\
  Nat.ltb 30 (length (p_roots kcpgo_access)) = true.
Proof. vm_compute. repeat split; reflexivity. Qed.

(* kcp-go: the discipline holds for the WHOLE summary, no exception list. *)
Theorem c14_kcpgo_race_free : discipline_ok kcpgo_access = true.
Proof. vm_compute. reflexivity. Qed.
Print Assumptions c14_kcpgo_race_free.

(* hence: no execution of the summarised program has a data race *)
Theorem c14_no_race : race_free kcpgo_access.
Proof. exact (lockset_sound kcpgo_access c14_kcpgo_race_free). Qed.
Print Assumptions c14_no_race.
