(* LocksetProofs.v - soundness of the lock discipline: discipline_ok P = true implies that no
   execution of P (any number of sessions, any number of concurrent callers, any interleaving)
   contains a data race.  The classic argument: two conflicting accesses made under a common
   lock are ordered by the release -> acquire edge between the two critical sections. *)
From Coq Require Import List Bool Arith PeanoNat PArith Relations Lia.
From KV.Lockset Require Import Lockset.
Import ListNotations.

(* ------------------------------------------------------------------ equalities *)
Lemma sloc_eqb_eq a b : sloc_eqb a b = true <-> a = b.
Proof.
  destruct a as [p|p], b as [q|q]; simpl.
  - rewrite Pos.eqb_eq. split; intro H; [subst | inversion H]; auto.
  - split; [discriminate | intro H; inversion H].
  - split; [discriminate | intro H; inversion H].
  - rewrite Pos.eqb_eq. split; intro H; [subst | inversion H]; auto.
Qed.
Lemma sloc_eqb_refl a : sloc_eqb a a = true.
Proof. apply sloc_eqb_eq; auto. Qed.
Lemma sloc_dec (a b : sloc) : {a = b} + {a <> b}.
Proof. decide equality; apply Pos.eq_dec. Qed.

Lemma act_dec (a b : act) : {a = b} + {a <> b}.
Proof. decide equality; apply sloc_dec. Qed.

Lemma tid_eqb_eq a b : tid_eqb a b = true <-> a = b.
Proof.
  destruct a, b; simpl; try (split; [discriminate | intro H; inversion H]); try tauto.
  rewrite !andb_true_iff, !Nat.eqb_eq. split.
  - intros [[-> ->] ->]; auto.
  - intro H; inversion H; auto.
Qed.
Lemma tid_dec (a b : tid) : {a = b} + {a <> b}.
Proof. decide equality; apply Nat.eq_dec. Qed.
Lemma tid_eqb_refl a : tid_eqb a a = true.
Proof. apply tid_eqb_eq; auto. Qed.
Lemma tid_eqb_neq a b : a <> b -> tid_eqb a b = false.
Proof. intro H. destruct (tid_eqb a b) eqn:E; auto. apply tid_eqb_eq in E. contradiction. Qed.

Lemma clock_eqb_eq (a b : clock) : clock_eqb a b = true <-> a = b.
Proof.
  destruct a as [n x], b as [n' x']; unfold clock_eqb; simpl.
  rewrite andb_true_iff, Nat.eqb_eq, sloc_eqb_eq. split.
  - intros [-> ->]; auto.
  - intro H; inversion H; auto.
Qed.
Lemma clock_dec (a b : clock) : {a = b} + {a <> b}.
Proof. decide equality. apply sloc_dec. apply Nat.eq_dec. Qed.

Lemma le_eqb_eq e1 e2 : le_eqb e1 e2 = true <-> e1 = e2.
Proof.
  destruct e1 as [m b], e2 as [m' b']; unfold le_eqb; simpl.
  rewrite andb_true_iff, sloc_eqb_eq, Bool.eqb_true_iff. split.
  - intros [-> ->]; auto.
  - intro H; inversion H; auto.
Qed.
Lemma le_dec (a b : sloc * bool) : {a = b} + {a <> b}.
Proof. decide equality. apply Bool.bool_dec. apply sloc_dec. Qed.

Lemma ls_mem_In e L : ls_mem e L = true <-> In e L.
Proof.
  unfold ls_mem. rewrite existsb_exists. split.
  - intros [e' [Hin He]]. apply le_eqb_eq in He. subst; auto.
  - intro H. exists e. split; auto. apply le_eqb_eq; auto.
Qed.
Lemma ls_held_In L m : ls_held L m = true <-> exists b, In (m, b) L.
Proof.
  unfold ls_held. rewrite existsb_exists. split.
  - intros [[m' b] [Hin He]]. simpl in He. apply sloc_eqb_eq in He. subst. eauto.
  - intros [b H]. exists (m, b). split; auto. apply sloc_eqb_refl.
Qed.
Lemma ls_remove_In e e' L : In e' (ls_remove e L) <-> In e' L /\ e' <> e.
Proof.
  unfold ls_remove. rewrite filter_In. split; intros [H1 H2]; split; auto.
  - intro; subst. rewrite (proj2 (le_eqb_eq e e) eq_refl) in H2. discriminate.
  - destruct (le_eqb e e') eqn:E; auto. apply le_eqb_eq in E. subst. contradiction.
Qed.
Lemma ls_sub_In L1 L2 : ls_sub L1 L2 = true -> forall e, In e L1 -> In e L2.
Proof. unfold ls_sub. rewrite forallb_forall. intros H e He. apply ls_mem_In. auto. Qed.
Lemma ls_equiv_In L1 L2 : ls_equiv L1 L2 = true -> forall e, In e L1 <-> In e L2.
Proof.
  unfold ls_equiv. rewrite andb_true_iff. intros [H1 H2] e.
  split; apply ls_sub_In; auto.
Qed.

(* ------------------------------------------------------------------ lock-set steps *)
Definition acq_act (b : bool) (m : sloc) : act := if b then Acq m else RAcq m.
Definition rel_act (b : bool) (m : sloc) : act := if b then Rel m else RRel m.

Lemma ls_step_spec L a L' : ls_step L a = Some L' ->
  forall m b, In (m, b) L' <-> a = acq_act b m \/ (In (m, b) L /\ a <> rel_act b m).
Proof.
  intros H m b. destruct a; simpl in H.
  - destruct (ls_held L m0); inversion H; subst; clear H. simpl. split.
    + intros [E | E]; [inversion E; subst; left; reflexivity | right; split; auto; destruct b; discriminate].
    + intros [E | [E _]]; [destruct b; inversion E; subst; auto | auto].
  - destruct (ls_mem (m0, true) L); inversion H; subst; clear H.
    rewrite ls_remove_In. split.
    + intros [H1 H2]. right. split; auto. destruct b; simpl; try discriminate.
      intro E; inversion E; subst. contradiction.
    + intros [E | [H1 H2]]; [destruct b; discriminate|]. split; auto.
      intro E; inversion E; subst. apply H2; reflexivity.
  - destruct (ls_held L m0); inversion H; subst; clear H. simpl. split.
    + intros [E | E]; [inversion E; subst; left; reflexivity | right; split; auto; destruct b; discriminate].
    + intros [E | [E _]]; [destruct b; inversion E; subst; auto | auto].
  - destruct (ls_mem (m0, false) L); inversion H; subst; clear H.
    rewrite ls_remove_In. split.
    + intros [H1 H2]. right. split; auto. destruct b; simpl; try discriminate.
      intro E; inversion E; subst. contradiction.
    + intros [E | [H1 H2]]; [destruct b; discriminate|]. split; auto.
      intro E; inversion E; subst. apply H2; reflexivity.
  - inversion H; subst. split; [intro; right; split; auto; destruct b; discriminate | intros [E|[E _]]; auto; destruct b; discriminate].
  - inversion H; subst. split; [intro; right; split; auto; destruct b; discriminate | intros [E|[E _]]; auto; destruct b; discriminate].
  - inversion H; subst. split; [intro; right; split; auto; destruct b; discriminate | intros [E|[E _]]; auto; destruct b; discriminate].
  - inversion H; subst. split; [intro; right; split; auto; destruct b; discriminate | intros [E|[E _]]; auto; destruct b; discriminate].
Qed.

Lemma cl_snd t m : snd (cl t m) = m.
Proof. destruct m; reflexivity. Qed.
Lemma cl_inj t m m' : cl t m = cl t m' -> m = m'.
Proof. intro H. rewrite <- (cl_snd t m), <- (cl_snd t m'), H. reflexivity. Qed.
Lemma cl_inj2 t1 t2 m m' : cl t1 m = cl t2 m' -> m = m'.
Proof. intro H. rewrite <- (cl_snd t1 m), <- (cl_snd t2 m'), H. reflexivity. Qed.

Lemma upd_lk_same f c v : upd_lk f c v c = v.
Proof. unfold upd_lk. rewrite (proj2 (clock_eqb_eq c c) eq_refl). reflexivity. Qed.
Lemma upd_lk_other f c v c' : c <> c' -> upd_lk f c v c' = f c'.
Proof.
  intro H. unfold upd_lk. destruct (clock_eqb c c') eqn:E; auto.
  apply clock_eqb_eq in E. contradiction.
Qed.
Lemma upd_node_same f t v : upd_node f t v t = v.
Proof. unfold upd_node. rewrite tid_eqb_refl. reflexivity. Qed.
Lemma upd_node_other f t v t' : t <> t' -> upd_node f t v t' = f t'.
Proof. intro H. unfold upd_node. rewrite tid_eqb_neq; auto. Qed.

(* membership characterisation of the mutex rules *)
Lemma lock_step_spec t a lk lk' : lock_step t a lk lk' ->
  forall c h, In h (lk' c) <->
     (exists b m, a = acq_act b m /\ c = cl t m /\ h = (t, b)) \/
     (In h (lk c) /\ ~ (exists b m, a = rel_act b m /\ c = cl t m /\ h = (t, b))).
Proof.
  intros H c h. inversion H; subst; clear H.
  - (* Acq *) destruct (clock_dec (cl t m) c) as [<- | Hc].
    + rewrite upd_lk_same. rewrite H0. simpl. split.
      * intros [<- | []]. left. exists true, m. auto.
      * intros [[b [m' [E [E2 ->]]]] | [[] _]]. destruct b; inversion E. auto.
    + rewrite upd_lk_other by auto. split.
      * intro Hin. right. split; auto. intros [b [m' [E _]]]. destruct b; discriminate.
      * intros [[b [m' [E [E2 _]]]] | [Hin _]]; auto. destruct b; inversion E; subst. contradiction.
  - (* RAcq *) destruct (clock_dec (cl t m) c) as [<- | Hc].
    + rewrite upd_lk_same. simpl. split.
      * intros [<- | Hin]. left. exists false, m. auto.
        right. split; auto. intros [b [m' [E _]]]. destruct b; discriminate.
      * intros [[b [m' [E [E2 ->]]]] | [Hin _]]; auto. destruct b; inversion E. auto.
    + rewrite upd_lk_other by auto. split.
      * intro Hin. right. split; auto. intros [b [m' [E _]]]. destruct b; discriminate.
      * intros [[b [m' [E [E2 _]]]] | [Hin _]]; auto. destruct b; inversion E; subst. contradiction.
  - (* Rel *) destruct (clock_dec (cl t m) c) as [<- | Hc].
    + rewrite upd_lk_same. split.
      * intro Hin. apply in_remove in Hin. destruct Hin as [Hin Hne]. right. split; auto.
        intros [b [m' [E [E2 ->]]]]. destruct b; inversion E. apply Hne; reflexivity.
      * intros [[b [m' [E _]]] | [Hin Hn]]. destruct b; discriminate.
        apply in_in_remove; auto. intro; subst. apply Hn. exists true, m. auto.
    + rewrite upd_lk_other by auto. split.
      * intro Hin. right. split; auto. intros [b [m' [E [E2 _]]]].
        destruct b; inversion E; subst. contradiction.
      * intros [[b [m' [E _]]] | [Hin _]]; auto. destruct b; discriminate.
  - (* RRel *) destruct (clock_dec (cl t m) c) as [<- | Hc].
    + rewrite upd_lk_same. split.
      * intro Hin. apply in_remove in Hin. destruct Hin as [Hin Hne]. right. split; auto.
        intros [b [m' [E [E2 ->]]]]. destruct b; inversion E. apply Hne; reflexivity.
      * intros [[b [m' [E _]]] | [Hin Hn]]. destruct b; discriminate.
        apply in_in_remove; auto. intro; subst. apply Hn. exists false, m. auto.
    + rewrite upd_lk_other by auto. split.
      * intro Hin. right. split; auto. intros [b [m' [E [E2 _]]]].
        destruct b; inversion E; subst. contradiction.
      * intros [[b [m' [E _]]] | [Hin _]]; auto. destruct b; discriminate.
  - split; [intro; right; split; auto; intros [b [m [E _]]]; destruct b; discriminate
           | intros [[b [m [E _]]] | [Hin _]]; auto; destruct b; discriminate].
  - split; [intro; right; split; auto; intros [b [m [E _]]]; destruct b; discriminate
           | intros [[b [m [E _]]] | [Hin _]]; auto; destruct b; discriminate].
  - split; [intro; right; split; auto; intros [b [m [E _]]]; destruct b; discriminate
           | intros [[b [m [E _]]] | [Hin _]]; auto; destruct b; discriminate].
  - split; [intro; right; split; auto; intros [b [m [E _]]]; destruct b; discriminate
           | intros [[b [m [E _]]] | [Hin _]]; auto; destruct b; discriminate].
Qed.

(* ------------------------------------------------------------------ well-formed programs *)
Definition wfP (P : program) : Prop :=
  thread_ok (p_main P) = true /\ forallb thread_ok (p_roots P) = true.

Lemma def_ok P t d : wfP P -> def P t = Some d -> thread_ok d = true.
Proof.
  intros [Hm Hr] Hd. destruct t; simpl in Hd.
  - inversion Hd; subst; auto.
  - destruct (nth_error (p_roots P) r) eqn:E; try discriminate.
    destruct ((t_multi_glob t || Nat.eqb k 0) && (t_multi_own t || Nat.eqb i 0)); inversion Hd; subst.
    rewrite forallb_forall in Hr. apply Hr. eapply nth_error_In; eauto.
Qed.

Lemma edge_ok_spec e : edge_ok e = true ->
  forall m b, In (m, b) (e_ls' e) <-> e_act e = acq_act b m \/ (In (m, b) (e_ls e) /\ e_act e <> rel_act b m).
Proof.
  unfold edge_ok. intros H m b. destruct (ls_step (e_ls e) (e_act e)) eqn:E; try discriminate.
  rewrite <- (ls_equiv_In _ _ H). apply ls_step_spec; auto.
Qed.

Definition L (s : state) (t : tid) : lockset := snd (st_node s t).

(* one step, seen from the lock sets *)
Lemma step_L P s e s' : wfP P -> step P s e s' ->
  forall t m b, In (m, b) (L s' t) <->
    (t = fst e /\ snd e = acq_act b m) \/ (In (m, b) (L s t) /\ ~ (t = fst e /\ snd e = rel_act b m)).
Proof.
  intros Hwf Hst t m b. inversion Hst; subst; clear Hst. unfold L; simpl.
  destruct (tid_dec t0 t) as [<- | Hne].
  - rewrite upd_node_same. simpl.
    assert (Hok : edge_ok e0 = true).
    { pose proof (def_ok _ _ _ Hwf H) as Ht. unfold thread_ok in Ht. rewrite forallb_forall in Ht. auto. }
    rewrite (edge_ok_spec _ Hok). rewrite H1. simpl. tauto.
  - rewrite upd_node_other by auto. split.
    + intro. right. split; auto. intros [E _]. congruence.
    + intros [[E _] | [Hin _]]; auto. congruence.
Qed.

(* ------------------------------------------------------------------ invariants *)
(* static lock sets and the mutex state agree *)
Definition inv1 (s : state) : Prop :=
  forall c t b, In (t, b) (st_lk s c) <-> exists m, c = cl t m /\ In (m, b) (L s t).
(* an exclusive holder is the only holder *)
Definition inv2 (s : state) : Prop :=
  forall c h1 h2, In h1 (st_lk s c) -> In h2 (st_lk s c) -> snd h1 = true -> h1 = h2.

Lemma inv1_init P : inv1 (init_state P).
Proof.
  intros c t b. simpl. split; [intros []|]. intros [m [_ H]]. unfold L in H. simpl in H.
  destruct (def P t); simpl in H; auto.
Qed.
Lemma inv2_init P : inv2 (init_state P).
Proof. intros c h1 h2 []. Qed.

Lemma inv1_step P s e s' : wfP P -> step P s e s' -> inv1 s -> inv1 s'.
Proof.
  intros Hwf Hst Hi c t b.
  pose proof (step_L _ _ _ _ Hwf Hst) as HL.
  inversion Hst; subst. simpl st_lk.
  rewrite (lock_step_spec _ _ _ _ H3). simpl in HL.
  split.
  - intros [[b' [m [E [-> E2]]]] | [Hin Hn]].
    + inversion E2; subst. exists m. split; auto. apply HL. left; auto.
    + apply Hi in Hin. destruct Hin as [m [-> Hin]]. exists m. split; auto.
      apply HL. right. split; auto. intros [-> E]. apply Hn. exists b, m. auto.
  - intros [m [-> Hin]]. apply HL in Hin. destruct Hin as [[-> E] | [Hin Hn]].
    + left. exists b, m. auto.
    + right. split.
      * apply Hi. exists m; auto.
      * intros [b' [m' [E [E2 E3]]]]. inversion E3; subst. apply cl_inj in E2. subst. apply Hn; auto.
Qed.

Lemma inv2_step P s e s' : step P s e s' -> inv2 s -> inv2 s'.
Proof.
  intros Hst Hi c h1 h2. inversion Hst; subst. simpl st_lk. clear Hst.
  inversion H3; subst; clear H3; try (apply Hi).
  - destruct (clock_dec (cl t m) c) as [<- | Hc].
    + rewrite upd_lk_same. simpl. intros [<- | []] [<- | []] _. reflexivity.
    + rewrite upd_lk_other by auto. apply Hi.
  - destruct (clock_dec (cl t m) c) as [<- | Hc].
    + rewrite upd_lk_same. simpl. intros [<- | G1] [<- | G2] Hs; auto; try discriminate;
        match goal with Hsh : forall h, In h _ -> snd h = false |- _ => apply Hsh in G1 end; congruence.
    + rewrite upd_lk_other by auto. apply Hi.
  - destruct (clock_dec (cl t m) c) as [<- | Hc].
    + rewrite upd_lk_same. intros G1 G2. apply in_remove in G1. apply in_remove in G2.
      intro Hs. apply (Hi _ _ _ (proj1 G1) (proj1 G2) Hs).
    + rewrite upd_lk_other by auto. apply Hi.
  - destruct (clock_dec (cl t m) c) as [<- | Hc].
    + rewrite upd_lk_same. intros G1 G2. apply in_remove in G1. apply in_remove in G2.
      intro Hs. apply (Hi _ _ _ (proj1 G1) (proj1 G2) Hs).
    + rewrite upd_lk_other by auto. apply Hi.
Qed.

Lemma inv_exec_from P s0 tr s : wfP P -> exec_from P s0 tr s -> inv1 s0 -> inv2 s0 -> inv1 s /\ inv2 s.
Proof.
  intros Hwf H. induction H; intros; auto.
  destruct IHexec_from as [I1 I2]; auto. split.
  - eapply inv1_step; eauto.
  - eapply inv2_step; eauto.
Qed.

Lemma inv_exec P tr s : wfP P -> exec P tr s -> inv1 s /\ inv2 s.
Proof. intros Hwf H. eapply inv_exec_from; eauto. apply inv1_init. apply inv2_init. Qed.

(* two different threads cannot hold one mutex if one of them holds it exclusively *)
Lemma mutual_exclusion s t1 t2 m b1 b2 :
  inv1 s -> inv2 s -> t1 <> t2 -> cl t1 m = cl t2 m -> b1 || b2 = true ->
  In (m, b1) (L s t1) -> In (m, b2) (L s t2) -> False.
Proof.
  intros I1 I2 Hne Hc Hb H1 H2.
  assert (A1 : In (t1, b1) (st_lk s (cl t1 m))) by (apply I1; eauto).
  assert (A2 : In (t2, b2) (st_lk s (cl t1 m))) by (apply I1; exists m; rewrite Hc; auto).
  destruct b1.
  - pose proof (I2 _ _ _ A1 A2 eq_refl) as E. inversion E; subst; congruence.
  - simpl in Hb. subst. pose proof (I2 _ _ _ A2 A1 eq_refl) as E. inversion E; subst; congruence.
Qed.

(* ------------------------------------------------------------------ times *)
Lemma at_time_cons e tr n e' :
  at_time (e :: tr) n e' <-> (n = length tr /\ e' = e) \/ at_time tr n e'.
Proof.
  unfold at_time. simpl. split.
  - intro H. destruct (Nat.lt_ge_cases n (length (rev tr))) as [Hlt | Hge].
    + rewrite nth_error_app1 in H by auto. auto.
    + rewrite nth_error_app2 in H by auto. rewrite rev_length in *.
      destruct (n - length tr) eqn:E; simpl in H.
      * inversion H. left. split; auto. lia.
      * destruct n0; discriminate.
  - intros [[-> ->] | H].
    + rewrite nth_error_app2 by (rewrite rev_length; auto). rewrite rev_length, Nat.sub_diag. reflexivity.
    + rewrite nth_error_app1; auto. apply nth_error_Some. congruence.
Qed.
Lemma at_time_lt tr n e : at_time tr n e -> n < length tr.
Proof. unfold at_time. intro H. rewrite <- rev_length. apply nth_error_Some. congruence. Qed.
Lemma at_time_In tr n e : at_time tr n e -> In e tr.
Proof. unfold at_time. intro H. apply in_rev. eapply nth_error_In; eauto. Qed.
Lemma at_time_app_r l1 l2 n e : at_time l2 n e -> at_time (l1 ++ l2) n e.
Proof.
  unfold at_time. intro H. rewrite rev_app_distr. rewrite nth_error_app1; auto.
  apply nth_error_Some. congruence.
Qed.
Lemma at_time_app_l l1 l2 n e : at_time l1 n e -> at_time (l1 ++ l2) (length l2 + n) e.
Proof.
  unfold at_time. intro H. rewrite rev_app_distr. rewrite nth_error_app2 by (rewrite rev_length; lia).
  rewrite rev_length. replace (length l2 + n - length l2) with n by lia. auto.
Qed.
Lemma at_time_app_inv_r l1 l2 n e : n < length l2 -> at_time (l1 ++ l2) n e -> at_time l2 n e.
Proof.
  unfold at_time. intros Hn H. rewrite rev_app_distr in H.
  rewrite nth_error_app1 in H by (rewrite rev_length; auto). auto.
Qed.
Lemma at_time_split tr n e : at_time tr n e ->
  exists l1 l2, tr = l1 ++ e :: l2 /\ length l2 = n.
Proof.
  unfold at_time. intro H. apply nth_error_split in H. destruct H as [a [b [E Hl]]].
  exists (rev b), (rev a). split.
  - rewrite <- (rev_involutive tr), E, rev_app_distr. simpl. rewrite <- app_assoc. reflexivity.
  - rewrite rev_length; auto.
Qed.

Lemma exec_from_app P s0 l1 l2 s : exec_from P s0 (l1 ++ l2) s ->
  exists s', exec_from P s0 l2 s' /\ exec_from P s' l1 s.
Proof.
  revert s. induction l1; simpl; intros s H.
  - exists s. split; auto. constructor.
  - inversion H; subst. apply IHl1 in H2. destruct H2 as [s' [A B]].
    exists s'. split; auto. econstructor; eauto.
Qed.
Lemma exec_from_trans P s0 l2 s' l1 s : exec_from P s0 l2 s' -> exec_from P s' l1 s -> exec_from P s0 (l1 ++ l2) s.
Proof.
  intros A B. induction B; simpl; auto. econstructor; eauto.
Qed.

(* ------------------------------------------------------------------ the two trace lemmas *)
(* a lock held at s0 is still held, or its release is in the trace *)
Lemma release_or_held P : wfP P -> forall s0 tr s, exec_from P s0 tr s ->
  forall t m b, In (m, b) (L s0 t) ->
    In (m, b) (L s t) \/ exists r, at_time tr r (t, rel_act b m).
Proof.
  intros Hwf s0 tr s H. induction H; intros t m b Hin; auto.
  destruct (IHexec_from _ _ _ Hin) as [Hh | [r Hr]].
  - destruct (in_dec le_dec (m, b) (L s' t)) as [Hy | Hn]; auto.
    right. exists (length tr). apply at_time_cons. left. split; auto.
    destruct e as [t' a].
    destruct (tid_dec t t') as [<- | Hne].
    + destruct (act_dec a (rel_act b m)) as [-> | Hna]; auto.
      exfalso. apply Hn. apply (step_L _ _ _ _ Hwf H0). right. split; auto. simpl. tauto.
    + exfalso. apply Hn. apply (step_L _ _ _ _ Hwf H0). right. split; auto. simpl. tauto.
  - right. exists r. apply at_time_cons. auto.
Qed.

(* if t2 comes to hold (in a conflicting mode) a mutex that t1 held at s0, then t1's release
   and, later, t2's acquisition are in the trace *)
Lemma acquire_after_release P : wfP P -> forall s0 tr s, exec_from P s0 tr s ->
  inv1 s0 -> inv2 s0 ->
  forall t1 t2 m b1 b2, t1 <> t2 -> cl t1 m = cl t2 m -> b1 || b2 = true ->
    In (m, b1) (L s0 t1) -> In (m, b2) (L s t2) ->
    exists r k, r < k /\ at_time tr r (t1, rel_act b1 m) /\ at_time tr k (t2, acq_act b2 m).
Proof.
  intros Hwf s0 tr s H. induction H; intros I1 I2 t1 t2 m b1 b2 Hne Hc Hb H1 H2.
  - exfalso. eapply mutual_exclusion; eauto.
  - destruct (in_dec le_dec (m, b2) (L s t2)) as [Hy | Hn].
    + destruct (IHexec_from I1 I2 _ _ _ _ _ Hne Hc Hb H1 Hy) as [r [k [Hrk [Hr Hk]]]].
      exists r, k. repeat split; auto; apply at_time_cons; auto.
    + (* t2 acquires m in this very step *)
      destruct (inv_exec_from _ _ _ _ Hwf H I1 I2) as [I1s I2s].
      apply (step_L _ _ _ _ Hwf H0) in H2. destruct H2 as [[Et Ea] | [Hin _]]; [|contradiction].
      destruct e as [t a]. simpl in Et, Ea. subst t a.
      assert (Hrel : exists r, at_time tr r (t1, rel_act b1 m)).
      { destruct (release_or_held _ Hwf _ _ _ H _ _ _ H1) as [Hh | Hr]; auto.
        exfalso. (* t1 still holds m: the mutex rule forbids t2's acquisition *)
        assert (A1 : In (t1, b1) (st_lk s (cl t2 m))) by (apply I1s; exists m; auto).
        inversion H0; subst.
        match goal with Hl : lock_step _ _ _ _ |- _ => rename Hl into Hls end.
        match goal with
        | Ha : acq_act b2 m = e_act _ |- _ => rewrite <- Ha in Hls
        | Ha : e_act _ = acq_act b2 m |- _ => rewrite Ha in Hls
        end.
        destruct b2; simpl in Hls; inversion Hls; subst.
        - match goal with Hf : st_lk s (cl t2 m) = [] |- _ => rewrite Hf in A1 end. destruct A1.
        - match goal with Hf : forall h, In h _ -> snd h = false |- _ => apply Hf in A1 end.
          simpl in A1. subst. simpl in Hb. discriminate. }
      destruct Hrel as [r Hr]. exists r, (length tr). repeat split.
      * apply at_time_lt in Hr. auto.
      * apply at_time_cons; auto.
      * apply at_time_cons; auto.
Qed.

(* the publication thread runs first *)
Lemma main_first_aux P s0 tr s : exec_from P s0 tr s -> st_started s0 = false ->
  (st_started s = false -> forall e, In e tr -> fst e = Main) /\
  (forall i j ei ej, i < j -> at_time tr i ei -> at_time tr j ej -> fst ej = Main -> fst ei = Main).
Proof.
  intros H H0. induction H.
  - split; [intros _ e [] |]. intros i j ei ej _ Hi. apply at_time_lt in Hi. simpl in Hi. lia.
  - destruct IHexec_from as [IA IB]. inversion H1; subst. split.
    + simpl. intros Hs ev0 [<- | Hin].
      * simpl. destruct t; auto. discriminate.
      * destruct t; [apply IA; auto | discriminate].
    + intros i j ei ej Hij Hi Hj Hm. apply at_time_cons in Hi. apply at_time_cons in Hj.
      destruct Hj as [[-> ->] | Hj].
      * simpl in Hm. subst t. destruct Hi as [[-> _] | Hi]; [lia|].
        apply IA; auto. eapply at_time_In; eauto.
      * destruct Hi as [[-> _] | Hi]; [apply at_time_lt in Hj; lia|].
        eapply IB; eauto.
Qed.
Lemma main_first P tr s : exec P tr s ->
  forall i j ei ej, i < j -> at_time tr i ei -> at_time tr j ej -> fst ej = Main -> fst ei = Main.
Proof. intro H. eapply (proj2 (main_first_aux _ _ _ _ H eq_refl)). Qed.

(* ------------------------------------------------------------------ the static side *)
Lemma accs_of_In r d e x k : In e (t_edges d) -> acc_of (e_act e) = Some (x, k) ->
  In (mkAcc r (t_multi_own d) (t_multi_glob d) x k (e_ls e)) (accs_of r d).
Proof.
  intros Hin Ha. unfold accs_of. apply in_flat_map. exists e. split; auto. rewrite Ha. left; auto.
Qed.
Lemma accs_from_In ds : forall r0 r d, nth_error ds r = Some d ->
  forall a, In a (accs_of (r0 + r) d) -> In a (accs_from r0 ds).
Proof.
  induction ds; intros r0 r d Hn a0 Ha; destruct r; simpl in Hn; try discriminate.
  - inversion Hn; subst. simpl. apply in_or_app. left. rewrite Nat.add_0_r in Ha. auto.
  - simpl. apply in_or_app. right. apply (IHds (S r0) r d Hn). replace (S r0 + r) with (r0 + S r) by lia. auto.
Qed.
Lemma accs_In P r d e x k : nth_error (p_roots P) r = Some d -> In e (t_edges d) ->
  acc_of (e_act e) = Some (x, k) ->
  In (mkAcc r (t_multi_own d) (t_multi_glob d) x k (e_ls e)) (accs P).
Proof.
  intros Hn Hin Ha. unfold accs. eapply (accs_from_In _ 0 r d Hn). simpl. apply accs_of_In; auto.
Qed.

Lemma sloc_nodup_In l x : In x l -> In x (sloc_nodup l).
Proof.
  induction l; simpl; auto. intros [<- | H]; auto.
  destruct (sloc_dec a x) as [-> | Hne]; auto. right. apply filter_In. split; auto.
  destruct (sloc_eqb a x) eqn:E; auto. apply sloc_eqb_eq in E. contradiction.
Qed.

Lemma holds_for_In L m k : holds_for L m k = true -> exists b, In (m, b) L /\ (k <> KR -> b = true).
Proof.
  destruct k; simpl; intro H.
  - apply ls_held_In in H. destruct H as [b H]. exists b. split; auto; intro C; exfalso; apply C; reflexivity.
  - apply ls_mem_In in H. exists true; auto.
  - apply ls_mem_In in H. exists true; auto.
Qed.

Lemma common_lock_intro x L1 L2 m b1 b2 :
  In (m, b1) L1 -> In (m, b2) L2 -> b1 || b2 = true -> is_own x || negb (is_own m) = true ->
  common_lock x L1 L2 = true.
Proof.
  intros H1 H2 Hb Hx. unfold common_lock. apply existsb_exists. exists (m, b1). split; auto.
  apply existsb_exists. exists (m, b2). split; auto. simpl.
  rewrite sloc_eqb_refl, Hb, Hx. reflexivity.
Qed.

Lemma loc_ok_pairs X x A : loc_ok X x A = true -> (forall a, In a A -> a_loc a = x) ->
  forall a1 a2, In a1 A -> In a2 A -> pair_ok X a1 a2 = true.
Proof.
  unfold loc_ok, classify. intros H Hloc a1 a2 H1 H2. unfold pair_ok.
  destruct (cat_readonly A) eqn:C1.
  { unfold cat_readonly in C1. rewrite forallb_forall in C1.
    pose proof (C1 _ H1) as K1. pose proof (C1 _ H2) as K2.
    destruct (a_kind a1); try discriminate. destruct (a_kind a2); try discriminate.
    simpl. rewrite orb_true_r. reflexivity. }
  destruct (cat_atomic A) eqn:C2.
  { unfold cat_atomic in C2. rewrite forallb_forall in C2.
    pose proof (C2 _ H1) as K1. pose proof (C2 _ H2) as K2.
    destruct (a_kind a1); try discriminate. destruct (a_kind a2); try discriminate.
    simpl. rewrite orb_true_r. reflexivity. }
  destruct (cat_locked x A) eqn:C3.
  { destruct (kinds_conflict (a_kind a1) (a_kind a2)) eqn:Hk; [|simpl; rewrite orb_true_r; reflexivity].
    unfold cat_locked in C3. destruct A as [|a0 A']; [destruct H1|].
    apply existsb_exists in C3. destruct C3 as [[m b0] [_ C3]].
    apply andb_true_iff in C3. destruct C3 as [Hcls C3]. rewrite forallb_forall in C3.
    cbn [fst] in C3, Hcls.
    destruct (holds_for_In _ _ _ (C3 _ H1)) as [b1 [G1 K1]].
    destruct (holds_for_In _ _ _ (C3 _ H2)) as [b2 [G2 K2]].
    assert (Hb : b1 || b2 = true).
    { destruct (a_kind a1); [destruct (a_kind a2); [discriminate| |] |..];
        try (rewrite K1 by discriminate; reflexivity);
        rewrite K2 by discriminate; apply orb_true_r. }
    rewrite (common_lock_intro (a_loc a1) _ _ m b1 b2); auto.
    - rewrite orb_true_r. reflexivity.
    - rewrite (Hloc _ H1). auto. }
  destruct (cat_confined x A) eqn:C4.
  { unfold cat_confined in C4. destruct A as [|a0 A']; [destruct H1|].
    rewrite forallb_forall in C4.
    pose proof (C4 _ H1) as R1. pose proof (C4 _ H2) as R2.
    apply andb_true_iff in R1, R2. destruct R1 as [R1 F1], R2 as [R2 F2].
    apply andb_true_iff in R1, R2. destruct R1 as [R1 M1], R2 as [R2 M2].
    apply Nat.eqb_eq in R1, R2.
    assert (Hnd : may_distinct a1 a2 = false).
    { unfold may_distinct. rewrite R1, R2, Nat.eqb_refl. simpl.
      rewrite (Hloc _ H1). destruct (a_mo a1); [discriminate|]. simpl.
      destruct (is_own x); simpl; auto. simpl in F1. destruct (a_mg a1); auto; discriminate. }
    rewrite Hnd. simpl. rewrite orb_true_r. reflexivity. }
  destruct (pairwise_ok X A) eqn:C5; [|discriminate].
  unfold pairwise_ok in C5. rewrite forallb_forall in C5. pose proof (C5 _ H1) as C6.
  rewrite forallb_forall in C6. apply C6; auto.
Qed.

Lemma discipline_pairs X P : discipline_ok_except X P = true ->
  wfP P /\ forall a1 a2, In a1 (accs P) -> In a2 (accs P) -> a_loc a1 = a_loc a2 -> pair_ok X a1 a2 = true.
Proof.
  unfold discipline_ok_except. rewrite !andb_true_iff. intros [[Hm Hr] Hl]. split; [split; auto|].
  intros a1 a2 H1 H2 Hloc. rewrite forallb_forall in Hl.
  assert (Hx : In (a_loc a1) (locs_of (accs P))).
  { unfold locs_of. apply sloc_nodup_In. apply in_map. auto. }
  apply Hl in Hx. eapply loc_ok_pairs; eauto.
  - intros a Ha. unfold at_loc in Ha. apply filter_In in Ha. destruct Ha as [_ Ha].
    apply sloc_eqb_eq in Ha. auto.
  - unfold at_loc. apply filter_In. split; auto. apply sloc_eqb_refl.
  - unfold at_loc. apply filter_In. split; auto. apply sloc_eqb_eq. auto.
Qed.

Lemma def_T P r k i d : def P (T r k i) = Some d ->
  nth_error (p_roots P) r = Some d /\ (t_multi_glob d = false -> k = 0) /\ (t_multi_own d = false -> i = 0).
Proof.
  simpl. destruct (nth_error (p_roots P) r); try discriminate.
  destruct ((t_multi_glob t || Nat.eqb k 0) && (t_multi_own t || Nat.eqb i 0)) eqn:E; try discriminate.
  intro H; inversion H; subst. apply andb_true_iff in E. destruct E as [E1 E2].
  split; auto. split; intro F; rewrite F in *; simpl in *; apply Nat.eqb_eq; auto.
Qed.

Lemma step_inv P s t a s' : step P s (t, a) s' ->
  exists d e, def P t = Some d /\ In e (t_edges d) /\ st_node s t = (e_src e, e_ls e) /\ a = e_act e.
Proof. intro H. inversion H; subst. exists d, e. auto. Qed.

Lemma acc_not_rel a x k b m : acc_of a = Some (x, k) -> a <> rel_act b m.
Proof. destruct a, b; simpl; intros; discriminate. Qed.

(* THE THEOREM: under the discipline (with exception list X) every data race of every execution
   is one of the root pairs listed in X. *)
Theorem lockset_sound_except X P : discipline_ok_except X P = true -> race_free_except X P.
Proof.
  intros Hd tr s Hex i j [t1 a1] [t2 a2] [Hij [Hi [Hj [Hne [Hconf Hnhb]]]]]. simpl in Hne.
  destruct (discipline_pairs _ _ Hd) as [Hwf Hpairs].
  (* the publication thread *)
  destruct (tid_dec t1 Main) as [-> | Hn1].
  { exfalso. apply Hnhb. apply t_step. econstructor; eauto. }
  destruct (tid_dec t2 Main) as [-> | Hn2].
  { exfalso. apply Hn1. apply (main_first _ _ _ Hex _ _ _ _ Hij Hi Hj). reflexivity. }
  (* cut the trace at the two events *)
  destruct (at_time_split _ _ _ Hj) as [l3 [l2' [Etr Hlj]]].
  assert (Hi' : at_time l2' i (t1, a1)).
  { rewrite Etr in Hi. apply at_time_app_inv_r in Hi; [|simpl; lia].
    apply at_time_cons in Hi. destruct Hi as [[Hc _] | Hi]; auto. lia. }
  destruct (at_time_split _ _ _ Hi') as [l2 [l1 [El2 Hli]]].
  unfold exec in Hex. rewrite Etr in Hex.
  apply exec_from_app in Hex. destruct Hex as [s2' [Hex _]].
  inversion Hex as [| ? s2 ? ? Hex2 Hst2]; subst. clear Hex.
  apply exec_from_app in Hex2. destruct Hex2 as [s1' [Hex1 Hmid]].
  inversion Hex1 as [| ? s1 ? ? Hex0 Hst1]; subst.
  (* the two edges *)
  destruct Hconf as [x [ka [kb [Ha1 [Ha2 [Hk Hown]]]]]]. simpl in Ha1, Ha2, Hown.
  destruct t1 as [|r1 k1 i1]; [contradiction Hn1; auto|].
  destruct t2 as [|r2 k2 i2]; [contradiction Hn2; auto|].
  destruct (step_inv _ _ _ _ _ Hst1) as [d1 [e1 [Hd1 [Hin1 [Hnode1 ->]]]]].
  destruct (step_inv _ _ _ _ _ Hst2) as [d2 [e2 [Hd2 [Hin2 [Hnode2 ->]]]]].
  destruct (def_T _ _ _ _ _ Hd1) as [Hnth1 [Hg1 Ho1]].
  destruct (def_T _ _ _ _ _ Hd2) as [Hnth2 [Hg2 Ho2]].
  pose proof (accs_In _ _ _ _ _ _ Hnth1 Hin1 Ha1) as A1.
  pose proof (accs_In _ _ _ _ _ _ Hnth2 Hin2 Ha2) as A2.
  pose proof (Hpairs _ _ A1 A2 eq_refl) as Hp. unfold pair_ok in Hp. simpl in Hp.
  rewrite sloc_eqb_refl, Hk in Hp. simpl in Hp.
  assert (Hsess : is_own x = true -> k1 = k2).
  { intro Ho. destruct (Hown Ho) as [F | [F | F]]; try discriminate. simpl in F. auto. }
  assert (Hmd : may_distinct (mkAcc r1 (t_multi_own d1) (t_multi_glob d1) x ka (e_ls e1))
                             (mkAcc r2 (t_multi_own d2) (t_multi_glob d2) x kb (e_ls e2)) = true).
  { unfold may_distinct. simpl. destruct (Nat.eqb r1 r2) eqn:Er; simpl; auto.
    apply Nat.eqb_eq in Er. subst r2. rewrite Hnth1 in Hnth2. inversion Hnth2; subst d2.
    destruct (t_multi_own d1) eqn:Mo; simpl; auto.
    destruct (is_own x) eqn:Ox; simpl.
    - exfalso. apply Hne. rewrite (Hsess eq_refl), (Ho1 eq_refl), (Ho2 eq_refl). reflexivity.
    - destruct (t_multi_glob d1) eqn:Mg; auto.
      exfalso. apply Hne. rewrite (Hg1 eq_refl), (Hg2 eq_refl), (Ho1 eq_refl), (Ho2 eq_refl). reflexivity. }
  rewrite Hmd in Hp. simpl in Hp. apply orb_true_iff in Hp. destruct Hp as [Hcl | Hx].
  2:{ exists r1, r2, x, ka. simpl. auto. }
  (* a common lock: the two critical sections are ordered *)
  exfalso. apply Hnhb.
  unfold common_lock in Hcl. apply existsb_exists in Hcl. destruct Hcl as [[m b1] [G1 Hcl]].
  apply existsb_exists in Hcl. destruct Hcl as [[m' b2] [G2 Hcl]]. simpl in Hcl.
  rewrite !andb_true_iff in Hcl. destruct Hcl as [[Em Hb] Hcls]. apply sloc_eqb_eq in Em. subst m'.
  set (t1 := T r1 k1 i1) in *. set (t2 := T r2 k2 i2) in *.
  assert (Hc : cl t1 m = cl t2 m).
  { destruct m as [p|p]; simpl; auto. simpl in Hcls. rewrite orb_false_r in Hcls.
    rewrite (Hsess Hcls). reflexivity. }
  assert (H1 : In (m, b1) (L s1' t1)).
  { apply (step_L _ _ _ _ Hwf Hst1). right. split.
    - unfold L. rewrite Hnode1. auto.
    - intros [_ E]. simpl in E. exact (acc_not_rel _ _ _ _ _ Ha1 E). }
  assert (H2 : In (m, b2) (L s2 t2)) by (unfold L; rewrite Hnode2; auto).
  destruct (inv_exec _ _ _ Hwf Hex1) as [I1 I2].
  destruct (acquire_after_release _ Hwf _ _ _ Hmid I1 I2 _ _ _ _ _ Hne Hc Hb H1 H2) as [r [k [Hrk [Hr Hk']]]].
  pose proof (at_time_lt _ _ _ Hk') as Hklt.
  assert (Hglob : forall n e, at_time l2 n e ->
            at_time (l3 ++ (t2, e_act e2) :: l2 ++ (t1, e_act e1) :: l1) (S (length l1) + n) e).
  { intros n e Hn. apply at_time_app_r. apply at_time_cons. right.
    apply (at_time_app_l l2 ((t1, e_act e1) :: l1)) in Hn. simpl in Hn. auto. }
  rewrite app_length in Hij. simpl in Hij.
  eapply t_trans; [apply t_step | eapply t_trans; apply t_step].
  - apply (hb1_intro _ (length l1) (S (length l1) + r) (t1, e_act e1) (t1, rel_act b1 m)); auto. lia.
  - apply (hb1_intro _ (S (length l1) + r) (S (length l1) + k) (t1, rel_act b1 m) (t2, acq_act b2 m)); auto.
    + lia.
    + right. right. unfold sync_pair. simpl.
      destruct b1, b2; simpl; auto. simpl in Hb. discriminate.
  - apply (hb1_intro _ (S (length l1) + k) (length (l2 ++ (t1, e_act e1) :: l1)) (t2, acq_act b2 m) (t2, e_act e2)); auto.
    rewrite app_length. simpl. lia.
Qed.

Theorem lockset_sound P : discipline_ok P = true -> race_free P.
Proof.
  intros Hd tr s Hex i j ei ej Hr.
  destruct (lockset_sound_except [] P Hd tr s Hex i j ei ej Hr) as [r1 [r2 [x [k [_ [_ [_ F]]]]]]].
  discriminate.
Qed.

(* the core on its own: two events of different threads that both hold one mutex (one of them
   exclusively) are ordered by happens-before - whatever the discipline says elsewhere *)
Theorem common_lock_ordered P : thread_ok (p_main P) = true -> forallb thread_ok (p_roots P) = true ->
  forall tr l1 l2 l3 s1 s1' s2 s2' e1 e2 m b1 b2,
    tr = l3 ++ e2 :: l2 ++ e1 :: l1 ->
    exec P l1 s1 -> step P s1 e1 s1' -> exec_from P s1' l2 s2 -> step P s2 e2 s2' ->
    fst e1 <> fst e2 -> cl (fst e1) m = cl (fst e2) m -> b1 || b2 = true ->
    In (m, b1) (L s1 (fst e1)) -> snd e1 <> rel_act b1 m -> In (m, b2) (L s2 (fst e2)) ->
    hb tr (length l1) (length (l2 ++ e1 :: l1)).
Proof.
  intros Hm Hr tr l1 l2 l3 s1 s1' s2 s2' [t1 a1] [t2 a2] m b1 b2 -> Hex0 Hst1 Hmid Hst2 Hne Hc Hb G1 Hnr G2.
  simpl in *. assert (Hwf : wfP P) by (split; auto).
  assert (H1 : In (m, b1) (L s1' t1)).
  { apply (step_L _ _ _ _ Hwf Hst1). right. split; auto. intros [_ E]. simpl in E. auto. }
  assert (Hex1 : exec P ((t1, a1) :: l1) s1') by (econstructor; eauto).
  destruct (inv_exec _ _ _ Hwf Hex1) as [I1 I2].
  destruct (acquire_after_release _ Hwf _ _ _ Hmid I1 I2 _ _ _ _ _ Hne Hc Hb H1 G2) as [r [k [Hrk [Hr' Hk']]]].
  pose proof (at_time_lt _ _ _ Hk') as Hklt.
  assert (Hglob : forall n e, at_time l2 n e ->
            at_time (l3 ++ (t2, a2) :: l2 ++ (t1, a1) :: l1) (S (length l1) + n) e).
  { intros n e Hn. apply at_time_app_r. apply at_time_cons. right.
    apply (at_time_app_l l2 ((t1, a1) :: l1)) in Hn. simpl in Hn. auto. }
  assert (Hi : at_time (l3 ++ (t2, a2) :: l2 ++ (t1, a1) :: l1) (length l1) (t1, a1)).
  { apply at_time_app_r. apply at_time_cons. right. apply at_time_app_r. apply at_time_cons. auto. }
  assert (Hj : at_time (l3 ++ (t2, a2) :: l2 ++ (t1, a1) :: l1) (length (l2 ++ (t1, a1) :: l1)) (t2, a2)).
  { apply at_time_app_r. apply at_time_cons. auto. }
  eapply t_trans; [apply t_step | eapply t_trans; apply t_step].
  - apply (hb1_intro _ (length l1) (S (length l1) + r) (t1, a1) (t1, rel_act b1 m)); auto. lia.
  - apply (hb1_intro _ (S (length l1) + r) (S (length l1) + k) (t1, rel_act b1 m) (t2, acq_act b2 m)); auto.
    + lia.
    + right. right. unfold sync_pair. simpl.
      destruct b1, b2; simpl; auto. simpl in Hb. discriminate.
  - apply (hb1_intro _ (S (length l1) + k) (length (l2 ++ (t1, a1) :: l1)) (t2, acq_act b2 m) (t2, a2)); auto.
    rewrite app_length. simpl. lia.
Qed.
