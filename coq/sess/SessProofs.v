(* Proofs about the session glue on one endpoint:
   1. Send on a buffer of at most mss bytes (return code, window occupancy, frame),
   2. the splitting of WriteBuffers (chunk_buf) and send_buf / send_vec against it,
   3. flush keeps the payload list of the send side,
   4. write_full: chunks (C01 a), admission (C04 d), totality,
   5. read_full: sizes, one-pass carry-over equation, every run of the reader system (C01 b). *)
From Coq Require Import ZArith List Bool Lia.
From KV.Base Require Import Consts Word WordLemmas.
From KV.Kcp Require Import Kcp Step InvBase InvApi InvFlushBase InvFlush.
From KV.Sess Require Import Sess SessNet.
Import ListNotations.
Local Open Scope Z_scope.

Ltac Zify.zify_post_hook ::= idtac.

(* ------------------------------------------------------------------ *)
(* 0. lists                                                            *)
(* ------------------------------------------------------------------ *)
Lemma blen_drop_le n b : blen (drop n b) <= blen b.
Proof. unfold blen, drop. rewrite skipn_length. lia. Qed.

Lemma blen_0_nil b : blen b = 0 -> b = [].
Proof. unfold blen. destruct b; [reflexivity|cbn [length]; lia]. Qed.

Lemma blen_gtb_false_nil b : blen b >? 0 = false -> b = [].
Proof.
  intros H. apply blen_0_nil. pose proof (blen_nonneg b).
  rewrite Z.gtb_ltb in H. apply Z.ltb_ge in H. lia.
Qed.

Lemma In_firstn' {T} (x : T) n : forall l, In x (firstn n l) -> In x l.
Proof.
  induction n as [|n IH]; intros l H; [destruct H|].
  destruct l as [|y l]; [exact H|]. destruct H as [H|H]; [left; exact H|right; apply IH; exact H].
Qed.

Lemma byte_list_take n b : is_byte_list b -> is_byte_list (take n b).
Proof. unfold is_byte_list, take. intros H. apply Forall_forall. intros x Hx.
  rewrite Forall_forall in H. apply H. eapply In_firstn'; eauto. Qed.

Lemma In_skipn {T} (x : T) n : forall l, In x (skipn n l) -> In x l.
Proof.
  induction n as [|n IH]; intros l H; [exact H|].
  destruct l as [|y l]; [exact H|]. right. apply IH. exact H.
Qed.

Lemma byte_list_drop n b : is_byte_list b -> is_byte_list (drop n b).
Proof. unfold is_byte_list, drop. intros H. apply Forall_forall. intros x Hx.
  rewrite Forall_forall in H. apply H. eapply In_skipn; eauto. Qed.

(* ------------------------------------------------------------------ *)
(* 1. Send on a buffer of at most mss bytes                            *)
(* ------------------------------------------------------------------ *)
Lemma frag_count_small n m : n <= m -> frag_count n m = 1.
Proof. intros H. unfold frag_count. destruct (Z.leb_spec n m); [reflexivity|lia]. Qed.

Lemma fragment_one m st b :
  fragment (Z.to_nat 1) 1 0 m st b = Ok [] \/
  (exists sg, fragment (Z.to_nat 1) 1 0 m st b = Ok [sg] /\ s_data sg = take (Z.min (blen b) m) b) \/
  exists w, fragment (Z.to_nat 1) 1 0 m st b = Panic w.
Proof.
  change (Z.to_nat 1) with 1%nat. cbn [fragment].
  change (0 >=? 1) with false. cbv iota.
  destruct (Z.min (blen b) m >? c_mtuLimit).
  - right. right. eexists. reflexivity.
  - right. left. change (0 + 1 >=? 1) with true. cbv iota. eexists. split; [reflexivity|]. reflexivity.
Qed.

(* the frame of Send: only snd_queue changes *)
Definition send_frame (k k' : kcp) : Prop :=
  mss k' = mss k /\ mtu k' = mtu k /\ snd_wnd k' = snd_wnd k /\ stream k' = stream k /\
  snd_buf k' = snd_buf k /\ rcv_queue k' = rcv_queue k /\ rcv_buf k' = rcv_buf k /\
  conv k' = conv k.

Lemma send_frame_refl k : send_frame k k.
Proof. repeat split. Qed.

Lemma send_frame_q k q : send_frame k (set_snd_queue k q).
Proof. repeat split. Qed.

Lemma send_frame_qq k q q' : send_frame k (set_snd_queue (set_snd_queue k q) q').
Proof. repeat split. Qed.

Lemma send_tail_frame k q1 b1 k' r : send_tail k q1 b1 = Ok (k', r) -> send_frame k k'.
Proof.
  unfold send_tail. cbv zeta.
  destruct (negb (stream k =? 0) && (blen b1 =? 0)).
  { intros H; inversion H; subst. apply send_frame_q. }
  destruct (frag_count (blen b1) (mss k) >? 255).
  { intros H; inversion H; subst. apply send_frame_q. }
  destruct (fragment _ _ _ _ _ _) as [segs|w]; intros H; inversion H; subst. apply send_frame_qq.
Qed.

Lemma send_frame_of k b k' r : send k b = Ok (k', r) -> send_frame k k'.
Proof.
  rewrite send_unfold. destruct (blen b =? 0).
  { intros H; inversion H; subst. apply send_frame_refl. }
  destruct (if stream k =? 0 then Ok (Some (snd_queue k, b)) else stream_append k b) as [[[q1 b1]|]|w].
  - apply send_tail_frame.
  - intros H; inversion H; subst. apply send_frame_refl.
  - discriminate.
Qed.

Lemma send_empty k b : blen b = 0 -> send k b = Ok (k, -1).
Proof. intros H. unfold send. rewrite H. reflexivity. Qed.

(* what the stream-mode append does to a buffer of at most mss bytes: never refuses, keeps the
   number of queued segments, leaves at most mss bytes *)
Lemma stream_append_small k b r :
  stream_append k b = Ok r -> blen b <= mss k ->
  exists q1 b1, r = Some (q1, b1) /\ blen b1 <= mss k /\ qlen q1 = qlen (snd_queue k).
Proof.
  intros H Hb. unfold stream_append in H.
  destruct (rev (snd_queue k)) as [|last before] eqn:Hrev.
  - inversion H; subst. eexists _, _. split; [reflexivity|]. split; [exact Hb|reflexivity].
  - assert (Hq : snd_queue k = rev before ++ [last]).
    { rewrite <- (rev_involutive (snd_queue k)), Hrev. reflexivity. }
    destruct (blen (s_data last) <? mss k).
    + cbv zeta in H.
      set (ext := Z.min (blen b) (mss k - blen (s_data last))) in *.
      pose proof (blen_drop_le ext b) as Hd.
      rewrite (frag_count_small (blen (drop ext b)) (mss k)) in H by lia.
      change (1 >? 255) with false in H. cbv iota in H.
      destruct (blen (s_data last) + ext >? c_mtuLimit); [discriminate|].
      inversion H; subst. eexists _, _. split; [reflexivity|]. split; [lia|].
      rewrite Hq, !qlen_app. reflexivity.
    + inversion H; subst. eexists _, _. split; [reflexivity|]. split; [exact Hb|reflexivity].
Qed.

Lemma send_tail_small k q1 b1 k' r :
  send_tail k q1 b1 = Ok (k', r) -> blen b1 <= mss k ->
  r = 0 /\ qlen q1 <= qlen (snd_queue k') <= qlen q1 + 1 /\
  (stream k = 0 -> qlen (snd_queue k') = qlen q1 + 1).
Proof.
  intros H Hb. unfold send_tail in H. cbv zeta in H.
  destruct (negb (stream k =? 0) && (blen b1 =? 0)) eqn:Hc.
  { inversion H; subst. ksimpl. split; [reflexivity|]. split; [lia|].
    intros Hs. rewrite Hs in Hc. discriminate. }
  rewrite (frag_count_small _ _ Hb) in H.
  change (1 >? 255) with false in H. change (1 =? 0) with false in H. cbv iota in H.
  destruct (fragment_one (mss k) (stream k) b1) as [E|[(sg & E & _)|(w & E)]]; rewrite E in H.
  - inversion H; subst. ksimpl. rewrite app_nil_r. split; [reflexivity|].
    (* fragment never returns [] here, but the bound holds anyway *)
    exfalso. revert E. change (Z.to_nat 1) with 1%nat. cbn [fragment].
    change (0 >=? 1) with false. cbv iota.
    destruct (Z.min (blen b1) (mss k) >? c_mtuLimit); [discriminate|].
    change (0 + 1 >=? 1) with true. cbv iota. discriminate.
  - inversion H; subst. ksimpl. rewrite qlen_app.
    change (qlen [sg]) with 1. split; [reflexivity|]. split; [lia|]. intros _. reflexivity.
  - discriminate.
Qed.

(* C01 (a), core of it: a non-empty buffer of at most mss bytes is always accepted *)
Lemma send_small k b k' r :
  send k b = Ok (k', r) -> 0 < blen b <= mss k ->
  r = 0 /\ waitsnd k <= waitsnd k' <= waitsnd k + 1 /\ (stream k = 0 -> waitsnd k' = waitsnd k + 1).
Proof.
  intros H Hb. pose proof (send_frame_of k b k' r H) as (_ & _ & _ & _ & Hsb & _).
  unfold waitsnd. rewrite Hsb.
  rewrite send_unfold in H.
  destruct (blen b =? 0) eqn:Hb0; [apply Z.eqb_eq in Hb0; lia|].
  destruct (stream k =? 0) eqn:Hst.
  - destruct (send_tail_small k (snd_queue k) b k' r H (proj2 Hb)) as (Hr & Hq & Hm).
    split; [exact Hr|]. split; [lia|]. intros Hs. specialize (Hm Hs). lia.
  - destruct (stream_append k b) as [r0|w] eqn:Ha; [|discriminate].
    destruct (stream_append_small k b r0 Ha (proj2 Hb)) as (q1 & b1 & Hr0 & Hb1 & Hq1). subst r0.
    destruct (send_tail_small k q1 b1 k' r H Hb1) as (Hr & Hq & _).
    split; [exact Hr|]. split; [lia|]. intros Hs. apply Z.eqb_neq in Hst. contradiction.
Qed.

(* ------------------------------------------------------------------ *)
(* 2. the splitting                                                    *)
(* ------------------------------------------------------------------ *)
Lemma chunk_buf_concat fuel m : forall b, concat (chunk_buf fuel m b) = b.
Proof.
  induction fuel as [|f IH]; intros b; cbn [chunk_buf].
  - cbn. apply app_nil_r.
  - destruct (blen b <=? m); [cbn; apply app_nil_r|].
    cbn [concat]. rewrite IH. apply take_drop.
Qed.

Lemma drop_length_lt m b f : 1 <= m -> (length b <= S f)%nat -> (length (drop m b) <= f)%nat.
Proof. intros Hm Hl. unfold drop. rewrite skipn_length. lia. Qed.

Lemma chunk_buf_le fuel m : 1 <= m -> forall b, (length b <= fuel)%nat ->
  Forall (fun c => blen c <= m) (chunk_buf fuel m b).
Proof.
  intros Hm. induction fuel as [|f IH]; intros b Hl; cbn [chunk_buf].
  - constructor; [|constructor]. unfold blen. lia.
  - destruct (Z.leb_spec (blen b) m) as [Hle|Hgt].
    + constructor; [exact Hle|constructor].
    + constructor; [apply blen_take_le_n; lia|]. apply IH. apply drop_length_lt; assumption.
Qed.

Lemma chunk_buf_bytes fuel m : forall b, is_byte_list b -> Forall is_byte_list (chunk_buf fuel m b).
Proof.
  induction fuel as [|f IH]; intros b Hb; cbn [chunk_buf].
  - constructor; [exact Hb|constructor].
  - destruct (blen b <=? m); [constructor; [exact Hb|constructor]|].
    constructor; [apply byte_list_take; exact Hb|]. apply IH. apply byte_list_drop. exact Hb.
Qed.

Definition count_nonempty (l : list bytes) : Z := Z.of_nat (length (filter nonempty l)).

Lemma count_nonempty_app a b : count_nonempty (a ++ b) = count_nonempty a + count_nonempty b.
Proof. unfold count_nonempty. rewrite filter_app, app_length. lia. Qed.

Lemma cdiv_zero m : 1 <= m -> cdiv 0 m = 0.
Proof. intros Hm. unfold cdiv. apply Z.div_small. lia. Qed.

Lemma cdiv_one n m : 0 < n <= m -> cdiv n m = 1.
Proof.
  intros H. unfold cdiv. symmetry. apply (Z.div_unique_pos _ _ 1 (n - 1)); lia.
Qed.

Lemma cdiv_step n m : 1 <= m -> cdiv n m = 1 + cdiv (n - m) m.
Proof.
  intros Hm. unfold cdiv. replace (n + m - 1) with ((n - m + m - 1) + 1 * m) by lia.
  rewrite Z.div_add by lia. lia.
Qed.

Lemma cdiv_nonneg n m : 1 <= m -> 0 <= n -> 0 <= cdiv n m.
Proof. intros Hm Hn. unfold cdiv. apply Z.div_pos; lia. Qed.

(* the number of non-empty chunks of a buffer is ceil(len/mss) - zero for the empty buffer,
   whose single empty chunk Send refuses *)
Lemma chunk_buf_count fuel m : 1 <= m -> forall b, (length b <= fuel)%nat ->
  count_nonempty (chunk_buf fuel m b) = cdiv (blen b) m.
Proof.
  intros Hm. induction fuel as [|f IH]; intros b Hl; cbn [chunk_buf].
  - assert (b = []) by (destruct b; [reflexivity|cbn [length] in Hl; lia]). subst b.
    rewrite blen_nil, cdiv_zero by exact Hm. reflexivity.
  - destruct (Z.leb_spec (blen b) m) as [Hle|Hgt].
    + unfold count_nonempty. cbn [filter]. unfold nonempty.
      destruct (Z.eqb_spec (blen b) 0) as [E|E]; cbn [negb length].
      * rewrite E, cdiv_zero by exact Hm. reflexivity.
      * pose proof (blen_nonneg b). rewrite cdiv_one by lia. reflexivity.
    + change (take m b :: chunk_buf f m (drop m b)) with ([take m b] ++ chunk_buf f m (drop m b)).
      rewrite count_nonempty_app, IH by (apply drop_length_lt; assumption).
      rewrite blen_drop by lia. rewrite (cdiv_step (blen b) m Hm).
      unfold count_nonempty. cbn [filter]. unfold nonempty. rewrite blen_take by lia.
      destruct (Z.eqb_spec m 0); [lia|]. reflexivity.
Qed.

Lemma write_chunks_concat m v : concat (write_chunks m v) = concat v.
Proof.
  unfold write_chunks. induction v as [|b t IH]; [reflexivity|].
  cbn [flat_map concat]. rewrite concat_app, IH. unfold chunks. rewrite chunk_buf_concat. reflexivity.
Qed.

Lemma write_chunks_le m v : 1 <= m -> Forall (fun c => blen c <= m) (write_chunks m v).
Proof.
  intros Hm. unfold write_chunks. induction v as [|b t IH]; [constructor|].
  cbn [flat_map]. apply Forall_app. split; [|exact IH]. apply chunk_buf_le; [exact Hm|lia].
Qed.

Lemma write_chunks_bytes m v : Forall is_byte_list v -> Forall is_byte_list (write_chunks m v).
Proof.
  unfold write_chunks. induction 1 as [|b t Hb Ht IH]; [constructor|].
  cbn [flat_map]. apply Forall_app. split; [|exact IH]. apply chunk_buf_bytes. exact Hb.
Qed.

Lemma write_chunks_count m v : 1 <= m -> count_nonempty (write_chunks m v) = chunk_total m v.
Proof.
  intros Hm. unfold write_chunks. induction v as [|b t IH]; [reflexivity|].
  cbn [flat_map chunk_total]. rewrite count_nonempty_app, IH. unfold chunks.
  rewrite chunk_buf_count by (try exact Hm; lia). reflexivity.
Qed.

(* ---- Send over a list ---- *)
Lemma send_list_app k a : forall b,
  send_list k (a ++ b) =
  match send_list k a with
  | Panic w => Panic w
  | Ok (k1, t1) => match send_list k1 b with Panic w => Panic w | Ok (k2, t2) => Ok (k2, t1 ++ t2) end
  end.
Proof.
  revert k. induction a as [|c t IH]; intros k b; cbn [app send_list].
  - destruct (send_list k b) as [[k2 t2]|w]; reflexivity.
  - destruct (send k c) as [[k1 r]|w]; [|reflexivity]. rewrite IH.
    destruct (send_list k1 t) as [[k2 t1]|w]; [|reflexivity].
    destruct (send_list k2 b) as [[k3 t2]|w]; reflexivity.
Qed.

Lemma send_list_frame cs : forall k k1 tr, send_list k cs = Ok (k1, tr) -> send_frame k k1 /\ map fst tr = cs.
Proof.
  induction cs as [|c t IH]; intros k k1 tr H; cbn [send_list] in H.
  - inversion H; subst. split; [apply send_frame_refl|reflexivity].
  - destruct (send k c) as [[k2 r]|w] eqn:Hs; [|discriminate].
    destruct (send_list k2 t) as [[k3 tr3]|w] eqn:Hl; [|discriminate]. inversion H; subst.
    destruct (IH _ _ _ Hl) as (F2 & M). pose proof (send_frame_of _ _ _ _ Hs) as F1.
    split; [|cbn [map fst]; rewrite M; reflexivity].
    destruct F1 as (A1 & A2 & A3 & A4 & A5 & A6 & A7 & A8). destruct F2 as (B1 & B2 & B3 & B4 & B5 & B6 & B7 & B8).
    unfold send_frame. rewrite B1, B2, B3, B4, B5, B6, B7, B8. repeat split; assumption.
Qed.

(* the inner loop = Send on each chunk of the buffer *)
Lemma send_buf_spec fuel : forall k b, send_buf fuel k b = send_list k (chunk_buf fuel (mss k) b).
Proof.
  assert (One : forall k b, send_one k b = send_list k [b]).
  { intros k b. unfold send_one. cbn [send_list]. destruct (send k b) as [[k1 r]|w]; reflexivity. }
  induction fuel as [|f IH]; intros k b; cbn [send_buf chunk_buf]; [apply One|].
  destruct (blen b <=? mss k); [apply One|]. cbn [send_list].
  destruct (send k (take (mss k) b)) as [[k1 r]|w] eqn:Hs; [|reflexivity].
  pose proof (send_frame_of _ _ _ _ Hs) as (Hm & _). rewrite IH, Hm. reflexivity.
Qed.

(* the whole vector = Send on each chunk of each buffer; n = total length *)
Lemma send_vec_spec v : forall k,
  send_vec k v =
  match send_list k (write_chunks (mss k) v) with
  | Panic w => Panic w
  | Ok (k1, tr) => Ok (k1, blen (concat v), tr)
  end.
Proof.
  induction v as [|b t IH]; intros k; cbn [send_vec write_chunks flat_map concat].
  - reflexivity.
  - rewrite send_buf_spec, send_list_app. fold (chunks (mss k) b).
    destruct (send_list k (chunks (mss k) b)) as [[k1 tr1]|w] eqn:H1; [|reflexivity].
    destruct (send_list_frame _ _ _ _ H1) as ((Hm & _) & _).
    rewrite IH, Hm. fold (write_chunks (mss k) t).
    destruct (send_list k1 (write_chunks (mss k) t)) as [[k2 tr2]|w]; [|reflexivity].
    rewrite blen_app. reflexivity.
Qed.

(* send_ok without its (unused) byte-range premise *)
Lemma send_total k b : inv k -> exists k' r, send k b = Ok (k', r) /\ inv k'.
Proof.
  intros H. rewrite send_unfold.
  destruct (blen b =? 0).
  - exists k, (-1). split; [reflexivity|exact H].
  - destruct (stream k =? 0).
    + destruct (send_tail_ok k (snd_queue k) b H) as (k' & r & E & Hi & _).
      { split; [exact (I_sq_len _ H) | exact (I_sq_fresh _ H)]. }
      exists k', r. split; assumption.
    + destruct (stream_append_ok k b H) as [r0 [Hr Hgood]]. rewrite Hr.
      destruct r0 as [[q1 b1]|].
      * destruct (send_tail_ok k q1 b1 H Hgood) as (k' & r & E & Hi & _). exists k', r. split; assumption.
      * exists k, (-2). split; [reflexivity|exact H].
Qed.

(* Send on a list of buffers of at most mss bytes each, under the invariant: total, keeps the
   invariant, accepts exactly the non-empty ones, occupancy grows by at most their number *)
Lemma send_list_ok cs : forall k, inv k -> Forall (fun c => blen c <= mss k) cs ->
  exists k1 tr, send_list k cs = Ok (k1, tr) /\ inv k1 /\
    Forall (fun p => snd p = if blen (fst p) =? 0 then -1 else 0) tr /\
    waitsnd k <= waitsnd k1 <= waitsnd k + count_nonempty cs /\
    (stream k = 0 -> waitsnd k1 = waitsnd k + count_nonempty cs).
Proof.
  induction cs as [|c t IH]; intros k Hinv Hle; cbn [send_list].
  - exists k, []. split; [reflexivity|]. split; [exact Hinv|]. split; [constructor|].
    unfold count_nonempty. cbn. split; [lia|]. intros _. lia.
  - inversion Hle as [|x y Hc Ht]; subst x y.
    destruct (send_total k c Hinv) as (k1 & r & Hs & Hinv1).
    rewrite Hs. pose proof (send_frame_of _ _ _ _ Hs) as (Hm & _ & _ & Hst & _).
    assert (Ht' : Forall (fun c0 => blen c0 <= mss k1) t) by (rewrite Hm; exact Ht).
    destruct (IH k1 Hinv1 Ht') as (k2 & tr & Hl & Hinv2 & Hret & Hw & Hwm). rewrite Hl.
    exists k2, ((c, r) :: tr). split; [reflexivity|]. split; [exact Hinv2|].
    change (c :: t) with ([c] ++ t). rewrite count_nonempty_app.
    unfold count_nonempty at 1 3. cbn [filter]. unfold nonempty.
    pose proof (blen_nonneg c) as Hc0.
    destruct (Z.eqb_spec (blen c) 0) as [E|E]; cbn [negb length Z.of_nat].
    + rewrite (send_empty k c E) in Hs. inversion Hs; subst k1 r.
      split; [constructor; [cbn [fst snd]; rewrite E; reflexivity|exact Hret]|].
      split; [lia|]. intros Hs0. specialize (Hwm Hs0). lia.
    + destruct (send_small k c k1 r Hs ltac:(lia)) as (Hr & Hw1 & Hwm1).
      split; [constructor; [cbn [fst snd]; destruct (Z.eqb_spec (blen c) 0); [contradiction|exact Hr]|exact Hret]|].
      split; [lia|]. intros Hs0. rewrite Hst in Hwm. specialize (Hwm Hs0). specialize (Hwm1 Hs0). lia.
Qed.

(* Send on a list = the operations OSend of Step.v *)
Lemma send_list_run cs : forall k k1 tr, send_list k cs = Ok (k1, tr) ->
  run k (map OSend cs) = Some (k1, map (fun p => mkOut (snd p) [] []) tr).
Proof.
  induction cs as [|c t IH]; intros k k1 tr H; cbn [send_list] in H; cbn [map run].
  - inversion H; subst. reflexivity.
  - cbn [step]. destruct (send k c) as [[k2 r]|w]; [|discriminate].
    destruct (send_list k2 t) as [[k3 tr3]|w] eqn:Hl; [|discriminate]. inversion H; subst.
    rewrite (IH _ _ _ Hl). reflexivity.
Qed.

(* ------------------------------------------------------------------ *)
(* 3. flush keeps the payload list of the send side                    *)
(* ------------------------------------------------------------------ *)
Lemma admit_payloads sq : forall sb cv una nxt cw n sq' sb' nxt' n',
  admit_segs sq sb cv una nxt cw n = (sq', sb', nxt', n') ->
  map s_data (sb' ++ sq') = map s_data (sb ++ sq).
Proof.
  induction sq as [|s t IH]; intros sb cv una nxt cw n sq' sb' nxt' n' H; cbn [admit_segs] in H.
  - inversion H; subst. reflexivity.
  - destruct (itimediff nxt (u32 (una + cw)) >=? 0).
    + inversion H; subst. reflexivity.
    + apply IH in H. rewrite H, <- app_assoc. cbn [app]. rewrite !map_app. reflexivity.
Qed.

Lemma rel_payloads P l l' : Forall2 (fl_seg_rel P) l l' -> map s_data l' = map s_data l.
Proof.
  induction 1 as [|s s' l l' (_ & Hd & _) _ IH]; [reflexivity|]. cbn [map]. rewrite Hd, IH. reflexivity.
Qed.

Lemma flush_payloads k ft now k' nx o :
  flush k ft now = Ok (k', nx, o) ->
  snd_payloads k' = snd_payloads k /\ snd_wnd k' = snd_wnd k /\ mss k' = mss k /\
  stream k' = stream k /\ rcv_queue k' = rcv_queue k.
Proof.
  intros H.
  destruct (fl_shape k ft now k' nx o H)
    as (al & tsp & pw & st & sst & cwn & inc & h1 & st3 & sq & sb & nxt & ns & k4 & sb' & a &
        Hk' & _ & _ & _ & E4 & Hsb4 & E5).
  pose proof (fl_ph5_rel k4 h1 ft ns now st3 sb' a E5) as Hrel. rewrite Hsb4 in Hrel.
  subst k'. unfold snd_payloads, fl_final. fl_fields.
  split; [|repeat split].
  rewrite map_app, (rel_payloads _ _ _ Hrel), <- map_app.
  unfold fl_ph4 in E4. destruct (ft =? FLUSH_FULL).
  - apply admit_payloads in E4. exact E4.
  - inversion E4; subst. reflexivity.
Qed.

Lemma waitsnd_payloads k : waitsnd k = Z.of_nat (length (snd_payloads k)).
Proof. unfold waitsnd, snd_payloads, qlen. rewrite map_length, app_length. lia. Qed.

Lemma flush_waitsnd k ft now k' nx o :
  flush k ft now = Ok (k', nx, o) -> waitsnd k' = waitsnd k /\ snd_wnd k' = snd_wnd k.
Proof.
  intros H. destruct (flush_payloads _ _ _ _ _ _ H) as (Hp & Hw & _).
  rewrite !waitsnd_payloads, Hp. split; [reflexivity|exact Hw].
Qed.

(* ------------------------------------------------------------------ *)
(* 4. write_full                                                       *)
(* ------------------------------------------------------------------ *)
Lemma inv_mss_ge1 k : inv k -> 1 <= mss k.
Proof. intros H. pose proof (inv_mss_range k H). lia. Qed.

(* inversion of a pass of WriteBuffers *)
Lemma write_full_inv s v wd now s1 out o tr :
  write_full s v wd now = Ok (s1, out, o, tr) ->
  (waitsnd (core s) >= snd_wnd (core s) /\ s1 = s /\ out = WBlock /\ o = [] /\ tr = []) \/
  (waitsnd (core s) < snd_wnd (core s) /\ out = WAdmitted (blen (concat v)) /\ bufptr s1 = bufptr s /\
   exists k1, send_list (core s) (write_chunks (mss (core s)) v) = Ok (k1, tr) /\
     ((write_flushes k1 wd = true /\ exists nx, flush k1 FLUSH_FULL now = Ok (core s1, nx, o)) \/
      (write_flushes k1 wd = false /\ core s1 = k1 /\ o = []))).
Proof.
  unfold write_full. cbv zeta. destruct (Z.ltb_spec (waitsnd (core s)) (snd_wnd (core s))) as [Hlt|Hge].
  - rewrite send_vec_spec.
    destruct (send_list (core s) (write_chunks (mss (core s)) v)) as [[k1 tr1]|w] eqn:Hl; [|discriminate].
    destruct (write_flushes k1 wd) eqn:Hf.
    + destruct (flush k1 FLUSH_FULL now) as [[[k2 nx] o2]|w] eqn:Hfl; [|discriminate].
      intros H; inversion H; subst. right. split; [exact Hlt|]. split; [reflexivity|]. split; [reflexivity|].
      exists k1. split; [reflexivity|]. left. split; [exact Hf|]. exists nx. exact Hfl.
    + intros H; inversion H; subst. right. split; [exact Hlt|]. split; [reflexivity|]. split; [reflexivity|].
      exists k1. split; [reflexivity|]. right. split; [exact Hf|]. split; reflexivity.
  - intros H; inversion H; subst. left. repeat split. lia.
Qed.

(* C05-style totality: a pass of WriteBuffers never faults and keeps the invariant *)
Lemma write_full_total s v wd now :
  inv (core s) -> exists s1 out o tr, write_full s v wd now = Ok (s1, out, o, tr) /\ inv (core s1).
Proof.
  intros Hinv. unfold write_full. cbv zeta. destruct (waitsnd (core s) <? snd_wnd (core s)).
  - rewrite send_vec_spec.
    destruct (send_list_ok (write_chunks (mss (core s)) v) (core s) Hinv
                (write_chunks_le _ _ (inv_mss_ge1 _ Hinv))) as (k1 & tr & Hl & Hinv1 & _).
    rewrite Hl. destruct (write_flushes k1 wd).
    + destruct (flush_ok k1 FLUSH_FULL now Hinv1) as (k2 & nx & o & Hfl & Hinv2 & _). rewrite Hfl.
      eexists _, _, _, _. split; [reflexivity|exact Hinv2].
    + eexists _, _, _, _. split; [reflexivity|exact Hinv1].
  - eexists _, _, _, _. split; [reflexivity|exact Hinv].
Qed.

(* C01 (a) *)
Lemma write_chunks_thm s v wd now s1 n o tr :
  inv (core s) -> write_full s v wd now = Ok (s1, WAdmitted n, o, tr) ->
  map fst tr = write_chunks (mss (core s)) v /\
  concat (map fst tr) = concat v /\
  Forall (fun c => blen c <= mss (core s)) (map fst tr) /\
  Forall (fun p => snd p = if blen (fst p) =? 0 then -1 else 0) tr /\
  n = blen (concat v) /\
  exists k1 outs, run (core s) (map OSend (map fst tr)) = Some (k1, outs) /\ map o_ret outs = map snd tr /\
    snd_payloads (core s1) = snd_payloads k1.
Proof.
  intros Hinv H. destruct (write_full_inv _ _ _ _ _ _ _ _ H) as [(_ & _ & Hb & _)|(Hlt & Hout & _ & k1 & Hl & Hfl)];
    [discriminate|].
  inversion Hout; subst n.
  destruct (send_list_frame _ _ _ _ Hl) as (_ & Hm).
  destruct (send_list_ok (write_chunks (mss (core s)) v) (core s) Hinv
              (write_chunks_le _ _ (inv_mss_ge1 _ Hinv))) as (k1' & tr' & Hl' & _ & Hret & _).
  rewrite Hl in Hl'. inversion Hl'; subst k1' tr'.
  split; [exact Hm|]. split; [rewrite Hm; apply write_chunks_concat|].
  split; [rewrite Hm; apply write_chunks_le; apply inv_mss_ge1; exact Hinv|].
  split; [exact Hret|]. split; [reflexivity|].
  exists k1, (map (fun p => mkOut (snd p) [] []) tr).
  split; [rewrite Hm; apply send_list_run; exact Hl|].
  split; [rewrite map_map; reflexivity|].
  destruct Hfl as [(_ & nx & Hf)|(_ & Hc & _)].
  - apply flush_payloads in Hf. apply Hf.
  - rewrite Hc. reflexivity.
Qed.

(* C04 (d) *)
Lemma write_admission_thm s v wd now s1 out o tr :
  write_full s v wd now = Ok (s1, out, o, tr) ->
  (* admitted only below the window; a blocked pass changes nothing and sends nothing *)
  (forall n, out = WAdmitted n -> waitsnd (core s) < snd_wnd (core s)) /\
  (out = WBlock -> s1 = s /\ o = [] /\ tr = [] /\ waitsnd (core s) >= snd_wnd (core s)) /\
  (waitsnd (core s) >= snd_wnd (core s) -> out = WBlock).
Proof.
  intros H. destruct (write_full_inv _ _ _ _ _ _ _ _ H) as [(Hge & Hs & Hout & Ho & Htr)|(Hlt & Hout & _)].
  - subst. split; [intros n Hn; discriminate|]. split; [intros _; repeat split; assumption|]. intros _. reflexivity.
  - subst out. split; [intros n _; exact Hlt|]. split; [intros Hb; discriminate|]. intros Hge. lia.
Qed.

Lemma write_occupancy_thm s v wd now s1 n o tr :
  inv (core s) -> write_full s v wd now = Ok (s1, WAdmitted n, o, tr) ->
  snd_wnd (core s1) = snd_wnd (core s) /\
  waitsnd (core s) <= waitsnd (core s1) <= waitsnd (core s) + chunk_total (mss (core s)) v /\
  waitsnd (core s1) <= snd_wnd (core s) - 1 + chunk_total (mss (core s)) v /\
  (stream (core s) = 0 -> waitsnd (core s1) = waitsnd (core s) + chunk_total (mss (core s)) v).
Proof.
  intros Hinv H. destruct (write_full_inv _ _ _ _ _ _ _ _ H) as [(_ & _ & Hb & _)|(Hlt & _ & _ & k1 & Hl & Hfl)];
    [discriminate|].
  pose proof (inv_mss_ge1 _ Hinv) as Hm.
  destruct (send_list_ok (write_chunks (mss (core s)) v) (core s) Hinv (write_chunks_le _ _ Hm))
    as (k1' & tr' & Hl' & _ & _ & Hw & Hwm).
  rewrite Hl in Hl'. inversion Hl'; subst k1' tr'. rewrite write_chunks_count in Hw, Hwm by exact Hm.
  destruct (send_list_frame _ _ _ _ Hl) as ((_ & _ & Hsw & _) & _).
  assert (E : waitsnd (core s1) = waitsnd k1 /\ snd_wnd (core s1) = snd_wnd k1).
  { destruct Hfl as [(_ & nx & Hf)|(_ & Hc & _)]; [apply (flush_waitsnd _ _ _ _ _ _ Hf)|rewrite Hc; split; reflexivity]. }
  destruct E as (E1 & E2). rewrite E1, E2.
  split; [exact Hsw|]. split; [exact Hw|]. split; [lia|]. exact Hwm.
Qed.

(* an admitted write that fills the window flushes in the same pass: the datagrams of the pass
   are those of a FULL flush of the state the Send calls left *)
Lemma write_full_flushes_thm s v wd now s1 n o tr :
  write_full s v wd now = Ok (s1, WAdmitted n, o, tr) ->
  (waitsnd (core s1) >= snd_wnd (core s1) \/ wd = false) ->
  exists k1 nx, send_vec (core s) v = Ok (k1, n, tr) /\ flush k1 FLUSH_FULL now = Ok (core s1, nx, o).
Proof.
  intros H Hfull. destruct (write_full_inv _ _ _ _ _ _ _ _ H) as [(_ & _ & Hb & _)|(Hlt & Hout & _ & k1 & Hl & Hfl)];
    [discriminate|].
  inversion Hout; subst n.
  assert (Hv : send_vec (core s) v = Ok (k1, blen (concat v), tr)) by (rewrite send_vec_spec, Hl; reflexivity).
  destruct Hfl as [(_ & nx & Hf)|(Hnf & Hc & _)].
  - exists k1, nx. split; assumption.
  - exfalso. unfold write_flushes in Hnf. apply orb_false_elim in Hnf. destruct Hnf as (Hw & Hd).
    rewrite Z.geb_leb in Hw. apply Z.leb_gt in Hw. rewrite Hc in Hfull.
    destruct Hfull as [Hge|Hwd]; [lia|]. subst wd. discriminate.
Qed.

(* write_step is write_full without the ghost *)
Lemma write_step_full s v wd now :
  write_step s v wd now =
  match write_full s v wd now with Panic w => Panic w | Ok (s1, out, o, _) => Ok (s1, out, o) end.
Proof. reflexivity. Qed.

(* ------------------------------------------------------------------ *)
(* 5. read_full                                                        *)
(* ------------------------------------------------------------------ *)
Lemma pop_msg_len q : blen (fst (pop_msg q)) = msg_size q.
Proof.
  induction q as [|s t IH]; cbn [pop_msg msg_size]; [reflexivity|].
  destruct (s_frg s =? 0); [reflexivity|].
  destruct (pop_msg t) as [d r]. cbn [fst] in *. rewrite blen_app, IH. reflexivity.
Qed.

(* Recv either refuses (negative code, nothing written, state unchanged) or hands over exactly
   PeekSize() bytes *)
Lemma recv_cases k n k1 r d :
  recv k n = (k1, r, d) ->
  (r < 0 /\ d = [] /\ k1 = k /\ (peeksize k < 0 \/ peeksize k > n)) \/
  (0 <= peeksize k <= n /\ r = peeksize k /\ blen d = peeksize k).
Proof.
  unfold recv. cbv zeta.
  destruct (Z.ltb_spec (peeksize k) 0) as [Hneg|Hnn].
  { intros H; inversion H; subst. left. repeat split; lia. }
  destruct (peeksize k >? n) eqn:Hgt.
  { intros H; inversion H; subst. left. apply Z.gtb_lt in Hgt. repeat split; lia. }
  rewrite Z.gtb_ltb in Hgt. apply Z.ltb_ge in Hgt.
  destruct (pop_msg (rcv_queue k)) as [d0 rq] eqn:Hpop.
  intros H. right.
  assert (Hd : blen d0 = peeksize k).
  { pose proof (pop_msg_len (rcv_queue k)) as Hl. rewrite Hpop in Hl. cbn [fst] in Hl.
    unfold peeksize in *. destruct (rcv_queue k) as [|s t] eqn:Hq; [lia|].
    cbn [pop_msg msg_size] in *. destruct (s_frg s =? 0).
    - inversion Hpop; subst. reflexivity.
    - destruct (qlen (s :: t) <? u8 (s_frg s + 1)); [lia|]. exact Hl. }
  destruct (_ && _); inversion H; subst; (split; [lia|]); split; auto.
Qed.

Definition out_data (out : read_outcome) : bytes := match out with RData d => d | RBlock => [] end.
Definition rc_data (rc : option (Z * Z * bytes)) : bytes :=
  match rc with Some (_, r, d) => if r >=? 0 then d else [] | None => [] end.

(* one pass of Read: the carry-over equation, and the Recv call it made *)
Lemma read_full_thm s n s1 out rc :
  read_full s n = (s1, out, rc) ->
  out_data out ++ bufptr s1 = bufptr s ++ rc_data rc /\
  (out = RBlock -> s1 = s /\ rc = None /\ bufptr s = [] /\ peeksize (core s) <= 0) /\
  match rc with
  | None => core s1 = core s
  | Some (m, r, d) =>
      recv (core s) m = (core s1, r, d) /\ bufptr s = [] /\
      r = peeksize (core s) /\ blen d = r /\ 0 < r /\ ((r <= n /\ m = n) \/ (n < r /\ m = r))
  end.
Proof.
  unfold read_full. cbv zeta.
  destruct (blen (bufptr s) >? 0) eqn:Hb.
  { intros H; inversion H; subst. cbn [out_data rc_data bufptr core].
    rewrite app_nil_r. split; [apply take_drop|]. split; [discriminate|reflexivity]. }
  apply blen_gtb_false_nil in Hb.
  destruct (peeksize (core s) >? 0) eqn:Hp.
  - apply Z.gtb_lt in Hp. destruct (Z.geb_spec n (peeksize (core s))) as [Hge|Hlt].
    + destruct (recv (core s) n) as [[k1 r] d] eqn:Hr. intros H; inversion H; subst.
      cbn [out_data rc_data bufptr core].
      destruct (recv_cases _ _ _ _ _ Hr) as [(Hneg & _ & _ & Hc)|(Hrange & Hrr & Hd)]; [lia|].
      destruct (Z.geb_spec r 0); [|lia].
      rewrite Hb, app_nil_r. split; [reflexivity|]. split; [discriminate|].
      split; [exact Hr|]. split; [reflexivity|]. split; [exact Hrr|]. split; [lia|]. split; [lia|].
      left. split; [lia|reflexivity].
    + destruct (recv (core s) (peeksize (core s))) as [[k1 r] d] eqn:Hr. intros H; inversion H; subst.
      cbn [out_data rc_data bufptr core].
      destruct (recv_cases _ _ _ _ _ Hr) as [(Hneg & _ & _ & Hc)|(Hrange & Hrr & Hd)]; [lia|].
      destruct (Z.geb_spec r 0); [|lia].
      rewrite Hb. cbn [app]. split; [apply take_drop|]. split; [discriminate|].
      split; [exact Hr|]. split; [reflexivity|]. split; [exact Hrr|].
      split; [lia|]. split; [lia|]. right. split; [lia|symmetry; exact Hrr].
  - intros H; inversion H; subst. cbn [out_data rc_data]. rewrite app_nil_r.
    rewrite Z.gtb_ltb in Hp. apply Z.ltb_ge in Hp.
    split; [reflexivity|]. split; [intros _; repeat split; assumption|reflexivity].
Qed.

Lemma read_block_thm s n s1 rc :
  read_full s n = (s1, RBlock, rc) -> s1 = s /\ rc = None /\ bufptr s = [] /\ peeksize (core s) <= 0.
Proof. intros H. exact (proj1 (proj2 (read_full_thm s n s1 RBlock rc H)) eq_refl). Qed.

Lemma read_step_full s n : read_step s n = (fst (fst (read_full s n)), snd (fst (read_full s n))).
Proof. unfold read_step. destruct (read_full s n) as [[s1 out] rc]. reflexivity. Qed.

(* C01 (b): every run of the reader system keeps
     (bytes Read returned) ++ carry-over = (bytes the core's Recv handed to Read) *)
Definition rd_inv (st : rd_state) : Prop :=
  concat (rd_ret st) ++ bufptr (rd_s st) = concat (rd_del st).

Lemma rd_step_inv st e st1 : rd_step st e = Some st1 -> rd_inv st -> rd_inv st1.
Proof.
  unfold rd_inv. destruct e as [n|o]; cbn [rd_step].
  - destruct (read_full (rd_s st) n) as [[s1 out] rc] eqn:Hr. intros H; inversion H; subst. clear H.
    cbn [rd_s rd_ret rd_del]. intros Hinv.
    destruct (read_full_thm _ _ _ _ _ Hr) as (Heq & _ & _).
    assert (G : forall A B : list bytes,
               concat A = concat (rd_ret st) ++ out_data out ->
               concat B = concat (rd_del st) ++ rc_data rc -> concat A ++ bufptr s1 = concat B).
    { intros A B EA EB. rewrite EA, EB, <- app_assoc, Heq, app_assoc, Hinv. reflexivity. }
    apply G.
    + destruct out; cbn [out_data]; [rewrite concat_app; cbn; rewrite app_nil_r; reflexivity|rewrite app_nil_r; reflexivity].
    + destruct rc as [[[m r] d]|]; cbn [rc_data]; [|rewrite app_nil_r; reflexivity].
      destruct (r >=? 0); [rewrite concat_app; cbn; rewrite app_nil_r; reflexivity|rewrite app_nil_r; reflexivity].
  - destruct (step (core (rd_s st)) o) as [[k1 x]|w]; [|discriminate].
    intros H; inversion H; subst. cbn [rd_s rd_ret rd_del bufptr]. auto.
Qed.

Lemma rd_run_inv evs : forall st st1, rd_run st evs = Some st1 -> rd_inv st -> rd_inv st1.
Proof.
  induction evs as [|e t IH]; intros st st1 H Hinv; cbn [rd_run] in H.
  - inversion H; subst. exact Hinv.
  - destruct (rd_step st e) as [st2|] eqn:Hs; [|discriminate].
    eapply IH; [exact H|]. eapply rd_step_inv; eassumption.
Qed.

Lemma read_carry_thm evs s0 st :
  bufptr s0 = [] -> rd_run (mkRd s0 [] []) evs = Some st ->
  concat (rd_ret st) ++ bufptr (rd_s st) = concat (rd_del st).
Proof.
  intros Hb H. apply (rd_run_inv evs _ _ H). unfold rd_inv. cbn. exact Hb.
Qed.

(* rd_del really is what the core delivered: every Recv of the run is one made by Read as long
   as no other caller performs Recv; stated per pass *)
Lemma read_recv_thm s n s1 out m r d :
  read_full s n = (s1, out, Some (m, r, d)) ->
  step (core s) (ORecv m) = Ok (core s1, mkOut r d []) /\ r = peeksize (core s) /\ blen d = r /\ 0 < r /\
  ((r <= n /\ out = RData d /\ bufptr s1 = []) \/ (n < r /\ out = RData (take n d) /\ bufptr s1 = drop n d)).
Proof.
  intros H. pose proof (read_full_thm _ _ _ _ _ H) as (_ & _ & Hr & Hb & Hp & Hd & Hpos & Hm).
  cbn [step]. rewrite Hr. split; [reflexivity|]. split; [exact Hp|]. split; [exact Hd|]. split; [exact Hpos|].
  unfold read_full in H. cbv zeta in H. rewrite Hb in H. change (blen [] >? 0) with false in H. cbv iota in H.
  rewrite <- Hp in H. destruct (r >? 0) eqn:Hr0; [|discriminate H].
  destruct (Z.geb_spec n r) as [Hge|Hlt].
  - destruct (recv (core s) n) as [[k1 r1] d1]. inversion H; subst. left.
    split; [lia|]. split; reflexivity.
  - destruct (recv (core s) r) as [[k1 r1] d1]. inversion H; subst. right.
    split; [lia|]. split; reflexivity.
Qed.

(* ---- Close: the final flush obeys the core's admission rule ---- *)
Lemma close_admission_thm :
  forall s now s1 o,
    inv (core s) -> close_full s now = Ok (s1, o) ->
    let k := core s in
    let cw := if nocwnd k =? 0 then Z.min (cwnd k) (Z.min (snd_wnd k) (rmt_wnd k))
              else Z.min (snd_wnd k) (rmt_wnd k) in
    bufptr s1 = bufptr s /\
    (qlen (snd_buf (core s1)) > qlen (snd_buf k) -> qlen (snd_buf (core s1)) <= cw) /\
    Forall (fun sg => s_xmit sg = 1) (skipn (length (snd_buf k)) (snd_buf (core s1))) /\
    snd_payloads (core s1) = snd_payloads k.
Proof.
  intros s now s1 o Hinv Hc. unfold close_full in Hc.
  destruct (flush (core s) FLUSH_FULL now) as [[[k1 nx] o1]|w] eqn:Hf; [|discriminate].
  inversion Hc; subst s1 o; clear Hc. cbn [core bufptr].
  pose proof (flush_admission _ _ _ _ _ _ Hinv Hf) as [_ [Ha Hx]].
  pose proof (flush_payloads _ _ _ _ _ _ Hf) as [Hp _].
  repeat split; assumption.
Qed.
