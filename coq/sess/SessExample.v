(* Concrete, non-trivial witnesses for the hypotheses of the session theorems (vm_compute). *)
From Coq Require Import ZArith List Bool Lia.
From KV.Base Require Import Consts Word WordLemmas.
From KV.Kcp Require Import Kcp Step Net InvBase InvApi InvAll NetAll NetExample.
From KV.Sess Require Import Sess SessNet SessProofs SessNetProofs.
Import ListNotations.
Local Open Scope Z_scope.

Ltac Zify.zify_post_hook ::= idtac.

(* conv 7, send window 3, receive window 8, nodelay(1,10,2,1) (no congestion window), mtu 30:
   mss = 6 *)
Definition exs_cfg (stream_ : Z) : kcp :=
  set_stream (fst (set_mtu (set_nodelay (set_wndsize (kcp_new 7) 3 8) 1 10 2 1) 30)) stream_.
Definition exs_k : kcp := exs_cfg 0.

Lemma exs_cfg_inv st : inv (exs_cfg st).
Proof.
  assert (H0 : inv (kcp_new 7)) by (apply inv_new; unfold W32; lia).
  assert (H1 : inv (set_wndsize (kcp_new 7) 3 8)) by (apply inv_wndsize; try reflexivity; try lia; exact H0).
  pose proof (nodelay_inv _ 1 10 2 1 H1) as H2.
  pose proof (setmtu_spec _ 30 H2) as H3.
  unfold exs_cfg.
  destruct (set_mtu (set_nodelay (set_wndsize (kcp_new 7) 3 8) 1 10 2 1) 30) as [k' r] eqn:E.
  assert (Hr : r = 0) by (apply (f_equal snd) in E; vm_compute in E; symmetry; exact E).
  destruct H3 as [(_ & _ & Hi)|(Hr' & _)]; [|lia]. cbn [fst].
  unfold set_stream. inv_frame_tac Hi.
Qed.

Definition exs_v : list bytes := [[1; 2; 3; 4; 5; 6; 7; 8; 9; 10; 11; 12; 13; 14]; []; [15]].

(* an admitted write: five Send calls of 6, 6, 2, 0, 1 bytes with codes 0, 0, 0, -1, 0; four
   segments pending afterwards, i.e. more than the send window of 3, hence the flush and three
   datagrams; a second write in that state blocks *)
Lemma exs_write :
  exists s1 o tr,
    write_full (mkSess exs_k []) exs_v true 100 = Ok (s1, WAdmitted 15, o, tr) /\
    map (fun p => (blen (fst p), snd p)) tr = [(6, 0); (6, 0); (2, 0); (0, -1); (1, 0)] /\
    waitsnd (core s1) = 4 /\ snd_wnd (core s1) = 3 /\ chunk_total (mss exs_k) exs_v = 4 /\
    length o = 3%nat /\
    write_full s1 [[9]] false 200 = Ok (s1, WBlock, [], []).
Proof.
  destruct (write_full (mkSess exs_k []) exs_v true 100) as [[[[s1 out] o] tr]|w] eqn:E; vm_compute in E;
    [|discriminate].
  inversion E; subst. eexists _, _, _. split; [reflexivity|]. repeat split.
Qed.

(* stream mode: the 1-byte chunk is appended to the 2-byte segment: 3 segments for 4 chunks *)
Lemma exs_write_stream :
  exists s1 o tr,
    write_full (mkSess (exs_cfg 1) []) exs_v true 100 = Ok (s1, WAdmitted 15, o, tr) /\
    waitsnd (core s1) = 3 /\ chunk_total (mss (exs_cfg 1)) exs_v = 4 /\
    map blen (snd_payloads (core s1)) = [6; 6; 3].
Proof.
  destruct (write_full (mkSess (exs_cfg 1) []) exs_v true 100) as [[[[s1 out] o] tr]|w] eqn:E; vm_compute in E;
    [|discriminate].
  inversion E; subst. eexists _, _, _. split; [reflexivity|]. repeat split.
Qed.

(* write delay on and the window not reached: no flush, no datagram *)
Lemma exs_write_delayed :
  exists s1 tr, write_full (mkSess exs_k []) [[1; 2; 3]] true 100 = Ok (s1, WAdmitted 3, [], tr) /\
    waitsnd (core s1) = 1 /\ qlen (snd_queue (core s1)) = 1.
Proof.
  destruct (write_full (mkSess exs_k []) [[1; 2; 3]] true 100) as [[[[s1 out] o] tr]|w] eqn:E; vm_compute in E;
    [|discriminate].
  inversion E; subst. eexists _, _. split; [reflexivity|]. repeat split.
Qed.

(* ---- a run of the two-session system ---- *)
Definition exs_s0 : ssys := mkSS (mkSys exs_k exs_k (mkSG 0 [] []) (mkRG 0 []) []) [] [] [] [] [].

Definition exs_nth (s : ssys) (i : nat) : bytes := nth i (wire (net s)) [].

Definition exs_events : list (ssys -> sev) :=
  [ (fun _ => SWrite exs_v true 100);                         (* 4 segments, 3 on the wire *)
    (fun s => SB (OInput (exs_nth s 1) true false 101));      (* second datagram first *)
    (fun _ => SRead 100);                                     (* nothing in order yet: blocks *)
    (fun s => SB (OInput (exs_nth s 0) true false 102));
    (fun s => SB (OInput (exs_nth s 0) true false 103));      (* duplicate *)
    (fun _ => SRead 4);                                       (* 4 of 6 bytes, 2 carried over *)
    (fun _ => SWrite [[16]] false 104);                       (* window full: blocks *)
    (fun _ => SRead 4);                                       (* the 2 carried-over bytes *)
    (fun _ => SRead 100);                                     (* second message, directly *)
    (fun s => SB (OInput (exs_nth s 2) true false 105));
    (fun _ => SRead 1); (fun _ => SRead 0); (fun _ => SRead 1) ].

Fixpoint exs_states (s : ssys) (fs : list (ssys -> sev)) : list sev :=
  match fs with
  | [] => []
  | f :: t => match ss_step s (f s) with Some s1 => f s :: exs_states s1 t | None => [] end
  end.

Definition exs_final : ssys :=
  fold_left (fun s f => match ss_step s (f s) with Some s1 => s1 | None => s end) exs_events exs_s0.

Lemma exs_init : ss_init exs_s0.
Proof.
  unfold ss_init, exs_s0. cbn [net bufA bufB wrA chA rdB]. split; [|repeat split].
  unfold sys_init. cbn [sA sB gA gB wire]. pose proof (exs_cfg_inv 0) as Hi. fold exs_k in Hi.
  split; [exact Hi|]. split; [exact Hi|]. split; [unfold is_u32, W32; cbn; lia|]. repeat split.
Qed.

Ltac exs_ok :=
  match goal with
  | |- sev_ok _ (SWrite _ _ _) =>
      split; [repeat constructor; vm_compute; intuition discriminate | unfold is_u32, W32; lia]
  | |- sev_ok _ (SRead _) => exact I
  | |- sev_ok _ (SB (OInput _ _ _ _)) =>
      split; [exact I|];
      split; [split; [cbn; apply bytes_dec_ok; vm_compute; reflexivity | cbn; unfold is_u32, W32; lia]
             | apply in_dec_ok; vm_compute; reflexivity]
  end.

Lemma exs_run :
  exists s0 evs s,
    ss_init s0 /\ ss_run s0 evs s /\ no_wrap (sg_numbered (gA (net s))) /\
    wrA s = [[1; 2; 3; 4; 5; 6; 7; 8; 9; 10; 11; 12; 13; 14; 15]] /\
    rdB s = [[1; 2; 3; 4]; [5; 6]; [7; 8; 9; 10; 11; 12]; [13]; []; [14]] /\
    bufB s = [] /\ map blen (chA s) = [6; 6; 2; 0; 1] /\
    rg_delivered (gB (net s)) = [[1; 2; 3; 4; 5; 6]; [7; 8; 9; 10; 11; 12]; [13; 14]].
Proof.
  exists exs_s0, (exs_states exs_s0 exs_events), exs_final.
  split; [exact exs_init|]. split.
  - let l := eval vm_compute in (exs_states exs_s0 exs_events) in
    change (exs_states exs_s0 exs_events) with l.
    let f := eval vm_compute in exs_final in change exs_final with f.
    do 13 (eapply ssr_cons; [exs_ok | vm_compute; reflexivity |]).
    apply ssr_nil.
  - split; [vm_compute; reflexivity|]. repeat split.
Qed.
