(* C01, session-level clauses - "the bytes a session has returned to its reader are exactly a
   prefix of the bytes its peer's writer had accepted, for every write size and read-buffer
   size".  Statements only.
   Models: Sess.v (the locked sections of UDPSession.WriteBuffers and UDPSession.Read over the
   ARQ model Kcp.v), SessNet.v (the reader system; the two-session system over Net.v's sys).
   No bound on the number, the sizes or the order of writes, reads and other events. *)
From Coq Require Import ZArith List Bool.
From KV.Base Require Import Consts Word.
From KV.Kcp Require Import Kcp Step Net NetAll.
From KV.Sess Require Import Sess SessNet SessProofs SessNetProofs SessExample.
Import ListNotations.
Local Open Scope Z_scope.

(* (a) An admitted WriteBuffers(v) - any vector, any buffer sizes, either mode - hands the
   core's Send exactly the chunks of v: their concatenation is concat v, none is longer than
   mss, the core accepts (code 0) every non-empty one and refuses (-1) the empty ones (one per
   empty buffer, contributing nothing), and the value reported to the writer is len(concat v).
   These Send calls are the operations OSend of Step.v, so Net.v's `accepted` ghost grows by
   exactly the non-empty chunks; the flush that may end the pass leaves the queued payloads
   untouched. *)
Theorem c01_session_write_chunks :
  forall s v write_delay now s1 n o tr,
    inv (core s) -> write_full s v write_delay now = Ok (s1, WAdmitted n, o, tr) ->
    map fst tr = write_chunks (mss (core s)) v /\
    concat (map fst tr) = concat v /\
    Forall (fun c => blen c <= mss (core s)) (map fst tr) /\
    Forall (fun p => snd p = if blen (fst p) =? 0 then -1 else 0) tr /\
    n = blen (concat v) /\
    exists k1 outs, run (core s) (map OSend (map fst tr)) = Some (k1, outs) /\
      map o_ret outs = map snd tr /\ snd_payloads (core s1) = snd_payloads k1.
Proof. exact write_chunks_thm. Qed.
Print Assumptions c01_session_write_chunks.

(* write_step is write_full without the list of Send calls *)
Theorem c01_session_write_step :
  forall s v write_delay now,
    write_step s v write_delay now =
    match write_full s v write_delay now with Panic w => Panic w | Ok (s1, out, o, _) => Ok (s1, out, o) end.
Proof. exact write_step_full. Qed.
Print Assumptions c01_session_write_step.

(* a pass of WriteBuffers never faults and keeps the core's invariant *)
Theorem c01_session_write_total :
  forall s v write_delay now, inv (core s) ->
    exists s1 out o tr, write_full s v write_delay now = Ok (s1, out, o, tr) /\ inv (core s1).
Proof. exact write_full_total. Qed.
Print Assumptions c01_session_write_total.

(* (b) The reader system: ANY list of events, each a pass of Read with ANY buffer length or
   ANY call on the core with any arguments (Input of any bytes, flush, update, ...).  What the
   reads returned, followed by the carry-over, is exactly the concatenation of what the core's
   Recv handed to those reads - nothing dropped, duplicated or reordered by recvbuf/bufptr. *)
Theorem c01_session_read_carry :
  forall evs s0 st, bufptr s0 = [] -> rd_run (mkRd s0 [] []) evs = Some st ->
    concat (rd_ret st) ++ bufptr (rd_s st) = concat (rd_del st).
Proof. exact read_carry_thm. Qed.
Print Assumptions c01_session_read_carry.

(* the Recv call a pass of Read makes: it is the operation ORecv of Step.v, it succeeds, and it
   writes exactly PeekSize() > 0 bytes - so `return size` (direct path) and the re-slicing of
   recvbuf to `size` (indirect path) describe exactly the bytes written *)
Theorem c01_session_read_sizes :
  forall s n s1 out m r d, read_full s n = (s1, out, Some (m, r, d)) ->
    step (core s) (ORecv m) = Ok (core s1, mkOut r d []) /\ r = peeksize (core s) /\ blen d = r /\ 0 < r /\
    ((r <= n /\ out = RData d /\ bufptr s1 = []) \/ (n < r /\ out = RData (take n d) /\ bufptr s1 = drop n d)).
Proof. exact read_recv_thm. Qed.
Print Assumptions c01_session_read_sizes.

(* a pass that blocks changes nothing; it blocks exactly when the carry-over is empty and
   PeekSize() <= 0 (no complete message - or a zero-length one, boundary B1) *)
Theorem c01_session_read_block :
  forall s n s1 rc, read_full s n = (s1, RBlock, rc) ->
    s1 = s /\ rc = None /\ bufptr s = [] /\ peeksize (core s) <= 0.
Proof. exact read_block_thm. Qed.
Print Assumptions c01_session_read_block.

(* (c) Composition with the raw-endpoint theorem.  Two-session system (SessNet.v): any list of
   events, each a pass of A.WriteBuffers (any vector, either write-delay setting, any 32-bit
   clock), a pass of B.Read (any buffer length), any other call on A's core (Input of anything
   whatsoever, the flushes of update(), A's own reads ...) or any other call on B's core (Input
   of any datagram A emitted earlier - any number of times, in any order, or never -, B's own
   writes, flushes ...).  In BOTH modes the bytes B's reads returned are a prefix of the bytes
   A's admitted writes reported as written.  no_wrap is the core theorem's one bound. *)
Theorem c01_session_prefix :
  forall s0 evs s, ss_init s0 -> ss_run s0 evs s -> no_wrap (sg_numbered (gA (net s))) ->
    is_prefix (concat (rdB s)) (concat (wrA s)).
Proof. exact session_prefix. Qed.
Print Assumptions c01_session_prefix.

(* the relations behind it, for every run (no no_wrap premise): the core accepted exactly the
   non-empty chunks; the chunks are the written bytes; the reader holds what the core delivered *)
Theorem c01_session_ghosts :
  forall s0 evs s, ss_init s0 -> ss_run s0 evs s ->
    sg_accepted (gA (net s)) = filter nonempty (chA s) /\
    concat (chA s) = concat (wrA s) /\
    concat (rdB s) ++ bufB s = concat (rg_delivered (gB (net s))) /\
    inv (sA (net s)) /\ inv (sB (net s)).
Proof. exact session_ghosts. Qed.
Print Assumptions c01_session_ghosts.

(* message mode: the core delivers the non-empty chunks themselves (a prefix of their list,
   boundaries kept); the session's reader sees their concatenation *)
Theorem c01_session_message_mode :
  forall s0 evs s, ss_init s0 -> ss_run s0 evs s -> stream (sA (net s0)) = 0 ->
    no_wrap (sg_numbered (gA (net s))) ->
    is_prefix (rg_delivered (gB (net s))) (filter nonempty (chA s)).
Proof. exact session_message_mode. Qed.
Print Assumptions c01_session_message_mode.

(* the system's steps are what write_step / read_step compute, and no admissible event faults *)
Theorem c01_session_write_coherent :
  forall s v wd now s1, ss_step s (SWrite v wd now) = Some s1 ->
    exists a1 out o, write_step (sessA s) v wd now = Ok (a1, out, o) /\
      sA (net s1) = core a1 /\ bufA s1 = bufptr a1 /\ sB (net s1) = sB (net s) /\ bufB s1 = bufB s /\
      wire (net s1) = wire (net s) ++ o.
Proof. exact ss_write_coherent. Qed.
Print Assumptions c01_session_write_coherent.

Theorem c01_session_read_coherent :
  forall s n s1, ss_step s (SRead n) = Some s1 ->
    sB (net s1) = core (fst (read_step (sessB s) n)) /\ bufB s1 = bufptr (fst (read_step (sessB s) n)) /\
    sA (net s1) = sA (net s) /\ bufA s1 = bufA s /\ wire (net s1) = wire (net s).
Proof. exact ss_read_coherent. Qed.
Print Assumptions c01_session_read_coherent.

Theorem c01_session_total :
  forall s e, inv (sA (net s)) -> inv (sB (net s)) -> sev_ok s e -> exists s1, ss_step s e = Some s1.
Proof. exact ss_step_total. Qed.
Print Assumptions c01_session_total.

(* ---- non-vacuity ---- *)
(* the state of the examples satisfies inv (send window 3, mss 6, either mode) *)
Example c01_session_example_inv : forall st, inv (exs_cfg st).
Proof. exact exs_cfg_inv. Qed.

(* (a): a vector of 14, 0 and 1 bytes at mss 6: Send called with 6, 6, 2, 0, 1 bytes, codes
   0, 0, 0, -1, 0 *)
Example c01_session_example_write :
  exists s1 o tr,
    write_full (mkSess exs_k []) exs_v true 100 = Ok (s1, WAdmitted 15, o, tr) /\
    map (fun p => (blen (fst p), snd p)) tr = [(6, 0); (6, 0); (2, 0); (0, -1); (1, 0)] /\
    waitsnd (core s1) = 4 /\ snd_wnd (core s1) = 3 /\ chunk_total (mss exs_k) exs_v = 4 /\
    length o = 3%nat /\
    write_full s1 [[9]] false 200 = Ok (s1, WBlock, [], []).
Proof. exact exs_write. Qed.

(* (b), (c): a run with reordering, a duplicate, a blocked read, a blocked write, reads of 4, 4,
   100, 1, 0, 1 bytes across message boundaries: the reader got bytes 1..14 of the 15 written *)
Example c01_session_example_run :
  exists s0 evs s,
    ss_init s0 /\ ss_run s0 evs s /\ no_wrap (sg_numbered (gA (net s))) /\
    wrA s = [[1; 2; 3; 4; 5; 6; 7; 8; 9; 10; 11; 12; 13; 14; 15]] /\
    rdB s = [[1; 2; 3; 4]; [5; 6]; [7; 8; 9; 10; 11; 12]; [13]; []; [14]] /\
    bufB s = [] /\ map blen (chA s) = [6; 6; 2; 0; 1] /\
    rg_delivered (gB (net s)) = [[1; 2; 3; 4; 5; 6]; [7; 8; 9; 10; 11; 12]; [13; 14]].
Proof. exact exs_run. Qed.
