(* Extraction of the session glue together with the ARQ model it calls.  ExtrOcamlBasic only;
   Z, positive, nat stay the extracted inductive types; no Extract Constant. *)
From Coq Require Import Extraction ExtrOcamlBasic ZArith.
From KV.Base Require Import Word.
From KV.Kcp Require Import Kcp.
From KV.Sess Require Import Sess.
Extraction "sess_model.ml" sess_new write_full write_step read_full read_step close_full
  kcp_new send recv peeksize input flush update set_mtu set_nodelay set_wndsize set_stream
  waitsnd set_seq set_queues u32.
