(* C04, session-level clause - "a session's Write is admitted only while fewer than a send
   window of segments are pending and otherwise blocks".  Statements only.  Model: Sess.v. *)
From Coq Require Import ZArith List Bool.
From KV.Base Require Import Consts Word.
From KV.Kcp Require Import Kcp Step.
From KV.Sess Require Import Sess SessNet SessProofs SessExample.
Import ListNotations.
Local Open Scope Z_scope.

(* One pass through the locked section of WriteBuffers, any state, any vector:
   - it admits only in a state with WaitSnd() < snd_wnd;
   - a pass that blocks returns the session EQUAL to what it was, calls Send not once and emits
     no datagram; and it blocks whenever WaitSnd() >= snd_wnd. *)
Theorem c04_write_admission :
  forall s v write_delay now s1 out o tr,
    write_full s v write_delay now = Ok (s1, out, o, tr) ->
    (forall n, out = WAdmitted n -> waitsnd (core s) < snd_wnd (core s)) /\
    (out = WBlock -> s1 = s /\ o = [] /\ tr = [] /\ waitsnd (core s) >= snd_wnd (core s)) /\
    (waitsnd (core s) >= snd_wnd (core s) -> out = WBlock).
Proof. exact write_admission_thm. Qed.
Print Assumptions c04_write_admission.

(* Occupancy after an admitted write.  chunk_total mss v = sum over the buffers of
   ceil(len/mss) - the chunks exactly as the code creates them, an empty buffer counting zero.
   Pending segments grow by at most that (stream mode merges into the last queued segment), by
   exactly that in message mode; hence WaitSnd' <= snd_wnd - 1 + chunk_total. *)
Theorem c04_session_occupancy :
  forall s v write_delay now s1 n o tr,
    inv (core s) -> write_full s v write_delay now = Ok (s1, WAdmitted n, o, tr) ->
    snd_wnd (core s1) = snd_wnd (core s) /\
    waitsnd (core s) <= waitsnd (core s1) <= waitsnd (core s) + chunk_total (mss (core s)) v /\
    waitsnd (core s1) <= snd_wnd (core s) - 1 + chunk_total (mss (core s)) v /\
    (stream (core s) = 0 -> waitsnd (core s1) = waitsnd (core s) + chunk_total (mss (core s)) v).
Proof. exact write_occupancy_thm. Qed.
Print Assumptions c04_session_occupancy.

(* An admitted write whose result reaches the send window (or any write without write delay)
   flushes in the same pass: the state and the datagrams of the pass are those of a FULL flush
   of the state the Send calls left (what that flush may put on the wire is the core's
   c04_admission). *)
Theorem c04_session_flush_when_full :
  forall s v write_delay now s1 n o tr,
    write_full s v write_delay now = Ok (s1, WAdmitted n, o, tr) ->
    (waitsnd (core s1) >= snd_wnd (core s1) \/ write_delay = false) ->
    exists k1 nx, send_vec (core s) v = Ok (k1, n, tr) /\ flush k1 FLUSH_FULL now = Ok (core s1, nx, o).
Proof. exact write_full_flushes_thm. Qed.
Print Assumptions c04_session_flush_when_full.

(* flush - the session's own update() included - never changes the number of pending segments
   nor their payloads: only acknowledgements (Input) open the window again *)
Theorem c04_session_flush_keeps_pending :
  forall k ft now k1 nx o, flush k ft now = Ok (k1, nx, o) ->
    snd_payloads k1 = snd_payloads k /\ snd_wnd k1 = snd_wnd k /\ mss k1 = mss k /\
    stream k1 = stream k /\ rcv_queue k1 = rcv_queue k.
Proof. exact flush_payloads. Qed.
Print Assumptions c04_session_flush_keeps_pending.

(* Close: "try best to send all queued messages" is one more full flush of the core, bound by the
   same admission rule as every other flush - in particular after a timeout loss (cwnd = 1, the
   oldest segment outstanding) it numbers nothing new; the pending payloads are untouched. *)
Theorem c04_session_close :
  forall s now s1 o,
    inv (core s) -> close_full s now = Ok (s1, o) ->
    let k := core s in
    let cw := if nocwnd k =? 0 then Z.min (cwnd k) (Z.min (snd_wnd k) (rmt_wnd k))
              else Z.min (snd_wnd k) (rmt_wnd k) in
    bufptr s1 = bufptr s /\
    (qlen (snd_buf (core s1)) > qlen (snd_buf k) -> qlen (snd_buf (core s1)) <= cw) /\
    Forall (fun sg => s_xmit sg = 1) (skipn (length (snd_buf k)) (snd_buf (core s1))) /\
    snd_payloads (core s1) = snd_payloads k.
Proof. exact close_admission_thm. Qed.
Print Assumptions c04_session_close.

(* ---- non-vacuity: send window 3, mss 6 ---- *)
(* admitted at WaitSnd = 0 < 3; 4 = 0 + chunk_total segments pending afterwards (> window:
   flushed, three datagrams); the next write blocks and returns the same session *)
Example c04_session_example_admit_then_block :
  exists s1 o tr,
    write_full (mkSess exs_k []) exs_v true 100 = Ok (s1, WAdmitted 15, o, tr) /\
    map (fun p => (blen (fst p), snd p)) tr = [(6, 0); (6, 0); (2, 0); (0, -1); (1, 0)] /\
    waitsnd (core s1) = 4 /\ snd_wnd (core s1) = 3 /\ chunk_total (mss exs_k) exs_v = 4 /\
    length o = 3%nat /\
    write_full s1 [[9]] false 200 = Ok (s1, WBlock, [], []).
Proof. exact exs_write. Qed.

(* stream mode: the bound is not attained (3 segments for 4 chunks) *)
Example c04_session_example_stream :
  exists s1 o tr,
    write_full (mkSess (exs_cfg 1) []) exs_v true 100 = Ok (s1, WAdmitted 15, o, tr) /\
    waitsnd (core s1) = 3 /\ chunk_total (mss (exs_cfg 1)) exs_v = 4 /\
    map blen (snd_payloads (core s1)) = [6; 6; 3].
Proof. exact exs_write_stream. Qed.

(* write delay on, window not reached: admitted without a flush *)
Example c04_session_example_delayed :
  exists s1 tr, write_full (mkSess exs_k []) [[1; 2; 3]] true 100 = Ok (s1, WAdmitted 3, [], tr) /\
    waitsnd (core s1) = 1 /\ qlen (snd_queue (core s1)) = 1.
Proof. exact exs_write_delayed. Qed.
