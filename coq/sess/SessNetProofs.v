(* The two-session system refines Net.v's two-endpoint system: every pass of WriteBuffers /
   Read is a (possibly empty) sequence of Net.v events, so the proved raw-endpoint theorems
   (NetAll.v) carry over to what the sessions' writers were told and their readers were given. *)
From Coq Require Import ZArith List Bool Lia.
From KV.Base Require Import Consts Word WordLemmas.
From KV.Kcp Require Import Kcp Step Net InvBase InvApi InvFlush InvAll NetAll.
From KV.Sess Require Import Sess SessNet SessProofs.
Import ListNotations.
Local Open Scope Z_scope.

Ltac Zify.zify_post_hook ::= idtac.

(* ------------------------------------------------------------------ *)
(* 1. sequences of Net.v events                                        *)
(* ------------------------------------------------------------------ *)
Lemma sys_steps_app a : forall s b,
  sys_steps s (a ++ b) = match sys_steps s a with Some s1 => sys_steps s1 b | None => None end.
Proof.
  induction a as [|e t IH]; intros s b; cbn [app sys_steps]; [reflexivity|].
  destruct (sys_step s e); [apply IH|reflexivity].
Qed.

Lemma sys_run_app a l1 b l2 c : sys_run a l1 b -> sys_run b l2 c -> sys_run a (l1 ++ l2) c.
Proof.
  induction 1 as [s|s e s1 t s2 Hok Hst Hrun IH]; intros H2; cbn [app]; [exact H2|].
  econstructor; eauto.
Qed.

Lemma run_app a : forall k b,
  run k (a ++ b) =
  match run k a with
  | Some (k1, o1) => match run k1 b with Some (k2, o2) => Some (k2, o1 ++ o2) | None => None end
  | None => None
  end.
Proof.
  induction a as [|o t IH]; intros k b; cbn [app run].
  - destruct (run k b) as [[k2 o2]|]; reflexivity.
  - destruct (step k o) as [[k1 x]|w]; [|reflexivity]. rewrite IH.
    destruct (run k1 t) as [[k2 o1]|]; [|reflexivity].
    destruct (run k2 b) as [[k3 o2]|]; reflexivity.
Qed.

Lemma sys_step_A s o s1 : sys_step s (EA o) = Some s1 ->
  exists x, step (sA s) o = Ok (sA s1, x) /\ sB s1 = sB s /\ gB s1 = gB s /\
    wire s1 = wire s ++ o_dgrams x /\
    sg_accepted (gA s1) =
      match o with
      | OSend b => if o_ret x =? 0 then sg_accepted (gA s) ++ [b] else sg_accepted (gA s)
      | _ => sg_accepted (gA s)
      end.
Proof.
  cbn [sys_step]. destruct (step (sA s) o) as [[k1 x]|w]; [|discriminate].
  intros H; inversion H; subst. cbn. exists x. repeat split.
Qed.

Lemma sys_step_B s o s1 : sys_step s (EB o) = Some s1 ->
  exists x, step (sB s) o = Ok (sB s1, x) /\ sA s1 = sA s /\ gA s1 = gA s /\ wire s1 = wire s /\
    gB s1 = ghost_receiver (gB s) o x.
Proof.
  cbn [sys_step]. destruct (step (sB s) o) as [[k1 x]|w]; [|discriminate].
  intros H; inversion H; subst. cbn. exists x. repeat split.
Qed.

(* a sequence of calls on A's core *)
Lemma steps_A_run ops : forall s s1, sys_steps s (map EA ops) = Some s1 ->
  exists outs, run (sA s) ops = Some (sA s1, outs) /\ wire s1 = wire s ++ out_dgrams outs /\
    sB s1 = sB s /\ gB s1 = gB s.
Proof.
  induction ops as [|o t IH]; intros s s1 H; cbn [map sys_steps] in H.
  - inversion H; subst. exists []. cbn. rewrite app_nil_r. repeat split.
  - destruct (sys_step s (EA o)) as [s2|] eqn:Hs; [|discriminate].
    destruct (sys_step_A _ _ _ Hs) as (x & Hst & HB & HgB & Hw & _).
    destruct (IH _ _ H) as (outs & Hr & Hw2 & HB2 & HgB2).
    exists (x :: outs). cbn [run]. rewrite Hst, Hr. split; [reflexivity|].
    unfold out_dgrams in *. cbn [map concat]. rewrite Hw2, Hw, <- app_assoc.
    split; [reflexivity|]. split; congruence.
Qed.

Lemma steps_A_exists ops : forall s k outs, run (sA s) ops = Some (k, outs) ->
  exists s1, sys_steps s (map EA ops) = Some s1.
Proof.
  induction ops as [|o t IH]; intros s k outs H; cbn [map sys_steps run] in *.
  - eexists. reflexivity.
  - cbn [sys_step]. destruct (step (sA s) o) as [[k1 x]|w] eqn:Hs; [|discriminate].
    destruct (run k1 t) as [[k2 xs]|] eqn:Hr; [|discriminate].
    eapply (IH (mkSys k1 (sB s) (ghost_sender (gA s) (sA s) o k1 x) (gB s) (wire s ++ o_dgrams x))).
    cbn [sA]. exact Hr.
Qed.

(* events whose admissibility does not depend on the state *)
Definition ev_static (e : ev) : Prop :=
  match e with
  | EA o => op_ok32 o
  | EB o => op_ok32 o /\ match o with OInput _ _ _ _ => False | _ => True end
  end.

Lemma ev_static_ok s e : ev_static e -> ev_ok s e.
Proof.
  destruct e as [o|o]; cbn [ev_static ev_ok]; [auto|]. intros (H1 & H2). split; [exact H1|].
  destruct o; auto. contradiction.
Qed.

Lemma sys_steps_run l : forall s s1, Forall ev_static l -> sys_steps s l = Some s1 -> sys_run s l s1.
Proof.
  induction l as [|e t IH]; intros s s1 Hok H; cbn [sys_steps] in H.
  - inversion H; subst. constructor.
  - inversion Hok as [|x y He Ht]; subst x y.
    destruct (sys_step s e) as [s2|] eqn:Hs; [|discriminate].
    econstructor; [apply ev_static_ok; exact He|exact Hs|]. apply IH; assumption.
Qed.

Lemma sends_static cs : Forall is_byte_list cs -> Forall ev_static (map EA (map OSend cs)).
Proof.
  induction 1 as [|c t Hc _ IH]; [constructor|]. cbn [map]. constructor; [|exact IH].
  cbn [ev_static]. split; [exact Hc|exact I].
Qed.

(* ------------------------------------------------------------------ *)
(* 2. the Send calls of a write and the core's `accepted` ghost         *)
(* ------------------------------------------------------------------ *)
Lemma sends_accepted cs : forall s s1,
  inv (sA s) -> Forall (fun c => blen c <= mss (sA s)) cs ->
  sys_steps s (map EA (map OSend cs)) = Some s1 ->
  sg_accepted (gA s1) = sg_accepted (gA s) ++ filter nonempty cs.
Proof.
  induction cs as [|c t IH]; intros s s1 Hinv Hle H; cbn [map sys_steps] in H.
  - inversion H; subst. cbn. rewrite app_nil_r. reflexivity.
  - inversion Hle as [|x y Hc Ht]; subst x y.
    destruct (sys_step s (EA (OSend c))) as [s2|] eqn:Hs; [|discriminate].
    destruct (sys_step_A _ _ _ Hs) as (x & Hst & _ & _ & _ & Hacc).
    cbn [step] in Hst. destruct (send (sA s) c) as [[k1 r]|w] eqn:Hsend; [|discriminate].
    inversion Hst; subst k1 x. cbn [o_ret] in Hacc.
    destruct (send_total (sA s) c Hinv) as (k1' & r' & Hs' & Hinv2). rewrite Hsend in Hs'. inversion Hs'; subst k1' r'.
    pose proof (send_frame_of _ _ _ _ Hsend) as (Hm & _).
    rewrite (IH s2 s1 Hinv2 ltac:(rewrite Hm; exact Ht) H), Hacc.
    cbn [filter]. unfold nonempty at 2. pose proof (blen_nonneg c) as Hc0.
    destruct (Z.eqb_spec (blen c) 0) as [E|E]; cbn [negb].
    + rewrite (send_empty _ _ E) in Hsend. inversion Hsend; subst. reflexivity.
    + destruct (send_small _ _ _ _ Hsend ltac:(lia)) as (Hr & _). subst r. cbn. rewrite <- app_assoc. reflexivity.
Qed.

Lemma concat_filter_nonempty l : concat (filter nonempty l) = concat l.
Proof.
  induction l as [|c t IH]; [reflexivity|]. cbn [filter concat]. unfold nonempty at 1.
  destruct (Z.eqb_spec (blen c) 0) as [E|E]; cbn [negb].
  - rewrite (blen_0_nil _ E). exact IH.
  - cbn [concat]. rewrite IH. reflexivity.
Qed.

Lemma out_dgrams_sends (tr : list (bytes * Z)) : out_dgrams (map (fun p => mkOut (snd p) [] []) tr) = [].
Proof. unfold out_dgrams. induction tr as [|p t IH]; [reflexivity|]. cbn. exact IH. Qed.

(* the calls of an admitted pass *)
Lemma write_calls_admitted s v wd now k1 tr :
  waitsnd (core s) < snd_wnd (core s) ->
  send_list (core s) (write_chunks (mss (core s)) v) = Ok (k1, tr) ->
  write_calls s v wd now =
  map OSend (map fst tr) ++ (if write_flushes k1 wd then [OFlush true now] else []).
Proof.
  intros Hlt Hl. unfold write_calls.
  destruct (Z.ltb_spec (waitsnd (core s)) (snd_wnd (core s))); [|lia].
  rewrite send_vec_spec, Hl, map_map. reflexivity.
Qed.

Lemma write_calls_blocked s v wd now :
  waitsnd (core s) >= snd_wnd (core s) -> write_calls s v wd now = [].
Proof.
  intros Hge. unfold write_calls. destruct (Z.ltb_spec (waitsnd (core s)) (snd_wnd (core s))); [lia|reflexivity].
Qed.

(* a pass of WriteBuffers IS the run of its calls on the core *)
Lemma write_full_run s v wd now s1 out o tr :
  write_full s v wd now = Ok (s1, out, o, tr) ->
  exists outs, run (core s) (write_calls s v wd now) = Some (core s1, outs) /\ out_dgrams outs = o.
Proof.
  intros H. destruct (write_full_inv _ _ _ _ _ _ _ _ H) as [(Hge & Hs & _ & Ho & _)|(Hlt & _ & _ & k1 & Hl & Hfl)].
  - subst. rewrite write_calls_blocked by exact Hge. exists []. split; reflexivity.
  - rewrite (write_calls_admitted _ _ _ _ _ _ Hlt Hl), run_app.
    destruct (send_list_frame _ _ _ _ Hl) as (_ & Hm). rewrite Hm, (send_list_run _ _ _ _ Hl).
    destruct Hfl as [(Hf & nx & Hflush)|(Hf & Hc & Ho)]; rewrite Hf.
    + cbn [run step]. rewrite Hflush. eexists. split; [reflexivity|].
      unfold out_dgrams. rewrite map_app, concat_app. fold (out_dgrams (map (fun p => mkOut (snd p) [] []) tr)).
      rewrite out_dgrams_sends. cbn. apply app_nil_r.
    + cbn [run]. subst. eexists. split; [rewrite app_nil_r; reflexivity|]. apply out_dgrams_sends.
Qed.

Lemma read_full_run s n s1 out rc :
  read_full s n = (s1, out, rc) ->
  exists outs, run (core s) (read_calls s n) = Some (core s1, outs).
Proof.
  intros H. unfold read_calls. rewrite H. cbn [snd].
  pose proof (read_full_thm _ _ _ _ _ H) as (_ & _ & Hrc).
  destruct rc as [[[m r] d]|].
  - destruct Hrc as (Hr & _). cbn [run step]. rewrite Hr. eexists. reflexivity.
  - cbn [run]. rewrite Hrc. eexists. reflexivity.
Qed.

(* ------------------------------------------------------------------ *)
(* 3. one session event = a run of Net.v events; the ghost relations    *)
(* ------------------------------------------------------------------ *)
Record ss_inv (s : ssys) : Prop := mkSV {
  (* the core accepted exactly the non-empty chunks, in call order *)
  SV_acc : sg_accepted (gA (net s)) = filter nonempty (chA s);
  (* the chunks are the written bytes *)
  SV_ch : concat (chA s) = concat (wrA s);
  (* the reader got, in order, what the core delivered, minus the carry-over *)
  SV_del : concat (rdB s) ++ bufB s = concat (rg_delivered (gB (net s)))
}.

Lemma sess_concat_snoc (l : list bytes) (x : bytes) : concat (l ++ [x]) = concat l ++ x.
Proof. rewrite concat_app. cbn. rewrite app_nil_r. reflexivity. Qed.

Lemma ss_step_sim s e s1 :
  inv (sA (net s)) -> sev_ok s e -> ss_step s e = Some s1 -> ss_inv s ->
  (exists l, sys_run (net s) l (net s1)) /\ ss_inv s1.
Proof.
  intros HinvA Hok Hst [Hacc Hch Hdel]. destruct e as [v wd now|n|o|o]; cbn [ss_step sev_ok] in *.
  - (* WriteBuffers *)
    destruct Hok as (Hbytes & Hnow).
    destruct (write_full (sessA s) v wd now) as [[[[a1 out] o] tr]|w] eqn:Hw; [|discriminate].
    destruct (sys_steps (net s) (map EA (write_calls (sessA s) v wd now))) as [n1|] eqn:Hsteps; [|discriminate].
    inversion Hst; subst s1; clear Hst. cbn [net bufA bufB wrA chA rdB].
    destruct (write_full_inv _ _ _ _ _ _ _ _ Hw) as [(Hge & Hs & Hout & Ho & Htr)|(Hlt & Hout & _ & k1 & Hl & Hfl)].
    + subst. rewrite write_calls_blocked in Hsteps by exact Hge. cbn in Hsteps. inversion Hsteps; subst n1.
      split; [exists []; constructor|]. cbn [map]. rewrite app_nil_r. constructor; assumption.
    + subst out. cbn [sessA core] in *.
      pose proof (write_calls_admitted (sessA s) v wd now k1 tr Hlt Hl) as Hcalls. cbn [sessA core] in Hcalls.
      destruct (send_list_frame _ _ _ _ Hl) as (_ & Hm).
      assert (Hstatic : Forall ev_static (map EA (write_calls (sessA s) v wd now))).
      { rewrite Hcalls, map_app. apply Forall_app. split.
        - rewrite Hm. apply sends_static. apply write_chunks_bytes. exact Hbytes.
        - destruct (write_flushes k1 wd); [|constructor]. constructor; [|constructor].
          cbn [ev_static]. split; [exact I|exact Hnow]. }
      split; [exists (map EA (write_calls (sessA s) v wd now)); apply sys_steps_run; assumption|].
      rewrite Hcalls, map_app, sys_steps_app in Hsteps.
      destruct (sys_steps (net s) (map EA (map OSend (map fst tr)))) as [n2|] eqn:Hsends; [|discriminate].
      assert (Hacc2 : sg_accepted (gA n2) = sg_accepted (gA (net s)) ++ filter nonempty (map fst tr)).
      { apply sends_accepted; [exact HinvA| |exact Hsends].
        rewrite Hm. apply write_chunks_le. apply inv_mss_ge1. exact HinvA. }
      destruct (steps_A_run _ _ _ Hsends) as (_ & _ & _ & _ & HgB2).
      assert (Hfin : sg_accepted (gA n1) = sg_accepted (gA n2) /\ gB n1 = gB n2).
      { destruct (write_flushes k1 wd); cbn [map sys_steps] in Hsteps.
        - destruct (sys_step n2 (EA (OFlush true now))) as [n3|] eqn:Hf; [|discriminate]. inversion Hsteps; subst n3.
          destruct (sys_step_A _ _ _ Hf) as (x & _ & _ & HgB & _ & Ha). split; assumption.
        - inversion Hsteps; subst. split; reflexivity. }
      destruct Hfin as (Ha1 & Hg1).
      constructor; cbn [net bufA bufB wrA chA rdB].
      * rewrite Ha1, Hacc2, Hacc, filter_app. reflexivity.
      * rewrite !concat_app, Hch, Hm, write_chunks_concat. cbn [concat]. rewrite app_nil_r. reflexivity.
      * rewrite Hg1, HgB2. exact Hdel.
  - (* Read *)
    destruct (read_full (sessB s) n) as [[b1 out] rc] eqn:Hr.
    destruct (sys_steps (net s) (map EB (read_calls (sessB s) n))) as [n1|] eqn:Hsteps; [|discriminate].
    inversion Hst; subst s1; clear Hst. cbn [net bufA bufB wrA chA rdB].
    pose proof (read_full_thm _ _ _ _ _ Hr) as (Heq & _ & Hrc). cbn [sessB bufptr core] in Heq, Hrc.
    unfold read_calls in Hsteps. rewrite Hr in Hsteps. cbn [snd] in Hsteps.
    assert (Hret : forall X, concat (match out with RData d => rdB s ++ [d] | RBlock => rdB s end) ++ X
                   = concat (rdB s) ++ out_data out ++ X).
    { intros X. destruct out; cbn [out_data]; [rewrite sess_concat_snoc, <- app_assoc; reflexivity|reflexivity]. }
    destruct rc as [[[m r] d]|].
    + destruct Hrc as (Hrecv & _ & _ & _ & Hpos & _). cbn [map sys_steps] in Hsteps.
      destruct (sys_step (net s) (EB (ORecv m))) as [n2|] eqn:Hs; [|discriminate]. inversion Hsteps; subst n2.
      destruct (sys_step_B _ _ _ Hs) as (x & Hstep & _ & HgA & _ & HgB).
      cbn [step] in Hstep. rewrite Hrecv in Hstep. inversion Hstep; subst x. clear Hstep.
      cbn [ghost_receiver o_ret o_data] in HgB. destruct (Z.geb_spec r 0); [|lia].
      split.
      { exists [EB (ORecv m)]. apply sys_steps_run; [|cbn [sys_steps]; rewrite Hs; reflexivity].
        constructor; [|constructor]. cbn [ev_static]. repeat split. }
      constructor; cbn [net bufA bufB wrA chA rdB].
      * rewrite HgA. exact Hacc.
      * exact Hch.
      * etransitivity; [apply Hret|]. rewrite HgB. cbn [rg_delivered]. rewrite sess_concat_snoc, Heq.
        cbn [rc_data]. destruct (Z.geb_spec r 0); [|lia]. rewrite app_assoc, Hdel. reflexivity.
    + cbn in Hsteps. inversion Hsteps; subst n1. split; [exists []; constructor|].
      constructor; cbn [net bufA bufB wrA chA rdB]; [exact Hacc|exact Hch|].
      etransitivity; [apply Hret|]. rewrite Heq. cbn [rc_data]. rewrite app_nil_r. exact Hdel.
  - (* any other call on A's core *)
    destruct Hok as (Hns & Hev).
    destruct (sys_step (net s) (EA o)) as [n1|] eqn:Hs; [|discriminate]. inversion Hst; subst s1; clear Hst.
    cbn [net bufA bufB wrA chA rdB].
    split; [exists [EA o]; econstructor; [exact Hev|exact Hs|constructor]|].
    destruct (sys_step_A _ _ _ Hs) as (x & _ & _ & HgB & _ & Ha).
    constructor; cbn [net bufA bufB wrA chA rdB]; [|exact Hch|rewrite HgB; exact Hdel].
    rewrite Ha. destruct o; try exact Hacc. destruct Hns.
  - (* any other call on B's core *)
    destruct Hok as (Hnr & Hev).
    destruct (sys_step (net s) (EB o)) as [n1|] eqn:Hs; [|discriminate]. inversion Hst; subst s1; clear Hst.
    cbn [net bufA bufB wrA chA rdB].
    split; [exists [EB o]; econstructor; [exact Hev|exact Hs|constructor]|].
    destruct (sys_step_B _ _ _ Hs) as (x & _ & _ & HgA & _ & HgB).
    constructor; cbn [net bufA bufB wrA chA rdB]; [rewrite HgA; exact Hacc|exact Hch|].
    rewrite HgB. destruct o; try exact Hdel. destruct Hnr.
Qed.

Lemma ss_run_sim_from n0 l0 s evs s2 :
  sys_init n0 -> sys_run n0 l0 (net s) -> ss_inv s -> ss_run s evs s2 ->
  (exists l, sys_run n0 l (net s2)) /\ ss_inv s2.
Proof.
  intros Hinit Hrun0 Hinv Hrun. revert l0 Hrun0 Hinv.
  induction Hrun as [s|s e s1 t s2 Hok Hst Hrun IH]; intros l0 Hrun0 Hinv.
  - split; [exists l0; exact Hrun0|exact Hinv].
  - destruct (net_run_inv _ _ _ Hinit Hrun0) as (HA & _).
    destruct (ss_step_sim _ _ _ HA Hok Hst Hinv) as ((l1 & Hl1) & Hinv1).
    apply (IH (l0 ++ l1)); [eapply sys_run_app; eassumption|exact Hinv1].
Qed.

Theorem ss_run_sim s0 evs s :
  ss_init s0 -> ss_run s0 evs s -> (exists l, sys_run (net s0) l (net s)) /\ ss_inv s.
Proof.
  intros (Hinit & HbA & HbB & Hw & Hc & Hr) Hrun.
  apply (ss_run_sim_from (net s0) [] s0 evs s Hinit (run_nil _)); [|exact Hrun].
  destruct Hinit as (_ & _ & _ & _ & _ & _ & _ & _ & _ & HgA & HgB & _).
  constructor; rewrite ?HgA, ?HgB, ?HbB, ?Hw, ?Hc, ?Hr; reflexivity.
Qed.

(* ------------------------------------------------------------------ *)
(* 4. the session-level theorems                                        *)
(* ------------------------------------------------------------------ *)
Lemma is_prefix_concat {T} (a b : list (list T)) : is_prefix a b -> is_prefix (concat a) (concat b).
Proof. intros (c & Hc). subst b. exists (concat c). apply concat_app. Qed.

(* C01 (c): both modes *)
Theorem session_prefix s0 evs s :
  ss_init s0 -> ss_run s0 evs s -> no_wrap (sg_numbered (gA (net s))) ->
  is_prefix (concat (rdB s)) (concat (wrA s)).
Proof.
  intros Hinit Hrun Hnw. destruct (ss_run_sim _ _ _ Hinit Hrun) as ((l & Hl) & [Hacc Hch Hdel]).
  destruct Hinit as (Hinit & _).
  assert (Hcore : is_prefix (concat (rg_delivered (gB (net s)))) (concat (sg_accepted (gA (net s))))).
  { destruct (Z.eq_dec (stream (sA (net s0))) 0) as [E|E].
    - apply is_prefix_concat. eapply net_message_prefix; eassumption.
    - eapply net_stream_prefix; eassumption. }
  rewrite Hacc, concat_filter_nonempty, Hch, <- Hdel in Hcore.
  eapply is_prefix_trans; [apply is_prefix_app|exact Hcore].
Qed.

(* the ghost relations themselves, for every run *)
Theorem session_ghosts s0 evs s :
  ss_init s0 -> ss_run s0 evs s ->
  sg_accepted (gA (net s)) = filter nonempty (chA s) /\
  concat (chA s) = concat (wrA s) /\
  concat (rdB s) ++ bufB s = concat (rg_delivered (gB (net s))) /\
  inv (sA (net s)) /\ inv (sB (net s)).
Proof.
  intros Hinit Hrun. destruct (ss_run_sim _ _ _ Hinit Hrun) as ((l & Hl) & [Hacc Hch Hdel]).
  destruct Hinit as (Hinit & _). destruct (net_run_inv _ _ _ Hinit Hl) as (HA & HB).
  split; [exact Hacc|]. split; [exact Hch|]. split; [exact Hdel|]. split; assumption.
Qed.

(* message mode: the core delivers the non-empty chunks themselves, boundaries kept; the session
   hands their concatenation to the reader (session_prefix) *)
Theorem session_message_mode s0 evs s :
  ss_init s0 -> ss_run s0 evs s -> stream (sA (net s0)) = 0 -> no_wrap (sg_numbered (gA (net s))) ->
  is_prefix (rg_delivered (gB (net s))) (filter nonempty (chA s)).
Proof.
  intros Hinit Hrun Hs Hnw. destruct (ss_run_sim _ _ _ Hinit Hrun) as ((l & Hl) & [Hacc Hch Hdel]).
  destruct Hinit as (Hinit & _). rewrite <- Hacc. eapply net_message_prefix; eassumption.
Qed.

(* the net component of a session step is what write_step / read_step say *)
Theorem ss_write_coherent s v wd now s1 :
  ss_step s (SWrite v wd now) = Some s1 ->
  exists a1 out o, write_step (sessA s) v wd now = Ok (a1, out, o) /\
    sA (net s1) = core a1 /\ bufA s1 = bufptr a1 /\ sB (net s1) = sB (net s) /\ bufB s1 = bufB s /\
    wire (net s1) = wire (net s) ++ o.
Proof.
  cbn [ss_step]. rewrite write_step_full.
  destruct (write_full (sessA s) v wd now) as [[[[a1 out] o] tr]|w] eqn:Hw; [|discriminate].
  destruct (sys_steps (net s) (map EA (write_calls (sessA s) v wd now))) as [n1|] eqn:Hsteps; [|discriminate].
  intros H; inversion H; subst s1; clear H. cbn [net bufA bufB].
  destruct (steps_A_run _ _ _ Hsteps) as (outs & Hr & Hwire & HB & _).
  destruct (write_full_run _ _ _ _ _ _ _ _ Hw) as (outs' & Hr' & Ho).
  cbn [sessA core] in Hr'. rewrite Hr in Hr'. inversion Hr'; subst outs'.
  exists a1, out, o. split; [reflexivity|]. rewrite Hwire, Ho. repeat split; congruence.
Qed.

Theorem ss_read_coherent s n s1 :
  ss_step s (SRead n) = Some s1 ->
  sB (net s1) = core (fst (read_step (sessB s) n)) /\ bufB s1 = bufptr (fst (read_step (sessB s) n)) /\
  sA (net s1) = sA (net s) /\ bufA s1 = bufA s /\ wire (net s1) = wire (net s).
Proof.
  cbn [ss_step]. rewrite read_step_full. destruct (read_full (sessB s) n) as [[b1 out] rc] eqn:Hr. cbn [fst snd].
  destruct (sys_steps (net s) (map EB (read_calls (sessB s) n))) as [n1|] eqn:Hsteps; [|discriminate].
  intros H; inversion H; subst s1; clear H. cbn [net bufA bufB].
  pose proof (read_full_thm _ _ _ _ _ Hr) as (_ & _ & Hrc).
  unfold read_calls in Hsteps. rewrite Hr in Hsteps. cbn [snd] in Hsteps.
  destruct rc as [[[m r] d]|].
  - destruct Hrc as (Hrecv & _). cbn [map sys_steps] in Hsteps.
    destruct (sys_step (net s) (EB (ORecv m))) as [n2|] eqn:Hs; [|discriminate]. inversion Hsteps; subst n2.
    destruct (sys_step_B _ _ _ Hs) as (x & Hstep & HA & _ & Hw & _).
    cbn [step sessB core] in Hstep, Hrecv. rewrite Hrecv in Hstep. inversion Hstep. repeat split; congruence.
  - cbn in Hsteps. inversion Hsteps; subst n1. cbn [sessB core] in Hrc. repeat split; congruence.
Qed.

(* no admissible session event can fault *)
Theorem ss_step_total s e :
  inv (sA (net s)) -> inv (sB (net s)) -> sev_ok s e -> exists s1, ss_step s e = Some s1.
Proof.
  intros HA HB Hok. destruct e as [v wd now|n|o|o]; cbn [ss_step sev_ok] in *.
  - destruct (write_full_total (sessA s) v wd now HA) as (a1 & out & o & tr & Hw & _). rewrite Hw.
    destruct (write_full_run _ _ _ _ _ _ _ _ Hw) as (outs & Hr & _).
    destruct (steps_A_exists _ (net s) _ _ Hr) as (n1 & Hn). rewrite Hn. eexists. reflexivity.
  - destruct (read_full (sessB s) n) as [[b1 out] rc] eqn:Hr.
    destruct (read_full_run _ _ _ _ _ Hr) as (outs & Hrun).
    assert (Hex : exists n1, sys_steps (net s) (map EB (read_calls (sessB s) n)) = Some n1).
    { destruct (read_calls (sessB s) n) as [|o1 [|o2 t]] eqn:Hc.
      - eexists. reflexivity.
      - cbn [run] in Hrun. cbn [map sys_steps sys_step sessB core] in *.
        destruct (step (sB (net s)) o1) as [[k1 x]|w]; [|discriminate]. eexists. reflexivity.
      - unfold read_calls in Hc. destruct (snd (read_full (sessB s) n)) as [[[m r] d]|]; discriminate. }
    destruct Hex as (n1 & Hn). rewrite Hn. eexists. reflexivity.
  - destruct Hok as (_ & Hev). cbn [ev_ok] in Hev. cbn [sys_step].
    destruct (step_ok (sA (net s)) o HA (op_ok32_ok _ Hev)) as (k1 & x & Hs & _). rewrite Hs. eexists. reflexivity.
  - destruct Hok as (_ & Hev & _). cbn [sys_step].
    destruct (step_ok (sB (net s)) o HB (op_ok32_ok _ Hev)) as (k1 & x & Hs & _). rewrite Hs. eexists. reflexivity.
Qed.

