(* Definitions for the session-level theorems (no proofs):
   - the specification of WriteBuffers' splitting (chunks of at most mss bytes),
   - the reader system of c01_session_read_carry (any sequence of Read passes with any buffer
     sizes, interleaved with arbitrary calls on the core),
   - the two-session system of c01_session_prefix: Net.v's two-endpoint system `sys` in which
     A's Send calls are exactly those made by write_full and B's Recv calls exactly those made
     by read_full; every other call on either core (Input of whatever the network delivers,
     the flushes of update(), configuration, the reverse direction's traffic) is arbitrary. *)
From Coq Require Import ZArith List Bool.
From KV.Base Require Import Consts Word.
From KV.Kcp Require Import Kcp Step Net.
From KV.Sess Require Import Sess.
Import ListNotations.
Local Open Scope Z_scope.

(* ---- the splitting, as a function of the buffer alone ---- *)
Fixpoint chunk_buf (fuel : nat) (m : Z) (b : bytes) : list bytes :=
  match fuel with
  | O => [b]
  | S f => if blen b <=? m then [b] else take m b :: chunk_buf f m (drop m b)
  end.
Definition chunks (m : Z) (b : bytes) : list bytes := chunk_buf (length b) m b.
Definition write_chunks (m : Z) (v : list bytes) : list bytes := flat_map (chunks m) v.

Definition nonempty (c : bytes) : bool := negb (blen c =? 0).
(* ceil(len/m); 0 for the empty buffer *)
Definition cdiv (n m : Z) : Z := (n + m - 1) / m.
Fixpoint chunk_total (m : Z) (v : list bytes) : Z :=
  match v with [] => 0 | b :: t => cdiv (blen b) m + chunk_total m t end.

(* Send called on each element of a list, return codes recorded *)
Fixpoint send_list (k : kcp) (cs : list bytes) : res (kcp * list (bytes * Z)) :=
  match cs with
  | [] => Ok (k, [])
  | c :: t =>
      match send k c with
      | Panic w => Panic w
      | Ok (k1, r) =>
          match send_list k1 t with
          | Panic w => Panic w
          | Ok (k2, tr) => Ok (k2, (c, r) :: tr)
          end
      end
  end.

(* the payload list of the send side; flush moves segments from snd_queue to snd_buf and
   never changes this list *)
Definition snd_payloads (k : kcp) : list bytes := map s_data (snd_buf k ++ snd_queue k).

(* ---- the calls one pass makes on the core, as operations of Step.v ---- *)
Definition write_calls (s : sess) (v : list bytes) (write_delay : bool) (now : Z) : list op :=
  if waitsnd (core s) <? snd_wnd (core s) then
    match send_vec (core s) v with
    | Ok (k1, _, tr) =>
        map (fun p => OSend (fst p)) tr ++ (if write_flushes k1 write_delay then [OFlush true now] else [])
    | Panic _ => []
    end
  else [].

Definition read_calls (s : sess) (n : Z) : list op :=
  match snd (read_full s n) with
  | Some (m, _, _) => [ORecv m]
  | None => []
  end.

Definition out_dgrams (xs : list out) : list bytes := concat (map o_dgrams xs).

(* ---- the reader system ---- *)
Inductive rd_ev := RvRead (n : Z) | RvCore (o : op).

(* rd_ret: what Read returned; rd_del: the non-negative results of the Recv calls made by Read *)
Record rd_state := mkRd { rd_s : sess; rd_ret : list bytes; rd_del : list bytes }.

Definition rd_step (st : rd_state) (e : rd_ev) : option rd_state :=
  match e with
  | RvRead n =>
      let '(s1, out, rc) := read_full (rd_s st) n in
      Some (mkRd s1
              (match out with RData d => rd_ret st ++ [d] | RBlock => rd_ret st end)
              (match rc with
               | Some (_, r, d) => if r >=? 0 then rd_del st ++ [d] else rd_del st
               | None => rd_del st
               end))
  | RvCore o =>
      match step (core (rd_s st)) o with
      | Ok (k1, _) => Some (mkRd (mkSess k1 (bufptr (rd_s st))) (rd_ret st) (rd_del st))
      | Panic _ => None
      end
  end.

Fixpoint rd_run (st : rd_state) (evs : list rd_ev) : option rd_state :=
  match evs with
  | [] => Some st
  | e :: t => match rd_step st e with Some st1 => rd_run st1 t | None => None end
  end.

(* ---- the two-session system ---- *)
Fixpoint sys_steps (s : sys) (l : list ev) : option sys :=
  match l with
  | [] => Some s
  | e :: t => match sys_step s e with Some s1 => sys_steps s1 t | None => None end
  end.

(* net: Net.v's system (cores, ghosts, wire); bufA/bufB: the sessions' carry-over;
   wrA: the bytes of every admitted write of A (concat of its vector), chA: the payload of
   every Send call those writes made; rdB: what every successful Read of B returned *)
Record ssys := mkSS {
  net : sys; bufA : bytes; bufB : bytes;
  wrA : list bytes; chA : list bytes; rdB : list bytes }.

Inductive sev :=
| SWrite (v : list bytes) (write_delay : bool) (now : Z)   (* one pass of A.WriteBuffers *)
| SRead (n : Z)                                            (* one pass of B.Read, len(b) = n *)
| SA (o : op)                                              (* any other call on A's core *)
| SB (o : op).                                             (* any other call on B's core *)

Definition not_send (o : op) : Prop := match o with OSend _ => False | _ => True end.
Definition not_recv (o : op) : Prop := match o with ORecv _ => False | _ => True end.

(* admissible events: byte strings are bytes, clocks are 32-bit values; B's Input is fed only
   datagrams A emitted earlier (Net.v's ev_ok); A's Input is fed anything *)
Definition sev_ok (s : ssys) (e : sev) : Prop :=
  match e with
  | SWrite v _ now => Forall is_byte_list v /\ is_u32 now
  | SRead _ => True
  | SA o => not_send o /\ ev_ok (net s) (EA o)
  | SB o => not_recv o /\ ev_ok (net s) (EB o)
  end.

Definition sessA (s : ssys) : sess := mkSess (sA (net s)) (bufA s).
Definition sessB (s : ssys) : sess := mkSess (sB (net s)) (bufB s).

Definition ss_step (s : ssys) (e : sev) : option ssys :=
  match e with
  | SWrite v wd now =>
      match write_full (sessA s) v wd now with
      | Panic _ => None
      | Ok (a1, out, _, tr) =>
          match sys_steps (net s) (map EA (write_calls (sessA s) v wd now)) with
          | None => None
          | Some n1 =>
              Some (mkSS n1 (bufptr a1) (bufB s)
                      (match out with WAdmitted _ => wrA s ++ [concat v] | WBlock => wrA s end)
                      (chA s ++ map fst tr) (rdB s))
          end
      end
  | SRead n =>
      let '(b1, out, _) := read_full (sessB s) n in
      match sys_steps (net s) (map EB (read_calls (sessB s) n)) with
      | None => None
      | Some n1 =>
          Some (mkSS n1 (bufA s) (bufptr b1) (wrA s) (chA s)
                  (match out with RData d => rdB s ++ [d] | RBlock => rdB s end))
      end
  | SA o =>
      match sys_step (net s) (EA o) with
      | Some n1 => Some (mkSS n1 (bufA s) (bufB s) (wrA s) (chA s) (rdB s))
      | None => None
      end
  | SB o =>
      match sys_step (net s) (EB o) with
      | Some n1 => Some (mkSS n1 (bufA s) (bufB s) (wrA s) (chA s) (rdB s))
      | None => None
      end
  end.

Inductive ss_run : ssys -> list sev -> ssys -> Prop :=
| ssr_nil : forall s, ss_run s [] s
| ssr_cons : forall s e s1 t s2,
    sev_ok s e -> ss_step s e = Some s1 -> ss_run s1 t s2 -> ss_run s (e :: t) s2.

Definition ss_init (s : ssys) : Prop :=
  sys_init (net s) /\ bufA s = [] /\ bufB s = [] /\ wrA s = [] /\ chA s = [] /\ rdB s = [].
