(* sess.go transcribed: the two pieces of glue a UDPSession puts around the ARQ core on the data
   path - the locked section of WriteBuffers (admission test, splitting into <= mss chunks, the
   conditional flush) and the locked section of Read (carry-over bufptr, direct read, read
   through recvbuf).  The core is KV.Kcp.Kcp (send, recv, peeksize, waitsnd, flush).
   - one call of write_step / read_step = one pass through `s.mu.Lock() ... s.mu.Unlock()`;
     the select that follows a pass which did not return (WBlock / RBlock) is the wait loop of
     C13 and is not modelled here;
   - recvbuf's capacity is irrelevant: Read re-slices it to the message size (re-allocating
     when the capacity is too small) before every use, and only while bufptr is empty;
   - every function that calls the core's Send also returns the list of (payload, return code)
     pairs of those calls, in call order (the Go code ignores the return codes);
   - read_full also returns the Recv call it made (buffer length, return code, bytes written).
   No proofs in this file. *)
From Coq Require Import ZArith List Bool.
From KV.Base Require Import Consts Word.
From KV.Kcp Require Import Kcp.
Import ListNotations.
Local Open Scope Z_scope.

Record sess := mkSess { core : kcp; bufptr : bytes }.

Inductive write_outcome := WAdmitted (n : Z) | WBlock.
Inductive read_outcome := RData (d : bytes) | RBlock.

(* ---- WriteBuffers ---- *)
(* s.kcp.Send(b): the return code is recorded, never looked at *)
Definition send_one (k : kcp) (b : bytes) : res (kcp * list (bytes * Z)) :=
  match send k b with
  | Panic w => Panic w
  | Ok (k1, r) => Ok (k1, [(b, r)])
  end.

(* the inner loop over one buffer:
     for { if len(b) <= int(s.kcp.mss) { s.kcp.Send(b); break }
           else { s.kcp.Send(b[:s.kcp.mss]); b = b[s.kcp.mss:] } }
   mss is re-read from the core at every iteration, as in the source.  fuel = len(b): with
   mss >= 1 every iteration removes at least one byte, so the loop ends within len(b)
   iterations and fuel O is reached only with len(b) = 0 <= mss.  (With mss = 0, which SetMtu
   refuses, the Go loop would not terminate on a non-empty buffer; the model stops.) *)
Fixpoint send_buf (fuel : nat) (k : kcp) (b : bytes) : res (kcp * list (bytes * Z)) :=
  match fuel with
  | O => send_one k b
  | S f =>
      if blen b <=? mss k then send_one k b
      else
        match send k (take (mss k) b) with
        | Panic w => Panic w
        | Ok (k1, r) =>
            match send_buf f k1 (drop (mss k) b) with
            | Panic w => Panic w
            | Ok (k2, tr) => Ok (k2, (take (mss k) b, r) :: tr)
            end
        end
  end.

(* for _, b := range v { n += len(b); <inner loop> } : (state, n, Send calls) *)
Fixpoint send_vec (k : kcp) (v : list bytes) : res (kcp * Z * list (bytes * Z)) :=
  match v with
  | [] => Ok (k, 0, [])
  | b :: t =>
      match send_buf (length b) k b with
      | Panic w => Panic w
      | Ok (k1, tr1) =>
          match send_vec k1 t with
          | Panic w => Panic w
          | Ok (k2, n, tr2) => Ok (k2, blen b + n, tr1 ++ tr2)
          end
      end
  end.

(* the condition of the flush that ends an admitted write *)
Definition write_flushes (k1 : kcp) (write_delay : bool) : bool :=
  (waitsnd k1 >=? snd_wnd k1) || negb write_delay.

(* the locked section of WriteBuffers, with the Send calls it made *)
Definition write_full (s : sess) (v : list bytes) (write_delay : bool) (now : Z)
  : res (sess * write_outcome * list bytes * list (bytes * Z)) :=
  let k := core s in
  if waitsnd k <? snd_wnd k then
    match send_vec k v with
    | Panic w => Panic w
    | Ok (k1, n, tr) =>
        if write_flushes k1 write_delay then
          match flush k1 FLUSH_FULL now with
          | Panic w => Panic w
          | Ok (k2, _, o) => Ok (mkSess k2 (bufptr s), WAdmitted n, o, tr)
          end
        else Ok (mkSess k1 (bufptr s), WAdmitted n, [], tr)
    end
  else Ok (s, WBlock, [], []).

(* (state, outcome, datagrams handed to the output callback) *)
Definition write_step (s : sess) (v : list bytes) (write_delay : bool) (now : Z)
  : res (sess * write_outcome * list bytes) :=
  match write_full s v write_delay now with
  | Panic w => Panic w
  | Ok (s1, out, o, _) => Ok (s1, out, o)
  end.

(* ---- Close ---- *)
(* UDPSession.Close, as far as the core is concerned: "try best to send all queued messages" is ONE
   more full flush under the session mutex - no window, no congestion state is touched before it. *)
Definition close_full (s : sess) (now : Z) : res (sess * list bytes) :=
  match flush (core s) FLUSH_FULL now with
  | Panic w => Panic w
  | Ok (k1, _, o) => Ok (mkSess k1 (bufptr s), o)
  end.

(* ---- Read ---- *)
(* len(b) = n.  Third component: the Recv call made, as (len of the buffer passed, return
   code, bytes written).
   path 1  len(s.bufptr) > 0: n = copy(b, s.bufptr); s.bufptr = s.bufptr[n:]
   path 2  size := PeekSize() > 0 and len(b) >= size: s.kcp.Recv(b); return size
           (the model returns the bytes Recv wrote; c01_session_read_sizes proves there are
            exactly `size` of them, so `return size` describes the same bytes)
   path 3  size > 0 and len(b) < size: recvbuf = recvbuf[:size]; Recv(recvbuf);
           n = copy(b, recvbuf); bufptr = recvbuf[n:]
   else    block (PeekSize() <= 0: nothing complete - or a zero-length message, boundary B1) *)
Definition read_full (s : sess) (n : Z) : sess * read_outcome * option (Z * Z * bytes) :=
  if blen (bufptr s) >? 0 then
    (mkSess (core s) (drop n (bufptr s)), RData (take n (bufptr s)), None)
  else
    let size := peeksize (core s) in
    if size >? 0 then
      if n >=? size then
        let '(k1, r, d) := recv (core s) n in
        (mkSess k1 (bufptr s), RData d, Some (n, r, d))
      else
        let '(k1, r, d) := recv (core s) size in
        (mkSess k1 (drop n d), RData (take n d), Some (size, r, d))
    else (s, RBlock, None).

Definition read_step (s : sess) (n : Z) : sess * read_outcome :=
  let '(s1, out, _) := read_full s n in (s1, out).

(* NewKCP inside newUDPSession; bufptr starts nil *)
Definition sess_new (cv : Z) : sess := mkSess (kcp_new cv) [].
