(* A concrete session run (non-vacuity witness): nonce + CRC + an involutive "cipher", FEC off.
   One message written, one datagram emitted, framed, delivered through packetInput, read. *)
From Coq Require Import ZArith List Bool Lia.
From KV.Base Require Import Consts Word WordLemmas.
From KV.Kcp Require Import Kcp Step Net InvAll NetAll NetExample.
From KV.Frame Require Import Wire Frame.
From KV.Pipe Require Import Pipe PipeProofs.
Import ListNotations.
Local Open Scope Z_scope.

(* Encrypt = Decrypt = complement every byte; CRC = byte sum; AEAD = append / strip a zero tag *)
Definition exp_K : crypto :=
  mkCrypto (map (fun x => 255 - x)) (map (fun x => 255 - x)) 12 16
           (fun _ p => p ++ repeat 0 16) (fun _ ct => Some (firstn (length ct - 16) ct))
           (fun b => fold_left Z.add b 0 mod W32).

Definition exp_nonce (i : nat) : bytes := repeat (Z.of_nat i + 1) 16.
Definition exp_rs (d p : Z) (shards : list bytes) : list bytes := [].
Definition exp_dec_new (d p : Z) : unit := tt.
Definition exp_dec_decode (d : unit) (pkt : bytes) : unit * list bytes := (d, []).

Definition exp_s0 : psys unit :=
  mkPsys unit ex_k None 0 (mkRx _ _ ex_k None false) (mkSG 0 [] []) (mkRG 0 []) [] [].

Definition exp_tm (j : nat) : Z * Z := (0, 0).

Definition exp_events : list pev :=
  [ PA (OSend [1; 2; 3]) exp_tm;
    PA (OFlush true 1000) exp_tm;
    PDeliver 0 false 1001;
    PB (ORecv 100) ].

Definition exp_step := psys_step exp_rs exp_K CCrc exp_nonce unit exp_dec_new exp_dec_decode.

Definition exp_final : psys unit :=
  fold_left (fun s e => match exp_step s e with Some s1 => s1 | None => s end) exp_events exp_s0.

Lemma exp_laws : cipher_laws exp_K CCrc.
Proof.
  cbn [cipher_laws exp_K k_dec k_enc k_crc]. split.
  - intros b. rewrite map_map. rewrite <- (map_id b) at 2. apply map_ext. intros x. lia.
  - intros b. apply Z.mod_pos_bound. unfold W32. lia.
Qed.

Lemma exp_len_laws : cipher_len_laws exp_K CCrc.
Proof. intros b. cbn [exp_K k_enc]. unfold Wire.blen. rewrite map_length. reflexivity. Qed.

Lemma exp_nonce_ok : nonce_ok exp_K CCrc exp_nonce.
Proof. intros i. unfold exp_nonce, Wire.blen. rewrite repeat_length. reflexivity. Qed.

Lemma exp_init : psys_init unit exp_s0.
Proof. split; [exact ex_init|reflexivity]. Qed.

Lemma pipe_example :
  exists s0 evs s,
    cipher_laws exp_K CCrc /\ cipher_len_laws exp_K CCrc /\ nonce_ok exp_K CCrc exp_nonce /\
    psys_init unit s0 /\ pfe _ s0 = None /\
    psys_run exp_rs exp_K CCrc exp_nonce unit exp_dec_new exp_dec_decode s0 evs s /\
    stream (pA _ s0) = 0 /\ no_wrap (sg_numbered (pgA _ s)) /\
    sg_accepted (pgA _ s) = [[1; 2; 3]] /\ rg_delivered (pgB _ s) = [[1; 2; 3]] /\
    length (swire _ s) = 1%nat /\ length (cwire _ s) = 1%nat /\
    (forall w d, nth_error (swire _ s) 0 = Some w -> nth_error (cwire _ s) 0 = Some d ->
       blen w = blen d + 20 /\ w <> d).
Proof.
  exists exp_s0, exp_events, exp_final.
  split; [exact exp_laws|]. split; [exact exp_len_laws|]. split; [exact exp_nonce_ok|]. split; [exact exp_init|]. split; [reflexivity|].
  split.
  - let f := eval vm_compute in exp_final in change exp_final with f.
    unfold exp_events.
    eapply prun_cons; [split; [apply bytes_dec_ok; vm_compute; reflexivity|exact I] | vm_compute; reflexivity |].
    eapply prun_cons; [split; [exact I|unfold is_u32, W32; lia] | vm_compute; reflexivity |].
    eapply prun_cons; [unfold pev_ok, is_u32, W32; lia | vm_compute; reflexivity |].
    eapply prun_cons; [split; [split; exact I|exact I] | vm_compute; reflexivity |].
    apply prun_nil.
  - split; [reflexivity|]. split; [vm_compute; reflexivity|].
    split; [vm_compute; reflexivity|]. split; [vm_compute; reflexivity|].
    split; [vm_compute; reflexivity|]. split; [vm_compute; reflexivity|].
    intros w d Hw Hd. vm_compute in Hw, Hd. inversion Hw; inversion Hd; subst.
    split; [vm_compute; reflexivity|discriminate].
Qed.
