(* Stage 3: the FEC decoder hypothesis discharged for the real decoder model.
   Dec := Fec.fecdec, dec_decode := a total wrapper around Fec.dec_decode rs_codec (a fault or an
   error = state unchanged, nothing recovered), rs_encode := the encoder of rs_codec.
   (a) the wrapper; (b) the bridge: every packet body the frame engine's FEC stage produces for a
   history of data requests is a `genuine` packet (FecSpec.grp_packet) of a book built from the
   request history; (c) dec_sound from t_c07_only_originals + rs_mds_all. *)
From Coq Require Import ZArith List Bool Lia Arith.
From KV.Base Require Import Consts Word WordLemmas.
From KV.Kcp Require Import Kcp Step Net InvAll NetAll.
From KV.Frame Require Import Wire Frame WireProofs FrameProofs.
From KV.Frame Require FecProofs.
From KV.Fec Require Codec Rs AutoTune Fec FecSpec FecProofs FecProofs2 FecTheorems RsMdsAll.
From KV.Pipe Require Import Pipe PipeProofs PipeFec.
Import ListNotations.
Local Open Scope Z_scope.

Ltac Zify.zify_post_hook ::= idtac.

(* ================================================================ (a) the total wrapper *)
Definition rs_enc (d p : Z) (shards : list bytes) : list bytes :=
  Codec.c_encode (Rs.rs_codec d p) shards.

(* newFECDecoder refuses d <= 0, p <= 0, d + p > 256; kcpInput only ever calls it with (1, 1) *)
Definition rdec_dummy : Fec.fecdec :=
  Fec.mkDec 1 1 2 (Fec.paws_of 2) 0 [] AutoTune.at_init false.
Definition rdec_new (d p : Z) : Fec.fecdec :=
  match Fec.dec_new d p with Some st => st | None => rdec_dummy end.
Definition rdec_decode (st : Fec.fecdec) (pkt : bytes) : Fec.fecdec * list bytes :=
  match Fec.dec_decode Rs.rs_codec st pkt with
  | Fec.Ok (st', recs) => (st', recs)
  | Fec.Panic _ => (st, [])
  end.

Lemma rdec_new_11 : Fec.dec_new 1 1 = Some (rdec_new 1 1).
Proof. reflexivity. Qed.

Lemma run_dec_snoc mk h : forall st b st' outs,
  FecSpec.run_dec mk st (h ++ [b]) = Fec.Ok (st', outs) ->
  exists st1 outs1 out,
    FecSpec.run_dec mk st h = Fec.Ok (st1, outs1) /\
    Fec.dec_decode mk st1 b = Fec.Ok (st', out) /\ outs = outs1 ++ [out].
Proof.
  induction h as [|x h IH]; intros st b st' outs H.
  - cbn [app FecSpec.run_dec] in H |- *.
    destruct (Fec.dec_decode mk st b) as [[st1 out]|w] eqn:Ed; [|discriminate].
    inversion H; subst. exists st, [], out. split; [reflexivity|]. split; [exact Ed|reflexivity].
  - cbn [app FecSpec.run_dec] in H |- *.
    destruct (Fec.dec_decode mk st x) as [[st1 out]|w]; [|discriminate].
    destruct (FecSpec.run_dec mk st1 (h ++ [b])) as [[st2 outs2]|w] eqn:E; [|discriminate].
    inversion H; subst.
    destruct (IH st1 b st' outs2 E) as (s1 & o1 & o & E1 & E2 & ->).
    rewrite E1. exists s1, (out :: o1), o. split; [reflexivity|]. split; [exact E2|reflexivity].
Qed.

Lemma run_dec_after h : forall st st1 outs1,
  FecSpec.run_dec Rs.rs_codec st h = Fec.Ok (st1, outs1) ->
  dec_after Fec.fecdec rdec_decode st h = st1.
Proof.
  induction h as [|x h IH]; intros st st1 outs1 H.
  - cbn in H. inversion H. reflexivity.
  - cbn [FecSpec.run_dec] in H. cbn [dec_after]. unfold rdec_decode at 2.
    destruct (Fec.dec_decode Rs.rs_codec st x) as [[st2 out]|w]; [|discriminate].
    destruct (FecSpec.run_dec Rs.rs_codec st2 h) as [[st3 outs3]|w] eqn:E; [|discriminate].
    inversion H; subst. cbn [fst]. eapply IH. exact E.
Qed.

(* ================================================================ vocabulary of the two engines *)
Lemma sp_image x : Wire.blen x + 2 < 65536 -> size_prefixed x = FecSpec.image x.
Proof.
  intros H. pose proof (blen_nonneg x). unfold size_prefixed, FecSpec.image, u16.
  rewrite Z.mod_small by lia. reflexivity.
Qed.

Lemma fold_max_list_max (imgs : list bytes) : forall a, 0 <= a ->
  fold_left (fun m s => Z.max m (Wire.blen s)) imgs a = Z.max a (Z.of_nat (list_max (map (@length Z) imgs))).
Proof.
  induction imgs as [|s t IH]; intros a Ha; [cbn; lia|].
  cbn [fold_left map]. rewrite IH by lia.
  change (list_max (length s :: map (@length Z) t)) with (Nat.max (length s) (list_max (map (@length Z) t))).
  unfold Wire.blen. lia.
Qed.

Lemma max_len_grp_len imgs : KV.Frame.FecProofs.max_len imgs = Z.of_nat (FecSpec.grp_len imgs).
Proof. unfold KV.Frame.FecProofs.max_len, FecSpec.grp_len. rewrite fold_max_list_max by lia. lia. Qed.

Lemma pad_to_nat n s : 0 <= n -> Frame.pad_to n s = Fec.pad_to (Z.to_nat n) s.
Proof.
  intros Hn. unfold Frame.pad_to, Fec.pad_to. f_equal. f_equal. unfold Wire.blen. lia.
Qed.

(* what feed_recovered strips = what the FEC engine's strip_rec strips *)
Lemma rec_payload_strip r pl : rec_payload r = Some pl -> Fec.strip_rec r = [(pl, c_IKCP_PACKET_FEC)].
Proof.
  unfold rec_payload, Fec.strip_rec.
  change (Codec.blen r) with (Wire.blen r).
  destruct (2 <=? Wire.blen r); [|discriminate].
  destruct ((rd16 r <=? Wire.blen r) && (2 <=? rd16 r)) eqn:E; [|discriminate].
  intros H. inversion H; subst. apply andb_true_iff in E as [_ E2]. apply Z.leb_le in E2.
  unfold zdrop, ztake. change (Z.to_nat 2) with 2%nat.
  rewrite firstn_skipn_comm. replace (2 + Z.to_nat (rd16 r - 2))%nat with (Z.to_nat (rd16 r)) by lia.
  reflexivity.
Qed.

(* ---------------------------------------------------------------- list facts *)
Lemma nth_skipn_add {A} (l : list A) : forall m k dflt, nth k (skipn m l) dflt = nth (m + k) l dflt.
Proof.
  induction l as [|a l IH]; intros m k dflt.
  - rewrite skipn_nil. destruct k, m; reflexivity.
  - destruct m; [reflexivity|]. cbn [skipn Nat.add nth]. apply IH.
Qed.

Lemma nth_firstn_lt {A} (l : list A) : forall n k dflt, (k < n)%nat -> nth k (firstn n l) dflt = nth k l dflt.
Proof.
  induction l as [|a l IH]; intros n k dflt Hk; [rewrite firstn_nil; reflexivity|].
  destruct n; [lia|]. destruct k; [reflexivity|]. cbn [firstn nth]. apply IH. lia.
Qed.

Lemma firstn_snoc {A} (l : list A) : forall k dflt, (k < length l)%nat ->
  firstn (S k) l = firstn k l ++ [nth k l dflt].
Proof.
  induction l as [|a l IH]; intros k dflt Hk; [cbn in Hk; lia|].
  destruct k; [reflexivity|]. cbn [firstn nth app]. f_equal. apply IH. cbn in Hk. lia.
Qed.

Lemma skipn_cons_nth {A} (l : list A) : forall m x r dflt, skipn m l = x :: r ->
  (m < length l)%nat /\ nth m l dflt = x /\ skipn (S m) l = r.
Proof.
  induction l as [|a l IH]; intros m x r dflt H.
  - rewrite skipn_nil in H. discriminate.
  - destruct m.
    + cbn in H. inversion H; subst. cbn. split; [lia|]. split; reflexivity.
    + cbn [skipn] in H. destruct (IH m x r dflt H) as (H1 & H2 & H3).
      cbn [length nth]. split; [lia|]. split; [exact H2|exact H3].
Qed.

Lemma Forall_nth_error {A} (P : A -> Prop) (l : list A) :
  (forall i x, nth_error l i = Some x -> P x) -> Forall P l.
Proof.
  intros H. apply Forall_forall. intros x Hx. apply In_nth_error in Hx as (i & Hi). eapply H. exact Hi.
Qed.

Lemma in_firstn_in {A} (l : list A) n x : In x (firstn n l) -> In x l.
Proof. intros H. rewrite <- (firstn_skipn n l). apply in_or_app. left. exact H. Qed.
Lemma in_skipn_in {A} (l : list A) n x : In x (skipn n l) -> In x l.
Proof. intros H. rewrite <- (firstn_skipn n l). apply in_or_app. right. exact H. Qed.

(* ================================================================ (b) the bridge *)
Section Bridge.
Variables d p : Z.
Hypothesis Hcfg : FecSpec.cfg_ok d p.
Variable all : list bytes.                    (* the payloads of the whole request history *)
Hypothesis Hall : Forall fec_payload_ok all.
Local Notation ss := (d + p).
Local Notation paws := (Fec.paws_of (d + p)).
Local Notation C := (Rs.rs_codec d p).
Local Notation dn := (Z.to_nat d).

(* the payloads of group g as far as the history goes; the book completes an unfinished last
   group with copies of its first payload (and groups nobody has sent yet with empty payloads) *)
Definition grp_real (g : nat) : list bytes := firstn dn (skipn (g * dn) all).
Definition book (g : Z) : list bytes :=
  grp_real (Z.to_nat g) ++ repeat (hd [] (grp_real (Z.to_nat g))) (dn - length (grp_real (Z.to_nat g))).

Lemma grp_real_len g : (length (grp_real g) <= dn)%nat.
Proof using Type. unfold grp_real. rewrite firstn_length. lia. Qed.

Lemma grp_real_in g x : In x (grp_real g) -> In x all.
Proof using Type.
  unfold grp_real. intros H. apply (in_skipn_in all (g * dn)). eapply in_firstn_in. exact H.
Qed.

Lemma payload_small x : fec_payload_ok x -> Wire.blen x + 2 < 65536.
Proof using Type. intros [H _]. unfold c_fecHeaderSizePlus2, c_mtuLimit in H. lia. Qed.

Lemma book_ok : FecSpec.book_ok d book.
Proof using Hall.
  intros g. unfold book. pose proof (grp_real_len (Z.to_nat g)) as Hl. split.
  - rewrite app_length, repeat_length. lia.
  - apply Forall_app. split.
    + apply Forall_forall. intros x Hx. rewrite Forall_forall in Hall. apply (Hall x). eapply grp_real_in. exact Hx.
    + apply Forall_forall. intros x Hx. apply repeat_spec in Hx. subst x.
      destruct (grp_real (Z.to_nat g)) as [|y t] eqn:E; cbn [hd].
      * split; [unfold Codec.blen, c_fecHeaderSizePlus2, c_mtuLimit; cbn; lia|constructor].
      * rewrite Forall_forall in Hall. apply (Hall y). apply (grp_real_in (Z.to_nat g)). rewrite E. left. reflexivity.
Qed.

Lemma book_nth g k : (g * dn + k < length all)%nat -> (k < dn)%nat ->
  nth k (book (Z.of_nat g)) [] = nth (g * dn + k) all [].
Proof using Type.
  intros Hlt Hk. unfold book. rewrite Nat2Z.id.
  assert (Hlen : (k < length (grp_real g))%nat).
  { unfold grp_real. rewrite firstn_length, skipn_length. lia. }
  rewrite app_nth1 by exact Hlen. unfold grp_real.
  rewrite nth_firstn_lt by exact Hk. apply nth_skipn_add.
Qed.

Lemma book_full g : length (grp_real g) = dn -> book (Z.of_nat g) = grp_real g.
Proof using Type.
  intros H. unfold book. rewrite Nat2Z.id, H, Nat.sub_diag. cbn [repeat]. apply app_nil_r.
Qed.

Lemma book_in g x : (Z.to_nat g * dn < length all)%nat -> In x (book g) -> In x all.
Proof using Hcfg.
  intros Hlt Hx. unfold book in Hx. apply in_app_or in Hx as [Hx|Hx].
  - eapply grp_real_in. exact Hx.
  - apply repeat_spec in Hx. subst x.
    destruct (grp_real (Z.to_nat g)) as [|y t] eqn:E; cbn [hd].
    + exfalso. assert (Hl : length (grp_real (Z.to_nat g)) = 0%nat) by (rewrite E; reflexivity).
      unfold grp_real in Hl. rewrite firstn_length, skipn_length in Hl. destruct Hcfg as (Hd & _). lia.
    + apply (grp_real_in (Z.to_nat g)). rewrite E. left. reflexivity.
Qed.

(* the frame engine's encoder after gn complete groups and the payloads pend of group gn *)
Definition binv (e : fecenc) (gn : nat) (pend : list bytes) : Prop :=
  fe_d e = d /\ fe_p e = p /\ fe_paws e = paws /\ 0 <= fe_poff e /\
  fe_next e = (Z.of_nat gn * ss + Z.of_nat (length pend)) mod paws /\
  fe_count e = Z.of_nat (length pend) /\ (length pend < dn)%nat /\
  fe_cache e = map size_prefixed pend /\
  fe_maxsize e = match pend with [] => 0 | _ => fe_poff e + KV.Frame.FecProofs.max_len (map size_prefixed pend) end /\
  pend = firstn (length pend) (skipn (gn * dn) all).

Lemma paws_facts : 0 < paws /\ paws < W32 /\ ss <= paws.
Proof using Hcfg.
  destruct Hcfg as (Hd & Hp & Hs).
  destruct (KV.Fec.FecProofs2.paws_groups ss ltac:(lia)) as (HG & HG0 & (Hp0 & Hp1) & _).
  split; [exact Hp0|]. split; [exact Hp1|]. nia.
Qed.

Lemma in_pend_ok e gn pend y : binv e gn pend -> In y pend -> fec_payload_ok y.
Proof using Hall.
  intros (_ & _ & _ & _ & _ & _ & _ & _ & _ & Hpe) Hy. rewrite Forall_forall in Hall. apply Hall.
  rewrite Hpe in Hy. eapply in_skipn_in. eapply in_firstn_in. exact Hy.
Qed.

(* the size-prefixed images of payloads that fit are the FEC engine's images *)
Lemma map_sp_image l : Forall fec_payload_ok l -> map size_prefixed l = map FecSpec.image l.
Proof using Type.
  intros H. apply map_ext_in. intros x Hx. rewrite Forall_forall in H. apply sp_image, payload_small, H, Hx.
Qed.

(* the data packet of position k in group gn *)
Lemma data_genuine gn k x :
  (gn * dn + k < length all)%nat -> (k < dn)%nat -> nth (gn * dn + k) all [] = x ->
  (Z.of_nat gn + 1) * ss <= paws ->
  FecSpec.genuine_at C d p book (Z.of_nat gn) k (data_body (Z.of_nat gn * ss + Z.of_nat k) x).
Proof using Hcfg Hall.
  intros Hlt Hk Hx Hgrp. destruct Hcfg as (Hd & Hp & Hs).
  assert (Hxok : fec_payload_ok x).
  { rewrite Forall_forall in Hall. apply Hall. rewrite <- Hx. apply nth_In. lia. }
  unfold FecSpec.genuine_at. split; [lia|]. split; [lia|]. split; [nia|].
  unfold FecSpec.grp_packet, FecSpec.grp_shard.
  assert (Hk' : (Z.of_nat k <? d) = true) by (apply Z.ltb_lt; lia). rewrite Hk'.
  assert (Hil : length (FecSpec.imgs_of book (Z.of_nat gn)) = dn).
  { unfold FecSpec.imgs_of. rewrite map_length. apply book_ok. }
  rewrite app_nth1 by lia.
  destruct (KV.Fec.FecProofs.strip_padded_nth d book book_ok (Z.of_nat gn) k Hk) as (Hn & _).
  rewrite Hn, book_nth, Hx by assumption.
  unfold data_body. rewrite fec_body_eq. unfold FecSpec.image.
  rewrite u16_small by (pose proof (payload_small x Hxok); pose proof (blen_nonneg x); lia).
  reflexivity.
Qed.

Lemma Hmds : FecSpec.mds C d p.
Proof using Hcfg. destruct Hcfg as (Hd & Hp & Hs). apply KV.Fec.RsMdsAll.rs_mds_all; lia. Qed.

(* the parity packets of a complete group gn *)
Lemma parity_genuine gn grp :
  grp_real gn = grp -> length grp = dn -> (Z.of_nat gn + 1) * ss <= paws ->
  let imgs := map size_prefixed grp in
  let pars := rs_enc d p (map (Frame.pad_to (KV.Frame.FecProofs.max_len imgs)) imgs) in
  length pars = Z.to_nat p /\
  Forall (fun b => exists i, FecSpec.genuine_at C d p book (Z.of_nat gn) i b)
         (KV.Frame.FecProofs.parity_pkts (Z.of_nat gn * ss + d) paws pars).
Proof using Hcfg Hall.
  intros Hg Hlen Hgrp. cbv zeta. pose proof Hcfg as (Hd & Hp & Hs).
  set (imgs := map size_prefixed grp).
  assert (Hbk : book (Z.of_nat gn) = grp) by (rewrite book_full; rewrite Hg; [reflexivity|exact Hlen]).
  assert (Hgok : Forall fec_payload_ok grp).
  { apply Forall_forall. intros x Hx. rewrite Forall_forall in Hall. apply Hall. apply (grp_real_in gn). rewrite Hg. exact Hx. }
  assert (Himgs : FecSpec.imgs_of book (Z.of_nat gn) = imgs).
  { unfold FecSpec.imgs_of, imgs. rewrite Hbk. symmetry. apply map_sp_image. exact Hgok. }
  assert (Hpars : rs_enc d p (map (Frame.pad_to (KV.Frame.FecProofs.max_len imgs)) imgs) =
                  FecSpec.grp_parity C (FecSpec.imgs_of book (Z.of_nat gn))).
  { unfold rs_enc, FecSpec.grp_parity, FecSpec.grp_padded. rewrite Himgs. f_equal.
    apply map_ext. intros s. rewrite max_len_grp_len. rewrite pad_to_nat by lia. rewrite Nat2Z.id. reflexivity. }
  rewrite Hpars. set (pars := FecSpec.grp_parity C (FecSpec.imgs_of book (Z.of_nat gn))) in *.
  destruct (KV.Fec.FecProofs.parity_shape C d p book Hcfg Hmds book_ok (Z.of_nat gn)) as (Hpl & _).
  fold pars in Hpl.
  split; [exact Hpl|].
  apply Forall_nth_error. intros j pkt Hj.
  destruct (KV.Frame.FecProofs.parity_pkts_nth _ _ _ _ _ Hj) as (par & Hpar & ->).
  assert (Hjp : (j < Z.to_nat p)%nat).
  { rewrite <- Hpl. apply nth_error_Some. intros Hc. pose proof (eq_trans (eq_sym Hpar) Hc) as Hx. discriminate Hx. }
  exists (dn + j)%nat. unfold FecSpec.genuine_at. split; [lia|]. split; [lia|]. split; [nia|].
  unfold FecSpec.grp_packet, FecSpec.grp_shard.
  assert (Hk' : (Z.of_nat (dn + j) <? d) = false) by (apply Z.ltb_ge; lia). rewrite Hk'.
  assert (Hil : length (FecSpec.imgs_of book (Z.of_nat gn)) = dn).
  { unfold FecSpec.imgs_of. rewrite map_length. apply book_ok. }
  rewrite app_nth2 by lia. rewrite Hil. replace (dn + j - dn)%nat with j by lia.
  fold pars. rewrite (nth_error_nth _ _ _ Hpar).
  rewrite Z.mod_small by nia.
  unfold fec_hdr. rewrite <- app_assoc.
  replace (Z.of_nat gn * ss + d + Z.of_nat j) with (Z.of_nat gn * ss + Z.of_nat (dn + j)) by lia.
  reflexivity.
Qed.

(* one call of the frame engine's encode in terms of the book *)
Lemma bridge_step e gn pend x now rto :
  binv e gn pend -> (gn * dn + length pend < length all)%nat ->
  nth (gn * dn + length pend) all [] = x -> (Z.of_nat gn + 1) * ss <= paws ->
  exists e1 ps,
    fec_encode rs_enc e x now rto =
      (e1, data_body (Z.of_nat gn * ss + Z.of_nat (length pend)) x, ps) /\
    Forall (fun b => exists i, FecSpec.genuine_at C d p book (Z.of_nat gn) i b) ps /\
    ((S (length pend) < dn)%nat -> binv e1 gn (pend ++ [x])) /\
    (S (length pend) = dn -> binv e1 (S gn) []).
Proof using Hcfg Hall.
  intros Hb Hidx Hx Hgrp. pose proof Hb as (Hd' & Hp' & Hpw & Hpo & Hnx & Hcnt & Hlt & Hca & Hmx & Hpe).
  pose proof Hcfg as (Hd & Hp & Hs). pose proof paws_facts as (Hpaws & _ & _).
  set (K := Z.of_nat gn * ss + Z.of_nat (length pend)) in *.
  assert (HK : 0 <= K /\ K + 1 < (Z.of_nat gn + 1) * ss) by (unfold K; nia).
  rewrite Z.mod_small in Hnx by lia.
  pose proof (blen_nonneg x) as Hxn.
  assert (Hsnoc : pend ++ [x] = firstn (S (length pend)) (skipn (gn * dn) all)).
  { rewrite (firstn_snoc (skipn (gn * dn) all) (length pend) ([] : bytes)) by (rewrite skipn_length; lia).
    rewrite <- Hpe. rewrite nth_skipn_add, Hx. reflexivity. }
  assert (HM : (if fe_maxsize e <? fe_poff e + 2 + Wire.blen x then fe_poff e + 2 + Wire.blen x else fe_maxsize e)
               = fe_poff e + KV.Frame.FecProofs.max_len (map size_prefixed (pend ++ [x]))).
  { rewrite map_app. cbn [map]. rewrite KV.Frame.FecProofs.max_len_snoc, KV.Frame.FecProofs.blen_size_prefixed.
    rewrite Hmx. destruct pend as [|y pend'].
    - cbn [map]. unfold KV.Frame.FecProofs.max_len at 1. cbn [fold_left].
      destruct (0 <? fe_poff e + 2 + Wire.blen x) eqn:E; [lia|apply Z.ltb_ge in E; lia].
    - destruct (fe_poff e + KV.Frame.FecProofs.max_len (map size_prefixed (y :: pend')) <? fe_poff e + 2 + Wire.blen x) eqn:E;
        [apply Z.ltb_lt in E|apply Z.ltb_ge in E]; lia. }
  unfold fec_encode. rewrite HM, Hnx, Hcnt, Hd', Hp', Hpw, Hca.
  change (fec_hdr K c_typeData ++ size_prefixed x) with (data_body K x).
  replace (map size_prefixed pend ++ [size_prefixed x]) with (map size_prefixed (pend ++ [x]))
    by (rewrite map_app; reflexivity).
  destruct (Z.of_nat (length pend) + 1 =? d) eqn:Ec.
  - apply Z.eqb_eq in Ec.
    assert (Hfull : grp_real gn = pend ++ [x]).
    { unfold grp_real. rewrite Hsnoc. f_equal. lia. }
    assert (Hnew : binv (fe_set e ((Z.of_nat (S gn) * ss) mod paws) 0 0 [] now) (S gn) []).
    { unfold binv. cbn [fe_set fe_d fe_p fe_paws fe_poff fe_next fe_count fe_cache fe_maxsize length map firstn].
      repeat (split; [first [assumption|reflexivity|lia|(f_equal; lia)]|]). reflexivity. }
    destruct (now - fe_ts e <? rto).
    + replace (fe_poff e + KV.Frame.FecProofs.max_len (map size_prefixed (pend ++ [x])) - fe_poff e)
        with (KV.Frame.FecProofs.max_len (map size_prefixed (pend ++ [x]))) by lia.
      destruct (parity_genuine gn (pend ++ [x]) Hfull) as (Hlen & Hgen);
        [rewrite app_length; cbn [length]; lia|exact Hgrp|].
      cbv zeta in Hlen, Hgen.
      rewrite (KV.Frame.FecProofs.seal_parities_spec paws _ Hpaws (K + 1)).
      eexists _, _. split; [reflexivity|]. split.
      * replace (K + 1) with (Z.of_nat gn * ss + d) by (unfold K; lia). exact Hgen.
      * split; [intros; lia|]. intros _. rewrite Hlen.
        replace (K + 1 + Z.of_nat (Z.to_nat p)) with (Z.of_nat (S gn) * ss) by (unfold K; lia). exact Hnew.
    + eexists _, _. split; [reflexivity|]. split; [constructor|]. split; [intros; lia|]. intros _.
      rewrite Zplus_mod_idemp_l.
      replace (K + 1 + p) with (Z.of_nat (S gn) * ss) by (unfold K; lia). exact Hnew.
  - apply Z.eqb_neq in Ec.
    eexists _, _. split; [reflexivity|]. split; [constructor|]. split; [|intros; lia]. intros Hlt1.
    unfold binv. cbn [fe_set fe_d fe_p fe_paws fe_poff fe_next fe_count fe_cache fe_maxsize].
    rewrite app_length. cbn [length].
    split; [assumption|]. split; [assumption|]. split; [assumption|]. split; [assumption|].
    split; [f_equal; unfold K; lia|]. split; [lia|]. split; [lia|]. split; [reflexivity|].
    split.
    + destruct (pend ++ [x]) eqn:Ea; [destruct pend; discriminate|reflexivity].
    + rewrite Nat.add_1_r. exact Hsnoc.
Qed.

Definition group_bound : Prop :=
  forall m, (m < length all)%nat -> (Z.of_nat (m / dn) + 1) * ss <= paws.

(* THE BRIDGE: every packet body the frame engine's FEC stage produces for the rest of the
   history is a genuine packet of the book, of a group the history has reached *)
Lemma bridge_run ov : forall hist e gn pend,
  binv e gn pend -> hist_data hist ->
  hist_payloads hist = skipn (gn * dn + length pend) all -> group_bound ->
  Forall (fun b => exists g i, FecSpec.genuine_at C d p book g i b /\ (Z.to_nat g * dn < length all)%nat)
         (run_bodies (snd (stage1w_run rs_enc ov (Some e) hist))).
Proof using Hcfg Hall.
  induction hist as [|[[r now] wire] hist IH]; intros e gn pend Hb Hd Hpay Hgb; [constructor|].
  inversion Hd as [|? ? Hr Hd']; subst. cbn [fst] in Hr.
  pose proof Hcfg as (Hd0 & _ & _).
  unfold hist_payloads in Hpay. cbn [map fst] in Hpay. fold (hist_payloads hist) in Hpay.
  destruct (skipn_cons_nth all _ _ _ ([] : bytes) (eq_sym Hpay)) as (Hm & Hx & Hrest).
  pose proof Hb as (_ & _ & _ & _ & _ & _ & Hlt & _).
  assert (Hdiv : ((gn * dn + length pend) / dn = gn)%nat).
  { rewrite Nat.div_add_l by lia. rewrite Nat.div_small by lia. lia. }
  assert (Hgrp : (Z.of_nat gn + 1) * ss <= paws) by (rewrite <- Hdiv; apply Hgb; exact Hm).
  destruct (bridge_step e gn pend (rq_payload r) now c_maxFECEncodeLatency Hb Hm Hx Hgrp)
    as (e1 & ps & Eenc & Hps & Hn1 & Hn2).
  cbn [stage1w_run]. unfold stage1w, stage1. rewrite Hr, Eenc.
  assert (Hgn : (Z.to_nat (Z.of_nat gn) * dn < length all)%nat) by (rewrite Nat2Z.id; lia).
  assert (Hrec : Forall (fun b => exists g i, FecSpec.genuine_at C d p book g i b /\ (Z.to_nat g * dn < length all)%nat)
                        (run_bodies (snd (stage1w_run rs_enc ov (Some e1) hist)))).
  { destruct (Nat.lt_ge_cases (S (length pend)) dn) as [Hc|Hc].
    - apply (IH e1 gn (pend ++ [rq_payload r])); [apply Hn1; exact Hc|exact Hd'| |exact Hgb].
      rewrite app_length. cbn [length]. rewrite <- Hrest. f_equal. lia.
    - apply (IH e1 (S gn) []); [apply Hn2; lia|exact Hd'| |exact Hgb].
      cbn [length]. rewrite <- Hrest. f_equal. lia. }
  destruct (stage1w_run rs_enc ov (Some e1) hist) as [fe2 l]. cbn [snd] in *.
  unfold run_bodies. cbn [map concat fst snd]. fold (run_bodies l).
  constructor.
  - exists (Z.of_nat gn), (length pend). split; [|exact Hgn].
    apply data_genuine; [exact Hm|exact Hlt|exact Hx|exact Hgrp].
  - apply Forall_app. split; [|exact Hrec].
    assert (Hps' : Forall (fun b => exists g i, FecSpec.genuine_at C d p book g i b /\ (Z.to_nat g * dn < length all)%nat) ps).
    { eapply Forall_impl; [|exact Hps]. intros b (i & Hi). exists (Z.of_nat gn), i. split; [exact Hi|exact Hgn]. }
    unfold drop_long_parity. destruct ps as [|p0 ps']; [constructor|].
    destruct ((0 <? wire) && (wire - ov <? fe_hoff e + Wire.blen p0)); [constructor|exact Hps'].
Qed.

Lemma group_bound_of_no_wrap : Z.of_nat (length all) * (1 + p) < paws -> group_bound.
Proof using Hcfg.
  intros Hnw m Hm. destruct Hcfg as (Hd & Hp & Hs). pose proof paws_facts as (_ & _ & Hss).
  set (q := (m / dn)%nat).
  assert (Hq : Z.of_nat q * d <= Z.of_nat m).
  { pose proof (Nat.mul_div_le m dn ltac:(lia)) as H. fold q in H. nia. }
  destruct (Z.eq_dec (Z.of_nat q) 0) as [E|E]; [rewrite E; lia|].
  assert (H1 : 1 <= Z.of_nat q) by lia.
  assert (H2 : 0 <= (d - 1) * (Z.of_nat q * p - 1)) by nia.
  assert (H3 : (Z.of_nat q + 1) * ss <= (Z.of_nat q * d + 1) * (1 + p)) by nia.
  assert (H4 : (Z.of_nat q * d + 1) * (1 + p) <= Z.of_nat (length all) * (1 + p)) by nia.
  lia.
Qed.

Lemma binv_new off e0 : fec_new d p off = Some e0 -> 0 <= off -> binv e0 0 [].
Proof using Hcfg.
  intros Hnew Hoff. destruct Hcfg as (Hd & Hp & Hs). unfold fec_new in Hnew.
  destruct ((d <=? 0) || (p <=? 0) || (256 <? d + p)); [discriminate|].
  inversion Hnew; subst e0; clear Hnew.
  unfold binv. cbn [fe_d fe_p fe_paws fe_poff fe_next fe_count fe_cache fe_maxsize length map firstn].
  unfold c_fecHeaderSize.
  split; [reflexivity|]. split; [reflexivity|]. split; [reflexivity|]. split; [lia|].
  split; [symmetry; apply Z.mod_0_l; pose proof paws_facts; lia|].
  split; [reflexivity|]. split; [lia|]. split; [reflexivity|]. split; reflexivity.
Qed.

(* a packet determines its group *)
Lemma genuine_group g i g' i' b :
  FecSpec.genuine_at C d p book g i b -> FecSpec.genuine_at C d p book g' i' b -> g = g'.
Proof using Hcfg.
  intros (H0 & Hi & Hlt & E) (H0' & Hi' & Hlt' & E'). pose proof paws_facts as (_ & Hw & _).
  destruct Hcfg as (Hd & Hp & Hs).
  assert (Hid : g * ss + Z.of_nat i = g' * ss + Z.of_nat i').
  { rewrite E in E'. unfold FecSpec.grp_packet in E'. apply (f_equal rd32) in E'.
    rewrite !rd32_le32 in E' by (unfold is_u32, W32 in *; nia). exact E'. }
  nia.
Qed.
End Bridge.

Lemma Forall2_last {A B} (R : A -> B -> Prop) l a m b :
  Forall2 R (l ++ [a]) (m ++ [b]) -> R a b.
Proof.
  intros H. apply Forall2_app_inv_l in H as (m1 & m2 & H1 & H2 & E).
  inversion H2 as [|? y ? l2 Hab Hnil]; subst. inversion Hnil; subst.
  apply app_inj_tail in E as [_ <-]. exact Hab.
Qed.

(* ================================================================ (c) the decoder hypothesis, proved *)
Theorem rs_dec_sound (K : crypto) (c : cipher) d p off e0 st0 :
  FecSpec.cfg_ok d p -> fec_new d p off = Some e0 -> 0 <= off -> Fec.dec_new d p = Some st0 ->
  dec_sound rs_enc K c Fec.fecdec rdec_decode e0 st0.
Proof.
  intros Hcfg Hnew Hoff Hdn hist h b Hd Hnw Hok. cbv zeta. intros Hin r pl Hr Hp.
  set (all := hist_payloads hist) in *.
  pose proof (binv_new d p Hcfg all off e0 Hnew Hoff) as Hb0.
  pose proof Hb0 as (_ & Hp0 & Hpw0 & _ & Hnx0 & _).
  assert (Hgb : group_bound d p all).
  { apply (group_bound_of_no_wrap d p Hcfg). destruct Hnw as [_ Hnw].
    rewrite Hp0, Hpw0, Hnx0 in Hnw. cbn [length] in Hnw.
    rewrite Z.mod_0_l in Hnw by (pose proof (paws_facts d p Hcfg); lia). lia. }
  pose proof (bridge_run d p Hcfg all Hok (aead_extra K c) hist e0 0%nat [] Hb0 Hd eq_refl Hgb) as Hbr.
  rewrite Forall_forall in Hbr.
  assert (Hgen : Forall (FecSpec.genuine (Rs.rs_codec d p) d p (book d all)) (h ++ [b])).
  { eapply Forall_impl; [|exact Hin]. intros x [Hx _]. destruct (Hbr x Hx) as (g & i & Hg & _).
    exists g, i. exact Hg. }
  destruct (KV.Fec.FecTheorems.t_c07_only_originals Rs.rs_codec d p (book d all) Hcfg (Hmds d p Hcfg)
              (book_ok d all Hok) (h ++ [b]) Hgen) as (st0' & st' & outs & Hdn' & Hrun & HF2).
  rewrite Hdn in Hdn'. inversion Hdn'; subst st0'.
  destruct (run_dec_snoc _ _ _ _ _ _ Hrun) as (st1 & outs1 & out & E1 & E2 & ->).
  rewrite (run_dec_after h st0 st1 outs1 E1) in Hr. unfold rdec_decode in Hr. rewrite E2 in Hr. cbn [snd] in Hr.
  destruct (Forall2_last _ _ _ _ _ HF2 r Hr) as (g & i & Hga & k & Hk & _ & Hstrip).
  rewrite (rec_payload_strip r pl Hp) in Hstrip. inversion Hstrip as [Hpl].
  apply Forall_app in Hin as [_ Hinb]. apply Forall_inv in Hinb as [Hbin _].
  destruct (Hbr b Hbin) as (g' & i' & Hg' & Hne).
  rewrite (genuine_group d p Hcfg all g i g' i' b Hga Hg').
  apply (book_in d p Hcfg all g'); [exact Hne|].
  apply nth_In. destruct (book_ok d all Hok g') as [Hl _]. rewrite Hl. exact Hk.
Qed.

(* ================================================================ (d) the session theorems, no decoder hypothesis *)
Lemma cipher_hdr_nonneg K c (nonce : nat -> bytes) : nonce_ok K c nonce -> 0 <= cipher_hdr K c.
Proof.
  intros H. specialize (H 0%nat). pose proof (blen_nonneg (nonce 0%nat)) as Hn.
  destruct c; unfold cipher_hdr, nonce_len, c_cryptHeaderSize in *; lia.
Qed.

Section Final.
Variable K : crypto.
Variable c : cipher.
Variable nonce : nat -> bytes.
Hypothesis laws : cipher_laws K c.
Hypothesis nonces : nonce_ok K c nonce.

Local Notation psys := (Pipe.psys Fec.fecdec).
Local Notation psys_run := (Pipe.psys_run rs_enc K c nonce Fec.fecdec rdec_new rdec_decode).
Local Notation proj := (Pipe.proj Fec.fecdec).
Local Notation proj_evs := (Pipe.proj_evs rs_enc K c nonce Fec.fecdec rdec_new rdec_decode).
Local Notation deliver_feeds := (Pipe.deliver_feeds K c Fec.fecdec rdec_new rdec_decode).
Local Notation framed := (Pipe.framed K c).

(* the two sessions are configured alike: the writer's encoder is the fresh
   newFECEncoder(d, p, headerOffset), the reader's decoder the fresh newFECDecoder(d, p) *)
Definition rs_configured (d p : Z) (e0 : fecenc) (s0 : psys) : Prop :=
  FecSpec.cfg_ok d p /\ pfe _ s0 = Some e0 /\ sess_fec_new K c d p = Some e0 /\
  exists st0, rx_dec _ _ (pB _ s0) = Some st0 /\ Fec.dec_new d p = Some st0.

Lemma rs_configured_sound d p e0 s0 :
  rs_configured d p e0 s0 ->
  pfe _ s0 = Some e0 /\
  dec_sound rs_enc K c Fec.fecdec rdec_decode e0 (dec_cur Fec.fecdec rdec_new (pB _ s0)).
Proof using nonces.
  intros (Hcfg & Hfe & Hnew & st0 & Hrx & Hdn). split; [exact Hfe|].
  unfold dec_cur. rewrite Hrx.
  exact (rs_dec_sound K c d p (cipher_hdr K c) e0 st0 Hcfg Hnew (cipher_hdr_nonneg K c nonce nonces) Hdn).
Qed.

Theorem pipe3_run_projects d p e0 s0 evs s :
  psys_init Fec.fecdec s0 -> rs_configured d p e0 s0 -> psys_run s0 evs s ->
  fec_no_wrap e0 (cwire _ s) -> fec_fits (cwire _ s) ->
  sys_init (proj s0) /\ sys_run (proj s0) (proj_evs s0 evs) (proj s) /\
  (forall i, Forall (fun f : bytes * Z => In (fst f) (cwire _ s)) (deliver_feeds s i)) /\
  (forall i w, nth_error (swire _ s) i = Some w ->
     exists body, framed w body /\
       let recs := snd (rdec_decode (dec_cur Fec.fecdec rdec_new (pB _ s)) body) in
       ((exists seqid dg, body = data_body seqid dg /\ In dg (cwire _ s) /\
           (deliver_feeds s i = [] \/
            deliver_feeds s i = (dg, c_IKCP_PACKET_REGULAR) :: flat_map rec_feed recs)) \/
        (is_parity_body body /\
           (deliver_feeds s i = [] \/ deliver_feeds s i = flat_map rec_feed recs)))).
Proof using laws nonces.
  intros Hi Hc Hrun Hnw Hfit. destruct (rs_configured_sound d p e0 s0 Hc) as (Hfe & Hsound).
  exact (pipe2_run_projects rs_enc K c nonce Fec.fecdec rdec_new rdec_decode laws nonces
           s0 evs s e0 Hi Hfe Hsound Hrun Hnw Hfit).
Qed.

Theorem pipe3_stream_prefix d p e0 s0 evs s :
  psys_init Fec.fecdec s0 -> rs_configured d p e0 s0 -> psys_run s0 evs s ->
  fec_no_wrap e0 (cwire _ s) -> fec_fits (cwire _ s) ->
  stream (pA _ s0) <> 0 -> no_wrap (sg_numbered (pgA _ s)) ->
  is_prefix (concat (rg_delivered (pgB _ s))) (concat (sg_accepted (pgA _ s))).
Proof using laws nonces.
  intros Hi Hc Hrun Hnw Hfit. destruct (rs_configured_sound d p e0 s0 Hc) as (Hfe & Hsound).
  exact (pipe2_stream_prefix rs_enc K c nonce Fec.fecdec rdec_new rdec_decode laws nonces
           s0 evs s e0 Hi Hfe Hsound Hrun Hnw Hfit).
Qed.

Theorem pipe3_message_prefix d p e0 s0 evs s :
  psys_init Fec.fecdec s0 -> rs_configured d p e0 s0 -> psys_run s0 evs s ->
  fec_no_wrap e0 (cwire _ s) -> fec_fits (cwire _ s) ->
  stream (pA _ s0) = 0 -> no_wrap (sg_numbered (pgA _ s)) ->
  is_prefix (rg_delivered (pgB _ s)) (sg_accepted (pgA _ s)).
Proof using laws nonces.
  intros Hi Hc Hrun Hnw Hfit. destruct (rs_configured_sound d p e0 s0 Hc) as (Hfe & Hsound).
  exact (pipe2_message_prefix rs_enc K c nonce Fec.fecdec rdec_new rdec_decode laws nonces
           s0 evs s e0 Hi Hfe Hsound Hrun Hnw Hfit).
Qed.

Theorem pipe3_run_safe d p e0 s0 evs s :
  psys_init Fec.fecdec s0 -> rs_configured d p e0 s0 -> psys_run s0 evs s ->
  fec_no_wrap e0 (cwire _ s) -> fec_fits (cwire _ s) ->
  inv (pA _ s) /\ inv (rx_core _ _ (pB _ s)).
Proof using laws nonces.
  intros Hi Hc Hrun Hnw Hfit. destruct (rs_configured_sound d p e0 s0 Hc) as (Hfe & Hsound).
  exact (pipe2_run_safe rs_enc K c nonce Fec.fecdec rdec_new rdec_decode laws nonces
           s0 evs s e0 Hi Hfe Hsound Hrun Hnw Hfit).
Qed.
End Final.
