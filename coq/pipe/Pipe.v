(* The two-SESSION system: writer session = ARQ core A + FEC stage + nonce/CRC/encrypt | AEAD,
   reader session = decrypt/verify + FEC demultiplexer + ARQ core B.  Definitions only.

   The writer's core is driven by arbitrary API calls; every datagram the core hands to its
   output callback goes through one iteration of postProcess (Frame.pp_step) - the FEC stage when
   an encoder is configured, then one fresh nonce per packet that leaves - and the resulting wire
   datagrams are appended to the session wire history `swire`.  The network is, as in Net.v, the
   set of all event lists: `PDeliver i` hands the i-th datagram of `swire` (any i, any number of
   times, any order, or never) to the reader's UDPSession.packetInput (Frame.packet_input),
   instantiated with Core := kcp and core_input := Kcp.input.  Everything the reader's core is
   fed therefore went through unframe and the FEC type demultiplexer.

   Abstract: the cryptographic primitives K, the cipher class c, the Reed-Solomon encoder
   rs_encode, the nonce stream `nonce` (fillRand: the i-th nonce ever drawn), and the FEC decoder
   (Dec, dec_new, dec_decode).  Their laws are hypotheses of the theorems, not of the model. *)
From Coq Require Import ZArith List Bool.
From KV.Base Require Import Consts Word.
From KV.Kcp Require Import Kcp Step Net.
From KV.Frame Require Import Wire Frame FrameProofs.   (* FrameProofs: run_bodies *)
Import ListNotations.
Local Open Scope Z_scope.

(* the laws of the configured cipher class (C09's premises; a class needs only its own):
   Decrypt inverts Encrypt and the CRC is a 32-bit value | Open inverts Seal *)
Definition cipher_laws (K : crypto) (c : cipher) : Prop :=
  match c with
  | CNone => True
  | CCrc => (forall b, k_dec K (k_enc K b) = b) /\ (forall b, 0 <= k_crc K b < W32)
  | CAead => (forall n p, k_open K n (k_seal K n p) = Some p)
  end.

(* ... and the length laws (Encrypt works in place | Seal appends Overhead() bytes).  The safety
   theorems do not need them: without them a genuine datagram may fail packetInput's length
   tests and be dropped, which is harmless; with them it never is. *)
Definition cipher_len_laws (K : crypto) (c : cipher) : Prop :=
  match c with
  | CNone => True
  | CCrc => forall b, blen (k_enc K b) = blen b
  | CAead => forall n p, blen (k_seal K n p) = blen p + k_ov K
  end.

Section Session.
Variable rs_encode : Z -> Z -> list bytes -> list bytes.
Variable K : crypto.
Variable c : cipher.
Variable nonce : nat -> bytes.              (* the i-th nonce fillRand produces *)
Variable Dec : Type.
Variable dec_new : Z -> Z -> Dec.
Variable dec_decode : Dec -> bytes -> Dec * list bytes.

(* fillRand fills exactly the nonce field of the class *)
Definition nonce_ok : Prop := forall i, blen (nonce i) = nonce_len K c.

Definition nonces_from (used n : nat) : list bytes := map nonce (seq used n).

(* KCP.Input(data, pktType, ackNoDelay) as the state transformer kcpInput uses: the return code
   is only counted (sess.go), the state after the call is kept whatever it is; Input cannot
   fault on a state satisfying inv (C05), the Panic branch is there for totality *)
Definition core_in (nd : bool) (now : Z) (k : kcp) (d : bytes) (ty : Z) : kcp :=
  match input k d (ty =? c_IKCP_PACKET_REGULAR) nd now with
  | Ok (k', _, _) => k'
  | Panic _ => k
  end.

Record psys := mkPsys {
  pA : kcp;                       (* writer core *)
  pfe : option fecenc;            (* writer FEC encoder; None = FEC off *)
  pnon : nat;                     (* nonces drawn so far *)
  pB : rxstate kcp Dec;           (* reader: core, FEC decoder (lazily created), OOB handler flag *)
  pgA : sender_ghost;             (* ghosts of Net.v *)
  pgB : receiver_ghost;
  swire : list bytes;             (* every datagram the writer SESSION handed to the socket *)
  cwire : list bytes              (* ghost: every datagram the writer CORE handed to output *)
}.

(* postProcess over the datagrams one core call emitted.  tm j = (clock, accepted wire MTU) in
   force when the j-th of them is processed; exactly one nonce is drawn per packet that leaves
   (the data packet and each parity packet), none when no cipher is configured. *)
Fixpoint pp_list (fe : option fecenc) (used : nat) (j : nat) (tm : nat -> Z * Z) (ds : list bytes)
  : option fecenc * nat * list bytes :=
  match ds with
  | [] => (fe, used, [])
  | d :: t =>
    let '(now, wmtu) := tm j in
    let r := mkReq d false in
    let npk := S (length (snd (stage1w rs_encode wmtu (aead_extra K c) fe r now))) in
    let ns := nonces_from used npk in
    let '(fe1, outs, rest) := pp_step rs_encode K c fe wmtu r now ns in
    let '(fe2, used2, l) := pp_list fe1 (used + (npk - length rest)) (S j) tm t in
    (fe2, used2, outs ++ l)
  end.

Inductive pev :=
| PA (o : op) (tm : nat -> Z * Z)          (* any API call on the writer's core *)
| PB (o : op)                              (* any API call on the reader's core except Input *)
| PDeliver (i : nat) (nd : bool) (now : Z). (* swire[i] arrives at the reader's packetInput *)

Definition pev_ok (s : psys) (e : pev) : Prop :=
  match e with
  | PA o _ => op_ok32 o
  | PB o => op_ok32 o /\ match o with OInput _ _ _ _ => False | _ => True end
  | PDeliver _ _ now => is_u32 now
  end.

Definition psys_step (s : psys) (e : pev) : option psys :=
  match e with
  | PA o tm =>
    match step (pA s) o with
    | Ok (k', x) =>
      let '(fe', used', outs) := pp_list (pfe s) (pnon s) 0 tm (o_dgrams x) in
      Some (mkPsys k' fe' used' (pB s) (ghost_sender (pgA s) (pA s) o k' x) (pgB s)
                   (swire s ++ outs) (cwire s ++ o_dgrams x))
    | Panic _ => None
    end
  | PB o =>
    match step (rx_core _ _ (pB s)) o with
    | Ok (k', x) =>
      Some (mkPsys (pA s) (pfe s) (pnon s)
                   (mkRx _ _ k' (rx_dec _ _ (pB s)) (rx_handler _ _ (pB s)))
                   (pgA s) (ghost_receiver (pgB s) o x) (swire s) (cwire s))
    | Panic _ => None
    end
  | PDeliver i nd now =>
    match nth_error (swire s) i with
    | Some w =>
      let st' := fst (packet_input K kcp Dec (core_in nd now) dec_new dec_decode c (pB s) w) in
      Some (mkPsys (pA s) (pfe s) (pnon s) st' (pgA s) (pgB s) (swire s) (cwire s))
    | None => None
    end
  end.

Inductive psys_run : psys -> list pev -> psys -> Prop :=
| prun_nil : forall s, psys_run s [] s
| prun_cons : forall s e s1 t s2,
    pev_ok s e -> psys_step s e = Some s1 -> psys_run s1 t s2 -> psys_run s (e :: t) s2.

(* ---- projection to the two-core system of Net.v ---- *)
Definition proj (s : psys) : sys :=
  mkSys (pA s) (rx_core _ _ (pB s)) (pgA s) (pgB s) (cwire s).

(* initial: the two cores as in Net.sys_init, nothing on either wire yet; the encoder, the
   nonce counter, the decoder and the handler flag are arbitrary *)
Definition psys_init (s : psys) : Prop := sys_init (proj s) /\ swire s = [].

(* What a delivered datagram makes packetInput feed to the core, in order, as (bytes, pktType):
   packet_input run with a core that only logs its inputs (same decoder, same handler). *)
Definition log_input (l : list (bytes * Z)) (d : bytes) (ty : Z) : list (bytes * Z) := l ++ [(d, ty)].

Definition input_feeds (st : rxstate kcp Dec) (w : bytes) : list (bytes * Z) :=
  rx_core _ _ (fst (packet_input K (list (bytes * Z)) Dec log_input dec_new dec_decode c
                      (mkRx _ _ [] (rx_dec _ _ st) (rx_handler _ _ st)) w)).

Definition deliver_feeds (s : psys) (i : nat) : list (bytes * Z) :=
  match nth_error (swire s) i with
  | Some w => input_feeds (pB s) w
  | None => []
  end.

Definition feed_ev (nd : bool) (now : Z) (f : bytes * Z) : ev :=
  EB (OInput (fst f) (snd f =? c_IKCP_PACKET_REGULAR) nd now).

(* the Net.v events one session event stands for *)
Definition proj_ev (s : psys) (e : pev) : list ev :=
  match e with
  | PA o _ => [EA o]
  | PB o => [EB o]
  | PDeliver i nd now => map (feed_ev nd now) (deliver_feeds s i)
  end.

Fixpoint proj_evs (s : psys) (evs : list pev) : list ev :=
  match evs with
  | [] => []
  | e :: t => proj_ev s e ++ match psys_step s e with Some s1 => proj_evs s1 t | None => [] end
  end.

(* a wire datagram is a core datagram framed with a nonce of the right size *)
Definition framed (w d : bytes) : Prop :=
  exists n, blen n = nonce_len K c /\ w = frame K c n d.

End Session.

(* ================================================================ FEC on: the decoder hypothesis *)
(* what feed_recovered hands to the core for a recovered shard r, if anything: r[2:sz] *)
Definition rec_payload (r : bytes) : option bytes :=
  if 2 <=? blen r then
    let sz := rd16 r in
    if (sz <=? blen r) && (2 <=? sz) then Some (zdrop 2 (ztake sz r)) else None
  else None.

Definition rec_feed (r : bytes) : list (bytes * Z) :=
  match rec_payload r with Some p => [(p, c_IKCP_PACKET_FEC)] | None => [] end.

(* the two kinds of packet body the FEC stage produces for data requests *)
Definition data_body (seqid : Z) (payload : bytes) : bytes :=
  fec_hdr seqid c_typeData ++ size_prefixed payload.
Definition is_parity_body (b : bytes) : Prop :=
  exists seqid par, b = fec_hdr seqid c_typeParity ++ par.

(* a post-processing history: (request, clock, accepted wire MTU) per core datagram *)
Definition hist_payloads (hist : list (req * Z * Z)) : list bytes :=
  map (fun x => rq_payload (fst (fst x))) hist.
Definition hist_data (hist : list (req * Z * Z)) : Prop :=
  Forall (fun x : req * Z * Z => rq_oob (fst (fst x)) = false) hist.

(* The encoder's id counter does not wrap during the connection: n datagrams consume at most
   n (1 + parityShards) ids.  (After a wrap a replayed packet of the previous cycle cannot be
   told from a packet of the current group with the same id - the FEC analogue of no_wrap.) *)
Definition fec_no_wrap (e0 : fecenc) (cw : list bytes) : Prop :=
  0 <= fe_p e0 /\ fe_next e0 + Z.of_nat (length cw) * (1 + fe_p e0) < fe_paws e0.

(* The session sizes the core's MTU so that a data packet still fits the pool buffers
   (UDPSession.SetMtu: core mtu = min(mtuLimit, mtu) - headerSize, headerSize including the
   fecHeaderSizePlus2 bytes; frame engine: session_size).  Here: a premise on the datagrams the
   writer's core emitted, like no_wrap.  fec_payload_ok = the FEC engine's payload_ok. *)
Definition fec_fits (cw : list bytes) : Prop :=
  Forall (fun d => blen d + c_fecHeaderSizePlus2 <= c_mtuLimit) cw.
Definition fec_payload_ok (p : bytes) : Prop :=
  blen p + c_fecHeaderSizePlus2 <= c_mtuLimit /\ bytes_ok p.

Section DecoderHyp.
Variable rs_encode : Z -> Z -> list bytes -> list bytes.
Variable K : crypto.
Variable c : cipher.
Variable Dec : Type.
Variable dec_new : Z -> Z -> Dec.
Variable dec_decode : Dec -> bytes -> Dec * list bytes.

(* the decoder kcpInput uses: the session's, or the lazily created newFECDecoder(1, 1) *)
Definition dec_cur (st : rxstate kcp Dec) : Dec :=
  match rx_dec _ _ st with Some d => d | None => dec_new 1 1 end.

Fixpoint dec_after (d : Dec) (h : list bytes) : Dec :=
  match h with
  | [] => d
  | b :: t => dec_after (fst (dec_decode d b)) t
  end.

(* ONLY ORIGINALS, in the vocabulary of the frame engine.  e0 = the writer's encoder and d0 = the
   reader's decoder when the connection starts.  For every history of data requests (payloads:
   byte strings that fit) the encoder has processed without wrapping its id counter, and every sequence h ++ [b] of packet
   bodies it produced for them (data or parity; any order, any repetition; each at least
   min_pkt long, as packetInput guarantees) fed to the decoder: every shard r the last decode
   returns, stripped as feed_recovered strips it, is the payload of one of the requests.
   Discharged in the fec engine by c07_only_originals_rs (every returned packet is the zero
   padded image of an original data packet of the group, which the session strips to that
   payload exactly) + c07_encoder_layout (the encoder's packets are the `genuine` packets that
   theorem quantifies over) + c07_mds_rs_all, for d0 = newFECDecoder(d, p) matching e0. *)
Definition dec_sound (e0 : fecenc) (d0 : Dec) : Prop :=
  forall (hist : list (req * Z * Z)) (h : list bytes) (b : bytes),
    hist_data hist -> fec_no_wrap e0 (hist_payloads hist) ->
    Forall fec_payload_ok (hist_payloads hist) ->
    let bodies := run_bodies (snd (stage1w_run rs_encode (aead_extra K c) (Some e0) hist)) in
    Forall (fun x => In x bodies /\ min_pkt <= blen x) (h ++ [b]) ->
    forall r p, In r (snd (dec_decode (dec_after d0 h) b)) -> rec_payload r = Some p ->
      In p (hist_payloads hist).
End DecoderHyp.
