(* Non-vacuity of the FEC-on theorems: a 1+1 configuration (the parity packet of a group is a
   copy of the size-prefixed data packet) with a decoder that really recovers - it returns the
   payload of every parity packet it sees.  The decoder hypothesis dec_sound is PROVED for it,
   and in the run below the data packet is lost: the message reaches the reader through the
   parity packet alone, as an IKCP_PACKET_FEC input. *)
From Coq Require Import ZArith List Bool Lia.
From KV.Base Require Import Consts Word WordLemmas.
From KV.Kcp Require Import Kcp Step Net InvAll NetAll NetExample.
From KV.Frame Require Import Wire Frame WireProofs FrameProofs.
From KV.Pipe Require Import Pipe PipeProofs PipeExample PipeFec.
Import ListNotations.
Local Open Scope Z_scope.

Ltac Zify.zify_post_hook ::= idtac.

Definition exq_rs (d p : Z) (shards : list bytes) : list bytes := shards.
Definition exq_e0 : fecenc := mkFecenc 1 1 2 4294967294 0 0 0 20 26 [] 0.
Definition exq_dec_new (d p : Z) : unit := tt.
Definition exq_dec_decode (d : unit) (pkt : bytes) : unit * list bytes :=
  (d, if rd16 (skipn 4 pkt) =? c_typeParity then [skipn 6 pkt] else []).

Lemma exq_e0_new : sess_fec_new exp_K CCrc 1 1 = Some exq_e0.
Proof. reflexivity. Qed.

(* between two groups of a d = 1 encoder *)
Definition enc1 (e : fecenc) : Prop :=
  fe_d e = 1 /\ fe_count e = 0 /\ fe_cache e = [] /\ fe_maxsize e = 0 /\ 0 <= fe_poff e.

Definition copy_parity (x b : bytes) : Prop :=
  exists sq pad, b = fec_hdr sq c_typeParity ++ size_prefixed x ++ pad.

Lemma exq_fec_encode e x now rto : enc1 e ->
  enc1 (fst (fst (fec_encode exq_rs e x now rto))) /\
  Forall (copy_parity x) (snd (fec_encode exq_rs e x now rto)).
Proof.
  intros (Hd & Hc & Hca & Hm & Hp). unfold fec_encode.
  replace (fe_count e + 1 =? fe_d e) with true by (rewrite Hc, Hd; reflexivity).
  rewrite Hca. cbn [app map].
  destruct (now - fe_ts e <? rto).
  - unfold exq_rs. cbn [seal_parities fst snd].
    split; [unfold enc1, fe_set; cbn; auto|].
    constructor; [|constructor]. eexists _, _. unfold pad_to. reflexivity.
  - cbn [fst snd]. split; [unfold enc1, fe_set; cbn; auto|constructor].
Qed.

Lemma exq_stage1w wire ov e r now : rq_oob r = false -> enc1 e ->
  exists e1 ps,
    stage1w exq_rs wire ov (Some e) r now = (Some e1, data_body (fe_next e) (rq_payload r), ps) /\
    enc1 e1 /\ Forall (copy_parity (rq_payload r)) ps.
Proof.
  intros Ho He. unfold stage1w, stage1. rewrite Ho.
  pose proof (fec_encode_pkt exq_rs e (rq_payload r) now c_maxFECEncodeLatency) as Hb.
  destruct (exq_fec_encode e (rq_payload r) now c_maxFECEncodeLatency He) as (He1 & Hp).
  destruct (fec_encode exq_rs e (rq_payload r) now c_maxFECEncodeLatency) as [[e1 b] ps].
  cbn [fst snd] in Hb, He1, Hp. subst b.
  exists e1, (drop_long_parity wire ov (fe_hoff e) ps). split; [reflexivity|]. split; [exact He1|].
  unfold drop_long_parity. destruct ps as [|p0 ps]; [constructor|].
  destruct ((0 <? wire) && (wire - ov <? fe_hoff e + Wire.blen p0)); [constructor|exact Hp].
Qed.

(* every parity-typed body of a run carries a copy of one of the payloads *)
Lemma exq_bodies ov hist : forall e, enc1 e -> hist_data hist ->
  Forall (fun b => rd16 (skipn 4 b) = c_typeParity -> exists x, In x (hist_payloads hist) /\ copy_parity x b)
         (run_bodies (snd (stage1w_run exq_rs ov (Some e) hist))).
Proof.
  induction hist as [|[[r now] wire] hist IH]; intros e He Hd; [constructor|].
  inversion Hd as [|? ? Hr Hd']; subst. cbn [fst] in Hr.
  destruct (exq_stage1w wire ov e r now Hr He) as (e1 & ps & E & He1 & Hps).
  cbn [stage1w_run]. rewrite E. specialize (IH e1 He1 Hd').
  destruct (stage1w_run exq_rs ov (Some e1) hist) as [fe2 l]. cbn [snd] in *.
  unfold run_bodies. cbn [map concat fst snd]. fold (run_bodies l).
  unfold hist_payloads. cbn [map fst]. fold (hist_payloads hist).
  constructor.
  - rewrite data_body_flag. unfold c_typeData, c_typeParity. discriminate.
  - apply Forall_app. split.
    + eapply Forall_impl; [|exact Hps]. intros b Hb _. exists (rq_payload r). split; [left; reflexivity|exact Hb].
    + eapply Forall_impl; [|exact IH]. intros b Hb Hf. destruct (Hb Hf) as (x & Hx & Hc).
      exists x. split; [right; exact Hx|exact Hc].
Qed.

Lemma rec_payload_copy x pad : Wire.blen x + 2 < 65536 ->
  rec_payload (size_prefixed x ++ pad) = Some x.
Proof.
  intros Hx. pose proof (blen_nonneg x) as H0. pose proof (blen_nonneg pad) as H1.
  unfold rec_payload, size_prefixed. rewrite <- app_assoc.
  rewrite rd16_le16 by (unfold u16; rewrite Z.mod_small; lia).
  unfold u16. rewrite Z.mod_small by lia.
  rewrite !blen_app, blen_le16.
  destruct (2 <=? 2 + (Wire.blen x + Wire.blen pad)) eqn:E1; [|apply Z.leb_gt in E1; lia].
  destruct (Wire.blen x + 2 <=? 2 + (Wire.blen x + Wire.blen pad)) eqn:E2; [|apply Z.leb_gt in E2; lia].
  destruct (2 <=? Wire.blen x + 2) eqn:E3; [|apply Z.leb_gt in E3; lia].
  cbn [andb]. rewrite app_assoc.
  rewrite (ztake_app_len (Wire.blen x + 2) (le16 (Wire.blen x + 2) ++ x) pad)
    by (rewrite blen_app, blen_le16; lia).
  rewrite zdrop_app_len by reflexivity. reflexivity.
Qed.

Theorem exq_dec_sound : dec_sound exq_rs exp_K CCrc unit exq_dec_decode exq_e0 tt.
Proof.
  intros hist h b Hd _ Hok bodies Hall r p Hr Hp.
  apply Forall_app in Hall as [_ Hb]. inversion Hb as [|? ? [Hin _] _]; subst.
  unfold exq_dec_decode in Hr. cbn [snd] in Hr.
  destruct (rd16 (skipn 4 b) =? c_typeParity) eqn:Ef; [|destruct Hr].
  destruct Hr as [<-|[]]. apply Z.eqb_eq in Ef.
  assert (He : enc1 exq_e0) by (unfold enc1, exq_e0; repeat (split; [reflexivity|]); cbn; lia).
  pose proof (exq_bodies (aead_extra exp_K CCrc) hist exq_e0 He Hd) as Hcl.
  rewrite Forall_forall in Hcl. destruct (Hcl b Hin Ef) as (x & Hx & sq & pad & ->).
  unfold fec_hdr in Hp. rewrite <- app_assoc in Hp. rewrite skipn6_hdr in Hp.
  rewrite Forall_forall in Hok. destruct (Hok x Hx) as [Hfit _].
  rewrite rec_payload_copy in Hp by (unfold c_fecHeaderSizePlus2, c_mtuLimit in Hfit; lia).
  injection Hp as <-. exact Hx.
Qed.

(* ---------------------------------------------------------------- the run *)
Definition exq_s0 : psys unit :=
  mkPsys unit ex_k (Some exq_e0) 0 (mkRx _ _ ex_k None false) (mkSG 0 [] []) (mkRG 0 []) [] [].

Definition exq_events : list pev :=
  [ PA (OSend [1; 2; 3]) exp_tm;
    PA (OFlush true 1000) exp_tm;      (* one core datagram -> data packet swire[0], parity packet swire[1] *)
    PDeliver 1 false 1001;             (* only the parity packet arrives *)
    PB (ORecv 100) ].

Definition exq_step := psys_step exq_rs exp_K CCrc exp_nonce unit exq_dec_new exq_dec_decode.

Definition exq_final : psys unit :=
  fold_left (fun s e => match exq_step s e with Some s1 => s1 | None => s end) exq_events exq_s0.

(* the state in which the parity packet is delivered *)
Definition exq_mid : psys unit :=
  fold_left (fun s e => match exq_step s e with Some s1 => s1 | None => s end) (firstn 2 exq_events) exq_s0.

Lemma exq_init : psys_init unit exq_s0.
Proof. split; [exact ex_init|reflexivity]. Qed.

Lemma pipe_fec_example :
  exists s0 evs s,
    cipher_laws exp_K CCrc /\ nonce_ok exp_K CCrc exp_nonce /\
    psys_init unit s0 /\ pfe _ s0 = Some exq_e0 /\ sess_fec_new exp_K CCrc 1 1 = Some exq_e0 /\
    dec_sound exq_rs exp_K CCrc unit exq_dec_decode exq_e0 (dec_cur unit exq_dec_new (pB _ s0)) /\
    psys_run exq_rs exp_K CCrc exp_nonce unit exq_dec_new exq_dec_decode s0 evs s /\
    fec_no_wrap exq_e0 (cwire _ s) /\ fec_fits (cwire _ s) /\
    stream (pA _ s0) = 0 /\ no_wrap (sg_numbered (pgA _ s)) /\
    evs = [PA (OSend [1; 2; 3]) exp_tm; PA (OFlush true 1000) exp_tm; PDeliver 1 false 1001; PB (ORecv 100)] /\
    length (cwire _ s) = 1%nat /\ length (swire _ s) = 2%nat /\
    (* the only datagram that reached the reader was a parity packet: one FEC-recovered input *)
    deliver_feeds exp_K CCrc unit exq_dec_new exq_dec_decode exq_mid 1 = [(nth 0 (cwire _ s) [], c_IKCP_PACKET_FEC)] /\
    sg_accepted (pgA _ s) = [[1; 2; 3]] /\ rg_delivered (pgB _ s) = [[1; 2; 3]].
Proof.
  exists exq_s0, exq_events, exq_final.
  split; [exact exp_laws|]. split; [exact exp_nonce_ok|]. split; [exact exq_init|]. split; [reflexivity|].
  split; [reflexivity|]. split; [exact exq_dec_sound|].
  split.
  - let f := eval vm_compute in exq_final in change exq_final with f.
    unfold exq_events.
    eapply prun_cons; [split; [apply bytes_dec_ok; vm_compute; reflexivity|exact I] | vm_compute; reflexivity |].
    eapply prun_cons; [split; [exact I|unfold is_u32, W32; lia] | vm_compute; reflexivity |].
    eapply prun_cons; [unfold pev_ok, is_u32, W32; lia | vm_compute; reflexivity |].
    eapply prun_cons; [split; [split; exact I|exact I] | vm_compute; reflexivity |].
    apply prun_nil.
  - split; [vm_compute; split; [discriminate|reflexivity]|].
    split; [vm_compute; repeat constructor; discriminate|].
    split; [reflexivity|]. split; [vm_compute; reflexivity|]. split; [reflexivity|].
    split; [vm_compute; reflexivity|]. split; [vm_compute; reflexivity|].
    split; [vm_compute; reflexivity|]. split; vm_compute; reflexivity.
Qed.
