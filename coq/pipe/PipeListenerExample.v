(* Non-vacuity of Stage 4: one listener, two remote addresses.  The writer session A (conv 7,
   nonce + CRC + cipher, FEC off) sends one message; its one wire datagram arrives from address
   1.  From address 2 somebody who knows the key sends a valid-looking datagram of the SAME
   conversation (a PUSH with sn 0 carrying [9;9;9]) - before and after.  The listener ends up
   with two sessions of conv 7; the one at address 1 was fed A's core datagram only, and the
   application reads [1;2;3] from it; the forgery went to the session at address 2. *)
From Coq Require Import ZArith List Bool Lia.
From KV.Base Require Import Consts Word WordLemmas.
From KV.Kcp Require Import Kcp Step Net InvAll NetAll NetExample.
From KV.Frame Require Import Wire Frame.
From KV.Listener Require Listener.
From KV.Pipe Require Import Pipe PipeProofs PipeExample PipeLDefs PipeListener.
Import ListNotations.
Local Open Scope Z_scope.

Definition exl_mk_rx (cv : Z) (a : Z) : rxstate kcp unit :=
  mkRx kcp unit (set_nodelay (kcp_new cv) 1 10 2 1) None false.
Definition exl_g0 : receiver_ghost := mkRG 0 [].
Definition exl_clk (a : Z) (n : nat) : bool * Z := (false, 1001).
(* the application reads from the session at address 1 right after its first datagram *)
Definition exl_sched (a : Z) (n : nat) : list op :=
  if (a =? 1) && Nat.eqb n 0 then [ORecv 100] else [].

(* the writer: Send [1;2;3], flush *)
Definition exl_wevs : list pev := firstn 2 exp_events.
Definition exl_wA : psys unit :=
  fold_left (fun s e => match exp_step s e with Some s1 => s1 | None => s end) exl_wevs exp_s0.
Definition exl_w : bytes := nth 0 (swire _ exl_wA) [].

Definition exl_forged : bytes :=
  frame exp_K CCrc (repeat 7 16)
        (Kcp.encode_seg (mkSeg 7 c_IKCP_CMD_PUSH 0 32 0 0 0 0 0 0 0 0 [9; 9; 9])).

Definition exl_evs : list (Listener.event (addr := Z)) :=
  [ Listener.EvPacket exl_forged 2; Listener.EvPacket exl_w 1; Listener.EvPacket exl_forged 2 ].

Definition exl_new := PipeLDefs.l_new unit Z exl_mk_rx exl_g0.
Definition exl_input := PipeLDefs.l_input unit exp_dec_new exp_dec_decode Z exl_clk exl_sched.
Definition exl_conv := PipeLDefs.l_conv unit Z.
Definition exl_gate := PipeLDefs.l_gate exp_K CCrc.
Definition exl_final := Listener.run Z.eqb exl_new exl_input exl_conv exl_gate Listener.l_empty exl_evs.

(* normal forms, computed once (the kernel checks the equations with the VM) *)
Definition exl_wA_nf : psys unit := Eval vm_compute in exl_wA.
Lemma exl_wA_eq : exl_wA = exl_wA_nf.
Proof. vm_compute. reflexivity. Qed.
Definition exl_final_nf := Eval vm_compute in exl_final.
Lemma exl_final_eq : exl_final = exl_final_nf.
Proof. vm_compute. reflexivity. Qed.

Lemma exl_env : env_ok Z exl_clk exl_sched.
Proof.
  split; [intros a n; unfold exl_clk, is_u32, W32; cbn; lia|].
  intros a n. unfold exl_sched. destruct ((a =? 1) && Nat.eqb n 0); [|constructor].
  constructor; [|constructor]. split; [split; exact I|exact I].
Qed.

Lemma exl_wrun : psys_run exp_rs exp_K CCrc exp_nonce unit exp_dec_new exp_dec_decode exp_s0 exl_wevs exl_wA.
Proof.
  rewrite exl_wA_eq. unfold exl_wA_nf.
  unfold exl_wevs, exp_events. cbn [firstn].
  eapply prun_cons; [split; [apply bytes_dec_ok; vm_compute; reflexivity|exact I] | vm_compute; reflexivity |].
  eapply prun_cons; [split; [exact I|unfold is_u32, W32; lia] | vm_compute; reflexivity |].
  apply prun_nil.
Qed.

Lemma pipe_listener_example :
  env_ok Z exl_clk exl_sched /\ cipher_laws exp_K CCrc /\ nonce_ok exp_K CCrc exp_nonce /\
  (forall cv a, conv (rx_core _ _ (exl_mk_rx cv a)) = cv) /\
  psys_run exp_rs exp_K CCrc exp_nonce unit exp_dec_new exp_dec_decode exp_s0 exl_wevs exl_wA /\
  pfe _ exp_s0 = None /\ psys_init unit (with_reader exp_s0 (exl_mk_rx 7 1) exl_g0) /\
  length (swire _ exl_wA) = 1%nat /\
  (forall raw, In (Listener.EvPacket raw 1) exl_evs -> In raw (swire _ exl_wA)) /\
  exl_gate exl_forged <> None /\ ~ In exl_forged (swire _ exl_wA) /\
  exists e1 e2,
    Listener.lookup Z.eqb 1 (Listener.sessions exl_final) = Some e1 /\
    Listener.lookup Z.eqb 2 (Listener.sessions exl_final) = Some e2 /\
    exl_conv (Listener.e_sess e1) = 7 /\ exl_conv (Listener.e_sess e2) = 7 /\
    (* the session at address 1: fed A's core datagram, once, then read *)
    PipeLDefs.lacts unit exp_dec_new exp_dec_decode Z exl_clk exl_sched None false 1 0
      (match exl_gate exl_w with Some d => [d] | None => [] end)
      = [AFeed (nth 0 (cwire _ exl_wA) [], c_IKCP_PACKET_REGULAR) false 1001; AOp (ORecv 100)] /\
    ls_n _ _ (Listener.e_sess e1) = 1%nat /\
    rg_delivered (ls_g _ _ (Listener.e_sess e1)) = [[1; 2; 3]] /\
    (* the forgeries went to the session at address 2, which nobody reads *)
    ls_n _ _ (Listener.e_sess e2) = 2%nat /\ rg_delivered (ls_g _ _ (Listener.e_sess e2)) = [].
Proof.
  split; [exact exl_env|]. split; [exact exp_laws|]. split; [exact exp_nonce_ok|].
  split; [intros cv a; reflexivity|]. split; [exact exl_wrun|]. split; [reflexivity|].
  split; [exact exp_init|]. split; [vm_compute; reflexivity|].
  split.
  { intros raw Hin. unfold exl_evs in Hin. cbn [In] in Hin.
    pose (ea := fun ev : Listener.event (addr := Z) => match ev with Listener.EvPacket _ a => a | _ => 0 end).
    pose (er := fun ev : Listener.event (addr := Z) => match ev with Listener.EvPacket r _ => r | _ => [] end).
    destruct Hin as [H|[H|[H|[]]]]; [apply (f_equal ea) in H; discriminate H| |apply (f_equal ea) in H; discriminate H].
    apply (f_equal er) in H. cbn [er] in H. rewrite <- H.
    unfold exl_w. apply nth_In. rewrite exl_wA_eq. vm_compute. lia. }
  split; [vm_compute; discriminate|].
  split; [vm_compute; intros [H|[]]; discriminate|].
  rewrite exl_final_eq. unfold exl_final_nf.
  eexists _, _. split; [vm_compute; reflexivity|]. split; [vm_compute; reflexivity|].
  repeat (split; [vm_compute; reflexivity|]). vm_compute; reflexivity.
Qed.
