(* Stage 4: C11 (the listener demultiplexer, coq/listener) composed with the pipe theorems.
   The listener theorems are parametric in the session type; here the session is the pipe's
   reader (Frame.rxstate over the ARQ core, fed through Frame.kcp_input), the gate is
   Frame.unframe.  A session accepted by the listener at address a has been fed EXACTLY the
   payloads of the datagrams that came from a; if those datagrams are members of the wire
   history of a writer session A (dropped / duplicated / reordered / delayed at will; anybody
   may send anything from other addresses), every input its core received is a datagram core A
   emitted, and what the application reads from it is a prefix of what A's Send accepted. *)
From Coq Require Import ZArith List Bool Lia.
From KV.Base Require Import Consts Word WordLemmas.
From KV.Kcp Require Import Kcp Step Net InvAll InvFlushBase InvFlush NetAll.
From KV.Frame Require Import Wire Frame WireProofs FrameProofs.
From KV.Listener Require Listener TableLemmas ListenerProofs C11Lemmas.
From KV.Pipe Require Import Pipe PipeProofs PipeFec PipeLDefs.
Import ListNotations.
Local Open Scope Z_scope.

Ltac Zify.zify_post_hook ::= idtac.

(* ================================================================ kcp.conv is never written *)
(* (unconditionally: for any state and any argument, also where a call would fault) *)
Lemma conv_parse_una k una : conv (fst (parse_una k una)) = conv k.
Proof. unfold parse_una. destruct (una_walk una (snd_buf k)). reflexivity. Qed.

Lemma conv_shrink_buf k : conv (shrink_buf k) = conv k.
Proof. unfold shrink_buf. cbv zeta. destruct (snd_buf (set_snd_buf k (drop_acked (snd_buf k)))); reflexivity. Qed.

Lemma conv_parse_ack k sn : conv (parse_ack k sn) = conv k.
Proof. unfold parse_ack. destruct (_ || _); reflexivity. Qed.

Lemma conv_parse_fastack k sn ts : conv (fst (parse_fastack k sn ts)) = conv k.
Proof. unfold parse_fastack. destruct (_ || _); [reflexivity|]. destruct (fastack_walk _ _ _ _). reflexivity. Qed.

Lemma conv_do_move_ready k : conv (do_move_ready k) = conv k.
Proof. unfold do_move_ready. destruct (move_ready _ _ _ _) as [[rb rq] rn]. reflexivity. Qed.

Lemma conv_parse_data k s k' b : parse_data k s = Ok (k', b) -> conv k' = conv k.
Proof.
  unfold parse_data. destruct (_ || _); [intros H; inversion H; reflexivity|].
  destruct (has_sn _ _); [intros H; inversion H; apply conv_do_move_ready|].
  destruct (_ >? _); [discriminate|]. intros H; inversion H. rewrite conv_do_move_ready. reflexivity.
Qed.

Lemma conv_input_seg a data regular a' rest :
  input_seg a data regular = inl (Ok (a', rest)) -> conv (i_k a') = conv (i_k a).
Proof.
  unfold input_seg. cbv zeta.
  destruct (negb _); [discriminate|]. destruct (_ || _); [discriminate|]. destruct (negb _); [discriminate|].
  set (k0 := if regular then set_rmt_wnd (i_k a) (rd16 (skipn 6 data)) else i_k a).
  assert (H0 : conv k0 = conv (i_k a)) by (unfold k0; destruct regular; reflexivity).
  pose proof (conv_parse_una k0 (rd32 (skipn 16 data))) as H1.
  destruct (parse_una k0 (rd32 (skipn 16 data))) as [k1 cnt]. cbn [fst] in H1.
  pose proof (conv_shrink_buf k1) as H2. set (k2 := shrink_buf k1) in *.
  destruct (nth 4 data 0 =? c_IKCP_CMD_ACK).
  - pose proof (conv_parse_ack k2 (rd32 (skipn 12 data))) as H3.
    pose proof (conv_parse_fastack (parse_ack k2 (rd32 (skipn 12 data))) (rd32 (skipn 12 data)) (rd32 (skipn 8 data))) as H4.
    destruct (parse_fastack _ _ _) as [k4 f]. cbn [fst] in H4.
    intros H; inversion H; subst. cbn [i_k]. rewrite conv_shrink_buf. congruence.
  - destruct (nth 4 data 0 =? c_IKCP_CMD_PUSH).
    + destruct (itimediff _ _ <? 0); [|intros H; inversion H; subst; cbn [i_k]; congruence].
      destruct (itimediff _ _ >=? 0).
      * destruct (parse_data _ _) as [[k5 b]|w] eqn:Ep; [|discriminate].
        apply conv_parse_data in Ep. intros H; inversion H; subst. cbn [i_k].
        rewrite Ep. cbn [conv set_acklist]. congruence.
      * intros H; inversion H; subst. cbn [i_k conv set_acklist]. congruence.
    + destruct (nth 4 data 0 =? c_IKCP_CMD_WASK); intros H; inversion H; subst; cbn [i_k]; [|congruence].
      cbn [conv set_probe_flags set_probe]. congruence.
Qed.

Lemma conv_input_loop fuel : forall a data regular a' e,
  input_loop fuel a data regular = Ok (a', e) -> conv (i_k a') = conv (i_k a).
Proof.
  induction fuel as [|f IH]; intros a data regular a' e H; cbn [input_loop] in H.
  - inversion H; reflexivity.
  - destruct (Kcp.blen data <? c_IKCP_OVERHEAD); [inversion H; reflexivity|].
    destruct (input_seg a data regular) as [[[a1 rest]|w]|code] eqn:Es.
    + apply conv_input_seg in Es. apply IH in H. congruence.
    + discriminate.
    + inversion H; reflexivity.
Qed.

Lemma conv_update_ack k rtt : conv (update_ack k rtt) = conv k.
Proof.
  unfold update_ack. destruct (rx_srtt k =? 0); [reflexivity|]. cbv zeta.
  destruct (rtt <? _); reflexivity.
Qed.

Lemma conv_input_cwnd k una0 : conv (input_cwnd k una0) = conv k.
Proof.
  unfold input_cwnd. destruct (_ && _); [|reflexivity]. cbv zeta.
  destruct (cwnd k <? ssthresh k).
  - destruct (_ >? _); reflexivity.
  - destruct (_ <=? _); destruct (_ >? _); reflexivity.
Qed.

Lemma conv_input_pre k d regular nd now k' r fr :
  input_pre k d regular nd now = Ok (k', r, fr) -> conv k' = conv k.
Proof.
  unfold input_pre. cbv zeta. destruct (Kcp.blen d <? c_IKCP_OVERHEAD); [intros H; inversion H; reflexivity|].
  destruct (input_loop _ _ _ _) as [[a e]|w] eqn:El; [|discriminate].
  apply conv_input_loop in El. cbn [i_k] in El.
  destruct e as [|code]; [|intros H; inversion H; subst; exact El].
  match goal with |- context [input_cwnd ?x _] => set (k1 := x) end.
  assert (H1 : conv k1 = conv k) by (unfold k1; destruct (_ && _); [rewrite conv_update_ack|]; exact El).
  pose proof (conv_input_cwnd k1 (snd_una k)) as H2.
  repeat match goal with |- (if ?b then _ else _) = _ -> _ => destruct b end;
    intros H; injection H as <- _ _; rewrite H2; exact H1.
Qed.

Lemma conv_flush k ft now k' nx o : flush k ft now = Ok (k', nx, o) -> conv k' = conv k.
Proof.
  intros H. destruct (fl_invert _ _ _ _ _ _ H)
    as (h1 & st1 & k1 & st2 & st3 & sq & sb & nxt & ns & sb' & a & E1 & _ & _ & _ & _ & Ek & _).
  destruct (fl_ph1_shape _ _ _ _ _ E1) as (al & -> & _).
  destruct (fl_final_shape k al now sq sb nxt sb' a
              (fl_cw (set_probe_flags (fl_ph2 (set_acklist k al) now) 0))
              (fl_resent (fl_k4 (set_probe_flags (fl_ph2 (set_acklist k al) now) 0) sq sb nxt)))
    as (p & tsp & pw & st & sst & cwn & inc & _ & E6 & _).
  rewrite Ek, E6. reflexivity.
Qed.

Lemma conv_input k d regular nd now k' r o : input k d regular nd now = Ok (k', r, o) -> conv k' = conv k.
Proof.
  unfold input. destruct (input_pre k d regular nd now) as [[[k1 code] fr]|w] eqn:Ep; [|discriminate].
  apply conv_input_pre in Ep.
  destruct fr.
  - intros H; inversion H; subst. exact Ep.
  - destruct (flush k1 _ now) as [[[k2 nx] o2]|w] eqn:Ef; [|discriminate].
    apply conv_flush in Ef. intros H; inversion H; subst. congruence.
  - destruct (flush k1 _ now) as [[[k2 nx] o2]|w] eqn:Ef; [|discriminate].
    apply conv_flush in Ef. intros H; inversion H; subst. congruence.
Qed.

Lemma conv_core_in nd now k d ty : conv (core_in nd now k d ty) = conv k.
Proof.
  unfold core_in. destruct (input k d (ty =? c_IKCP_PACKET_REGULAR) nd now) as [[[k' r] o]|w] eqn:E; [|reflexivity].
  eapply conv_input. exact E.
Qed.

Lemma conv_send k b k' r : send k b = Ok (k', r) -> conv k' = conv k.
Proof.
  unfold send. destruct (Kcp.blen b =? 0); [intros H; inversion H; reflexivity|]. cbv zeta.
  destruct (if stream k =? 0 then Ok (Some (snd_queue k, b)) else stream_append k b) as [[[q1 b1]|]|w];
    [|intros H; inversion H; reflexivity|discriminate].
  destruct (_ && _); [intros H; inversion H; reflexivity|].
  destruct (_ >? 255); [intros H; inversion H; reflexivity|].
  destruct (fragment _ _ _ _ _ _) as [segs|w]; [|discriminate]. intros H; inversion H; reflexivity.
Qed.

Lemma conv_recv k n : conv (fst (fst (recv k n))) = conv k.
Proof.
  unfold recv. cbv zeta. destruct (peeksize k <? 0); [reflexivity|]. destruct (peeksize k >? n); [reflexivity|].
  destruct (pop_msg (rcv_queue k)) as [dd rq]. cbn [fst].
  destruct (_ && _); [cbn [conv set_probe_flags set_probe]|]; rewrite conv_do_move_ready; reflexivity.
Qed.

Lemma conv_update k now k' o : update k now = Ok (k', o) -> conv k' = conv k.
Proof.
  unfold update. cbv zeta.
  set (k1 := if updated k =? 0 then set_timer k (state k) now 1 else k).
  assert (H1 : conv k1 = conv k) by (unfold k1; destruct (updated k =? 0); reflexivity).
  destruct (_ || _).
  - cbn [Z.geb Z.compare]. destruct (flush _ FLUSH_FULL now) as [[[k2 nx] o2]|w] eqn:Ef; [|discriminate].
    apply conv_flush in Ef. intros H; inversion H; subst. rewrite Ef. exact H1.
  - destruct (_ >=? 0).
    + destruct (flush _ FLUSH_FULL now) as [[[k2 nx] o2]|w] eqn:Ef; [|discriminate].
      apply conv_flush in Ef. intros H; inversion H; subst. rewrite Ef. exact H1.
    + intros H; inversion H; subst. exact H1.
Qed.

Lemma conv_step k o k' x : step k o = Ok (k', x) -> conv k' = conv k.
Proof.
  destruct o as [b|n|d reg nd now|full now|now|now|m|nd iv rs nc]; cbn [step].
  - destruct (send k b) as [[k1 r]|w] eqn:E; [|discriminate]. intros H; inversion H; subst. eapply conv_send; exact E.
  - pose proof (conv_recv k n) as Hc. destruct (recv k n) as [[k1 r] dd]. intros H; inversion H; subst. exact Hc.
  - destruct (input k d reg nd now) as [[[k1 r] o1]|w] eqn:E; [|discriminate]. intros H; inversion H; subst. eapply conv_input; exact E.
  - destruct (flush k _ now) as [[[k1 nx] o1]|w] eqn:E; [|discriminate]. intros H; inversion H; subst. eapply conv_flush; exact E.
  - destruct (update k now) as [[k1 o1]|w] eqn:E; [|discriminate]. intros H; inversion H; subst. eapply conv_update; exact E.
  - intros H; inversion H; reflexivity.
  - unfold set_mtu. destruct (_ || _); [intros H; inversion H; reflexivity|].
    destruct (_ >? _); intros H; inversion H; reflexivity.
  - intros H; inversion H; subst. unfold set_nodelay. destruct (nd >=? 0); reflexivity.
Qed.

Lemma conv_apply_op kg o : conv (fst (apply_op kg o)) = conv (fst kg).
Proof.
  unfold apply_op. destruct (step (fst kg) o) as [[k' x]|w] eqn:E; [|reflexivity].
  cbn [fst]. eapply conv_step. exact E.
Qed.

Lemma conv_fold_ops ops : forall kg, conv (fst (fold_left apply_op ops kg)) = conv (fst kg).
Proof. induction ops as [|o t IH]; intros kg; [reflexivity|]. cbn [fold_left]. rewrite IH. apply conv_apply_op. Qed.

Lemma conv_fold_feeds nd now feeds : forall k,
  conv (fold_left (apply_feed kcp (core_in nd now)) feeds k) = conv k.
Proof.
  induction feeds as [|f t IH]; intros k; [reflexivity|]. cbn [fold_left]. rewrite IH.
  unfold apply_feed. apply conv_core_in.
Qed.

(* ================================================================ the instantiated listener *)
Section LProofs.
Variable K : crypto.
Variable c : cipher.
Variable Dec : Type.
Variable dec_new : Z -> Z -> Dec.
Variable dec_decode : Dec -> bytes -> Dec * list bytes.
Variable addr : Type.
Variable addr_eqb : addr -> addr -> bool.
Hypothesis addr_eqb_spec : forall a b, addr_eqb a b = true <-> a = b.
Variable clk : addr -> nat -> bool * Z.
Variable sched : addr -> nat -> list op.
Variable mk_rx : Z -> addr -> rxstate kcp Dec.
Variable g0 : receiver_ghost.
Hypothesis mk_rx_conv : forall cv a, conv (rx_core _ _ (mk_rx cv a)) = cv.

Local Notation lsess := (PipeLDefs.lsess Dec addr).
Local Notation l_new := (PipeLDefs.l_new Dec addr mk_rx g0).
Local Notation l_input := (PipeLDefs.l_input Dec dec_new dec_decode addr clk sched).
Local Notation l_conv := (PipeLDefs.l_conv Dec addr).
Local Notation l_gate := (PipeLDefs.l_gate K c).
Local Notation lacts := (PipeLDefs.lacts Dec dec_new dec_decode addr clk sched).
Local Notation payload_feeds := (PipeLDefs.payload_feeds Dec dec_new dec_decode).
Local Notation lrun := (Listener.run addr_eqb l_new l_input l_conv l_gate).
Local Notation lwants := (Listener.wants_session addr_eqb l_conv l_gate).
Local Notation lfed_seq := (Listener.fed_seq addr_eqb l_gate).
Local Notation llookup := (Listener.lookup addr_eqb).

Lemma l_conv_new cv a : l_conv (l_new cv a) = cv.
Proof using mk_rx_conv. unfold PipeLDefs.l_conv, PipeLDefs.l_new. cbn [ls_rx]. apply mk_rx_conv. Qed.

Lemma l_conv_input s d : l_conv (l_input s d) = l_conv s.
Proof using Type.
  unfold PipeLDefs.l_conv, PipeLDefs.l_input. cbv zeta. cbn [ls_rx rx_core].
  rewrite conv_fold_ops. cbn [fst].
  destruct (kcp_input_as_log kcp Dec (core_in (fst (clk (ls_addr _ _ s) (ls_n _ _ s))) (snd (clk (ls_addr _ _ s) (ls_n _ _ s))))
              dec_new dec_decode (ls_rx _ _ s) d) as (Hc & _).
  cbv zeta in Hc. rewrite Hc. apply conv_fold_feeds.
Qed.

Lemma fold_act_feeds nd now feeds : forall k g,
  fold_left apply_act (map (fun f => AFeed f nd now) feeds) (k, g) =
  (fold_left (apply_feed kcp (core_in nd now)) feeds k, g).
Proof using Type. induction feeds as [|f t IH]; intros k g; [reflexivity|]. cbn [map fold_left]. apply IH. Qed.

Lemma fold_act_ops ops : forall kg, fold_left apply_act (map AOp ops) kg = fold_left apply_op ops kg.
Proof using Type. induction ops as [|o t IH]; intros kg; [reflexivity|]. cbn [map fold_left]. apply IH. Qed.

(* a session fed the payloads pays: its core and read-ghost are the fold of lacts *)
Lemma l_input_acts pays : forall s : lsess,
  let s' := fold_left l_input pays s in
  (rx_core _ _ (ls_rx _ _ s'), ls_g _ _ s') =
  fold_left apply_act
    (lacts (rx_dec _ _ (ls_rx _ _ s)) (rx_handler _ _ (ls_rx _ _ s)) (ls_addr _ _ s) (ls_n _ _ s) pays)
    (rx_core _ _ (ls_rx _ _ s), ls_g _ _ s).
Proof using Type.
  induction pays as [|d t IH]; intros s; cbv zeta; [reflexivity|].
  cbn [fold_left PipeLDefs.lacts]. rewrite (IH (l_input s d)). clear IH.
  rewrite !fold_left_app, fold_act_feeds, fold_act_ops.
  destruct (kcp_input_as_log kcp Dec (core_in (fst (clk (ls_addr _ _ s) (ls_n _ _ s))) (snd (clk (ls_addr _ _ s) (ls_n _ _ s))))
              dec_new dec_decode (ls_rx _ _ s) d) as (Hc & Hd & Hh).
  cbv zeta in Hc, Hd, Hh.
  unfold PipeLDefs.l_input at 1 2 3 4 5 6. cbv zeta. cbn [ls_rx ls_n ls_addr ls_g rx_core rx_dec rx_handler].
  unfold PipeLDefs.payload_feeds. rewrite Hc, Hd, Hh.
  destruct (fold_left apply_op _ _) as [k1 g1]. reflexivity.
Qed.

Lemma wants_gate l raw a cv data : lwants l raw a = Some (cv, data) -> l_gate raw = Some data.
Proof using Type.
  unfold Listener.wants_session. destruct (l_gate raw) as [dd|]; [|discriminate].
  destruct (Listener.too_short dd); [discriminate|].
  destruct (Listener.parse_conv dd) as [| |cv' sn]; try discriminate.
  destruct (llookup a _) as [e|].
  - destruct (_ && _); [|discriminate]. intros H; inversion H; reflexivity.
  - intros H; inversion H; reflexivity.
Qed.

Lemma fed_seq_origin a cv evs d :
  In d (lfed_seq a cv evs) -> exists raw, In (Listener.EvPacket raw a) evs /\ l_gate raw = Some d.
Proof using addr_eqb_spec.
  unfold Listener.fed_seq. intros H. apply in_flat_map in H as (ev & Hev & Hd).
  destruct ev as [raw b| | | | |]; cbn [Listener.fed_by] in Hd; try contradiction.
  destruct (addr_eqb b a) eqn:Eb; [|contradiction]. apply addr_eqb_spec in Eb. subst b.
  destruct (l_gate raw) as [dd|] eqn:Eg; [|contradiction].
  destruct (_ && _); [|contradiction]. destruct Hd as [<-|[]].
  exists raw. split; [exact Hev|exact Eg].
Qed.

(* (1) the session the listener holds for a: created by one datagram from a, fed exactly the
   payloads (behind the gate) of later datagrams from a - its core and read-ghost are the fold
   of the inputs kcpInput made of them and of the application's calls, nothing else *)
Theorem l_feeds evs a e :
  llookup a (Listener.sessions (lrun Listener.l_empty evs)) = Some e ->
  exists cv pre raw post data,
    evs = pre ++ Listener.EvPacket raw a :: post /\
    lwants (lrun Listener.l_empty pre) raw a = Some (cv, data) /\
    l_conv (Listener.e_sess e) = cv /\
    let pays := data :: lfed_seq a cv post in
    (forall d, In d pays -> exists raw', In (Listener.EvPacket raw' a) evs /\ unframe K c raw' = Some d) /\
    (rx_core _ _ (ls_rx _ _ (Listener.e_sess e)), ls_g _ _ (Listener.e_sess e)) =
      fold_left apply_act
        (lacts (rx_dec _ _ (mk_rx cv a)) (rx_handler _ _ (mk_rx cv a)) a 0 pays)
        (rx_core _ _ (mk_rx cv a), g0).
Proof using addr_eqb_spec mk_rx_conv.
  intros He.
  destruct (KV.Listener.ListenerProofs.stream_isolation_from_empty addr_eqb addr_eqb_spec
              l_new l_input l_conv l_gate l_conv_new l_conv_input evs a e He)
    as (cv & pre & raw & post & data & Hev & Hw & _ & _ & Hcv & Hs).
  exists cv, pre, raw, post, data. split; [exact Hev|]. split; [exact Hw|]. split; [exact Hcv|].
  cbv zeta. split.
  - intros d [<-|Hd].
    + exists raw. split; [rewrite Hev; apply in_or_app; right; left; reflexivity|exact (wants_gate _ _ _ _ _ Hw)].
    + destruct (fed_seq_origin a cv post d Hd) as (raw' & Hin & Hg). exists raw'.
      split; [rewrite Hev; apply in_or_app; right; right; exact Hin|exact Hg].
  - rewrite Hs. change (fold_left l_input (lfed_seq a cv post) (l_input (l_new cv a) data))
      with (fold_left l_input (data :: lfed_seq a cv post) (l_new cv a)).
    rewrite (l_input_acts (data :: lfed_seq a cv post) (l_new cv a)). reflexivity.
Qed.

(* ---------------------------------------------------------------- actions are a run of Net.v *)
Lemma sim_acts_sys acts : forall y : sys,
  a_side y -> Step.inv (sB y) -> Forall (act_ok (wire y)) acts ->
  let kg := fold_left apply_act acts (sB y, gB y) in
  sys_run y (map act_ev acts) (mkSys (sA y) (fst kg) (gA y) (snd kg) (wire y)) /\
  a_side (mkSys (sA y) (fst kg) (gA y) (snd kg) (wire y)) /\ Step.inv (fst kg).
Proof using Type.
  induction acts as [|x acts IH]; intros y HA HB Hok; cbv zeta.
  - cbn [fold_left map fst snd]. destruct y as [ka kb ga gb w]. cbn [sA sB gA gB wire] in *.
    split; [apply run_nil|]. split; assumption.
  - inversion Hok as [|? ? Hx Hok']; subst.
    assert (Hstep : exists y1, ev_ok y (act_ev x) /\ sys_step y (act_ev x) = Some y1 /\
              y1 = mkSys (sA y) (fst (apply_act (sB y, gB y) x)) (gA y) (snd (apply_act (sB y, gB y) x)) (wire y)).
    { destruct x as [[d ty] nd now|o]; cbn [act_ok fst] in Hx.
      - destruct Hx as [Hd Hnow].
        assert (Hbytes : is_byte_list d).
        { destruct HA as [_ Hw]. rewrite Forall_forall in Hw. eapply NetReceiverBase.nr_dgram_bytes. apply Hw. exact Hd. }
        destruct (input_ok (sB y) d (ty =? c_IKCP_PACKET_REGULAR) nd now HB Hbytes) as (k1 & r & o & Ein & _ & _).
        eexists. split; [cbn [act_ev feed_ev ev_ok fst snd]; split; [split; [exact Hbytes|exact Hnow]|exact Hd]|].
        split; [cbn [act_ev feed_ev sys_step step fst snd]; rewrite Ein; reflexivity|].
        cbn [apply_act fst snd]. unfold core_in. rewrite Ein. reflexivity.
      - destruct Hx as [Hop Hni].
        destruct (step_ok (sB y) o HB (op_ok32_ok _ Hop)) as (k1 & x1 & Es & _ & _).
        eexists. split; [cbn [act_ev ev_ok]; split; [exact Hop|destruct o; try exact I; contradiction]|].
        split; [cbn [act_ev sys_step]; rewrite Es; reflexivity|].
        cbn [apply_act]. unfold apply_op. cbn [fst snd]. rewrite Es. reflexivity. }
    destruct Hstep as (y1 & Hev & Hst & Ey1).
    destruct (a_side_step y (act_ev x) y1 HA HB Hev Hst) as (HA1 & HB1 & _).
    assert (Hok1 : Forall (act_ok (wire y1)) acts) by (rewrite Ey1; exact Hok').
    destruct (IH y1 HA1 HB1 Hok1) as (Hrun & HA2 & HB2). cbv zeta in Hrun, HA2, HB2.
    cbn [fold_left map].
    assert (Ekg : (sB y1, gB y1) = apply_act (sB y, gB y) x)
      by (rewrite Ey1; cbn [sB gB]; symmetry; apply surjective_pairing).
    rewrite Ekg in Hrun, HA2, HB2.
    assert (E1 : sA y1 = sA y) by (rewrite Ey1; reflexivity).
    assert (E2 : gA y1 = gA y) by (rewrite Ey1; reflexivity).
    assert (E3 : wire y1 = wire y) by (rewrite Ey1; reflexivity).
    rewrite E1, E2, E3 in Hrun, HA2.
    split; [eapply run_cons; [exact Hev|exact Hst|exact Hrun]|]. split; assumption.
Qed.

(* A's calls never look at the reader component *)
Lemma pa_only (rs_encode : Z -> Z -> list bytes -> list bytes) (nonce : nat -> bytes) s evs s' :
  psys_run rs_encode K c nonce Dec dec_new dec_decode s evs s' ->
  forall b g, psys_run rs_encode K c nonce Dec dec_new dec_decode
                (with_reader s b g) (filter is_PA evs) (with_reader s' b g).
Proof using Type.
  induction 1 as [s|s e s1 t s2 Hok Hst Hrun IH]; intros b g; [apply prun_nil|].
  destruct e as [o tm|o|i nd now]; cbn [filter is_PA].
  - eapply prun_cons; [exact Hok| |apply IH].
    cbn [psys_step] in Hst |- *. unfold with_reader at 1 2 3 4. cbn [pA pfe pnon swire cwire pgA pgB pB].
    destruct (step (pA _ s) o) as [[k' x]|w]; [|discriminate].
    destruct (pp_list _ _ _ _ _ _ _ _ _) as [[fe' used'] outs]. inversion Hst; subst s1. reflexivity.
  - assert (E : with_reader s1 b g = with_reader s b g).
    { cbn [psys_step] in Hst. destruct (step _ o) as [[k' x]|w]; [|discriminate]. inversion Hst; reflexivity. }
    rewrite <- E. apply IH.
  - assert (E : with_reader s1 b g = with_reader s b g).
    { cbn [psys_step] in Hst. destruct (nth_error _ i); [|discriminate]. inversion Hst; reflexivity. }
    rewrite <- E. apply IH.
Qed.

(* ================================================================ (2)/(3), FEC off *)
Lemma payload_feeds_raw dopt hd d : core_shape d ->
  payload_feeds dopt hd d = mkRx _ _ [(d, c_IKCP_PACKET_REGULAR)] dopt hd.
Proof using Type.
  intros Hs. unfold PipeLDefs.payload_feeds.
  destruct (core_shape_flag d Hs) as (H1 & H2 & H3). cbv zeta in H1, H2, H3.
  rewrite kcp_input_raw by assumption. reflexivity.
Qed.

Lemma lacts_ok_off cw : env_ok addr clk sched -> forall pays dopt hd a n,
  Forall (fun d => In d cw /\ core_shape d) pays -> Forall (act_ok cw) (lacts dopt hd a n pays).
Proof using Type.
  intros [Hclk Hsch]. induction pays as [|d t IH]; intros dopt hd a n Hp; [constructor|].
  inversion Hp as [|? ? [Hin Hs] Hp']; subst. cbn [PipeLDefs.lacts].
  rewrite (payload_feeds_raw dopt hd d Hs). cbn [rx_core rx_dec map].
  constructor; [split; [exact Hin|apply Hclk]|].
  apply Forall_app. split; [|apply IH; exact Hp'].
  apply Forall_forall. intros x Hx. apply in_map_iff in Hx as (o & <- & Ho).
  specialize (Hsch a n). rewrite Forall_forall in Hsch. exact (Hsch o Ho).
Qed.

Lemma unframe_swire_1 (sA : psys Dec) raw d :
  cipher_laws K c -> pinv1 K c Dec sA -> In raw (swire _ sA) -> unframe K c raw = Some d ->
  In d (cwire _ sA) /\ core_shape d.
Proof using Type.
  intros laws [_ _ Hw Hsh] Hin Hu. apply In_nth_error in Hin as (i & Hi).
  destruct (Forall2_nth_l _ _ _ Hw i raw Hi) as (d' & Hd' & n & Hn & ->).
  destruct (unframe_frame_weak K c laws n d' Hn) as [E|[E _]]; rewrite E in Hu; [discriminate|].
  inversion Hu; subst d'. pose proof (nth_error_In _ _ Hd') as Hin'.
  split; [exact Hin'|]. rewrite Forall_forall in Hsh. apply Hsh. exact Hin'.
Qed.

Section Writer.
Variable rs_encode : Z -> Z -> list bytes -> list bytes.
Variable nonce : nat -> bytes.
Hypothesis laws : cipher_laws K c.
Hypothesis nonces : nonce_ok K c nonce.
Hypothesis env : env_ok addr clk sched.
Local Notation psys_run := (Pipe.psys_run rs_encode K c nonce Dec dec_new dec_decode).
Local Notation proj_evs := (Pipe.proj_evs rs_encode K c nonce Dec dec_new dec_decode).

Local Notation l_conclusion := (PipeLDefs.l_conclusion rs_encode K c nonce Dec dec_new dec_decode addr mk_rx g0).

Lemma l_conclude (w0 wA : psys Dec) evsA cv a (s : lsess) acts :
  let b := mk_rx cv a in
  psys_init Dec (with_reader w0 b g0) ->
  sys_run (proj Dec (with_reader w0 b g0)) (proj_evs (with_reader w0 b g0) (filter is_PA evsA))
          (proj Dec (with_reader wA b g0)) ->
  a_side (proj Dec (with_reader wA b g0)) -> Step.inv (rx_core _ _ b) ->
  (rx_core _ _ (ls_rx _ _ s), ls_g _ _ s) = fold_left apply_act acts (rx_core _ _ b, g0) ->
  Forall (act_ok (cwire _ wA)) acts ->
  l_conclusion w0 wA evsA cv a s acts.
Proof using Type.
  cbv zeta. intros Hi Hr HA HB Hfold Hok.
  destruct (sim_acts_sys acts (proj Dec (with_reader wA (mk_rx cv a) g0)) HA HB Hok) as (Hrun & _ & Hinv).
  cbv zeta in Hrun, Hinv. cbn [Pipe.proj with_reader sA sB gA gB wire pA pB pgA pgB cwire rx_core] in Hrun, Hinv.
  rewrite <- Hfold in Hrun, Hinv. cbn [fst snd] in Hrun, Hinv.
  pose proof (sys_run_app _ _ _ _ _ Hr Hrun) as Htot.
  unfold PipeLDefs.l_conclusion. cbv zeta.
  split; [exact Hfold|]. split; [exact Hok|]. split; [exact Htot|]. split; [exact Hinv|].
  split.
  - intros Hstr Hnw. exact (net_message_prefix _ _ _ (proj1 Hi) Htot Hstr Hnw).
  - intros Hstr Hnw. exact (net_stream_prefix _ _ _ (proj1 Hi) Htot Hstr Hnw).
Qed.

Theorem l_prefix_off evs a e (w0 wA : psys Dec) evsA :
  llookup a (Listener.sessions (lrun Listener.l_empty evs)) = Some e ->
  psys_run w0 evsA wA -> pfe _ w0 = None ->
  psys_init Dec (with_reader w0 (mk_rx (l_conv (Listener.e_sess e)) a) g0) ->
  (forall raw, In (Listener.EvPacket raw a) evs -> In raw (swire _ wA)) ->
  exists cv pre raw post data,
    evs = pre ++ Listener.EvPacket raw a :: post /\
    lwants (lrun Listener.l_empty pre) raw a = Some (cv, data) /\
    l_conv (Listener.e_sess e) = cv /\
    l_conclusion w0 wA evsA cv a (Listener.e_sess e)
      (lacts (rx_dec _ _ (mk_rx cv a)) (rx_handler _ _ (mk_rx cv a)) a 0 (data :: lfed_seq a cv post)).
Proof using addr_eqb_spec mk_rx_conv laws nonces env.
  intros He Hrun Hfe Hi Hsrc.
  destruct (l_feeds evs a e He) as (cv & pre & raw & post & data & Hev & Hw & Hcv & Hpay & Hfold).
  cbv zeta in Hpay, Hfold. rewrite Hcv in Hi.
  exists cv, pre, raw, post, data. split; [exact Hev|]. split; [exact Hw|]. split; [exact Hcv|].
  set (b := mk_rx cv a) in *.
  pose proof (pa_only rs_encode nonce w0 evsA wA Hrun b g0) as Hrun'.
  assert (Hp0 : pinv1 K c Dec (with_reader w0 b g0)) by (apply pinv1_init; [exact Hi|exact Hfe]).
  destruct (pinv1_run rs_encode K c nonce Dec dec_new dec_decode laws nonces _ _ _ Hrun' Hp0) as (Hr & Hp).
  pose proof Hp as [[HA HB] _ _ _].
  apply (l_conclude w0 wA evsA cv a); try assumption.
  apply lacts_ok_off; [exact env|].
  apply Forall_forall. intros d Hd. destruct (Hpay d Hd) as (raw' & Hin & Hu).
  apply (unframe_swire_1 (with_reader wA b g0) raw' d laws Hp); [apply Hsrc; exact Hin|exact Hu].
Qed.

(* ================================================================ (2)/(3), FEC on *)
Section FecOn.
Variable e0 : fecenc.
Variable d0 : Dec.
Hypothesis sound : dec_sound rs_encode K c Dec dec_decode e0 d0.
Variable hist : list (req * Z * Z).                (* the writer's post-processing history *)
Hypothesis Hhd : hist_data hist.
Hypothesis Hnw : fec_no_wrap e0 (hist_payloads hist).
Hypothesis Hpok : Forall fec_payload_ok (hist_payloads hist).
Local Notation bodies := (run_bodies (snd (stage1w_run rs_encode (aead_extra K c) (Some e0) hist))).
Local Notation dcur dopt := (match dopt with Some d => d | None => dec_new 1 1 end).

Lemma lacts_ok_on : forall pays dopt hd a n h,
  dcur dopt = dec_after Dec dec_decode d0 h ->
  Forall (fun x => In x bodies /\ min_pkt <= Wire.blen x) h ->
  Forall (fun x => In x bodies /\ min_pkt <= Wire.blen x) pays ->
  Forall (act_ok (hist_payloads hist)) (lacts dopt hd a n pays).
Proof using env sound Hhd Hnw Hpok.
  destruct env as [Hclk Hsch].
  induction pays as [|d t IH]; intros dopt hd a n h Hdc Hh Hp; [constructor|].
  inversion Hp as [|? ? [Hin Hmin] Hp']; subst. cbn [PipeLDefs.lacts].
  destruct (run_bodies_class rs_encode (aead_extra K c) hist e0 Hhd) as (_ & Hcl).
  rewrite Forall_forall in Hcl. specialize (Hcl d Hin).
  assert (Hflag : rd16 (skipn 4 d) = c_typeData \/ rd16 (skipn 4 d) = c_typeParity).
  { destruct Hcl as [(sq & pl & -> & _)|Hpar]; [left; apply data_body_flag|right; apply parity_body_flag; exact Hpar]. }
  pose proof min_pkt_ge_fechdr as H8.
  unfold PipeLDefs.payload_feeds.
  rewrite (kcp_input_log_fec Dec dec_new dec_decode dopt hd d Hflag) by lia.
  cbn [rx_core rx_dec]. rewrite map_app. rewrite <- app_assoc. apply Forall_app. split; [|apply Forall_app; split; [|apply Forall_app; split]].
  - destruct Hcl as [(sq & pl & -> & Hpl)|Hpar].
    + rewrite data_body_flag, Z.eqb_refl, data_body_payload. cbn [map]. constructor; [|constructor].
      split; [exact Hpl|apply Hclk].
    + rewrite (parity_body_flag d Hpar). unfold c_typeParity, c_typeData. cbn. constructor.
  - apply Forall_forall. intros x Hx. apply in_map_iff in Hx as (f & <- & Hf).
    apply in_flat_map in Hf as (r & Hr & Hf). unfold rec_feed in Hf.
    destruct (rec_payload r) as [pl|] eqn:Erp; [|destruct Hf]. destruct Hf as [<-|[]]. cbn [act_ok fst].
    split; [|apply Hclk]. rewrite Hdc in Hr.
    refine (sound hist h d Hhd Hnw Hpok _ r pl Hr Erp).
    cbv zeta. apply Forall_app. split; [exact Hh|]. constructor; [split; assumption|constructor].
  - apply Forall_forall. intros x Hx. apply in_map_iff in Hx as (o & <- & Ho).
    specialize (Hsch a n). rewrite Forall_forall in Hsch. exact (Hsch o Ho).
  - apply (IH _ hd a (S n) (h ++ [d])); [|apply Forall_app; split; [exact Hh|constructor; [split; assumption|constructor]]|exact Hp'].
    cbn beta iota. rewrite Hdc. symmetry. apply dec_after_app.
Qed.
End FecOn.

Theorem l_prefix_on evs a e (w0 wA : psys Dec) evsA e0 :
  llookup a (Listener.sessions (lrun Listener.l_empty evs)) = Some e ->
  psys_run w0 evsA wA -> pfe _ w0 = Some e0 ->
  psys_init Dec (with_reader w0 (mk_rx (l_conv (Listener.e_sess e)) a) g0) ->
  dec_sound rs_encode K c Dec dec_decode e0 (dec_cur Dec dec_new (mk_rx (l_conv (Listener.e_sess e)) a)) ->
  fec_no_wrap e0 (cwire _ wA) -> fec_fits (cwire _ wA) ->
  (forall raw, In (Listener.EvPacket raw a) evs -> In raw (swire _ wA)) ->
  exists cv pre raw post data,
    evs = pre ++ Listener.EvPacket raw a :: post /\
    lwants (lrun Listener.l_empty pre) raw a = Some (cv, data) /\
    l_conv (Listener.e_sess e) = cv /\
    l_conclusion w0 wA evsA cv a (Listener.e_sess e)
      (lacts (rx_dec _ _ (mk_rx cv a)) (rx_handler _ _ (mk_rx cv a)) a 0 (data :: lfed_seq a cv post)).
Proof using addr_eqb_spec mk_rx_conv laws nonces env.
  intros He Hrun Hfe Hi Hsound Hnw Hfit Hsrc.
  destruct (l_feeds evs a e He) as (cv & pre & raw & post & data & Hev & Hw & Hcv & Hpay & Hfold).
  cbv zeta in Hpay, Hfold. rewrite Hcv in Hi, Hsound.
  exists cv, pre, raw, post, data. split; [exact Hev|]. split; [exact Hw|]. split; [exact Hcv|].
  set (b := mk_rx cv a) in *.
  pose proof (pa_only rs_encode nonce w0 evsA wA Hrun b g0) as Hrun'.
  pose proof (pinv2_init rs_encode K c Dec dec_new dec_decode e0 (dec_cur Dec dec_new b)
                (with_reader w0 b g0) Hi Hfe eq_refl) as Hp0.
  assert (Hside : fec_side e0 (cwire _ (with_reader wA b g0))) by (split; assumption).
  destruct (pinv2_run rs_encode K c nonce Dec dec_new dec_decode laws nonces e0 _ Hsound _ _ _ Hrun' Hp0 Hside)
    as (Hr & Hp).
  destruct Hp as [[HA HB] _ (hist & h & Hhd & _ & Hcw & Hsw & _ & _)].
  cbn [with_reader cwire swire] in Hcw, Hsw.
  assert (Hpok : Forall fec_payload_ok (hist_payloads hist)).
  { rewrite <- Hcw. destruct HA as [_ Hgen]. cbn [Pipe.proj with_reader wire cwire] in Hgen.
    unfold fec_fits in Hfit. rewrite Forall_forall in Hgen, Hfit. apply Forall_forall. intros x Hx.
    split; [apply Hfit; exact Hx|]. exact (NetReceiverBase.nr_dgram_bytes _ _ _ (Hgen x Hx)). }
  apply (l_conclude w0 wA evsA cv a); try assumption.
  rewrite Hcw. rewrite Hcw in Hnw.
  apply (lacts_ok_on e0 (dec_cur Dec dec_new b) Hsound hist Hhd Hnw Hpok _ _ _ _ _ []); [reflexivity|constructor|].
  apply Forall_forall. intros d Hd. destruct (Hpay d Hd) as (raw' & Hin & Hu).
  specialize (Hsrc raw' Hin). apply In_nth_error in Hsrc as (i & Hi').
  destruct (Forall2_nth_l _ _ _ Hsw i raw' Hi') as (body & Hb & n & Hn & ->).
  destruct (unframe_frame_weak K c laws n body Hn) as [E|[E Hmin]]; rewrite E in Hu; [discriminate|].
  inversion Hu; subst body. split; [eapply nth_error_In; exact Hb|exact Hmin].
Qed.
End Writer.
End LProofs.
