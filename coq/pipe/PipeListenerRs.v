(* Stage 4 with the real decoder: the listener-accepted session of PipeListener.v with
   Dec := Fec.fecdec, the total wrapper of Fec.dec_decode rs_codec and the executable
   Reed-Solomon encoder (PipeRs.v) - no decoder hypothesis. *)
From Coq Require Import ZArith List Bool Lia.
From KV.Base Require Import Consts Word.
From KV.Kcp Require Import Kcp Step Net.
From KV.Frame Require Import Wire Frame.
From KV.Fec Require Codec Rs Fec FecSpec.
From KV.Listener Require Listener.
From KV.Pipe Require Import Pipe PipeProofs PipeFec PipeRs PipeLDefs PipeListener.
Import ListNotations.
Local Open Scope Z_scope.

Section ListenerRs.
Variable K : crypto.
Variable c : cipher.
Variable addr : Type.
Variable addr_eqb : addr -> addr -> bool.
Hypothesis addr_eqb_spec : forall a b, addr_eqb a b = true <-> a = b.
Variable clk : addr -> nat -> bool * Z.
Variable sched : addr -> nat -> list op.
Variable mk_rx : Z -> addr -> rxstate kcp Fec.fecdec.
Variable g0 : receiver_ghost.
Hypothesis mk_rx_conv : forall cv a, conv (rx_core _ _ (mk_rx cv a)) = cv.
Variable nonce : nat -> bytes.
Hypothesis laws : cipher_laws K c.
Hypothesis nonces : nonce_ok K c nonce.
Hypothesis env : env_ok addr clk sched.
(* newUDPSession on the listener creates the decoder newFECDecoder(d, p) *)
Variables d p : Z.
Hypothesis Hcfg : FecSpec.cfg_ok d p.
Hypothesis mk_rx_dec : forall cv a, exists st0, rx_dec _ _ (mk_rx cv a) = Some st0 /\ Fec.dec_new d p = Some st0.

Local Notation l_new := (PipeLDefs.l_new Fec.fecdec addr mk_rx g0).
Local Notation l_input := (PipeLDefs.l_input Fec.fecdec rdec_new rdec_decode addr clk sched).
Local Notation l_conv := (PipeLDefs.l_conv Fec.fecdec addr).
Local Notation l_gate := (PipeLDefs.l_gate K c).
Local Notation lacts := (PipeLDefs.lacts Fec.fecdec rdec_new rdec_decode addr clk sched).
Local Notation lrun := (Listener.run addr_eqb l_new l_input l_conv l_gate).
Local Notation lwants := (Listener.wants_session addr_eqb l_conv l_gate).
Local Notation lfed_seq := (Listener.fed_seq addr_eqb l_gate).
Local Notation l_conclusion := (PipeLDefs.l_conclusion rs_enc K c nonce Fec.fecdec rdec_new rdec_decode addr mk_rx g0).

Theorem l_prefix_rs evs a e (w0 wA : psys Fec.fecdec) evsA e0 :
  Listener.lookup addr_eqb a (Listener.sessions (lrun Listener.l_empty evs)) = Some e ->
  psys_run rs_enc K c nonce Fec.fecdec rdec_new rdec_decode w0 evsA wA ->
  pfe _ w0 = Some e0 -> sess_fec_new K c d p = Some e0 ->
  psys_init Fec.fecdec (with_reader w0 (mk_rx (l_conv (Listener.e_sess e)) a) g0) ->
  fec_no_wrap e0 (cwire _ wA) -> fec_fits (cwire _ wA) ->
  (forall raw, In (Listener.EvPacket raw a) evs -> In raw (swire _ wA)) ->
  exists cv pre raw post data,
    evs = pre ++ Listener.EvPacket raw a :: post /\
    lwants (lrun Listener.l_empty pre) raw a = Some (cv, data) /\
    l_conv (Listener.e_sess e) = cv /\
    l_conclusion w0 wA evsA cv a (Listener.e_sess e)
      (lacts (rx_dec _ _ (mk_rx cv a)) (rx_handler _ _ (mk_rx cv a)) a 0 (data :: lfed_seq a cv post)).
Proof using addr_eqb_spec mk_rx_conv laws nonces env Hcfg mk_rx_dec.
  intros He Hrun Hfe Hnew Hi Hnw Hfit Hsrc.
  apply (l_prefix_on K c Fec.fecdec rdec_new rdec_decode addr addr_eqb addr_eqb_spec clk sched mk_rx g0
           mk_rx_conv rs_enc nonce laws nonces env evs a e w0 wA evsA e0); try assumption.
  destruct (mk_rx_dec (l_conv (Listener.e_sess e)) a) as (st0 & Hrx & Hdn).
  unfold dec_cur. rewrite Hrx.
  exact (rs_dec_sound K c d p (cipher_hdr K c) e0 st0 Hcfg Hnew (cipher_hdr_nonneg K c nonce nonces) Hdn).
Qed.
End ListenerRs.
