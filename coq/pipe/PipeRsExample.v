(* Non-vacuity of the Stage 3 theorems: FEC 2+1 with the executable Reed-Solomon codec and the
   model of fecDecoder.decode, nonce + CRC + cipher.  Two messages leave in two core datagrams
   (data packets swire[0], swire[1]); the second completes the group, so the parity packet
   swire[2] follows.  swire[0] is lost.  swire[1] reaches the reader's core as a REGULAR input
   (out of order, parked); swire[2] makes the decoder reconstruct datagram 0, which reaches the
   core as an IKCP_PACKET_FEC input; both messages are read, in order. *)
From Coq Require Import ZArith List Bool Lia.
From KV.Base Require Import Consts Word WordLemmas.
From KV.Kcp Require Import Kcp Step Net InvAll NetAll NetExample.
From KV.Frame Require Import Wire Frame WireProofs FrameProofs.
From KV.Fec Require Codec Rs Fec FecSpec.
From KV.Pipe Require Import Pipe PipeProofs PipeExample PipeFec PipeRs.
Import ListNotations.
Local Open Scope Z_scope.

Definition exr_e0 : fecenc := mkFecenc 2 1 3 4294967295 0 0 0 20 26 [] 0.

Lemma exr_e0_new : sess_fec_new exp_K CCrc 2 1 = Some exr_e0.
Proof. reflexivity. Qed.

Definition exr_s0 : psys Fec.fecdec :=
  mkPsys Fec.fecdec ex_k (Some exr_e0) 0 (mkRx _ _ ex_k (Some (rdec_new 2 1)) false)
         (mkSG 0 [] []) (mkRG 0 []) [] [].

Definition exr_events : list pev :=
  [ PA (OSend [1; 2; 3]) exp_tm;
    PA (OFlush true 1000) exp_tm;      (* core datagram 0 -> data packet swire[0] *)
    PA (OSend [4; 5]) exp_tm;
    PA (OFlush true 1001) exp_tm;      (* core datagram 1 -> data packet swire[1], parity swire[2] *)
    PDeliver 1 false 1002;             (* swire[0] is lost *)
    PDeliver 2 false 1003;
    PB (ORecv 100);
    PB (ORecv 100) ].

Definition exr_step := psys_step rs_enc exp_K CCrc exp_nonce Fec.fecdec rdec_new rdec_decode.

Definition exr_run (n : nat) : psys Fec.fecdec :=
  fold_left (fun s e => match exr_step s e with Some s1 => s1 | None => s end) (firstn n exr_events) exr_s0.

Definition exr_final : psys Fec.fecdec := exr_run 8.
(* the state in which the parity packet is delivered *)
Definition exr_mid : psys Fec.fecdec := exr_run 5.

Lemma exr_configured : rs_configured exp_K CCrc 2 1 exr_e0 exr_s0.
Proof.
  split; [unfold FecSpec.cfg_ok; lia|]. split; [reflexivity|]. split; [reflexivity|].
  exists (rdec_new 2 1). split; reflexivity.
Qed.

Lemma pipe_rs_example :
  exists s0 evs s,
    cipher_laws exp_K CCrc /\ nonce_ok exp_K CCrc exp_nonce /\
    psys_init Fec.fecdec s0 /\ rs_configured exp_K CCrc 2 1 exr_e0 s0 /\
    psys_run rs_enc exp_K CCrc exp_nonce Fec.fecdec rdec_new rdec_decode s0 evs s /\
    fec_no_wrap exr_e0 (cwire _ s) /\ fec_fits (cwire _ s) /\
    stream (pA _ s0) = 0 /\ no_wrap (sg_numbered (pgA _ s)) /\
    evs = exr_events /\
    length (cwire _ s) = 2%nat /\ length (swire _ s) = 3%nat /\
    deliver_feeds exp_K CCrc Fec.fecdec rdec_new rdec_decode exr_mid 2 =
      [(nth 0 (cwire _ s) [], c_IKCP_PACKET_FEC)] /\
    sg_accepted (pgA _ s) = [[1; 2; 3]; [4; 5]] /\ rg_delivered (pgB _ s) = [[1; 2; 3]; [4; 5]].
Proof.
  exists exr_s0, exr_events, exr_final.
  split; [exact exp_laws|]. split; [exact exp_nonce_ok|].
  split; [split; [exact ex_init|reflexivity]|]. split; [exact exr_configured|].
  split.
  - let f := eval vm_compute in exr_final in change exr_final with f.
    unfold exr_events.
    eapply prun_cons; [split; [apply bytes_dec_ok; vm_compute; reflexivity|exact I] | vm_compute; reflexivity |].
    eapply prun_cons; [split; [exact I|unfold is_u32, W32; lia] | vm_compute; reflexivity |].
    eapply prun_cons; [split; [apply bytes_dec_ok; vm_compute; reflexivity|exact I] | vm_compute; reflexivity |].
    eapply prun_cons; [split; [exact I|unfold is_u32, W32; lia] | vm_compute; reflexivity |].
    eapply prun_cons; [unfold pev_ok, is_u32, W32; lia | vm_compute; reflexivity |].
    eapply prun_cons; [unfold pev_ok, is_u32, W32; lia | vm_compute; reflexivity |].
    eapply prun_cons; [split; [split; exact I|exact I] | vm_compute; reflexivity |].
    eapply prun_cons; [split; [split; exact I|exact I] | vm_compute; reflexivity |].
    apply prun_nil.
  - split; [vm_compute; split; [discriminate|reflexivity]|].
    split; [vm_compute; repeat constructor; discriminate|].
    split; [reflexivity|]. split; [vm_compute; reflexivity|]. split; [reflexivity|].
    split; [vm_compute; reflexivity|]. split; [vm_compute; reflexivity|].
    split; [vm_compute; reflexivity|]. split; vm_compute; reflexivity.
Qed.
