(* C01 lifted from raw cores to SESSIONS: the session pipeline is transparent.  Statements only.

   System model: Pipe.v.  Writer session = ARQ core A + FEC stage + cipher class c (none | nonce +
   CRC32 + Encrypt | AEAD) fed from an arbitrary nonce stream; reader session = packetInput
   (decrypt / verify / minimum size) + kcpInput (FEC type demultiplexer) + ARQ core B.
   ANY finite list of events: arbitrary API calls on core A (every datagram it emits goes
   through postProcess and is appended to the wire history), arbitrary API calls on core B
   except Input, and `PDeliver i`: the i-th datagram of the wire history - any of them, any
   number of times, in any order, after any delay, or never - arrives at B's packetInput.
   Premises: the laws of the configured cipher class (Decrypt inverts Encrypt, the CRC is a
   32-bit value | Open inverts Seal), nonces of the class's size, and C01's no_wrap.  The length
   laws (Encrypt keeps the length | Seal adds Overhead()) are needed only to show that a
   delivered datagram is never dropped by packetInput's length tests. *)
From Coq Require Import ZArith List Bool.
From KV.Base Require Import Consts Word.
From KV.Kcp Require Import Kcp Step Net.
From KV.Frame Require Import Frame FrameProofs.
From KV.Pipe Require Import Pipe PipeProofs PipeExample PipeFec PipeFecExample.
Import ListNotations.
Local Open Scope Z_scope.

(* ---------------------------------------------------------------- Stage 1: FEC off, every cipher class *)

(* SIMULATION.  Every session run projects to a run of Net.v's two-core system over the same
   cores and ghosts: PA o -> EA o, PB o -> EB o, and PDeliver i -> EB (OInput d REGULAR ..)
   where d = cwire[i] is the datagram core A emitted and swire[i] = frame c nonce d (without the
   length laws possibly to no event at all: the datagram is dropped). *)
Theorem pipe_run_projects :
  forall (rs_encode : Z -> Z -> list bytes -> list bytes) (K : crypto) (c : cipher)
         (nonce : nat -> bytes) (Dec : Type) (dec_new : Z -> Z -> Dec)
         (dec_decode : Dec -> bytes -> Dec * list bytes),
    cipher_laws K c -> nonce_ok K c nonce ->
  forall (s0 : psys Dec) (evs : list pev) (s : psys Dec),
    psys_init Dec s0 -> pfe Dec s0 = None ->
    psys_run rs_encode K c nonce Dec dec_new dec_decode s0 evs s ->
    sys_init (proj Dec s0) /\
    sys_run (proj Dec s0) (proj_evs rs_encode K c nonce Dec dec_new dec_decode s0 evs) (proj Dec s) /\
    pfe Dec s = None /\
    Forall2 (framed K c) (swire Dec s) (cwire Dec s) /\
    (forall i w, nth_error (swire Dec s) i = Some w ->
       exists d, nth_error (cwire Dec s) i = Some d /\ framed K c w d /\
         (forall nd now, proj_ev K c Dec dec_new dec_decode s (PDeliver i nd now) = [] \/
                         proj_ev K c Dec dec_new dec_decode s (PDeliver i nd now) = [EB (OInput d true nd now)]) /\
         (cipher_len_laws K c ->
          forall nd now, proj_ev K c Dec dec_new dec_decode s (PDeliver i nd now) = [EB (OInput d true nd now)])).
Proof. exact pipe1_run_projects. Qed.
Print Assumptions pipe_run_projects.

(* stream mode: the bytes B's reader has been given are a prefix of the bytes A's Send accepted *)
Theorem pipe_stream_prefix :
  forall (rs_encode : Z -> Z -> list bytes -> list bytes) (K : crypto) (c : cipher)
         (nonce : nat -> bytes) (Dec : Type) (dec_new : Z -> Z -> Dec)
         (dec_decode : Dec -> bytes -> Dec * list bytes),
    cipher_laws K c -> nonce_ok K c nonce ->
  forall (s0 : psys Dec) (evs : list pev) (s : psys Dec),
    psys_init Dec s0 -> pfe Dec s0 = None ->
    psys_run rs_encode K c nonce Dec dec_new dec_decode s0 evs s ->
    stream (pA Dec s0) <> 0 -> no_wrap (sg_numbered (pgA Dec s)) ->
    is_prefix (concat (rg_delivered (pgB Dec s))) (concat (sg_accepted (pgA Dec s))).
Proof. exact pipe1_stream_prefix. Qed.
Print Assumptions pipe_stream_prefix.

(* message mode: the messages B's reader has been given are a prefix of the messages A's Send
   accepted, each with its original boundaries *)
Theorem pipe_message_prefix :
  forall (rs_encode : Z -> Z -> list bytes -> list bytes) (K : crypto) (c : cipher)
         (nonce : nat -> bytes) (Dec : Type) (dec_new : Z -> Z -> Dec)
         (dec_decode : Dec -> bytes -> Dec * list bytes),
    cipher_laws K c -> nonce_ok K c nonce ->
  forall (s0 : psys Dec) (evs : list pev) (s : psys Dec),
    psys_init Dec s0 -> pfe Dec s0 = None ->
    psys_run rs_encode K c nonce Dec dec_new dec_decode s0 evs s ->
    stream (pA Dec s0) = 0 -> no_wrap (sg_numbered (pgA Dec s)) ->
    is_prefix (rg_delivered (pgB Dec s)) (sg_accepted (pgA Dec s)).
Proof. exact pipe1_message_prefix. Qed.
Print Assumptions pipe_message_prefix.

(* the run never faults (psys_step = None only where a core call would panic) and both cores
   keep the C04 invariant *)
Theorem pipe_run_safe :
  forall (rs_encode : Z -> Z -> list bytes -> list bytes) (K : crypto) (c : cipher)
         (nonce : nat -> bytes) (Dec : Type) (dec_new : Z -> Z -> Dec)
         (dec_decode : Dec -> bytes -> Dec * list bytes),
    cipher_laws K c -> nonce_ok K c nonce ->
  forall (s0 : psys Dec) (evs : list pev) (s : psys Dec),
    psys_init Dec s0 -> pfe Dec s0 = None ->
    psys_run rs_encode K c nonce Dec dec_new dec_decode s0 evs s ->
    inv (pA Dec s) /\ inv (rx_core kcp Dec (pB Dec s)).
Proof. exact pipe1_run_safe. Qed.
Print Assumptions pipe_run_safe.

(* no admissible event is ever refused in a state whose cores satisfy inv (every reachable state
   does: pipe_run_safe / pipe_fec_run_safe), so the runs quantified over are ALL event lists
   with 32-bit clocks, byte strings as buffers and delivery indices inside the history *)
Theorem pipe_step_enabled :
  forall (rs_encode : Z -> Z -> list bytes -> list bytes) (K : crypto) (c : cipher)
         (nonce : nat -> bytes) (Dec : Type) (dec_new : Z -> Z -> Dec)
         (dec_decode : Dec -> bytes -> Dec * list bytes) (s : psys Dec) (e : pev),
    inv (pA Dec s) -> inv (rx_core kcp Dec (pB Dec s)) -> pev_ok Dec s e ->
    match e with PDeliver i _ _ => (i < length (swire Dec s))%nat | _ => True end ->
    exists s1, psys_step rs_encode K c nonce Dec dec_new dec_decode s e = Some s1.
Proof. exact step_enabled. Qed.
Print Assumptions pipe_step_enabled.

(* non-vacuity: nonce + CRC + cipher, one message written, flushed, its one wire datagram (20
   bytes longer than, and different from, the core datagram) delivered through packetInput, read *)
Example pipe_example :
  exists s0 evs s,
    cipher_laws exp_K CCrc /\ cipher_len_laws exp_K CCrc /\ nonce_ok exp_K CCrc exp_nonce /\
    psys_init unit s0 /\ pfe unit s0 = None /\
    psys_run exp_rs exp_K CCrc exp_nonce unit exp_dec_new exp_dec_decode s0 evs s /\
    stream (pA unit s0) = 0 /\ no_wrap (sg_numbered (pgA unit s)) /\
    sg_accepted (pgA unit s) = [[1; 2; 3]] /\ rg_delivered (pgB unit s) = [[1; 2; 3]] /\
    length (swire unit s) = 1%nat /\ length (cwire unit s) = 1%nat /\
    (forall w d, nth_error (swire unit s) 0 = Some w -> nth_error (cwire unit s) 0 = Some d ->
       blen w = blen d + 20 /\ w <> d).
Proof. exact PipeExample.pipe_example. Qed.
Print Assumptions pipe_example.

(* ---------------------------------------------------------------- Stage 2: FEC on, abstract decoder

   The writer has an FEC encoder e0 (any state; sess_fec_new gives the fresh one): every core
   datagram leaves as a data packet  seqid | 0xf1 | size | datagram , followed now and then by
   parity packets  seqid | 0xf2 | rs_encode(...) ; every packet gets its own nonce.  The
   reader's kcpInput feeds a data packet's payload to the core as IKCP_PACKET_REGULAR, every
   FEC packet to the decoder, and what the decoder returns - stripped of its size prefix - as
   IKCP_PACKET_FEC.  The decoder (type, constructor, decode function) is ABSTRACT; the one
   hypothesis on it is Pipe.dec_sound: over genuine traffic it only ever returns images of
   original data packets (fec engine: c07_only_originals_rs + c07_encoder_layout +
   c07_mds_rs_all; proved below for a small concrete decoder).  Further premises, both on what
   the writer's core emitted and both prefix-closed like no_wrap: fec_no_wrap (the FEC id
   counter does not wrap) and fec_fits (data packets fit the pool buffers, as SetMtu ensures). *)

(* SIMULATION.  The session run projects to a run of Net.v; PDeliver i stands for the list of
   core inputs packetInput performs (deliver_feeds), all of them datagrams core A emitted
   earlier: for a data packet the datagram it carries (REGULAR) then the recovered ones (FEC),
   for a parity packet only recovered ones; nothing at all if packetInput drops the datagram. *)
Theorem pipe_fec_run_projects :
  forall (rs_encode : Z -> Z -> list bytes -> list bytes) (K : crypto) (c : cipher)
         (nonce : nat -> bytes) (Dec : Type) (dec_new : Z -> Z -> Dec)
         (dec_decode : Dec -> bytes -> Dec * list bytes),
    cipher_laws K c -> nonce_ok K c nonce ->
  forall (s0 : psys Dec) (evs : list pev) (s : psys Dec) (e0 : fecenc),
    psys_init Dec s0 -> pfe Dec s0 = Some e0 ->
    dec_sound rs_encode K c Dec dec_decode e0 (dec_cur Dec dec_new (pB Dec s0)) ->
    psys_run rs_encode K c nonce Dec dec_new dec_decode s0 evs s ->
    fec_no_wrap e0 (cwire Dec s) -> fec_fits (cwire Dec s) ->
    sys_init (proj Dec s0) /\
    sys_run (proj Dec s0) (proj_evs rs_encode K c nonce Dec dec_new dec_decode s0 evs) (proj Dec s) /\
    (forall i, Forall (fun f : bytes * Z => In (fst f) (cwire Dec s))
                      (deliver_feeds K c Dec dec_new dec_decode s i)) /\
    (forall i w, nth_error (swire Dec s) i = Some w ->
       exists body, framed K c w body /\
         let recs := snd (dec_decode (dec_cur Dec dec_new (pB Dec s)) body) in
         let feeds := deliver_feeds K c Dec dec_new dec_decode s i in
         ((exists seqid d, body = data_body seqid d /\ In d (cwire Dec s) /\
             (feeds = [] \/ feeds = (d, c_IKCP_PACKET_REGULAR) :: flat_map rec_feed recs)) \/
          (is_parity_body body /\ (feeds = [] \/ feeds = flat_map rec_feed recs)))).
Proof. exact pipe2_run_projects. Qed.
Print Assumptions pipe_fec_run_projects.

Theorem pipe_fec_stream_prefix :
  forall (rs_encode : Z -> Z -> list bytes -> list bytes) (K : crypto) (c : cipher)
         (nonce : nat -> bytes) (Dec : Type) (dec_new : Z -> Z -> Dec)
         (dec_decode : Dec -> bytes -> Dec * list bytes),
    cipher_laws K c -> nonce_ok K c nonce ->
  forall (s0 : psys Dec) (evs : list pev) (s : psys Dec) (e0 : fecenc),
    psys_init Dec s0 -> pfe Dec s0 = Some e0 ->
    dec_sound rs_encode K c Dec dec_decode e0 (dec_cur Dec dec_new (pB Dec s0)) ->
    psys_run rs_encode K c nonce Dec dec_new dec_decode s0 evs s ->
    fec_no_wrap e0 (cwire Dec s) -> fec_fits (cwire Dec s) ->
    stream (pA Dec s0) <> 0 -> no_wrap (sg_numbered (pgA Dec s)) ->
    is_prefix (concat (rg_delivered (pgB Dec s))) (concat (sg_accepted (pgA Dec s))).
Proof. exact pipe2_stream_prefix. Qed.
Print Assumptions pipe_fec_stream_prefix.

Theorem pipe_fec_message_prefix :
  forall (rs_encode : Z -> Z -> list bytes -> list bytes) (K : crypto) (c : cipher)
         (nonce : nat -> bytes) (Dec : Type) (dec_new : Z -> Z -> Dec)
         (dec_decode : Dec -> bytes -> Dec * list bytes),
    cipher_laws K c -> nonce_ok K c nonce ->
  forall (s0 : psys Dec) (evs : list pev) (s : psys Dec) (e0 : fecenc),
    psys_init Dec s0 -> pfe Dec s0 = Some e0 ->
    dec_sound rs_encode K c Dec dec_decode e0 (dec_cur Dec dec_new (pB Dec s0)) ->
    psys_run rs_encode K c nonce Dec dec_new dec_decode s0 evs s ->
    fec_no_wrap e0 (cwire Dec s) -> fec_fits (cwire Dec s) ->
    stream (pA Dec s0) = 0 -> no_wrap (sg_numbered (pgA Dec s)) ->
    is_prefix (rg_delivered (pgB Dec s)) (sg_accepted (pgA Dec s)).
Proof. exact pipe2_message_prefix. Qed.
Print Assumptions pipe_fec_message_prefix.

Theorem pipe_fec_run_safe :
  forall (rs_encode : Z -> Z -> list bytes -> list bytes) (K : crypto) (c : cipher)
         (nonce : nat -> bytes) (Dec : Type) (dec_new : Z -> Z -> Dec)
         (dec_decode : Dec -> bytes -> Dec * list bytes),
    cipher_laws K c -> nonce_ok K c nonce ->
  forall (s0 : psys Dec) (evs : list pev) (s : psys Dec) (e0 : fecenc),
    psys_init Dec s0 -> pfe Dec s0 = Some e0 ->
    dec_sound rs_encode K c Dec dec_decode e0 (dec_cur Dec dec_new (pB Dec s0)) ->
    psys_run rs_encode K c nonce Dec dec_new dec_decode s0 evs s ->
    fec_no_wrap e0 (cwire Dec s) -> fec_fits (cwire Dec s) ->
    inv (pA Dec s) /\ inv (rx_core kcp Dec (pB Dec s)).
Proof. exact pipe2_run_safe. Qed.
Print Assumptions pipe_fec_run_safe.

(* non-vacuity: FEC 1+1 (parity = copy of the data shard), a decoder that returns the payload of
   every parity packet - dec_sound is proved for it -, nonce + CRC + cipher.  One message
   written and flushed: core datagram cwire[0] leaves as data packet swire[0] and parity packet
   swire[1].  Only swire[1] is delivered: the reader's core gets cwire[0] as ONE
   IKCP_PACKET_FEC input, and the message is read. *)
Example pipe_fec_example :
  exists s0 evs s,
    cipher_laws exp_K CCrc /\ nonce_ok exp_K CCrc exp_nonce /\
    psys_init unit s0 /\ pfe unit s0 = Some exq_e0 /\ sess_fec_new exp_K CCrc 1 1 = Some exq_e0 /\
    dec_sound exq_rs exp_K CCrc unit exq_dec_decode exq_e0 (dec_cur unit exq_dec_new (pB unit s0)) /\
    psys_run exq_rs exp_K CCrc exp_nonce unit exq_dec_new exq_dec_decode s0 evs s /\
    fec_no_wrap exq_e0 (cwire unit s) /\ fec_fits (cwire unit s) /\
    stream (pA unit s0) = 0 /\ no_wrap (sg_numbered (pgA unit s)) /\
    evs = [PA (OSend [1; 2; 3]) exp_tm; PA (OFlush true 1000) exp_tm; PDeliver 1 false 1001; PB (ORecv 100)] /\
    length (cwire unit s) = 1%nat /\ length (swire unit s) = 2%nat /\
    deliver_feeds exp_K CCrc unit exq_dec_new exq_dec_decode exq_mid 1 =
      [(nth 0 (cwire unit s) [], c_IKCP_PACKET_FEC)] /\
    sg_accepted (pgA unit s) = [[1; 2; 3]] /\ rg_delivered (pgB unit s) = [[1; 2; 3]].
Proof. exact PipeFecExample.pipe_fec_example. Qed.
Print Assumptions pipe_fec_example.
