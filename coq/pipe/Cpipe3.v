(* C01 for SESSIONS with FEC on and the REAL decoder: no decoder hypothesis.  Statements only.

   System model: Pipe.v, instantiated with
     rs_encode  := rs_enc        = Codec.c_encode of Rs.rs_codec (the executable Reed-Solomon code),
     Dec        := Fec.fecdec    (the model of fecDecoder, auto-tuning state included),
     dec_new    := rdec_new      = Fec.dec_new (newFECDecoder; kcpInput only calls it with (1, 1)),
     dec_decode := rdec_decode   = Fec.dec_decode rs_codec made total: a fault (Panic) leaves the
                                   state unchanged and recovers nothing.
   The hypothesis Pipe.dec_sound of Stage 2 is PROVED for this instance (rs_dec_sound) from the
   FEC engine's t_c07_only_originals (= c07_only_originals) and rs_mds_all (= c07_mds_rs_all)
   through a bridge between the two encoder models: every packet body the frame engine's FEC
   stage (Frame.fec_encode via stage1w_run) produces for a history of data requests is a
   FecSpec.genuine packet (grp_packet) of the book built from the request history
   (PipeRs.bridge_run).  Remaining premises: the laws of the cipher class, nonces of the class's
   size, the two sessions configured alike (rs_configured: fresh encoder newFECEncoder(d, p,
   headerOffset), fresh decoder newFECDecoder(d, p), 0 < d, 0 < p, d + p <= 256), and - on what
   the writer's core emitted, all prefix-closed - no_wrap, fec_no_wrap, fec_fits. *)
From Coq Require Import ZArith List Bool.
From KV.Base Require Import Consts Word.
From KV.Kcp Require Import Kcp Step Net.
From KV.Frame Require Import Frame FrameProofs.
From KV.Fec Require Codec Rs Fec FecSpec.
From KV.Pipe Require Import Pipe PipeProofs PipeExample PipeFec PipeRs PipeRsExample.
Import ListNotations.
Local Open Scope Z_scope.

(* the decoder hypothesis of Stage 2, proved for the real decoder and a matching fresh encoder *)
Theorem pipe_fec_rs_dec_sound :
  forall (K : crypto) (c : cipher) (d p off : Z) (e0 : fecenc) (st0 : Fec.fecdec),
    FecSpec.cfg_ok d p -> fec_new d p off = Some e0 -> 0 <= off -> Fec.dec_new d p = Some st0 ->
    dec_sound rs_enc K c Fec.fecdec rdec_decode e0 st0.
Proof. exact rs_dec_sound. Qed.
Print Assumptions pipe_fec_rs_dec_sound.

(* the bridge between the two encoder models (frame engine -> FEC engine's vocabulary) *)
Theorem pipe_fec_rs_bridge :
  forall (d p : Z), FecSpec.cfg_ok d p ->
  forall (all : list bytes), Forall fec_payload_ok all ->
  forall (ov : Z) (hist : list (req * Z * Z)) (e : fecenc) (gn : nat) (pend : list bytes),
    binv d p all e gn pend -> hist_data hist ->
    hist_payloads hist = skipn (gn * Z.to_nat d + length pend) all -> group_bound d p all ->
    Forall (fun b => exists g i, FecSpec.genuine_at (Rs.rs_codec d p) d p (book d all) g i b /\
                                 (Z.to_nat g * Z.to_nat d < length all)%nat)
           (run_bodies (snd (stage1w_run rs_enc ov (Some e) hist))).
Proof. exact bridge_run. Qed.
Print Assumptions pipe_fec_rs_bridge.

Theorem pipe_fec_rs_run_projects :
  forall (K : crypto) (c : cipher) (nonce : nat -> bytes),
    cipher_laws K c -> nonce_ok K c nonce ->
  forall (d p : Z) (e0 : fecenc) (s0 : psys Fec.fecdec) (evs : list pev) (s : psys Fec.fecdec),
    psys_init Fec.fecdec s0 -> rs_configured K c d p e0 s0 ->
    psys_run rs_enc K c nonce Fec.fecdec rdec_new rdec_decode s0 evs s ->
    fec_no_wrap e0 (cwire Fec.fecdec s) -> fec_fits (cwire Fec.fecdec s) ->
    sys_init (proj Fec.fecdec s0) /\
    sys_run (proj Fec.fecdec s0) (proj_evs rs_enc K c nonce Fec.fecdec rdec_new rdec_decode s0 evs)
            (proj Fec.fecdec s) /\
    (forall i, Forall (fun f : bytes * Z => In (fst f) (cwire Fec.fecdec s))
                      (deliver_feeds K c Fec.fecdec rdec_new rdec_decode s i)) /\
    (forall i w, nth_error (swire Fec.fecdec s) i = Some w ->
       exists body, framed K c w body /\
         let recs := snd (rdec_decode (dec_cur Fec.fecdec rdec_new (pB Fec.fecdec s)) body) in
         let feeds := deliver_feeds K c Fec.fecdec rdec_new rdec_decode s i in
         ((exists seqid dg, body = data_body seqid dg /\ In dg (cwire Fec.fecdec s) /\
             (feeds = [] \/ feeds = (dg, c_IKCP_PACKET_REGULAR) :: flat_map rec_feed recs)) \/
          (is_parity_body body /\ (feeds = [] \/ feeds = flat_map rec_feed recs)))).
Proof. exact pipe3_run_projects. Qed.
Print Assumptions pipe_fec_rs_run_projects.

Theorem pipe_fec_rs_stream_prefix :
  forall (K : crypto) (c : cipher) (nonce : nat -> bytes),
    cipher_laws K c -> nonce_ok K c nonce ->
  forall (d p : Z) (e0 : fecenc) (s0 : psys Fec.fecdec) (evs : list pev) (s : psys Fec.fecdec),
    psys_init Fec.fecdec s0 -> rs_configured K c d p e0 s0 ->
    psys_run rs_enc K c nonce Fec.fecdec rdec_new rdec_decode s0 evs s ->
    fec_no_wrap e0 (cwire Fec.fecdec s) -> fec_fits (cwire Fec.fecdec s) ->
    stream (pA Fec.fecdec s0) <> 0 -> no_wrap (sg_numbered (pgA Fec.fecdec s)) ->
    is_prefix (concat (rg_delivered (pgB Fec.fecdec s))) (concat (sg_accepted (pgA Fec.fecdec s))).
Proof. exact pipe3_stream_prefix. Qed.
Print Assumptions pipe_fec_rs_stream_prefix.

Theorem pipe_fec_rs_message_prefix :
  forall (K : crypto) (c : cipher) (nonce : nat -> bytes),
    cipher_laws K c -> nonce_ok K c nonce ->
  forall (d p : Z) (e0 : fecenc) (s0 : psys Fec.fecdec) (evs : list pev) (s : psys Fec.fecdec),
    psys_init Fec.fecdec s0 -> rs_configured K c d p e0 s0 ->
    psys_run rs_enc K c nonce Fec.fecdec rdec_new rdec_decode s0 evs s ->
    fec_no_wrap e0 (cwire Fec.fecdec s) -> fec_fits (cwire Fec.fecdec s) ->
    stream (pA Fec.fecdec s0) = 0 -> no_wrap (sg_numbered (pgA Fec.fecdec s)) ->
    is_prefix (rg_delivered (pgB Fec.fecdec s)) (sg_accepted (pgA Fec.fecdec s)).
Proof. exact pipe3_message_prefix. Qed.
Print Assumptions pipe_fec_rs_message_prefix.

Theorem pipe_fec_rs_run_safe :
  forall (K : crypto) (c : cipher) (nonce : nat -> bytes),
    cipher_laws K c -> nonce_ok K c nonce ->
  forall (d p : Z) (e0 : fecenc) (s0 : psys Fec.fecdec) (evs : list pev) (s : psys Fec.fecdec),
    psys_init Fec.fecdec s0 -> rs_configured K c d p e0 s0 ->
    psys_run rs_enc K c nonce Fec.fecdec rdec_new rdec_decode s0 evs s ->
    fec_no_wrap e0 (cwire Fec.fecdec s) -> fec_fits (cwire Fec.fecdec s) ->
    inv (pA Fec.fecdec s) /\ inv (rx_core kcp Fec.fecdec (pB Fec.fecdec s)).
Proof. exact pipe3_run_safe. Qed.
Print Assumptions pipe_fec_rs_run_safe.

(* non-vacuity: FEC 2+1, executable Reed-Solomon, the decoder model, nonce + CRC + cipher.  Two
   messages in two core datagrams -> data packets swire[0], swire[1] and parity packet swire[2].
   swire[0] is never delivered; swire[1] then swire[2] are: the decoder reconstructs datagram 0,
   the reader's core gets it as ONE IKCP_PACKET_FEC input, both messages are read in order. *)
Example pipe_fec_rs_example :
  exists s0 evs s,
    cipher_laws exp_K CCrc /\ nonce_ok exp_K CCrc exp_nonce /\
    psys_init Fec.fecdec s0 /\ rs_configured exp_K CCrc 2 1 exr_e0 s0 /\
    psys_run rs_enc exp_K CCrc exp_nonce Fec.fecdec rdec_new rdec_decode s0 evs s /\
    fec_no_wrap exr_e0 (cwire Fec.fecdec s) /\ fec_fits (cwire Fec.fecdec s) /\
    stream (pA Fec.fecdec s0) = 0 /\ no_wrap (sg_numbered (pgA Fec.fecdec s)) /\
    evs = exr_events /\
    length (cwire Fec.fecdec s) = 2%nat /\ length (swire Fec.fecdec s) = 3%nat /\
    deliver_feeds exp_K CCrc Fec.fecdec rdec_new rdec_decode exr_mid 2 =
      [(nth 0 (cwire Fec.fecdec s) [], c_IKCP_PACKET_FEC)] /\
    sg_accepted (pgA Fec.fecdec s) = [[1; 2; 3]; [4; 5]] /\
    rg_delivered (pgB Fec.fecdec s) = [[1; 2; 3]; [4; 5]].
Proof. exact pipe_rs_example. Qed.
Print Assumptions pipe_fec_rs_example.
