(* Stage 2: FEC on, abstract decoder.  The writer's FEC stage wraps every core datagram into a
   data packet and now and then adds parity packets; the reader's kcpInput feeds a data packet's
   payload to the core as REGULAR, every packet to the decoder, and whatever the decoder
   recovers - stripped of its size prefix - to the core as IKCP_PACKET_FEC.  Under the
   hypothesis that the decoder only ever returns images of ORIGINAL data packets (dec_sound
   below; fec engine: c07_only_originals_rs + c07_encoder_layout), every session run still
   projects to a run of the two cores of Net.v, so the prefix theorems hold. *)
From Coq Require Import ZArith List Bool Lia.
From KV.Base Require Import Consts Word WordLemmas.
From KV.Kcp Require Import Kcp Step Net InvAll NetAll.
From KV.Frame Require Import Wire Frame WireProofs FrameProofs.
From KV.Pipe Require Import Pipe PipeProofs.
Import ListNotations.
Local Open Scope Z_scope.

Ltac Zify.zify_post_hook ::= idtac.

Lemma dec_after_app (Dec : Type) (dec_decode : Dec -> bytes -> Dec * list bytes) d h b :
  dec_after Dec dec_decode d (h ++ [b]) = fst (dec_decode (dec_after Dec dec_decode d h) b).
Proof.
  revert d. induction h as [|x h IH]; intros d; [reflexivity|]. cbn [app dec_after]. apply IH.
Qed.

(* ---------------------------------------------------------------- kcpInput on an FEC packet *)
Section DemuxFec.
Variable Dec : Type.
Variable dec_new : Z -> Z -> Dec.
Variable dec_decode : Dec -> bytes -> Dec * list bytes.
Local Notation kcp_input_log := (Frame.kcp_input (list (bytes * Z)) Dec log_input dec_new dec_decode).

Lemma fold_feed_log recs : forall l : list (bytes * Z),
  fold_left (feed_recovered _ log_input) recs l = l ++ flat_map rec_feed recs.
Proof using Type.
  induction recs as [|r recs IH]; intros l; [cbn; rewrite app_nil_r; reflexivity|].
  cbn [fold_left flat_map]. rewrite IH. unfold feed_recovered, rec_feed, rec_payload.
  destruct (2 <=? Wire.blen r); [|reflexivity].
  destruct ((rd16 r <=? Wire.blen r) && (2 <=? rd16 r)); [|reflexivity].
  unfold log_input. rewrite <- app_assoc. reflexivity.
Qed.

(* a packet with an FEC type word, at least fecHeaderSizePlus2 long: a data packet's payload
   goes to the core first, then the packet to the decoder, then what the decoder recovered *)
Lemma kcp_input_log_fec (dopt : option Dec) (hd : bool) data :
  rd16 (skipn 4 data) = c_typeData \/ rd16 (skipn 4 data) = c_typeParity ->
  c_fecHeaderSizePlus2 <= Wire.blen data ->
  let d0 := match dopt with Some d => d | None => dec_new 1 1 end in
  fst (kcp_input_log (mkRx _ _ [] dopt hd) data) =
    mkRx _ _ ((if rd16 (skipn 4 data) =? c_typeData
               then [(zdrop c_fecHeaderSizePlus2 data, c_IKCP_PACKET_REGULAR)] else [])
              ++ flat_map rec_feed (snd (dec_decode d0 data)))
         (Some (fst (dec_decode d0 data))) hd.
Proof using Type.
  intros Hflag Hlen. cbv zeta. unfold Frame.kcp_input. cbn [rx_core rx_dec rx_handler].
  assert (Hor : (rd16 (skipn 4 data) =? c_typeData) || (rd16 (skipn 4 data) =? c_typeParity) = true).
  { destruct Hflag as [-> | ->]; unfold c_typeData, c_typeParity; reflexivity. }
  rewrite Hor.
  destruct (Wire.blen data <? c_fecHeaderSizePlus2) eqn:E; [apply Z.ltb_lt in E; lia|].
  destruct (dec_decode match dopt with Some d => d | None => dec_new 1 1 end data) as [d1 recs].
  cbn [fst snd]. rewrite fold_feed_log. reflexivity.
Qed.
End DemuxFec.

(* ---------------------------------------------------------------- the FEC stage's packet bodies *)
Lemma data_body_flag seqid payload : rd16 (skipn 4 (data_body seqid payload)) = c_typeData.
Proof.
  unfold data_body. rewrite fec_body_eq. rewrite skipn4_hdr. apply rd16_le16. unfold c_typeData. lia.
Qed.

Lemma data_body_payload seqid payload : zdrop c_fecHeaderSizePlus2 (data_body seqid payload) = payload.
Proof. unfold data_body. rewrite fec_body_eq. reflexivity. Qed.

Lemma data_body_len seqid payload : Wire.blen (data_body seqid payload) = c_fecHeaderSizePlus2 + Wire.blen payload.
Proof. apply blen_fec_body. Qed.

Lemma parity_body_flag b : is_parity_body b -> rd16 (skipn 4 b) = c_typeParity.
Proof.
  intros (seqid & par & ->). unfold fec_hdr. rewrite <- app_assoc. rewrite skipn4_hdr.
  apply rd16_le16. unfold c_typeParity. lia.
Qed.

Section Encoder.
Variable rs_encode : Z -> Z -> list bytes -> list bytes.
Local Notation fec_encode := (Frame.fec_encode rs_encode).
Local Notation stage1w := (Frame.stage1w rs_encode).
Local Notation stage1w_run := (Frame.stage1w_run rs_encode).

Lemma seal_parities_class pars : forall next paws,
  Forall is_parity_body (fst (seal_parities next paws pars)).
Proof using Type.
  induction pars as [|par t IH]; intros next paws; [constructor|].
  cbn [seal_parities]. specialize (IH ((next + 1) mod paws) paws).
  destruct (seal_parities ((next + 1) mod paws) paws t) as [l nx]. cbn [fst] in *.
  constructor; [|exact IH]. exists next, par. reflexivity.
Qed.

Lemma fec_encode_parity_class e x now rto :
  Forall is_parity_body (snd (fec_encode e x now rto)).
Proof using Type.
  unfold Frame.fec_encode.
  destruct (fe_count e + 1 =? fe_d e); [|constructor].
  destruct (now - fe_ts e <? rto); [|constructor].
  match goal with |- context [seal_parities ?a ?b ?c] =>
    pose proof (seal_parities_class c a b) as H; destruct (seal_parities a b c) as [ps next2] end.
  exact H.
Qed.

(* one data request through the FEC stage: the data packet, then parity packets *)
Lemma stage1w_fec wire ov e r now : rq_oob r = false ->
  exists e1 ps,
    stage1w wire ov (Some e) r now = (Some e1, data_body (fe_next e) (rq_payload r), ps) /\
    Forall is_parity_body ps.
Proof using Type.
  intros Ho. unfold Frame.stage1w, Frame.stage1. rewrite Ho.
  pose proof (fec_encode_pkt rs_encode e (rq_payload r) now c_maxFECEncodeLatency) as Hb.
  pose proof (fec_encode_parity_class e (rq_payload r) now c_maxFECEncodeLatency) as Hp.
  destruct (fec_encode e (rq_payload r) now c_maxFECEncodeLatency) as [[e1 b] ps].
  cbn [fst snd] in Hb, Hp. subst b.
  exists e1, (drop_long_parity wire ov (fe_hoff e) ps). split; [reflexivity|].
  unfold drop_long_parity. destruct ps as [|p0 ps]; [constructor|].
  destruct ((0 <? wire) && (wire - ov <? fe_hoff e + Wire.blen p0)); [constructor|exact Hp].
Qed.

Lemma stage1w_run_app ov a : forall fe b,
  stage1w_run ov fe (a ++ b) =
    (fst (stage1w_run ov (fst (stage1w_run ov fe a)) b),
     snd (stage1w_run ov fe a) ++ snd (stage1w_run ov (fst (stage1w_run ov fe a)) b)).
Proof using Type.
  induction a as [|[[r now] wire] a IH]; intros fe b.
  - cbn [app Frame.stage1w_run fst snd]. destruct (stage1w_run ov fe b); reflexivity.
  - cbn [app Frame.stage1w_run]. destruct (stage1w wire ov fe r now) as [[fe1 bd] ps].
    rewrite IH. destruct (stage1w_run ov fe1 a) as [fe2 l]. cbn [fst snd].
    destruct (stage1w_run ov fe2 b) as [fe3 l2]. reflexivity.
Qed.

Lemma run_bodies_app (l1 l2 : list (req * bytes * list bytes)) :
  run_bodies (l1 ++ l2) = run_bodies l1 ++ run_bodies l2.
Proof using Type. unfold run_bodies. rewrite map_app, concat_app. reflexivity. Qed.

(* every body of a run over data requests is a data packet carrying one of the payloads, or a
   parity packet; the encoder stays configured *)
Lemma run_bodies_class ov hist : forall e,
  hist_data hist ->
  (exists e', fst (stage1w_run ov (Some e) hist) = Some e') /\
  Forall (fun b => (exists seqid p, b = data_body seqid p /\ In p (hist_payloads hist)) \/ is_parity_body b)
         (run_bodies (snd (stage1w_run ov (Some e) hist))).
Proof using Type.
  induction hist as [|[[r now] wire] hist IH]; intros e Hd.
  - cbn. split; [exists e; reflexivity|constructor].
  - inversion Hd as [|? ? Hr Hd']; subst. cbn [fst] in Hr.
    destruct (stage1w_fec wire ov e r now Hr) as (e1 & ps & E & Hps).
    cbn [Frame.stage1w_run]. rewrite E.
    destruct (IH e1 Hd') as ((e' & Efe) & Hcl).
    destruct (stage1w_run ov (Some e1) hist) as [fe2 l]. cbn [fst snd] in *.
    split; [exists e'; exact Efe|].
    unfold run_bodies. cbn [map concat fst snd]. fold (run_bodies l).
    unfold hist_payloads. cbn [map fst]. fold (hist_payloads hist).
    constructor; [left; exists (fe_next e), (rq_payload r); split; [reflexivity|left; reflexivity]|].
    apply Forall_app. split.
    + eapply Forall_impl; [|exact Hps]. intros b Hb. right. exact Hb.
    + eapply Forall_impl; [|exact Hcl]. intros b [(sq & p & Hb & Hin)|Hb]; [left|right; exact Hb].
      exists sq, p. split; [exact Hb|right; exact Hin].
Qed.
End Encoder.

(* ================================================================ the session system, FEC on *)
Section SessionFec.
Variable rs_encode : Z -> Z -> list bytes -> list bytes.
Variable K : crypto.
Variable c : cipher.
Variable nonce : nat -> bytes.
Variable Dec : Type.
Variable dec_new : Z -> Z -> Dec.
Variable dec_decode : Dec -> bytes -> Dec * list bytes.

Hypothesis laws : cipher_laws K c.
Hypothesis nonces : nonce_ok K c nonce.

Local Notation psys := (Pipe.psys Dec).
Local Notation pp_list := (Pipe.pp_list rs_encode K c nonce).
Local Notation psys_step := (Pipe.psys_step rs_encode K c nonce Dec dec_new dec_decode).
Local Notation psys_run := (Pipe.psys_run rs_encode K c nonce Dec dec_new dec_decode).
Local Notation proj := (Pipe.proj Dec).
Local Notation pev_ok := (Pipe.pev_ok Dec).
Local Notation framed := (Pipe.framed K c).
Local Notation input_feeds := (Pipe.input_feeds K c Dec dec_new dec_decode).
Local Notation deliver_feeds := (Pipe.deliver_feeds K c Dec dec_new dec_decode).
Local Notation proj_ev := (Pipe.proj_ev K c Dec dec_new dec_decode).
Local Notation proj_evs := (Pipe.proj_evs rs_encode K c nonce Dec dec_new dec_decode).
Local Notation stage1w := (Frame.stage1w rs_encode).
Local Notation stage1w_run := (Frame.stage1w_run rs_encode).
Local Notation ov := (aead_extra K c).
Local Notation dec_cur := (Pipe.dec_cur Dec dec_new).
Local Notation dec_after := (Pipe.dec_after Dec dec_decode).
Local Notation dec_sound := (Pipe.dec_sound rs_encode K c Dec dec_decode).
Local Notation base_inv := (PipeProofs.base_inv Dec).

(* ---------------------------------------------------------------- one nonce per packet that leaves *)
Lemma frame_all_framed bodies : forall used m, (length bodies <= m)%nat ->
  exists outs rest, frame_all K c bodies (nonces_from nonce used m) = (outs, rest) /\
                    Forall2 framed outs bodies.
Proof using nonces.
  induction bodies as [|b t IH]; intros used m Hm.
  - exists [], (nonces_from nonce used m). split; [reflexivity|constructor].
  - cbn [Frame.frame_all]. destruct (uses_nonce c) eqn:Hu.
    + destruct m as [|m]; [cbn in Hm; lia|].
      change (nonces_from nonce used (S m)) with (nonce used :: nonces_from nonce (S used) m).
      cbn [tl hd]. destruct (IH (S used) m) as (outs & rest & E & HF); [cbn in Hm; lia|].
      rewrite E. exists (frame K c (nonce used) b :: outs), rest. split; [reflexivity|].
      constructor; [|exact HF]. exists (nonce used). split; [apply nonces|reflexivity].
    + destruct (IH used m) as (outs & rest & E & HF); [cbn in Hm; lia|].
      rewrite E. exists (b :: outs), rest. split; [reflexivity|].
      constructor; [|exact HF]. exists []. clear laws nonces IH E HF.
      destruct c; try discriminate. split; reflexivity.
Qed.

(* postProcess over the datagrams of one core call = the FEC stage run over one request per
   datagram, every resulting body framed *)
Lemma pp_list_fec ds : forall fe used j tm,
  exists hist used' outs,
    pp_list fe used j tm ds = (fst (stage1w_run ov fe hist), used', outs) /\
    hist_data hist /\ hist_payloads hist = ds /\
    Forall2 framed outs (run_bodies (snd (stage1w_run ov fe hist))).
Proof using nonces.
  induction ds as [|d t IH]; intros fe used j tm.
  - exists [], used, []. cbn. split; [reflexivity|]. split; [constructor|]. split; [reflexivity|constructor].
  - cbn [Pipe.pp_list]. destruct (tm j) as [now wmtu] eqn:Etm. unfold pp_step.
    destruct (stage1w wmtu ov fe (mkReq d false) now) as [[fe1 b] ps] eqn:E1. cbn [snd].
    destruct (frame_all_framed (b :: ps) used (S (length ps))) as (outs1 & rest & Ef & HF1); [cbn; lia|].
    rewrite Ef.
    destruct (IH fe1 (used + (S (length ps) - length rest))%nat (S j) tm) as (hist & used' & outs & Ep & Hd & Hp & HF).
    rewrite Ep.
    exists ((mkReq d false, now, wmtu) :: hist), used', (outs1 ++ outs).
    cbn [Frame.stage1w_run]. rewrite E1.
    destruct (stage1w_run ov fe1 hist) as [fe2 l]. cbn [fst snd] in *.
    split; [reflexivity|]. split; [constructor; [reflexivity|exact Hd]|].
    split; [unfold hist_payloads in *; cbn [map fst rq_payload]; rewrite Hp; reflexivity|].
    unfold run_bodies. cbn [map concat fst snd]. fold (run_bodies l).
    change ((b :: ps) ++ run_bodies l) with ((b :: ps) ++ run_bodies l).
    apply Forall2_app; assumption.
Qed.

(* ---------------------------------------------------------------- a framed FEC body at packetInput *)
Lemma min_pkt_ge_fechdr : c_fecHeaderSizePlus2 <= min_pkt.
Proof using Type. unfold min_pkt, c_IKCP_OVERHEAD, c_fecHeaderSizePlus2, c_convSize. lia. Qed.

Lemma deliver_fec_body (core_input : kcp -> bytes -> Z -> kcp) (st : rxstate kcp Dec) n body :
  Wire.blen n = nonce_len K c ->
  rd16 (skipn 4 body) = c_typeData \/ rd16 (skipn 4 body) = c_typeParity ->
  let w := frame K c n body in
  let st1 := fst (packet_input K kcp Dec core_input dec_new dec_decode c st w) in
  (input_feeds st w = [] /\ rx_dec _ _ st1 = rx_dec _ _ st) \/
  (min_pkt <= Wire.blen body /\
   input_feeds st w =
     (if rd16 (skipn 4 body) =? c_typeData
      then [(zdrop c_fecHeaderSizePlus2 body, c_IKCP_PACKET_REGULAR)] else [])
     ++ flat_map rec_feed (snd (dec_decode (dec_cur st) body)) /\
   rx_dec _ _ st1 = Some (fst (dec_decode (dec_cur st) body))).
Proof using laws.
  intros Hn Hflag. cbv zeta.
  destruct (packet_input_as_log kcp Dec core_input dec_new dec_decode K c st (frame K c n body)) as (_ & Hd & _).
  cbv zeta in Hd. rewrite Hd. clear Hd.
  unfold Pipe.input_feeds, packet_input.
  destruct (unframe_frame_weak K c laws n body Hn) as [E|[E Hmin]]; rewrite E.
  - left. split; reflexivity.
  - right. split; [exact Hmin|].
    pose proof min_pkt_ge_fechdr as H8.
    rewrite (kcp_input_log_fec Dec dec_new dec_decode (rx_dec _ _ st) (rx_handler _ _ st) body Hflag) by lia.
    cbn [rx_core rx_dec]. split; reflexivity.
Qed.

(* ---------------------------------------------------------------- the invariant *)
Section Inv.
Variable e0 : fecenc.      (* the writer's encoder when the connection starts *)
Variable d0 : Dec.         (* the reader's decoder when the connection starts *)
Hypothesis sound : dec_sound e0 d0.

Local Notation bodies_of hist := (run_bodies (snd (stage1w_run ov (Some e0) hist))).

(* the two premises on what the writer's core emitted (both hold for every prefix once they
   hold for the whole history) *)
Definition fec_side (cw : list bytes) : Prop := fec_no_wrap e0 cw /\ fec_fits cw.

Record pinv2 (s : psys) : Prop := mkP2 {
  P2_base : base_inv s;
  P2_shape : Forall core_shape (cwire _ s);
  (* hist: one request per core datagram; h: the bodies the decoder has been fed *)
  P2_hist : exists hist h,
    hist_data hist /\
    fst (stage1w_run ov (Some e0) hist) = pfe _ s /\
    cwire _ s = hist_payloads hist /\
    Forall2 framed (swire _ s) (bodies_of hist) /\
    Forall (fun x => In x (bodies_of hist) /\ min_pkt <= Wire.blen x) h /\
    dec_cur (pB _ s) = dec_after d0 h
}.

Lemma pinv2_PA s o tm s1 :
  pinv2 s -> op_ok32 o -> psys_step s (PA o tm) = Some s1 ->
  sys_run (proj s) (proj_ev s (PA o tm)) (proj s1) /\ pinv2 s1.
Proof using nonces.
  intros [Hb Hsh (hist & h & Hd & Hfe & Hcw & Hsw & Hh & Hdec)] Hok Hst.
  destruct (sim_PA rs_encode K c nonce Dec dec_new dec_decode s o tm s1 Hb Hok Hst)
    as (Hs & Hb1 & k' & x & fe' & used' & outs & Es & Hout & Ep & Hfe1 & Hsw1 & Hcw1 & HB).
  split; [cbn [Pipe.proj_ev]; eapply run_cons; [exact Hok|exact Hs|apply run_nil]|].
  destruct (pp_list_fec (o_dgrams x) (pfe _ s) (pnon _ s) 0%nat tm) as (hist' & u2 & outs2 & Ep2 & Hd2 & Hp2 & HF2).
  rewrite Ep in Ep2. inversion Ep2 as [[E1 E2 E3]].
  constructor; [exact Hb1| |].
  - rewrite Hcw1. apply Forall_app. split; [exact Hsh|].
    eapply Forall_impl; [|exact Hout]. intros d Hdg. exists k'. exact Hdg.
  - exists (hist ++ hist'), h.
    rewrite (stage1w_run_app rs_encode ov hist (Some e0) hist'). cbn [fst snd].
    rewrite Hfe, run_bodies_app.
    split; [apply Forall_app; split; assumption|].
    split; [congruence|].
    split; [rewrite Hcw1, Hcw, <- Hp2; unfold hist_payloads; rewrite map_app; reflexivity|].
    split; [rewrite Hsw1, E3; apply Forall2_app; assumption|].
    split; [|rewrite HB; exact Hdec].
    eapply Forall_impl; [|exact Hh]. intros b [Hin Hm]. split; [apply in_or_app; left; exact Hin|exact Hm].
Qed.

Lemma pinv2_PB s o s1 :
  pinv2 s -> op_ok32 o -> match o with OInput _ _ _ _ => False | _ => True end ->
  psys_step s (PB o) = Some s1 ->
  sys_run (proj s) (proj_ev s (PB o)) (proj s1) /\ pinv2 s1.
Proof using Type.
  intros [Hb Hsh (hist & h & Hd & Hfe & Hcw & Hsw & Hh & Hdec)] Hok Hni Hst.
  destruct (sim_PB rs_encode K c nonce Dec dec_new dec_decode s o s1 Hb Hok Hni Hst)
    as (Hev & Hs & Hb1 & Hfe1 & Hsw1 & Hcw1 & Hdc & _).
  split; [cbn [Pipe.proj_ev]; eapply run_cons; [exact Hev|exact Hs|apply run_nil]|].
  constructor; [exact Hb1|rewrite Hcw1; exact Hsh|].
  exists hist, h. rewrite Hfe1, Hsw1, Hcw1. unfold Pipe.dec_cur in *. rewrite Hdc. auto 10.
Qed.

(* a delivered datagram is a framed body of the encoder's history: a data packet carrying a core
   datagram or a parity packet; either packetInput drops it (possible only when the cipher
   changes lengths), or it feeds the core datagram as REGULAR (data packets only), the body to
   the decoder, and what the decoder recovers as IKCP_PACKET_FEC *)
Lemma deliver_feeds_2 (core_input : kcp -> bytes -> Z -> kcp) hist s i w :
  hist_data hist -> Forall2 framed (swire _ s) (bodies_of hist) ->
  nth_error (swire _ s) i = Some w ->
  exists body,
    In body (bodies_of hist) /\ framed w body /\
    ((exists seqid d, body = data_body seqid d /\ In d (hist_payloads hist)) \/ is_parity_body body) /\
    let st1 := fst (packet_input K kcp Dec core_input dec_new dec_decode c (pB _ s) w) in
    (deliver_feeds s i = [] /\ rx_dec _ _ st1 = rx_dec _ _ (pB _ s)) \/
    (min_pkt <= Wire.blen body /\
     deliver_feeds s i =
       (if rd16 (skipn 4 body) =? c_typeData
        then [(zdrop c_fecHeaderSizePlus2 body, c_IKCP_PACKET_REGULAR)] else [])
       ++ flat_map rec_feed (snd (dec_decode (dec_cur (pB _ s)) body)) /\
     rx_dec _ _ st1 = Some (fst (dec_decode (dec_cur (pB _ s)) body))).
Proof using laws.
  intros Hd Hsw En.
  destruct (Forall2_nth_l _ _ _ Hsw i w En) as (body & Hbd & Hfr).
  pose proof (nth_error_In _ _ Hbd) as Hbin.
  destruct (run_bodies_class rs_encode ov hist e0 Hd) as (_ & Hcl).
  rewrite Forall_forall in Hcl. specialize (Hcl body Hbin).
  exists body. split; [exact Hbin|]. split; [exact Hfr|]. split; [exact Hcl|].
  assert (Hflag : rd16 (skipn 4 body) = c_typeData \/ rd16 (skipn 4 body) = c_typeParity).
  { destruct Hcl as [(sq & p & -> & _)|Hp]; [left; apply data_body_flag|right; apply parity_body_flag; exact Hp]. }
  destruct Hfr as (n & Hn & ->).
  unfold Pipe.deliver_feeds. rewrite En.
  exact (deliver_fec_body core_input (pB _ s) n body Hn Hflag).
Qed.

Lemma pinv2_feeds s i :
  pinv2 s -> fec_side (cwire _ s) ->
  Forall (fun f : bytes * Z => In (fst f) (cwire _ s)) (deliver_feeds s i).
Proof using laws sound.
  intros [Hb Hsh (hist & h & Hd & Hfe & Hcw & Hsw & Hh & Hdec)] Hnw.
  destruct (nth_error (swire _ s) i) as [w|] eqn:En;
    [|unfold Pipe.deliver_feeds; rewrite En; constructor].
  destruct (deliver_feeds_2 (fun k _ _ => k) hist s i w Hd Hsw En) as (body & Hbin & _ & Hcl & Hfeed).
  cbv zeta in Hfeed.
  destruct Hfeed as [(-> & _)|(Hm & -> & _)]; [constructor|]. apply Forall_app. split.
  - destruct Hcl as [(sq & p & -> & Hp)|Hp].
    + rewrite data_body_flag, Z.eqb_refl, data_body_payload. constructor; [|constructor].
      cbn [fst]. rewrite Hcw. exact Hp.
    + rewrite (parity_body_flag body Hp). unfold c_typeParity, c_typeData. cbn. constructor.
  - apply Forall_forall. intros f Hf. apply in_flat_map in Hf as (r & Hr & Hf).
    unfold rec_feed in Hf. destruct (rec_payload r) as [p|] eqn:Erp; [|destruct Hf].
    destruct Hf as [<-|[]]. cbn [fst]. rewrite Hcw.
    rewrite Hdec in Hr.
    destruct Hnw as [Hnw Hfit].
    refine (sound hist h body Hd _ _ _ r p Hr Erp); [rewrite <- Hcw; exact Hnw| |].
    { rewrite <- Hcw. destruct Hb as [[_ Hgen] _]. cbn [Pipe.proj wire] in Hgen.
      unfold fec_fits in Hfit. rewrite Forall_forall in Hgen, Hfit. apply Forall_forall. intros x Hx.
      split; [apply Hfit; exact Hx|]. exact (NetReceiverBase.nr_dgram_bytes _ _ _ (Hgen x Hx)). }
    cbv zeta. apply Forall_app. split; [exact Hh|]. constructor; [|constructor]. split; assumption.
Qed.

Lemma pinv2_deliver s i nd now s1 :
  pinv2 s -> fec_side (cwire _ s) -> is_u32 now -> psys_step s (PDeliver i nd now) = Some s1 ->
  sys_run (proj s) (proj_ev s (PDeliver i nd now)) (proj s1) /\ pinv2 s1.
Proof using laws sound.
  intros Hp Hnw Hnow Hst. pose proof (pinv2_feeds s i Hp Hnw) as Hin.
  destruct Hp as [Hb Hsh (hist & h & Hd & Hfe & Hcw & Hsw & Hh & Hdec)].
  destruct (sim_deliver rs_encode K c nonce Dec dec_new dec_decode s i nd now s1 Hb Hnow Hst Hin)
    as (Hrun & Hb1 & Hfe1 & Hsw1 & Hcw1 & _).
  split; [exact Hrun|].
  constructor; [exact Hb1|rewrite Hcw1; exact Hsh|].
  cbn [Pipe.psys_step] in Hst.
  destruct (nth_error (swire _ s) i) as [w|] eqn:En; [|discriminate].
  injection Hst as Es1.
  destruct (deliver_feeds_2 (core_in nd now) hist s i w Hd Hsw En) as (body & Hbin & _ & _ & Hfeed).
  cbv zeta in Hfeed.
  assert (Edc1 : forall x, rx_dec _ _ (pB _ s1) = x ->
            dec_cur (pB _ s1) = match x with Some d => d | None => dec_new 1 1 end).
  { intros x <-. reflexivity. }
  rewrite <- Es1 in Edc1. cbn [pB] in Edc1.
  destruct Hfeed as [(_ & Edc)|(Hm & _ & Edc)]; specialize (Edc1 _ Edc); rewrite <- Es1; cbn [pB pfe swire cwire].
  - exists hist, h. rewrite Edc1. fold (dec_cur (pB _ s)). auto 10.
  - exists hist, (h ++ [body]). rewrite Edc1, Hdec.
    split; [exact Hd|]. split; [exact Hfe|]. split; [exact Hcw|]. split; [exact Hsw|].
    split; [apply Forall_app; split; [exact Hh|constructor; [split; assumption|constructor]]|].
    symmetry. apply dec_after_app.
Qed.

(* ---------------------------------------------------------------- runs *)
Lemma step_cwire_mono s e s1 : psys_step s e = Some s1 -> exists ext, cwire _ s1 = cwire _ s ++ ext.
Proof using Type.
  destruct e as [o tm|o|i nd now]; cbn [Pipe.psys_step]; intros H.
  - destruct (step (pA _ s) o) as [[k' x]|]; [|discriminate].
    destruct (pp_list (pfe _ s) (pnon _ s) 0 tm (o_dgrams x)) as [[fe' used'] outs].
    injection H as <-. exists (o_dgrams x). reflexivity.
  - destruct (step (rx_core _ _ (pB _ s)) o) as [[k' x]|]; [|discriminate].
    injection H as <-. exists []. cbn. rewrite app_nil_r. reflexivity.
  - destruct (nth_error (swire _ s) i); [|discriminate].
    injection H as <-. exists []. cbn. rewrite app_nil_r. reflexivity.
Qed.

Lemma run_cwire_mono s evs s' : psys_run s evs s' -> exists ext, cwire _ s' = cwire _ s ++ ext.
Proof using Type.
  induction 1 as [s|s e s1 t s2 Hok Hst Hrun IH]; [exists []; rewrite app_nil_r; reflexivity|].
  destruct (step_cwire_mono s e s1 Hst) as (x1 & E1). destruct IH as (x2 & E2).
  exists (x1 ++ x2). rewrite E2, E1, app_assoc. reflexivity.
Qed.

Lemma fec_side_mono cw ext : fec_side (cw ++ ext) -> fec_side cw.
Proof using Type.
  unfold fec_side, fec_no_wrap, fec_fits. rewrite app_length. intros [[Hp H] Hf].
  apply Forall_app in Hf. split; [split; [exact Hp|nia]|apply Hf].
Qed.

Lemma pinv2_step s e s1 :
  pinv2 s -> fec_side (cwire _ s) -> pev_ok s e -> psys_step s e = Some s1 ->
  sys_run (proj s) (proj_ev s e) (proj s1) /\ pinv2 s1.
Proof using laws nonces sound.
  intros Hp Hnw Hok Hst. destruct e as [o tm|o|i nd now].
  - apply pinv2_PA; assumption.
  - destruct Hok as [Hok Hni]. apply pinv2_PB; assumption.
  - apply pinv2_deliver; assumption.
Qed.

Lemma pinv2_run s evs s' :
  psys_run s evs s' -> pinv2 s -> fec_side (cwire _ s') ->
  sys_run (proj s) (proj_evs s evs) (proj s') /\ pinv2 s'.
Proof using laws nonces sound.
  induction 1 as [s|s e s1 t s2 Hok Hst Hrun IH]; intros Hp Hnw.
  - split; [apply run_nil|exact Hp].
  - destruct (run_cwire_mono s1 t s2 Hrun) as (x2 & E2).
    destruct (step_cwire_mono s e s1 Hst) as (x1 & E1).
    assert (Hnw1 : fec_side (cwire _ s1)) by (rewrite E2 in Hnw; exact (fec_side_mono _ _ Hnw)).
    assert (Hnw0 : fec_side (cwire _ s)) by (rewrite E1 in Hnw1; exact (fec_side_mono _ _ Hnw1)).
    destruct (pinv2_step s e s1 Hp Hnw0 Hok Hst) as (H1 & Hp1).
    destruct (IH Hp1 Hnw) as (H2 & Hp2). split; [|exact Hp2].
    cbn [Pipe.proj_evs]. rewrite Hst.
    eapply (sys_run_app); eassumption.
Qed.

Lemma pinv2_init s0 :
  psys_init Dec s0 -> pfe _ s0 = Some e0 -> dec_cur (pB _ s0) = d0 -> pinv2 s0.
Proof using Type.
  intros [Hi Hsw] Hfe Hdc.
  destruct (init_sides (proj s0) [] Hi) as (HA & HR & _).
  assert (Hcw : cwire _ s0 = []) by (destruct Hi as (_ & _ & _ & _ & _ & _ & _ & _ & _ & _ & _ & Hw); exact Hw).
  constructor.
  - split; [exact HA|exact (RI_inv _ _ _ HR)].
  - rewrite Hcw. constructor.
  - exists [], []. cbn [Frame.stage1w_run fst snd]. rewrite Hsw, Hcw, Hfe, Hdc.
    split; [constructor|]. split; [reflexivity|]. split; [reflexivity|].
    split; [constructor|]. split; [constructor|reflexivity].
Qed.
(* what PDeliver i feeds the core: for a data packet the core datagram it carries, as REGULAR,
   then the recovered datagrams as IKCP_PACKET_FEC; for a parity packet only recovered ones *)
Lemma pinv2_deliver_shape s i w :
  pinv2 s -> nth_error (swire _ s) i = Some w ->
  exists body, framed w body /\
    let recs := snd (dec_decode (dec_cur (pB _ s)) body) in
    ((exists seqid d, body = data_body seqid d /\ In d (cwire _ s) /\
        (deliver_feeds s i = [] \/
         deliver_feeds s i = (d, c_IKCP_PACKET_REGULAR) :: flat_map rec_feed recs)) \/
     (is_parity_body body /\
        (deliver_feeds s i = [] \/ deliver_feeds s i = flat_map rec_feed recs))).
Proof using laws.
  intros [Hb Hsh (hist & h & Hd & Hfe & Hcw & Hsw & Hh & Hdec)] En.
  destruct (deliver_feeds_2 (fun k _ _ => k) hist s i w Hd Hsw En) as (body & Hbin & Hfr & Hcl & Hfeed).
  cbv zeta in Hfeed. exists body. split; [exact Hfr|]. cbv zeta.
  destruct Hcl as [(sq & d & Eb & Hp)|Hp]; [left|right].
  - exists sq, d. split; [exact Eb|]. split; [rewrite Hcw; exact Hp|].
    destruct Hfeed as [(E & _)|(_ & E & _)]; [left; exact E|right].
    rewrite E. subst body. rewrite data_body_flag, Z.eqb_refl, data_body_payload. reflexivity.
  - split; [exact Hp|].
    destruct Hfeed as [(E & _)|(_ & E & _)]; [left; exact E|right].
    rewrite E. rewrite (parity_body_flag body Hp). reflexivity.
Qed.
End Inv.

(* ================================================================ Stage 2 theorems *)
Theorem pipe2_run_projects s0 evs s e0 :
  psys_init Dec s0 -> pfe _ s0 = Some e0 -> dec_sound e0 (dec_cur (pB _ s0)) ->
  psys_run s0 evs s -> fec_no_wrap e0 (cwire _ s) -> fec_fits (cwire _ s) ->
  sys_init (proj s0) /\ sys_run (proj s0) (proj_evs s0 evs) (proj s) /\
  (forall i, Forall (fun f : bytes * Z => In (fst f) (cwire _ s)) (deliver_feeds s i)) /\
  (forall i w, nth_error (swire _ s) i = Some w ->
     exists body, framed w body /\
       let recs := snd (dec_decode (dec_cur (pB _ s)) body) in
       ((exists seqid d, body = data_body seqid d /\ In d (cwire _ s) /\
           (deliver_feeds s i = [] \/
            deliver_feeds s i = (d, c_IKCP_PACKET_REGULAR) :: flat_map rec_feed recs)) \/
        (is_parity_body body /\
           (deliver_feeds s i = [] \/ deliver_feeds s i = flat_map rec_feed recs)))).
Proof using laws nonces.
  intros Hi Hfe Hsound Hrun Hnw0 Hfit.
  assert (Hnw : fec_side e0 (cwire _ s)) by (split; assumption).
  pose proof (pinv2_init e0 (dec_cur (pB _ s0)) s0 Hi Hfe eq_refl) as Hp0.
  destruct (pinv2_run e0 _ Hsound s0 evs s Hrun Hp0 Hnw) as (Hr & Hp).
  split; [exact (proj1 Hi)|]. split; [exact Hr|]. split.
  - intros i. exact (pinv2_feeds e0 _ Hsound s i Hp Hnw).
  - intros i w En. exact (pinv2_deliver_shape e0 _ s i w Hp En).
Qed.

Theorem pipe2_stream_prefix s0 evs s e0 :
  psys_init Dec s0 -> pfe _ s0 = Some e0 -> dec_sound e0 (dec_cur (pB _ s0)) ->
  psys_run s0 evs s -> fec_no_wrap e0 (cwire _ s) -> fec_fits (cwire _ s) ->
  stream (pA _ s0) <> 0 -> no_wrap (sg_numbered (pgA _ s)) ->
  is_prefix (concat (rg_delivered (pgB _ s))) (concat (sg_accepted (pgA _ s))).
Proof using laws nonces.
  intros Hi Hfe Hsound Hrun Hfw Hfit Hstr Hnw.
  destruct (pipe2_run_projects s0 evs s e0 Hi Hfe Hsound Hrun Hfw Hfit) as (Hsi & Hr & _).
  exact (net_stream_prefix (proj s0) _ (proj s) Hsi Hr Hstr Hnw).
Qed.

Theorem pipe2_message_prefix s0 evs s e0 :
  psys_init Dec s0 -> pfe _ s0 = Some e0 -> dec_sound e0 (dec_cur (pB _ s0)) ->
  psys_run s0 evs s -> fec_no_wrap e0 (cwire _ s) -> fec_fits (cwire _ s) ->
  stream (pA _ s0) = 0 -> no_wrap (sg_numbered (pgA _ s)) ->
  is_prefix (rg_delivered (pgB _ s)) (sg_accepted (pgA _ s)).
Proof using laws nonces.
  intros Hi Hfe Hsound Hrun Hfw Hfit Hstr Hnw.
  destruct (pipe2_run_projects s0 evs s e0 Hi Hfe Hsound Hrun Hfw Hfit) as (Hsi & Hr & _).
  exact (net_message_prefix (proj s0) _ (proj s) Hsi Hr Hstr Hnw).
Qed.

Theorem pipe2_run_safe s0 evs s e0 :
  psys_init Dec s0 -> pfe _ s0 = Some e0 -> dec_sound e0 (dec_cur (pB _ s0)) ->
  psys_run s0 evs s -> fec_no_wrap e0 (cwire _ s) -> fec_fits (cwire _ s) ->
  inv (pA _ s) /\ inv (rx_core _ _ (pB _ s)).
Proof using laws nonces.
  intros Hi Hfe Hsound Hrun Hfw Hfit.
  destruct (pipe2_run_projects s0 evs s e0 Hi Hfe Hsound Hrun Hfw Hfit) as (Hsi & Hr & _).
  exact (net_run_inv (proj s0) _ (proj s) Hsi Hr).
Qed.
End SessionFec.
