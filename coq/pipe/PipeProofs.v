(* The session pipeline is transparent: every run of the two-session system of Pipe.v projects
   to a run of the two-core system of Net.v, so C01's prefix theorems hold for sessions. *)
From Coq Require Import ZArith List Bool Lia.
From KV.Base Require Import Consts Word WordLemmas.
From KV.Kcp Require Import Kcp Step Net InvAll NetAll.
From KV.Frame Require Import Wire Frame WireProofs.
From KV.Pipe Require Import Pipe.
Import ListNotations.
Local Open Scope Z_scope.

Ltac Zify.zify_post_hook ::= idtac.

(* Kcp.v and Wire.v each define `bytes`, `blen`; they are convertible *)
Lemma blen_same (b : list Z) : Kcp.blen b = Wire.blen b.
Proof. reflexivity. Qed.

(* ---------------------------------------------------------------- list facts *)
Lemma Forall2_nth_l {A B} (R : A -> B -> Prop) (l : list A) (m : list B) :
  Forall2 R l m -> forall i a, nth_error l i = Some a -> exists b, nth_error m i = Some b /\ R a b.
Proof.
  induction 1 as [|x y l m Hxy HF IH]; intros i a Hn.
  - destruct i; discriminate.
  - destruct i as [|i]; cbn in Hn |- *.
    + inversion Hn; subst. exists y. split; [reflexivity|exact Hxy].
    + apply IH. exact Hn.
Qed.

Lemma Forall2_app_both {A B} (R : A -> B -> Prop) l1 m1 l2 m2 :
  Forall2 R l1 m1 -> Forall2 R l2 m2 -> Forall2 R (l1 ++ l2) (m1 ++ m2).
Proof. intros H1 H2. apply Forall2_app; assumption. Qed.

(* ---------------------------------------------------------------- packetInput inverts frame *)
Section Unframe.
Variable K : crypto.
Variable c : cipher.
Hypothesis laws : cipher_laws K c.

(* with the cipher laws alone a framed body either comes back as it was or is dropped *)
Lemma unframe_frame_weak n body :
  Wire.blen n = nonce_len K c ->
  unframe K c (frame K c n body) = None \/
  (unframe K c (frame K c n body) = Some body /\ min_pkt <= Wire.blen body).
Proof using laws.
  intros Hn.
  assert (Hfin : (if Wire.blen body <? min_pkt then None else Some body) = None \/
                 ((if Wire.blen body <? min_pkt then None else Some body) = Some body /\ min_pkt <= Wire.blen body)).
  { destruct (Wire.blen body <? min_pkt) eqn:E; [left; reflexivity|right]. apply Z.ltb_ge in E. auto. }
  destruct c; unfold unframe, frame, nonce_len, cipher_laws in *.
  - exact Hfin.
  - destruct laws as (dec_enc & crc_range).
    destruct (Wire.blen (k_enc K (n ++ le32 (k_crc K body) ++ body)) <? c_cryptHeaderSize); [left; reflexivity|].
    rewrite dec_enc. unfold c_nonceSize, c_crcSize in *.
    rewrite zdrop_app_len by assumption.
    rewrite (zdrop_app_len 4 (le32 (k_crc K body)) body) by reflexivity.
    rewrite rd32_le32 by apply crc_range. rewrite Z.eqb_refl. exact Hfin.
  - destruct (Wire.blen (n ++ k_seal K n body) <? k_ns K + k_ov K); [left; reflexivity|].
    rewrite ztake_app_len, zdrop_app_len by assumption. rewrite laws. exact Hfin.
Qed.

Hypothesis len_laws : cipher_len_laws K c.

Lemma unframe_frame_gen n body :
  Wire.blen n = nonce_len K c ->
  unframe K c (frame K c n body) = if Wire.blen body <? min_pkt then None else Some body.
Proof using laws len_laws.
  intros Hn. pose proof (blen_nonneg body) as Hb.
  destruct c; unfold unframe, frame, nonce_len, cipher_laws, cipher_len_laws in *.
  - reflexivity.
  - destruct laws as (dec_enc & crc_range).
    assert (El : Wire.blen (k_enc K (n ++ le32 (k_crc K body) ++ body)) = 16 + (4 + Wire.blen body)).
    { rewrite len_laws. rewrite !blen_app, blen_le32, Hn. reflexivity. }
    rewrite El, dec_enc. unfold c_cryptHeaderSize, c_nonceSize, c_crcSize in *.
    destruct (16 + (4 + Wire.blen body) <? 20) eqn:E; [apply Z.ltb_lt in E; lia|].
    rewrite zdrop_app_len by assumption.
    rewrite (zdrop_app_len 4 (le32 (k_crc K body)) body) by reflexivity.
    rewrite rd32_le32 by apply crc_range. rewrite Z.eqb_refl. reflexivity.
  - assert (El : Wire.blen (n ++ k_seal K n body) = k_ns K + (Wire.blen body + k_ov K)).
    { rewrite blen_app, Hn, len_laws. reflexivity. }
    rewrite El.
    destruct (k_ns K + (Wire.blen body + k_ov K) <? k_ns K + k_ov K) eqn:E; [apply Z.ltb_lt in E; lia|].
    rewrite ztake_app_len, zdrop_app_len by assumption. rewrite laws. reflexivity.
Qed.

Lemma unframe_framed w d :
  framed K c w d -> min_pkt <= Wire.blen d -> unframe K c w = Some d.
Proof using laws len_laws.
  intros (n & Hn & ->) Hmin. rewrite unframe_frame_gen by exact Hn.
  destruct (Wire.blen d <? min_pkt) eqn:E; [apply Z.ltb_lt in E; lia|reflexivity].
Qed.
End Unframe.

(* ---------------------------------------------------------------- what a core datagram looks like *)
(* a datagram the core emits starts with a well-formed segment header (Step.dgram_ok) *)
Definition core_shape (d : bytes) : Prop := exists k, dgram_ok k d.

Lemma core_shape_head d : core_shape d ->
  exists s rest, d = Kcp.encode_seg s ++ rest /\ cmd_ok (s_cmd s).
Proof.
  intros (k & _ & segs & Hne & Hd & Hok).
  destruct segs as [|s segs]; [congruence|].
  inversion Hok as [|? ? Hs _]; subst. exists s, (concat (map Kcp.encode_seg segs)).
  split; [reflexivity|]. apply Hs.
Qed.

Lemma core_shape_len d : core_shape d -> c_IKCP_OVERHEAD <= Wire.blen d.
Proof.
  intros H. destruct (core_shape_head d H) as (s & rest & -> & _).
  unfold Kcp.encode_seg. rewrite !blen_app, !blen_le32, blen_le16.
  pose proof (blen_nonneg (s_data s)). pose proof (blen_nonneg rest).
  unfold c_IKCP_OVERHEAD. change (Wire.blen [s_cmd s; s_frg s]) with 2. lia.
Qed.

Lemma core_shape_flag d : core_shape d ->
  let flag := rd16 (skipn 4 d) in
  flag <> c_typeData /\ flag <> c_typeParity /\ flag <> c_typeOOB.
Proof.
  intros H. destruct (core_shape_head d H) as (s & rest & -> & Hc).
  unfold Kcp.encode_seg.
  change (rd16 (skipn 4 ((le32 (s_conv s) ++ [s_cmd s; s_frg s] ++ le16 (s_wnd s) ++ le32 (s_ts s) ++
            le32 (s_sn s) ++ le32 (s_una s) ++ le32 (Kcp.blen (s_data s)) ++ s_data s) ++ rest)))
    with (s_cmd s + 256 * s_frg s).
  cbv zeta. unfold cmd_ok, c_IKCP_CMD_PUSH, c_IKCP_CMD_ACK, c_IKCP_CMD_WASK, c_IKCP_CMD_WINS in Hc.
  unfold c_typeData, c_typeParity, c_typeOOB. lia.
Qed.

(* ---------------------------------------------------------------- the demultiplexer, any core *)
Section DemuxFacts.
Variables Core Dec : Type.
Variable core_input : Core -> bytes -> Z -> Core.
Variable dec_new : Z -> Z -> Dec.
Variable dec_decode : Dec -> bytes -> Dec * list bytes.
Local Notation kcp_input := (Frame.kcp_input Core Dec core_input dec_new dec_decode).
Local Notation kcp_input_log := (Frame.kcp_input (list (bytes * Z)) Dec log_input dec_new dec_decode).

Definition apply_feed (k : Core) (f : bytes * Z) : Core := core_input k (fst f) (snd f).

(* a packet whose bytes 4..5 are not an FEC type word goes to the core as it is *)
Lemma kcp_input_raw st data :
  rd16 (skipn 4 data) <> c_typeData -> rd16 (skipn 4 data) <> c_typeParity ->
  rd16 (skipn 4 data) <> c_typeOOB ->
  kcp_input st data =
    (mkRx _ _ (core_input (rx_core _ _ st) data c_IKCP_PACKET_REGULAR) (rx_dec _ _ st) (rx_handler _ _ st), []).
Proof using Type.
  intros H1 H2 H3. unfold Frame.kcp_input.
  apply Z.eqb_neq in H1, H2, H3. rewrite H1, H2, H3. reflexivity.
Qed.

Lemma feed_recovered_log recs : forall (l : list (bytes * Z)) (k0 : Core),
  fold_left (feed_recovered Core core_input) recs (fold_left apply_feed l k0) =
  fold_left apply_feed (fold_left (feed_recovered _ log_input) recs l) k0.
Proof using Type.
  induction recs as [|r recs IH]; intros l k0; [reflexivity|].
  cbn [fold_left]. unfold feed_recovered at 2 4.
  destruct (2 <=? Wire.blen r); [|apply IH].
  destruct ((rd16 r <=? Wire.blen r) && (2 <=? rd16 r)); [|apply IH].
  rewrite <- IH. f_equal. unfold log_input. rewrite fold_left_app. reflexivity.
Qed.

(* the core after kcpInput = the core before, fed what the logging core recorded; the decoder
   and the handler flag do not depend on the core at all *)
Lemma kcp_input_as_log st data :
  let stl := mkRx (list (bytes * Z)) Dec [] (rx_dec _ _ st) (rx_handler _ _ st) in
  rx_core _ _ (fst (kcp_input st data)) =
    fold_left apply_feed (rx_core _ _ (fst (kcp_input_log stl data))) (rx_core _ _ st) /\
  rx_dec _ _ (fst (kcp_input st data)) = rx_dec _ _ (fst (kcp_input_log stl data)) /\
  rx_handler _ _ (fst (kcp_input st data)) = rx_handler _ _ st.
Proof using Type.
  cbv zeta. unfold Frame.kcp_input. cbn [rx_core rx_dec rx_handler].
  destruct ((rd16 (skipn 4 data) =? c_typeData) || (rd16 (skipn 4 data) =? c_typeParity)).
  - destruct (Wire.blen data <? c_fecHeaderSizePlus2); [cbn [fst rx_core rx_dec rx_handler]; auto|].
    destruct (dec_decode match rx_dec Core Dec st with Some d => d | None => dec_new 1 1 end data) as [d1 recs].
    cbn [fst rx_core rx_dec rx_handler]. split; [|split; reflexivity].
    destruct (rd16 (skipn 4 data) =? c_typeData).
    + rewrite <- feed_recovered_log. reflexivity.
    + rewrite <- feed_recovered_log. reflexivity.
  - destruct (rd16 (skipn 4 data) =? c_typeOOB); cbn [fst rx_core rx_dec rx_handler]; auto.
Qed.
Lemma packet_input_as_log K c st w :
  let stl := mkRx (list (bytes * Z)) Dec [] (rx_dec _ _ st) (rx_handler _ _ st) in
  let r := fst (Frame.packet_input K Core Dec core_input dec_new dec_decode c st w) in
  let rl := fst (Frame.packet_input K (list (bytes * Z)) Dec log_input dec_new dec_decode c stl w) in
  rx_core _ _ r = fold_left apply_feed (rx_core _ _ rl) (rx_core _ _ st) /\
  rx_dec _ _ r = rx_dec _ _ rl /\ rx_handler _ _ r = rx_handler _ _ st.
Proof using Type.
  cbv zeta. unfold Frame.packet_input. destruct (unframe K c w) as [d|].
  - apply kcp_input_as_log.
  - cbn [fst rx_core rx_dec rx_handler fold_left]. auto.
Qed.
End DemuxFacts.

(* ================================================================ the session system *)
Section SessionProofs.
Variable rs_encode : Z -> Z -> list bytes -> list bytes.
Variable K : crypto.
Variable c : cipher.
Variable nonce : nat -> bytes.
Variable Dec : Type.
Variable dec_new : Z -> Z -> Dec.
Variable dec_decode : Dec -> bytes -> Dec * list bytes.

Hypothesis laws : cipher_laws K c.
Hypothesis nonces : nonce_ok K c nonce.

Local Notation psys := (Pipe.psys Dec).
Local Notation pp_list := (Pipe.pp_list rs_encode K c nonce).
Local Notation psys_step := (Pipe.psys_step rs_encode K c nonce Dec dec_new dec_decode).
Local Notation psys_run := (Pipe.psys_run rs_encode K c nonce Dec dec_new dec_decode).
Local Notation proj := (Pipe.proj Dec).
Local Notation pev_ok := (Pipe.pev_ok Dec).
Local Notation framed := (Pipe.framed K c).
Local Notation input_feeds := (Pipe.input_feeds K c Dec dec_new dec_decode).
Local Notation deliver_feeds := (Pipe.deliver_feeds K c Dec dec_new dec_decode).
Local Notation proj_ev := (Pipe.proj_ev K c Dec dec_new dec_decode).
Local Notation proj_evs := (Pipe.proj_evs rs_encode K c nonce Dec dec_new dec_decode).

(* ---------------------------------------------------------------- FEC off: one datagram in, one out *)
Lemma pp_step_none wmtu d now n :
  pp_step rs_encode K c None wmtu (mkReq d false) now [n] =
    (None, [frame K c n d], if uses_nonce c then [] else [n]).
Proof using Type. clear laws nonces. destruct c; reflexivity. Qed.

Lemma pp_list_none ds : forall used j tm,
  exists used' outs, pp_list None used j tm ds = (None, used', outs) /\ Forall2 framed outs ds.
Proof using nonces.
  induction ds as [|d t IH]; intros used j tm.
  - exists used, []. split; [reflexivity|constructor].
  - cbn [Pipe.pp_list]. destruct (tm j) as [now wmtu].
    change (S (length (snd (stage1w rs_encode wmtu (aead_extra K c) None (mkReq d false) now)))) with 1%nat.
    change (nonces_from nonce used 1) with [nonce used].
    rewrite pp_step_none.
    destruct (IH (used + (1 - length (if uses_nonce c then [] else [nonce used])))%nat (S j) tm)
      as (used' & outs & E & HF).
    rewrite E. exists used', ([frame K c (nonce used) d] ++ outs). split; [reflexivity|].
    constructor; [|exact HF]. exists (nonce used). split; [apply nonces|reflexivity].
Qed.

(* ---------------------------------------------------------------- what both stages share *)
(* the two cores along a session run: Net.v's sender side, the reader core's invariant *)
Definition base_inv (s : psys) : Prop := a_side (proj s) /\ inv (sB (proj s)).

Lemma base_inv_step s e s1 :
  base_inv s -> ev_ok (proj s) e -> sys_step (proj s) e = Some s1 ->
  a_side s1 /\ inv (sB s1).
Proof using Type.
  intros [HA HB] Hok Hst. destruct (a_side_step _ _ _ HA HB Hok Hst) as (HA1 & HB1 & _). auto.
Qed.

(* a call on the writer's core *)
Lemma sim_PA s o tm s1 :
  base_inv s -> op_ok32 o -> psys_step s (PA o tm) = Some s1 ->
  sys_step (proj s) (EA o) = Some (proj s1) /\ base_inv s1 /\
  exists k' x fe' used' outs,
    step (pA _ s) o = Ok (k', x) /\ out_ok k' x /\
    pp_list (pfe _ s) (pnon _ s) 0 tm (o_dgrams x) = (fe', used', outs) /\
    pfe _ s1 = fe' /\ swire _ s1 = swire _ s ++ outs /\ cwire _ s1 = cwire _ s ++ o_dgrams x /\
    pB _ s1 = pB _ s.
Proof using Type.
  intros Hb Hok Hst. cbn [Pipe.psys_step] in Hst.
  destruct (step (pA _ s) o) as [[k' x]|w] eqn:Es; [|discriminate].
  destruct (pp_list (pfe _ s) (pnon _ s) 0 tm (o_dgrams x)) as [[fe' used'] outs] eqn:Ep.
  inversion Hst; subst s1; clear Hst.
  assert (Hs : sys_step (proj s) (EA o) = Some (proj (mkPsys Dec k' fe' used' (pB _ s)
             (ghost_sender (pgA _ s) (pA _ s) o k' x) (pgB _ s) (swire _ s ++ outs) (cwire _ s ++ o_dgrams x)))).
  { cbn [sys_step Pipe.proj sA sB gA gB wire pA pB pgA pgB cwire]. rewrite Es. reflexivity. }
  split; [exact Hs|].
  split; [apply (base_inv_step s (EA o)); [exact Hb|exact Hok|exact Hs]|].
  destruct Hb as [[Hsi _] _].
  destruct (step_ok (pA _ s) o (SI_inv _ _ Hsi) (op_ok32_ok _ Hok)) as (k2 & x2 & Hs2 & _ & Ho2).
  cbn [Pipe.proj sA] in Hs2. rewrite Es in Hs2. inversion Hs2; subst k2 x2.
  exists k', x, fe', used', outs. cbn. auto 10.
Qed.

(* a call on the reader's core that is not Input *)
Lemma sim_PB s o s1 :
  base_inv s -> op_ok32 o -> match o with OInput _ _ _ _ => False | _ => True end ->
  psys_step s (PB o) = Some s1 ->
  ev_ok (proj s) (EB o) /\ sys_step (proj s) (EB o) = Some (proj s1) /\ base_inv s1 /\
  pfe _ s1 = pfe _ s /\ swire _ s1 = swire _ s /\ cwire _ s1 = cwire _ s /\
  rx_dec _ _ (pB _ s1) = rx_dec _ _ (pB _ s) /\ rx_handler _ _ (pB _ s1) = rx_handler _ _ (pB _ s).
Proof using Type.
  intros Hb Hok Hni Hst. cbn [Pipe.psys_step] in Hst.
  destruct (step (rx_core _ _ (pB _ s)) o) as [[k' x]|w] eqn:Es; [|discriminate].
  inversion Hst; subst s1; clear Hst.
  assert (Hev : ev_ok (proj s) (EB o)).
  { cbn [ev_ok]. split; [exact Hok|]. destruct o; try exact I. contradiction. }
  assert (Hs : sys_step (proj s) (EB o) = Some (proj (mkPsys Dec (pA _ s) (pfe _ s) (pnon _ s)
             (mkRx _ _ k' (rx_dec _ _ (pB _ s)) (rx_handler _ _ (pB _ s)))
             (pgA _ s) (ghost_receiver (pgB _ s) o x) (swire _ s) (cwire _ s)))).
  { cbn [sys_step Pipe.proj sA sB gA gB wire pA pB pgA pgB cwire rx_core]. rewrite Es. reflexivity. }
  split; [exact Hev|]. split; [exact Hs|].
  split; [apply (base_inv_step s (EB o)); [exact Hb|exact Hev|exact Hs]|].
  cbn. auto 10.
Qed.

(* the reader's core fed a list of datagrams of the writer core's history, each as a regular or
   as an FEC-recovered packet: a run of Net.v *)
Lemma sim_feeds_sys nd now : is_u32 now -> forall feeds (y : sys),
  a_side y -> inv (sB y) -> Forall (fun f : bytes * Z => In (fst f) (wire y)) feeds ->
  let k' := fold_left (apply_feed kcp (core_in nd now)) feeds (sB y) in
  sys_run y (map (feed_ev nd now) feeds) (mkSys (sA y) k' (gA y) (gB y) (wire y)) /\
  a_side (mkSys (sA y) k' (gA y) (gB y) (wire y)) /\ inv k'.
Proof using Type.
  intros Hnow. induction feeds as [|[d ty] feeds IH]; intros y HA HB Hin; cbv zeta.
  - cbn [fold_left map]. destruct y as [a b ga gb w]. cbn [sA sB gA gB wire] in *.
    split; [apply run_nil|]. split; assumption.
  - inversion Hin as [|? ? Hd Hin']; subst. cbn [fst] in Hd.
    assert (Hbytes : is_byte_list d).
    { destruct HA as [_ Hw]. rewrite Forall_forall in Hw. eapply NetReceiverBase.nr_dgram_bytes. apply Hw. exact Hd. }
    set (reg := ty =? c_IKCP_PACKET_REGULAR).
    destruct (input_ok (sB y) d reg nd now HB Hbytes) as (k1 & r & o & Ein & _ & _).
    set (e := EB (OInput d reg nd now)).
    assert (Hev : ev_ok y e).
    { cbn [ev_ok e]. split; [split; [exact Hbytes|exact Hnow]|exact Hd]. }
    set (y1 := mkSys (sA y) k1 (gA y) (gB y) (wire y)).
    assert (Hst : sys_step y e = Some y1).
    { cbn [sys_step e step]. rewrite Ein. reflexivity. }
    destruct (a_side_step y e y1 HA HB Hev Hst) as (HA1 & HB1 & _).
    assert (Hk : apply_feed kcp (core_in nd now) (sB y) (d, ty) = k1).
    { unfold apply_feed, core_in. cbn [fst snd]. fold reg. rewrite Ein. reflexivity. }
    cbn [fold_left map]. rewrite Hk.
    destruct (IH y1 HA1 HB1 Hin') as (Hrun & HA2 & HB2). cbv zeta in Hrun, HA2, HB2.
    cbn [y1 sA sB gA gB wire] in Hrun, HA2, HB2.
    split; [|split; assumption].
    eapply run_cons; [exact Hev|exact Hst|exact Hrun].
Qed.

(* a delivered datagram: whatever packetInput feeds the core, if all of it comes from the
   writer core's history the step is a run of Net.v *)
Lemma sim_deliver s i nd now s1 :
  base_inv s -> is_u32 now -> psys_step s (PDeliver i nd now) = Some s1 ->
  Forall (fun f : bytes * Z => In (fst f) (cwire _ s)) (deliver_feeds s i) ->
  sys_run (proj s) (proj_ev s (PDeliver i nd now)) (proj s1) /\ base_inv s1 /\
  pfe _ s1 = pfe _ s /\ swire _ s1 = swire _ s /\ cwire _ s1 = cwire _ s /\
  rx_handler _ _ (pB _ s1) = rx_handler _ _ (pB _ s).
Proof using Type.
  intros [HA HB] Hnow Hst Hin. cbn [Pipe.psys_step] in Hst. cbn [Pipe.proj_ev].
  unfold Pipe.deliver_feeds in *.
  destruct (nth_error (swire _ s) i) as [w|]; [|discriminate].
  inversion Hst; subst s1; clear Hst.
  destruct (packet_input_as_log kcp Dec (core_in nd now) dec_new dec_decode K c (pB _ s) w) as (Hc & Hd & Hh).
  cbv zeta in Hc, Hd, Hh.
  change (rx_core (list (bytes * Z)) Dec (fst (packet_input K (list (bytes * Z)) Dec log_input dec_new dec_decode c
            (mkRx _ _ [] (rx_dec kcp Dec (pB _ s)) (rx_handler kcp Dec (pB _ s))) w)))
    with (input_feeds (pB _ s) w) in Hc.
  destruct (sim_feeds_sys nd now Hnow (input_feeds (pB _ s) w) (proj s) HA HB Hin) as (Hrun & HA2 & HB2).
  cbv zeta in Hrun, HA2, HB2. cbn [Pipe.proj sA sB gA gB wire] in Hrun, HA2, HB2.
  unfold base_inv, Pipe.proj in *. cbn [sA sB gA gB wire pA pB pgA pgB cwire swire pfe] in *.
  rewrite Hc. split; [exact Hrun|]. split; [split; assumption|]. auto.
Qed.

Lemma sys_run_app a l1 b l2 c0 : sys_run a l1 b -> sys_run b l2 c0 -> sys_run a (l1 ++ l2) c0.
Proof using Type.
  induction 1 as [s|s e s1 t s2 Hok Hst Hrun IH]; intros H2; [exact H2|].
  cbn [app]. eapply run_cons; [exact Hok|exact Hst|]. apply IH. exact H2.
Qed.

(* ================================================================ Stage 1: FEC off *)
Record pinv1 (s : psys) : Prop := mkP1 {
  P1_base : base_inv s;
  P1_fe : pfe _ s = None;
  (* the i-th wire datagram is the i-th core datagram, framed *)
  P1_wire : Forall2 framed (swire _ s) (cwire _ s);
  P1_shape : Forall core_shape (cwire _ s)
}.

Lemma min_pkt_le_overhead : min_pkt <= c_IKCP_OVERHEAD.
Proof using Type. unfold min_pkt, c_IKCP_OVERHEAD, c_fecHeaderSizePlus2, c_convSize. lia. Qed.

(* a framed core datagram makes packetInput feed the core exactly that datagram, as REGULAR -
   or nothing, if the cipher may change lengths and the datagram fails a length test *)
Lemma input_feeds_raw_weak st w d :
  framed w d -> core_shape d ->
  input_feeds st w = [] \/ input_feeds st w = [(d, c_IKCP_PACKET_REGULAR)].
Proof using laws.
  intros (n & Hn & ->) Hs. unfold Pipe.input_feeds, packet_input.
  destruct (unframe_frame_weak K c laws n d Hn) as [E|[E _]]; rewrite E; [left; reflexivity|right].
  destruct (core_shape_flag d Hs) as (H1 & H2 & H3). cbv zeta in H1, H2, H3.
  rewrite kcp_input_raw by assumption. reflexivity.
Qed.

Lemma input_feeds_raw st w d :
  cipher_len_laws K c -> framed w d -> core_shape d ->
  input_feeds st w = [(d, c_IKCP_PACKET_REGULAR)].
Proof using laws.
  intros Hlen Hf Hs. unfold Pipe.input_feeds, packet_input.
  rewrite (unframe_framed K c laws Hlen w d Hf)
    by (pose proof (core_shape_len d Hs); pose proof min_pkt_le_overhead; lia).
  destruct (core_shape_flag d Hs) as (H1 & H2 & H3). cbv zeta in H1, H2, H3.
  rewrite kcp_input_raw by assumption. reflexivity.
Qed.

Lemma deliver_feeds_1 s i w : pinv1 s -> nth_error (swire _ s) i = Some w ->
  exists d, nth_error (cwire _ s) i = Some d /\ framed w d /\
    (deliver_feeds s i = [] \/ deliver_feeds s i = [(d, c_IKCP_PACKET_REGULAR)]) /\
    (cipher_len_laws K c -> deliver_feeds s i = [(d, c_IKCP_PACKET_REGULAR)]).
Proof using laws.
  intros [_ _ Hw Hsh] Hn.
  destruct (Forall2_nth_l _ _ _ Hw i w Hn) as (d & Hd & Hf).
  assert (Hs : core_shape d).
  { rewrite Forall_forall in Hsh. apply Hsh. eapply nth_error_In. exact Hd. }
  exists d. split; [exact Hd|]. split; [exact Hf|].
  unfold Pipe.deliver_feeds. rewrite Hn.
  split; [apply input_feeds_raw_weak; assumption|intros Hlen; apply input_feeds_raw; assumption].
Qed.

Lemma pinv1_step s e s1 :
  pinv1 s -> pev_ok s e -> psys_step s e = Some s1 ->
  sys_run (proj s) (proj_ev s e) (proj s1) /\ pinv1 s1.
Proof using laws nonces.
  intros Hp Hok Hst. pose proof Hp as [Hb Hfe Hw Hsh]. destruct e as [o tm|o|i nd now].
  - cbn [pev_ok] in Hok.
    destruct (sim_PA s o tm s1 Hb Hok Hst)
      as (Hs & Hb1 & k' & x & fe' & used' & outs & Es & Hout & Ep & Hfe1 & Hsw & Hcw & HB).
    split.
    + cbn [Pipe.proj_ev]. eapply run_cons; [exact Hok|exact Hs|apply run_nil].
    + rewrite Hfe in Ep.
      destruct (pp_list_none (o_dgrams x) (pnon _ s) 0%nat tm) as (u2 & outs2 & Ep2 & HF).
      rewrite Ep in Ep2. inversion Ep2 as [[E1 E2 E3]].
      constructor; [exact Hb1|congruence| |].
      * rewrite Hsw, Hcw, E3. apply Forall2_app_both; assumption.
      * rewrite Hcw. apply Forall_app. split; [exact Hsh|].
        eapply Forall_impl; [|exact Hout]. intros d Hd. exists k'. exact Hd.
  - destruct Hok as [Hok Hni].
    destruct (sim_PB s o s1 Hb Hok Hni Hst) as (Hev & Hs & Hb1 & Hfe1 & Hsw & Hcw & _).
    split.
    + cbn [Pipe.proj_ev]. eapply run_cons; [exact Hev|exact Hs|apply run_nil].
    + constructor; [exact Hb1|congruence|rewrite Hsw, Hcw; exact Hw|rewrite Hcw; exact Hsh].
  - cbn [pev_ok] in Hok.
    assert (Hin : Forall (fun f : bytes * Z => In (fst f) (cwire _ s)) (deliver_feeds s i)).
    { destruct (nth_error (swire _ s) i) as [w|] eqn:En.
      - destruct (deliver_feeds_1 s i w Hp En) as (d & Hd & _ & [-> | ->] & _); [constructor|].
        constructor; [|constructor]. cbn [fst]. eapply nth_error_In. exact Hd.
      - unfold Pipe.deliver_feeds. rewrite En. constructor. }
    destruct (sim_deliver s i nd now s1 Hb Hok Hst Hin) as (Hrun & Hb1 & Hfe1 & Hsw & Hcw & _).
    split; [exact Hrun|].
    constructor; [exact Hb1|congruence|rewrite Hsw, Hcw; exact Hw|rewrite Hcw; exact Hsh].
Qed.

Lemma pinv1_run s evs s' :
  psys_run s evs s' -> pinv1 s -> sys_run (proj s) (proj_evs s evs) (proj s') /\ pinv1 s'.
Proof using laws nonces.
  induction 1 as [s|s e s1 t s2 Hok Hst Hrun IH]; intros Hp.
  - split; [apply run_nil|exact Hp].
  - destruct (pinv1_step s e s1 Hp Hok Hst) as (H1 & Hp1).
    destruct (IH Hp1) as (H2 & Hp2). split; [|exact Hp2].
    cbn [Pipe.proj_evs]. rewrite Hst. eapply sys_run_app; eassumption.
Qed.

Lemma pinv1_init s0 : psys_init Dec s0 -> pfe _ s0 = None -> pinv1 s0.
Proof using Type.
  intros [Hi Hsw] Hfe.
  destruct (init_sides (proj s0) [] Hi) as (HA & HR & _).
  assert (Hcw : cwire _ s0 = []) by (destruct Hi as (_ & _ & _ & _ & _ & _ & _ & _ & _ & _ & _ & Hw); exact Hw).
  constructor.
  - split; [exact HA|exact (RI_inv _ _ _ HR)].
  - exact Hfe.
  - rewrite Hsw, Hcw. constructor.
  - rewrite Hcw. constructor.
Qed.

(* every FEC-off session run IS a run of the two cores: PA o -> EA o, PB o -> EB o, and
   PDeliver i -> EB (OInput cwire[i] REGULAR ..), cwire[i] the core datagram swire[i] frames
   (or nothing at all when the cipher changes lengths so that packetInput drops the datagram) *)
Theorem pipe1_run_projects s0 evs s :
  psys_init Dec s0 -> pfe _ s0 = None -> psys_run s0 evs s ->
  sys_init (proj s0) /\ sys_run (proj s0) (proj_evs s0 evs) (proj s) /\
  pfe _ s = None /\ Forall2 framed (swire _ s) (cwire _ s) /\
  (forall i w, nth_error (swire _ s) i = Some w ->
     exists d, nth_error (cwire _ s) i = Some d /\ framed w d /\
       (forall nd now, proj_ev s (PDeliver i nd now) = [] \/
                       proj_ev s (PDeliver i nd now) = [EB (OInput d true nd now)]) /\
       (cipher_len_laws K c ->
        forall nd now, proj_ev s (PDeliver i nd now) = [EB (OInput d true nd now)])).
Proof using laws nonces.
  intros Hi Hfe Hrun. pose proof (pinv1_init s0 Hi Hfe) as Hp0.
  destruct (pinv1_run s0 evs s Hrun Hp0) as (Hr & Hp).
  split; [exact (proj1 Hi)|]. split; [exact Hr|]. split; [exact (P1_fe _ Hp)|].
  split; [exact (P1_wire _ Hp)|].
  intros i w Hn. destruct (deliver_feeds_1 s i w Hp Hn) as (d & Hd & Hf & E1 & E2).
  exists d. split; [exact Hd|]. split; [exact Hf|]. split.
  - intros nd now. cbn [Pipe.proj_ev]. destruct E1 as [-> | ->]; [left|right]; reflexivity.
  - intros Hlen nd now. cbn [Pipe.proj_ev]. rewrite (E2 Hlen). reflexivity.
Qed.

Theorem pipe1_stream_prefix s0 evs s :
  psys_init Dec s0 -> pfe _ s0 = None -> psys_run s0 evs s -> stream (pA _ s0) <> 0 ->
  no_wrap (sg_numbered (pgA _ s)) ->
  is_prefix (concat (rg_delivered (pgB _ s))) (concat (sg_accepted (pgA _ s))).
Proof using laws nonces.
  intros Hi Hfe Hrun Hstr Hnw.
  destruct (pipe1_run_projects s0 evs s Hi Hfe Hrun) as (Hsi & Hr & _).
  exact (net_stream_prefix (proj s0) _ (proj s) Hsi Hr Hstr Hnw).
Qed.

Theorem pipe1_message_prefix s0 evs s :
  psys_init Dec s0 -> pfe _ s0 = None -> psys_run s0 evs s -> stream (pA _ s0) = 0 ->
  no_wrap (sg_numbered (pgA _ s)) ->
  is_prefix (rg_delivered (pgB _ s)) (sg_accepted (pgA _ s)).
Proof using laws nonces.
  intros Hi Hfe Hrun Hstr Hnw.
  destruct (pipe1_run_projects s0 evs s Hi Hfe Hrun) as (Hsi & Hr & _).
  exact (net_message_prefix (proj s0) _ (proj s) Hsi Hr Hstr Hnw).
Qed.

(* the run never faults and both cores keep the C04 invariant *)
Theorem pipe1_run_safe s0 evs s :
  psys_init Dec s0 -> pfe _ s0 = None -> psys_run s0 evs s ->
  inv (pA _ s) /\ inv (rx_core _ _ (pB _ s)).
Proof using laws nonces.
  intros Hi Hfe Hrun.
  destruct (pipe1_run_projects s0 evs s Hi Hfe Hrun) as (Hsi & Hr & _).
  exact (net_run_inv (proj s0) _ (proj s) Hsi Hr).
Qed.

(* no admissible event is ever refused: psys_run quantifies over ALL event lists *)
Lemma step_enabled s e :
  inv (pA _ s) -> inv (rx_core _ _ (pB _ s)) -> pev_ok s e ->
  (match e with PDeliver i _ _ => (i < length (swire _ s))%nat | _ => True end) ->
  exists s1, psys_step s e = Some s1.
Proof using Type.
  intros HA HB Hok Hi. destruct e as [o tm|o|i nd now]; cbn [Pipe.psys_step].
  - destruct (step_ok (pA _ s) o HA (op_ok32_ok _ Hok)) as (k' & x & Es & _). rewrite Es.
    destruct (pp_list (pfe _ s) (pnon _ s) 0 tm (o_dgrams x)) as [[fe' used'] outs]. eexists. reflexivity.
  - destruct Hok as [Hok _].
    destruct (step_ok (rx_core _ _ (pB _ s)) o HB (op_ok32_ok _ Hok)) as (k' & x & Es & _).
    rewrite Es. eexists. reflexivity.
  - destruct (nth_error (swire _ s) i) eqn:En; [eexists; reflexivity|].
    apply nth_error_None in En. lia.
Qed.
End SessionProofs.
