(* C11 (the listener demultiplexer) composed with C01-for-sessions: "each accepted session
   delivers only the stream written by the peer at its own remote address and conversation ...
   traffic - valid, stale or forged - from other addresses never appears in it".  Statements only.

   The listener model of coq/listener (Listener.v; events: datagrams from any address, Accept,
   the two steps of an application's Close, the steps of Listener.Close, in ANY interleaving) is
   instantiated (PipeLDefs.v) with the pipe's receiver: gate := Frame.unframe K c; a session :=
   the reader state of Pipe.v (ARQ core + FEC decoder + OOB flag) with the ghost of what the
   application has read; sess_input := UDPSession.kcpInput (Frame.kcp_input over Kcp.input) at
   the clock / ackNoDelay `clk a n` the environment supplies for the n-th datagram fed to the
   session at a, followed by the application's own calls `sched a n` on that session (any API
   calls except Input: Recv, flush, update, ...) up to its next datagram; sess_new := mk_rx conv a
   (any fresh reader whose core has that conv); sess_conv := kcp.conv.  clk and sched are
   arbitrary (env_ok: 32-bit clocks, byte strings): every interleaving of datagrams and
   application calls on one session is such a pair.  An `act` is one thing a core goes through:
   AFeed (bytes, pktType) ackNoDelay clock = one KCP.Input, AOp o = one application call. *)
From Coq Require Import ZArith List Bool.
From KV.Base Require Import Consts Word.
From KV.Kcp Require Import Kcp Step Net.
From KV.Frame Require Import Frame FrameProofs.
From KV.Fec Require Codec Rs Fec FecSpec.
From KV.Listener Require Listener.
From KV.Pipe Require Import Pipe PipeProofs PipeExample PipeFec PipeRs PipeLDefs PipeListener PipeListenerRs PipeListenerExample.
Import ListNotations.
Local Open Scope Z_scope.

(* kcp.conv is never written: by no Input (any bytes, any state, also where it would fault) and
   by no other call - the listener's routing premise `conv_input`, discharged for the real core *)
Theorem pipe_listener_conv_fixed :
  (forall nd now k d ty, conv (core_in nd now k d ty) = conv k) /\
  (forall k o k' x, step k o = Ok (k', x) -> conv k' = conv k).
Proof. exact (conj conv_core_in conv_step). Qed.
Print Assumptions pipe_listener_conv_fixed.

(* (1) FEEDS.  After ANY listener history from the empty listener, the session found under a was
   created by one datagram from a (wants_session), has conv cv, and its core and read-ghost are
   the fold - from the fresh reader mk_rx cv a - of lacts: for each payload of pays, in order, the
   core inputs kcpInput makes of it (payload_feeds: the payload itself as REGULAR, or for FEC
   packets the data payload and what the decoder recovers) and then the application's calls.
   pays = the creating datagram's payload and fed_seq a cv post; EVERY element of pays is the
   payload, behind the gate unframe, of a datagram of the history whose source is a.  Nothing
   sent from another address is in it. *)
Theorem pipe_listener_feeds :
  forall (K : crypto) (c : cipher) (Dec : Type) (dec_new : Z -> Z -> Dec)
         (dec_decode : Dec -> bytes -> Dec * list bytes)
         (addr : Type) (addr_eqb : addr -> addr -> bool),
    (forall a b, addr_eqb a b = true <-> a = b) ->
  forall (clk : addr -> nat -> bool * Z) (sched : addr -> nat -> list op)
         (mk_rx : Z -> addr -> rxstate kcp Dec) (g0 : receiver_ghost),
    (forall cv a, conv (rx_core kcp Dec (mk_rx cv a)) = cv) ->
  let l_new := l_new Dec addr mk_rx g0 in
  let l_input := l_input Dec dec_new dec_decode addr clk sched in
  let l_conv := l_conv Dec addr in
  let l_gate := l_gate K c in
  forall (evs : list Listener.event) (a : addr) (e : Listener.entry),
    Listener.lookup addr_eqb a
      (Listener.sessions (Listener.run addr_eqb l_new l_input l_conv l_gate Listener.l_empty evs)) = Some e ->
    exists cv pre raw post data,
      evs = pre ++ Listener.EvPacket raw a :: post /\
      Listener.wants_session addr_eqb l_conv l_gate
        (Listener.run addr_eqb l_new l_input l_conv l_gate Listener.l_empty pre) raw a = Some (cv, data) /\
      l_conv (Listener.e_sess e) = cv /\
      let pays := data :: Listener.fed_seq addr_eqb l_gate a cv post in
      (forall d, In d pays -> exists raw', In (Listener.EvPacket raw' a) evs /\ unframe K c raw' = Some d) /\
      (rx_core kcp Dec (ls_rx Dec addr (Listener.e_sess e)), ls_g Dec addr (Listener.e_sess e)) =
        fold_left apply_act
          (lacts Dec dec_new dec_decode addr clk sched
                 (rx_dec kcp Dec (mk_rx cv a)) (rx_handler kcp Dec (mk_rx cv a)) a 0 pays)
          (rx_core kcp Dec (mk_rx cv a), g0).
Proof. exact l_feeds. Qed.
Print Assumptions pipe_listener_feeds.

(* (2) + (3), FEC off.  Let A be a writer session (ANY pipe run w0 -> wA; only A's side of it is
   used: with_reader replaces the reader component by the fresh reader the listener creates,
   and psys_init says the two fresh cores match as in Net.sys_init).  If every datagram of the
   listener history whose SOURCE is a is a member of A's wire history (the network may drop,
   duplicate, reorder, delay; anybody may send anything from other addresses), then
   l_conclusion (PipeLDefs.v): every core input of (1) is a datagram A's core emitted and every
   action is an admissible Net.v event (Forall act_ok), A's history followed by the actions is
   a run of Net.v from the two fresh cores, the session's core keeps the C04 invariant, and
   what the application has read from the accepted session is a prefix of what A's Send
   accepted (stream and message mode). *)
Theorem pipe_listener_genuine :
  forall (K : crypto) (c : cipher) (Dec : Type) (dec_new : Z -> Z -> Dec)
         (dec_decode : Dec -> bytes -> Dec * list bytes)
         (addr : Type) (addr_eqb : addr -> addr -> bool),
    (forall a b, addr_eqb a b = true <-> a = b) ->
  forall (clk : addr -> nat -> bool * Z) (sched : addr -> nat -> list op)
         (mk_rx : Z -> addr -> rxstate kcp Dec) (g0 : receiver_ghost),
    (forall cv a, conv (rx_core kcp Dec (mk_rx cv a)) = cv) ->
  forall (rs_encode : Z -> Z -> list bytes -> list bytes) (nonce : nat -> bytes),
    cipher_laws K c -> nonce_ok K c nonce -> env_ok addr clk sched ->
  let l_new := l_new Dec addr mk_rx g0 in
  let l_input := l_input Dec dec_new dec_decode addr clk sched in
  let l_conv := l_conv Dec addr in
  let l_gate := l_gate K c in
  forall (evs : list Listener.event) (a : addr) (e : Listener.entry)
         (w0 wA : psys Dec) (evsA : list pev),
    Listener.lookup addr_eqb a
      (Listener.sessions (Listener.run addr_eqb l_new l_input l_conv l_gate Listener.l_empty evs)) = Some e ->
    psys_run rs_encode K c nonce Dec dec_new dec_decode w0 evsA wA -> pfe Dec w0 = None ->
    psys_init Dec (with_reader w0 (mk_rx (l_conv (Listener.e_sess e)) a) g0) ->
    (forall raw, In (Listener.EvPacket raw a) evs -> In raw (swire Dec wA)) ->
    exists cv pre raw post data,
      evs = pre ++ Listener.EvPacket raw a :: post /\
      Listener.wants_session addr_eqb l_conv l_gate
        (Listener.run addr_eqb l_new l_input l_conv l_gate Listener.l_empty pre) raw a = Some (cv, data) /\
      l_conv (Listener.e_sess e) = cv /\
      l_conclusion rs_encode K c nonce Dec dec_new dec_decode addr mk_rx g0 w0 wA evsA cv a (Listener.e_sess e)
        (lacts Dec dec_new dec_decode addr clk sched
               (rx_dec kcp Dec (mk_rx cv a)) (rx_handler kcp Dec (mk_rx cv a)) a 0
               (data :: Listener.fed_seq addr_eqb l_gate a cv post)).
Proof. exact l_prefix_off. Qed.
Print Assumptions pipe_listener_genuine.

(* the same with FEC on and an abstract decoder satisfying Pipe.dec_sound for the writer's
   encoder e0 and the decoder the listener's newUDPSession creates *)
Theorem pipe_listener_fec_genuine :
  forall (K : crypto) (c : cipher) (Dec : Type) (dec_new : Z -> Z -> Dec)
         (dec_decode : Dec -> bytes -> Dec * list bytes)
         (addr : Type) (addr_eqb : addr -> addr -> bool),
    (forall a b, addr_eqb a b = true <-> a = b) ->
  forall (clk : addr -> nat -> bool * Z) (sched : addr -> nat -> list op)
         (mk_rx : Z -> addr -> rxstate kcp Dec) (g0 : receiver_ghost),
    (forall cv a, conv (rx_core kcp Dec (mk_rx cv a)) = cv) ->
  forall (rs_encode : Z -> Z -> list bytes -> list bytes) (nonce : nat -> bytes),
    cipher_laws K c -> nonce_ok K c nonce -> env_ok addr clk sched ->
  let l_new := l_new Dec addr mk_rx g0 in
  let l_input := l_input Dec dec_new dec_decode addr clk sched in
  let l_conv := l_conv Dec addr in
  let l_gate := l_gate K c in
  forall (evs : list Listener.event) (a : addr) (e : Listener.entry)
         (w0 wA : psys Dec) (evsA : list pev) (e0 : fecenc),
    Listener.lookup addr_eqb a
      (Listener.sessions (Listener.run addr_eqb l_new l_input l_conv l_gate Listener.l_empty evs)) = Some e ->
    psys_run rs_encode K c nonce Dec dec_new dec_decode w0 evsA wA -> pfe Dec w0 = Some e0 ->
    psys_init Dec (with_reader w0 (mk_rx (l_conv (Listener.e_sess e)) a) g0) ->
    dec_sound rs_encode K c Dec dec_decode e0 (dec_cur Dec dec_new (mk_rx (l_conv (Listener.e_sess e)) a)) ->
    fec_no_wrap e0 (cwire Dec wA) -> fec_fits (cwire Dec wA) ->
    (forall raw, In (Listener.EvPacket raw a) evs -> In raw (swire Dec wA)) ->
    exists cv pre raw post data,
      evs = pre ++ Listener.EvPacket raw a :: post /\
      Listener.wants_session addr_eqb l_conv l_gate
        (Listener.run addr_eqb l_new l_input l_conv l_gate Listener.l_empty pre) raw a = Some (cv, data) /\
      l_conv (Listener.e_sess e) = cv /\
      l_conclusion rs_encode K c nonce Dec dec_new dec_decode addr mk_rx g0 w0 wA evsA cv a (Listener.e_sess e)
        (lacts Dec dec_new dec_decode addr clk sched
               (rx_dec kcp Dec (mk_rx cv a)) (rx_handler kcp Dec (mk_rx cv a)) a 0
               (data :: Listener.fed_seq addr_eqb l_gate a cv post)).
Proof. exact l_prefix_on. Qed.
Print Assumptions pipe_listener_fec_genuine.

(* ... and with the REAL decoder (Fec.fecdec, the total wrapper of Fec.dec_decode rs_codec, the
   executable Reed-Solomon encoder): no decoder hypothesis; the writer's encoder is the fresh
   newFECEncoder(d, p, headerOffset), the listener's newUDPSession creates newFECDecoder(d, p) *)
Theorem pipe_listener_fec_rs_genuine :
  forall (K : crypto) (c : cipher) (addr : Type) (addr_eqb : addr -> addr -> bool),
    (forall a b, addr_eqb a b = true <-> a = b) ->
  forall (clk : addr -> nat -> bool * Z) (sched : addr -> nat -> list op)
         (mk_rx : Z -> addr -> rxstate kcp Fec.fecdec) (g0 : receiver_ghost),
    (forall cv a, conv (rx_core kcp Fec.fecdec (mk_rx cv a)) = cv) ->
  forall (nonce : nat -> bytes),
    cipher_laws K c -> nonce_ok K c nonce -> env_ok addr clk sched ->
  forall (d p : Z), FecSpec.cfg_ok d p ->
    (forall cv a, exists st0, rx_dec kcp Fec.fecdec (mk_rx cv a) = Some st0 /\ Fec.dec_new d p = Some st0) ->
  let l_new := l_new Fec.fecdec addr mk_rx g0 in
  let l_input := l_input Fec.fecdec rdec_new rdec_decode addr clk sched in
  let l_conv := l_conv Fec.fecdec addr in
  let l_gate := l_gate K c in
  forall (evs : list Listener.event) (a : addr) (e : Listener.entry)
         (w0 wA : psys Fec.fecdec) (evsA : list pev) (e0 : fecenc),
    Listener.lookup addr_eqb a
      (Listener.sessions (Listener.run addr_eqb l_new l_input l_conv l_gate Listener.l_empty evs)) = Some e ->
    psys_run rs_enc K c nonce Fec.fecdec rdec_new rdec_decode w0 evsA wA ->
    pfe Fec.fecdec w0 = Some e0 -> sess_fec_new K c d p = Some e0 ->
    psys_init Fec.fecdec (with_reader w0 (mk_rx (l_conv (Listener.e_sess e)) a) g0) ->
    fec_no_wrap e0 (cwire Fec.fecdec wA) -> fec_fits (cwire Fec.fecdec wA) ->
    (forall raw, In (Listener.EvPacket raw a) evs -> In raw (swire Fec.fecdec wA)) ->
    exists cv pre raw post data,
      evs = pre ++ Listener.EvPacket raw a :: post /\
      Listener.wants_session addr_eqb l_conv l_gate
        (Listener.run addr_eqb l_new l_input l_conv l_gate Listener.l_empty pre) raw a = Some (cv, data) /\
      l_conv (Listener.e_sess e) = cv /\
      l_conclusion rs_enc K c nonce Fec.fecdec rdec_new rdec_decode addr mk_rx g0 w0 wA evsA cv a (Listener.e_sess e)
        (lacts Fec.fecdec rdec_new rdec_decode addr clk sched
               (rx_dec kcp Fec.fecdec (mk_rx cv a)) (rx_handler kcp Fec.fecdec (mk_rx cv a)) a 0
               (data :: Listener.fed_seq addr_eqb l_gate a cv post)).
Proof. exact l_prefix_rs. Qed.
Print Assumptions pipe_listener_fec_rs_genuine.

(* non-vacuity: one listener, two remote addresses, nonce + CRC + cipher, FEC off.  A's one wire
   datagram arrives from address 1; from address 2 a valid-looking forgery (passes the gate, same
   conv 7, a PUSH sn 0 carrying [9;9;9]) arrives before and after.  All premises of
   pipe_listener_genuine hold for a = 1.  Two sessions of conv 7 exist at the end; the one at
   address 1 went through exactly [Input of A's core datagram as REGULAR; Recv] and the
   application read [1;2;3]; both forgeries went to the session at address 2. *)
Example pipe_listener_example :
  env_ok Z exl_clk exl_sched /\ cipher_laws exp_K CCrc /\ nonce_ok exp_K CCrc exp_nonce /\
  (forall cv a, conv (rx_core kcp unit (exl_mk_rx cv a)) = cv) /\
  psys_run exp_rs exp_K CCrc exp_nonce unit exp_dec_new exp_dec_decode exp_s0 exl_wevs exl_wA /\
  pfe unit exp_s0 = None /\ psys_init unit (with_reader exp_s0 (exl_mk_rx 7 1) exl_g0) /\
  length (swire unit exl_wA) = 1%nat /\
  (forall raw, In (Listener.EvPacket raw 1) exl_evs -> In raw (swire unit exl_wA)) /\
  exl_gate exl_forged <> None /\ ~ In exl_forged (swire unit exl_wA) /\
  exists e1 e2,
    Listener.lookup Z.eqb 1 (Listener.sessions exl_final) = Some e1 /\
    Listener.lookup Z.eqb 2 (Listener.sessions exl_final) = Some e2 /\
    exl_conv (Listener.e_sess e1) = 7 /\ exl_conv (Listener.e_sess e2) = 7 /\
    lacts unit exp_dec_new exp_dec_decode Z exl_clk exl_sched None false 1 0
      (match exl_gate exl_w with Some d => [d] | None => [] end)
      = [AFeed (nth 0 (cwire unit exl_wA) [], c_IKCP_PACKET_REGULAR) false 1001; AOp (ORecv 100)] /\
    ls_n unit Z (Listener.e_sess e1) = 1%nat /\
    rg_delivered (ls_g unit Z (Listener.e_sess e1)) = [[1; 2; 3]] /\
    ls_n unit Z (Listener.e_sess e2) = 2%nat /\ rg_delivered (ls_g unit Z (Listener.e_sess e2)) = [].
Proof. exact PipeListenerExample.pipe_listener_example. Qed.
Print Assumptions pipe_listener_example.
