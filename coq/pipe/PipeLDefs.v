(* The listener of coq/listener instantiated with the pipe's receiver.  Definitions only.

   Listener.v is parametric in the session type (sess, sess_new, sess_input, sess_conv) and the
   gate.  Here:
     gate_ok    := Frame.unframe K c          (decrypt / verify / minimum size)
     sess       := lsess: the reader state of Pipe.v (Frame.rxstate over the ARQ core: core, FEC
                   decoder, OOB handler flag) + how many datagrams it has been fed + its remote
                   address + the ghost of Net.v recording what the application has read
     sess_input := UDPSession.kcpInput (Frame.kcp_input with core_input := Kcp.input, as in
                   Pipe.v), with the clock / ackNoDelay the environment supplies for this call
                   (clk a n: for the n-th datagram fed to the session living at a), FOLLOWED by
                   the application's own calls on that session up to its next datagram
                   (sched a n: any list of API calls except Input - Recv, flush, update, ...).
                   Every interleaving of datagrams and application calls on one session is a
                   (clk, sched) pair; both are arbitrary.
     sess_new   := newUDPSession: mk_rx conv a (any fresh reader state whose core has that
                   conv), nothing fed, nothing read
     sess_conv  := kcp.conv of the core. *)
From Coq Require Import ZArith List Bool.
From KV.Base Require Import Consts Word.
From KV.Kcp Require Import Kcp Step Net.
From KV.Frame Require Import Wire Frame.
From KV.Listener Require Listener.
From KV.Pipe Require Import Pipe.
Import ListNotations.
Local Open Scope Z_scope.

(* what one session's core goes through: inputs (bytes, pktType, ackNoDelay, clock) and calls *)
Inductive act :=
| AFeed (f : bytes * Z) (nd : bool) (now : Z)
| AOp (o : op).

(* a call of the application on the session: core and read-ghost (a call cannot fault on a
   state satisfying inv - C05; the Panic branch is there for totality) *)
Definition apply_op (kg : kcp * receiver_ghost) (o : op) : kcp * receiver_ghost :=
  match step (fst kg) o with
  | Ok (k', x) => (k', ghost_receiver (snd kg) o x)
  | Panic _ => kg
  end.

Definition apply_act (kg : kcp * receiver_ghost) (x : act) : kcp * receiver_ghost :=
  match x with
  | AFeed f nd now => (core_in nd now (fst kg) (fst f) (snd f), snd kg)
  | AOp o => apply_op kg o
  end.

(* the Net.v event an action is *)
Definition act_ev (x : act) : ev :=
  match x with
  | AFeed f nd now => feed_ev nd now f
  | AOp o => EB o
  end.

Section LSess.
Variable K : crypto.
Variable c : cipher.
Variable Dec : Type.
Variable dec_new : Z -> Z -> Dec.
Variable dec_decode : Dec -> bytes -> Dec * list bytes.
Variable addr : Type.
Variable clk : addr -> nat -> bool * Z.          (* (ackNoDelay, clock) of the n-th kcpInput at a *)
Variable sched : addr -> nat -> list op.         (* the application's calls after it *)
Variable mk_rx : Z -> addr -> rxstate kcp Dec.   (* newUDPSession(conv, ..., remote): receive side *)
Variable g0 : receiver_ghost.                    (* nothing read yet *)

Record lsess := mkLs {
  ls_rx : rxstate kcp Dec;
  ls_n : nat;
  ls_addr : addr;
  ls_g : receiver_ghost
}.

Definition l_new (cv : Z) (a : addr) : lsess := mkLs (mk_rx cv a) 0 a g0.

Definition l_input (s : lsess) (d : bytes) : lsess :=
  let nd := fst (clk (ls_addr s) (ls_n s)) in
  let now := snd (clk (ls_addr s) (ls_n s)) in
  let st1 := fst (kcp_input kcp Dec (core_in nd now) dec_new dec_decode (ls_rx s) d) in
  let kg := fold_left apply_op (sched (ls_addr s) (ls_n s)) (rx_core _ _ st1, ls_g s) in
  mkLs (mkRx _ _ (fst kg) (rx_dec _ _ st1) (rx_handler _ _ st1)) (S (ls_n s)) (ls_addr s) (snd kg).

Definition l_conv (s : lsess) : Z := conv (rx_core _ _ (ls_rx s)).

Definition l_gate (raw : bytes) : option bytes := unframe K c raw.

(* what kcpInput feeds the core for a payload (behind the gate), given decoder and handler flag *)
Definition payload_feeds (dopt : option Dec) (hd : bool) (d : bytes) : rxstate (list (bytes * Z)) Dec :=
  fst (kcp_input (list (bytes * Z)) Dec log_input dec_new dec_decode (mkRx _ _ [] dopt hd) d).

(* everything the core of the session at a goes through for the payloads pays, the n-th first *)
Fixpoint lacts (dopt : option Dec) (hd : bool) (a : addr) (n : nat) (pays : list bytes) : list act :=
  match pays with
  | [] => []
  | d :: t =>
    let r := payload_feeds dopt hd d in
    map (fun f => AFeed f (fst (clk a n)) (snd (clk a n))) (rx_core _ _ r)
    ++ map AOp (sched a n)
    ++ lacts (rx_dec _ _ r) hd a (S n) t
  end.

(* the environment's clocks are 32-bit values, the application's calls are not Input and carry
   byte strings / 32-bit clocks *)
Definition env_ok : Prop :=
  (forall a n, is_u32 (snd (clk a n))) /\
  (forall a n, Forall (fun o => op_ok32 o /\ match o with OInput _ _ _ _ => False | _ => True end) (sched a n)).

End LSess.

(* the writer session A seen together with a reader of our choice: A's side of a pipe state with
   the reader component replaced (A's own calls never look at it) *)
Definition with_reader {Dec : Type} (s : psys Dec) (b : rxstate kcp Dec) (g : receiver_ghost) : psys Dec :=
  mkPsys Dec (pA _ s) (pfe _ s) (pnon _ s) b (pgA _ s) g (swire _ s) (cwire _ s).

Definition is_PA (e : pev) : bool := match e with PA _ _ => true | _ => false end.

(* what makes an action an admissible Net.v event on the reader side, w.r.t. the datagrams the
   writer's core emitted: an input is one of them, as a regular or as an FEC-recovered packet, at a
   32-bit clock; a call is not Input and carries byte strings / 32-bit clocks *)
Definition act_ok (cw : list bytes) (x : act) : Prop :=
  match x with
  | AFeed f _ now => In (fst f) cw /\ is_u32 now
  | AOp o => op_ok32 o /\ match o with OInput _ _ _ _ => False | _ => True end
  end.

(* The conclusion of the composition theorems, for the session s the listener holds at a (conv
   cv) and the list acts of everything its core went through: its core and read-ghost are the
   fold of acts from the fresh reader; every input among acts is a datagram the writer's core
   emitted and every call is admissible (act_ok), so that the writer's history followed by acts
   is a run of Net.v's two-core system from the two fresh cores (sys_init) to the writer's core
   and the session's core; hence the core keeps the C04 invariant and what the application has
   read from the session is a prefix of what the writer's Send accepted (C01). *)
Section LConclusion.
Variable rs_encode : Z -> Z -> list bytes -> list bytes.
Variable K : crypto.
Variable c : cipher.
Variable nonce : nat -> bytes.
Variable Dec : Type.
Variable dec_new : Z -> Z -> Dec.
Variable dec_decode : Dec -> bytes -> Dec * list bytes.
Variable addr : Type.
Variable mk_rx : Z -> addr -> rxstate kcp Dec.
Variable g0 : receiver_ghost.

Definition l_conclusion (w0 wA : psys Dec) (evsA : list pev) (cv : Z) (a : addr)
                        (s : lsess Dec addr) (acts : list act) : Prop :=
  let b := mk_rx cv a in
  (rx_core _ _ (ls_rx _ _ s), ls_g _ _ s) = fold_left apply_act acts (rx_core _ _ b, g0) /\
  Forall (act_ok (cwire _ wA)) acts /\
  sys_run (proj Dec (with_reader w0 b g0))
          (proj_evs rs_encode K c nonce Dec dec_new dec_decode (with_reader w0 b g0) (filter is_PA evsA)
           ++ map act_ev acts)
          (mkSys (pA _ wA) (rx_core _ _ (ls_rx _ _ s)) (pgA _ wA) (ls_g _ _ s) (cwire _ wA)) /\
  Step.inv (rx_core _ _ (ls_rx _ _ s)) /\
  (stream (pA _ w0) = 0 -> no_wrap (sg_numbered (pgA _ wA)) ->
     is_prefix (rg_delivered (ls_g _ _ s)) (sg_accepted (pgA _ wA))) /\
  (stream (pA _ w0) <> 0 -> no_wrap (sg_numbered (pgA _ wA)) ->
     is_prefix (concat (rg_delivered (ls_g _ _ s))) (concat (sg_accepted (pgA _ wA)))).
End LConclusion.
