From Coq Require Import ZArith List Bool Lia.
From KV.Base Require Import Consts Word WordLemmas.
From KV.Kcp Require Import Kcp Step Net InvBase LiveBase ProgressBase.
Import ListNotations.
Local Open Scope Z_scope.

Ltac Zify.zify_post_hook ::= Z.div_mod_to_equations.

Lemma pg_rd32_le32 x r : rd32 (le32 x ++ r) = u32 x.
Proof. unfold rd32, le32, u32, W32; cbn [app]. lia. Qed.

Lemma pg_rd16_le16 x r : rd16 (le16 x ++ r) = u16 x.
Proof. unfold rd16, le16, u16; cbn [app]. lia. Qed.

(* what the wire format determines of a segment *)
Definition pg_same_wire (s1 s2 : seg) : Prop :=
  u32 (s_conv s1) = u32 (s_conv s2) /\ s_cmd s1 = s_cmd s2 /\ s_frg s1 = s_frg s2 /\
  u16 (s_wnd s1) = u16 (s_wnd s2) /\ u32 (s_ts s1) = u32 (s_ts s2) /\ u32 (s_sn s1) = u32 (s_sn s2) /\
  u32 (s_una s1) = u32 (s_una s2) /\ s_data s1 = s_data s2.

Lemma pg_app_inj_len (T : Type) (a b c d : list T) :
  length a = length c -> a ++ b = c ++ d -> a = c /\ b = d.
Proof.
  revert c. induction a as [|x a IH]; intros c Hl E; destruct c as [|y c]; try discriminate.
  - split; [reflexivity|exact E].
  - cbn [app] in E. inversion E; subst. cbn [length] in Hl.
    destruct (IH c) as [E1 E2]; [lia|assumption|]. subst. split; reflexivity.
Qed.

Lemma pg_decode_head s1 r1 s2 r2 :
  encode_seg s1 ++ r1 = encode_seg s2 ++ r2 -> blen (encode_seg s1 ++ r1) < W32 ->
  pg_same_wire s1 s2 /\ r1 = r2.
Proof.
  intros E Hb.
  assert (B1 : blen (s_data s1) < W32 /\ blen (s_data s2) < W32).
  { pose proof Hb as Hb2. rewrite E in Hb2. rewrite blen_app, lv_encode_len in Hb, Hb2.
    pose proof (blen_nonneg r1). pose proof (blen_nonneg r2).
    pose proof (blen_nonneg (s_data s1)). pose proof (blen_nonneg (s_data s2)).
    unfold c_IKCP_OVERHEAD in *. lia. }
  pose proof (f_equal rd32 E) as E0. rewrite (lv_skip0 s1 r1), (lv_skip0 s2 r2), !pg_rd32_le32 in E0.
  pose proof (f_equal (fun l => nth 4 l 0) E) as E4. cbv beta in E4.
  change (nth 4 (encode_seg s1 ++ r1) 0) with (s_cmd s1) in E4.
  change (nth 4 (encode_seg s2 ++ r2) 0) with (s_cmd s2) in E4.
  pose proof (f_equal (fun l => nth 5 l 0) E) as E5. cbv beta in E5.
  change (nth 5 (encode_seg s1 ++ r1) 0) with (s_frg s1) in E5.
  change (nth 5 (encode_seg s2 ++ r2) 0) with (s_frg s2) in E5.
  pose proof (f_equal (fun l => rd16 (skipn 6 l)) E) as E6. cbv beta in E6.
  rewrite !lv_skip6, !pg_rd16_le16 in E6.
  pose proof (f_equal (fun l => rd32 (skipn 8 l)) E) as E8. cbv beta in E8.
  rewrite !lv_skip8, !pg_rd32_le32 in E8.
  pose proof (f_equal (fun l => rd32 (skipn 12 l)) E) as E12. cbv beta in E12.
  rewrite !lv_skip12, !pg_rd32_le32 in E12.
  pose proof (f_equal (fun l => rd32 (skipn 16 l)) E) as E16. cbv beta in E16.
  rewrite !lv_skip16, !pg_rd32_le32 in E16.
  pose proof (f_equal (fun l => rd32 (skipn 20 l)) E) as E20. cbv beta in E20.
  rewrite !lv_skip20, !pg_rd32_le32 in E20.
  pose proof (f_equal (skipn 24) E) as E24. rewrite !lv_skip24 in E24.
  assert (El : length (s_data s1) = length (s_data s2)).
  { pose proof (blen_nonneg (s_data s1)). pose proof (blen_nonneg (s_data s2)).
    rewrite !u32_id in E20 by lia. unfold blen in E20. lia. }
  destruct (pg_app_inj_len _ _ _ _ _ El E24) as [Ed Er].
  split; [|exact Er]. unfold pg_same_wire. auto 10.
Qed.

Lemma pg_decode_uniq : forall l1 l2,
  concat (map encode_seg l1) = concat (map encode_seg l2) ->
  blen (concat (map encode_seg l1)) < W32 -> Forall2 pg_same_wire l1 l2.
Proof.
  induction l1 as [|s1 t1 IH]; intros l2 E Hb; destruct l2 as [|s2 t2].
  - constructor.
  - exfalso. cbn [map concat] in E. apply (f_equal blen) in E. rewrite blen_app, lv_encode_len in E.
    change (blen []) with 0 in E. pose proof (blen_nonneg (s_data s2)).
    pose proof (blen_nonneg (concat (map encode_seg t2))). unfold c_IKCP_OVERHEAD in E. lia.
  - exfalso. cbn [map concat] in E. apply (f_equal blen) in E. rewrite blen_app, lv_encode_len in E.
    change (blen []) with 0 in E. pose proof (blen_nonneg (s_data s1)).
    pose proof (blen_nonneg (concat (map encode_seg t1))). unfold c_IKCP_OVERHEAD in E. lia.
  - cbn [map concat] in E, Hb.
    destruct (pg_decode_head _ _ _ _ E Hb) as [Hs Er].
    constructor; [exact Hs|]. apply IH; [exact Er|].
    rewrite blen_app, lv_encode_len in Hb. pose proof (blen_nonneg (s_data s1)).
    unfold c_IKCP_OVERHEAD in Hb. lia.
Qed.
