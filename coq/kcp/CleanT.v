(* C18, clean-path half, SENDER SIDE, when time passes INSIDE the calls.
   Definitions only (the proofs are in CleanTProofs.v; the statement file is C18d.v).

   Step.step / Step.run use Kcp.flush/input/update, which see ONE clock value per call.
   step_t / run_t use FlushT.flush_t/input_t/update_t: the user's output callback blocks `tx` ms per
   datagram and the clock is re-read where the Go code re-reads it
       clk now tx st = u32 (now + tx * #datagrams handed to the callback so far in this call).
   A transmitted segment gets  s_ts = the NEW reading,  s_resendts = the PREVIOUS reading + rto,
   and the two readings are at most one callback (tx) apart (FlushTProofs / C18c).

   The clean-sender vocabulary of Clean.v, generalised:
     cl_seg_ok_t tx m s      never transmitted, or transmitted once with the timer armed at c + rto
                             for an (unwrapped, integer) c with  s_ts s - tx <= c <= s_ts s;
                             m <= rto <= 60000; fastack = 0.           (tx = 0: cl_seg_ok)
     cl_cinv_t tx k          cl_cinv with cl_seg_ok_t
     cl_fresh_t tx k now n   H2t for a call at time `now` that hands n datagrams to the callback:
                             every transmitted, unacknowledged segment satisfies
                                 0 <= now - s_ts s   and   (now - s_ts s) + tx * n < rx_minrto - tx
                             (differences taken with itimediff, i.e. 32-bit wrap-safe): the segment is
                             younger than rx_minrto - tx at EVERY clock reading of the call, the last
                             one (now + tx * n) included.                (tx = 0: cl_fresh)
     ct_ndg tx k o           the number of datagrams the call o hands to the callback in state k
     cl_op_ok_t / clean_history_t / clean_history_t_b
                             H1 (unchanged: cl_acks_in_order) + H2t, along the run_t trajectory. *)
From Coq Require Import ZArith List Bool.
From KV.Base Require Import Consts Word.
From KV.Kcp Require Import Kcp Step LiveBase CleanBase Clean FlushT.
Import ListNotations.
Local Open Scope Z_scope.

(* ------------------------------------------------------------------ *)
(* 1. one call / a history, with the callback taking tx ms per datagram *)
(* ------------------------------------------------------------------ *)
Definition step_t (tx : Z) (k : kcp) (o : op) : res (kcp * out) :=
  match o with
  | OSend b => match send k b with Ok (k', r) => Ok (k', mkOut r [] []) | Panic w => Panic w end
  | ORecv n => let '(k', r, d) := recv k n in Ok (k', mkOut r d [])
  | OInput d reg nd now =>
      match input_t k d reg nd now tx with Ok (k', r, o) => Ok (k', mkOut r [] o) | Panic w => Panic w end
  | OFlush full now =>
      match flush_t k (if full then FLUSH_FULL else FLUSH_ACKONLY) now tx with
      | Ok (k', nx, o) => Ok (k', mkOut nx [] o) | Panic w => Panic w end
  | OUpdate now => match update_t k now tx with Ok (k', o) => Ok (k', mkOut 0 [] o) | Panic w => Panic w end
  | OCheck now => Ok (k, mkOut (check k now) [] [])
  | OSetMtu m => let '(k', r) := set_mtu k m in Ok (k', mkOut r [] [])
  | ONoDelay nd iv rs nc => Ok (set_nodelay k nd iv rs nc, mkOut 0 [] [])
  end.

Fixpoint run_t (tx : Z) (k : kcp) (ops : list op) : option (kcp * list out) :=
  match ops with
  | [] => Some (k, [])
  | o :: t =>
      match step_t tx k o with
      | Panic _ => None
      | Ok (k1, x) => match run_t tx k1 t with Some (k2, xs) => Some (k2, x :: xs) | None => None end
      end
  end.

(* the clock argument of a call is a value of the 32-bit clock (what currentMs() returns) *)
Definition op_time_ok (o : op) : Prop :=
  match o with
  | OInput _ _ _ now | OFlush _ now | OUpdate now => 0 <= now < W32
  | _ => True
  end.

Definition op_time_ok_b (o : op) : bool :=
  match o with
  | OInput _ _ _ now | OFlush _ now | OUpdate now => (0 <=? now) && (now <? W32)
  | _ => true
  end.

(* ------------------------------------------------------------------ *)
(* 2. the invariant                                                    *)
(* ------------------------------------------------------------------ *)
(* c is an integer (NO wrap: c may be negative when s_ts s < tx); only c + rto is reduced mod 2^32.
   This is what FlushTProofs.ft_lag (the u32 form of c18c_timer_lag) gives with NO range premise:
   ts = u32 (now + tx*nt), resendts = u32 (u32 (now + tx*nr) + rto), nr <= nt <= nr + 1,
   c := ts - tx * (nt - nr). *)
Definition cl_seg_ok_t (tx m : Z) (s : seg) : Prop :=
  s_fastack s = 0 /\
  (s_xmit s = 0 \/
   (s_xmit s = 1 /\
    (exists c, s_ts s - tx <= c <= s_ts s /\ s_resendts s = u32 (c + s_rto s)) /\
    m <= s_rto s <= 60000)).

Record cl_cinv_t (tx : Z) (k : kcp) : Prop := mkCinvT {
  CT_sq : Forall (fun s => s_fastack s = 0) (snd_queue k);
  CT_sb : Forall (cl_seg_ok_t tx (rx_minrto k)) (snd_buf k);
  CT_fr : - H32 <= fastresend k < H32
}.

(* ------------------------------------------------------------------ *)
(* 3. the history premise                                              *)
(* ------------------------------------------------------------------ *)
(* H2t.  n = the number of datagrams the call hands to the callback.  The retransmission test
   cl_timeout cur s of this call is evaluated at readings cur = u32 (now + tx * j), 0 <= j <= n. *)
Definition cl_fresh_t (tx : Z) (k : kcp) (now n : Z) : Prop :=
  Forall (fun s => s_acked s <> 1 -> s_xmit s <> 0 ->
            0 <= itimediff now (s_ts s) /\ itimediff now (s_ts s) + tx * n < rx_minrto k - tx)
         (snd_buf k).

(* the number of datagrams call o hands to the callback in state k (a function of the input history) *)
Definition ct_ndg (tx : Z) (k : kcp) (o : op) : Z :=
  match step_t tx k o with
  | Ok (_, x) => Z.of_nat (length (o_dgrams x))
  | Panic _ => 0
  end.

(* H1 + H2t for one call made in state k; the segments are those outstanding at the START of the
   call (for Input: before its acknowledgements are processed) *)
Definition cl_op_ok_t (tx : Z) (k : kcp) (o : op) : Prop :=
  match o with
  | ONoDelay _ _ _ _ => False
  | OInput d regular _ now =>
      cl_acks_in_order (S (length d / 24)) (mkInp k 0 false false) d regular /\
      cl_fresh_t tx k now (ct_ndg tx k o)
  | OFlush full now => full = true -> cl_fresh_t tx k now (ct_ndg tx k o)
  | OUpdate now => cl_fresh_t tx k now (ct_ndg tx k o)
  | _ => True
  end.

Fixpoint clean_history_t (tx : Z) (k : kcp) (ops : list op) : Prop :=
  match ops with
  | [] => True
  | o :: t => cl_op_ok_t tx k o /\
              match step_t tx k o with Ok (k', _) => clean_history_t tx k' t | Panic _ => True end
  end.

(* ---- the same as boolean functions ---- *)
Definition cl_fresh_t_b (tx : Z) (k : kcp) (now n : Z) : bool :=
  forallb (fun s => (s_acked s =? 1) || (s_xmit s =? 0) ||
                    ((0 <=? itimediff now (s_ts s)) &&
                     (itimediff now (s_ts s) + tx * n <? rx_minrto k - tx))) (snd_buf k).

Definition cl_op_ok_t_b (tx : Z) (k : kcp) (o : op) : bool :=
  match o with
  | ONoDelay _ _ _ _ => false
  | OInput d regular _ now =>
      cl_acks_in_order_b (S (length d / 24)) (mkInp k 0 false false) d regular &&
      cl_fresh_t_b tx k now (ct_ndg tx k o)
  | OFlush full now => negb full || cl_fresh_t_b tx k now (ct_ndg tx k o)
  | OUpdate now => cl_fresh_t_b tx k now (ct_ndg tx k o)
  | _ => true
  end.

Fixpoint clean_history_t_b (tx : Z) (k : kcp) (ops : list op) : bool :=
  match ops with
  | [] => true
  | o :: t => cl_op_ok_t_b tx k o &&
              match step_t tx k o with Ok (k', _) => clean_history_t_b tx k' t | Panic _ => true end
  end.
