(* C18 - the clock inside one flush (FlushT.v / FlushTProofs.v).

   Kcp.flush sees ONE clock value `now`.  The Go code reads the clock several times inside one
   flush (phase 2; start of phase 5; and again for every segment it (re)transmits, inside
   `if needsend {`, BEFORE makeSpace/encode of that segment), and time passes between the readings
   exactly while the user's output callback runs.  FlushT.flush_t models a callback that takes `tx`
   milliseconds per datagram: the clock after the outputs made so far in this flush is
       clk now tx st = u32 (now + tx * number of datagrams already handed to the callback).
   Order of events for a transmitted segment in the Go code (and in flush_seg_t):
       segment.resendts = current + segment.rto      -- PREVIOUS reading `cur`
       current = currentMs()                         -- new reading cur' (before makeSpace)
       segment.ts = current                          -- NEW reading
       makeSpace(need) ; encode                      -- may hand ONE datagram to the callback
   Proved here:
     1. tx = 0 is the existing model: every theorem about flush/input/update is a theorem about
        the tx = 0 instance of flush_t/input_t/update_t;
     2. one segment: ts' = the reading taken when the segment is handed over, resendts' = the
        PREVIOUS reading + rto';
     3. between two readings at most one datagram is handed to the callback;
     4. the whole buffer: the reading a retransmission timer is armed from is at most ONE callback
        time older than the segment's own timestamp - never the start of the flush;
     5. a concrete run with tx = 2.

   Vocabulary:
     clkZ now tx st        now + tx * length (outs st)          (FlushT; outs st = datagrams output so far)
     clk now tx st         u32 (clkZ now tx st)
     nouts a               length (outs (f_st a))
     cl_fast resent s      s_fastack s >= resent /\ s_fastack s <> 0xFFFFFFFF            (CleanBase)
     cl_early newsegs s    s_fastack s > 0 /\ s_fastack s <> 0xFFFFFFFF /\ newsegs = 0   (CleanBase)
     cl_timeout cur s      itimediff cur (s_resendts s) >= 0                             (CleanBase)
     ft_backoff k s        u32 (s_rto s + rx_rto k)  resp.  u32 (s_rto s + rx_rto k / 2) in no-delay mode
     ft_seg_post           the outcome of flush_seg_t on one entry (spelled out in theorem 2)
     ft_lag now tx n0 n1 s s'
                           s' = s, or xmit' = xmit+1, ts' = u32 (now + tx*nt),
                           resendts' = u32 (u32 (now + tx*nr) + rto') with n0 <= nr <= nt <= nr+1, nt <= n1
     ft_lagZ now tx n0 s s'
                           s' = s, or xmit' = xmit+1, resendts' = u32 (c + rto') with
                           ts' - tx <= c <= ts' and now + tx*n0 <= c *)
From Coq Require Import ZArith List Bool.
From KV.Base Require Import Consts Word.
From KV.Kcp Require Import Kcp CleanBase FlushT FlushTProofs.
Import ListNotations.
Local Open Scope Z_scope.

(* ---- 1. tx = 0 is the existing model ---- *)
Theorem c18c_flush_t_zero :
  forall k ft now, 0 <= now < W32 -> flush_t k ft now 0 = flush k ft now.
Proof. exact ft_flush_t_zero. Qed.
Print Assumptions c18c_flush_t_zero.

Theorem c18c_input_t_zero :
  forall k data regular ack_nodelay now, 0 <= now < W32 ->
    input_t k data regular ack_nodelay now 0 = input k data regular ack_nodelay now.
Proof. exact ft_input_t_zero. Qed.
Print Assumptions c18c_input_t_zero.

Theorem c18c_update_t_zero :
  forall k now, 0 <= now < W32 -> update_t k now 0 = update k now.
Proof. exact ft_update_t_zero. Qed.
Print Assumptions c18c_update_t_zero.

(* phase 5 alone, with the value of `current` it ends with *)
Theorem c18c_flush_segs_t_zero :
  forall k h resent newsegs now, 0 <= now < W32 -> forall l a,
    flush_segs_t k h resent newsegs now 0 now l a =
    match flush_segs k h resent newsegs now l a with
    | Ok (l', a') => Ok (l', a', now)
    | Panic w => Panic w
    end.
Proof. exact ft_segs_zero. Qed.
Print Assumptions c18c_flush_segs_t_zero.

(* ---- 2. one segment: the timestamp is the new reading, the timer uses the previous one ---- *)
Theorem c18c_timer_from_handoff :
  forall k h resent newsegs now tx cur s a s' a' cur',
    flush_seg_t k h resent newsegs now tx cur s a = Ok (s', a', cur') ->
    (* not transmitted: nothing changes, the clock is not read *)
    (s' = s /\ cur' = cur /\ f_st a' = f_st a)
    \/
    (* transmitted *)
    (s_acked s <> 1 /\
     s_xmit s' = u32 (s_xmit s + 1) /\
     cur' = clk now tx (f_st a) /\           (* read before make_space of this segment *)
     s_ts s' = cur' /\
     s_resendts s' = u32 (cur + s_rto s') /\  (* armed from the PREVIOUS reading *)
     (s_xmit s = 0 \/ cl_fast resent s \/ cl_early newsegs s -> s_rto s' = rx_rto k) /\
     (s_xmit s <> 0 -> ~ cl_fast resent s -> ~ cl_early newsegs s ->
        cl_timeout cur s /\ s_rto s' = ft_backoff k s) /\
     stage_write k (make_space k (f_st a) (c_IKCP_OVERHEAD + blen (s_data s))) s' = Ok (f_st a')).
Proof. exact ft_timer_from_handoff. Qed.
Print Assumptions c18c_timer_from_handoff.

(* ---- 3. at most one datagram between two readings ---- *)
Theorem c18c_make_space_one_output :
  forall k st n,
    (length (outs st) <= length (outs (make_space k st n)) <= S (length (outs st)))%nat.
Proof. exact ft_make_space_outs. Qed.
Print Assumptions c18c_make_space_one_output.

(* staging one segment = make_space + stage_write *)
Theorem c18c_one_output_per_segment :
  forall k st n s st2,
    stage_write k (make_space k st n) s = Ok st2 ->
    (length (outs st) <= length (outs st2) <= S (length (outs st)))%nat.
Proof. exact ft_one_output. Qed.
Print Assumptions c18c_one_output_per_segment.

(* hence the clock advances by at most tx across one transmitted segment *)
Theorem c18c_clock_step :
  forall k st n s st2 now tx, 0 <= tx ->
    stage_write k (make_space k st n) s = Ok st2 ->
    clkZ now tx st <= clkZ now tx st2 <= clkZ now tx st + tx.
Proof. exact ft_clock_step. Qed.
Print Assumptions c18c_clock_step.

Theorem c18c_clk_wrap : forall now tx st, clk now tx st = u32 (clkZ now tx st).
Proof. exact ft_clk_wrap. Qed.
Print Assumptions c18c_clk_wrap.

(* ---- 4. the whole buffer ---- *)
(* the loop invariant: `cur` was read when nr datagrams had been output, at most one more has been
   output since; it is preserved, readings never go back (nr <= nr'), and every entry satisfies
   ft_lag relative to the reading the loop was entered with *)
Theorem c18c_timer_lag_invariant :
  forall k h resent newsegs now tx l a cur nr l' a' cur',
    cur = u32 (now + tx * Z.of_nat nr) /\ (nr <= nouts a /\ nouts a <= S nr)%nat ->
    flush_segs_t k h resent newsegs now tx cur l a = Ok (l', a', cur') ->
    Forall2 (ft_lag now tx nr (nouts a')) l l' /\ (nouts a <= nouts a')%nat /\
    exists nr', (cur' = u32 (now + tx * Z.of_nat nr') /\ (nr' <= nouts a' /\ nouts a' <= S nr')%nat) /\
                (nr <= nr')%nat.
Proof. exact ft_segs_inv. Qed.
Print Assumptions c18c_timer_lag_invariant.

(* phase 5 as flush_t runs it: entered with a fresh reading *)
Theorem c18c_timer_lag :
  forall k h resent newsegs now tx l a l' a' cur',
    flush_segs_t k h resent newsegs now tx (clk now tx (f_st a)) l a = Ok (l', a', cur') ->
    Forall2 (fun s s' =>
      s' = s \/
      exists nr nt : nat,
        s_xmit s' = u32 (s_xmit s + 1) /\
        s_ts s' = u32 (now + tx * Z.of_nat nt) /\
        s_resendts s' = u32 (u32 (now + tx * Z.of_nat nr) + s_rto s') /\
        (nouts a <= nr /\ nr <= nt /\ nt <= S nr /\ nt <= nouts a')%nat) l l'.
Proof. exact ft_timer_lag. Qed.
Print Assumptions c18c_timer_lag.

(* the same when the clock does not wrap during this flush: the timer of a transmitted segment is
   armed from a reading c with ts - tx <= c <= ts *)
Theorem c18c_timer_lag_nowrap :
  forall k h resent newsegs now tx l a l' a' cur',
    0 <= now -> 0 <= tx -> clkZ now tx (f_st a') < W32 ->
    flush_segs_t k h resent newsegs now tx (clk now tx (f_st a)) l a = Ok (l', a', cur') ->
    Forall2 (fun s s' =>
      s' = s \/
      exists c : Z,
        s_xmit s' = u32 (s_xmit s + 1) /\
        s_resendts s' = u32 (c + s_rto s') /\
        s_ts s' - tx <= c <= s_ts s' /\
        now + tx * Z.of_nat (nouts a) <= c) l l'.
Proof. exact ft_timer_lag_nowrap. Qed.
Print Assumptions c18c_timer_lag_nowrap.

(* a whole flush: the buffer before (followed by the entries admitted by this flush) against the
   buffer after; length o = all datagrams of this flush *)
Theorem c18c_flush_t_timer_lag :
  forall k now tx k' nx o,
    flush_t k FLUSH_FULL now tx = Ok (k', nx, o) ->
    exists adm, Forall2 (ft_lag now tx 0 (length o)) (snd_buf k ++ adm) (snd_buf k').
Proof. exact ft_flush_t_timer_lag. Qed.
Print Assumptions c18c_flush_t_timer_lag.

(* ---- 5. the definitions are not vacuous: congestion window off, full-size messages queued on a
   fresh kcp_new, now = 1000, tx = 2.  Entries: (sn, xmit, ts, resendts); rx_rto = 200.
   Every segment fills a datagram, so the previous datagram goes to the callback when the next
   segment is staged - after the reading for that segment: segment 2 is stamped 1002 with its
   timer armed from 1000, segment 3 is stamped 1004 with its timer armed from 1002. ---- *)
Theorem c18c_example :
  ft_ex_view (flush_t ft_ex_k3 FLUSH_FULL 1000 2) =
    Some ([(0, 1, 1000, 1200); (1, 1, 1000, 1200); (2, 1, 1002, 1200)], 100,
          [1400%nat; 1400%nat; 1400%nat]) /\
  ft_ex_view (flush_t ft_ex_k4 FLUSH_FULL 1000 2) =
    Some ([(0, 1, 1000, 1200); (1, 1, 1000, 1200); (2, 1, 1002, 1200); (3, 1, 1004, 1202)], 100,
          [1400%nat; 1400%nat; 1400%nat; 1400%nat]) /\
  ft_ex_view (flush ft_ex_k4 FLUSH_FULL 1000) =
    Some ([(0, 1, 1000, 1200); (1, 1, 1000, 1200); (2, 1, 1000, 1200); (3, 1, 1000, 1200)], 100,
          [1400%nat; 1400%nat; 1400%nat; 1400%nat]).
Proof. exact (conj ft_example3 ft_example4). Qed.
Print Assumptions c18c_example.
