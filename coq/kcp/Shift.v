(* C12: behaviour is invariant under shifting sequence numbers and clocks by constants.
   Definitions only.  An endpoint's state mixes two number spaces and two clocks:
     its OWN numbering  (snd_una, snd_nxt, sn of snd_buf, una/ack-sn of what it receives)   + ko
     the PEER's numbering (rcv_nxt, sn of rcv_queue/rcv_buf/acklist, una it emits)          + kp
     its OWN clock  (now, ts/resendts of snd_buf, ts_probe, ts_flush, ts echoed in ACKs in) + co
     the PEER's clock (ts of acklist entries, ts of received PUSH segments)                 + cp
   all modulo 2^32.  The shift is a RELATION: fields the code never reads before overwriting
   them (ts/una/resendts of not yet transmitted segments, header leftovers in WASK/WINS, the
   bookkeeping fields of received segments) are unconstrained - DESIGN boundaries B13, B16. *)
From Coq Require Import ZArith List Bool.
From KV.Base Require Import Consts Word.
From KV.Kcp Require Import Kcp Step Net.
Import ListNotations.
Local Open Scope Z_scope.

Record shp := mkShp { ko : Z; kp : Z; co : Z; cp : Z }.
Definition sh (d x : Z) : Z := u32 (x + d).

(* queued, not yet numbered: payload and fragment counter only *)
Definition R_sq (s1 s2 : seg) : Prop :=
  s_frg s1 = s_frg s2 /\ s_data s1 = s_data s2 /\ s_xmit s1 = s_xmit s2 /\ s_acked s1 = s_acked s2 /\
  s_fastack s1 = s_fastack s2 /\ s_rto s1 = s_rto s2.

(* numbered: sn and timers shifted (a full flush transmits every segment it numbers in the same
   call, so between calls every snd_buf segment carries real timestamps) *)
Definition R_sb (p : shp) (s1 s2 : seg) : Prop :=
  R_sq s1 s2 /\ s_conv s1 = s_conv s2 /\ s_cmd s1 = s_cmd s2 /\ s_sn s2 = sh (ko p) (s_sn s1) /\
  s_ts s2 = sh (co p) (s_ts s1) /\ s_resendts s2 = sh (co p) (s_resendts s1) /\
  s_una s2 = sh (kp p) (s_una s1) /\ s_wnd s1 = s_wnd s2.

(* received: number shifted, payload equal *)
Definition R_rcv (p : shp) (s1 s2 : seg) : Prop :=
  s_sn s2 = sh (kp p) (s_sn s1) /\ s_frg s1 = s_frg s2 /\ s_data s1 = s_data s2.

Definition R_ack (p : shp) (a1 a2 : Z * Z) : Prop :=
  fst a2 = sh (kp p) (fst a1) /\ snd a2 = sh (cp p) (snd a1).

Record R (p : shp) (k1 k2 : kcp) : Prop := mkR {
  R_cfg : conv k1 = conv k2 /\ mtu k1 = mtu k2 /\ mss k1 = mss k2 /\ state k1 = state k2 /\
          snd_wnd k1 = snd_wnd k2 /\ rcv_wnd k1 = rcv_wnd k2 /\ rmt_wnd k1 = rmt_wnd k2 /\
          cwnd k1 = cwnd k2 /\ incr k1 = incr k2 /\ ssthresh k1 = ssthresh k2 /\
          rx_rttvar k1 = rx_rttvar k2 /\ rx_srtt k1 = rx_srtt k2 /\ rx_rto k1 = rx_rto k2 /\
          rx_minrto k1 = rx_minrto k2 /\ probe k1 = probe k2 /\ probe_wait k1 = probe_wait k2 /\
          interval k1 = interval k2 /\ nodelay k1 = nodelay k2 /\ updated k1 = updated k2 /\
          dead_link k1 = dead_link k2 /\ fastresend k1 = fastresend k2 /\ nocwnd k1 = nocwnd k2 /\
          stream k1 = stream k2 /\ buflen k1 = buflen k2;
  R_una : snd_una k2 = sh (ko p) (snd_una k1);
  R_nxt : snd_nxt k2 = sh (ko p) (snd_nxt k1);
  R_rnxt : rcv_nxt k2 = sh (kp p) (rcv_nxt k1);
  (* ts_probe is a time only while a probe is armed; ts_flush only once Update has run *)
  R_tsprobe : probe_wait k1 <> 0 -> ts_probe k2 = sh (co p) (ts_probe k1);
  R_tsflush : updated k1 <> 0 -> ts_flush k2 = sh (co p) (ts_flush k1);
  R_tsflush0 : updated k1 = 0 -> ts_flush k2 = ts_flush k1;
  R_sndq : Forall2 R_sq (snd_queue k1) (snd_queue k2);
  R_sndb : Forall2 (R_sb p) (snd_buf k1) (snd_buf k2);
  R_rq : Forall2 (R_rcv p) (rcv_queue k1) (rcv_queue k2);
  R_rb : Forall2 (R_rcv p) (rcv_buf k1) (rcv_buf k2);
  R_al : Forall2 (R_ack p) (acklist k1) (acklist k2)
}.

(* ---- datagrams, as lists of segments ---- *)
Definition same_hdr (s1 s2 : seg) : Prop :=
  s_conv s1 = s_conv s2 /\ s_cmd s1 = s_cmd s2 /\ s_frg s1 = s_frg s2 /\ s_wnd s1 = s_wnd s2 /\ s_data s1 = s_data s2.

(* a segment EMITTED by the endpoint *)
Definition R_out_seg (p : shp) (s1 s2 : seg) : Prop :=
  same_hdr s1 s2 /\ s_una s2 = sh (kp p) (s_una s1) /\
  (s_cmd s1 = c_IKCP_CMD_PUSH -> s_sn s2 = sh (ko p) (s_sn s1) /\ s_ts s2 = sh (co p) (s_ts s1)) /\
  (s_cmd s1 = c_IKCP_CMD_ACK -> s_sn s2 = sh (kp p) (s_sn s1) /\ s_ts s2 = sh (cp p) (s_ts s1)).
  (* WASK / WINS: sn and ts are header leftovers, unconstrained (B16) *)

(* a segment RECEIVED by the endpoint: the mirror image *)
Definition R_in_seg (p : shp) (s1 s2 : seg) : Prop :=
  same_hdr s1 s2 /\ s_una s2 = sh (ko p) (s_una s1) /\
  (s_cmd s1 = c_IKCP_CMD_PUSH -> s_sn s2 = sh (kp p) (s_sn s1) /\ s_ts s2 = sh (cp p) (s_ts s1)) /\
  (s_cmd s1 = c_IKCP_CMD_ACK -> s_sn s2 = sh (ko p) (s_sn s1) /\ s_ts s2 = sh (co p) (s_ts s1)).

Definition R_dgram (Rs : seg -> seg -> Prop) (d1 d2 : bytes) : Prop :=
  exists l1 l2, d1 = concat (map encode_seg l1) /\ d2 = concat (map encode_seg l2) /\
                Forall seg_wf l1 /\ Forall seg_wf l2 /\ Forall2 Rs l1 l2.

(* related calls *)
Inductive R_op (p : shp) : op -> op -> Prop :=
| RSend : forall b, R_op p (OSend b) (OSend b)
| RRecv : forall n, R_op p (ORecv n) (ORecv n)
| RInput : forall d1 d2 reg nd now, R_dgram (R_in_seg p) d1 d2 -> is_u32 now ->
    R_op p (OInput d1 reg nd now) (OInput d2 reg nd (sh (co p) now))
| RFlush : forall f now, is_u32 now -> R_op p (OFlush f now) (OFlush f (sh (co p) now))
| RUpdate : forall now, is_u32 now -> R_op p (OUpdate now) (OUpdate (sh (co p) now))
| RCheck : forall now, is_u32 now -> R_op p (OCheck now) (OCheck (sh (co p) now))
| RSetMtu : forall m, R_op p (OSetMtu m) (OSetMtu m)
| RNoDelay : forall a b c d, R_op p (ONoDelay a b c d) (ONoDelay a b c d).

(* related results: same return value (Check returns a time), same bytes read, related datagrams *)
Definition R_result (p : shp) (o : op) (x1 x2 : out) : Prop :=
  (match o with OCheck _ => o_ret x2 = sh (co p) (o_ret x1) | _ => o_ret x2 = o_ret x1 end) /\
  o_data x1 = o_data x2 /\
  Forall2 (R_dgram (R_out_seg p)) (o_dgrams x1) (o_dgrams x2).

(* the shift of a fresh endpoint: start at any sequence number / any clock *)
Definition shifted_init (p : shp) (k : kcp) : kcp :=
  set_seq k (sh (ko p) (snd_una k)) (sh (ko p) (snd_nxt k)) (sh (kp p) (rcv_nxt k)).
