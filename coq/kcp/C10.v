(* C10 - no datagram exceeds the MTU; accepted MTUs are safe (the protocol core's part).
   Statements only. *)
From Coq Require Import ZArith List Bool.
From KV.Base Require Import Consts Word.
From KV.Kcp Require Import Kcp Step InvAll.
Import ListNotations.
Local Open Scope Z_scope.

(* Whatever the call and its arguments, every datagram handed to the output callback is
   non-empty and at most mtu bytes (mtu of the state after the call; only SetMtu changes the
   mtu and it emits nothing). *)
Theorem c10_core_output_size :
  forall k o k' x, inv k -> op_ok o -> step k o = Ok (k', x) ->
    Forall (fun d => 0 < blen d <= mtu k') (o_dgrams x).
Proof. exact step_output_size. Qed.
Print Assumptions c10_core_output_size.

(* Over whole histories, with SetMtu calls (growing or shrinking) at arbitrary points. *)
Theorem c10_history_output_size :
  forall ops k, inv k -> Forall op_ok ops ->
    exists k' outs, run k ops = Some (k', outs) /\ inv k' /\
      Forall (fun x => Forall (fun d => 0 < blen d <= c_mtuLimit) (o_dgrams x)) outs.
Proof. exact run_output_size. Qed.
Print Assumptions c10_history_output_size.

(* SetMtu: an accepted value is honoured from then on (the invariant - and with it all of the
   above - holds in the new state); a value that cannot be honoured is refused and changes
   nothing. *)
Theorem c10_setmtu :
  forall k m, inv k ->
    let '(k', r) := set_mtu k m in
    (r = 0 /\ mtu k' = m /\ inv k') \/ (r = -1 /\ k' = k).
Proof. exact setmtu_spec. Qed.
Print Assumptions c10_setmtu.

(* exactly which values are refused *)
Theorem c10_setmtu_refused_iff :
  forall k m, inv k ->
    (snd (set_mtu k m) = -1 <->
     m <= c_IKCP_OVERHEAD \/ m > c_mtuLimit \/
     exists s, In s (snd_queue k ++ snd_buf k) /\ seg_len s > m - c_IKCP_OVERHEAD).
Proof. exact setmtu_refused_iff. Qed.
Print Assumptions c10_setmtu_refused_iff.

(* pool buffers always suffice: every segment the model creates has <= mtuLimit bytes *)
Theorem c10_pool_fits :
  forall k, inv k -> Forall (fun s => seg_len s <= c_mtuLimit) (snd_queue k ++ snd_buf k ++ rcv_queue k ++ rcv_buf k).
Proof. exact inv_pool_fits. Qed.
Print Assumptions c10_pool_fits.

(* regression witnesses of the repaired defects F1-F3 *)
Example c10_setmtu_above_limit_refused : snd (set_mtu (kcp_new 7) 2000) = -1.
Proof. exact setmtu_2000_refused. Qed.
