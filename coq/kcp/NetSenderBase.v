(* Helper lemmas for NetSender.v (the sender half of C01).  All names are prefixed ns_.
   1. lists (skipn / Forall2);  2. fragment counters: chain, at_boundary, messages;
   3. Send;  4. Input up to its flush (snd_buf only loses heads / gets husks);
   5. flush: what it admits, what it emits. *)
From Coq Require Import ZArith List Bool Lia.
From KV.Base Require Import Consts Word WordLemmas.
From KV.Kcp Require Import Kcp Step Net InvBase InvApi InvInputBase InvInput.
Import ListNotations.
Local Open Scope Z_scope.

Ltac Zify.zify_post_hook ::= Z.div_mod_to_equations.

Ltac ns_b2z :=
  repeat match goal with
  | H : (_ >? _) = true |- _ => apply Z.gtb_lt in H
  | H : (_ >? _) = false |- _ => rewrite Z.gtb_ltb in H; apply Z.ltb_ge in H
  | H : (_ <? _) = true |- _ => apply Z.ltb_lt in H
  | H : (_ <? _) = false |- _ => apply Z.ltb_ge in H
  | H : (_ >=? _) = true |- _ => rewrite Z.geb_leb in H; apply Z.leb_le in H
  | H : (_ >=? _) = false |- _ => rewrite Z.geb_leb in H; apply Z.leb_gt in H
  | H : (_ <=? _) = true |- _ => apply Z.leb_le in H
  | H : (_ <=? _) = false |- _ => apply Z.leb_gt in H
  | H : (_ =? _) = true |- _ => apply Z.eqb_eq in H
  | H : (_ =? _) = false |- _ => apply Z.eqb_neq in H
  end.

Ltac ns_segf :=
  cbn [s_conv s_cmd s_frg s_wnd s_ts s_sn s_una s_rto s_xmit s_resendts s_fastack s_acked s_data
       set_seg_data set_seg_fastack new_seg_data].
Ltac ns_segf_in H :=
  cbn [s_conv s_cmd s_frg s_wnd s_ts s_sn s_una s_rto s_xmit s_resendts s_fastack s_acked s_data
       set_seg_data set_seg_fastack new_seg_data] in H.

(* ================================================================== *)
(* 1. lists                                                            *)
(* ================================================================== *)
Lemma ns_skipn_skipn (A : Type) (x : nat) : forall (y : nat) (l : list A),
  skipn x (skipn y l) = skipn (y + x) l.
Proof.
  induction y as [|y IH]; intros l; [reflexivity|].
  destruct l as [|a t]; [rewrite !skipn_nil; reflexivity|]. cbn [skipn Nat.add]. apply IH.
Qed.

Lemma ns_skipn_app_le (A : Type) (n : nat) (l1 l2 : list A) :
  (n <= length l1)%nat -> skipn n (l1 ++ l2) = skipn n l1 ++ l2.
Proof.
  intros H. rewrite skipn_app. replace (n - length l1)%nat with 0%nat by lia. reflexivity.
Qed.

Lemma ns_skipn_app_len (A : Type) (l1 l2 : list A) : skipn (length l1) (l1 ++ l2) = l2.
Proof.
  rewrite skipn_app, skipn_all, Nat.sub_diag. reflexivity.
Qed.

Lemma ns_F2_length (A B : Type) (R : A -> B -> Prop) l l' :
  Forall2 R l l' -> length l = length l'.
Proof. induction 1 as [|x y t t' _ _ IH]; [reflexivity|]. cbn [length]. rewrite IH. reflexivity. Qed.

Lemma ns_F2_skipn (A B : Type) (R : A -> B -> Prop) (j : nat) : forall l l',
  Forall2 R l l' -> Forall2 R (skipn j l) (skipn j l').
Proof.
  induction j as [|j IH]; intros l l' H; [exact H|].
  destruct H as [|x y t t' Hxy Ht]; [constructor|]. cbn [skipn]. apply IH. exact Ht.
Qed.

Lemma ns_F2_comp (A B C : Type) (R1 : A -> B -> Prop) (R2 : B -> C -> Prop) (R3 : A -> C -> Prop) :
  (forall a b c, R1 a b -> R2 b c -> R3 a c) ->
  forall l m, Forall2 R1 l m -> forall n, Forall2 R2 m n -> Forall2 R3 l n.
Proof.
  intros Hc l m H. induction H as [|x y t t' Hxy _ IH]; intros n Hn.
  - inversion Hn; subst. constructor.
  - inversion Hn as [|y' z t'' n' Hyz Ht]; subst. constructor; [eapply Hc; eassumption|apply IH; exact Ht].
Qed.

Lemma ns_F2_impl (A B : Type) (R1 R2 : A -> B -> Prop) :
  (forall a b, R1 a b -> R2 a b) -> forall l m, Forall2 R1 l m -> Forall2 R2 l m.
Proof. intros Hi l m H. induction H; constructor; auto. Qed.

Lemma ns_F2_refl (A : Type) (R : A -> A -> Prop) : (forall a, R a a) -> forall l, Forall2 R l l.
Proof. intros Hr. induction l; constructor; auto. Qed.

Lemma ns_F2_nth (A B : Type) (R : A -> B -> Prop) : forall l m, Forall2 R l m ->
  forall i x, nth_error l i = Some x -> exists y, nth_error m i = Some y /\ R x y.
Proof.
  intros l m H. induction H as [|x y t t' Hxy _ IH]; intros i a Hi.
  - destruct i; discriminate.
  - destruct i as [|i]; cbn [nth_error] in *.
    + inversion Hi; subst. exists y. split; [reflexivity|exact Hxy].
    + apply IH. exact Hi.
Qed.

Lemma ns_nth_skipn (A : Type) (a : nat) : forall (l : list A) i,
  nth_error (skipn a l) i = nth_error l (a + i).
Proof.
  induction a as [|a IH]; intros l i; [reflexivity|].
  destruct l as [|x t]; [rewrite skipn_nil; destruct i; reflexivity|]. cbn [skipn Nat.add nth_error]. apply IH.
Qed.

Lemma ns_is_byte_list_app a b : is_byte_list (a ++ b) <-> is_byte_list a /\ is_byte_list b.
Proof. unfold is_byte_list. apply Forall_app. Qed.

Lemma ns_is_byte_list_take n b : is_byte_list b -> is_byte_list (take n b).
Proof.
  unfold is_byte_list, take. intros H. rewrite <- (firstn_skipn (Z.to_nat n) b) in H.
  apply Forall_app in H. exact (proj1 H).
Qed.

Lemma ns_blen0 b : blen b <= 0 -> b = [].
Proof. destruct b; [reflexivity|]. unfold blen. cbn [length]. lia. Qed.

(* ================================================================== *)
(* 2. fragment counters                                                *)
(* ================================================================== *)
(* the chain clause of src_wf, recursively *)
Fixpoint ns_chain (l : list (Z * bytes)) : Prop :=
  match l with
  | [] => True
  | p :: t => match t with [] => True | q :: _ => fst p > 0 -> fst q = fst p - 1 end /\ ns_chain t
  end.

Definition ns_pay_ok (p : Z * bytes) : Prop :=
  0 <= fst p <= 254 /\ is_byte_list (snd p) /\ blen (snd p) <= c_mtuLimit.

Lemma ns_chain_iff l :
  ns_chain l <->
  (forall i p q, nth_error l i = Some p -> nth_error l (S i) = Some q -> fst p > 0 -> fst q = fst p - 1).
Proof.
  induction l as [|a t IH].
  - split; [intros _ i p q H; destruct i; discriminate|intros _; exact I].
  - cbn [ns_chain]. split.
    + intros [H1 H2] i p q Hp Hq Hpos. destruct i as [|i].
      * cbn [nth_error] in Hp, Hq. inversion Hp; subst p.
        destruct t as [|b t']; [discriminate|]. cbn [nth_error] in Hq. inversion Hq; subst q. exact (H1 Hpos).
      * cbn [nth_error] in Hp. change (nth_error (a :: t) (S (S i))) with (nth_error t (S i)) in Hq.
        exact (proj1 IH H2 i p q Hp Hq Hpos).
    + intros H. split.
      * destruct t as [|b t']; [exact I|]. intros Hpos. exact (H 0%nat a b eq_refl eq_refl Hpos).
      * apply IH. intros i p q Hp Hq Hpos. exact (H (S i) p q Hp Hq Hpos).
Qed.

Lemma ns_src_wf_iff src : src_wf src <-> Forall ns_pay_ok src /\ ns_chain src.
Proof. unfold src_wf. rewrite ns_chain_iff. reflexivity. Qed.

Lemma ns_boundary_nil : at_boundary [].
Proof. exact I. Qed.

Lemma ns_boundary_snoc l p : at_boundary (l ++ [p]) <-> fst p = 0.
Proof. unfold at_boundary. rewrite rev_app_distr. cbn [rev app]. reflexivity. Qed.

Lemma ns_boundary_cons p t : t <> [] -> (at_boundary (p :: t) <-> at_boundary t).
Proof.
  intros Hne. unfold at_boundary. cbn [rev].
  destruct (rev t) as [|x r] eqn:E.
  - exfalso. apply Hne. rewrite <- (rev_involutive t), E. reflexivity.
  - cbn [app]. reflexivity.
Qed.

Lemma ns_boundary_single p : at_boundary [p] <-> fst p = 0.
Proof. exact (ns_boundary_snoc [] p). Qed.

Lemma ns_boundary_app l1 l2 : l2 <> [] -> (at_boundary (l1 ++ l2) <-> at_boundary l2).
Proof.
  intros Hne. induction l1 as [|p t IH]; [reflexivity|].
  cbn [app]. rewrite ns_boundary_cons; [exact IH|].
  intros E. apply app_eq_nil in E. exact (Hne (proj2 E)).
Qed.

Lemma ns_chain_app l1 : forall l2,
  ns_chain l1 -> ns_chain l2 -> at_boundary l1 -> ns_chain (l1 ++ l2).
Proof.
  induction l1 as [|p t IH]; intros l2 H1 H2 Hb; [exact H2|].
  cbn [app ns_chain] in *. destruct H1 as [Hh Ht].
  destruct t as [|q t'].
  - apply ns_boundary_single in Hb. cbn [app]. split; [|exact H2].
    destruct l2; [exact I|]. intros Hpos. lia.
  - split; [exact Hh|]. apply IH; [exact Ht|exact H2|].
    apply (ns_boundary_cons p (q :: t')); [discriminate|exact Hb].
Qed.

Lemma ns_chain_app_l l1 : forall l2, ns_chain (l1 ++ l2) -> ns_chain l1.
Proof.
  induction l1 as [|p t IH]; intros l2 H; [exact I|].
  cbn [app ns_chain] in *. destruct H as [Hh Ht]. split; [|eapply IH; exact Ht].
  destruct t as [|q t']; [exact I|exact Hh].
Qed.

(* chain and boundary read the counters only *)
Lemma ns_chain_fst l : forall l', map fst l = map fst l' -> ns_chain l -> ns_chain l'.
Proof.
  induction l as [|p t IH]; intros l' E H.
  - destruct l'; [exact I|discriminate].
  - destruct l' as [|p' t']; [discriminate|]. cbn [map] in E. injection E as E1 E2.
    cbn [ns_chain] in *. destruct H as [Hh Ht]. split; [|exact (IH _ E2 Ht)].
    destruct t as [|q t0]; destruct t' as [|q' t0']; try discriminate; [exact I|].
    cbn [map] in E2. injection E2 as E3 _. rewrite <- E1, <- E3. exact Hh.
Qed.

Lemma ns_boundary_fst l l' : map fst l = map fst l' -> at_boundary l -> at_boundary l'.
Proof.
  intros E. unfold at_boundary.
  assert (Er : map fst (rev l) = map fst (rev l')) by (rewrite !map_rev, E; reflexivity).
  destruct (rev l) as [|p r]; destruct (rev l') as [|p' r']; try discriminate; [auto|].
  cbn [map] in Er. injection Er as E1 _. rewrite E1. auto.
Qed.

(* ---- messages ---- *)
Lemma ns_messages_aux_app l1 : forall cur l2, l1 <> [] -> at_boundary l1 ->
  messages_aux cur (l1 ++ l2) = messages_aux cur l1 ++ messages_aux [] l2.
Proof.
  induction l1 as [|[f d] t IH]; intros cur l2 Hne Hb; [contradiction|].
  destruct t as [|q t'].
  - apply ns_boundary_single in Hb. cbn [fst] in Hb. subst f. reflexivity.
  - assert (Hb' : at_boundary (q :: t')) by (apply (ns_boundary_cons (f, d) (q :: t')); [discriminate|exact Hb]).
    cbn [app messages_aux]. destruct (f =? 0).
    + change ((cur ++ d) :: messages_aux [] ((q :: t') ++ l2) = ((cur ++ d) :: messages_aux [] (q :: t')) ++ messages_aux [] l2).
      rewrite IH; [reflexivity|discriminate|exact Hb'].
    + change (messages_aux (cur ++ d) ((q :: t') ++ l2) = messages_aux (cur ++ d) (q :: t') ++ messages_aux [] l2).
      apply IH; [discriminate|exact Hb'].
Qed.

Lemma ns_messages_app l1 l2 : at_boundary l1 -> messages (l1 ++ l2) = messages l1 ++ messages l2.
Proof.
  intros Hb. unfold messages. destruct l1 as [|p t]; [reflexivity|].
  apply ns_messages_aux_app; [discriminate|exact Hb].
Qed.

(* the counters of one fragmented message: n-1, ..., 0 *)
Fixpoint ns_down (n : nat) : list Z :=
  match n with O => [] | S m => Z.of_nat m :: ns_down m end.

Lemma ns_down_messages n : forall l cur, map fst l = ns_down (S n) ->
  messages_aux cur l = [cur ++ concat (map snd l)].
Proof.
  induction n as [|n IH]; intros l cur E.
  - destruct l as [|[f d] t]; [discriminate|]. cbn [map ns_down fst] in E. injection E as E1 E2.
    destruct t; [|discriminate]. subst f. cbn [messages_aux map snd concat Z.of_nat Z.eqb].
    rewrite app_nil_r. reflexivity.
  - destruct l as [|[f d] t]; [discriminate|]. cbn [map fst] in E.
    change (ns_down (S (S n))) with (Z.of_nat (S n) :: ns_down (S n)) in E. injection E as E1 E2.
    cbn [messages_aux]. assert (Hf : (f =? 0) = false) by (apply Z.eqb_neq; lia). rewrite Hf.
    rewrite (IH t (cur ++ d) E2). cbn [map snd concat]. rewrite app_assoc. reflexivity.
Qed.

Lemma ns_down_chain n : forall l, map fst l = ns_down n -> ns_chain l.
Proof.
  induction n as [|n IH]; intros l E.
  - destruct l; [exact I|discriminate].
  - destruct l as [|p t]; [discriminate|]. cbn [map ns_down] in E. injection E as E1 E2.
    cbn [ns_chain]. split; [|exact (IH t E2)].
    destruct t as [|q t']; [exact I|]. destruct n as [|m]; [discriminate|].
    cbn [map ns_down] in E2. injection E2 as E3 _. intros _. lia.
Qed.

Lemma ns_down_boundary n : forall l, map fst l = ns_down (S n) -> at_boundary l.
Proof.
  induction n as [|n IH]; intros l E.
  - destruct l as [|p t]; [discriminate|]. cbn [map ns_down] in E. injection E as E1 E2.
    destruct t; [|discriminate]. apply ns_boundary_single. exact E1.
  - destruct l as [|p t]; [discriminate|].
    change (ns_down (S (S n))) with (Z.of_nat (S n) :: ns_down (S n)) in E.
    cbn [map] in E. injection E as E1 E2.
    apply ns_boundary_cons; [destruct t; discriminate|exact (IH t E2)].
Qed.

Lemma ns_down_range n : forall l, map fst l = ns_down n -> (n <= 255)%nat ->
  Forall (fun p => 0 <= fst p <= 254) l.
Proof.
  induction n as [|n IH]; intros l E Hn.
  - destruct l; [constructor|discriminate].
  - destruct l as [|p t]; [discriminate|]. cbn [map ns_down] in E. injection E as E1 E2.
    constructor; [lia|apply (IH t E2); lia].
Qed.

(* all counters zero (stream mode) *)
Lemma ns_zero_chain l : Forall (fun p => fst p = 0) l -> ns_chain l.
Proof.
  induction 1 as [|p t Hp _ IH]; [exact I|]. cbn [ns_chain]. split; [|exact IH].
  destruct t; [exact I|]. intros Hpos. lia.
Qed.

Lemma ns_zero_boundary l : Forall (fun p => fst p = 0) l -> at_boundary l.
Proof.
  intros H. unfold at_boundary. apply Forall_rev in H. destruct (rev l); [exact I|exact (Forall_inv H)].
Qed.
