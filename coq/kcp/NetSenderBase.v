(* Helper lemmas for NetSender.v (the sender half of C01).  All names are prefixed ns_.
   1. lists (skipn / Forall2);  2. fragment counters: chain, at_boundary, messages;
   3. Send;  4. Input up to its flush (snd_buf only loses heads / gets husks);
   5. flush: what it admits, what it emits. *)
From Coq Require Import ZArith List Bool Lia.
From KV.Base Require Import Consts Word WordLemmas.
From KV.Kcp Require Import Kcp Step Net InvBase InvApi InvInputBase InvInput.
Import ListNotations.
Local Open Scope Z_scope.

Ltac Zify.zify_post_hook ::= Z.div_mod_to_equations.

Ltac ns_b2z :=
  repeat match goal with
  | H : (_ >? _) = true |- _ => apply Z.gtb_lt in H
  | H : (_ >? _) = false |- _ => rewrite Z.gtb_ltb in H; apply Z.ltb_ge in H
  | H : (_ <? _) = true |- _ => apply Z.ltb_lt in H
  | H : (_ <? _) = false |- _ => apply Z.ltb_ge in H
  | H : (_ >=? _) = true |- _ => rewrite Z.geb_leb in H; apply Z.leb_le in H
  | H : (_ >=? _) = false |- _ => rewrite Z.geb_leb in H; apply Z.leb_gt in H
  | H : (_ <=? _) = true |- _ => apply Z.leb_le in H
  | H : (_ <=? _) = false |- _ => apply Z.leb_gt in H
  | H : (_ =? _) = true |- _ => apply Z.eqb_eq in H
  | H : (_ =? _) = false |- _ => apply Z.eqb_neq in H
  end.

Ltac ns_segf :=
  cbn [s_conv s_cmd s_frg s_wnd s_ts s_sn s_una s_rto s_xmit s_resendts s_fastack s_acked s_data
       set_seg_data set_seg_fastack new_seg_data].
Ltac ns_segf_in H :=
  cbn [s_conv s_cmd s_frg s_wnd s_ts s_sn s_una s_rto s_xmit s_resendts s_fastack s_acked s_data
       set_seg_data set_seg_fastack new_seg_data] in H.

(* ================================================================== *)
(* 1. lists                                                            *)
(* ================================================================== *)
Lemma ns_skipn_skipn (A : Type) (x : nat) : forall (y : nat) (l : list A),
  skipn x (skipn y l) = skipn (y + x) l.
Proof.
  induction y as [|y IH]; intros l; [reflexivity|].
  destruct l as [|a t]; [rewrite !skipn_nil; reflexivity|]. cbn [skipn Nat.add]. apply IH.
Qed.

Lemma ns_skipn_app_le (A : Type) (n : nat) (l1 l2 : list A) :
  (n <= length l1)%nat -> skipn n (l1 ++ l2) = skipn n l1 ++ l2.
Proof.
  intros H. rewrite skipn_app. replace (n - length l1)%nat with 0%nat by lia. reflexivity.
Qed.

Lemma ns_skipn_app_len (A : Type) (l1 l2 : list A) : skipn (length l1) (l1 ++ l2) = l2.
Proof.
  rewrite skipn_app, skipn_all, Nat.sub_diag. reflexivity.
Qed.

Lemma ns_F2_length (A B : Type) (R : A -> B -> Prop) l l' :
  Forall2 R l l' -> length l = length l'.
Proof. induction 1 as [|x y t t' _ _ IH]; [reflexivity|]. cbn [length]. rewrite IH. reflexivity. Qed.

Lemma ns_F2_skipn (A B : Type) (R : A -> B -> Prop) (j : nat) : forall l l',
  Forall2 R l l' -> Forall2 R (skipn j l) (skipn j l').
Proof.
  induction j as [|j IH]; intros l l' H; [exact H|].
  destruct H as [|x y t t' Hxy Ht]; [constructor|]. cbn [skipn]. apply IH. exact Ht.
Qed.

Lemma ns_F2_comp (A B C : Type) (R1 : A -> B -> Prop) (R2 : B -> C -> Prop) (R3 : A -> C -> Prop) :
  (forall a b c, R1 a b -> R2 b c -> R3 a c) ->
  forall l m, Forall2 R1 l m -> forall n, Forall2 R2 m n -> Forall2 R3 l n.
Proof.
  intros Hc l m H. induction H as [|x y t t' Hxy _ IH]; intros n Hn.
  - inversion Hn; subst. constructor.
  - inversion Hn as [|y' z t'' n' Hyz Ht]; subst. constructor; [eapply Hc; eassumption|apply IH; exact Ht].
Qed.

Lemma ns_F2_impl (A B : Type) (R1 R2 : A -> B -> Prop) :
  (forall a b, R1 a b -> R2 a b) -> forall l m, Forall2 R1 l m -> Forall2 R2 l m.
Proof. intros Hi l m H. induction H; constructor; auto. Qed.

Lemma ns_F2_refl (A : Type) (R : A -> A -> Prop) : (forall a, R a a) -> forall l, Forall2 R l l.
Proof. intros Hr. induction l; constructor; auto. Qed.

Lemma ns_F2_nth (A B : Type) (R : A -> B -> Prop) : forall l m, Forall2 R l m ->
  forall i x, nth_error l i = Some x -> exists y, nth_error m i = Some y /\ R x y.
Proof.
  intros l m H. induction H as [|x y t t' Hxy _ IH]; intros i a Hi.
  - destruct i; discriminate.
  - destruct i as [|i]; cbn [nth_error] in *.
    + inversion Hi; subst. exists y. split; [reflexivity|exact Hxy].
    + apply IH. exact Hi.
Qed.

Lemma ns_nth_skipn (A : Type) (a : nat) : forall (l : list A) i,
  nth_error (skipn a l) i = nth_error l (a + i).
Proof.
  induction a as [|a IH]; intros l i; [reflexivity|].
  destruct l as [|x t]; [rewrite skipn_nil; destruct i; reflexivity|]. cbn [skipn Nat.add nth_error]. apply IH.
Qed.

Lemma ns_is_byte_list_app a b : is_byte_list (a ++ b) <-> is_byte_list a /\ is_byte_list b.
Proof. unfold is_byte_list. apply Forall_app. Qed.

Lemma ns_is_byte_list_take n b : is_byte_list b -> is_byte_list (take n b).
Proof.
  unfold is_byte_list, take. intros H. rewrite <- (firstn_skipn (Z.to_nat n) b) in H.
  apply Forall_app in H. exact (proj1 H).
Qed.

Lemma ns_blen0 b : blen b <= 0 -> b = [].
Proof. destruct b; [reflexivity|]. unfold blen. cbn [length]. lia. Qed.

(* ================================================================== *)
(* 2. fragment counters                                                *)
(* ================================================================== *)
(* the chain clause of src_wf, recursively *)
Fixpoint ns_chain (l : list (Z * bytes)) : Prop :=
  match l with
  | [] => True
  | p :: t => match t with [] => True | q :: _ => fst p > 0 -> fst q = fst p - 1 end /\ ns_chain t
  end.

Definition ns_pay_ok (p : Z * bytes) : Prop :=
  0 <= fst p <= 254 /\ is_byte_list (snd p) /\ blen (snd p) <= c_mtuLimit.

Lemma ns_chain_iff l :
  ns_chain l <->
  (forall i p q, nth_error l i = Some p -> nth_error l (S i) = Some q -> fst p > 0 -> fst q = fst p - 1).
Proof.
  induction l as [|a t IH].
  - split; [intros _ i p q H; destruct i; discriminate|intros _; exact I].
  - cbn [ns_chain]. split.
    + intros [H1 H2] i p q Hp Hq Hpos. destruct i as [|i].
      * cbn [nth_error] in Hp, Hq. inversion Hp; subst p.
        destruct t as [|b t']; [discriminate|]. cbn [nth_error] in Hq. inversion Hq; subst q. exact (H1 Hpos).
      * cbn [nth_error] in Hp. change (nth_error (a :: t) (S (S i))) with (nth_error t (S i)) in Hq.
        exact (proj1 IH H2 i p q Hp Hq Hpos).
    + intros H. split.
      * destruct t as [|b t']; [exact I|]. intros Hpos. exact (H 0%nat a b eq_refl eq_refl Hpos).
      * apply IH. intros i p q Hp Hq Hpos. exact (H (S i) p q Hp Hq Hpos).
Qed.

Lemma ns_src_wf_iff src : src_wf src <-> Forall ns_pay_ok src /\ ns_chain src.
Proof. unfold src_wf. rewrite ns_chain_iff. reflexivity. Qed.

Lemma ns_boundary_nil : at_boundary [].
Proof. exact I. Qed.

Lemma ns_boundary_snoc l p : at_boundary (l ++ [p]) <-> fst p = 0.
Proof. unfold at_boundary. rewrite rev_app_distr. cbn [rev app]. reflexivity. Qed.

Lemma ns_boundary_cons p t : t <> [] -> (at_boundary (p :: t) <-> at_boundary t).
Proof.
  intros Hne. unfold at_boundary. cbn [rev].
  destruct (rev t) as [|x r] eqn:E.
  - exfalso. apply Hne. rewrite <- (rev_involutive t), E. reflexivity.
  - cbn [app]. reflexivity.
Qed.

Lemma ns_boundary_single p : at_boundary [p] <-> fst p = 0.
Proof. exact (ns_boundary_snoc [] p). Qed.

Lemma ns_boundary_app l1 l2 : l2 <> [] -> (at_boundary (l1 ++ l2) <-> at_boundary l2).
Proof.
  intros Hne. induction l1 as [|p t IH]; [reflexivity|].
  cbn [app]. rewrite ns_boundary_cons; [exact IH|].
  intros E. apply app_eq_nil in E. exact (Hne (proj2 E)).
Qed.

Lemma ns_chain_app l1 : forall l2,
  ns_chain l1 -> ns_chain l2 -> at_boundary l1 -> ns_chain (l1 ++ l2).
Proof.
  induction l1 as [|p t IH]; intros l2 H1 H2 Hb; [exact H2|].
  cbn [app ns_chain] in *. destruct H1 as [Hh Ht].
  destruct t as [|q t'].
  - apply (proj1 (ns_boundary_single _)) in Hb. cbn [app]. split; [|exact H2].
    destruct l2; [exact I|]. intros Hpos. lia.
  - split; [exact Hh|]. apply IH; [exact Ht|exact H2|].
    apply (ns_boundary_cons p (q :: t')); [discriminate|exact Hb].
Qed.

Lemma ns_chain_app_l l1 : forall l2, ns_chain (l1 ++ l2) -> ns_chain l1.
Proof.
  induction l1 as [|p t IH]; intros l2 H; [exact I|].
  cbn [app ns_chain] in *. destruct H as [Hh Ht]. split; [|eapply IH; exact Ht].
  destruct t as [|q t']; [exact I|exact Hh].
Qed.

(* chain and boundary read the counters only *)
Lemma ns_chain_fst l : forall l', map fst l = map fst l' -> ns_chain l -> ns_chain l'.
Proof.
  induction l as [|p t IH]; intros l' E H.
  - destruct l'; [exact I|discriminate].
  - destruct l' as [|p' t']; [discriminate|]. cbn [map] in E. injection E as E1 E2.
    cbn [ns_chain] in *. destruct H as [Hh Ht]. split; [|exact (IH _ E2 Ht)].
    destruct t as [|q t0]; destruct t' as [|q' t0']; try discriminate; [exact I|].
    cbn [map] in E2. injection E2 as E3 _. rewrite <- E1, <- E3. exact Hh.
Qed.

Lemma ns_boundary_fst l l' : map fst l = map fst l' -> at_boundary l -> at_boundary l'.
Proof.
  intros E. unfold at_boundary.
  assert (Er : map fst (rev l) = map fst (rev l')) by (rewrite !map_rev, E; reflexivity).
  destruct (rev l) as [|p r]; destruct (rev l') as [|p' r']; try discriminate; [auto|].
  cbn [map] in Er. injection Er as E1 _. rewrite E1. auto.
Qed.

(* ---- messages ---- *)
Lemma ns_messages_aux_app l1 : forall cur l2, l1 <> [] -> at_boundary l1 ->
  messages_aux cur (l1 ++ l2) = messages_aux cur l1 ++ messages_aux [] l2.
Proof.
  induction l1 as [|[f d] t IH]; intros cur l2 Hne Hb; [contradiction|].
  destruct t as [|q t'].
  - apply (proj1 (ns_boundary_single _)) in Hb. cbn [fst] in Hb. subst f. reflexivity.
  - assert (Hb' : at_boundary (q :: t')) by (apply (ns_boundary_cons (f, d) (q :: t')); [discriminate|exact Hb]).
    cbn [app messages_aux]. destruct (f =? 0).
    + change ((cur ++ d) :: messages_aux [] ((q :: t') ++ l2) = ((cur ++ d) :: messages_aux [] (q :: t')) ++ messages_aux [] l2).
      rewrite IH; [reflexivity|discriminate|exact Hb'].
    + change (messages_aux (cur ++ d) ((q :: t') ++ l2) = messages_aux (cur ++ d) (q :: t') ++ messages_aux [] l2).
      apply IH; [discriminate|exact Hb'].
Qed.

Lemma ns_messages_app l1 l2 : at_boundary l1 -> messages (l1 ++ l2) = messages l1 ++ messages l2.
Proof.
  intros Hb. unfold messages. destruct l1 as [|p t]; [reflexivity|].
  apply ns_messages_aux_app; [discriminate|exact Hb].
Qed.

(* the counters of one fragmented message: n-1, ..., 0 *)
Fixpoint ns_down (n : nat) : list Z :=
  match n with O => [] | S m => Z.of_nat m :: ns_down m end.

Lemma ns_down_messages n : forall (l : list (Z * bytes)) cur, map fst l = ns_down (S n) ->
  messages_aux cur l = [cur ++ concat (map snd l)].
Proof.
  induction n as [|n IH]; intros l cur E.
  - destruct l as [|[f d] t]; [discriminate|]. cbn [map ns_down fst] in E. injection E as E1 E2.
    destruct t; [|discriminate]. subst f. cbn [messages_aux map snd concat Z.of_nat Z.eqb].
    rewrite app_nil_r. reflexivity.
  - destruct l as [|[f d] t]; [discriminate|]. cbn [map fst] in E.
    change (ns_down (S (S n))) with (Z.of_nat (S n) :: ns_down (S n)) in E. injection E as E1 E2.
    cbn [messages_aux]. assert (Hf : (f =? 0) = false) by (apply Z.eqb_neq; lia). rewrite Hf.
    rewrite (IH t (cur ++ d) E2). cbn [map snd concat]. rewrite app_assoc. reflexivity.
Qed.

Lemma ns_down_chain n : forall (l : list (Z * bytes)), map fst l = ns_down n -> ns_chain l.
Proof.
  induction n as [|n IH]; intros l E.
  - destruct l; [exact I|discriminate].
  - destruct l as [|p t]; [discriminate|]. cbn [map ns_down] in E. injection E as E1 E2.
    cbn [ns_chain]. split; [|exact (IH t E2)].
    destruct t as [|q t']; [exact I|]. destruct n as [|m]; [discriminate|].
    cbn [map ns_down] in E2. injection E2 as E3 _. intros _. lia.
Qed.

Lemma ns_down_boundary n : forall (l : list (Z * bytes)), map fst l = ns_down (S n) -> at_boundary l.
Proof.
  induction n as [|n IH]; intros l E.
  - destruct l as [|p t]; [discriminate|]. cbn [map ns_down] in E. injection E as E1 E2.
    destruct t; [|discriminate]. apply ns_boundary_single. exact E1.
  - destruct l as [|p t]; [discriminate|].
    change (ns_down (S (S n))) with (Z.of_nat (S n) :: ns_down (S n)) in E.
    cbn [map] in E. injection E as E1 E2.
    apply ns_boundary_cons; [destruct t; discriminate|exact (IH t E2)].
Qed.

Lemma ns_down_range n : forall (l : list (Z * bytes)), map fst l = ns_down n -> (n <= 255)%nat ->
  Forall (fun p => 0 <= fst p <= 254) l.
Proof.
  induction n as [|n IH]; intros l E Hn.
  - destruct l; [constructor|discriminate].
  - destruct l as [|p t]; [discriminate|]. cbn [map ns_down] in E. injection E as E1 E2.
    constructor; [lia|apply (IH t E2); lia].
Qed.

(* all counters zero (stream mode) *)
Lemma ns_zero_chain l : Forall (fun p => fst p = 0) l -> ns_chain l.
Proof.
  induction 1 as [|p t Hp _ IH]; [exact I|]. cbn [ns_chain]. split; [|exact IH].
  destruct t; [exact I|]. intros Hpos. lia.
Qed.

Lemma ns_zero_boundary l : Forall (fun p => fst p = 0) l -> at_boundary l.
Proof.
  intros H. unfold at_boundary. apply Forall_rev in H. destruct (rev l); [exact I|exact (Forall_inv H)].
Qed.

(* ================================================================== *)
(* 3. Send                                                             *)
(* ================================================================== *)
Lemma ns_fragment_spec : forall fuel count i m st b segs,
  fragment fuel count i m st b = Ok segs ->
  Z.of_nat fuel = count - i -> 0 < m -> blen b <= Z.of_nat fuel * m -> (fuel <= 255)%nat ->
  is_byte_list b ->
  concat (map s_data segs) = b /\ length segs = fuel /\
  Forall (fun s => 0 <= s_frg s <= 254 /\ is_byte_list (s_data s) /\ blen (s_data s) <= m) segs /\
  (st = 0 -> map s_frg segs = ns_down fuel) /\
  (st <> 0 -> Forall (fun s => s_frg s = 0) segs).
Proof.
  induction fuel as [|f IH]; intros count i m st b segs H Hf Hm Hb Hf255 Hbl.
  - cbn [fragment] in H. inversion H; subst segs.
    rewrite (ns_blen0 b) by lia. repeat split; constructor.
  - cbn [fragment] in H.
    destruct (i >=? count) eqn:E1; [ns_b2z; lia|].
    destruct (Z.min (blen b) m >? c_mtuLimit) eqn:E2; [discriminate|].
    destruct (fragment f count (i + 1) m st (drop (Z.min (blen b) m) b)) as [l|w] eqn:E3; [|discriminate].
    inversion H; subst segs. clear H.
    pose proof (blen_nonneg b) as Hb0.
    assert (Hsz : 0 <= Z.min (blen b) m <= blen b) by lia.
    assert (Hbl' : is_byte_list (drop (Z.min (blen b) m) b)) by (apply ii_bl_drop; exact Hbl).
    destruct (IH count (i + 1) m st _ l E3) as (C1 & C2 & C3 & C4 & C5); [lia|exact Hm| |lia|exact Hbl'|].
    { rewrite (blen_drop _ _ Hsz). nia. }
    split; [cbn [map concat]; ns_segf; rewrite C1; apply take_drop|].
    split; [cbn [length]; rewrite C2; reflexivity|].
    split.
    { constructor; [|exact C3]. ns_segf.
      split.
      - destruct (st =? 0); [|lia]. unfold u8.
        replace (count - i - 1) with (Z.of_nat f) by lia. rewrite Z.mod_small; lia.
      - split; [apply ns_is_byte_list_take; exact Hbl|].
        pose proof (blen_take_le_n (Z.min (blen b) m) b). lia. }
    split.
    + intros Hst. cbn [map ns_down]. ns_segf. rewrite (C4 Hst). f_equal.
      subst st. cbn [Z.eqb]. unfold u8.
      replace (count - i - 1) with (Z.of_nat f) by lia. rewrite Z.mod_small; lia.
    + intros Hst. constructor; [|exact (C5 Hst)]. ns_segf.
      destruct (st =? 0) eqn:E; [ns_b2z; contradiction|reflexivity].
Qed.

Lemma ns_frag_count_covers n m : 0 < m -> 0 <= n -> n <= frag_count n m * m /\ 1 <= frag_count n m.
Proof.
  intros Hm Hn. unfold frag_count. destruct (n <=? m) eqn:E; ns_b2z; [lia|].
  split; [lia|]. apply Z.div_le_lower_bound; lia.
Qed.

Lemma ns_stream_append_spec k b q1 b1 :
  stream_append k b = Ok (Some (q1, b1)) ->
  (q1 = snd_queue k /\ b1 = b) \/
  (exists X last tk, snd_queue k = X ++ [last] /\ q1 = X ++ [set_seg_data last (s_data last ++ tk)] /\
     tk ++ b1 = b /\ blen (s_data last ++ tk) <= mss k /\ frag_count (blen b1) (mss k) <= 255).
Proof.
  unfold stream_append. intros H.
  destruct (rev (snd_queue k)) as [|last before] eqn:Hrev.
  - inversion H; subst. left; split; reflexivity.
  - assert (Hq : snd_queue k = rev before ++ [last]).
    { rewrite <- (rev_involutive (snd_queue k)), Hrev. reflexivity. }
    destruct (blen (s_data last) <? mss k) eqn:Hlt; [|inversion H; subst; left; split; reflexivity].
    cbv zeta in H.
    destruct (frag_count _ _ >? 255) eqn:Hfc; [discriminate|].
    destruct (_ >? c_mtuLimit) eqn:Hp; [discriminate|].
    inversion H; subst q1 b1. clear H. right.
    exists (rev before), last, (take (Z.min (blen b) (mss k - blen (s_data last))) b).
    split; [exact Hq|]. split; [reflexivity|]. split; [apply take_drop|].
    ns_b2z. split; [|exact Hfc].
    rewrite blen_app. pose proof (blen_nonneg b).
    pose proof (blen_take_le_n (Z.min (blen b) (mss k - blen (s_data last))) b). lia.
Qed.

(* the list-level part of sender_inv that Send touches (N = numbered, q = snd_queue, A = accepted) *)
Definition ns_src_ok (stm : Z) (N : list (Z * bytes)) (q : list seg) (A : list bytes) : Prop :=
  src_wf (N ++ map pay q) /\ at_boundary (N ++ map pay q) /\
  (stm <> 0 -> stream_bytes N ++ concat (map s_data q) = concat A) /\
  (stm = 0 -> messages (N ++ map pay q) = A).

Lemma ns_set_snd_queue_id k : set_snd_queue k (snd_queue k) = k.
Proof. destruct k; reflexivity. Qed.

Lemma ns_map_fst_pay l : map fst (map pay l) = map s_frg l.
Proof. rewrite map_map. reflexivity. Qed.

Lemma ns_map_snd_pay l : map snd (map pay l) = map s_data l.
Proof. rewrite map_map. reflexivity. Qed.

Lemma ns_concat_snoc (X : list seg) s : concat (map s_data (X ++ [s])) = concat (map s_data X) ++ s_data s.
Proof. rewrite map_app, concat_app. cbn [map concat]. rewrite app_nil_r. reflexivity. Qed.

Lemma ns_concat_snoc' (A : list bytes) b : concat (A ++ [b]) = concat A ++ b.
Proof. rewrite concat_app. cbn [concat]. rewrite app_nil_r. reflexivity. Qed.

Lemma ns_send_tail_ok k q1 b1 b N A k' r :
  inv k -> is_byte_list b1 ->
  src_wf (N ++ map pay q1) -> at_boundary (N ++ map pay q1) ->
  (stream k <> 0 -> stream_bytes N ++ concat (map s_data q1) ++ b1 = concat A ++ b) ->
  (stream k = 0 -> messages (N ++ map pay q1) = A /\ b1 = b) ->
  (q1 = snd_queue k /\ b1 = b) \/ frag_count (blen b1) (mss k) <= 255 ->
  ns_src_ok (stream k) N (snd_queue k) A ->
  send_tail k q1 b1 = Ok (k', r) ->
  exists q', k' = set_snd_queue k q' /\
    ((r = 0 /\ ns_src_ok (stream k) N q' (A ++ [b])) \/ (r <> 0 /\ ns_src_ok (stream k) N q' A)).
Proof.
  intros Hinv Hbl Hwf Hbd Hstr Hmsg Hcase Hold H. unfold send_tail in H.
  destruct (negb (stream k =? 0) && (blen b1 =? 0)) eqn:Hc1.
  { inversion H; subst k' r. clear H. exists q1. split; [reflexivity|]. left. split; [reflexivity|].
    apply andb_true_iff in Hc1. destruct Hc1 as [Hs Hb0]. apply negb_true_iff in Hs. ns_b2z.
    assert (Eb : b1 = []) by (apply ns_blen0; lia). subst b1.
    split; [exact Hwf|]. split; [exact Hbd|]. split.
    - intros Hst. specialize (Hstr Hst). rewrite app_nil_r in Hstr. rewrite ns_concat_snoc'. exact Hstr.
    - intros Hst. contradiction. }
  cbv zeta in H.
  destruct (frag_count (blen b1) (mss k) >? 255) eqn:Hc2.
  { inversion H; subst k' r. clear H. exists q1. split; [reflexivity|]. right. split; [lia|].
    ns_b2z. destruct Hcase as [[E1 E2]|Hle]; [|lia]. subst q1. exact Hold. }
  ns_b2z.
  set (count := if frag_count (blen b1) (mss k) =? 0 then 1 else frag_count (blen b1) (mss k)) in *.
  destruct (fragment (Z.to_nat count) count 0 (mss k) (stream k) b1) as [segs|w] eqn:Ef; [|discriminate].
  inversion H; subst k' r. clear H.
  exists (q1 ++ segs). split; [reflexivity|]. left. split; [reflexivity|].
  pose proof (inv_mss_range k Hinv) as Hmss.
  pose proof (ns_frag_count_covers (blen b1) (mss k) (proj1 Hmss) (blen_nonneg b1)) as [Hcov Hc1'].
  assert (Hcnt : count = frag_count (blen b1) (mss k)).
  { unfold count. destruct (frag_count (blen b1) (mss k) =? 0) eqn:E; ns_b2z; [lia|reflexivity]. }
  destruct (ns_fragment_spec (Z.to_nat count) count 0 (mss k) (stream k) b1 segs Ef)
    as (C1 & C2 & C3 & C4 & C5); [lia|lia|rewrite Z2Nat.id by lia; lia|lia|exact Hbl|].
  set (L := N ++ map pay q1) in *. set (F := map pay segs).
  assert (EL : N ++ map pay (q1 ++ segs) = L ++ F) by (rewrite map_app, app_assoc; reflexivity).
  assert (HFne : F <> []).
  { unfold F. destruct segs; [|discriminate]. cbn [length] in C2. lia. }
  assert (HFfst : map fst F = map s_frg segs) by apply ns_map_fst_pay.
  destruct (Z.to_nat count) as [|n] eqn:En; [lia|].
  assert (HF : ns_chain F /\ at_boundary F).
  { destruct (Z.eq_dec (stream k) 0) as [Hst|Hst].
    - specialize (C4 Hst). rewrite <- HFfst in C4.
      split; [exact (ns_down_chain _ _ C4)|exact (ns_down_boundary _ _ C4)].
    - specialize (C5 Hst).
      assert (HZ : Forall (fun p => fst p = 0) F).
      { unfold F. apply Forall_map. exact C5. }
      split; [apply ns_zero_chain; exact HZ|apply ns_zero_boundary; exact HZ]. }
  destruct HF as [HFc HFb].
  apply ns_src_wf_iff in Hwf. destruct Hwf as [HwfF HwfC].
  unfold ns_src_ok. rewrite EL.
  split.
  { apply ns_src_wf_iff. split.
    - apply Forall_app. split; [exact HwfF|]. unfold F. apply Forall_map.
      eapply Forall_impl; [|exact C3]. intros s (S1 & S2 & S3). unfold ns_pay_ok, pay. cbn [fst snd].
      split; [exact S1|]. split; [exact S2|]. unfold c_mtuLimit, c_IKCP_OVERHEAD in *. lia.
    - apply ns_chain_app; assumption. }
  split; [apply ns_boundary_app; assumption|].
  split.
  - intros Hst. specialize (Hstr Hst). rewrite map_app, concat_app, C1, ns_concat_snoc'. exact Hstr.
  - intros Hst. destruct (Hmsg Hst) as [Hm Eb].
    rewrite ns_messages_app by exact Hbd. rewrite Hm. f_equal.
    specialize (C4 Hst). rewrite <- HFfst in C4.
    unfold messages. rewrite (ns_down_messages n F [] C4). cbn [app].
    unfold F. rewrite ns_map_snd_pay, C1, Eb. reflexivity.
Qed.

Lemma ns_send_ok k b k' r N A :
  inv k -> is_byte_list b -> ns_src_ok (stream k) N (snd_queue k) A ->
  send k b = Ok (k', r) ->
  exists q', k' = set_snd_queue k q' /\
    ((r = 0 /\ ns_src_ok (stream k) N q' (A ++ [b])) \/ (r <> 0 /\ ns_src_ok (stream k) N q' A)).
Proof.
  intros Hinv Hbl Hold H. rewrite send_unfold in H.
  assert (Hsame : forall r0, r0 <> 0 -> Ok (k, r0) = Ok (k', r) ->
    exists q', k' = set_snd_queue k q' /\
    ((r = 0 /\ ns_src_ok (stream k) N q' (A ++ [b])) \/ (r <> 0 /\ ns_src_ok (stream k) N q' A))).
  { intros r0 Hr0 E. inversion E; subst k' r. exists (snd_queue k).
    split; [symmetry; apply ns_set_snd_queue_id|]. right. split; [exact Hr0|exact Hold]. }
  destruct (blen b =? 0) eqn:Hb0; [apply (Hsame (-1)); [lia|exact H]|].
  pose proof Hold as (Hwf & Hbd & Hstr & Hmsg).
  assert (Hplain : send_tail k (snd_queue k) b = Ok (k', r) ->
    exists q', k' = set_snd_queue k q' /\
    ((r = 0 /\ ns_src_ok (stream k) N q' (A ++ [b])) \/ (r <> 0 /\ ns_src_ok (stream k) N q' A))).
  { apply ns_send_tail_ok; try assumption.
    - intros Hst. rewrite app_assoc, (Hstr Hst). reflexivity.
    - intros Hst. split; [exact (Hmsg Hst)|reflexivity].
    - left; split; reflexivity. }
  destruct (stream k =? 0) eqn:Hst; [exact (Hplain H)|].
  destruct (stream_append k b) as [[[q1 b1]|]|w] eqn:Hsa; [|apply (Hsame (-2)); [lia|exact H]|discriminate].
  destruct (ns_stream_append_spec k b q1 b1 Hsa) as [[E1 E2]|(X & last & tk & Eq & Eq1 & Eb & Hlen & Hfc)].
  { subst q1 b1. exact (Hplain H). }
  ns_b2z.
  assert (Hbtk : is_byte_list tk /\ is_byte_list b1).
  { rewrite <- Eb in Hbl. apply ns_is_byte_list_app in Hbl. exact Hbl. }
  assert (Efst : map fst (N ++ map pay (snd_queue k)) = map fst (N ++ map pay q1)).
  { rewrite Eq, Eq1, !map_app. reflexivity. }
  apply (ns_send_tail_ok k q1 b1 b N A k' r Hinv (proj2 Hbtk)); try assumption.
  - apply ns_src_wf_iff in Hwf. destruct Hwf as [HwfF HwfC]. apply ns_src_wf_iff. split.
    + rewrite Eq in HwfF. rewrite Eq1. rewrite map_app in *.
      apply Forall_app in HwfF. destruct HwfF as [F1 F2]. apply Forall_app in F2. destruct F2 as [F2 F3].
      apply Forall_app. split; [exact F1|]. apply Forall_app. split; [exact F2|].
      cbn [map] in *. inversion F3 as [|x y (G1 & G2 & G3) _]; subst x y.
      constructor; [|constructor]. unfold ns_pay_ok, pay in *. cbn [fst snd] in *. ns_segf.
      split; [exact G1|]. split; [apply ns_is_byte_list_app; split; [exact G2|exact (proj1 Hbtk)]|].
      pose proof (inv_mss_range k Hinv). unfold c_mtuLimit, c_IKCP_OVERHEAD in *. lia.
    + exact (ns_chain_fst _ _ Efst HwfC).
  - exact (ns_boundary_fst _ _ Efst Hbd).
  - intros Hs. rewrite Eq1, ns_concat_snoc. ns_segf. rewrite <- (Hstr Hs), Eq, ns_concat_snoc, <- Eb.
    rewrite <- !app_assoc. reflexivity.
  - intros Hs. contradiction.
  - right. exact Hfc.
Qed.

(* ================================================================== *)
(* 4. Input up to its flush: snd_buf loses heads and gets husks        *)
(* ================================================================== *)
(* s' is s, possibly turned into an acknowledged husk *)
Definition ns_husk (s s' : seg) : Prop :=
  s_sn s' = s_sn s /\ s_frg s' = s_frg s /\
  (s_acked s' = 1 \/ (s_acked s' = s_acked s /\ s_data s' = s_data s)).

Lemma ns_husk_refl s : ns_husk s s.
Proof. unfold ns_husk. auto. Qed.

Lemma ns_husk_trans a b c : ns_husk a b -> ns_husk b c -> ns_husk a c.
Proof.
  unfold ns_husk. intros (A1 & A2 & A3) (B1 & B2 & B3).
  split; [congruence|]. split; [congruence|].
  destruct B3 as [B3|[B3 B4]]; [left; exact B3|].
  destruct A3 as [A3|[A3 A4]]; [left; congruence|right; split; congruence].
Qed.

(* l' is a suffix of l with some elements husked *)
Definition ns_shr (l l' : list seg) : Prop :=
  exists j, (j <= length l)%nat /\ Forall2 ns_husk (skipn j l) l'.

Lemma ns_shr_refl l : ns_shr l l.
Proof. exists 0%nat. split; [lia|]. apply ns_F2_refl. exact ns_husk_refl. Qed.

Lemma ns_shr_of_husk l l' : Forall2 ns_husk l l' -> ns_shr l l'.
Proof. intros H. exists 0%nat. split; [lia|exact H]. Qed.

Lemma ns_shr_skipn j l : (j <= length l)%nat -> ns_shr l (skipn j l).
Proof. intros H. exists j. split; [exact H|]. apply ns_F2_refl. exact ns_husk_refl. Qed.

Lemma ns_shr_trans l1 l2 l3 : ns_shr l1 l2 -> ns_shr l2 l3 -> ns_shr l1 l3.
Proof.
  intros (j1 & H1 & F1) (j2 & H2 & F2).
  pose proof (ns_F2_length _ _ _ _ _ F1) as Hl. rewrite skipn_length in Hl.
  exists (j1 + j2)%nat. split; [lia|].
  rewrite <- ns_skipn_skipn.
  apply (ns_F2_comp _ _ _ ns_husk ns_husk ns_husk ns_husk_trans _ (skipn j2 l2)); [|exact F2].
  apply ns_F2_skipn. exact F1.
Qed.

Lemma ns_una_walk_skip una : forall l, exists j, (j <= length l)%nat /\ fst (una_walk una l) = skipn j l.
Proof.
  induction l as [|s t IH]; cbn [una_walk].
  - exists 0%nat. split; [cbn; lia|reflexivity].
  - destruct (itimediff una (s_sn s) >? 0).
    + destruct IH as (j & Hj & E). destruct (una_walk una t) as [r c]. cbn [fst] in *.
      exists (S j). split; [cbn [length]; lia|exact E].
    + exists 0%nat. split; [lia|reflexivity].
Qed.

Lemma ns_drop_acked_skip : forall l, exists j, (j <= length l)%nat /\ drop_acked l = skipn j l.
Proof.
  induction l as [|s t IH]; cbn [drop_acked].
  - exists 0%nat. split; [cbn; lia|reflexivity].
  - destruct (s_acked s =? 0).
    + exists 0%nat. split; [lia|reflexivity].
    + destruct IH as (j & Hj & E). exists (S j). split; [cbn [length]; lia|exact E].
Qed.

Lemma ns_ack_walk_husk sn : forall l, Forall2 ns_husk l (ack_walk sn l).
Proof.
  induction l as [|s t IH]; cbn [ack_walk]; [constructor|].
  destruct (sn =? s_sn s).
  - constructor; [|apply ns_F2_refl; exact ns_husk_refl].
    unfold ns_husk. ns_segf. split; [reflexivity|]. split; [reflexivity|]. left; reflexivity.
  - destruct (itimediff sn (s_sn s) <? 0); [apply ns_F2_refl; exact ns_husk_refl|].
    constructor; [apply ns_husk_refl|exact IH].
Qed.

Lemma ns_fastack_walk_husk sn ts fr : forall l, Forall2 ns_husk l (fst (fastack_walk sn ts fr l)).
Proof.
  induction l as [|s t IH]; cbn [fastack_walk]; [constructor|].
  destruct (itimediff sn (s_sn s) <? 0); [apply ns_F2_refl; exact ns_husk_refl|].
  destruct (fastack_walk sn ts fr t) as [t' f]. cbn [fst] in IH.
  destruct (negb (sn =? s_sn s) && (itimediff (s_ts s) ts <=? 0)).
  - destruct (s_fastack s =? 4294967295); cbn [fst].
    + constructor; [apply ns_husk_refl|exact IH].
    + constructor; [|exact IH]. unfold ns_husk. ns_segf. auto.
  - cbn [fst]. constructor; [apply ns_husk_refl|exact IH].
Qed.

Definition ns_ack_ok (a : Z * Z) : Prop := is_u32 (fst a) /\ is_u32 (snd a).

(* what the part of Input before the flush does to the sender side *)
Definition ns_pre (k k' : kcp) : Prop :=
  ns_shr (snd_buf k) (snd_buf k') /\ snd_queue k' = snd_queue k /\ snd_nxt k' = snd_nxt k /\
  conv k' = conv k /\ stream k' = stream k /\
  (Forall ns_ack_ok (acklist k) -> Forall ns_ack_ok (acklist k')).

Lemma ns_pre_refl k : ns_pre k k.
Proof. unfold ns_pre. split; [apply ns_shr_refl|]. auto. Qed.

Lemma ns_pre_trans k1 k2 k3 : ns_pre k1 k2 -> ns_pre k2 k3 -> ns_pre k1 k3.
Proof.
  intros (A1 & A2 & A3 & A4 & A5 & A6) (B1 & B2 & B3 & B4 & B5 & B6).
  split; [exact (ns_shr_trans _ _ _ A1 B1)|].
  split; [congruence|]. split; [congruence|]. split; [congruence|]. split; [congruence|auto].
Qed.

(* an update that leaves the six fields alone *)
Lemma ns_pre_frame k k' :
  snd_buf k' = snd_buf k -> snd_queue k' = snd_queue k -> snd_nxt k' = snd_nxt k ->
  conv k' = conv k -> stream k' = stream k -> acklist k' = acklist k -> ns_pre k k'.
Proof.
  intros E1 E2 E3 E4 E5 E6. unfold ns_pre. rewrite E1, E6.
  split; [apply ns_shr_refl|]. auto.
Qed.

Lemma ns_pre_snd_buf k l : ns_shr (snd_buf k) l -> ns_pre k (set_snd_buf k l).
Proof. intros H. unfold ns_pre. ksimpl. split; [exact H|]. auto. Qed.

Lemma ns_pre_parse_una k una : ns_pre k (fst (parse_una k una)).
Proof.
  unfold parse_una. destruct (ns_una_walk_skip una (snd_buf k)) as (j & Hj & E).
  destruct (una_walk una (snd_buf k)) as [l c]. cbn [fst] in *. subst l.
  apply ns_pre_snd_buf. apply ns_shr_skipn. exact Hj.
Qed.

Lemma ns_pre_shrink_buf k : ns_pre k (shrink_buf k).
Proof.
  unfold shrink_buf. cbv zeta.
  destruct (ns_drop_acked_skip (snd_buf k)) as (j & Hj & E).
  assert (H : ns_shr (snd_buf k) (drop_acked (snd_buf k))) by (rewrite E; apply ns_shr_skipn; exact Hj).
  destruct (snd_buf (set_snd_buf k (drop_acked (snd_buf k)))) as [|s t];
    (unfold ns_pre; ksimpl; split; [exact H|auto]).
Qed.

Lemma ns_pre_parse_ack k sn : ns_pre k (parse_ack k sn).
Proof.
  unfold parse_ack. destruct ((itimediff sn (snd_una k) <? 0) || (itimediff sn (snd_nxt k) >=? 0));
    [apply ns_pre_refl|].
  apply ns_pre_snd_buf, ns_shr_of_husk, ns_ack_walk_husk.
Qed.

Lemma ns_pre_parse_fastack k sn ts : ns_pre k (fst (parse_fastack k sn ts)).
Proof.
  unfold parse_fastack. destruct ((itimediff sn (snd_una k) <? 0) || (itimediff sn (snd_nxt k) >=? 0));
    [apply ns_pre_refl|].
  pose proof (ns_fastack_walk_husk sn ts (fastresend k) (snd_buf k)) as H.
  destruct (fastack_walk sn ts (fastresend k) (snd_buf k)) as [l f]. cbn [fst] in *.
  apply ns_pre_snd_buf, ns_shr_of_husk. exact H.
Qed.

Lemma ns_pre_do_move_ready k : ns_pre k (do_move_ready k).
Proof.
  pose proof (do_move_ready_fields k) as
    (F1 & _ & _ & _ & F5 & F6 & _ & F8 & _ & _ & _ & _ & _ & _ & F15 & _).
  apply ns_pre_frame; try assumption.
  unfold do_move_ready.
  destruct (move_ready (rcv_buf k) (rcv_queue k) (rcv_nxt k) (rcv_wnd k)) as [[rb rq] rn]. reflexivity.
Qed.

Lemma ns_pre_parse_data k s k' f : parse_data k s = Ok (k', f) -> ns_pre k k'.
Proof.
  unfold parse_data. cbv zeta. intros H.
  destruct ((itimediff (s_sn s) (u32 (rcv_nxt k + rcv_wnd k)) >=? 0) || (itimediff (s_sn s) (rcv_nxt k) <? 0)).
  { inversion H; subst. apply ns_pre_refl. }
  destruct (has_sn (s_sn s) (rcv_buf k)).
  { inversion H; subst. apply ns_pre_do_move_ready. }
  destruct (blen (s_data s) >? c_mtuLimit); [discriminate|].
  inversion H; subst. eapply ns_pre_trans; [|apply ns_pre_do_move_ready].
  apply ns_pre_frame; reflexivity.
Qed.

Lemma ns_pre_update_ack k rtt : ns_pre k (update_ack k rtt).
Proof.
  destruct (ii_update_ack_unf k rtt) as (srtt & var & E). rewrite E. apply ns_pre_frame; reflexivity.
Qed.

Lemma ns_pre_input_cwnd k una0 : ns_pre k (input_cwnd k una0).
Proof.
  unfold input_cwnd.
  destruct ((nocwnd k =? 0) && (itimediff (snd_una k) una0 >? 0) && (cwnd k <? rmt_wnd k)); [|apply ns_pre_refl].
  cbv zeta.
  match goal with |- context [let '(cw, inc) := ?X in _] => destruct X as [cw inc] end.
  destruct (cw >? rmt_wnd k); apply ns_pre_frame; reflexivity.
Qed.

Lemma ns_input_seg_pre a data regular :
  is_byte_list data ->
  match input_seg a data regular with
  | inl (Ok (a', rest)) => ns_pre (i_k a) (i_k a') /\ is_byte_list rest
  | _ => True
  end.
Proof.
  intros Hd. unfold input_seg. cbv zeta.
  set (k := i_k a) in *.
  set (len := rd32 (skipn 20 data)).
  set (pl := skipn 24 data).
  set (wnd := rd16 (skipn 6 data)).
  set (ts := rd32 (skipn 8 data)).
  set (sn := rd32 (skipn 12 data)).
  set (una := rd32 (skipn 16 data)).
  set (cmd := nth 4 data 0).
  destruct (negb (rd32 data =? conv k)); [exact I|].
  destruct ((blen pl <? len) || (len >? c_mtuLimit)); [exact I|].
  destruct (negb ((cmd =? c_IKCP_CMD_PUSH) || (cmd =? c_IKCP_CMD_ACK) || (cmd =? c_IKCP_CMD_WASK)
                  || (cmd =? c_IKCP_CMD_WINS))); [exact I|].
  assert (Hsn : is_u32 sn) by (apply ii_rd32_range, ii_bl_skipn; exact Hd).
  assert (Hts : is_u32 ts) by (apply ii_rd32_range, ii_bl_skipn; exact Hd).
  assert (Hrest : is_byte_list (drop len pl)) by (apply ii_bl_drop, ii_bl_skipn; exact Hd).
  set (k1 := if regular then set_rmt_wnd k wnd else k).
  assert (S1 : ns_pre k k1).
  { unfold k1. destruct regular; [apply ns_pre_frame; reflexivity|apply ns_pre_refl]. }
  pose proof (ns_pre_parse_una k1 una) as S2.
  destruct (parse_una k1 una) as [k2 cnt]. cbn [fst] in S2.
  pose proof (ns_pre_shrink_buf k2) as S3.
  set (k3 := shrink_buf k2) in *.
  assert (S03 : ns_pre k k3) by (eapply ns_pre_trans; [exact S1|]; eapply ns_pre_trans; [exact S2|exact S3]).
  destruct (cmd =? c_IKCP_CMD_ACK).
  { pose proof (ns_pre_parse_ack k3 sn) as S4. set (k4 := parse_ack k3 sn) in *.
    pose proof (ns_pre_parse_fastack k4 sn ts) as S5.
    destruct (parse_fastack k4 sn ts) as [k5 f]. cbn [fst] in S5.
    pose proof (ns_pre_shrink_buf k5) as S6. cbn [i_k].
    split; [|exact Hrest].
    eapply ns_pre_trans; [exact S03|]. eapply ns_pre_trans; [exact S4|].
    eapply ns_pre_trans; [exact S5|exact S6]. }
  destruct (cmd =? c_IKCP_CMD_PUSH).
  { destruct (itimediff sn (u32 (rcv_nxt k3 + rcv_wnd k3)) <? 0).
    - set (k4 := set_acklist k3 (acklist k3 ++ [(sn, ts)])).
      assert (S4 : ns_pre k3 k4).
      { unfold ns_pre, k4. ksimpl. split; [apply ns_shr_refl|]. repeat (split; [reflexivity|]).
        intros Ha. apply Forall_app. split; [exact Ha|]. constructor; [|constructor].
        split; [exact Hsn|exact Hts]. }
      destruct (itimediff sn (rcv_nxt k4) >=? 0).
      + match goal with |- context [parse_data k4 ?S] => set (sg := S) end.
        destruct (parse_data k4 sg) as [[k5 f]|w] eqn:Epd; [|exact I]. cbn [i_k].
        split; [|exact Hrest].
        eapply ns_pre_trans; [exact S03|]. eapply ns_pre_trans; [exact S4|].
        exact (ns_pre_parse_data _ _ _ _ Epd).
      + cbn [i_k]. split; [|exact Hrest]. eapply ns_pre_trans; [exact S03|exact S4].
    - cbn [i_k]. split; [exact S03|exact Hrest]. }
  destruct (cmd =? c_IKCP_CMD_WASK).
  { cbn [i_k]. split; [|exact Hrest]. eapply ns_pre_trans; [exact S03|]. apply ns_pre_frame; reflexivity. }
  cbn [i_k]. split; [exact S03|exact Hrest].
Qed.

Lemma ns_input_loop_pre : forall fuel a data regular a' e,
  is_byte_list data -> input_loop fuel a data regular = Ok (a', e) -> ns_pre (i_k a) (i_k a').
Proof.
  induction fuel as [|f IH]; intros a data regular a' e Hd H; cbn [input_loop] in H.
  - inversion H; subst. apply ns_pre_refl.
  - destruct (blen data <? c_IKCP_OVERHEAD); [inversion H; subst; apply ns_pre_refl|].
    pose proof (ns_input_seg_pre a data regular Hd) as Hs.
    destruct (input_seg a data regular) as [[[a1 rest]|w]|code].
    + destruct Hs as [Hs Hr]. eapply ns_pre_trans; [exact Hs|]. exact (IH _ _ _ _ _ Hr H).
    + discriminate.
    + inversion H; subst. apply ns_pre_refl.
Qed.

Lemma ns_input_pre_pre k d regular nd now k1 r fr :
  is_byte_list d -> input_pre k d regular nd now = Ok (k1, r, fr) -> ns_pre k k1.
Proof.
  intros Hd. unfold input_pre. cbv zeta.
  destruct (blen d <? c_IKCP_OVERHEAD); [intros H; inversion H; subst; apply ns_pre_refl|].
  match goal with |- context [input_loop ?f ?a d regular] =>
    destruct (input_loop f a d regular) as [[a' e]|w] eqn:El; [|discriminate];
    pose proof (ns_input_loop_pre f a d regular a' e Hd El) as Hl end.
  cbn [i_k] in Hl.
  destruct e as [|code]; [|intros H; inversion H; subst; exact Hl].
  set (k2 := if i_rtt a' && regular && (itimediff now (i_latest a') >=? 0)
             then update_ack (i_k a') (itimediff now (i_latest a')) else i_k a').
  assert (S2 : ns_pre (i_k a') k2).
  { unfold k2. destruct (i_rtt a' && regular && (itimediff now (i_latest a') >=? 0));
      [apply ns_pre_update_ack|apply ns_pre_refl]. }
  pose proof (ns_pre_input_cwnd k2 (snd_una k)) as S3.
  set (k3 := input_cwnd k2 (snd_una k)) in *.
  assert (S : ns_pre k k3) by (eapply ns_pre_trans; [exact Hl|]; eapply ns_pre_trans; [exact S2|exact S3]).
  destruct (i_flush a'); [intros H; inversion H; subst; exact S|].
  destruct (Z.of_nat (length (acklist k3)) >=? mtu k3 / c_IKCP_OVERHEAD); [intros H; inversion H; subst; exact S|].
  destruct (nd && (Z.of_nat (length (acklist k3)) >? 0)); intros H; inversion H; subst; exact S.
Qed.

(* ---- with the invariant on both sides: snd_una advanced by the number of dropped heads ---- *)
Lemma ns_contig_skipn : forall j l b, is_u32 b -> contiguous b l ->
  contiguous (u32 (b + Z.of_nat j)) (skipn j l).
Proof.
  induction j as [|j IH]; intros l b Hb H.
  - cbn [skipn Z.of_nat]. rewrite Z.add_0_r, u32_id by exact Hb. exact H.
  - destruct l as [|s t]; [exact I|]. cbn [skipn]. cbn [contiguous] in H. destruct H as [_ H2].
    pose proof (IH t (u32 (b + 1)) (u32_range _) H2) as H3.
    rewrite u32_add_mod in H3. replace (b + Z.of_nat (S j)) with (b + 1 + Z.of_nat j) by lia. exact H3.
Qed.

Lemma ns_pre_una k k1 : inv k -> inv k1 -> ns_pre k k1 ->
  exists j, (j <= length (snd_buf k))%nat /\ snd_una k1 = u32 (snd_una k + Z.of_nat j) /\
    Forall2 ns_husk (skipn j (snd_buf k)) (snd_buf k1).
Proof.
  intros Hi Hi1 ((j & Hj & F) & _ & Hn & _).
  exists j. split; [exact Hj|]. split; [|exact F].
  pose proof (ns_contig_skipn j _ _ (I_una_u32 _ Hi) (I_sb_contig _ Hi)) as Hc.
  pose proof (I_sb_contig _ Hi1) as Hc1. pose proof (I_snd_nxt _ Hi1) as Hn1.
  destruct (snd_buf k1) as [|s' t'] eqn:E1.
  - inversion F as [E0|]. pose proof (f_equal (@length seg) (eq_sym E0)) as Hl.
    rewrite skipn_length in Hl. cbn [length] in Hl.
    unfold qlen in Hn1. cbn [length Z.of_nat] in Hn1. rewrite Z.add_0_r, u32_id in Hn1 by exact (I_una_u32 _ Hi1).
    rewrite <- Hn1, Hn, (I_snd_nxt _ Hi). unfold qlen. f_equal. lia.
  - inversion F as [|s s2 t t2 Hh Ht E0 E2]; subst s2 t2. rewrite <- E0 in Hc.
    cbn [contiguous] in Hc, Hc1. destruct Hh as (Hsn & _). rewrite <- (proj1 Hc1), Hsn. exact (proj1 Hc).
Qed.

(* ================================================================== *)
(* 5. flush                                                            *)
(* ================================================================== *)
(* ---- phases (same split as InvFlushBase; kept local so that this file does not depend on it) ---- *)
Definition ns_h0 (k : kcp) : seg :=
  mkSeg (conv k) c_IKCP_CMD_ACK 0 (wnd_unused k) 0 0 (rcv_nxt k) 0 0 0 0 0 [].

Definition ns_ph1 (k : kcp) (ft : Z) : res (seg * stage * kcp) :=
  if (ft =? FLUSH_ACKONLY) || (ft =? FLUSH_FULL)
  then match flush_acks k (ns_h0 k) (mkStage [] []) (acklist k) with
       | Ok (h, st) => Ok (h, st, set_acklist k [])
       | Panic w => Panic w
       end
  else Ok (ns_h0 k, mkStage [] [], k).

Definition ns_ph2 (k1 : kcp) (now : Z) : kcp :=
  if rmt_wnd k1 =? 0 then
    if probe_wait k1 =? 0 then set_probe k1 (probe k1) (u32 (now + c_IKCP_PROBE_INIT)) c_IKCP_PROBE_INIT
    else if itimediff now (ts_probe k1) >=? 0 then
      let pw := if probe_wait k1 <? c_IKCP_PROBE_INIT then c_IKCP_PROBE_INIT else probe_wait k1 in
      let pw := u32 (pw + pw / 2) in
      let pw := if pw >? c_IKCP_PROBE_LIMIT then c_IKCP_PROBE_LIMIT else pw in
      set_probe k1 (Z.lor (probe k1) c_IKCP_ASK_SEND) (u32 (now + pw)) pw
    else k1
  else set_probe k1 (probe k1) 0 0.

Definition ns_hdr (h1 : seg) (c : Z) : seg :=
  mkSeg (s_conv h1) c (s_frg h1) (s_wnd h1) (s_ts h1) (s_sn h1) (s_una h1) 0 0 0 0 0 [].

Definition ns_ph3 (k2 : kcp) (h1 : seg) (st : stage) (flag c : Z) : res stage :=
  if negb (Z.land (probe k2) flag =? 0)
  then stage_write k2 (make_space k2 st c_IKCP_OVERHEAD) (ns_hdr h1 c)
  else Ok st.

Definition ns_cw (k3 : kcp) : Z :=
  let cw0 := Z.min (snd_wnd k3) (rmt_wnd k3) in
  if nocwnd k3 =? 0 then Z.min (cwnd k3) cw0 else cw0.

Definition ns_ph4 (k3 : kcp) (ft : Z) : list seg * list seg * Z * Z :=
  if ft =? FLUSH_FULL
  then admit_segs (snd_queue k3) (snd_buf k3) (conv k3) (snd_una k3) (snd_nxt k3) (ns_cw k3) 0
  else (snd_queue k3, snd_buf k3, snd_nxt k3, 0).

Definition ns_k4 (k3 : kcp) (sq sb : list seg) (nxt : Z) : kcp :=
  set_snd_nxt (set_queues k3 sq (rcv_queue k3) sb (rcv_buf k3)) nxt.

Definition ns_resent (k4 : kcp) : Z :=
  if fastresend k4 <=? 0 then 4294967295 else u32 (fastresend k4).

Definition ns_ph5 (k4 : kcp) (h1 : seg) (ft newsegs now : Z) (st3 : stage) : res (list seg * fl) :=
  let a0 := mkFl st3 0 0 0 0 (interval k4) false in
  if ft =? FLUSH_FULL
  then flush_segs k4 h1 (ns_resent k4) newsegs now (snd_buf k4) a0
  else Ok (snd_buf k4, a0).

Definition ns_k5 (k4 : kcp) (sb' : list seg) (a : fl) : kcp :=
  let k5 := set_snd_buf k4 sb' in
  if f_dead a then set_timer k5 4294967295 (ts_flush k5) (updated k5) else k5.

Definition ns_ph6 (k5 : kcp) (a : fl) (cw resent : Z) : kcp :=
  if nocwnd k5 =? 0 then
    let k := k5 in
    let k := if f_change a >? 0 then
               let inflight := u32 (snd_nxt k - snd_una k) in
               let sst := Z.max (inflight / 2) c_IKCP_THRESH_MIN in
               let cwn := u32 (sst + resent) in
               set_cc k sst (rmt_wnd k) cwn (u32 (cwn * mss k))
             else k in
    let k := if f_lost a >? 0 then set_cc k (Z.max (cw / 2) c_IKCP_THRESH_MIN) (rmt_wnd k) 1 (mss k) else k in
    if cwnd k <? 1 then set_cc k (ssthresh k) (rmt_wnd k) 1 (mss k) else k
  else k5.

(* NB: a bare `reflexivity` does not terminate here; delta + zeta first makes both sides identical *)
Lemma ns_flush_unfold k ft now :
  flush k ft now =
  match ns_ph1 k ft with
  | Panic w => Panic w
  | Ok (h1, st1, k1) =>
    let k2 := ns_ph2 k1 now in
    match ns_ph3 k2 h1 st1 c_IKCP_ASK_SEND c_IKCP_CMD_WASK with
    | Panic w => Panic w
    | Ok st2 =>
    match ns_ph3 k2 h1 st2 c_IKCP_ASK_TELL c_IKCP_CMD_WINS with
    | Panic w => Panic w
    | Ok st3 =>
    let k3 := set_probe_flags k2 0 in
    let '(sq, sb, nxt, newsegs) := ns_ph4 k3 ft in
    let k4 := ns_k4 k3 sq sb nxt in
    match ns_ph5 k4 h1 ft newsegs now st3 with
    | Panic w => Panic w
    | Ok (sb', a) =>
      Ok (ns_ph6 (ns_k5 k4 sb' a) a (ns_cw k3) (ns_resent k4), f_next a, flush_buffer (f_st a))
    end end end
  end.
Proof.
  unfold flush, ns_ph1, ns_ph2, ns_ph3, ns_ph4, ns_k4, ns_ph5, ns_k5, ns_ph6, ns_cw, ns_resent, ns_hdr, ns_h0.
  cbv zeta. reflexivity.
Qed.

Lemma ns_flush_invert k ft now k' nx o :
  flush k ft now = Ok (k', nx, o) ->
  exists h1 st1 k1 st2 st3 sq sb nxt ns sb' a,
    ns_ph1 k ft = Ok (h1, st1, k1) /\
    ns_ph3 (ns_ph2 k1 now) h1 st1 c_IKCP_ASK_SEND c_IKCP_CMD_WASK = Ok st2 /\
    ns_ph3 (ns_ph2 k1 now) h1 st2 c_IKCP_ASK_TELL c_IKCP_CMD_WINS = Ok st3 /\
    ns_ph4 (set_probe_flags (ns_ph2 k1 now) 0) ft = (sq, sb, nxt, ns) /\
    ns_ph5 (ns_k4 (set_probe_flags (ns_ph2 k1 now) 0) sq sb nxt) h1 ft ns now st3 = Ok (sb', a) /\
    k' = ns_ph6 (ns_k5 (ns_k4 (set_probe_flags (ns_ph2 k1 now) 0) sq sb nxt) sb' a) a
                (ns_cw (set_probe_flags (ns_ph2 k1 now) 0))
                (ns_resent (ns_k4 (set_probe_flags (ns_ph2 k1 now) 0) sq sb nxt)) /\
    o = flush_buffer (f_st a).
Proof.
  rewrite ns_flush_unfold. intros H.
  destruct (ns_ph1 k ft) as [[[h1 st1] k1]|w]; [|discriminate]. cbv zeta in H.
  destruct (ns_ph3 (ns_ph2 k1 now) h1 st1 c_IKCP_ASK_SEND c_IKCP_CMD_WASK) as [st2|w] eqn:E2; [|discriminate].
  destruct (ns_ph3 (ns_ph2 k1 now) h1 st2 c_IKCP_ASK_TELL c_IKCP_CMD_WINS) as [st3|w] eqn:E3; [|discriminate].
  destruct (ns_ph4 (set_probe_flags (ns_ph2 k1 now) 0) ft) as [[[sq sb] nxt] ns] eqn:E4.
  destruct (ns_ph5 (ns_k4 (set_probe_flags (ns_ph2 k1 now) 0) sq sb nxt) h1 ft ns now st3) as [[sb' a]|w] eqn:E5; [|discriminate].
  inversion H; subst.
  exists h1, st1, k1, st2, st3, sq, sb, nxt, ns, sb', a. repeat split; assumption.
Qed.

(* ---- the sender fields flush's bookkeeping leaves alone ---- *)
Definition ns_sf (k k' : kcp) : Prop :=
  snd_queue k' = snd_queue k /\ snd_buf k' = snd_buf k /\ snd_una k' = snd_una k /\
  snd_nxt k' = snd_nxt k /\ conv k' = conv k /\ stream k' = stream k /\ acklist k' = acklist k.

Lemma ns_sf_refl k : ns_sf k k.
Proof. unfold ns_sf. auto 10. Qed.

Lemma ns_sf_trans k1 k2 k3 : ns_sf k1 k2 -> ns_sf k2 k3 -> ns_sf k1 k3.
Proof. unfold ns_sf. intuition congruence. Qed.

Lemma ns_sf_ph2 k1 now : ns_sf k1 (ns_ph2 k1 now).
Proof.
  unfold ns_ph2. destruct (rmt_wnd k1 =? 0); [|repeat split].
  destruct (probe_wait k1 =? 0); [repeat split|].
  destruct (itimediff now (ts_probe k1) >=? 0); [repeat split|apply ns_sf_refl].
Qed.

Lemma ns_sf_set_cc k a b c d : ns_sf k (set_cc k a b c d).
Proof. repeat split. Qed.

Lemma ns_sf_ph6 k5 a cw r : ns_sf k5 (ns_ph6 k5 a cw r).
Proof.
  unfold ns_ph6. destruct (nocwnd k5 =? 0); [|apply ns_sf_refl]. cbv zeta.
  set (ka := if f_change a >? 0 then _ else k5).
  assert (Ha : ns_sf k5 ka) by (unfold ka; destruct (f_change a >? 0); [apply ns_sf_set_cc|apply ns_sf_refl]).
  set (kb := if f_lost a >? 0 then _ else ka).
  assert (Hb : ns_sf ka kb) by (unfold kb; destruct (f_lost a >? 0); [apply ns_sf_set_cc|apply ns_sf_refl]).
  eapply ns_sf_trans; [exact Ha|]. eapply ns_sf_trans; [exact Hb|].
  destruct (cwnd kb <? 1); [apply ns_sf_set_cc|apply ns_sf_refl].
Qed.

Lemma ns_k5_fields k4 sb' a :
  snd_queue (ns_k5 k4 sb' a) = snd_queue k4 /\ snd_buf (ns_k5 k4 sb' a) = sb' /\
  snd_una (ns_k5 k4 sb' a) = snd_una k4 /\ conv (ns_k5 k4 sb' a) = conv k4 /\
  stream (ns_k5 k4 sb' a) = stream k4 /\ acklist (ns_k5 k4 sb' a) = acklist k4.
Proof. unfold ns_k5. cbv zeta. destruct (f_dead a); repeat split. Qed.

Lemma ns_ph1_k k ft h1 st1 k1 : ns_ph1 k ft = Ok (h1, st1, k1) -> k1 = set_acklist k [] \/ k1 = k.
Proof.
  unfold ns_ph1. destruct ((ft =? FLUSH_ACKONLY) || (ft =? FLUSH_FULL)).
  - destruct (flush_acks k (ns_h0 k) (mkStage [] []) (acklist k)) as [[h st]|w]; [|discriminate].
    intros H; inversion H; subst. left; reflexivity.
  - intros H; inversion H; subst. right; reflexivity.
Qed.

(* ---- the staging buffer holds encoded segments satisfying P ---- *)
Definition ns_dg (P : seg -> Prop) (d : bytes) : Prop :=
  exists segs, d = concat (map encode_seg segs) /\ Forall P segs.

Definition ns_stage_ok (P : seg -> Prop) (st : stage) : Prop :=
  ns_dg P (cur st) /\ Forall (ns_dg P) (outs st).

Lemma ns_stage0 P : ns_stage_ok P (mkStage [] []).
Proof. split; [exists []; split; [reflexivity|constructor]|constructor]. Qed.

Lemma ns_space_ok P k st sp : ns_stage_ok P st -> ns_stage_ok P (make_space k st sp).
Proof.
  intros [Hc Ho]. unfold make_space. destruct (blen (cur st) + sp >? mtu k); [|split; assumption].
  split; cbn [cur outs]; [exists []; split; [reflexivity|constructor]|constructor; assumption].
Qed.

Lemma ns_write_ok P k st s st' :
  ns_stage_ok P st -> P s -> stage_write k st s = Ok st' -> ns_stage_ok P st'.
Proof.
  intros [(segs & Hc & Hs) Ho] Hp. unfold stage_write.
  destruct (blen (cur st) + c_IKCP_OVERHEAD + blen (s_data s) >? buflen k); [discriminate|].
  intros H; inversion H; subst st'. split; cbn [cur outs]; [|exact Ho].
  exists (segs ++ [s]). split.
  - rewrite map_app, concat_app. cbn [map concat]. rewrite app_nil_r, Hc. reflexivity.
  - apply Forall_app. split; [exact Hs|constructor; [exact Hp|constructor]].
Qed.

Lemma ns_buffer_ok P st : ns_stage_ok P st -> Forall (ns_dg P) (flush_buffer st).
Proof.
  intros [Hc Ho]. unfold flush_buffer. apply Forall_rev.
  destruct (blen (cur st) >? 0); [constructor; assumption|exact Ho].
Qed.

(* ---- headers ---- *)
Definition ns_hdr_ok (h : seg) : Prop :=
  is_u32 (s_conv h) /\ s_cmd h = c_IKCP_CMD_ACK /\ s_frg h = 0 /\ 0 <= s_wnd h < 65536 /\
  is_u32 (s_ts h) /\ is_u32 (s_sn h) /\ is_u32 (s_una h).

Definition ns_P (isn : Z) (src : list (Z * bytes)) (s : seg) : Prop :=
  seg_wf s /\ genuine_seg isn src s.

Lemma ns_wnd_unused_range k : 0 <= wnd_unused k < 65536.
Proof.
  unfold wnd_unused. destruct (qlen (rcv_queue k) <? rcv_wnd k); [|lia].
  unfold u16. apply Z.mod_pos_bound. lia.
Qed.

Lemma ns_h0_ok k : is_u32 (conv k) -> is_u32 (rcv_nxt k) -> ns_hdr_ok (ns_h0 k).
Proof.
  intros Hc Hr. unfold ns_hdr_ok, ns_h0. ns_segf.
  split; [exact Hc|]. split; [reflexivity|]. split; [reflexivity|]. split; [apply ns_wnd_unused_range|].
  unfold is_u32, W32 in *. repeat split; try lia.
Qed.

(* any control segment built from a good header *)
Lemma ns_hdr_P isn src h c ts sn :
  ns_hdr_ok h -> c = c_IKCP_CMD_ACK \/ c = c_IKCP_CMD_WASK \/ c = c_IKCP_CMD_WINS ->
  is_u32 ts -> is_u32 sn ->
  ns_P isn src (mkSeg (s_conv h) c (s_frg h) (s_wnd h) ts sn (s_una h) 0 0 0 0 0 []).
Proof.
  intros (H1 & H2 & H3 & H4 & H5 & H6 & H7) Hc Hts Hsn. split.
  - unfold seg_wf. ns_segf. rewrite H3.
    split; [exact H1|]. split; [unfold c_IKCP_CMD_ACK, c_IKCP_CMD_WASK, c_IKCP_CMD_WINS in Hc; lia|].
    split; [lia|]. split; [exact H4|]. split; [exact Hts|]. split; [exact Hsn|]. split; [exact H7|].
    split; [constructor|]. change (blen []) with 0. unfold c_mtuLimit. lia.
  - unfold genuine_seg. ns_segf. intros Hp.
    unfold c_IKCP_CMD_ACK, c_IKCP_CMD_WASK, c_IKCP_CMD_WINS, c_IKCP_CMD_PUSH in *. lia.
Qed.

Lemma ns_acks_ok isn src k : forall al h st h' st',
  Forall ns_ack_ok al -> ns_hdr_ok h -> ns_stage_ok (ns_P isn src) st ->
  flush_acks k h st al = Ok (h', st') ->
  ns_hdr_ok h' /\ ns_stage_ok (ns_P isn src) st'.
Proof.
  induction al as [|[sn ts] t IH]; intros h st h' st' Hal Hh Hst H; cbn [flush_acks] in H.
  - inversion H; subst. split; assumption.
  - inversion Hal as [|x y [Hsn Hts] Hal']; subst x y. cbn [fst snd] in Hsn, Hts.
    pose proof (ns_space_ok _ k st c_IKCP_OVERHEAD Hst) as Hst1.
    destruct ((itimediff sn (rcv_nxt k) >=? 0) || match t with [] => true | _ :: _ => false end).
    + set (h1 := mkSeg (s_conv h) (s_cmd h) (s_frg h) (s_wnd h) ts sn (s_una h) 0 0 0 0 0 []) in *.
      destruct (stage_write k (make_space k st c_IKCP_OVERHEAD) h1) as [st2|w] eqn:Ew; [|discriminate].
      assert (Hh1 : ns_hdr_ok h1).
      { destruct Hh as (H1 & H2 & H3 & H4 & H5 & H6 & H7). unfold ns_hdr_ok, h1. ns_segf. auto 10. }
      assert (Hp : ns_P isn src h1).
      { unfold h1. rewrite (proj1 (proj2 Hh)). apply ns_hdr_P; auto. }
      apply (IH h1 st2 h' st' Hal' Hh1); [|exact H].
      exact (ns_write_ok _ _ _ _ _ Hst1 Hp Ew).
    + exact (IH h _ h' st' Hal' Hh Hst1 H).
Qed.

Lemma ns_ph1_ok isn src k ft h1 st1 k1 :
  Forall ns_ack_ok (acklist k) -> is_u32 (conv k) -> is_u32 (rcv_nxt k) ->
  ns_ph1 k ft = Ok (h1, st1, k1) -> ns_hdr_ok h1 /\ ns_stage_ok (ns_P isn src) st1.
Proof.
  intros Hal Hc Hr. unfold ns_ph1. destruct ((ft =? FLUSH_ACKONLY) || (ft =? FLUSH_FULL)).
  - destruct (flush_acks k (ns_h0 k) (mkStage [] []) (acklist k)) as [[h st]|w] eqn:E; [|discriminate].
    intros H; inversion H; subst.
    exact (ns_acks_ok isn src k _ _ _ _ _ Hal (ns_h0_ok k Hc Hr) (ns_stage0 _) E).
  - intros H; inversion H; subst h1 st1 k1. split; [exact (ns_h0_ok k Hc Hr)|apply ns_stage0].
Qed.

Lemma ns_ph3_ok isn src k2 h1 st flag c st' :
  ns_hdr_ok h1 -> c = c_IKCP_CMD_WASK \/ c = c_IKCP_CMD_WINS ->
  ns_stage_ok (ns_P isn src) st -> ns_ph3 k2 h1 st flag c = Ok st' -> ns_stage_ok (ns_P isn src) st'.
Proof.
  intros Hh Hc Hst. unfold ns_ph3. destruct (negb (Z.land (probe k2) flag =? 0)).
  - intros H. eapply ns_write_ok; [apply ns_space_ok; exact Hst| |exact H].
    unfold ns_hdr. destruct Hh as (H1 & H2 & H3 & H4 & H5 & H6 & H7).
    apply ns_hdr_P; [unfold ns_hdr_ok; auto 10|tauto|exact H5|exact H6].
  - intros H; inversion H; subst. exact Hst.
Qed.

(* ---- phase 4: what admit_segs moves ---- *)
Definition ns_adm (cv : Z) (s s' : seg) : Prop :=
  s_frg s' = s_frg s /\ s_data s' = s_data s /\ s_acked s' = s_acked s /\
  s_conv s' = cv /\ s_cmd s' = c_IKCP_CMD_PUSH.

Lemma ns_admit_spec cv una cw : forall sq sb nxt n sq' sb' nxt' n',
  admit_segs sq sb cv una nxt cw n = (sq', sb', nxt', n') ->
  exists pre adm, sq = pre ++ sq' /\ sb' = sb ++ adm /\ Forall2 (ns_adm cv) pre adm.
Proof.
  induction sq as [|s t IH]; intros sb nxt n sq' sb' nxt' n' H; cbn [admit_segs] in H.
  - inversion H; subst. exists [], []. split; [reflexivity|]. split; [symmetry; apply app_nil_r|constructor].
  - destruct (itimediff nxt (u32 (una + cw)) >=? 0).
    + inversion H; subst. exists [], []. split; [reflexivity|]. split; [symmetry; apply app_nil_r|constructor].
    + destruct (IH _ _ _ _ _ _ _ H) as (pre & adm & E1 & E2 & F).
      eexists (s :: pre), (_ :: adm). split; [cbn [app]; rewrite E1; reflexivity|].
      split; [rewrite E2, <- app_assoc; reflexivity|].
      constructor; [|exact F]. unfold ns_adm. ns_segf. repeat split.
Qed.

Lemma ns_ph4_spec k3 ft sq sb nxt ns :
  ns_ph4 k3 ft = (sq, sb, nxt, ns) ->
  exists pre adm, snd_queue k3 = pre ++ sq /\ sb = snd_buf k3 ++ adm /\ Forall2 (ns_adm (conv k3)) pre adm.
Proof.
  unfold ns_ph4. destruct (ft =? FLUSH_FULL).
  - apply ns_admit_spec.
  - intros H; inversion H; subst. exists [], []. split; [reflexivity|]. split; [symmetry; apply app_nil_r|constructor].
Qed.

(* ---- phase 5 ---- *)
Definition ns_keep (s s' : seg) : Prop :=
  s_sn s' = s_sn s /\ s_frg s' = s_frg s /\ s_data s' = s_data s /\ s_acked s' = s_acked s /\
  s_conv s' = s_conv s /\ s_cmd s' = s_cmd s.

Lemma ns_keep_refl s : ns_keep s s.
Proof. unfold ns_keep. auto 10. Qed.

(* what flush_seg emits for s: the stored conv/cmd/frg/sn/data under the current header *)
Definition ns_emit_ok (P : seg -> Prop) (h : seg) (now : Z) (s : seg) : Prop :=
  s_acked s <> 1 -> forall rto xm rts fa,
    P (mkSeg (s_conv s) (s_cmd s) (s_frg s) (s_wnd h) now (s_sn s) (s_una h) rto xm rts fa (s_acked s) (s_data s)).

Lemma ns_flush_seg_ok P k h resent newsegs now s a s' a' :
  flush_seg k h resent newsegs now s a = Ok (s', a') ->
  ns_keep s s' /\ (ns_stage_ok P (f_st a) -> ns_emit_ok P h now s -> ns_stage_ok P (f_st a')).
Proof.
  unfold flush_seg. intros H.
  destruct (s_acked s =? 1) eqn:Ea.
  { inversion H; subst. split; [apply ns_keep_refl|auto]. }
  ns_b2z.
  assert (Hgen : forall t : bool * Z * Z * Z * fl,
    (let '(needsend, rto, resendts, fastack, a1) := t in
    let finish (s' : seg) (a' : fl) : res (seg * fl) :=
      let d := itimediff (s_resendts s') now in
      let nx := if (d >? 0) && (d <? f_next a') then d else f_next a' in
      Ok (s', mkFl (f_st a') (f_change a') (f_lost a') (f_fast a') (f_early a') nx (f_dead a')) in
    if needsend then
      let s' := mkSeg (s_conv s) (s_cmd s) (s_frg s) (s_wnd h) now (s_sn s) (s_una h)
                      rto (u32 (s_xmit s + 1)) resendts fastack (s_acked s) (s_data s) in
      let st1 := make_space k (f_st a1) (c_IKCP_OVERHEAD + blen (s_data s)) in
      match stage_write k st1 s' with
      | Panic w => Panic w
      | Ok st2 =>
          finish s' (mkFl st2 (f_change a1) (f_lost a1) (f_fast a1) (f_early a1) (f_next a1)
                          ((s_xmit s' >=? dead_link k) || f_dead a1))
      end
    else
      finish (mkSeg (s_conv s) (s_cmd s) (s_frg s) (s_wnd s) (s_ts s) (s_sn s) (s_una s)
                    rto (s_xmit s) resendts fastack (s_acked s) (s_data s)) a1) = Ok (s', a') ->
    f_st (let '(_, _, _, _, a1) := t in a1) = f_st a ->
    ns_keep s s' /\ (ns_stage_ok P (f_st a) -> ns_emit_ok P h now s -> ns_stage_ok P (f_st a'))).
  { intros [[[[ns rto] rts] fa] a1] HH Hst1. cbv beta iota zeta in HH, Hst1. destruct ns.
    - destruct (stage_write k _ _) as [st2|w] eqn:Ew; [|discriminate]. inversion HH; subst s' a'. clear HH.
      split; [unfold ns_keep; ns_segf; auto 10|]. cbn [f_st]. intros Hst He.
      assert (Hst' : ns_stage_ok P (f_st a1)) by (rewrite Hst1; exact Hst).
      exact (ns_write_ok P k _ _ _ (ns_space_ok P k _ _ Hst') (He Ea _ _ _ _) Ew).
    - inversion HH; subst s' a'. split; [unfold ns_keep; ns_segf; auto 10|]. cbn [f_st].
      rewrite Hst1. auto. }
  apply (Hgen _ H).
  destruct (s_xmit s =? 0); [reflexivity|].
  destruct ((s_fastack s >=? resent) && negb (s_fastack s =? 4294967295)); [reflexivity|].
  destruct ((s_fastack s >? 0) && negb (s_fastack s =? 4294967295) && (newsegs =? 0)); [reflexivity|].
  destruct (itimediff now (s_resendts s) >=? 0); reflexivity.
Qed.

Lemma ns_flush_segs_ok P k h resent newsegs now : forall l a l' a',
  flush_segs k h resent newsegs now l a = Ok (l', a') ->
  Forall2 ns_keep l l' /\
  (ns_stage_ok P (f_st a) -> Forall (ns_emit_ok P h now) l -> ns_stage_ok P (f_st a')).
Proof.
  induction l as [|s t IH]; intros a l' a' H; cbn [flush_segs] in H.
  - inversion H; subst. split; [constructor|auto].
  - destruct (flush_seg k h resent newsegs now s a) as [[s1 a1]|w] eqn:E1; [|discriminate].
    destruct (flush_segs k h resent newsegs now t a1) as [[t1 a2]|w] eqn:E2; [|discriminate].
    inversion H; subst l' a'. clear H.
    destruct (ns_flush_seg_ok P _ _ _ _ _ _ _ _ _ E1) as [K1 S1].
    destruct (IH _ _ _ E2) as [K2 S2].
    split; [constructor; assumption|]. intros Hst Hf.
    inversion Hf as [|x y Hs Ht]; subst x y. apply S2; [apply S1; assumption|exact Ht].
Qed.

Lemma ns_ph5_ok P k4 h1 ft ns now st3 sb' a :
  ns_ph5 k4 h1 ft ns now st3 = Ok (sb', a) ->
  Forall2 ns_keep (snd_buf k4) sb' /\
  (ns_stage_ok P st3 -> Forall (ns_emit_ok P h1 now) (snd_buf k4) -> ns_stage_ok P (f_st a)).
Proof.
  unfold ns_ph5. cbv zeta. destruct (ft =? FLUSH_FULL).
  - intros H. exact (ns_flush_segs_ok P _ _ _ _ _ _ _ _ _ H).
  - intros H; inversion H; subst. split; [apply ns_F2_refl; exact ns_keep_refl|]. cbn [f_st]. auto.
Qed.

Lemma ns_keep_pay l l' : Forall2 ns_keep l l' -> map pay l' = map pay l.
Proof.
  induction 1 as [|s s' t t' (_ & K2 & K3 & _) _ IH]; [reflexivity|].
  cbn [map]. rewrite IH. unfold pay. rewrite K2, K3. reflexivity.
Qed.

Lemma ns_adm_pay cv l l' : Forall2 (ns_adm cv) l l' -> map pay l' = map pay l.
Proof.
  induction 1 as [|s s' t t' (K2 & K3 & _) _ IH]; [reflexivity|].
  cbn [map]. rewrite IH. unfold pay. rewrite K2, K3. reflexivity.
Qed.

Lemma ns_keep_contig l l' : Forall2 ns_keep l l' -> forall b, contiguous b l' -> contiguous b l.
Proof.
  induction 1 as [|s s' t t' (K1 & _) _ IH]; intros b Hc; [exact I|].
  cbn [contiguous] in *. destruct Hc as [H1 H2]. split; [rewrite <- K1; exact H1|apply IH; exact H2].
Qed.

(* ================================================================== *)
(* 6. the sender invariant across the pieces                           *)
(* ================================================================== *)
Lemma ns_stream_form N q : stream_bytes N ++ concat (map s_data q) = stream_bytes (N ++ map pay q).
Proof. unfold stream_bytes. rewrite map_app, concat_app, ns_map_snd_pay. reflexivity. Qed.

Lemma ns_matches_pay l : Forall2 sb_matches l (map pay l).
Proof.
  induction l as [|s t IH]; [constructor|]. cbn [map]. constructor; [|exact IH].
  unfold sb_matches, pay. cbn [fst snd]. auto.
Qed.

Lemma ns_matches_trans (R : seg -> seg -> Prop) :
  (forall s s' p, R s s' -> sb_matches s p -> sb_matches s' p) ->
  forall l l', Forall2 R l l' -> forall m, Forall2 sb_matches l m -> Forall2 sb_matches l' m.
Proof.
  intros HR l l' H. induction H as [|s s' t t' Hs _ IH]; intros m Hm.
  - inversion Hm; subst. constructor.
  - inversion Hm as [|x p y rest Hp Ht]; subst. constructor; [exact (HR _ _ _ Hs Hp)|exact (IH _ Ht)].
Qed.

Lemma ns_husk_matches s s' p : ns_husk s s' -> sb_matches s p -> sb_matches s' p.
Proof.
  unfold ns_husk, sb_matches. intros (_ & H2 & H3) (M1 & M2).
  split; [congruence|]. destruct H3 as [H3|[H3 H4]]; [left; exact H3|].
  destruct M2 as [M2|M2]; [left; congruence|right; congruence].
Qed.

Lemma ns_keep_matches s s' p : ns_keep s s' -> sb_matches s p -> sb_matches s' p.
Proof.
  unfold ns_keep, sb_matches. intros (_ & K2 & K3 & K4 & _) (M1 & M2).
  split; [congruence|]. destruct M2 as [M2|M2]; [left; congruence|right; congruence].
Qed.

Lemma ns_F2_in (A B : Type) (R : A -> B -> Prop) l l' :
  Forall2 R l l' -> forall x, In x l -> exists y, In y l' /\ R x y.
Proof.
  induction 1 as [|a b t t' Hab _ IH]; intros x Hin; [contradiction|].
  destruct Hin as [E|Hin].
  - subst x. exists b. split; [left; reflexivity|exact Hab].
  - destruct (IH x Hin) as (y & Hy & Hr). exists y. split; [right; exact Hy|exact Hr].
Qed.

(* a live element of snd_buf is a numbered payload, under its own number *)
Lemma ns_sb_lookup isn N' : forall sb a,
  contiguous (u32 (isn + Z.of_nat a)) sb -> Forall2 sb_matches sb (skipn a N') ->
  forall s, In s sb -> s_acked s <> 1 ->
  exists i, (i < length N')%nat /\ s_sn s = u32 (isn + Z.of_nat i) /\
            nth_error N' i = Some (s_frg s, s_data s).
Proof.
  induction sb as [|e t IH]; intros a Hc HF s Hin Hack; [contradiction|].
  inversion HF as [|e0 p t0 rest Hm Ht E0 E1]; subst e0 t0.
  assert (Hnth : nth_error N' a = Some p).
  { pose proof (ns_nth_skipn _ a N' 0) as H. rewrite <- E1, Nat.add_0_r in H. cbn [nth_error] in H.
    symmetry. exact H. }
  assert (Hrest : rest = skipn (S a) N').
  { pose proof (ns_skipn_skipn _ 1 a N') as H. rewrite <- E1 in H. cbn [skipn] in H.
    rewrite Nat.add_1_r in H. exact H. }
  assert (Hlt : (a < length N')%nat) by (apply nth_error_Some; rewrite Hnth; discriminate).
  cbn [contiguous] in Hc. destruct Hc as [Hc1 Hc2].
  destruct Hin as [E|Hin].
  - subst s. exists a. split; [exact Hlt|]. split; [exact Hc1|].
    rewrite Hnth. destruct p as [f d]. destruct Hm as [M1 M2]. cbn [fst snd] in *.
    destruct M2 as [M2|M2]; [contradiction|]. rewrite M1, M2. reflexivity.
  - apply (IH (S a)); try assumption.
    + rewrite u32_add_mod in Hc2. replace (isn + Z.of_nat (S a)) with (isn + Z.of_nat a + 1) by lia. exact Hc2.
    + rewrite <- Hrest. exact Ht.
Qed.

Lemma ns_dg_genuine isn src d : ns_dg (ns_P isn src) d -> genuine_dgram isn src d.
Proof.
  intros (segs & E & F). exists segs. split; [exact E|].
  split; (eapply Forall_impl; [|exact F]); intros s [H1 H2]; assumption.
Qed.

(* ---- Input before its flush ---- *)
Lemma ns_pre_sender g k k1 :
  sender_inv g k -> ns_pre k k1 -> inv k1 ->
  sender_inv g k1 /\ stream k1 = stream k /\
  exists j, (j <= length (snd_buf k))%nat /\ snd_una k1 = u32 (snd_una k + Z.of_nat j) /\
            length (snd_buf k1) = (length (snd_buf k) - j)%nat.
Proof.
  intros [Hinv [Hisn Hconv] Hwf Hacks (a & Ha & Huna & Hsb) Hstr Hmsg Hbd] Hpre Hinv1.
  destruct (ns_pre_una k k1 Hinv Hinv1 Hpre) as (j & Hj & Hu & HF).
  destruct Hpre as (_ & Hq & Hn & Hc & Hs & Hal).
  pose proof (ns_F2_length _ _ _ _ _ Hsb) as Hl1. rewrite skipn_length in Hl1.
  pose proof (ns_F2_length _ _ _ _ _ HF) as Hl2. rewrite skipn_length in Hl2.
  split; [|split; [exact Hs|exists j; split; [exact Hj|split; [exact Hu|lia]]]].
  constructor; rewrite ?Hq, ?Hc, ?Hs; try assumption.
  - split; assumption.
  - apply Hal. exact Hacks.
  - exists (a + j)%nat. split; [lia|]. split.
    + rewrite Hu, Huna, u32_add_mod. f_equal. lia.
    + rewrite <- ns_skipn_skipn.
      apply (ns_matches_trans ns_husk ns_husk_matches _ _ HF). apply ns_F2_skipn. exact Hsb.
Qed.

(* ---- flush ---- *)
Lemma ns_flush_sender g k ft now k' nx o ext :
  sender_inv g k -> is_u32 now -> flush k ft now = Ok (k', nx, o) -> inv k' ->
  ext = map pay (skipn (length (snd_buf k)) (snd_buf k')) ->
  sender_inv (mkSG (sg_isn g) (sg_numbered g ++ ext) (sg_accepted g)) k' /\
  Forall (genuine_dgram (sg_isn g) (sg_numbered g ++ ext)) o /\
  snd_una k' = snd_una k /\ stream k' = stream k.
Proof.
  intros [Hinv [Hisn Hconv] Hwf Hacks (a & Ha & Huna & Hsb) Hstr Hmsg Hbd] Hnow Hfl Hinv' Eext.
  destruct (ns_flush_invert _ _ _ _ _ _ Hfl)
    as (h1 & st1 & k1 & st2 & st3 & sq & sb & nxt & ns & sb' & fa & E1 & E2 & E3 & E4 & E5 & Ek & Eo).
  set (N := sg_numbered g) in *. set (isn := sg_isn g) in *.
  (* bookkeeping *)
  assert (F1 : snd_queue k1 = snd_queue k /\ snd_buf k1 = snd_buf k /\ snd_una k1 = snd_una k /\
               conv k1 = conv k /\ stream k1 = stream k /\ (acklist k1 = [] \/ acklist k1 = acklist k)).
  { destruct (ns_ph1_k _ _ _ _ _ E1) as [E|E]; subst k1; ksimpl; auto 10. }
  destruct F1 as (Fq & Fb & Fu & Fc & Fs & Fa).
  pose proof (ns_sf_ph2 k1 now) as (Gq & Gb & Gu & _ & Gc & Gs & Ga).
  set (k2 := ns_ph2 k1 now) in *. set (k3 := set_probe_flags k2 0) in *.
  destruct (ns_ph4_spec _ _ _ _ _ _ E4) as (pre & adm & Eq & Esb & Hadm).
  change (snd_queue k3) with (snd_queue k2) in Eq. change (snd_buf k3) with (snd_buf k2) in Esb.
  rewrite Gq, Fq in Eq. rewrite Gb, Fb in Esb.
  set (k4 := ns_k4 k3 sq sb nxt) in *.
  pose proof (ns_sf_ph6 (ns_k5 k4 sb' fa) fa (ns_cw k3) (ns_resent k4)) as (Pq & Pb & Pu & _ & Pc & Ps & Pa).
  rewrite <- Ek in Pq, Pb, Pu, Pc, Ps, Pa.
  pose proof (ns_k5_fields k4 sb' fa) as (Qq & Qb & Qu & Qc & Qs & Qa).
  assert (Kq : snd_queue k' = sq) by (rewrite Pq, Qq; reflexivity).
  assert (Kb : snd_buf k' = sb') by (rewrite Pb, Qb; reflexivity).
  assert (Ku : snd_una k' = snd_una k).
  { rewrite Pu, Qu. change (snd_una k4) with (snd_una k2). rewrite Gu, Fu. reflexivity. }
  assert (Kc : conv k' = conv k).
  { rewrite Pc, Qc. change (conv k4) with (conv k2). rewrite Gc, Fc. reflexivity. }
  assert (Ks : stream k' = stream k).
  { rewrite Ps, Qs. change (stream k4) with (stream k2). rewrite Gs, Fs. reflexivity. }
  assert (Ka : acklist k' = [] \/ acklist k' = acklist k).
  { rewrite Pa, Qa. change (acklist k4) with (acklist k2). rewrite Ga. exact Fa. }
  (* what was admitted *)
  destruct (ns_ph5_ok (fun _ => True) _ _ _ _ _ _ _ _ E5) as [Hkeep _].
  change (snd_buf k4) with sb in Hkeep.
  assert (Eext' : ext = map pay adm).
  { rewrite Eext, Kb. rewrite Esb in Hkeep.
    destruct (Forall2_app_inv_l _ _ Hkeep) as (l1 & l2 & K1 & K2 & El). rewrite El.
    rewrite (ns_F2_length _ _ _ _ _ K1), ns_skipn_app_len. exact (ns_keep_pay _ _ K2). }
  assert (Epre : map pay adm = map pay pre) by exact (ns_adm_pay _ _ _ Hadm).
  set (N' := N ++ ext) in *.
  assert (EL : N' ++ map pay sq = N ++ map pay (snd_queue k)).
  { unfold N'. rewrite Eext', Epre, Eq, map_app, app_assoc. reflexivity. }
  (* snd_buf after admission, against the extended numbering *)
  assert (Hc : contiguous (u32 (isn + Z.of_nat a)) sb).
  { rewrite <- Huna, <- Ku. apply (ns_keep_contig _ _ Hkeep). rewrite <- Kb. exact (I_sb_contig _ Hinv'). }
  assert (Hm : Forall2 sb_matches sb (skipn a N')).
  { unfold N'. rewrite ns_skipn_app_le by exact Ha. rewrite Esb, Eext'.
    apply Forall2_app; [exact Hsb|apply ns_matches_pay]. }
  assert (HwfN : Forall ns_pay_ok N').
  { rewrite <- EL in Hwf. apply ns_src_wf_iff in Hwf. destruct Hwf as [Hf _].
    apply Forall_app in Hf. exact (proj1 Hf). }
  (* outputs *)
  destruct (ns_ph1_ok isn N' _ _ _ _ _ Hacks Hconv (I_rnxt_u32 _ Hinv) E1) as [Hh1 Hst1].
  pose proof (ns_ph3_ok isn N' _ _ _ _ _ _ Hh1 (or_introl eq_refl) Hst1 E2) as Hst2.
  pose proof (ns_ph3_ok isn N' _ _ _ _ _ _ Hh1 (or_intror eq_refl) Hst2 E3) as Hst3.
  destruct (ns_ph5_ok (ns_P isn N') _ _ _ _ _ _ _ _ E5) as [_ Hst5].
  change (snd_buf k4) with sb in Hst5.
  assert (Hemit : Forall (ns_emit_ok (ns_P isn N') h1 now) sb).
  { apply Forall_forall. intros s Hin Hack rto xm rts fa0.
    destruct (ns_sb_lookup isn N' sb a Hc Hm s Hin Hack) as (i & Hi & Hsn & Hnth).
    destruct (ns_F2_in _ _ _ _ _ Hkeep s Hin) as (s' & Hin' & (_ & _ & _ & _ & C5 & C6)).
    rewrite <- Kb in Hin'.
    pose proof (proj1 (Forall_forall _ _) (I_sb_push _ Hinv') s' Hin') as [P1 P2].
    rewrite C5, Kc in P1. rewrite C6 in P2.
    pose proof (proj1 (Forall_forall _ _) HwfN _ (nth_error_In _ _ Hnth)) as (W1 & W2 & W3).
    cbn [fst snd] in W1, W2, W3.
    destruct Hh1 as (H1 & H2 & H3 & H4 & H5 & H6 & H7).
    split.
    - unfold seg_wf. ns_segf. rewrite P1, P2, Hsn.
      split; [exact Hconv|]. split; [unfold c_IKCP_CMD_PUSH; lia|]. split; [lia|].
      split; [exact H4|]. split; [exact Hnow|]. split; [apply u32_range|]. split; [exact H7|].
      split; assumption.
    - unfold genuine_seg. ns_segf. intros _. exists i. split; [exact Hi|]. split; [exact Hsn|].
      unfold pay. ns_segf. exact Hnth. }
  pose proof (ns_buffer_ok _ _ (Hst5 Hst3 Hemit)) as Hout. rewrite <- Eo in Hout.
  split; [|split; [|split; [exact Ku|exact Ks]]].
  - constructor; cbn [sg_isn sg_numbered sg_accepted]; fold N'; rewrite ?Kq, ?Kc, ?Ks, ?Ku, ?Kb.
    + exact Hinv'.
    + split; assumption.
    + rewrite EL. exact Hwf.
    + destruct Ka as [Ka|Ka]; rewrite Ka; [constructor|exact Hacks].
    + exists a. split; [unfold N'; rewrite app_length; lia|]. split; [exact Huna|].
      exact (ns_matches_trans ns_keep ns_keep_matches _ _ Hkeep _ Hm).
    + intros Hs. rewrite ns_stream_form, EL, <- ns_stream_form. exact (Hstr Hs).
    + intros Hs. rewrite EL. exact (Hmsg Hs).
    + rewrite EL. exact Hbd.
  - eapply Forall_impl; [|exact Hout]. intros d. apply ns_dg_genuine.
Qed.

(* ---- the ghost list of a call ---- *)
Lemma ns_newly_shift k k' j :
  inv k -> (j <= length (snd_buf k))%nat -> snd_una k' = u32 (snd_una k + Z.of_nat j) ->
  newly_numbered k k' = map pay (skipn (length (snd_buf k) - j) (snd_buf k')).
Proof.
  intros Hinv Hj Hu. unfold newly_numbered. cbv zeta.
  assert (E : u32 (snd_una k' - snd_una k) = Z.of_nat j).
  { pose proof (I_una_u32 _ Hinv) as H1. pose proof (I_sb_wnd _ Hinv) as H2.
    pose proof (I_snd_wnd _ Hinv) as H3. unfold qlen in H2. rewrite Hu.
    unfold is_u32, u32, W32 in *. lia. }
  rewrite E, Nat2Z.id. reflexivity.
Qed.

Lemma ns_newly_same k k' :
  inv k -> snd_una k' = snd_una k ->
  newly_numbered k k' = map pay (skipn (length (snd_buf k)) (snd_buf k')).
Proof.
  intros Hinv Hu. rewrite (ns_newly_shift k k' 0 Hinv); [rewrite Nat.sub_0_r; reflexivity|lia|].
  cbn [Z.of_nat]. rewrite Z.add_0_r, u32_id by exact (I_una_u32 _ Hinv). exact Hu.
Qed.

Lemma ns_newly_nil k k' :
  inv k -> snd_una k' = snd_una k -> snd_buf k' = snd_buf k -> newly_numbered k k' = [].
Proof. intros Hinv Hu Hb. rewrite (ns_newly_same k k' Hinv Hu), Hb, skipn_all. reflexivity. Qed.

(* a call that leaves snd_buf, snd_una and the acklist alone *)
Lemma ns_quiet g k k' A' :
  sender_inv g k -> inv k' ->
  snd_buf k' = snd_buf k -> snd_una k' = snd_una k -> conv k' = conv k -> stream k' = stream k ->
  acklist k' = acklist k ->
  ns_src_ok (stream k) (sg_numbered g) (snd_queue k') A' ->
  sender_inv (mkSG (sg_isn g) (sg_numbered g ++ newly_numbered k k') A') k'.
Proof.
  intros [Hinv [Hisn Hconv] Hwf Hacks Huna Hstr Hmsg Hbd] Hinv' Eb Eu Ec Es Ea (S1 & S2 & S3 & S4).
  rewrite (ns_newly_nil k k' Hinv Eu Eb), app_nil_r.
  constructor; cbn [sg_isn sg_numbered sg_accepted]; rewrite ?Eb, ?Eu, ?Ec, ?Es, ?Ea; try assumption.
  split; assumption.
Qed.

Lemma ns_src_ok_of g k : sender_inv g k -> ns_src_ok (stream k) (sg_numbered g) (snd_queue k) (sg_accepted g).
Proof.
  intros [_ _ Hwf _ _ Hstr Hmsg Hbd]. split; [exact Hwf|]. split; [exact Hbd|]. split; assumption.
Qed.

Lemma ns_sf_do_move_ready k : ns_sf k (do_move_ready k).
Proof.
  unfold do_move_ready.
  destruct (move_ready (rcv_buf k) (rcv_queue k) (rcv_nxt k) (rcv_wnd k)) as [[rb rq] rn]. repeat split.
Qed.

Lemma ns_sf_recv k n : ns_sf k (fst (fst (recv k n))).
Proof.
  unfold recv. cbv zeta.
  destruct (peeksize k <? 0); [apply ns_sf_refl|].
  destruct (peeksize k >? n); [apply ns_sf_refl|].
  destruct (pop_msg (rcv_queue k)) as [d rq].
  pose proof (ns_sf_do_move_ready (set_rcv_queue k rq)) as H.
  set (k1 := do_move_ready (set_rcv_queue k rq)) in *.
  assert (H1 : ns_sf k k1) by (eapply ns_sf_trans; [|exact H]; repeat split).
  destruct ((qlen (rcv_queue k1) <? rcv_wnd k1) && (qlen (rcv_queue k) >=? rcv_wnd k)); cbn [fst]; [|exact H1].
  eapply ns_sf_trans; [exact H1|]. repeat split.
Qed.

Lemma ns_sf_set_mtu k m : ns_sf k (fst (set_mtu k m)).
Proof.
  unfold set_mtu. destruct ((m <=? c_IKCP_OVERHEAD) || (m >? c_mtuLimit)); [apply ns_sf_refl|].
  destruct (max_queued k >? m - c_IKCP_OVERHEAD); [apply ns_sf_refl|]. repeat split.
Qed.

Lemma ns_sf_set_nodelay k nd iv rs nc : ns_sf k (set_nodelay k nd iv rs nc).
Proof. unfold set_nodelay. destruct (nd >=? 0); repeat split. Qed.

Lemma ns_sender_inv_timer g k st tsf upd : sender_inv g k -> sender_inv g (set_timer k st tsf upd).
Proof.
  intros [Hinv Hisn Hwf Hacks Huna Hstr Hmsg Hbd].
  constructor; ksimpl; try assumption. apply inv_set_timer. exact Hinv.
Qed.

Lemma ns_newly_timer k st tsf upd k' : newly_numbered (set_timer k st tsf upd) k' = newly_numbered k k'.
Proof. reflexivity. Qed.
