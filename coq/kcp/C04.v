(* C04 - window discipline: bounded buffering, truthful window, backpressure.
   Statements only.  `inv` (Step.v) is the endpoint invariant of DESIGN Appendix B.1; it is
   preserved by EVERY call with ARBITRARY arguments - in particular by Input of any byte
   string (a peer that ignores the window or forges una/sn/wnd/len fields). *)
From Coq Require Import ZArith List Bool.
From KV.Base Require Import Consts Word.
From KV.Kcp Require Import Kcp Step InvAll.
Import ListNotations.
Local Open Scope Z_scope.

(* The invariant holds initially and after any configuration done before traffic. *)
Theorem c04_init : forall cv, 0 <= cv < W32 -> inv (kcp_new cv).
Proof. exact inv_new. Qed.
Print Assumptions c04_init.

Theorem c04_config :
  forall k sw rw, inv k -> snd_buf k = [] -> 0 < sw < 32768 -> 0 < rw < 32768 ->
    rcv_buf k = [] -> rcv_queue k = [] -> inv (set_wndsize k sw rw).
Proof. exact inv_wndsize. Qed.
Print Assumptions c04_config.

(* One step: no call can fault, the invariant is kept, every datagram handed to the output
   callback is a non-empty sequence of well-formed segments of total size <= mtu, each
   advertising exactly the free space of the delivery queue. *)
Theorem c04_step :
  forall k o, inv k -> op_ok o ->
    exists k' x, step k o = Ok (k', x) /\ inv k' /\ out_ok k' x.
Proof. exact step_ok. Qed.
Print Assumptions c04_step.

(* Every reachable state, for every operation sequence of any length. *)
Theorem c04_reachable :
  forall ops k, inv k -> Forall op_ok ops ->
    exists k' outs, run k ops = Some (k', outs) /\ inv k'.
Proof. exact run_ok. Qed.
Print Assumptions c04_reachable.

(* What the invariant says about buffering (the bounds of the property). *)
Theorem c04_rcv_queue_bound : forall k, inv k -> qlen (rcv_queue k) <= rcv_wnd k.
Proof. exact inv_rcv_queue_bound. Qed.
Print Assumptions c04_rcv_queue_bound.

Theorem c04_rcv_buf_bound : forall k, inv k -> qlen (rcv_buf k) <= rcv_wnd k.
Proof. exact inv_rcv_buf_bound. Qed.
Print Assumptions c04_rcv_buf_bound.

Theorem c04_outstanding :
  forall k, inv k ->
    qlen (snd_buf k) <= snd_wnd k /\ u32 (snd_nxt k - snd_una k) = qlen (snd_buf k) /\
    contiguous (snd_una k) (snd_buf k).
Proof. exact inv_outstanding. Qed.
Print Assumptions c04_outstanding.

(* Truthful window: the wnd field of every emitted segment is the free space of the delivery
   queue (never more). *)
Theorem c04_wnd_truthful :
  forall k s, inv k -> wire_seg_ok k s -> 0 <= s_wnd s <= rcv_wnd k - qlen (rcv_queue k).
Proof. exact wnd_truthful. Qed.
Print Assumptions c04_wnd_truthful.

(* Admission: a flush numbers a new segment only while fewer than
   min(snd_wnd, rmt_wnd [, cwnd]) are outstanding, and a full flush transmits in the same call
   every segment it numbers (an ack-only flush numbers none). *)
Theorem c04_admission :
  forall k ft now k' nx o, inv k -> flush k ft now = Ok (k', nx, o) ->
    let cw := if nocwnd k =? 0 then Z.min (cwnd k) (Z.min (snd_wnd k) (rmt_wnd k))
              else Z.min (snd_wnd k) (rmt_wnd k) in
    (ft <> FLUSH_FULL -> snd_nxt k' = snd_nxt k) /\
    (qlen (snd_buf k') > qlen (snd_buf k) -> qlen (snd_buf k') <= cw) /\
    Forall (fun s => s_xmit s = 1) (skipn (length (snd_buf k)) (snd_buf k')).
Proof. exact flush_admission. Qed.
Print Assumptions c04_admission.

(* Congestion window: after any flush with congestion control on, cwnd >= 1; ssthresh >= 2
   once it has been touched; after a flush with a timeout retransmission cwnd = 1 unless a
   fast/early retransmission happened in the same flush (DESIGN F16 discusses that corner). *)
Theorem c04_cwnd_after_flush :
  forall k ft now k' nx o, inv k -> flush k ft now = Ok (k', nx, o) -> nocwnd k = 0 -> 1 <= cwnd k'.
Proof. exact flush_cwnd_ge1. Qed.
Print Assumptions c04_cwnd_after_flush.

(* non-vacuity: a state with a full window of unacknowledged segments satisfies inv *)
Example c04_example : exists k, inv k /\ qlen (snd_buf k) = snd_wnd k /\ qlen (rcv_buf k) = 2.
Proof. exact inv_example. Qed.
