(* C18, clean-path half, SENDER SIDE.  The lemmas the statement file C18b.v `exact`s.
   Helpers are in CleanBase.v (prefix cl_).

   What is proved here, for ONE endpoint and every sequence of API calls:
   1. why a flush (re)transmits a segment (timeout / fast / early retransmit), and that an
      ack-only flush transmits no data;
   2. why a fast-acknowledgement counter grows (only parse_fastack, only for an ACK naming a
      later number with a not-older timestamp);
   3. the retransmission timer a transmission arms, and that it cannot fire earlier than the
      minimum RTO after the transmission;
   4. the composition: on a `clean_history` every segment goes to the wire at most once.

   The whole-system step (a FIFO, loss-free path with RTT < min RTO produces a clean history at
   the sender) is NOT proved here; H1/H2 below are its interface. *)
From Coq Require Import ZArith List Bool Lia.
From KV.Base Require Import Consts Word WordLemmas.
From KV.Kcp Require Import Kcp Step Net InvBase InvInputBase InvInput InvFlushBase InvFlush InvAll LiveBase CleanBase.
Import ListNotations.
Local Open Scope Z_scope.

Ltac Zify.zify_post_hook ::= Z.div_mod_to_equations.

(* ------------------------------------------------------------------ *)
(* 3. the timer armed by a transmission                                *)
(* ------------------------------------------------------------------ *)
(* a timer armed at ts with timeout r >= m cannot fire while the segment is younger than m
   (r <= 60000 < 2^31: the wrapped comparison is unambiguous) *)
Lemma cl_no_timeout m now s :
  s_resendts s = u32 (s_ts s + s_rto s) -> m <= s_rto s <= 60000 ->
  0 <= itimediff now (s_ts s) < m -> ~ cl_timeout now s.
Proof.
  unfold cl_timeout. intros E Hr Hd. rewrite E.
  unfold itimediff, i32, u32, W32, H32 in *. lia.
Qed.

Lemma cl_resent_pos k : - H32 <= fastresend k < H32 -> lv_resent k > 0.
Proof.
  intros H. unfold lv_resent. destruct (fastresend k <=? 0) eqn:E; lv_b2z; [lia|].
  rewrite u32_id; [lia|]. unfold W32, H32 in *. lia.
Qed.

Lemma cl_sent_fields h now s rto rts fa :
  s_sn (lv_sent h now s rto rts fa) = s_sn s /\ s_ts (lv_sent h now s rto rts fa) = now /\
  s_rto (lv_sent h now s rto rts fa) = rto /\ s_resendts (lv_sent h now s rto rts fa) = rts /\
  s_fastack (lv_sent h now s rto rts fa) = fa /\ s_xmit (lv_sent h now s rto rts fa) = u32 (s_xmit s + 1) /\
  s_acked (lv_sent h now s rto rts fa) = s_acked s /\ s_cmd (lv_sent h now s rto rts fa) = s_cmd s.
Proof. unfold lv_sent. lv_segf. repeat split. Qed.

(* (3) after a transmission at time `now` *)
Lemma cl_resendts_after_send k h resent newsegs now s a s' a' :
  inv k -> rto_inv k ->
  flush_seg k h resent newsegs now s a = Ok (s', a') -> s_xmit s' <> s_xmit s ->
  s_ts s' = now /\ s_resendts s' = u32 (s_ts s' + s_rto s') /\
  ((s_rto s' = rx_rto k /\ rx_minrto k <= s_rto s' <= 60000) \/
   (s_xmit s <> 0 /\ cl_timeout now s /\
    s_rto s' = u32 (s_rto s + (if nodelay k =? 0 then rx_rto k else rx_rto k / 2)))).
Proof.
  intros Hinv Hrto H Hx.
  destruct (cl_flush_seg_spec _ _ _ _ _ _ _ _ _ H) as (sent & Hstep & _).
  destruct sent; cbn beta iota in Hstep; [|destruct Hstep as (E & _); subst s'; contradiction].
  destruct Hstep as (_ & rto & fa & Es & Hc).
  destruct (cl_sent_fields h now s rto (u32 (now + rto)) fa) as (_ & F2 & F3 & F4 & _).
  rewrite <- Es in F2, F3, F4. rewrite F2, F3, F4. split; [reflexivity|]. split; [reflexivity|].
  pose proof (I_rto_max _ Hinv) as Hmax. unfold rto_inv in Hrto. unfold c_IKCP_RTO_MAX in Hmax.
  destruct Hc as [(_ & Er & _)|[(_ & _ & Er & _)|(Hx0 & _ & _ & Ht & Er & _)]].
  - left. subst rto. split; [reflexivity|lia].
  - left. subst rto. split; [reflexivity|lia].
  - right. split; [exact Hx0|]. split; [exact Ht|]. subst rto. destruct (nodelay k =? 0); reflexivity.
Qed.

(* ------------------------------------------------------------------ *)
(* 1. why a flush (re)transmits                                        *)
(* ------------------------------------------------------------------ *)
(* what a full flush at `now`, admitting `newsegs` new segments, does to a buffer entry *)
Definition cl_change (resent newsegs now : Z) (s s' : seg) : Prop :=
  s_sn s' = s_sn s /\
  (s' = s \/
   (s_acked s <> 1 /\ s_xmit s' = u32 (s_xmit s + 1) /\
    s_ts s' = now /\ s_resendts s' = u32 (now + s_rto s') /\
    (s_xmit s = 0 \/ cl_cause resent newsegs now s))).

Lemma cl_step_change rxrto nd resent newsegs now h s s' b :
  cl_step rxrto nd resent newsegs now h s s' b -> cl_change resent newsegs now s s'.
Proof.
  destruct b; cbn beta iota.
  - intros (Ha & rto & fa & Es & Hc).
    destruct (cl_sent_fields h now s rto (u32 (now + rto)) fa) as (F1 & F2 & F3 & F4 & _ & F6 & _).
    rewrite <- Es in F1, F2, F3, F4, F6. split; [exact F1|]. right.
    split; [exact Ha|]. split; [exact F6|]. split; [exact F2|]. split; [rewrite F4, F3; reflexivity|].
    destruct Hc as [(E0 & _)|[(_ & Hfe & _)|(_ & _ & _ & Ht & _)]].
    + left; exact E0.
    + right. right. exact Hfe.
    + right. left. exact Ht.
  - intros (E & _). subst s'. split; [reflexivity|left; reflexivity].
Qed.

Lemma cl_flush_seg_causes k h resent newsegs now s a s' a' :
  flush_seg k h resent newsegs now s a = Ok (s', a') -> cl_change resent newsegs now s s'.
Proof.
  intros H. destruct (cl_flush_seg_spec _ _ _ _ _ _ _ _ _ H) as (sent & Hstep & _).
  eapply cl_step_change. exact Hstep.
Qed.

Lemma cl_F2_qlen (R : seg -> seg -> Prop) l l' : Forall2 R l l' -> qlen l' = qlen l.
Proof. induction 1 as [|s s' t t' Hr Ht IH]; [reflexivity|]. rewrite !qlen_cons, IH. reflexivity. Qed.

(* lifted to flush: entry by entry; sb2 = the entries admitted by this flush *)
Lemma cl_retransmit_causes k now k' nx o :
  flush k FLUSH_FULL now = Ok (k', nx, o) ->
  exists sb1 sb2, snd_buf k' = sb1 ++ sb2 /\
    Forall2 (cl_change (lv_resent k) (qlen sb2) now) (snd_buf k) sb1.
Proof.
  intros H.
  destruct (cl_flush_spec _ _ _ _ _ _ H) as (h1 & sq & sb & nxt & ns & Wc & Wp & E4 & Hfull & _).
  destruct (cl_ph4_spec _ _ _ _ _ _ E4) as (pre & adm & _ & Esb & Ens & _).
  specialize (Hfull eq_refl). rewrite Esb in Hfull.
  destruct (cl_segs_app_inv _ _ _ _ _ Hfull) as (l1 & l2 & W1 & W2 & El & _ & H1 & H2).
  exists l1, l2. split; [exact El|].
  pose proof (cl_F2_qlen _ _ _ (cl_segs_F2 _ _ _ _ H2)) as Hq. rewrite Hq, <- Ens.
  pose proof (cl_segs_F2 _ _ _ _ H1) as HF.
  eapply fl_Forall2_impl; [|exact HF]. intros s s' (b & Hb). eapply cl_step_change. exact Hb.
Qed.

(* an ack-only flush touches no buffer entry and puts no data segment on the wire *)
Lemma cl_ackonly_nothing k ft now k' nx o :
  ft <> FLUSH_FULL -> flush k ft now = Ok (k', nx, o) ->
  snd_buf k' = snd_buf k /\ snd_queue k' = snd_queue k /\
  exists Wc, cl_wire o Wc /\ Forall (fun w => s_cmd w <> c_IKCP_CMD_PUSH) Wc.
Proof.
  intros Hn H.
  destruct (cl_flush_spec _ _ _ _ _ _ H) as (h1 & sq & sb & nxt & ns & Wc & Wp & E4 & _ & Hnot & Hw & Hc & Fq & _).
  destruct (cl_ph4_spec _ _ _ _ _ _ E4) as (pre & adm & Esq & Esb & _ & HF & Hadm).
  specialize (Hadm Hn). subst adm. inversion HF; subst pre. rewrite app_nil_r in Esb. cbn [app] in Esq.
  destruct (Hnot Hn) as (Hs & Hwp). subst Wp. rewrite app_nil_r in Hw.
  split; [rewrite Hs; exact Esb|]. split; [rewrite Fq, Esq; reflexivity|].
  exists Wc. split; assumption.
Qed.

(* ------------------------------------------------------------------ *)
(* 2. why a fast-acknowledgement counter grows                         *)
(* ------------------------------------------------------------------ *)
Lemma cl_set_snd_buf_id k : set_snd_buf k (snd_buf k) = k.
Proof. destruct k; reflexivity. Qed.

(* parse_fastack: every entry is left alone or gets its counter incremented; the latter only for
   an ACK inside [snd_una, snd_nxt) naming a LATER number, whose echoed timestamp is not older
   than the entry's last transmission (cl_fa_step, CleanBase) *)
Lemma cl_parse_fastack_causes k sn ts :
  exists l, fst (parse_fastack k sn ts) = set_snd_buf k l /\
    Forall2 (cl_fa_step sn ts) (snd_buf k) l /\
    (l <> snd_buf k -> itimediff sn (snd_una k) >= 0 /\ itimediff sn (snd_nxt k) < 0).
Proof.
  unfold parse_fastack.
  destruct ((itimediff sn (snd_una k) <? 0) || (itimediff sn (snd_nxt k) >=? 0)) eqn:Eg.
  - exists (snd_buf k). cbn [fst]. split; [symmetry; apply cl_set_snd_buf_id|].
    split; [apply cl_fa_step_refl_list|]. intros Hn; contradiction.
  - apply orb_false_iff in Eg. destruct Eg as (Eg1 & Eg2). lv_b2z.
    pose proof (cl_fastack_walk_causes sn ts (fastresend k) (snd_buf k)) as Hw.
    destruct (fastack_walk sn ts (fastresend k) (snd_buf k)) as [l f]. cbn [fst] in *.
    exists l. split; [reflexivity|]. split; [exact Hw|]. intros _. lia.
Qed.

(* with u32 numbers `>= 0 and different` is `> 0` *)
Lemma cl_later_strict sn e : is_u32 sn -> is_u32 e -> itimediff sn e >= 0 -> sn <> e -> itimediff sn e > 0.
Proof. unfold is_u32, itimediff, i32, W32, H32. lia. Qed.

(* the calls that never touch snd_buf (hence no counter) *)
Lemma cl_send_buf k b k' r : send k b = Ok (k', r) -> snd_buf k' = snd_buf k.
Proof.
  unfold send. intros H.
  destruct (blen b =? 0); [inversion H; reflexivity|].
  destruct (if stream k =? 0 then Ok (Some (snd_queue k, b)) else stream_append k b) as [[[q1 b1]|]|w];
    [|inversion H; reflexivity|discriminate].
  cbv zeta in H.
  destruct (negb (stream k =? 0) && (blen b1 =? 0)); [inversion H; reflexivity|].
  destruct (frag_count (blen b1) (mss k) >? 255); [inversion H; reflexivity|].
  destruct (fragment _ _ _ _ _ _) as [segs|w]; [|discriminate].
  inversion H; reflexivity.
Qed.

Lemma cl_recv_same k n k' r d : recv k n = (k', r, d) ->
  snd_buf k' = snd_buf k /\ snd_queue k' = snd_queue k /\ fastresend k' = fastresend k /\
  rx_minrto k' = rx_minrto k.
Proof.
  unfold recv. cbv zeta. intros H.
  destruct (peeksize k <? 0); [inversion H; repeat split|].
  destruct (peeksize k >? n); [inversion H; repeat split|].
  destruct (pop_msg (rcv_queue k)) as [d0 rq].
  pose proof (cl_pre_do_move_ready (set_rcv_queue k rq)) as (_ & F1 & F2 & F3).
  assert (F0 : snd_buf (do_move_ready (set_rcv_queue k rq)) = snd_buf k)
    by (apply (do_move_ready_fields (set_rcv_queue k rq))).
  destruct (_ && _); inversion H; subst; ksimpl; repeat split; assumption.
Qed.

Lemma cl_set_mtu_same k m :
  snd_buf (fst (set_mtu k m)) = snd_buf k /\ snd_queue (fst (set_mtu k m)) = snd_queue k /\
  fastresend (fst (set_mtu k m)) = fastresend k /\ rx_minrto (fst (set_mtu k m)) = rx_minrto k.
Proof.
  unfold set_mtu. destruct ((m <=? c_IKCP_OVERHEAD) || (m >? c_mtuLimit)); [repeat split|].
  destruct (max_queued k >? m - c_IKCP_OVERHEAD); repeat split.
Qed.

Lemma cl_set_nodelay_buf k nd iv rs nc : snd_buf (set_nodelay k nd iv rs nc) = snd_buf k.
Proof. unfold set_nodelay. destruct (if nd >=? 0 then _ else _) as [ndv minrto]. reflexivity. Qed.

Lemma cl_quiet_ops k o k' x : step k o = Ok (k', x) ->
  match o with
  | OSend _ | ORecv _ | OCheck _ | OSetMtu _ | ONoDelay _ _ _ _ => snd_buf k' = snd_buf k
  | _ => True
  end.
Proof.
  destruct o as [b|n|d reg nd now|full now|now|now|m|nd iv rs nc]; cbn [step]; intros H; try exact I.
  - destruct (send k b) as [[k1 r]|w] eqn:E; [|discriminate]. inversion H; subst. exact (cl_send_buf _ _ _ _ E).
  - destruct (recv k n) as [[k1 r] d] eqn:E. inversion H; subst. apply (cl_recv_same _ _ _ _ _ E).
  - inversion H; subst. reflexivity.
  - pose proof (cl_set_mtu_same k m) as (F & _). destruct (set_mtu k m) as [k1 r]. inversion H; subst. exact F.
  - inversion H; subst. apply cl_set_nodelay_buf.
Qed.

(* ------------------------------------------------------------------ *)
(* 4. the clean history                                                *)
(* ------------------------------------------------------------------ *)
(* H2 at time `now`: every transmitted, still unacknowledged segment is younger than the
   minimum RTO (s_ts = the time of its last transmission). *)
Definition cl_fresh (k : kcp) (now : Z) : Prop :=
  Forall (fun s => s_acked s <> 1 -> s_xmit s <> 0 -> 0 <= itimediff now (s_ts s) < rx_minrto k) (snd_buf k).

(* H1 + H2 for one call made in state k.
   WHY A CLEAN PATH DELIVERS THEM.  Take a path that loses, duplicates and reorders nothing, a
   receiver that never discards for lack of window, one-way delay D, receiver flush interval I,
   2D + I < rx_minrto, and a sender clock that does not run backwards.
   H1 (cl_acks_in_order): the receiver gets the PUSH segments in sequence order, appends one
   (sn, ts) pair per PUSH to its acklist in arrival = sequence order and flushes the list in that
   order (flush_acks; pairs below rcv_nxt are merged into the last one, whose una field covers
   them); the path keeps the order.  So when the sender processes an ACK segment (sn, una) -
   AFTER it has applied una, which is the moment cl_in_order looks at - every number below sn
   has been acknowledged by an earlier ACK or is covered by una: sn names the oldest outstanding
   number, or one already removed.  (The condition is checked after parse_una/shrink_buf because
   of the merging: the one surviving ACK may name the NEWEST number of a batch.)
   H2 (cl_fresh): a segment transmitted at T0 reaches the receiver at T0 + D, its ack leaves
   within I and reaches the sender at T1 <= T0 + 2D + I < T0 + rx_minrto, where Input removes it
   from snd_buf or marks it acked.  At every call made while the segment is still outstanding the
   clock reads some now with T0 <= now <= T1, hence 0 <= now - T0 < rx_minrto.  The condition is
   asked for at the calls that may run a full flush (Input, Update, Flush(full)).
   NoDelay is not called (it changes rx_minrto and fastresend mid-connection). *)
Definition cl_op_ok (k : kcp) (o : op) : Prop :=
  match o with
  | ONoDelay _ _ _ _ => False
  | OInput d regular _ now =>
      cl_acks_in_order (S (length d / 24)) (mkInp k 0 false false) d regular /\ cl_fresh k now
  | OFlush full now => full = true -> cl_fresh k now
  | OUpdate now => cl_fresh k now
  | _ => True
  end.

Fixpoint clean_history (k : kcp) (ops : list op) : Prop :=
  match ops with
  | [] => True
  | o :: t => cl_op_ok k o /\ match step k o with Ok (k', _) => clean_history k' t | Panic _ => True end
  end.

Lemma cl_history_app : forall a b k, clean_history k (a ++ b) -> clean_history k a.
Proof.
  induction a as [|o t IH]; intros b k H; [exact I|].
  cbn [app clean_history] in *. destruct H as (H1 & H2). split; [exact H1|].
  destruct (step k o) as [[k1 x]|w]; [eapply IH; exact H2|exact I].
Qed.

(* ---- the invariant carried along a clean history ---- *)
(* m = rx_minrto: never transmitted, or transmitted once with the timer armed at ts + rto, rto >= m;
   the fast-acknowledgement counter is 0 *)
Definition cl_seg_ok (m : Z) (s : seg) : Prop :=
  s_fastack s = 0 /\
  (s_xmit s = 0 \/ (s_xmit s = 1 /\ s_resendts s = u32 (s_ts s + s_rto s) /\ m <= s_rto s <= 60000)).

Record cl_cinv (k : kcp) : Prop := mkCinv {
  CI_sq : Forall (fun s => s_fastack s = 0) (snd_queue k);
  CI_sb : Forall (cl_seg_ok (rx_minrto k)) (snd_buf k);
  CI_fr : - H32 <= fastresend k < H32      (* fastresend is an int32 *)
}.

(* a flush output: control segments, then data segments with distinct numbers, each of them a
   FIRST transmission *)
Definition cl_once (o : list bytes) : Prop :=
  exists Wc Wp, cl_wire o (Wc ++ Wp) /\ Forall (fun w => s_cmd w <> c_IKCP_CMD_PUSH) Wc /\
    Forall (fun w => s_cmd w = c_IKCP_CMD_PUSH /\ s_xmit w = 1) Wp /\ NoDup (map s_sn Wp).

Lemma cl_once_nil : cl_once [].
Proof.
  exists [], []. split; [exists []; split; reflexivity|]. split; [constructor|]. split; constructor.
Qed.

Lemma cl_hk_seg_ok m s s' : cl_hk s s' -> cl_seg_ok m s -> cl_seg_ok m s'.
Proof.
  intros (A1 & A2 & A3 & A4 & A5 & A6 & A7) (B1 & B2). unfold cl_seg_ok.
  rewrite A2, A3, A4, A5, A6. split; assumption.
Qed.

Lemma cl_pre_cinv k k' : cl_pre k k' -> cl_cinv k -> cl_cinv k'.
Proof.
  intros (Hsub & Fq & Ff & Fm) [C1 C2 C3]. constructor.
  - rewrite Fq. exact C1.
  - rewrite Fm. rewrite Forall_forall in *. intros s' Hs'. destruct (Hsub s' Hs') as (s & Hs & Hk).
    eapply cl_hk_seg_ok; [exact Hk|apply C2; exact Hs].
  - rewrite Ff. exact C3.
Qed.

Lemma cl_pre_fresh k k' now : cl_pre k k' -> cl_fresh k now -> cl_fresh k' now.
Proof.
  intros (Hsub & _ & _ & Fm) H. unfold cl_fresh in *. rewrite Fm. rewrite Forall_forall in *.
  intros s' Hs' Ha Hx. destruct (Hsub s' Hs') as (s & Hs & (A1 & A2 & A3 & A4 & A5 & A6 & A7)).
  rewrite A2. apply (H s Hs); [|rewrite <- A4; exact Hx].
  destruct A7 as [A7|A7]; [rewrite <- A7; exact Ha|contradiction].
Qed.

Lemma cl_same_cinv k k' :
  snd_buf k' = snd_buf k -> snd_queue k' = snd_queue k -> fastresend k' = fastresend k ->
  rx_minrto k' = rx_minrto k -> cl_cinv k -> cl_cinv k'.
Proof. intros E1 E2 E3 E4. apply cl_pre_cinv. apply cl_pre_frame; assumption. Qed.

Lemma cl_same_fresh k k' now :
  snd_buf k' = snd_buf k -> rx_minrto k' = rx_minrto k -> cl_fresh k now -> cl_fresh k' now.
Proof. intros E1 E2. unfold cl_fresh. rewrite E1, E2. auto. Qed.

(* ---- Send ---- *)
Lemma cl_fragment_fa : forall fuel count i m st b segs,
  fragment fuel count i m st b = Ok segs -> Forall (fun s => s_fastack s = 0) segs.
Proof.
  induction fuel as [|f IH]; intros count i m st b segs H; cbn [fragment] in H.
  - inversion H; constructor.
  - destruct (i >=? count); [inversion H; constructor|].
    cbv zeta in H. destruct (Z.min (blen b) m >? c_mtuLimit); [discriminate|].
    destruct (fragment f count (i + 1) m st (drop (Z.min (blen b) m) b)) as [l|w] eqn:E; [|discriminate].
    inversion H; subst. constructor; [reflexivity|]. eapply IH; exact E.
Qed.

Lemma cl_stream_append_fa k b q1 b1 :
  stream_append k b = Ok (Some (q1, b1)) ->
  Forall (fun s => s_fastack s = 0) (snd_queue k) -> Forall (fun s => s_fastack s = 0) q1.
Proof.
  unfold stream_append. intros H Hq.
  destruct (rev (snd_queue k)) as [|last before] eqn:Er; [inversion H; subst; exact Hq|].
  destruct (blen (s_data last) <? mss k); [|inversion H; subst; exact Hq].
  cbv zeta in H.
  destruct (frag_count _ _ >? 255); [discriminate|].
  destruct (_ >? c_mtuLimit); [discriminate|].
  inversion H; subst q1 b1. clear H.
  assert (Eq : snd_queue k = rev before ++ [last]).
  { rewrite <- (rev_involutive (snd_queue k)), Er. reflexivity. }
  rewrite Eq in Hq. apply Forall_app in Hq. destruct Hq as (H1 & H2).
  apply Forall_app. split; [exact H1|]. constructor; [|constructor].
  exact (Forall_inv H2).
Qed.

Lemma cl_send_cinv k b k' r : send k b = Ok (k', r) -> cl_cinv k -> cl_cinv k'.
Proof.
  intros H [C1 C2 C3]. pose proof (cl_send_buf _ _ _ _ H) as Eb.
  unfold send in H.
  destruct (blen b =? 0); [inversion H; subst; constructor; assumption|].
  destruct (if stream k =? 0 then Ok (Some (snd_queue k, b)) else stream_append k b) as [[[q1 b1]|]|w] eqn:Ep;
    [|inversion H; subst; constructor; assumption|discriminate].
  assert (Hq1 : Forall (fun s => s_fastack s = 0) q1).
  { destruct (stream k =? 0); [inversion Ep; subst; exact C1|].
    eapply cl_stream_append_fa; eassumption. }
  cbv zeta in H.
  destruct (negb (stream k =? 0) && (blen b1 =? 0)); [inversion H; subst; constructor; assumption|].
  destruct (frag_count (blen b1) (mss k) >? 255); [inversion H; subst; constructor; assumption|].
  destruct (fragment _ _ _ _ _ _) as [segs|w] eqn:Ef; [|discriminate].
  inversion H; subst. constructor; ksimpl; [|assumption|assumption].
  apply Forall_app. split; [exact Hq1|]. eapply cl_fragment_fa; exact Ef.
Qed.

(* ---- flush ---- *)
(* what the buffer entries satisfy when phase 5 starts *)
Definition cl_entry_ok (m now : Z) (s : seg) : Prop :=
  cl_seg_ok m s /\ s_cmd s = c_IKCP_CMD_PUSH /\
  (s_acked s <> 1 -> s_xmit s <> 0 -> 0 <= itimediff now (s_ts s) < m).

Lemma cl_segs_clean m rxrto nd resent ns now h :
  m <= rxrto <= 60000 -> resent > 0 ->
  forall l l' W, cl_segs (cl_step rxrto nd resent ns now h) l l' W ->
  Forall (cl_entry_ok m now) l ->
  Forall (cl_seg_ok m) l' /\ Forall (fun w => s_cmd w = c_IKCP_CMD_PUSH /\ s_xmit w = 1) W.
Proof.
  intros Hr Hres l l' W H.
  induction H as [|s s' t t' W Hs Ht IH|s s' t t' W Hs Ht IH]; intros Hl.
  - split; constructor.
  - inversion Hl as [|x y Hx Hy]; subst x y. destruct (IH Hy) as (I1 & I2).
    cbn beta iota in Hs. destruct Hs as (E & _). subst s'.
    split; [constructor; [apply Hx|exact I1]|exact I2].
  - inversion Hl as [|x y Hx Hy]; subst x y. destruct (IH Hy) as (I1 & I2).
    cbn beta iota in Hs. destruct Hs as (Ha & rto & fa & Es & Hc).
    destruct Hx as ((F0 & Fx) & Hcmd & Hfr).
    destruct (cl_sent_fields h now s rto (u32 (now + rto)) fa) as (_ & G2 & G3 & G4 & G5 & G6 & _ & G8).
    rewrite <- Es in G2, G3, G4, G5, G6, G8.
    assert (Hfirst : s_xmit s = 0 /\ rto = rxrto /\ fa = s_fastack s).
    { destruct Hc as [Hc|[(Hx0 & Hfe & _)|(Hx0 & _ & _ & Hto & _)]]; [exact Hc|exfalso|exfalso].
      - destruct Hfe as [(Q1 & _)|(Q1 & _)]; lia.
      - destruct Fx as [Fx|(Fx1 & Fx2 & Fx3)]; [contradiction|].
        exact (cl_no_timeout m now s Fx2 Fx3 (Hfr Ha Hx0) Hto). }
    destruct Hfirst as (Hx0 & Er & Ef).
    assert (Hx1 : s_xmit s' = 1) by (rewrite G6, Hx0; reflexivity).
    split.
    + constructor; [|exact I1]. split; [rewrite G5, Ef; exact F0|]. right.
      split; [exact Hx1|]. split; [rewrite G4, G2, G3; reflexivity|]. rewrite G3, Er. exact Hr.
    + constructor; [|exact I2]. split; [rewrite G8; exact Hcmd|exact Hx1].
Qed.

Lemma cl_adm_entry_ok m now pre adm :
  Forall2 cl_adm pre adm -> Forall (fun s => s_xmit s = 0 /\ s_acked s = 0) pre ->
  Forall (fun s => s_fastack s = 0) pre -> Forall (cl_entry_ok m now) adm.
Proof.
  intros HF. induction HF as [|s s' t t' Hr Ht IH]; intros H1 H2; [constructor|].
  inversion H1 as [|x y (X1 & X2) Y1]; subst x y. inversion H2 as [|x y X3 Y2]; subst x y.
  constructor; [|apply IH; assumption].
  destruct Hr as (A1 & A2 & A3 & A4 & A5 & A6 & A7).
  split; [split; [rewrite A2; exact X3|left; rewrite A1; exact X1]|].
  split; [exact A7|]. intros _ Hx. rewrite A1 in Hx. contradiction.
Qed.

Lemma cl_flush_clean k ft now k' nx o :
  inv k -> rto_inv k -> cl_cinv k -> (ft = FLUSH_FULL -> cl_fresh k now) ->
  flush k ft now = Ok (k', nx, o) -> cl_cinv k' /\ cl_once o.
Proof.
  intros Hinv Hrto [C1 C2 C3] Hfresh H.
  assert (Hinv' : inv k').
  { destruct (flush_ok k ft now Hinv) as (k2 & nx2 & o2 & Hfl & Hi2 & _). rewrite Hfl in H.
    inversion H; subst. exact Hi2. }
  destruct (cl_flush_spec _ _ _ _ _ _ H)
    as (h1 & sq & sb & nxt & ns & Wc & Wp & E4 & Hfull & Hnot & Hw & Hc & Fq & Fn & Fu & Ff & Fm & Fr & Fd).
  destruct (cl_ph4_spec _ _ _ _ _ _ E4) as (pre & adm & Esq & Esb & Ens & HF & Hadm).
  assert (Hsq : Forall (fun s => s_fastack s = 0) sq).
  { rewrite Esq in C1. apply Forall_app in C1. apply C1. }
  destruct (Z.eq_dec ft FLUSH_FULL) as [Hf|Hn].
  - specialize (Hfull Hf). specialize (Hfresh Hf).
    assert (Hentries : Forall (cl_entry_ok (rx_minrto k) now) sb).
    { rewrite Esb. apply Forall_app. split.
      - pose proof (I_sb_push _ Hinv) as Hp. unfold cl_fresh in Hfresh. rewrite Forall_forall in *.
        intros s Hs. split; [apply C2; exact Hs|]. split; [apply (Hp s Hs)|apply Hfresh; exact Hs].
      - pose proof (I_sq_fresh _ Hinv) as Hfq. rewrite Esq in Hfq, C1.
        apply Forall_app in Hfq. apply Forall_app in C1.
        exact (cl_adm_entry_ok _ _ _ _ HF (proj1 Hfq) (proj1 C1)). }
    assert (Hr : rx_minrto k <= rx_rto k <= 60000).
    { pose proof (I_rto_max _ Hinv). unfold rto_inv, c_IKCP_RTO_MAX in *. lia. }
    destruct (cl_segs_clean _ _ _ _ _ _ _ Hr (cl_resent_pos k C3) _ _ _ Hfull Hentries) as (S1 & S2).
    split.
    + constructor; [rewrite Fq; exact Hsq|rewrite Fm; exact S1|rewrite Ff; exact C3].
    + exists Wc, Wp. split; [exact Hw|]. split; [exact Hc|]. split; [exact S2|].
      apply (cl_segs_nodup _ s_sn _ _ _ Hfull).
      apply (cl_contig_nodup _ (snd_una k')); [exact (I_una_u32 _ Hinv')|exact (I_sb_contig _ Hinv')|].
      pose proof (I_sb_wnd _ Hinv'). pose proof (I_snd_wnd _ Hinv'). unfold W32. lia.
  - destruct (Hnot Hn) as (Hs & Hwp). specialize (Hadm Hn). subst adm Wp. rewrite app_nil_r in Esb.
    split.
    + constructor; [rewrite Fq; exact Hsq|rewrite Fm, Hs, Esb; exact C2|rewrite Ff; exact C3].
    + exists Wc, []. split; [exact Hw|]. split; [exact Hc|]. split; constructor.
Qed.

(* ---- Update ---- *)
Lemma cl_timer_facts k st tsf upd now :
  inv k -> rto_inv k -> cl_cinv k -> cl_fresh k now ->
  inv (set_timer k st tsf upd) /\ rto_inv (set_timer k st tsf upd) /\ cl_cinv (set_timer k st tsf upd) /\
  cl_fresh (set_timer k st tsf upd) now.
Proof.
  intros Hi Hr Hc Hf. split; [apply inv_set_timer; exact Hi|]. split; [exact Hr|].
  split; [eapply cl_same_cinv; [| | | |exact Hc]; reflexivity|].
  eapply cl_same_fresh; [| |exact Hf]; reflexivity.
Qed.

Lemma cl_upd_tail_clean k slap now k' o :
  inv k -> rto_inv k -> cl_cinv k -> cl_fresh k now ->
  lv_upd_tail k slap now = Ok (k', o) -> cl_cinv k' /\ cl_once o.
Proof.
  intros Hi Hr Hc Hf H. unfold lv_upd_tail in H.
  destruct (slap >=? 0); [|inversion H; subst; split; [exact Hc|exact cl_once_nil]].
  cbv zeta in H.
  match type of H with context [flush (set_timer k ?a ?b ?c) FLUSH_FULL now] =>
    destruct (cl_timer_facts k a b c now Hi Hr Hc Hf) as (Hi1 & Hr1 & Hc1 & Hf1);
    destruct (flush (set_timer k a b c) FLUSH_FULL now) as [[[k2 nx] o2]|w] eqn:Ef; [|discriminate] end.
  inversion H; subst k' o.
  eapply cl_flush_clean; [exact Hi1|exact Hr1|exact Hc1|intros _; exact Hf1|exact Ef].
Qed.

(* ---- one call ---- *)
Lemma cl_step_clean k o k' x :
  inv k -> rto_inv k -> cl_cinv k -> op_ok o -> cl_op_ok k o -> step k o = Ok (k', x) ->
  inv k' /\ rto_inv k' /\ cl_cinv k' /\ cl_once (o_dgrams x).
Proof.
  intros Hi Hr Hc Hop Hcl Hs.
  assert (Hbase : inv k' /\ rto_inv k').
  { destruct (step_ok_full k o Hi Hop) as (k2 & x2 & Hs2 & Hi2 & _ & Hk).
    rewrite Hs2 in Hs. inversion Hs; subst k2 x2.
    split; [exact Hi2|]. apply Hk; [|exact Hr]. destruct o; try exact I. destruct Hcl. }
  destruct Hbase as (Hi' & Hr'). split; [exact Hi'|]. split; [exact Hr'|].
  destruct o as [b|n|d reg nd now|full now|now|now|m|nd iv rs nc]; cbn [step] in Hs; cbn [cl_op_ok op_ok] in *.
  - destruct (send k b) as [[k1 r]|w] eqn:E; [|discriminate]. inversion Hs; subst k' x. cbn [o_dgrams].
    split; [exact (cl_send_cinv _ _ _ _ E Hc)|exact cl_once_nil].
  - destruct (recv k n) as [[k1 r] d] eqn:E. inversion Hs; subst k' x. cbn [o_dgrams].
    destruct (cl_recv_same _ _ _ _ _ E) as (F1 & F2 & F3 & F4).
    split; [exact (cl_same_cinv _ _ F1 F2 F3 F4 Hc)|exact cl_once_nil].
  - destruct Hcl as (Hord & Hfr). unfold input in Hs.
    destruct (input_pre k d reg nd now) as [[[k1 c] fr]|w] eqn:E; [|discriminate].
    pose proof (cl_input_pre_pre _ _ _ _ _ _ _ _ Hi Hop E Hord) as Hpre.
    pose proof (cl_pre_cinv _ _ Hpre Hc) as Hc1.
    pose proof (cl_pre_fresh _ _ _ Hpre Hfr) as Hf1.
    destruct (input_pre_ok k d reg nd now Hi Hop) as (k2 & r2 & fr2 & E2 & Hi1 & Hr1 & _).
    rewrite E in E2. inversion E2; subst k2 r2 fr2. specialize (Hr1 Hr).
    destruct fr.
    + inversion Hs; subst k' x. cbn [o_dgrams]. split; [exact Hc1|exact cl_once_nil].
    + destruct (flush k1 FLUSH_ACKONLY now) as [[[k2 nx] o]|w] eqn:Ef; [|discriminate].
      inversion Hs; subst k' x. cbn [o_dgrams].
      apply (cl_flush_clean k1 FLUSH_ACKONLY now k2 nx o Hi1 Hr1 Hc1); [intros Hft; vm_compute in Hft; discriminate|exact Ef].
    + destruct (flush k1 FLUSH_FULL now) as [[[k2 nx] o]|w] eqn:Ef; [|discriminate].
      inversion Hs; subst k' x. cbn [o_dgrams].
      eapply cl_flush_clean; [exact Hi1|exact Hr1|exact Hc1|intros _; exact Hf1|exact Ef].
  - destruct (flush k _ now) as [[[k2 nx] o]|w] eqn:Ef; [|discriminate].
    inversion Hs; subst k' x. cbn [o_dgrams].
    apply (cl_flush_clean k (if full then FLUSH_FULL else FLUSH_ACKONLY) now k2 nx o Hi Hr Hc); [|exact Ef].
    intros Hft. apply Hcl. destruct full; [reflexivity|vm_compute in Hft; discriminate].
  - destruct (update k now) as [[k2 o]|w] eqn:Eu; [|discriminate]. inversion Hs; subst k' x. cbn [o_dgrams].
    rewrite lv_update_unfold in Eu. cbv zeta in Eu.
    set (k1 := if updated k =? 0 then set_timer k (state k) now 1 else k) in *.
    assert (H1 : inv k1 /\ rto_inv k1 /\ cl_cinv k1 /\ cl_fresh k1 now).
    { unfold k1. destruct (updated k =? 0); [apply cl_timer_facts; assumption|auto]. }
    destruct H1 as (Hi1 & Hr1 & Hc1 & Hf1).
    destruct (_ || _) in Eu.
    + destruct (cl_timer_facts k1 (state k1) now (updated k1) now Hi1 Hr1 Hc1 Hf1) as (Hi2 & Hr2 & Hc2 & Hf2).
      eapply cl_upd_tail_clean; [exact Hi2|exact Hr2|exact Hc2|exact Hf2|exact Eu].
    + eapply cl_upd_tail_clean; [exact Hi1|exact Hr1|exact Hc1|exact Hf1|exact Eu].
  - inversion Hs; subst k' x. cbn [o_dgrams]. split; [exact Hc|exact cl_once_nil].
  - pose proof (cl_set_mtu_same k m) as (F1 & F2 & F3 & F4).
    destruct (set_mtu k m) as [k1 r]. inversion Hs; subst k' x. cbn [o_dgrams fst] in *.
    split; [exact (cl_same_cinv _ _ F1 F2 F3 F4 Hc)|exact cl_once_nil].
  - destruct Hcl.
Qed.

(* ---- whole histories ---- *)
Lemma cl_run_clean : forall ops k k' outs,
  inv k -> rto_inv k -> cl_cinv k -> Forall op_ok ops -> clean_history k ops ->
  run k ops = Some (k', outs) ->
  inv k' /\ rto_inv k' /\ cl_cinv k' /\ Forall (fun x => cl_once (o_dgrams x)) outs.
Proof.
  induction ops as [|o t IH]; intros k k' outs Hi Hr Hc Hops Hcl Hrun; cbn [run] in Hrun.
  - inversion Hrun; subst. auto.
  - inversion Hops as [|? ? Ho Ht]; subst. cbn [clean_history] in Hcl. destruct Hcl as (Hco & Hct).
    destruct (step k o) as [[k1 x]|w] eqn:Es; [|discriminate].
    destruct (run k1 t) as [[k2 xs]|] eqn:Er; [|discriminate].
    inversion Hrun; subst k' outs.
    destruct (cl_step_clean _ _ _ _ Hi Hr Hc Ho Hco Es) as (Hi1 & Hr1 & Hc1 & Ho1).
    destruct (IH _ _ _ Hi1 Hr1 Hc1 Ht Hct Er) as (Hi2 & Hr2 & Hc2 & Ho2).
    split; [exact Hi2|]. split; [exact Hr2|]. split; [exact Hc2|]. constructor; assumption.
Qed.

Lemma cl_seg_ok_xmit m s : cl_seg_ok m s -> s_xmit s <= 1 /\ s_fastack s = 0.
Proof. intros (F & [X|(X & _)]); split; try exact F; lia. Qed.

(* (4) the clean sender *)
Theorem cl_clean_sender : forall ops k k' outs,
  inv k -> rto_inv k -> cl_cinv k -> Forall op_ok ops -> clean_history k ops ->
  run k ops = Some (k', outs) ->
  Forall (fun s => s_xmit s <= 1 /\ s_fastack s = 0) (snd_buf k') /\
  Forall (fun x => cl_once (o_dgrams x)) outs.
Proof.
  intros ops k k' outs Hi Hr Hc Hops Hcl Hrun.
  destruct (cl_run_clean _ _ _ _ Hi Hr Hc Hops Hcl Hrun) as (_ & _ & [_ C2 _] & Ho).
  split; [|exact Ho]. eapply Forall_impl; [|exact C2]. intros s. apply cl_seg_ok_xmit.
Qed.

(* ... in every state the history passes through *)
Lemma cl_run_app : forall a b k k' outs, run k (a ++ b) = Some (k', outs) ->
  exists k1 o1, run k a = Some (k1, o1).
Proof.
  induction a as [|o t IH]; intros b k k' outs H; [exists k, []; reflexivity|].
  cbn [app run] in *. destruct (step k o) as [[k1 x]|w]; [|discriminate].
  destruct (run k1 (t ++ b)) as [[k2 xs]|] eqn:E; [|discriminate].
  destruct (IH _ _ _ _ E) as (k3 & o3 & E3). rewrite E3. eexists _, _. reflexivity.
Qed.

Theorem cl_clean_sender_always : forall ops1 ops2 k k' outs,
  inv k -> rto_inv k -> cl_cinv k -> Forall op_ok (ops1 ++ ops2) -> clean_history k (ops1 ++ ops2) ->
  run k (ops1 ++ ops2) = Some (k', outs) ->
  exists k1 outs1, run k ops1 = Some (k1, outs1) /\
    Forall (fun s => s_xmit s <= 1 /\ s_fastack s = 0) (snd_buf k1) /\
    Forall (fun x => cl_once (o_dgrams x)) outs1.
Proof.
  intros ops1 ops2 k k' outs Hi Hr Hc Hops Hcl Hrun.
  destruct (cl_run_app _ _ _ _ _ Hrun) as (k1 & o1 & E1). exists k1, o1. split; [exact E1|].
  apply Forall_app in Hops.
  exact (cl_clean_sender _ _ _ _ Hi Hr Hc (proj1 Hops) (cl_history_app _ _ _ Hcl) E1).
Qed.

(* the fresh endpoint satisfies the side conditions *)
Lemma cl_new_cinv cv : cl_cinv (kcp_new cv).
Proof. constructor; unfold kcp_new; cbn [snd_queue snd_buf fastresend]; [constructor|constructor|unfold H32; lia]. Qed.

(* (1, wire) the data segments a full flush puts on the wire are exactly, in order, the buffer
   entries it transmitted; adm = the entries admitted by this flush *)
Definition cl_tx (resent newsegs now : Z) (s s' : seg) (sent : bool) : Prop :=
  cl_change resent newsegs now s s' /\
  (if sent then s_acked s <> 1 /\ s_xmit s' = u32 (s_xmit s + 1) else s' = s).

Lemma cl_flush_wire k now k' nx o :
  flush k FLUSH_FULL now = Ok (k', nx, o) ->
  exists adm Wc Wp,
    cl_wire o (Wc ++ Wp) /\ Forall (fun w => s_cmd w <> c_IKCP_CMD_PUSH) Wc /\
    cl_segs (cl_tx (lv_resent k) (qlen adm) now) (snd_buf k ++ adm) (snd_buf k') Wp.
Proof.
  intros H.
  destruct (cl_flush_spec _ _ _ _ _ _ H) as (h1 & sq & sb & nxt & ns & Wc & Wp & E4 & Hfull & _ & Hw & Hc & _).
  destruct (cl_ph4_spec _ _ _ _ _ _ E4) as (pre & adm & _ & Esb & Ens & _).
  specialize (Hfull eq_refl). rewrite Esb, Ens in Hfull.
  exists adm, Wc, Wp. split; [exact Hw|]. split; [exact Hc|].
  eapply cl_segs_impl; [|exact Hfull]. intros s s' b Hb. split; [eapply cl_step_change; exact Hb|].
  destruct b; cbn beta iota in *.
  - destruct Hb as (Ha & rto & fa & Es & _). split; [exact Ha|]. subst s'. reflexivity.
  - apply Hb.
Qed.

(* ------------------------------------------------------------------ *)
(* 5. a decision procedure for clean_history (used by the Example)     *)
(* ------------------------------------------------------------------ *)
Definition cl_fresh_b (k : kcp) (now : Z) : bool :=
  forallb (fun s => (s_acked s =? 1) || (s_xmit s =? 0) ||
                    ((0 <=? itimediff now (s_ts s)) && (itimediff now (s_ts s) <? rx_minrto k))) (snd_buf k).

Definition cl_in_order_b (k : kcp) (sn : Z) : bool :=
  forallb (fun e => negb (itimediff sn (s_sn e) >? 0) || (s_acked e =? 1)) (snd_buf k).

Fixpoint cl_acks_in_order_b (fuel : nat) (a : inp) (data : bytes) (regular : bool) : bool :=
  match fuel with
  | O => true
  | S f =>
      if blen data <? c_IKCP_OVERHEAD then true
      else match input_seg a data regular with
           | inl (Ok (a', rest)) =>
               (negb (s_cmd (lv_hdr_of data) =? c_IKCP_CMD_ACK) ||
                cl_in_order_b (lv_pre a (lv_hdr_of data) regular) (s_sn (lv_hdr_of data))) &&
               cl_acks_in_order_b f a' rest regular
           | _ => true
           end
  end.

Definition cl_op_ok_b (k : kcp) (o : op) : bool :=
  match o with
  | ONoDelay _ _ _ _ => false
  | OInput d regular _ now =>
      cl_acks_in_order_b (S (length d / 24)) (mkInp k 0 false false) d regular && cl_fresh_b k now
  | OFlush full now => negb full || cl_fresh_b k now
  | OUpdate now => cl_fresh_b k now
  | _ => true
  end.

Fixpoint clean_history_b (k : kcp) (ops : list op) : bool :=
  match ops with
  | [] => true
  | o :: t => cl_op_ok_b k o && match step k o with Ok (k', _) => clean_history_b k' t | Panic _ => true end
  end.

Lemma cl_fresh_b_sound k now : cl_fresh_b k now = true -> cl_fresh k now.
Proof.
  unfold cl_fresh_b, cl_fresh. rewrite forallb_forall, Forall_forall. intros H s Hs Ha Hx.
  specialize (H s Hs). apply orb_true_iff in H. destruct H as [H|H].
  - apply orb_true_iff in H. destruct H as [H|H]; lv_b2z; contradiction.
  - apply andb_true_iff in H. destruct H as (H1 & H2). lv_b2z. lia.
Qed.

Lemma cl_in_order_b_sound k sn : cl_in_order_b k sn = true -> cl_in_order k sn.
Proof.
  unfold cl_in_order_b, cl_in_order. rewrite forallb_forall, Forall_forall. intros H e He Hgt.
  specialize (H e He). apply orb_true_iff in H. destruct H as [H|H]; lv_b2z; [|exact H].
  apply negb_true_iff in H. lv_b2z. lia.
Qed.

Lemma cl_acks_in_order_b_sound regular : forall fuel a data,
  cl_acks_in_order_b fuel a data regular = true -> cl_acks_in_order fuel a data regular.
Proof.
  induction fuel as [|f IH]; intros a data H; cbn [cl_acks_in_order_b cl_acks_in_order] in *; [exact I|].
  destruct (blen data <? c_IKCP_OVERHEAD); [exact I|].
  destruct (input_seg a data regular) as [[[a' rest]|w]|c]; try exact I.
  apply andb_true_iff in H. destruct H as (H1 & H2). split; [|apply IH; exact H2].
  intros Hc. apply cl_in_order_b_sound. apply orb_true_iff in H1. destruct H1 as [H1|H1]; [|exact H1].
  apply negb_true_iff in H1. lv_b2z. contradiction.
Qed.

Lemma cl_op_ok_b_sound k o : cl_op_ok_b k o = true -> cl_op_ok k o.
Proof.
  destruct o as [b|n|d reg nd now|full now|now|now|m|nd iv rs nc]; cbn [cl_op_ok_b cl_op_ok]; intros H; try exact I.
  - apply andb_true_iff in H. destruct H as (H1 & H2).
    split; [apply cl_acks_in_order_b_sound; exact H1|apply cl_fresh_b_sound; exact H2].
  - intros Hf. subst full. cbn [negb orb] in H. apply cl_fresh_b_sound. exact H.
  - apply cl_fresh_b_sound. exact H.
  - discriminate.
Qed.

Lemma clean_history_b_sound : forall ops k, clean_history_b k ops = true -> clean_history k ops.
Proof.
  induction ops as [|o t IH]; intros k H; cbn [clean_history_b clean_history] in *; [exact I|].
  apply andb_true_iff in H. destruct H as (H1 & H2). split; [apply cl_op_ok_b_sound; exact H1|].
  destruct (step k o) as [[k1 x]|w]; [apply IH; exact H2|exact I].
Qed.
