(* Input up to (not including) the flush it may request: total on arbitrary bytes,
   keeps the invariant, accounts for the pending acks. *)
From Coq Require Import ZArith List Bool Lia.
From KV.Base Require Import Consts Word WordLemmas.
From KV.Kcp Require Import Kcp Step InvInputBase.
Import ListNotations.
Local Open Scope Z_scope.

Ltac Zify.zify_post_hook ::= Z.div_mod_to_equations.

(* ------------------------------------------------------------------ *)
(* sender side                                                         *)
(* ------------------------------------------------------------------ *)
Lemma ii_set_rmt_wnd_ok b k w :
  ii_invb b k -> 0 <= w < 65536 -> ii_invb b (set_rmt_wnd k w) /\ ii_same k (set_rmt_wnd k w).
Proof.
  intros H Hw. split; [|repeat split].
  unfold set_rmt_wnd. apply ii_fr_cc; [exact H|exact Hw|exact (B_cwnd _ _ H)].
Qed.

Lemma ii_parse_una_ok b k una : ii_invb b k ->
  exists b', ii_invb b' (fst (parse_una k una)) /\ ii_same k (fst (parse_una k una)).
Proof.
  intros H. unfold parse_una.
  destruct (ii_una_walk_ok _ _ _ _ una _ _ (ii_snd_ok_of_invb _ _ H)) as (b' & Hs).
  destruct (una_walk una (snd_buf k)) as [l c] eqn:E. cbn [fst] in *.
  exists b'. split; [exact (ii_fr_snd_ok _ _ _ _ H Hs)|]. repeat split.
Qed.

Lemma ii_shrink_buf_ok b k : ii_invb b k -> inv (shrink_buf k) /\ ii_same k (shrink_buf k).
Proof.
  intros H. unfold shrink_buf. cbv zeta.
  destruct (ii_drop_acked_ok _ _ _ _ _ _ (ii_snd_ok_of_invb _ _ H)) as (b' & Hs).
  change (snd_buf (set_snd_buf k (drop_acked (snd_buf k)))) with (drop_acked (snd_buf k)).
  pose proof (ii_fr_snd_ok _ _ _ _ H Hs) as Hk.
  destruct (drop_acked (snd_buf k)) as [|s t] eqn:E.
  - split; [|repeat split].
    apply ii_inv_of_invb with b'; [apply ii_fr_snd_una; exact Hk|].
    change (snd_nxt k = b').
    destruct Hs as (_ & _ & Hn & _ & Hu). rewrite Hn.
    change (qlen []) with 0. rewrite Z.add_0_r. apply u32_id. exact Hu.
  - split; [|repeat split].
    apply ii_inv_of_invb with b'; [apply ii_fr_snd_una; exact Hk|].
    change (s_sn s = b').
    destruct Hs as (_ & Hc & _). exact (proj1 Hc).
Qed.

Lemma ii_parse_ack_ok b k sn :
  ii_invb b k -> ii_invb b (parse_ack k sn) /\ ii_same k (parse_ack k sn).
Proof.
  intros H. unfold parse_ack.
  destruct ((itimediff sn (snd_una k) <? 0) || (itimediff sn (snd_nxt k) >=? 0)) eqn:E;
    [split; [exact H|apply ii_same_refl]|].
  split; [|repeat split].
  apply ii_fr_snd_ok with b; [exact H|].
  apply ii_sim_snd_ok with (snd_buf k); [apply ii_ack_walk_sim|apply ii_snd_ok_of_invb; exact H].
Qed.

Lemma ii_parse_fastack_ok b k sn ts :
  ii_invb b k -> ii_invb b (fst (parse_fastack k sn ts)) /\ ii_same k (fst (parse_fastack k sn ts)).
Proof.
  intros H. unfold parse_fastack.
  destruct ((itimediff sn (snd_una k) <? 0) || (itimediff sn (snd_nxt k) >=? 0)) eqn:E;
    [split; [exact H|apply ii_same_refl]|].
  pose proof (ii_fastack_walk_sim sn ts (fastresend k) (snd_buf k)) as Hsim.
  destruct (fastack_walk sn ts (fastresend k) (snd_buf k)) as [l f] eqn:Ef. cbn [fst] in *.
  split; [|repeat split].
  apply ii_fr_snd_ok with b; [exact H|].
  apply ii_sim_snd_ok with (snd_buf k); [exact Hsim|apply ii_snd_ok_of_invb; exact H].
Qed.

(* ------------------------------------------------------------------ *)
(* receive side                                                        *)
(* ------------------------------------------------------------------ *)
Definition ii_keep (b : Z) (k k' : kcp) : Prop :=
  ii_invb b k' /\ ii_same k k' /\ snd_una k' = snd_una k.

Lemma ii_rcv_ok_of_invb b k :
  ii_invb b k -> ii_rcv_ok (rcv_wnd k) (rcv_nxt k) (rcv_queue k) (rcv_buf k).
Proof.
  intros H. unfold ii_rcv_ok.
  split; [exact (B_rq_wnd _ _ H)|]. split; [exact (B_rb_sorted _ _ H)|].
  split; [exact (B_rq_len _ _ H)|]. split; [exact (B_rb_len _ _ H)|exact (B_rnxt_u32 _ _ H)].
Qed.

Lemma ii_do_move_ready_ok b k : ii_invb b k -> ii_keep b k (do_move_ready k).
Proof.
  intros H. unfold do_move_ready.
  destruct (move_ready (rcv_buf k) (rcv_queue k) (rcv_nxt k) (rcv_wnd k)) as [[rb rq] rn] eqn:E.
  pose proof (ii_move_ready_ok _ _ _ _ _ _ _ (ii_rcv_ok_of_invb _ _ H) E) as (H1 & H2 & H3 & H4 & H5).
  split; [|repeat split].
  apply ii_fr_rcv; assumption.
Qed.

Lemma ii_parse_data_ok b k s :
  ii_invb b k -> is_u32 (s_sn s) -> seg_len s <= c_mtuLimit ->
  exists k' f, parse_data k s = Ok (k', f) /\ ii_keep b k k'.
Proof.
  intros H Hu Hl. unfold parse_data. cbv zeta.
  destruct ((itimediff (s_sn s) (u32 (rcv_nxt k + rcv_wnd k)) >=? 0)
            || (itimediff (s_sn s) (rcv_nxt k) <? 0)) eqn:Ew.
  - exists k, true. split; [reflexivity|]. split; [exact H|]. split; [apply ii_same_refl|reflexivity].
  - apply orb_false_elim in Ew. destruct Ew as [Ew1 Ew2].
    assert (Hw1 : itimediff (s_sn s) (u32 (rcv_nxt k + rcv_wnd k)) < 0).
    { destruct (Z.geb_spec (itimediff (s_sn s) (u32 (rcv_nxt k + rcv_wnd k))) 0) as [G|G];
        [discriminate|exact G]. }
    apply Z.ltb_ge in Ew2.
    pose proof (ii_in_window _ _ _ (B_rcv_wnd _ _ H) Hw1 Ew2) as Hw.
    destruct (has_sn (s_sn s) (rcv_buf k)) eqn:Eh.
    + exists (do_move_ready k), true. split; [reflexivity|]. apply ii_do_move_ready_ok. exact H.
    + destruct (blen (s_data s) >? c_mtuLimit) eqn:Eb.
      * apply Z.gtb_lt in Eb. unfold seg_len in Hl. lia.
      * eexists; eexists. split; [reflexivity|].
        assert (Hk : ii_invb b (set_rcv_buf k (insert_seg s (rcv_buf k)))).
        { apply ii_fr_rcv_buf; [exact H| |].
          - apply ii_insert_sorted; [exact Hu|lia|lia|exact Eh|exact (B_rb_sorted _ _ H)].
          - apply ii_insert_len; [exact Hl|exact (B_rb_len _ _ H)]. }
        destruct (ii_do_move_ready_ok _ _ Hk) as (K1 & K2 & K3).
        split; [exact K1|]. split; [|exact K3].
        apply ii_same_trans with (2 := K2). repeat split.
Qed.

(* ------------------------------------------------------------------ *)
(* one segment                                                         *)
(* ------------------------------------------------------------------ *)
Lemma ii_alen_snoc l x : alen (l ++ [x]) = alen l + 1.
Proof. unfold alen. rewrite app_length. cbn [length]. lia. Qed.

Lemma ii_input_seg_ok a data regular :
  inv (i_k a) -> is_byte_list data -> c_IKCP_OVERHEAD <= blen data ->
  match input_seg a data regular with
  | inr code => code <> 0
  | inl (Panic _) => False
  | inl (Ok (a', rest)) =>
      inv (i_k a') /\ ii_fix (i_k a) (i_k a') /\
      alen (acklist (i_k a')) <= alen (acklist (i_k a)) + 1 /\
      is_byte_list rest /\ blen rest + c_IKCP_OVERHEAD <= blen data
  end.
Proof.
  intros Hinv Hd Hlen. unfold input_seg. cbv zeta.
  set (k := i_k a) in *.
  set (len := rd32 (skipn 20 data)).
  set (pl := skipn 24 data).
  set (wnd := rd16 (skipn 6 data)).
  set (ts := rd32 (skipn 8 data)).
  set (sn := rd32 (skipn 12 data)).
  set (una := rd32 (skipn 16 data)).
  set (cmd := nth 4 data 0).
  destruct (negb (rd32 data =? conv k)) eqn:Ecv; [lia|].
  destruct ((blen pl <? len) || (len >? c_mtuLimit)) eqn:Elen; [lia|].
  destruct (negb ((cmd =? c_IKCP_CMD_PUSH) || (cmd =? c_IKCP_CMD_ACK) || (cmd =? c_IKCP_CMD_WASK)
                  || (cmd =? c_IKCP_CMD_WINS))) eqn:Ecmd; [lia|].
  (* facts about the header *)
  assert (Hsn : is_u32 sn) by (apply ii_rd32_range, ii_bl_skipn; exact Hd).
  assert (Hwnd : 0 <= wnd < 65536) by (apply ii_rd16_range, ii_bl_skipn; exact Hd).
  assert (Hlen0 : 0 <= len).
  { assert (Hl : is_u32 len) by (apply ii_rd32_range, ii_bl_skipn; exact Hd). exact (proj1 Hl). }
  assert (Hlen1 : len <= c_mtuLimit).
  { apply orb_false_elim in Elen. destruct Elen as [_ E2].
    destruct (Z.gtb_spec len c_mtuLimit) as [G|G]; [discriminate|exact G]. }
  assert (Hrest : is_byte_list (drop len pl) /\ blen (drop len pl) + c_IKCP_OVERHEAD <= blen data).
  { split; [apply ii_bl_drop, ii_bl_skipn; exact Hd|].
    pose proof (ii_blen_drop_le len pl) as H1.
    unfold pl in H1 at 2. rewrite ii_blen_skipn in H1.
    unfold c_IKCP_OVERHEAD, blen in *. lia. }
  (* sender part common to all commands *)
  set (k1 := if regular then set_rmt_wnd k wnd else k).
  assert (H1 : ii_invb (snd_una k) k1 /\ ii_same k k1).
  { unfold k1. destruct regular.
    - apply ii_set_rmt_wnd_ok; [apply ii_invb_of_inv; exact Hinv|exact Hwnd].
    - split; [apply ii_invb_of_inv; exact Hinv|apply ii_same_refl]. }
  destruct H1 as [H1 S1].
  destruct (ii_parse_una_ok _ _ una H1) as (b2 & H2 & S2).
  destruct (parse_una k1 una) as [k2 cnt] eqn:Epu. cbn [fst] in H2, S2.
  destruct (ii_shrink_buf_ok _ _ H2) as [H3 S3].
  set (k3 := shrink_buf k2) in *.
  assert (S03 : ii_same k k3).
  { apply ii_same_trans with k1; [exact S1|]. apply ii_same_trans with k2; [exact S2|exact S3]. }
  destruct (cmd =? c_IKCP_CMD_ACK) eqn:Eack.
  { (* ACK *)
    destruct (ii_parse_ack_ok _ _ sn (ii_invb_of_inv _ H3)) as [H4 S4].
    set (k4 := parse_ack k3 sn) in *.
    destruct (ii_parse_fastack_ok _ _ sn ts H4) as [H5 S5].
    destruct (parse_fastack k4 sn ts) as [k5 f] eqn:Efa. cbn [fst] in H5, S5.
    destruct (ii_shrink_buf_ok _ _ H5) as [H6 S6].
    cbn [i_k].
    assert (S06 : ii_same k (shrink_buf k5)).
    { apply ii_same_trans with k3; [exact S03|]. apply ii_same_trans with k4; [exact S4|].
      apply ii_same_trans with k5; [exact S5|exact S6]. }
    split; [exact H6|]. split; [exact (proj1 S06)|].
    split; [rewrite (proj2 S06); lia|exact Hrest]. }
  destruct (cmd =? c_IKCP_CMD_PUSH) eqn:Epush.
  { (* PUSH *)
    destruct (itimediff sn (u32 (rcv_nxt k3 + rcv_wnd k3)) <? 0) eqn:Ein.
    - set (k4 := set_acklist k3 (acklist k3 ++ [(sn, ts)])).
      assert (H4 : ii_invb (snd_una k3) k4)
        by (apply ii_fr_acklist, ii_invb_of_inv; exact H3).
      assert (A4 : alen (acklist k4) = alen (acklist k) + 1).
      { change (acklist k4) with (acklist k3 ++ [(sn, ts)]).
        rewrite ii_alen_snoc, (proj2 S03). reflexivity. }
      assert (F4 : ii_fix k k4).
      { apply ii_fix_trans with k3; [exact (proj1 S03)|]. repeat split. }
      destruct (itimediff sn (rcv_nxt k4) >=? 0) eqn:Ege.
      + match goal with |- context [parse_data k4 ?S] => set (sg := S) end.
        assert (Hsl : seg_len sg <= c_mtuLimit).
        { unfold seg_len, sg. cbn [s_data]. pose proof (ii_blen_take_le len pl Hlen0). lia. }
        destruct (ii_parse_data_ok _ k4 sg H4 Hsn Hsl) as (k5 & f & Epd & K1 & K2 & K3).
        rewrite Epd. cbn [i_k].
        split; [apply ii_inv_of_invb with (snd_una k3); [exact K1|exact K3]|].
        split; [apply ii_fix_trans with k4; [exact F4|exact (proj1 K2)]|].
        split; [rewrite (proj2 K2), A4; lia|exact Hrest].
      + cbn [i_k].
        split; [apply ii_inv_of_invb with (snd_una k3); [exact H4|reflexivity]|].
        split; [exact F4|]. split; [lia|exact Hrest].
    - cbn [i_k]. split; [exact H3|]. split; [exact (proj1 S03)|].
      split; [rewrite (proj2 S03); lia|exact Hrest]. }
  destruct (cmd =? c_IKCP_CMD_WASK) eqn:Ewask.
  { cbn [i_k]. split.
    - apply ii_inv_of_invb with (snd_una k3); [|reflexivity].
      unfold set_probe_flags. apply ii_fr_probe, ii_invb_of_inv. exact H3.
    - split; [apply ii_fix_trans with k3; [exact (proj1 S03)|repeat split]|].
      split; [|exact Hrest].
      change (acklist (set_probe_flags k3 (Z.lor (probe k3) c_IKCP_ASK_TELL))) with (acklist k3).
      rewrite (proj2 S03). lia. }
  cbn [i_k]. split; [exact H3|]. split; [exact (proj1 S03)|].
  split; [rewrite (proj2 S03); lia|exact Hrest].
Qed.

(* ------------------------------------------------------------------ *)
(* the segment loop                                                    *)
(* ------------------------------------------------------------------ *)
Lemma ii_input_loop_ok : forall fuel a data regular,
  inv (i_k a) -> is_byte_list data ->
  exists a' e, input_loop fuel a data regular = Ok (a', e) /\ inv (i_k a') /\
    ii_fix (i_k a) (i_k a') /\
    alen (acklist (i_k a')) <= alen (acklist (i_k a)) + blen data / c_IKCP_OVERHEAD /\
    match e with LErr c => c <> 0 | LDone => True end.
Proof.
  induction fuel as [|f IH]; intros a data regular Hinv Hd; cbn [input_loop].
  - exists a, LDone. split; [reflexivity|]. split; [exact Hinv|]. split; [apply ii_fix_refl|].
    split; [|exact I]. pose proof (ii_blen_nonneg data). unfold c_IKCP_OVERHEAD. lia.
  - destruct (blen data <? c_IKCP_OVERHEAD) eqn:E0.
    + exists a, LDone. split; [reflexivity|]. split; [exact Hinv|]. split; [apply ii_fix_refl|].
      split; [|exact I]. pose proof (ii_blen_nonneg data). unfold c_IKCP_OVERHEAD. lia.
    + apply Z.ltb_ge in E0.
      pose proof (ii_input_seg_ok a data regular Hinv Hd E0) as Hs.
      destruct (input_seg a data regular) as [[[a1 rest]|w]|code].
      * destruct Hs as (Hi1 & Hf1 & Ha1 & Hr & Hb).
        destruct (IH a1 rest regular Hi1 Hr) as (a' & e & El & Hi & Hf & Ha & He).
        exists a', e. split; [exact El|]. split; [exact Hi|].
        split; [exact (ii_fix_trans _ _ _ Hf1 Hf)|]. split; [|exact He].
        unfold c_IKCP_OVERHEAD in *. lia.
      * contradiction.
      * exists a, (LErr code). split; [reflexivity|]. split; [exact Hinv|].
        split; [apply ii_fix_refl|]. split; [|exact Hs].
        pose proof (ii_blen_nonneg data). unfold c_IKCP_OVERHEAD. lia.
Qed.

(* ------------------------------------------------------------------ *)
(* tail of Input: RTT estimator and congestion window                  *)
(* ------------------------------------------------------------------ *)
Lemma ii_update_ack_unf k rtt : exists srtt var,
  update_ack k rtt =
  set_rtt k var srtt
    (Z.min (Z.max (rx_minrto k) (u32 (u32 srtt + Z.max (interval k) (u32 (u32 var * 4)))))
           c_IKCP_RTO_MAX) (rx_minrto k).
Proof.
  unfold update_ack. destruct (rx_srtt k =? 0); [do 2 eexists; reflexivity|].
  cbv zeta. destruct (rtt <? _); do 2 eexists; reflexivity.
Qed.

Lemma ii_update_ack_ok b k rtt : ii_invb b k ->
  ii_invb b (update_ack k rtt) /\ mtu (update_ack k rtt) = mtu k /\
  rx_minrto (update_ack k rtt) = rx_minrto k /\ conv (update_ack k rtt) = conv k /\
  acklist (update_ack k rtt) = acklist k /\ snd_una (update_ack k rtt) = snd_una k /\
  rto_inv (update_ack k rtt).
Proof.
  intros H. destruct (ii_update_ack_unf k rtt) as (srtt & var & E). rewrite E.
  split; [apply ii_fr_rtt; [exact H|lia]|].
  repeat (split; [reflexivity|]).
  unfold rto_inv. cbn [rx_minrto rx_rto set_rtt].
  pose proof (B_minrto _ _ H) as Hm.
  unfold c_IKCP_RTO_NDL, c_IKCP_RTO_MIN, c_IKCP_RTO_MAX in *. lia.
Qed.

Lemma ii_input_cwnd_ok b k una0 : ii_invb b k -> ii_keep b k (input_cwnd k una0).
Proof.
  intros H. unfold input_cwnd.
  assert (Hid : ii_keep b k k) by (split; [exact H|split; [apply ii_same_refl|reflexivity]]).
  destruct ((nocwnd k =? 0) && (itimediff (snd_una k) una0 >? 0) && (cwnd k <? rmt_wnd k)) eqn:Eg;
    [|exact Hid].
  cbv zeta.
  assert (Hgen : forall cw inc, 0 <= cw ->
            ii_keep b k (if cw >? rmt_wnd k
                         then set_cc k (ssthresh k) (rmt_wnd k) (rmt_wnd k) (u32 (rmt_wnd k * mss k))
                         else set_cc k (ssthresh k) (rmt_wnd k) cw inc)).
  { intros cw inc Hcw. pose proof (B_rmt_wnd _ _ H) as Hr.
    destruct (cw >? rmt_wnd k); (split; [|repeat split]); apply ii_fr_cc; (exact H || lia). }
  destruct (cwnd k <? ssthresh k) eqn:Es.
  - apply Hgen. apply u32_range.
  - match goal with |- context [if ?c then (_, ?i) else (_, ?i)] => destruct c eqn:Ei end.
    + apply Hgen. destruct (mss k >? 0) eqn:Em.
      * apply Z.gtb_lt in Em. apply Z.div_pos; [apply u32_range|exact Em].
      * apply u32_range.
    + apply Hgen. exact (B_cwnd _ _ H).
Qed.

(* ------------------------------------------------------------------ *)
(* the theorem                                                         *)
(* ------------------------------------------------------------------ *)
Theorem input_pre_ok : forall k d regular nd now, inv k -> is_byte_list d ->
   exists k' r fr, input_pre k d regular nd now = Ok (k', r, fr) /\ inv k' /\
     (rto_inv k -> rto_inv k') /\ mtu k' = mtu k /\ rx_minrto k' = rx_minrto k /\ conv k' = conv k /\
     alen (acklist k') <= alen (acklist k) + blen d / c_IKCP_OVERHEAD /\
     (r = 0 -> fr = FNone -> alen (acklist k') < mtu k' / c_IKCP_OVERHEAD).
Proof.
  intros k d regular nd now Hinv Hd. unfold input_pre. cbv zeta.
  destruct (blen d <? c_IKCP_OVERHEAD) eqn:E0.
  { exists k, (-1), FNone. split; [reflexivity|]. split; [exact Hinv|]. split; [auto|].
    repeat (split; [reflexivity|]). split; [|intros; lia].
    pose proof (ii_blen_nonneg d). unfold c_IKCP_OVERHEAD. lia. }
  match goal with |- context [input_loop ?f ?a d regular] =>
    destruct (ii_input_loop_ok f a d regular Hinv Hd) as (a' & e & El & Hi & Hf & Ha & He);
    rewrite El end.
  cbn [i_k] in Hf, Ha.
  destruct Hf as (F1 & F2 & F3 & F4).
  destruct e as [|code].
  2:{ exists (i_k a'), code, FNone. split; [reflexivity|]. split; [exact Hi|].
      split; [unfold rto_inv; rewrite F2, F4; auto|].
      split; [exact F1|]. split; [exact F2|]. split; [exact F3|]. split; [exact Ha|].
      intros; contradiction. }
  set (k1 := i_k a') in *.
  set (k2 := if i_rtt a' && regular && (itimediff now (i_latest a') >=? 0)
             then update_ack k1 (itimediff now (i_latest a')) else k1).
  assert (H2 : ii_invb (snd_una k1) k2 /\ mtu k2 = mtu k1 /\ rx_minrto k2 = rx_minrto k1 /\
               conv k2 = conv k1 /\ acklist k2 = acklist k1 /\ snd_una k2 = snd_una k1 /\
               (rto_inv k1 -> rto_inv k2)).
  { unfold k2. destruct (i_rtt a' && regular && (itimediff now (i_latest a') >=? 0)).
    - destruct (ii_update_ack_ok _ _ (itimediff now (i_latest a')) (ii_invb_of_inv _ Hi))
        as (U1 & U2 & U3 & U4 & U5 & U6 & U7).
      repeat (split; [assumption|]). intros _; exact U7.
    - split; [apply ii_invb_of_inv; exact Hi|]. repeat (split; [reflexivity|]). auto. }
  destruct H2 as (I2 & M2 & R2 & C2 & A2 & U2 & T2).
  destruct (ii_input_cwnd_ok _ _ (snd_una k) I2) as (I3 & ((M3 & R3 & C3 & X3) & A3) & U3).
  set (k3 := input_cwnd k2 (snd_una k)) in *.
  assert (Hk3 : inv k3) by (apply ii_inv_of_invb with (snd_una k1); [exact I3|congruence]).
  assert (Hrto : rto_inv k -> rto_inv k3).
  { intros Hr. assert (Hr1 : rto_inv k1) by (unfold rto_inv in *; rewrite F2, F4; exact Hr).
    specialize (T2 Hr1). unfold rto_inv in *. rewrite R3, X3. exact T2. }
  assert (Hm : mtu k3 = mtu k) by congruence.
  assert (Hr : rx_minrto k3 = rx_minrto k) by congruence.
  assert (Hc : conv k3 = conv k) by congruence.
  assert (Hal : alen (acklist k3) <= alen (acklist k) + blen d / c_IKCP_OVERHEAD)
    by (rewrite A3, A2; exact Ha).
  destruct (i_flush a').
  { exists k3, 0, FFull. split; [reflexivity|]. repeat (split; [assumption|]). intros; discriminate. }
  change (Z.of_nat (length (acklist k3))) with (alen (acklist k3)).
  destruct (alen (acklist k3) >=? mtu k3 / c_IKCP_OVERHEAD) eqn:Ef.
  { exists k3, 0, FAck. split; [reflexivity|]. repeat (split; [assumption|]). intros; discriminate. }
  assert (Hlt : alen (acklist k3) < mtu k3 / c_IKCP_OVERHEAD).
  { destruct (Z.geb_spec (alen (acklist k3)) (mtu k3 / c_IKCP_OVERHEAD)) as [G|G];
      [discriminate|exact G]. }
  destruct (nd && (alen (acklist k3) >? 0)).
  { exists k3, 0, FAck. split; [reflexivity|]. repeat (split; [assumption|]). intros; discriminate. }
  exists k3, 0, FNone. split; [reflexivity|]. repeat (split; [assumption|]). intros _ _; exact Hlt.
Qed.

(* ------------------------------------------------------------------ *)
(* regression witness of F8 (repaired): an oversize PUSH is answered -2 *)
(* ------------------------------------------------------------------ *)
Lemma oversize_push_rejected :
  let hdr := le32 7 ++ [81; 0] ++ le16 32 ++ le32 0 ++ le32 0 ++ le32 0 ++ le32 2000 in
  exists k', input (kcp_new 7) (hdr ++ repeat 0 2000) true false 1000 = Ok (k', -2, []).
Proof. cbv zeta. eexists. vm_compute. reflexivity. Qed.

Print Assumptions input_pre_ok.
Print Assumptions oversize_push_rejected.
