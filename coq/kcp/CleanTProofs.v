(* C18, clean-path half, SENDER SIDE, with time passing inside the calls: the proofs.
   The lemmas the statement file C18d.v `exact`s.  Definitions: CleanT.v.  Names prefixed ct_.
     0. tx = 0: step_t 0 = step, run_t 0 = run;
     1. phase 5 of flush_t, one segment / the whole buffer: exact wire tracking (cl_rep / cl_segs of
        CleanBase) together with the clock readings (ft_inv of FlushTProofs);
     2. flush_t as a whole; inv / rto_inv are preserved by flush_t, input_t, update_t, step_t
        (the existing lemmas are stated for flush/step; the field-by-field lemmas of InvFlush are
        re-used, only phase 5 is re-done for flush_segs_t);
     3. the timer armed at c + rto, ts - tx <= c <= ts, does not fire while H2t holds;
     4. one call, whole histories: the clean-sender theorem for tx >= 0;
     5. tx = 0 gives back the premises of Clean.cl_clean_sender;
     6. clean_history_t is decidable on concrete histories; an example with tx = 2. *)
From Coq Require Import ZArith List Bool Lia.
From KV.Base Require Import Consts Word WordLemmas.
From KV.Kcp Require Import Kcp Step Net InvBase InvInputBase InvInput InvFlushBase InvFlush InvAll
                           LiveBase CleanBase Clean FlushT FlushTProofs CleanT.
Import ListNotations.
Local Open Scope Z_scope.

Ltac Zify.zify_post_hook ::= Z.div_mod_to_equations.

(* ------------------------------------------------------------------ *)
(* 0. tx = 0 is Step.step / Step.run                                   *)
(* ------------------------------------------------------------------ *)
Lemma ct_step_t_zero k o : op_time_ok o -> step_t 0 k o = step k o.
Proof.
  destruct o as [b|n|d reg nd now|full now|now|now|m|nd iv rs nc]; cbn [op_time_ok step_t step]; intros H;
    try reflexivity.
  - rewrite (ft_input_t_zero _ _ _ _ _ H). reflexivity.
  - rewrite (ft_flush_t_zero _ _ _ H). reflexivity.
  - rewrite (ft_update_t_zero _ _ H). reflexivity.
Qed.

Lemma ct_run_t_zero : forall ops k, Forall op_time_ok ops -> run_t 0 k ops = run k ops.
Proof.
  induction ops as [|o t IH]; intros k H; [reflexivity|].
  inversion H as [|x y Ho Ht]; subst x y. cbn [run_t run]. rewrite (ct_step_t_zero k o Ho).
  destruct (step k o) as [[k1 x]|w]; [|reflexivity]. rewrite (IH k1 Ht). reflexivity.
Qed.

Lemma ct_op_time_ok_b_sound o : op_time_ok_b o = true -> op_time_ok o.
Proof.
  destruct o; cbn [op_time_ok_b op_time_ok]; intros H; try exact I;
    apply andb_true_iff in H; destruct H as (H1 & H2); lv_b2z; lia.
Qed.

(* ------------------------------------------------------------------ *)
(* 1. phase 5 of flush_t                                               *)
(* ------------------------------------------------------------------ *)
(* the decision part, with the value of fastack it leaves *)
Lemma ct_decide_spec k resent newsegs cur s a ns rto rts fa a1 :
  lv_decide k resent newsegs cur s a = (ns, rto, rts, fa, a1) ->
  f_st a1 = f_st a /\
  (ns = true ->
     rts = u32 (cur + rto) /\
     ((s_xmit s = 0 /\ rto = rx_rto k /\ fa = s_fastack s) \/
      (s_xmit s <> 0 /\ (cl_fast resent s \/ cl_early newsegs s)) \/
      (s_xmit s <> 0 /\ cl_timeout cur s))) /\
  (ns = false -> rto = s_rto s /\ rts = s_resendts s /\ fa = s_fastack s /\ a1 = a).
Proof.
  unfold lv_decide. intros H.
  destruct (s_xmit s =? 0) eqn:E0; lv_b2z.
  { inversion H; subst. split; [reflexivity|]. split; [|discriminate].
    intros _. split; [reflexivity|]. left. auto. }
  destruct ((s_fastack s >=? resent) && negb (s_fastack s =? 4294967295)) eqn:E1.
  { apply andb_true_iff in E1. destruct E1 as (E1 & E1'). apply negb_true_iff in E1'. lv_b2z.
    inversion H; subst. split; [reflexivity|]. split; [|discriminate].
    intros _. split; [reflexivity|]. right; left. split; [exact E0|]. left. split; [lia|exact E1']. }
  destruct ((s_fastack s >? 0) && negb (s_fastack s =? 4294967295) && (newsegs =? 0)) eqn:E2.
  { apply andb_true_iff in E2. destruct E2 as (E2 & E2c). apply andb_true_iff in E2. destruct E2 as (E2a & E2b).
    apply negb_true_iff in E2b. lv_b2z.
    inversion H; subst. split; [reflexivity|]. split; [|discriminate].
    intros _. split; [reflexivity|]. right; left. split; [exact E0|]. right.
    split; [lia|]. split; [exact E2b|reflexivity]. }
  destruct (itimediff cur (s_resendts s) >=? 0) eqn:E3; lv_b2z.
  { cbv zeta in H. inversion H; subst. split; [reflexivity|]. split; [|discriminate].
    intros _. split; [reflexivity|]. right; right. split; [exact E0|]. unfold cl_timeout. lia. }
  inversion H; subst. split; [reflexivity|]. split; [discriminate|].
  intros _. repeat split.
Qed.

(* the outcome of flush_seg_t on one buffer entry.  n0 .. n1 bound the numbers of datagrams that
   had been handed to the callback when the two clock readings were taken:
     nr  when the reading `cur` the decision (and the timer) uses was taken,
     nt  when the timestamp was read (after the decision, before make_space). *)
Definition ct_step (rxrto resent newsegs now tx : Z) (n0 n1 : nat) (h s s' : seg) (sent : bool) : Prop :=
  if sent then
    s_acked s <> 1 /\
    exists (nr nt : nat) (rto fa : Z),
      (n0 <= nr /\ nr <= nt /\ nt <= S nr /\ nt <= n1)%nat /\
      s' = lv_sent h (u32 (now + tx * Z.of_nat nt)) s rto (u32 (u32 (now + tx * Z.of_nat nr) + rto)) fa /\
      ((s_xmit s = 0 /\ rto = rxrto /\ fa = s_fastack s) \/
       (s_xmit s <> 0 /\ (cl_fast resent s \/ cl_early newsegs s)) \/
       (s_xmit s <> 0 /\ cl_timeout (u32 (now + tx * Z.of_nat nr)) s))
  else s' = s.

Lemma ct_step_weaken rxrto resent newsegs now tx n0 n1 m0 m1 h s s' b :
  (m0 <= n0)%nat -> (n1 <= m1)%nat ->
  ct_step rxrto resent newsegs now tx n0 n1 h s s' b -> ct_step rxrto resent newsegs now tx m0 m1 h s s' b.
Proof.
  intros H0 H1. unfold ct_step. destruct b; [|auto].
  intros (Ha & nr & nt & rto & fa & Hn & Hs & Hc). split; [exact Ha|].
  exists nr, nt, rto, fa. split; [lia|]. split; assumption.
Qed.

Lemma ct_flush_seg_spec k h resent newsegs now tx cur s a s' a' cur' nr :
  ft_inv now tx cur nr a ->
  flush_seg_t k h resent newsegs now tx cur s a = Ok (s', a', cur') ->
  exists sent, ct_step (rx_rto k) resent newsegs now tx nr (nouts a') h s s' sent /\
    (if sent
     then stage_write k (make_space k (f_st a) (c_IKCP_OVERHEAD + blen (s_data s))) s' = Ok (f_st a')
     else f_st a' = f_st a) /\
    (nouts a <= nouts a')%nat /\
    exists nr', ft_inv now tx cur' nr' a' /\ (nr <= nr')%nat.
Proof.
  intros (Hc & Hn1 & Hn2) H. rewrite ft_seg_unfold in H.
  destruct (s_acked s =? 1) eqn:Ea; lv_b2z.
  { inversion H; subst s' a' cur'. exists false. split; [reflexivity|]. split; [reflexivity|].
    split; [lia|]. exists nr. split; [|lia]. split; [exact Hc|lia]. }
  destruct (lv_decide k resent newsegs cur s a) as [[[[ns rto] rts] fa] a1] eqn:D.
  destruct (ct_decide_spec _ _ _ _ _ _ _ _ _ _ _ D) as (Dst & Dt & Df).
  destruct ns.
  - destruct (Dt eq_refl) as (Hrts & Hcase). rewrite Dst in H.
    destruct (stage_write k _ _) as [st2|w] eqn:Ew; [|discriminate].
    unfold ft_finish in H. injection H as Es Ea' Ec.
    assert (Hf' : f_st a' = st2) by (rewrite <- Ea'; reflexivity).
    assert (Hn' : nouts a' = length (outs st2)) by (unfold nouts; rewrite Hf'; reflexivity).
    pose proof (ft_one_output _ _ _ _ _ Ew) as (O1 & O2). fold (nouts a) in O1, O2.
    rewrite <- Hn' in O1, O2. clear Ea'.
    exists true. rewrite Hf'.
    split.
    { split; [exact Ea|]. exists nr, (nouts a), rto, fa. split; [lia|]. split.
      - rewrite <- Es. unfold clk. fold (nouts a). rewrite Hrts, Hc. reflexivity.
      - rewrite <- Hc. exact Hcase. }
    split; [rewrite <- Es; exact Ew|]. split; [exact O1|].
    exists (nouts a). split; [|lia]. split; [rewrite <- Ec; reflexivity|lia].
  - destruct (Df eq_refl) as (E1 & E2 & E3 & E4). subst rto rts fa a1.
    unfold ft_finish in H. injection H as Es Ea' Ec.
    assert (Hf' : f_st a' = f_st a) by (rewrite <- Ea'; reflexivity).
    assert (Hn' : nouts a' = nouts a) by (unfold nouts; rewrite Hf'; reflexivity).
    exists false. rewrite Hn'.
    split; [rewrite <- Es; apply cl_kept_id|]. split; [exact Hf'|]. split; [lia|].
    exists nr. split; [|lia]. split; [rewrite <- Ec; exact Hc|rewrite Hn'; lia].
Qed.

Lemma ct_flush_segs_spec k h resent newsegs now tx : forall l a cur nr l' a' cur' W,
  ft_inv now tx cur nr a ->
  flush_segs_t k h resent newsegs now tx cur l a = Ok (l', a', cur') -> cl_rep (f_st a) W ->
  exists Wp, cl_segs (ct_step (rx_rto k) resent newsegs now tx nr (nouts a') h) l l' Wp /\
             cl_rep (f_st a') (W ++ Wp) /\ (nouts a <= nouts a')%nat.
Proof.
  induction l as [|s t IH]; intros a cur nr l' a' cur' W Hi H Hrep; cbn [flush_segs_t] in H.
  - inversion H; subst. exists []. split; [constructor|]. split; [rewrite app_nil_r; exact Hrep|lia].
  - destruct (flush_seg_t k h resent newsegs now tx cur s a) as [[[s1 a1] c1]|w] eqn:E1; [|discriminate].
    destruct (flush_segs_t k h resent newsegs now tx c1 t a1) as [[[t2 a2] c2]|w] eqn:E2; [|discriminate].
    inversion H; subst l' a' cur'. clear H.
    destruct (ct_flush_seg_spec _ _ _ _ _ _ _ _ _ _ _ _ _ Hi E1) as (sent & Hstep & Hst & M1 & nr1 & I1 & R1).
    destruct sent.
    + pose proof (cl_rep_write _ _ _ _ _ (cl_rep_space k _ (c_IKCP_OVERHEAD + blen (s_data s)) _ Hrep) Hst) as Hrep1.
      destruct (IH _ _ _ _ _ _ _ I1 E2 Hrep1) as (Wp & Hsegs & Hrep2 & M2).
      exists (s1 :: Wp). split; [|split; [rewrite <- app_assoc in Hrep2; exact Hrep2|lia]].
      apply cl_segs_send.
      * eapply ct_step_weaken; [| |exact Hstep]; lia.
      * eapply cl_segs_impl; [|exact Hsegs]. intros x y b. apply ct_step_weaken; lia.
    + rewrite <- Hst in Hrep. destruct (IH _ _ _ _ _ _ _ I1 E2 Hrep) as (Wp & Hsegs & Hrep2 & M2).
      exists Wp. split; [|split; [exact Hrep2|lia]].
      apply cl_segs_keep.
      * eapply ct_step_weaken; [| |exact Hstep]; lia.
      * eapply cl_segs_impl; [|exact Hsegs]. intros x y b. apply ct_step_weaken; lia.
Qed.

(* what ct_step keeps of a segment (InvFlushBase.fl_seg_rel, clause `full` switched off) *)
Lemma ct_step_rel rxrto resent newsegs now tx n0 n1 h s s' b :
  ct_step rxrto resent newsegs now tx n0 n1 h s s' b -> fl_seg_rel False s s'.
Proof.
  unfold ct_step. destruct b.
  - intros (_ & nr & nt & rto & fa & _ & Es & _). subst s'. unfold fl_seg_rel, lv_sent. lv_segf.
    repeat split. intros F; destruct F.
  - intros E; subst s'. apply fl_seg_rel_refl. intros F; exact F.
Qed.

(* ------------------------------------------------------------------ *)
(* 2. flush_t as a whole                                               *)
(* ------------------------------------------------------------------ *)
Lemma ct_ph5_spec k4 h1 ft ns now tx st3 sb' a W :
  ft_ph5 k4 h1 ft ns now tx st3 = Ok (sb', a) -> cl_rep st3 W ->
  exists Wp, cl_rep (f_st a) (W ++ Wp) /\
    (ft = FLUSH_FULL ->
       cl_segs (ct_step (rx_rto k4) (lv_resent k4) ns now tx 0 (nouts a) h1) (snd_buf k4) sb' Wp) /\
    (ft <> FLUSH_FULL -> sb' = snd_buf k4 /\ Wp = []).
Proof.
  unfold ft_ph5. cbv zeta. intros H Hrep. destruct (ft =? FLUSH_FULL) eqn:E; lv_b2z.
  - destruct (flush_segs_t _ _ _ _ _ _ _ _ _) as [[[l' a'] c']|w] eqn:Es; [|discriminate].
    inversion H; subst l' a'. clear H.
    eapply ct_flush_segs_spec in Es; [| |cbn [f_st]; exact Hrep].
    + destruct Es as (Wp & Hs & Hr & _). exists Wp. split; [exact Hr|].
      split; [|intros Hn; contradiction]. intros _.
      eapply cl_segs_impl; [|exact Hs]. intros x y b. apply ct_step_weaken; lia.
    + split; [reflexivity|]. unfold nouts. cbn [f_st]. lia.
  - inversion H; subst sb' a. exists []. cbn [f_st]. rewrite app_nil_r. split; [exact Hrep|].
    split; [intros Hf; contradiction|intros _; split; reflexivity].
Qed.

Lemma ct_refl_rel l : Forall2 (fl_seg_rel False) l l.
Proof. induction l; constructor; [apply fl_seg_rel_refl; intros F; exact F|assumption]. Qed.

(* the analogue of CleanBase.cl_flush_spec, and of InvFlush.flush_ok (without totality: a successful
   flush_t is assumed).  length o = the number of datagrams handed to the callback. *)
Lemma ct_flush_t_spec k ft now tx k' nx o :
  inv k -> flush_t k ft now tx = Ok (k', nx, o) ->
  inv k' /\
  exists h1 sq sb nxt ns Wc Wp,
    lv_ph4 k ft = (sq, sb, nxt, ns) /\
    (ft = FLUSH_FULL ->
       cl_segs (ct_step (rx_rto k) (lv_resent k) ns now tx 0 (length o) h1) sb (snd_buf k') Wp) /\
    (ft <> FLUSH_FULL -> snd_buf k' = sb /\ Wp = []) /\
    cl_wire o (Wc ++ Wp) /\ Forall (fun w => s_cmd w <> c_IKCP_CMD_PUSH) Wc /\
    snd_queue k' = sq /\ fastresend k' = fastresend k /\ rx_minrto k' = rx_minrto k /\
    rx_rto k' = rx_rto k.
Proof.
  intros Hinv H. rewrite ft_unfold in H.
  destruct (lv_ph1 k ft) as [[[h1 st1] k1]|w] eqn:E1; [|discriminate]. cbv zeta in H.
  destruct (lv_ph3 _ h1 st1 c_IKCP_ASK_SEND c_IKCP_CMD_WASK) as [st2|w] eqn:E2; [|discriminate].
  destruct (lv_ph3 _ h1 st2 c_IKCP_ASK_TELL c_IKCP_CMD_WINS) as [st3|w] eqn:E3; [|discriminate].
  destruct (lv_ph4 _ ft) as [[[sq sb] nxt] ns] eqn:E4.
  destruct (ft_ph5 _ h1 ft ns now tx st3) as [[sb' a]|w] eqn:E5; [|discriminate].
  injection H as Ek Enx Eo.
  destruct (cl_ph1_rep _ _ _ _ _ E1) as (Hh1 & Wa & Hrep1 & Hwa).
  destruct (lv_ph1_shape _ _ _ _ _ E1) as (al & Hk1 & _). subst k1.
  set (now2 := clk now tx st1) in *.
  destruct (cl_ph3_rep _ _ _ _ _ _ _ E2 Hrep1) as (W2 & Hrep2 & Hw2).
  destruct (cl_ph3_rep _ _ _ _ _ _ _ E3 Hrep2) as (W3 & Hrep3 & Hw3).
  destruct (ct_ph5_spec _ _ _ _ _ _ _ _ _ _ E5 Hrep3) as (Wp & Hrep5 & Hfull & Hnot).
  destruct (lv_ph2_shape (set_acklist k al) now2) as (pp & ptsp & ppw & Eph2).
  rewrite Eph2 in *.
  assert (E4' : lv_ph4 k ft = (sq, sb, nxt, ns)) by exact E4.
  set (k4 := lv_k4 (set_probe_flags (set_probe (set_acklist k al) pp ptsp ppw) 0) sq sb nxt) in *.
  assert (F1 : rx_rto k4 = rx_rto k) by reflexivity.
  assert (F3 : lv_resent k4 = lv_resent k) by reflexivity.
  assert (F4 : snd_buf k4 = sb) by reflexivity.
  rewrite F1, F3, F4 in Hfull. rewrite F4 in Hnot.
  (* the final state, field by field *)
  destruct (fl_final_shape k al now2 sq sb nxt sb' a
              (lv_cw (set_probe_flags (set_probe (set_acklist k al) pp ptsp ppw) 0)) (lv_resent k4))
    as (p' & tsp' & pw' & st & sst & cwn & inc & Hp2 & Hfin & Hc0 & _).
  assert (Hp2' : fl_ph2 (set_acklist k al) now2 = set_probe (set_acklist k al) pp ptsp ppw) by exact Eph2.
  rewrite Hp2' in Hfin.
  assert (Ek' : k' = fl_final k al tsp' pw' sq nxt sb' st sst cwn inc).
  { rewrite <- Ek. exact Hfin. }
  clear Hfin Ek.
  assert (Hrel : Forall2 (fl_seg_rel False) sb sb').
  { destruct (Z.eq_dec ft FLUSH_FULL) as [Hf|Hn].
    - pose proof (cl_segs_F2 _ _ _ _ (Hfull Hf)) as HF.
      eapply fl_Forall2_impl; [|exact HF]. intros x y (b & Hb). eapply ct_step_rel. exact Hb.
    - destruct (Hnot Hn) as (Es & _). rewrite Es. apply ct_refl_rel. }
  destruct (fl_sender_facts False k ft sq sb nxt ns sb' Hinv E4' Hrel)
    as (S1 & S2 & _ & _ & S3 & S4 & S5 & S6 & S7).
  split.
  { rewrite Ek'. apply fl_inv_final; try assumption. apply Hc0. exact (I_cwnd _ Hinv). }
  assert (Esb : snd_buf k' = sb') by (rewrite Ek'; reflexivity).
  pose proof (ft_flush_buffer_len (f_st a)) as Hlen. rewrite Eo in Hlen. fold (nouts a) in Hlen.
  exists h1, sq, sb, nxt, ns, ((Wa ++ W2) ++ W3), Wp.
  split; [exact E4'|].
  split.
  { intros Hf. rewrite Esb. eapply cl_segs_impl; [|exact (Hfull Hf)].
    intros x y b. apply ct_step_weaken; [lia|exact Hlen]. }
  split.
  { intros Hn. destruct (Hnot Hn) as (Hs & Hw). split; [rewrite Esb; exact Hs|exact Hw]. }
  split.
  { rewrite <- Eo. apply cl_rep_buffer. exact Hrep5. }
  split.
  { apply Forall_app. split; [apply Forall_app; split|].
    - eapply Forall_impl; [|exact Hwa]. intros w Hw. rewrite Hw. discriminate.
    - eapply Forall_impl; [|exact Hw2]. intros w Hw. rewrite Hw. discriminate.
    - eapply Forall_impl; [|exact Hw3]. intros w Hw. rewrite Hw. discriminate. }
  rewrite Ek'. repeat split; reflexivity.
Qed.

(* flush_t preserves the invariant of Step.v (InvFlush.flush_ok is stated for flush) *)
Lemma ct_flush_t_inv k ft now tx k' nx o :
  inv k -> flush_t k ft now tx = Ok (k', nx, o) ->
  inv k' /\ (rto_inv k -> rto_inv k') /\ rx_minrto k' = rx_minrto k /\ rx_rto k' = rx_rto k.
Proof.
  intros Hinv H.
  destruct (ct_flush_t_spec _ _ _ _ _ _ _ Hinv H)
    as (Hinv' & h1 & sq & sb & nxt & ns & Wc & Wp & _ & _ & _ & _ & _ & _ & _ & Fm & Fr).
  split; [exact Hinv'|]. split; [unfold rto_inv; rewrite Fm, Fr; auto|]. split; assumption.
Qed.

(* ------------------------------------------------------------------ *)
(* 3. the timer armed by a transmission of flush_t                     *)
(* ------------------------------------------------------------------ *)
(* the reading the timer is armed from, as an integer offset of the (wrapped) timestamp *)
Lemma ct_armed now tx rto (nr nt : nat) : 0 <= tx -> (nr <= nt /\ nt <= S nr)%nat ->
  exists c, u32 (now + tx * Z.of_nat nt) - tx <= c <= u32 (now + tx * Z.of_nat nt) /\
            u32 (u32 (now + tx * Z.of_nat nr) + rto) = u32 (c + rto).
Proof.
  intros Ht (H1 & H2). assert (E : nt = nr \/ nt = S nr) by lia. destruct E as [E|E]; subst nt.
  - exists (u32 (now + tx * Z.of_nat nr)). split; [lia|reflexivity].
  - exists (u32 (now + tx * Z.of_nat (S nr)) - tx). split; [lia|].
    rewrite Nat2Z.inj_succ, Z.mul_succ_r. set (p := tx * Z.of_nat nr).
    unfold u32, W32. lia.
Qed.

(* a timer armed at c + r, ts - tx <= c <= ts, r >= m, cannot fire at the reading now + p as long as
   (now - ts) + p < m - tx.  r <= 60000 < 2^31: the wrapped comparison is unambiguous; no range
   premise on now / ts (the differences are itimediff's). *)
Lemma ct_no_timeout tx m now p s :
  0 <= tx ->
  (exists c, s_ts s - tx <= c <= s_ts s /\ s_resendts s = u32 (c + s_rto s)) -> m <= s_rto s <= 60000 ->
  0 <= p -> 0 <= itimediff now (s_ts s) -> itimediff now (s_ts s) + p < m - tx ->
  ~ cl_timeout (u32 (now + p)) s.
Proof.
  unfold cl_timeout. intros Ht (c & Hc & E) Hr Hp Hd0 Hd1. rewrite E.
  unfold itimediff, i32, u32, W32, H32 in *. lia.
Qed.

(* ------------------------------------------------------------------ *)
(* 4. the invariant along a clean history                              *)
(* ------------------------------------------------------------------ *)
Lemma ct_hk_seg_ok tx m s s' : cl_hk s s' -> cl_seg_ok_t tx m s -> cl_seg_ok_t tx m s'.
Proof.
  intros (A1 & A2 & A3 & A4 & A5 & A6 & A7) (B1 & B2). unfold cl_seg_ok_t.
  rewrite A2, A3, A4, A5, A6. split; assumption.
Qed.

Lemma ct_pre_cinv tx k k' : cl_pre k k' -> cl_cinv_t tx k -> cl_cinv_t tx k'.
Proof.
  intros (Hsub & Fq & Ff & Fm) [C1 C2 C3]. constructor.
  - rewrite Fq. exact C1.
  - rewrite Fm. rewrite Forall_forall in *. intros s' Hs'. destruct (Hsub s' Hs') as (s & Hs & Hk).
    eapply ct_hk_seg_ok; [exact Hk|apply C2; exact Hs].
  - rewrite Ff. exact C3.
Qed.

Lemma ct_pre_fresh tx k k' now n : cl_pre k k' -> cl_fresh_t tx k now n -> cl_fresh_t tx k' now n.
Proof.
  intros (Hsub & _ & _ & Fm) H. unfold cl_fresh_t in *. rewrite Fm. rewrite Forall_forall in *.
  intros s' Hs' Ha Hx. destruct (Hsub s' Hs') as (s & Hs & (A1 & A2 & A3 & A4 & A5 & A6 & A7)).
  rewrite A2. apply (H s Hs); [|rewrite <- A4; exact Hx].
  destruct A7 as [A7|A7]; [rewrite <- A7; exact Ha|contradiction].
Qed.

Lemma ct_same_cinv tx k k' :
  snd_buf k' = snd_buf k -> snd_queue k' = snd_queue k -> fastresend k' = fastresend k ->
  rx_minrto k' = rx_minrto k -> cl_cinv_t tx k -> cl_cinv_t tx k'.
Proof. intros E1 E2 E3 E4. apply ct_pre_cinv. apply cl_pre_frame; assumption. Qed.

Lemma ct_same_fresh tx k k' now n :
  snd_buf k' = snd_buf k -> rx_minrto k' = rx_minrto k -> cl_fresh_t tx k now n -> cl_fresh_t tx k' now n.
Proof. intros E1 E2. unfold cl_fresh_t. rewrite E1, E2. auto. Qed.

(* ---- Send ---- *)
Lemma ct_send_cinv tx k b k' r : send k b = Ok (k', r) -> cl_cinv_t tx k -> cl_cinv_t tx k'.
Proof.
  intros H [C1 C2 C3]. pose proof (cl_send_buf _ _ _ _ H) as Eb.
  unfold send in H.
  destruct (blen b =? 0); [inversion H; subst; constructor; assumption|].
  destruct (if stream k =? 0 then Ok (Some (snd_queue k, b)) else stream_append k b) as [[[q1 b1]|]|w] eqn:Ep;
    [|inversion H; subst; constructor; assumption|discriminate].
  assert (Hq1 : Forall (fun s => s_fastack s = 0) q1).
  { destruct (stream k =? 0); [inversion Ep; subst; exact C1|].
    eapply cl_stream_append_fa; eassumption. }
  cbv zeta in H.
  destruct (negb (stream k =? 0) && (blen b1 =? 0)); [inversion H; subst; constructor; assumption|].
  destruct (frag_count (blen b1) (mss k) >? 255); [inversion H; subst; constructor; assumption|].
  destruct (fragment _ _ _ _ _ _) as [segs|w] eqn:Ef; [|discriminate].
  inversion H; subst. constructor; ksimpl; [|assumption|assumption].
  apply Forall_app. split; [exact Hq1|]. eapply cl_fragment_fa; exact Ef.
Qed.

(* ---- flush_t ---- *)
(* what the buffer entries satisfy when phase 5 starts; n = the datagrams of the whole call *)
Definition ct_entry_ok (tx m now n : Z) (s : seg) : Prop :=
  cl_seg_ok_t tx m s /\ s_cmd s = c_IKCP_CMD_PUSH /\
  (s_acked s <> 1 -> s_xmit s <> 0 ->
     0 <= itimediff now (s_ts s) /\ itimediff now (s_ts s) + tx * n < m - tx).

Lemma ct_segs_clean tx m rxrto resent ns now (n1 : nat) h :
  0 <= tx -> m <= rxrto <= 60000 -> resent > 0 ->
  forall l l' W, cl_segs (ct_step rxrto resent ns now tx 0 n1 h) l l' W ->
  Forall (ct_entry_ok tx m now (Z.of_nat n1)) l ->
  Forall (cl_seg_ok_t tx m) l' /\ Forall (fun w => s_cmd w = c_IKCP_CMD_PUSH /\ s_xmit w = 1) W.
Proof.
  intros Htx Hr Hres l l' W H.
  induction H as [|s s' t t' W Hs Ht IH|s s' t t' W Hs Ht IH]; intros Hl.
  - split; constructor.
  - inversion Hl as [|x y Hx Hy]; subst x y. destruct (IH Hy) as (I1 & I2).
    unfold ct_step in Hs. subst s'.
    split; [constructor; [apply Hx|exact I1]|exact I2].
  - inversion Hl as [|x y Hx Hy]; subst x y. destruct (IH Hy) as (I1 & I2).
    unfold ct_step in Hs. destruct Hs as (Ha & nr & nt & rto & fa & Hn & Es & Hc).
    destruct Hx as ((F0 & Fx) & Hcmd & Hfr).
    destruct (cl_sent_fields h (u32 (now + tx * Z.of_nat nt)) s rto
                (u32 (u32 (now + tx * Z.of_nat nr) + rto)) fa) as (_ & G2 & G3 & G4 & G5 & G6 & _ & G8).
    rewrite <- Es in G2, G3, G4, G5, G6, G8.
    assert (Hfirst : s_xmit s = 0 /\ rto = rxrto /\ fa = s_fastack s).
    { destruct Hc as [Hc|[(Hx0 & Hfe)|(Hx0 & Hto)]]; [exact Hc|exfalso|exfalso].
      - destruct Hfe as [(Q1 & _)|(Q1 & _)]; lia.
      - destruct Fx as [Fx|(Fx1 & Fx2 & Fx3)]; [contradiction|].
        destruct (Hfr Ha Hx0) as (D0 & D1).
        assert (P1 : tx * Z.of_nat nr <= tx * Z.of_nat n1) by (apply ft_mul_mono; [exact Htx|lia]).
        assert (P0 : 0 <= tx * Z.of_nat nr) by (apply Z.mul_nonneg_nonneg; lia).
        apply (ct_no_timeout tx m now (tx * Z.of_nat nr) s Htx Fx2 Fx3 P0 D0); [lia|exact Hto]. }
    destruct Hfirst as (Hx0 & Er & Ef).
    assert (Hx1 : s_xmit s' = 1) by (rewrite G6, Hx0; reflexivity).
    split.
    + constructor; [|exact I1]. split; [rewrite G5, Ef; exact F0|]. right.
      split; [exact Hx1|]. split.
      * rewrite G4, G2, G3. apply ct_armed; [exact Htx|lia].
      * rewrite G3, Er. exact Hr.
    + constructor; [|exact I2]. split; [rewrite G8; exact Hcmd|exact Hx1].
Qed.

Lemma ct_adm_entry_ok tx m now n pre adm :
  Forall2 cl_adm pre adm -> Forall (fun s => s_xmit s = 0 /\ s_acked s = 0) pre ->
  Forall (fun s => s_fastack s = 0) pre -> Forall (ct_entry_ok tx m now n) adm.
Proof.
  intros HF. induction HF as [|s s' t t' Hr Ht IH]; intros H1 H2; [constructor|].
  inversion H1 as [|x y (X1 & X2) Y1]; subst x y. inversion H2 as [|x y X3 Y2]; subst x y.
  constructor; [|apply IH; assumption].
  destruct Hr as (A1 & A2 & A3 & A4 & A5 & A6 & A7).
  split; [split; [rewrite A2; exact X3|left; rewrite A1; exact X1]|].
  split; [exact A7|]. intros _ Hx. rewrite A1 in Hx. contradiction.
Qed.

Lemma ct_flush_clean tx k ft now k' nx o :
  0 <= tx -> inv k -> rto_inv k -> cl_cinv_t tx k ->
  (ft = FLUSH_FULL -> cl_fresh_t tx k now (Z.of_nat (length o))) ->
  flush_t k ft now tx = Ok (k', nx, o) ->
  inv k' /\ rto_inv k' /\ cl_cinv_t tx k' /\ cl_once o.
Proof.
  intros Htx Hinv Hrto [C1 C2 C3] Hfresh H.
  destruct (ct_flush_t_spec _ _ _ _ _ _ _ Hinv H)
    as (Hinv' & h1 & sq & sb & nxt & ns & Wc & Wp & E4 & Hfull & Hnot & Hw & Hc & Fq & Ff & Fm & Fr).
  split; [exact Hinv'|]. split; [unfold rto_inv in *; rewrite Fm, Fr; exact Hrto|].
  destruct (cl_ph4_spec _ _ _ _ _ _ E4) as (pre & adm & Esq & Esb & Ens & HF & Hadm).
  assert (Hsq : Forall (fun s => s_fastack s = 0) sq).
  { rewrite Esq in C1. apply Forall_app in C1. apply C1. }
  destruct (Z.eq_dec ft FLUSH_FULL) as [Hf|Hn].
  - specialize (Hfull Hf). specialize (Hfresh Hf).
    assert (Hentries : Forall (ct_entry_ok tx (rx_minrto k) now (Z.of_nat (length o))) sb).
    { rewrite Esb. apply Forall_app. split.
      - pose proof (I_sb_push _ Hinv) as Hp. unfold cl_fresh_t in Hfresh. rewrite Forall_forall in *.
        intros s Hs. split; [apply C2; exact Hs|]. split; [apply (Hp s Hs)|apply Hfresh; exact Hs].
      - pose proof (I_sq_fresh _ Hinv) as Hfq. rewrite Esq in Hfq, C1.
        apply Forall_app in Hfq. apply Forall_app in C1.
        exact (ct_adm_entry_ok _ _ _ _ _ _ HF (proj1 Hfq) (proj1 C1)). }
    assert (Hr : rx_minrto k <= rx_rto k <= 60000).
    { pose proof (I_rto_max _ Hinv). unfold rto_inv, c_IKCP_RTO_MAX in *. lia. }
    destruct (ct_segs_clean _ _ _ _ _ _ _ _ Htx Hr (cl_resent_pos k C3) _ _ _ Hfull Hentries) as (S1 & S2).
    split.
    + constructor; [rewrite Fq; exact Hsq|rewrite Fm; exact S1|rewrite Ff; exact C3].
    + exists Wc, Wp. split; [exact Hw|]. split; [exact Hc|]. split; [exact S2|].
      apply (cl_segs_nodup _ s_sn _ _ _ Hfull).
      apply (cl_contig_nodup _ (snd_una k')); [exact (I_una_u32 _ Hinv')|exact (I_sb_contig _ Hinv')|].
      pose proof (I_sb_wnd _ Hinv'). pose proof (I_snd_wnd _ Hinv'). unfold W32. lia.
  - destruct (Hnot Hn) as (Hs & Hwp). specialize (Hadm Hn). subst adm Wp. rewrite app_nil_r in Esb.
    split.
    + constructor; [rewrite Fq; exact Hsq|rewrite Fm, Hs, Esb; exact C2|rewrite Ff; exact C3].
    + exists Wc, []. split; [exact Hw|]. split; [exact Hc|]. split; constructor.
Qed.

(* ---- Update ---- *)
Definition ct_upd_tail (k : kcp) (slap now tx : Z) : res (kcp * list bytes) :=
  if slap >=? 0 then
    let tsf := u32 (ts_flush k + interval k) in
    let tsf := if itimediff now tsf >=? 0 then u32 (now + interval k) else tsf in
    match flush_t (set_timer k (state k) tsf (updated k)) FLUSH_FULL now tx with
    | Ok (k', _, o) => Ok (k', o) | Panic w => Panic w end
  else Ok (k, []).

Lemma ct_update_t_unfold k now tx :
  update_t k now tx =
  let k1 := if updated k =? 0 then set_timer k (state k) now 1 else k in
  let slap := itimediff now (ts_flush k1) in
  if (slap >=? 10000) || (slap <? -10000)
  then ct_upd_tail (set_timer k1 (state k1) now (updated k1)) 0 now tx
  else ct_upd_tail k1 slap now tx.
Proof.
  unfold update_t, ct_upd_tail. cbv zeta.
  destruct ((itimediff now (ts_flush (if updated k =? 0 then set_timer k (state k) now 1 else k)) >=? 10000)
            || (itimediff now (ts_flush (if updated k =? 0 then set_timer k (state k) now 1 else k)) <? -10000));
    reflexivity.
Qed.

Lemma ct_timer_facts tx k st tsf upd now n :
  inv k -> rto_inv k -> cl_cinv_t tx k -> cl_fresh_t tx k now n ->
  inv (set_timer k st tsf upd) /\ rto_inv (set_timer k st tsf upd) /\ cl_cinv_t tx (set_timer k st tsf upd) /\
  cl_fresh_t tx (set_timer k st tsf upd) now n.
Proof.
  intros Hi Hr Hc Hf. split; [apply inv_set_timer; exact Hi|]. split; [exact Hr|].
  split; [eapply ct_same_cinv; [| | | |exact Hc]; reflexivity|].
  eapply ct_same_fresh; [| |exact Hf]; reflexivity.
Qed.

Lemma ct_upd_tail_clean tx k slap now k' o :
  0 <= tx -> inv k -> rto_inv k -> cl_cinv_t tx k -> cl_fresh_t tx k now (Z.of_nat (length o)) ->
  ct_upd_tail k slap now tx = Ok (k', o) -> inv k' /\ rto_inv k' /\ cl_cinv_t tx k' /\ cl_once o.
Proof.
  intros Htx Hi Hr Hc Hf H. unfold ct_upd_tail in H.
  destruct (slap >=? 0); [|inversion H; subst; split; [exact Hi|]; split; [exact Hr|]; split; [exact Hc|exact cl_once_nil]].
  cbv zeta in H.
  match type of H with context [flush_t (set_timer k ?a ?b ?c) FLUSH_FULL now tx] =>
    destruct (ct_timer_facts tx k a b c now _ Hi Hr Hc Hf) as (Hi1 & Hr1 & Hc1 & Hf1);
    destruct (flush_t (set_timer k a b c) FLUSH_FULL now tx) as [[[k2 nx] o2]|w] eqn:Ef; [|discriminate] end.
  inversion H; subst k' o.
  eapply ct_flush_clean; [exact Htx|exact Hi1|exact Hr1|exact Hc1|intros _; exact Hf1|exact Ef].
Qed.

(* ---- one call ---- *)
Lemma ct_ndg_eq tx k o k' x : step_t tx k o = Ok (k', x) -> ct_ndg tx k o = Z.of_nat (length (o_dgrams x)).
Proof. intros H. unfold ct_ndg. rewrite H. reflexivity. Qed.

Lemma ct_step_clean tx k o k' x :
  0 <= tx -> inv k -> rto_inv k -> cl_cinv_t tx k -> op_ok o -> cl_op_ok_t tx k o ->
  step_t tx k o = Ok (k', x) ->
  inv k' /\ rto_inv k' /\ cl_cinv_t tx k' /\ cl_once (o_dgrams x).
Proof.
  intros Htx Hi Hr Hc Hop Hcl Hs. pose proof (ct_ndg_eq _ _ _ _ _ Hs) as Hn.
  (* the calls that do not read the clock are Step.step *)
  assert (Hquiet : step_t tx k o = step k o -> inv k' /\ rto_inv k').
  { intros E. rewrite E in Hs.
    destruct (step_ok_full k o Hi Hop) as (k2 & x2 & Hs2 & Hi2 & _ & Hk).
    rewrite Hs2 in Hs. inversion Hs; subst k2 x2.
    split; [exact Hi2|]. apply Hk; [|exact Hr]. destruct o; try exact I. destruct Hcl. }
  destruct o as [b|n|d reg nd now|full now|now|now|m|nd iv rs nc]; cbn [step_t] in Hs; cbn [cl_op_ok_t op_ok] in *.
  - destruct (Hquiet eq_refl) as (Hi' & Hr'). split; [exact Hi'|]. split; [exact Hr'|].
    destruct (send k b) as [[k1 r]|w] eqn:E; [|discriminate]. inversion Hs; subst k' x. cbn [o_dgrams].
    split; [exact (ct_send_cinv _ _ _ _ _ E Hc)|exact cl_once_nil].
  - destruct (Hquiet eq_refl) as (Hi' & Hr'). split; [exact Hi'|]. split; [exact Hr'|].
    destruct (recv k n) as [[k1 r] d] eqn:E. inversion Hs; subst k' x. cbn [o_dgrams].
    destruct (cl_recv_same _ _ _ _ _ E) as (F1 & F2 & F3 & F4).
    split; [exact (ct_same_cinv _ _ _ F1 F2 F3 F4 Hc)|exact cl_once_nil].
  - clear Hquiet. destruct Hcl as (Hord & Hfr). rewrite Hn in Hfr. unfold input_t in Hs.
    destruct (input_pre k d reg nd now) as [[[k1 c] fr]|w] eqn:E; [|discriminate].
    pose proof (cl_input_pre_pre _ _ _ _ _ _ _ _ Hi Hop E Hord) as Hpre.
    pose proof (ct_pre_cinv _ _ _ Hpre Hc) as Hc1.
    pose proof (ct_pre_fresh _ _ _ _ _ Hpre Hfr) as Hf1.
    destruct (input_pre_ok k d reg nd now Hi Hop) as (k2 & r2 & fr2 & E2 & Hi1 & Hr1 & _).
    rewrite E in E2. inversion E2; subst k2 r2 fr2. specialize (Hr1 Hr).
    destruct fr.
    + inversion Hs; subst k' x. cbn [o_dgrams]. split; [exact Hi1|]. split; [exact Hr1|]. split; [exact Hc1|exact cl_once_nil].
    + destruct (flush_t k1 FLUSH_ACKONLY now tx) as [[[k2 nx] o]|w] eqn:Ef; [|discriminate].
      inversion Hs; subst k' x. cbn [o_dgrams] in *.
      apply (ct_flush_clean tx k1 FLUSH_ACKONLY now k2 nx o Htx Hi1 Hr1 Hc1);
        [intros Hft; vm_compute in Hft; discriminate|exact Ef].
    + destruct (flush_t k1 FLUSH_FULL now tx) as [[[k2 nx] o]|w] eqn:Ef; [|discriminate].
      inversion Hs; subst k' x. cbn [o_dgrams] in *.
      eapply ct_flush_clean; [exact Htx|exact Hi1|exact Hr1|exact Hc1|intros _; exact Hf1|exact Ef].
  - clear Hquiet. destruct (flush_t k _ now tx) as [[[k2 nx] o]|w] eqn:Ef; [|discriminate].
    inversion Hs; subst k' x. cbn [o_dgrams] in *.
    apply (ct_flush_clean tx k (if full then FLUSH_FULL else FLUSH_ACKONLY) now k2 nx o Htx Hi Hr Hc); [|exact Ef].
    intros Hft. rewrite <- Hn. apply Hcl. destruct full; [reflexivity|vm_compute in Hft; discriminate].
  - clear Hquiet. rewrite Hn in Hcl.
    destruct (update_t k now tx) as [[k2 o]|w] eqn:Eu; [|discriminate]. inversion Hs; subst k' x.
    cbn [o_dgrams] in *.
    rewrite ct_update_t_unfold in Eu. cbv zeta in Eu.
    set (k1 := if updated k =? 0 then set_timer k (state k) now 1 else k) in *.
    assert (H1 : inv k1 /\ rto_inv k1 /\ cl_cinv_t tx k1 /\ cl_fresh_t tx k1 now (Z.of_nat (length o))).
    { unfold k1. destruct (updated k =? 0); [apply ct_timer_facts; assumption|auto]. }
    destruct H1 as (Hi1 & Hr1 & Hc1 & Hf1).
    destruct (_ || _) in Eu.
    + destruct (ct_timer_facts tx k1 (state k1) now (updated k1) now _ Hi1 Hr1 Hc1 Hf1) as (Hi2 & Hr2 & Hc2 & Hf2).
      eapply ct_upd_tail_clean; [exact Htx|exact Hi2|exact Hr2|exact Hc2|exact Hf2|exact Eu].
    + eapply ct_upd_tail_clean; [exact Htx|exact Hi1|exact Hr1|exact Hc1|exact Hf1|exact Eu].
  - destruct (Hquiet eq_refl) as (Hi' & Hr'). split; [exact Hi'|]. split; [exact Hr'|].
    inversion Hs; subst k' x. cbn [o_dgrams]. split; [exact Hc|exact cl_once_nil].
  - destruct (Hquiet eq_refl) as (Hi' & Hr'). split; [exact Hi'|]. split; [exact Hr'|].
    pose proof (cl_set_mtu_same k m) as (F1 & F2 & F3 & F4).
    destruct (set_mtu k m) as [k1 r]. inversion Hs; subst k' x. cbn [o_dgrams fst] in *.
    split; [exact (ct_same_cinv _ _ _ F1 F2 F3 F4 Hc)|exact cl_once_nil].
  - destruct Hcl.
Qed.

(* ---- whole histories ---- *)
Lemma ct_run_clean tx : 0 <= tx -> forall ops k k' outs,
  inv k -> rto_inv k -> cl_cinv_t tx k -> Forall op_ok ops -> clean_history_t tx k ops ->
  run_t tx k ops = Some (k', outs) ->
  inv k' /\ rto_inv k' /\ cl_cinv_t tx k' /\ Forall (fun x => cl_once (o_dgrams x)) outs.
Proof.
  intros Htx. induction ops as [|o t IH]; intros k k' outs Hi Hr Hc Hops Hcl Hrun; cbn [run_t] in Hrun.
  - inversion Hrun; subst. auto.
  - inversion Hops as [|? ? Ho Ht]; subst. cbn [clean_history_t] in Hcl. destruct Hcl as (Hco & Hct).
    destruct (step_t tx k o) as [[k1 x]|w] eqn:Es; [|discriminate].
    destruct (run_t tx k1 t) as [[k2 xs]|] eqn:Er; [|discriminate].
    inversion Hrun; subst k' outs.
    destruct (ct_step_clean _ _ _ _ _ Htx Hi Hr Hc Ho Hco Es) as (Hi1 & Hr1 & Hc1 & Ho1).
    destruct (IH _ _ _ Hi1 Hr1 Hc1 Ht Hct Er) as (Hi2 & Hr2 & Hc2 & Ho2).
    split; [exact Hi2|]. split; [exact Hr2|]. split; [exact Hc2|]. constructor; assumption.
Qed.

Lemma ct_seg_ok_xmit tx m s : cl_seg_ok_t tx m s -> s_xmit s <= 1 /\ s_fastack s = 0.
Proof. intros (F & [X|(X & _)]); split; try exact F; lia. Qed.

(* the clean sender, with the callback taking tx ms per datagram *)
Theorem ct_clean_sender_t : forall tx ops k k' outs,
  0 <= tx -> inv k -> rto_inv k -> cl_cinv_t tx k -> Forall op_ok ops -> clean_history_t tx k ops ->
  run_t tx k ops = Some (k', outs) ->
  Forall (fun s => s_xmit s <= 1 /\ s_fastack s = 0) (snd_buf k') /\
  Forall (fun x => cl_once (o_dgrams x)) outs.
Proof.
  intros tx ops k k' outs Htx Hi Hr Hc Hops Hcl Hrun.
  destruct (ct_run_clean tx Htx _ _ _ _ Hi Hr Hc Hops Hcl Hrun) as (_ & _ & [_ C2 _] & Ho).
  split; [|exact Ho]. eapply Forall_impl; [|exact C2]. intros s. apply ct_seg_ok_xmit.
Qed.

(* ... in every state the history passes through *)
Lemma ct_history_app tx : forall a b k, clean_history_t tx k (a ++ b) -> clean_history_t tx k a.
Proof.
  induction a as [|o t IH]; intros b k H; [exact I|].
  cbn [app clean_history_t] in *. destruct H as (H1 & H2). split; [exact H1|].
  destruct (step_t tx k o) as [[k1 x]|w]; [eapply IH; exact H2|exact I].
Qed.

Lemma ct_run_app tx : forall a b k k' outs, run_t tx k (a ++ b) = Some (k', outs) ->
  exists k1 o1, run_t tx k a = Some (k1, o1).
Proof.
  induction a as [|o t IH]; intros b k k' outs H; [exists k, []; reflexivity|].
  cbn [app run_t] in *. destruct (step_t tx k o) as [[k1 x]|w]; [|discriminate].
  destruct (run_t tx k1 (t ++ b)) as [[k2 xs]|] eqn:E; [|discriminate].
  destruct (IH _ _ _ _ E) as (k3 & o3 & E3). rewrite E3. eexists _, _. reflexivity.
Qed.

Theorem ct_clean_sender_t_always : forall tx ops1 ops2 k k' outs,
  0 <= tx -> inv k -> rto_inv k -> cl_cinv_t tx k -> Forall op_ok (ops1 ++ ops2) ->
  clean_history_t tx k (ops1 ++ ops2) -> run_t tx k (ops1 ++ ops2) = Some (k', outs) ->
  exists k1 outs1, run_t tx k ops1 = Some (k1, outs1) /\
    Forall (fun s => s_xmit s <= 1 /\ s_fastack s = 0) (snd_buf k1) /\
    Forall (fun x => cl_once (o_dgrams x)) outs1.
Proof.
  intros tx ops1 ops2 k k' outs Htx Hi Hr Hc Hops Hcl Hrun.
  destruct (ct_run_app _ _ _ _ _ _ Hrun) as (k1 & o1 & E1). exists k1, o1. split; [exact E1|].
  apply Forall_app in Hops.
  exact (ct_clean_sender_t _ _ _ _ _ Htx Hi Hr Hc (proj1 Hops) (ct_history_app _ _ _ _ Hcl) E1).
Qed.

(* ------------------------------------------------------------------ *)
(* 5. tx = 0 gives back Clean.v                                        *)
(* ------------------------------------------------------------------ *)
Lemma ct_seg_ok_zero m s : cl_seg_ok_t 0 m s <-> cl_seg_ok m s.
Proof.
  unfold cl_seg_ok_t, cl_seg_ok. split; intros (F & H); (split; [exact F|]);
    (destruct H as [H|(H1 & H2 & H3)]; [left; exact H|right; split; [exact H1|split; [|exact H3]]]).
  - destruct H2 as (c & Hc & E). assert (c = s_ts s) by lia. subst c. exact E.
  - exists (s_ts s). split; [lia|exact H2].
Qed.

(* the old invariant is an instance of the new one for every tx >= 0 (c := s_ts s) *)
Lemma ct_seg_ok_of_old tx m s : 0 <= tx -> cl_seg_ok m s -> cl_seg_ok_t tx m s.
Proof.
  intros Ht (F & H). split; [exact F|]. destruct H as [H|(H1 & H2 & H3)]; [left; exact H|right].
  split; [exact H1|]. split; [|exact H3]. exists (s_ts s). split; [lia|exact H2].
Qed.

Lemma ct_cinv_of_old tx k : 0 <= tx -> cl_cinv k -> cl_cinv_t tx k.
Proof.
  intros Ht [C1 C2 C3]. constructor; [exact C1| |exact C3].
  eapply Forall_impl; [|exact C2]. intros s. apply ct_seg_ok_of_old. exact Ht.
Qed.

Lemma ct_cinv_zero k : cl_cinv_t 0 k <-> cl_cinv k.
Proof.
  split.
  - intros [C1 C2 C3]. constructor; [exact C1| |exact C3].
    eapply Forall_impl; [|exact C2]. intros s. apply ct_seg_ok_zero.
  - apply ct_cinv_of_old. lia.
Qed.

Lemma ct_fresh_zero k now n : cl_fresh_t 0 k now n <-> cl_fresh k now.
Proof.
  unfold cl_fresh_t, cl_fresh. rewrite !Forall_forall.
  split; intros H s Hs Ha Hx; specialize (H s Hs Ha Hx); lia.
Qed.

Lemma ct_op_ok_zero k o : cl_op_ok_t 0 k o <-> cl_op_ok k o.
Proof.
  destruct o as [b|n|d reg nd now|full now|now|now|m|nd iv rs nc]; cbn [cl_op_ok_t cl_op_ok];
    rewrite ?ct_fresh_zero; reflexivity.
Qed.

Lemma ct_history_zero : forall ops k, Forall op_time_ok ops ->
  (clean_history_t 0 k ops <-> clean_history k ops).
Proof.
  induction ops as [|o t IH]; intros k H; cbn [clean_history_t clean_history]; [reflexivity|].
  inversion H as [|x y Ho Ht]; subst x y. rewrite (ct_step_t_zero k o Ho), ct_op_ok_zero.
  destruct (step k o) as [[k1 x]|w]; [rewrite (IH k1 Ht)|]; reflexivity.
Qed.

(* the tx = 0 instance of ct_clean_sender_t is Clean.cl_clean_sender (C18b.c18_clean_sender) for
   histories whose clock arguments are 32-bit clock values *)
Theorem ct_zero_instance : forall ops k k' outs,
  Forall op_time_ok ops ->
  inv k -> rto_inv k -> cl_cinv k -> Forall op_ok ops -> clean_history k ops ->
  run k ops = Some (k', outs) ->
  Forall (fun s => s_xmit s <= 1 /\ s_fastack s = 0) (snd_buf k') /\
  Forall (fun x => cl_once (o_dgrams x)) outs.
Proof.
  intros ops k k' outs Hto Hi Hr Hc Hops Hcl Hrun.
  apply (ct_clean_sender_t 0 ops k k' outs); try assumption; [lia| | |].
  - apply ct_cinv_zero. exact Hc.
  - apply ct_history_zero; assumption.
  - rewrite ct_run_t_zero; assumption.
Qed.

(* ------------------------------------------------------------------ *)
(* 6. deciding clean_history_t on concrete histories; an example       *)
(* ------------------------------------------------------------------ *)
Lemma ct_fresh_b_sound tx k now n : cl_fresh_t_b tx k now n = true -> cl_fresh_t tx k now n.
Proof.
  unfold cl_fresh_t_b, cl_fresh_t. rewrite forallb_forall, Forall_forall. intros H s Hs Ha Hx.
  specialize (H s Hs). apply orb_true_iff in H. destruct H as [H|H].
  - apply orb_true_iff in H. destruct H as [H|H]; lv_b2z; contradiction.
  - apply andb_true_iff in H. destruct H as (H1 & H2). lv_b2z. lia.
Qed.

Lemma ct_op_ok_b_sound tx k o : cl_op_ok_t_b tx k o = true -> cl_op_ok_t tx k o.
Proof.
  destruct o as [b|n|d reg nd now|full now|now|now|m|nd iv rs nc]; cbn [cl_op_ok_t_b cl_op_ok_t]; intros H; try exact I.
  - apply andb_true_iff in H. destruct H as (H1 & H2).
    split; [apply cl_acks_in_order_b_sound; exact H1|apply ct_fresh_b_sound; exact H2].
  - intros Hf. subst full. cbn [negb orb] in H. apply ct_fresh_b_sound. exact H.
  - apply ct_fresh_b_sound. exact H.
  - discriminate.
Qed.

Lemma ct_history_b_sound tx : forall ops k, clean_history_t_b tx k ops = true -> clean_history_t tx k ops.
Proof.
  induction ops as [|o t IH]; intros k H; cbn [clean_history_t_b clean_history_t] in *; [exact I|].
  apply andb_true_iff in H. destruct H as (H1 & H2). split; [apply ct_op_ok_b_sound; exact H1|].
  destruct (step_t tx k o) as [[k1 x]|w]; [apply IH; exact H2|exact I].
Qed.

Definition ct_bytes_b (b : bytes) : bool := forallb (fun x => (0 <=? x) && (x <? 256)) b.
Definition ct_op_ok_b (o : op) : bool :=
  match o with OSend b => ct_bytes_b b | OInput d _ _ _ => ct_bytes_b d | _ => true end.

Lemma ct_bytes_b_sound b : ct_bytes_b b = true -> is_byte_list b.
Proof.
  unfold ct_bytes_b, is_byte_list. rewrite forallb_forall, Forall_forall. intros H x Hx.
  specialize (H x Hx). apply andb_true_iff in H. destruct H as (H1 & H2). lv_b2z. lia.
Qed.

Lemma ct_ops_ok_b_sound ops : forallb ct_op_ok_b ops = true -> Forall op_ok ops.
Proof.
  rewrite forallb_forall, Forall_forall. intros H o Ho. specialize (H o Ho).
  destruct o; cbn [ct_op_ok_b op_ok] in *; try exact I; apply ct_bytes_b_sound; exact H.
Qed.

(* The example.  Start: FlushTProofs.ft_ex_k0 = a new endpoint (conv 5) with the congestion window
   switched off (NoDelay(0,-1,-1,1) BEFORE the history; rx_minrto = 100, rx_rto = 200).
   tx = 2 ms per datagram.  Four full-size messages (1376 bytes = mss) are queued; Update 1000
   transmits them in ONE flush, one datagram each: readings 1000,1000,1002,1004 become the
   timestamps, the timers are armed from 1000,1000,1000,1002.  The four ACKs (sn i, echoing ts_i,
   una i+1) are fed in order at 1030..1033, a last Update at 1200 finds nothing to do. *)
Definition ct_ex_ack (sn ts : Z) : bytes := encode_seg (mkSeg 5 82 0 32 ts sn (sn + 1) 0 0 0 0 0 []).
Definition ct_ex_ops : list op :=
  [OSend ft_ex_msg; OSend ft_ex_msg; OSend ft_ex_msg; OSend ft_ex_msg; OUpdate 1000;
   OInput (ct_ex_ack 0 1000) true false 1030; OInput (ct_ex_ack 1 1000) true false 1031;
   OInput (ct_ex_ack 2 1002) true false 1032; OInput (ct_ex_ack 3 1004) true false 1033;
   OUpdate 1200].

(* (cmd, sn, ts, length) of the first segment of a datagram *)
Definition ct_ex_dgram_view (d : bytes) : Z * Z * Z * nat :=
  (nth 4 d 0, rd32 (skipn 12 d), rd32 (skipn 8 d), length d).

Example ct_example_history :
  clean_history_t_b 2 ft_ex_k0 ct_ex_ops = true /\
  forallb ct_op_ok_b ct_ex_ops = true /\ forallb op_time_ok_b ct_ex_ops = true /\
  exists k' outs, run_t 2 ft_ex_k0 ct_ex_ops = Some (k', outs) /\
    snd_buf k' = [] /\ snd_queue k' = [] /\
    map (fun x => length (o_dgrams x)) outs = [0; 0; 0; 0; 4; 0; 0; 0; 0; 0]%nat /\
    map ct_ex_dgram_view (concat (map o_dgrams outs)) =
      [(81, 0, 1000, 1400%nat); (81, 1, 1000, 1400%nat); (81, 2, 1002, 1400%nat); (81, 3, 1004, 1400%nat)].
Proof.
  split; [vm_compute; reflexivity|]. split; [vm_compute; reflexivity|]. split; [vm_compute; reflexivity|].
  eexists _, _. split; [vm_compute; reflexivity|]. vm_compute. repeat split.
Qed.

(* the start state satisfies the premises of the theorem *)
Lemma ct_example_start : inv ft_ex_k0 /\ rto_inv ft_ex_k0 /\ cl_cinv_t 2 ft_ex_k0.
Proof.
  split; [apply nodelay_inv, inv_new; unfold W32; lia|]. split; [vm_compute; discriminate|].
  constructor.
  - replace (snd_queue ft_ex_k0) with (@nil seg) by reflexivity. constructor.
  - replace (snd_buf ft_ex_k0) with (@nil seg) by reflexivity. constructor.
  - replace (fastresend ft_ex_k0) with 0 by reflexivity. unfold H32. lia.
Qed.

(* ... so the theorem applies to the example *)
Example ct_example_theorem : forall k' outs, run_t 2 ft_ex_k0 ct_ex_ops = Some (k', outs) ->
  Forall (fun s => s_xmit s <= 1 /\ s_fastack s = 0) (snd_buf k') /\
  Forall (fun x => cl_once (o_dgrams x)) outs.
Proof.
  intros k' outs Hrun. destruct ct_example_start as (Hi & Hr & Hc).
  destruct ct_example_history as (Hh & Ho & _).
  apply (ct_clean_sender_t 2 ct_ex_ops ft_ex_k0 k' outs).
  - lia.
  - exact Hi.
  - exact Hr.
  - exact Hc.
  - apply ct_ops_ok_b_sound. exact Ho.
  - apply ct_history_b_sound. exact Hh.
  - exact Hrun.
Qed.

(* the boundary of H2t: the same burst with the last ACK (segment 3, stamped 1004) fed at time t.
   The Input hands no datagram to the callback (n = 0), so H2t asks (t - 1004) + 2 * 0 < 100 - 2:
   t = 1101 is the last clean instant (the one-reading criterion H2 of Clean.v would allow 1103). *)
Definition ct_ex_ops_late (t : Z) : list op :=
  [OSend ft_ex_msg; OSend ft_ex_msg; OSend ft_ex_msg; OSend ft_ex_msg; OUpdate 1000;
   OInput (ct_ex_ack 0 1000) true false 1030; OInput (ct_ex_ack 1 1000) true false 1031;
   OInput (ct_ex_ack 2 1002) true false 1032; OInput (ct_ex_ack 3 1004) true false t].

Example ct_example_boundary :
  clean_history_t_b 2 ft_ex_k0 (ct_ex_ops_late 1101) = true /\
  clean_history_t_b 2 ft_ex_k0 (ct_ex_ops_late 1102) = false.
Proof. split; vm_compute; reflexivity. Qed.
