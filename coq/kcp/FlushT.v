(* flush with a clock that advances while the output callback blocks.

   Kcp.flush sees ONE clock value.  The Go code (kcp.go, func (kcp *KCP) flush) reads the clock
   several times inside one flush:
     - phase 2: `current := currentMs()` (only when rmt_wnd == 0);
     - phase 5: `current := currentMs()` before the loop over snd_buf;
     - phase 5, for every segment that is (re)transmitted: `current = currentMs()` inside
       `if needsend {`, BEFORE makeSpace/encode of that segment.  Note the order:
       `segment.resendts = current + segment.rto` is computed in the decision part with the
       PREVIOUS reading; then the clock is re-read; `segment.ts = current` and the "nearest rto"
       computation use the NEW reading.
   Time passes inside a flush only while the user's output callback runs (makeSpace calls it when
   the staging buffer is full; the deferred flushBuffer calls it once at the end).

   Here the callback takes `tx` milliseconds per datagram: the clock after the outputs made so far
   is  now + tx * (number of datagrams already handed to the callback).  tx = 0 is Kcp.flush
   (FlushTProofs.c18c_flush_t_zero).  No proofs in this file; everything is executable. *)
From Coq Require Import ZArith List Bool.
From KV.Base Require Import Consts Word.
From KV.Kcp Require Import Kcp.
Import ListNotations.
Local Open Scope Z_scope.

(* the clock without the 32-bit wrap, and what currentMs() returns *)
Definition clkZ (now tx : Z) (st : stage) : Z := now + tx * Z.of_nat (length (outs st)).
Definition clk (now tx : Z) (st : stage) : Z := u32 (now + tx * Z.of_nat (length (outs st))).

(* phase 5, one segment.  `cur` is the Go variable `current` on entry; the third component of the
   result is its value on exit. *)
Definition flush_seg_t (k : kcp) (h : seg) (resent : Z) (newsegs : Z) (now tx : Z) (cur : Z)
    (s : seg) (a : fl) : res (seg * fl * Z) :=
  if s_acked s =? 1 then Ok (s, a, cur)
  else
    let '(needsend, rto, resendts, fastack, a1) :=
      if s_xmit s =? 0 then
        (true, rx_rto k, u32 (cur + rx_rto k), s_fastack s, a)
      else if (s_fastack s >=? resent) && negb (s_fastack s =? 4294967295) then
        (true, rx_rto k, u32 (cur + rx_rto k), 4294967295,
         mkFl (f_st a) (f_change a + 1) (f_lost a) (f_fast a + 1) (f_early a) (f_next a) (f_dead a))
      else if (s_fastack s >? 0) && negb (s_fastack s =? 4294967295) && (newsegs =? 0) then
        (true, rx_rto k, u32 (cur + rx_rto k), 4294967295,
         mkFl (f_st a) (f_change a + 1) (f_lost a) (f_fast a) (f_early a + 1) (f_next a) (f_dead a))
      else if itimediff cur (s_resendts s) >=? 0 then
        let rto := if nodelay k =? 0 then u32 (s_rto s + rx_rto k) else u32 (s_rto s + rx_rto k / 2) in
        (true, rto, u32 (cur + rto), 0,
         mkFl (f_st a) (f_change a) (f_lost a + 1) (f_fast a) (f_early a) (f_next a) (f_dead a))
      else (false, s_rto s, s_resendts s, s_fastack s, a) in
    let finish (c : Z) (s' : seg) (a' : fl) : res (seg * fl * Z) :=
      let d := itimediff (s_resendts s') c in
      let nx := if (d >? 0) && (d <? f_next a') then d else f_next a' in
      Ok (s', mkFl (f_st a') (f_change a') (f_lost a') (f_fast a') (f_early a') nx (f_dead a'), c) in
    if needsend then
      let cur' := clk now tx (f_st a1) in        (* current = currentMs(), before makeSpace *)
      let s' := mkSeg (s_conv s) (s_cmd s) (s_frg s) (s_wnd h) cur' (s_sn s) (s_una h)
                      rto (u32 (s_xmit s + 1)) resendts fastack (s_acked s) (s_data s) in
      let st1 := make_space k (f_st a1) (c_IKCP_OVERHEAD + blen (s_data s)) in
      match stage_write k st1 s' with
      | Panic w => Panic w
      | Ok st2 =>
          finish cur' s' (mkFl st2 (f_change a1) (f_lost a1) (f_fast a1) (f_early a1) (f_next a1)
                               ((s_xmit s' >=? dead_link k) || f_dead a1))
      end
    else
      finish cur (mkSeg (s_conv s) (s_cmd s) (s_frg s) (s_wnd s) (s_ts s) (s_sn s) (s_una s)
                        rto (s_xmit s) resendts fastack (s_acked s) (s_data s)) a1.

Fixpoint flush_segs_t (k : kcp) (h : seg) (resent newsegs now tx cur : Z) (l : list seg) (a : fl)
  : res (list seg * fl * Z) :=
  match l with
  | [] => Ok ([], a, cur)
  | s :: t =>
      match flush_seg_t k h resent newsegs now tx cur s a with
      | Panic w => Panic w
      | Ok (s', a', cur') =>
          match flush_segs_t k h resent newsegs now tx cur' t a' with
          | Panic w => Panic w
          | Ok (t', a'', cur'') => Ok (s' :: t', a'', cur'')
          end
      end
  end.

(* flush(flushType) with the callback taking tx ms per datagram:
   (state, suggested interval, datagrams in emission order) *)
Definition flush_t (k : kcp) (ftype : Z) (now tx : Z) : res (kcp * Z * list bytes) :=
  let h0 := mkSeg (conv k) c_IKCP_CMD_ACK 0 (wnd_unused k) 0 0 (rcv_nxt k) 0 0 0 0 0 [] in
  let st0 := mkStage [] [] in
  (* phase 1 *)
  match (if (ftype =? FLUSH_ACKONLY) || (ftype =? FLUSH_FULL)
         then match flush_acks k h0 st0 (acklist k) with
              | Ok (h, st) => Ok (h, st, set_acklist k [])
              | Panic w => Panic w
              end
         else Ok (h0, st0, k)) with
  | Panic w => Panic w
  | Ok (h1, st1, k1) =>
  (* phase 2: current := currentMs() after the outputs of phase 1 *)
  let now2 := clk now tx st1 in
  let k2 :=
    if rmt_wnd k1 =? 0 then
      if probe_wait k1 =? 0 then set_probe k1 (probe k1) (u32 (now2 + c_IKCP_PROBE_INIT)) c_IKCP_PROBE_INIT
      else if itimediff now2 (ts_probe k1) >=? 0 then
        let pw := if probe_wait k1 <? c_IKCP_PROBE_INIT then c_IKCP_PROBE_INIT else probe_wait k1 in
        let pw := u32 (pw + pw / 2) in
        let pw := if pw >? c_IKCP_PROBE_LIMIT then c_IKCP_PROBE_LIMIT else pw in
        set_probe k1 (Z.lor (probe k1) c_IKCP_ASK_SEND) (u32 (now2 + pw)) pw
      else k1
    else set_probe k1 (probe k1) 0 0 in
  (* phase 3 *)
  let wask := negb (Z.land (probe k2) c_IKCP_ASK_SEND =? 0) in
  let wins := negb (Z.land (probe k2) c_IKCP_ASK_TELL =? 0) in
  let hdr c := mkSeg (s_conv h1) c (s_frg h1) (s_wnd h1) (s_ts h1) (s_sn h1) (s_una h1) 0 0 0 0 0 [] in
  match (if wask then stage_write k2 (make_space k2 st1 c_IKCP_OVERHEAD) (hdr c_IKCP_CMD_WASK) else Ok st1) with
  | Panic w => Panic w
  | Ok st2 =>
  match (if wins then stage_write k2 (make_space k2 st2 c_IKCP_OVERHEAD) (hdr c_IKCP_CMD_WINS) else Ok st2) with
  | Panic w => Panic w
  | Ok st3 =>
  let k3 := set_probe_flags k2 0 in
  (* phase 4 *)
  let cw0 := Z.min (snd_wnd k3) (rmt_wnd k3) in
  let cw := if nocwnd k3 =? 0 then Z.min (cwnd k3) cw0 else cw0 in
  let '(sq, sb, nxt, newsegs) :=
    if ftype =? FLUSH_FULL
    then admit_segs (snd_queue k3) (snd_buf k3) (conv k3) (snd_una k3) (snd_nxt k3) cw 0
    else (snd_queue k3, snd_buf k3, snd_nxt k3, 0) in
  let k4 := set_snd_nxt (set_queues k3 sq (rcv_queue k3) sb (rcv_buf k3)) nxt in
  let resent := if fastresend k4 <=? 0 then 4294967295 else u32 (fastresend k4) in
  (* phase 5: current := currentMs() after the outputs of phases 1 and 3 *)
  let a0 := mkFl st3 0 0 0 0 (interval k4) false in
  match (if ftype =? FLUSH_FULL
         then match flush_segs_t k4 h1 resent newsegs now tx (clk now tx st3) (snd_buf k4) a0 with
              | Ok (sb', a, _) => Ok (sb', a)
              | Panic w => Panic w
              end
         else Ok (snd_buf k4, a0)) with
  | Panic w => Panic w
  | Ok (sb', a) =>
  let k5 := set_snd_buf k4 sb' in
  let k5 := if f_dead a then set_timer k5 4294967295 (ts_flush k5) (updated k5) else k5 in
  (* phase 6 *)
  let k6 :=
    if nocwnd k5 =? 0 then
      let k := k5 in
      let k := if f_change a >? 0 then
                 let inflight := u32 (snd_nxt k - snd_una k) in
                 let sst := Z.max (inflight / 2) c_IKCP_THRESH_MIN in
                 let cwn := u32 (sst + resent) in
                 set_cc k sst (rmt_wnd k) cwn (u32 (cwn * mss k))
               else k in
      let k := if f_lost a >? 0 then set_cc k (Z.max (cw / 2) c_IKCP_THRESH_MIN) (rmt_wnd k) 1 (mss k) else k in
      if cwnd k <? 1 then set_cc k (ssthresh k) (rmt_wnd k) 1 (mss k) else k
    else k5 in
  Ok (k6, f_next a, flush_buffer (f_st a))
  end end end end.

(* Input(data, pktType, ackNoDelay): Input reads the clock once at its start (`now`), before any
   output; the flush it requests starts with that clock and advances it by tx per datagram *)
Definition input_t (k : kcp) (data : bytes) (regular ack_nodelay : bool) (now tx : Z)
  : res (kcp * Z * list bytes) :=
  match input_pre k data regular ack_nodelay now with
  | Panic w => Panic w
  | Ok (k, code, FNone) => Ok (k, code, [])
  | Ok (k, code, fr) =>
      match flush_t k (match fr with FFull => FLUSH_FULL | _ => FLUSH_ACKONLY end) now tx with
      | Ok (k', _, o) => Ok (k', code, o)
      | Panic w => Panic w
      end
  end.

Definition update_t (k : kcp) (now tx : Z) : res (kcp * list bytes) :=
  let k := if updated k =? 0 then set_timer k (state k) now 1 else k in
  let slap := itimediff now (ts_flush k) in
  let '(k, slap) := if (slap >=? 10000) || (slap <? -10000) then (set_timer k (state k) now (updated k), 0) else (k, slap) in
  if slap >=? 0 then
    let tsf := u32 (ts_flush k + interval k) in
    let tsf := if itimediff now tsf >=? 0 then u32 (now + interval k) else tsf in
    match flush_t (set_timer k (state k) tsf (updated k)) FLUSH_FULL now tx with
    | Ok (k', _, o) => Ok (k', o) | Panic w => Panic w end
  else Ok (k, []).
