(* Operation sequences on one endpoint, and the invariant of Appendix B.1.
   Definitions only (no proofs). *)
From Coq Require Import ZArith List Bool.
From KV.Base Require Import Consts Word.
From KV.Kcp Require Import Kcp.
Import ListNotations.
Local Open Scope Z_scope.

Definition is_byte_list (b : bytes) : Prop := Forall (fun x => 0 <= x < 256) b.

(* Every API call of the core, with arbitrary arguments; `now` is whatever the clock says -
   not even required to be monotone. *)
Inductive op :=
| OSend (b : bytes)
| ORecv (buflen_ : Z)
| OInput (d : bytes) (regular ack_nodelay : bool) (now : Z)   (* ANY byte string *)
| OFlush (full : bool) (now : Z)
| OUpdate (now : Z)
| OCheck (now : Z)
| OSetMtu (m : Z)
| ONoDelay (nd iv rs nc : Z).

(* the only requirement on arguments: byte strings consist of bytes *)
Definition op_ok (o : op) : Prop :=
  match o with
  | OSend b => is_byte_list b
  | OInput d _ _ _ => is_byte_list d
  | _ => True
  end.

(* what a call hands back: return code, bytes read, datagrams given to the output callback *)
Record out := mkOut { o_ret : Z; o_data : bytes; o_dgrams : list bytes }.

Definition step (k : kcp) (o : op) : res (kcp * out) :=
  match o with
  | OSend b => match send k b with Ok (k', r) => Ok (k', mkOut r [] []) | Panic w => Panic w end
  | ORecv n => let '(k', r, d) := recv k n in Ok (k', mkOut r d [])
  | OInput d reg nd now =>
      match input k d reg nd now with Ok (k', r, o) => Ok (k', mkOut r [] o) | Panic w => Panic w end
  | OFlush full now =>
      match flush k (if full then FLUSH_FULL else FLUSH_ACKONLY) now with
      | Ok (k', nx, o) => Ok (k', mkOut nx [] o) | Panic w => Panic w end
  | OUpdate now => match update k now with Ok (k', o) => Ok (k', mkOut 0 [] o) | Panic w => Panic w end
  | OCheck now => Ok (k, mkOut (check k now) [] [])
  | OSetMtu m => let '(k', r) := set_mtu k m in Ok (k', mkOut r [] [])
  | ONoDelay nd iv rs nc => Ok (set_nodelay k nd iv rs nc, mkOut 0 [] [])
  end.

(* run: None = some call panicked *)
Fixpoint run (k : kcp) (ops : list op) : option (kcp * list out) :=
  match ops with
  | [] => Some (k, [])
  | o :: t =>
      match step k o with
      | Panic _ => None
      | Ok (k1, x) => match run k1 t with Some (k2, xs) => Some (k2, x :: xs) | None => None end
      end
  end.

(* ---- the invariant (DESIGN Appendix B.1) ---- *)
Definition seg_len (s : seg) : Z := blen (s_data s).

(* snd_buf holds the contiguous numbers snd_una, snd_una+1, ... *)
Fixpoint contiguous (sn : Z) (l : list seg) : Prop :=
  match l with
  | [] => True
  | s :: t => s_sn s = sn /\ contiguous (u32 (sn + 1)) t
  end.

(* rcv_buf: strictly increasing offsets from rcv_nxt, all inside the window *)
Fixpoint rb_sorted (base lo hi : Z) (l : list seg) : Prop :=
  match l with
  | [] => True
  | s :: t => let d := itimediff (s_sn s) base in lo <= d < hi /\ is_u32 (s_sn s) /\ rb_sorted base (d + 1) hi t
  end.

Definition alen (l : list (Z * Z)) : Z := Z.of_nat (length l).

Record inv (k : kcp) : Prop := mkInv {
  (* K1: MTU accounting *)
  I_mtu : c_IKCP_OVERHEAD < mtu k <= c_mtuLimit;
  I_mss : mss k = mtu k - c_IKCP_OVERHEAD;
  I_buflen : buflen k = (mtu k + c_IKCP_OVERHEAD) * 3;
  (* K2: every queued or outstanding segment fits the MSS *)
  I_sq_len : Forall (fun s => seg_len s <= mss k) (snd_queue k);
  I_sb_len : Forall (fun s => seg_len s <= mss k) (snd_buf k);
  I_sq_fresh : Forall (fun s => s_xmit s = 0 /\ s_acked s = 0) (snd_queue k);
  I_sb_push : Forall (fun s => s_conv s = conv k /\ s_cmd s = c_IKCP_CMD_PUSH) (snd_buf k);
  (* K3: snd_buf is the contiguous range [snd_una, snd_nxt), at most a send window long *)
  I_sb_contig : contiguous (snd_una k) (snd_buf k);
  I_snd_nxt : snd_nxt k = u32 (snd_una k + qlen (snd_buf k));
  I_sb_wnd : qlen (snd_buf k) <= snd_wnd k;
  I_una_u32 : is_u32 (snd_una k);
  (* K4: receive side within one window *)
  I_rq_wnd : qlen (rcv_queue k) <= rcv_wnd k;
  I_rb_sorted : rb_sorted (rcv_nxt k) 0 (rcv_wnd k) (rcv_buf k);
  I_rq_len : Forall (fun s => seg_len s <= c_mtuLimit) (rcv_queue k);
  I_rb_len : Forall (fun s => seg_len s <= c_mtuLimit) (rcv_buf k);
  I_rnxt_u32 : is_u32 (rcv_nxt k);
  (* K5: windows as configured before traffic *)
  I_snd_wnd : 1 <= snd_wnd k < 32768;
  I_rcv_wnd : 1 <= rcv_wnd k < 32768;
  I_rmt_wnd : 0 <= rmt_wnd k < 65536;
  I_cwnd : 0 <= cwnd k;
  (* K6: retransmission timeout below its cap *)
  I_rto_max : rx_rto k <= c_IKCP_RTO_MAX;
  I_minrto : rx_minrto k = c_IKCP_RTO_NDL \/ rx_minrto k = c_IKCP_RTO_MIN
}.

(* the lower RTO bound: invariant as long as the no-delay mode is not switched mid-connection *)
Definition rto_inv (k : kcp) : Prop := rx_minrto k <= rx_rto k.

(* ---- what a well-formed output datagram is (C04 truthful window, C09 layout, C10 size) ---- *)
Definition cmd_ok (c : Z) : Prop :=
  c = c_IKCP_CMD_PUSH \/ c = c_IKCP_CMD_ACK \/ c = c_IKCP_CMD_WASK \/ c = c_IKCP_CMD_WINS.

(* k is the state AFTER the call (flush changes neither conv, mtu, rcv_queue nor rcv_nxt) *)
Definition wire_seg_ok (k : kcp) (s : seg) : Prop :=
  s_conv s = conv k /\ cmd_ok (s_cmd s) /\ s_wnd s = wnd_unused k /\ s_una s = rcv_nxt k /\
  seg_len s <= mss k /\ (s_cmd s <> c_IKCP_CMD_PUSH -> s_data s = []).

Definition dgram_ok (k : kcp) (d : bytes) : Prop :=
  0 < blen d <= mtu k /\
  exists segs, segs <> [] /\ d = concat (map encode_seg segs) /\ Forall (wire_seg_ok k) segs.

Definition out_ok (k : kcp) (o : out) : Prop := Forall (dgram_ok k) (o_dgrams o).
