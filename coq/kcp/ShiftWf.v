(* C12: the side condition `shf_wf` is preserved by every call (unary pass; no invariant needed). *)
From Coq Require Import ZArith List Bool Lia.
From KV.Base Require Import Consts Word WordLemmas.
From KV.Kcp Require Import Kcp Step Net InvBase InvInputBase Shift ShiftBase ShiftApi ShiftFlush.
Import ListNotations.
Local Open Scope Z_scope.

Ltac Zify.zify_post_hook ::= Z.div_mod_to_equations.

Definition shf_pair32 (a : Z * Z) : Prop := is_u32 (fst a) /\ is_u32 (snd a).

Lemma shf_wf_frame k k' :
  shf_wf k -> conv k' = conv k -> snd_queue k' = snd_queue k -> snd_buf k' = snd_buf k ->
  acklist k' = acklist k -> shf_wf k'.
Proof. intros [H1 H2 H3 H4] E1 E2 E3 E4. constructor; rewrite ?E1, ?E2, ?E3, ?E4; assumption. Qed.

Ltac shf_frame H := apply (shf_wf_frame _ _ H); reflexivity.

Lemma shf_wf_set_snd_queue k q : shf_wf k -> Forall shf_segwf q -> shf_wf (set_snd_queue k q).
Proof. intros [H1 H2 H3 H4] Hq. constructor; ksimpl; assumption. Qed.

Lemma shf_wf_set_snd_buf k q : shf_wf k -> Forall shf_segwf q -> shf_wf (set_snd_buf k q).
Proof. intros [H1 H2 H3 H4] Hq. constructor; ksimpl; assumption. Qed.

Lemma shf_wf_set_acklist k l : shf_wf k -> Forall (fun a => is_u32 (fst a) /\ is_u32 (snd a)) l -> shf_wf (set_acklist k l).
Proof. intros [H1 H2 H3 H4] Hq. constructor; ksimpl; assumption. Qed.

(* ------------------------------------------------------------------ *)
(* Send                                                                *)
(* ------------------------------------------------------------------ *)
Lemma shf_sq_segwf a b : shf_sq a b -> shf_segwf a.
Proof. intros (_ & (H1 & H2 & _) & _). split; assumption. Qed.

Lemma shf_wf_fragment fuel count i m st b l :
  is_byte_list b -> fragment fuel count i m st b = Ok l -> Forall shf_segwf l.
Proof.
  intros Hb E. eapply shf_F2_left; [exact shf_sq_segwf|]. eapply shf_fragment_ok; eassumption.
Qed.

Lemma shf_wf_stream_append k b q1 b1 :
  Forall shf_segwf (snd_queue k) -> is_byte_list b -> stream_append k b = Ok (Some (q1, b1)) ->
  Forall shf_segwf q1 /\ is_byte_list b1.
Proof.
  intros Hq Hb. unfold stream_append. pose proof (Forall_rev Hq) as Hr.
  destruct (rev (snd_queue k)) as [|last before] eqn:Er.
  - intros E; inversion E; subst. split; assumption.
  - inversion Hr as [|x y (Hl1 & Hl2) Hbef]; subst x y.
    destruct (blen (s_data last) <? mss k); [|intros E; inversion E; subst; split; assumption].
    cbv zeta.
    destruct (frag_count (blen (drop (Z.min (blen b) (mss k - blen (s_data last))) b)) (mss k) >? 255); [discriminate|].
    destruct (blen (s_data last) + Z.min (blen b) (mss k - blen (s_data last)) >? c_mtuLimit); [discriminate|].
    intros E; inversion E; subst. split; [|apply shf_bl_drop; exact Hb].
    apply Forall_app. split; [apply Forall_rev; exact Hbef|].
    constructor; [|constructor]. unfold shf_segwf, set_seg_data. cbn [s_frg s_data].
    split; [exact Hl1|]. apply shf_bl_app. split; [exact Hl2|apply shf_bl_take; exact Hb].
Qed.

Lemma shf_wf_send k b k' r : shf_wf k -> is_byte_list b -> send k b = Ok (k', r) -> shf_wf k'.
Proof.
  intros Hw Hb. unfold send.
  destruct (blen b =? 0); [intros E; inversion E; subst; exact Hw|].
  assert (Hpre : forall q1 b1,
            (if stream k =? 0 then Ok (Some (snd_queue k, b)) else stream_append k b) = Ok (Some (q1, b1)) ->
            Forall shf_segwf q1 /\ is_byte_list b1).
  { intros q1 b1. destruct (stream k =? 0).
    - intros E; inversion E; subst. split; [exact (W_sq _ Hw)|exact Hb].
    - apply shf_wf_stream_append; [exact (W_sq _ Hw)|exact Hb]. }
  destruct (if stream k =? 0 then Ok (Some (snd_queue k, b)) else stream_append k b) as [[[q1 b1]|]|w];
    [| |discriminate].
  - destruct (Hpre q1 b1 eq_refl) as [Hq1 Hb1].
    pose proof (shf_wf_set_snd_queue k q1 Hw Hq1) as H1.
    destruct (negb (stream k =? 0) && (blen b1 =? 0)); [intros E; inversion E; subst; exact H1|].
    destruct (frag_count (blen b1) (mss k) >? 255); [intros E; inversion E; subst; exact H1|].
    match goal with |- context [fragment ?a ?b ?c ?d ?e ?f] => destruct (fragment a b c d e f) as [segs|w] eqn:Ef end;
      [|discriminate].
    intros E; inversion E; subst. apply shf_wf_set_snd_queue; [exact H1|].
    apply Forall_app. split; [exact Hq1|]. eapply shf_wf_fragment; eassumption.
  - intros E; inversion E; subst. exact Hw.
Qed.

(* ------------------------------------------------------------------ *)
(* Recv                                                                *)
(* ------------------------------------------------------------------ *)
Lemma shf_wf_do_move_ready k : shf_wf k -> shf_wf (do_move_ready k).
Proof.
  intros Hw. pose proof (do_move_ready_fields k) as
    (E1 & _ & _ & _ & E2 & E3 & _ & _ & _ & _ & _ & _ & _ & _ & E4 & _).
  apply (shf_wf_frame _ _ Hw); assumption.
Qed.

Lemma shf_wf_recv k n k' r d : shf_wf k -> recv k n = (k', r, d) -> shf_wf k'.
Proof.
  intros Hw. unfold recv. cbv zeta.
  destruct (peeksize k <? 0); [intros E; inversion E; subst; exact Hw|].
  destruct (peeksize k >? n); [intros E; inversion E; subst; exact Hw|].
  destruct (pop_msg (rcv_queue k)) as [d1 rq].
  assert (H1 : shf_wf (do_move_ready (set_rcv_queue k rq))).
  { apply shf_wf_do_move_ready. shf_frame Hw. }
  set (k1 := do_move_ready (set_rcv_queue k rq)) in *. clearbody k1.
  destruct ((qlen (rcv_queue k1) <? rcv_wnd k1) && (qlen (rcv_queue k) >=? rcv_wnd k));
    intros E; inversion E; subst; [shf_frame H1|exact H1].
Qed.

(* ------------------------------------------------------------------ *)
(* flush                                                               *)
(* ------------------------------------------------------------------ *)
Lemma shf_wf_admit cv una cw : forall sq sb nxt n sq' sb' nxt' n',
  Forall shf_segwf sq -> Forall shf_segwf sb ->
  admit_segs sq sb cv una nxt cw n = (sq', sb', nxt', n') -> Forall shf_segwf sq' /\ Forall shf_segwf sb'.
Proof.
  induction sq as [|s t IH]; intros sb nxt n sq' sb' nxt' n' Hsq Hsb E; cbn [admit_segs] in E.
  - inversion E; subst. split; assumption.
  - destruct (itimediff nxt (u32 (una + cw)) >=? 0); [inversion E; subst; split; assumption|].
    inversion Hsq as [|x y Hs Ht]; subst x y.
    eapply IH; [exact Ht| |exact E]. apply Forall_app. split; [exact Hsb|].
    constructor; [|constructor]. exact Hs.
Qed.

Lemma shf_wf_flush_seg k h resent ns now s a s' a' :
  flush_seg k h resent ns now s a = Ok (s', a') -> s_frg s' = s_frg s /\ s_data s' = s_data s.
Proof.
  rewrite shf_flush_seg_unfold.
  destruct (s_acked s =? 1); [intros E; inversion E; subst; split; reflexivity|].
  destruct (shf_decide k resent ns now s a) as [[[[nsd rto] rts] fa] a1].
  unfold shf_emit. cbv zeta. destruct nsd.
  - match goal with |- context [stage_write ?x ?y ?z] => destruct (stage_write x y z) end; [|discriminate].
    intros E; inversion E; subst. split; reflexivity.
  - intros E; inversion E; subst. split; reflexivity.
Qed.

Lemma shf_wf_flush_segs k h resent ns now : forall l a l' a',
  Forall shf_segwf l -> flush_segs k h resent ns now l a = Ok (l', a') -> Forall shf_segwf l'.
Proof.
  induction l as [|s t IH]; intros a l' a' Hl E; cbn [flush_segs] in E.
  - inversion E; subst. constructor.
  - destruct (flush_seg k h resent ns now s a) as [[s1 a1]|w] eqn:Es; [|discriminate].
    destruct (flush_segs k h resent ns now t a1) as [[t1 a2]|w] eqn:Et; [|discriminate].
    inversion E; subst. inversion Hl as [|x y (Hs1 & Hs2) Ht]; subst x y.
    destruct (shf_wf_flush_seg _ _ _ _ _ _ _ _ _ Es) as [F1 F2].
    constructor; [split; [rewrite F1; exact Hs1|rewrite F2; exact Hs2]|eapply IH; eassumption].
Qed.

Lemma shf_ph6_fields k a cw rs :
  conv (shf_ph6 k a cw rs) = conv k /\ snd_queue (shf_ph6 k a cw rs) = snd_queue k /\
  snd_buf (shf_ph6 k a cw rs) = snd_buf k /\ acklist (shf_ph6 k a cw rs) = acklist k.
Proof.
  unfold shf_ph6. cbv zeta.
  repeat match goal with |- context [if ?c then _ else _] => destruct c end; repeat split.
Qed.

Lemma shf_wf_flush k ft now k' nx o : shf_wf k -> flush k ft now = Ok (k', nx, o) -> shf_wf k'.
Proof.
  intros Hw. rewrite shf_flush_unfold.
  destruct (shf_ph1 k ft) as [[[h1 st1] ka]|w] eqn:E1; [|discriminate].
  assert (Ha : shf_wf ka).
  { unfold shf_ph1 in E1. destruct ((ft =? FLUSH_ACKONLY) || (ft =? FLUSH_FULL)).
    - destruct (flush_acks k (shf_h0 k) (mkStage [] []) (acklist k)) as [[h st]|w]; [|discriminate].
      inversion E1; subst. apply shf_wf_set_acklist; [exact Hw|constructor].
    - inversion E1; subst. exact Hw. }
  cbv zeta.
  assert (Hb : shf_wf (shf_ph2 ka now)).
  { unfold shf_ph2. repeat match goal with |- context [if ?c then _ else _] => destruct c end;
      try exact Ha; shf_frame Ha. }
  set (kb := shf_ph2 ka now) in *. clearbody kb.
  destruct (shf_ph3 kb h1 st1 c_IKCP_ASK_SEND c_IKCP_CMD_WASK) as [st2|w]; [|discriminate].
  destruct (shf_ph3 kb h1 st2 c_IKCP_ASK_TELL c_IKCP_CMD_WINS) as [st3|w]; [|discriminate].
  assert (Hc : shf_wf (set_probe_flags kb 0)) by (shf_frame Hb).
  set (kc := set_probe_flags kb 0) in *. clearbody kc.
  destruct (shf_ph4 kc ft) as [[[sq sb] nxt] ns] eqn:E4.
  assert (H4 : Forall shf_segwf sq /\ Forall shf_segwf sb).
  { unfold shf_ph4 in E4. destruct (ft =? FLUSH_FULL).
    - eapply shf_wf_admit; [exact (W_sq _ Hc)|exact (W_sb _ Hc)|exact E4].
    - inversion E4; subst. split; [exact (W_sq _ Hc)|exact (W_sb _ Hc)]. }
  destruct H4 as [Hsq Hsb].
  destruct (shf_ph5 (shf_k4 kc sq sb nxt) h1 ft ns now st3) as [[sb' a]|w] eqn:E5; [|discriminate].
  assert (Hsb' : Forall shf_segwf sb').
  { unfold shf_ph5 in E5. cbv zeta in E5. destruct (ft =? FLUSH_FULL).
    - eapply shf_wf_flush_segs; [|exact E5]. exact Hsb.
    - inversion E5; subst. exact Hsb. }
  intros E; inversion E; subst.
  destruct (shf_ph6_fields (shf_k5 (shf_k4 kc sq sb nxt) sb' a) a (shf_cw kc) (shf_resent (shf_k4 kc sq sb nxt)))
    as (F1 & F2 & F3 & F4).
  constructor; rewrite ?F1, ?F2, ?F3, ?F4; unfold shf_k5, shf_k4; cbv zeta; destruct (f_dead a); ksimpl;
    first [exact (W_conv _ Hc)|exact Hsq|exact Hsb'|exact (W_al _ Hc)].
Qed.

(* ------------------------------------------------------------------ *)
(* Input                                                               *)
(* ------------------------------------------------------------------ *)
Lemma shf_wf_una_walk una : forall l, Forall shf_segwf l -> Forall shf_segwf (fst (una_walk una l)).
Proof.
  induction l as [|s t IH]; intros Hl; [constructor|]. cbn [una_walk].
  inversion Hl as [|x y Hs Ht]; subst x y.
  destruct (itimediff una (s_sn s) >? 0); [|exact Hl].
  specialize (IH Ht). destruct (una_walk una t) as [r c]. exact IH.
Qed.

Lemma shf_wf_parse_una k una k' c : shf_wf k -> parse_una k una = (k', c) -> shf_wf k'.
Proof.
  intros Hw. unfold parse_una. pose proof (shf_wf_una_walk una _ (W_sb _ Hw)) as H.
  destruct (una_walk una (snd_buf k)) as [l c1]. intros E; inversion E; subst.
  apply shf_wf_set_snd_buf; assumption.
Qed.

Lemma shf_wf_drop_acked : forall l, Forall shf_segwf l -> Forall shf_segwf (drop_acked l).
Proof.
  induction l as [|s t IH]; intros Hl; [constructor|]. cbn [drop_acked].
  inversion Hl as [|x y Hs Ht]; subst x y. destruct (s_acked s =? 0); [exact Hl|apply IH; exact Ht].
Qed.

Lemma shf_wf_shrink_buf k : shf_wf k -> shf_wf (shrink_buf k).
Proof.
  intros Hw. unfold shrink_buf. cbv zeta.
  pose proof (shf_wf_set_snd_buf k _ Hw (shf_wf_drop_acked _ (W_sb _ Hw))) as H1.
  destruct (snd_buf (set_snd_buf k (drop_acked (snd_buf k)))); shf_frame H1.
Qed.

Lemma shf_wf_ack_walk sn : forall l, Forall shf_segwf l -> Forall shf_segwf (ack_walk sn l).
Proof.
  induction l as [|s t IH]; intros Hl; [constructor|]. cbn [ack_walk].
  inversion Hl as [|x y (Hs1 & Hs2) Ht]; subst x y.
  destruct (sn =? s_sn s).
  - constructor; [|exact Ht]. split; cbn [s_frg s_data]; [exact Hs1|apply shf_bl_nil].
  - destruct (itimediff sn (s_sn s) <? 0); [exact Hl|]. constructor; [split; assumption|apply IH; exact Ht].
Qed.

Lemma shf_wf_parse_ack k sn : shf_wf k -> shf_wf (parse_ack k sn).
Proof.
  intros Hw. unfold parse_ack.
  destruct ((itimediff sn (snd_una k) <? 0) || (itimediff sn (snd_nxt k) >=? 0)); [exact Hw|].
  apply shf_wf_set_snd_buf; [exact Hw|]. apply shf_wf_ack_walk. exact (W_sb _ Hw).
Qed.

Lemma shf_wf_fastack_walk sn ts fr : forall l, Forall shf_segwf l -> Forall shf_segwf (fst (fastack_walk sn ts fr l)).
Proof.
  induction l as [|s t IH]; intros Hl; [constructor|]. cbn [fastack_walk].
  inversion Hl as [|x y (Hs1 & Hs2) Ht]; subst x y. specialize (IH Ht).
  destruct (itimediff sn (s_sn s) <? 0); [exact Hl|].
  destruct (fastack_walk sn ts fr t) as [r f]. cbn [fst] in IH.
  destruct (negb (sn =? s_sn s) && (itimediff (s_ts s) ts <=? 0)).
  - destruct (s_fastack s =? 4294967295); cbn [fst]; constructor; try exact IH; split; assumption.
  - cbn [fst]. constructor; [split; assumption|exact IH].
Qed.

Lemma shf_wf_parse_fastack k sn ts k' f : shf_wf k -> parse_fastack k sn ts = (k', f) -> shf_wf k'.
Proof.
  intros Hw. unfold parse_fastack.
  destruct ((itimediff sn (snd_una k) <? 0) || (itimediff sn (snd_nxt k) >=? 0));
    [intros E; inversion E; subst; exact Hw|].
  pose proof (shf_wf_fastack_walk sn ts (fastresend k) _ (W_sb _ Hw)) as H.
  destruct (fastack_walk sn ts (fastresend k) (snd_buf k)) as [l f1]. intros E; inversion E; subst.
  apply shf_wf_set_snd_buf; assumption.
Qed.

Lemma shf_wf_parse_data k s k' f : shf_wf k -> parse_data k s = Ok (k', f) -> shf_wf k'.
Proof.
  intros Hw. unfold parse_data. cbv zeta.
  destruct ((itimediff (s_sn s) (u32 (rcv_nxt k + rcv_wnd k)) >=? 0) || (itimediff (s_sn s) (rcv_nxt k) <? 0));
    [intros E; inversion E; subst; exact Hw|].
  destruct (has_sn (s_sn s) (rcv_buf k)).
  - intros E; inversion E; subst. apply shf_wf_do_move_ready. exact Hw.
  - destruct (blen (s_data s) >? c_mtuLimit); [discriminate|].
    intros E; inversion E; subst. apply shf_wf_do_move_ready. shf_frame Hw.
Qed.

Lemma shf_wf_input_seg a data reg a' rest :
  shf_wf (i_k a) -> is_byte_list data -> input_seg a data reg = inl (Ok (a', rest)) ->
  shf_wf (i_k a') /\ is_byte_list rest.
Proof.
  intros Hw Hb. unfold input_seg. cbv zeta.
  pose proof (ii_rd32_range _ (ii_bl_skipn 12 _ Hb)) as Hsn.
  pose proof (ii_rd32_range _ (ii_bl_skipn 8 _ Hb)) as Hts.
  assert (Hrest : is_byte_list (drop (rd32 (skipn 20 data)) (skipn 24 data))).
  { apply ii_bl_drop. apply ii_bl_skipn. exact Hb. }
  set (sn := rd32 (skipn 12 data)) in *. set (ts := rd32 (skipn 8 data)) in *.
  set (rst := drop (rd32 (skipn 20 data)) (skipn 24 data)) in *.
  destruct (negb (rd32 data =? conv (i_k a))); [discriminate|].
  destruct ((blen (skipn 24 data) <? rd32 (skipn 20 data)) || (rd32 (skipn 20 data) >? c_mtuLimit)); [discriminate|].
  match goal with |- context [if negb ?c then inr (-3) else _] => destruct (negb c) end; [discriminate|].
  assert (Hka : shf_wf (if reg then set_rmt_wnd (i_k a) (rd16 (skipn 6 data)) else i_k a)).
  { destruct reg; [shf_frame Hw|exact Hw]. }
  set (ka := if reg then set_rmt_wnd (i_k a) (rd16 (skipn 6 data)) else i_k a) in *. clearbody ka.
  destruct (parse_una ka (rd32 (skipn 16 data))) as [kb cnt] eqn:Eu.
  pose proof (shf_wf_shrink_buf _ (shf_wf_parse_una _ _ _ _ Hka Eu)) as Hkc.
  set (kc := shrink_buf kb) in *. clearbody kc.
  destruct (nth 4 data 0 =? c_IKCP_CMD_ACK).
  { destruct (parse_fastack (parse_ack kc sn) sn ts) as [ke f] eqn:Ef.
    intros E; inversion E; subst. cbn [i_k]. split; [|exact Hrest].
    apply shf_wf_shrink_buf. eapply shf_wf_parse_fastack; [|exact Ef]. apply shf_wf_parse_ack. exact Hkc. }
  destruct (nth 4 data 0 =? c_IKCP_CMD_PUSH).
  { destruct (itimediff sn (u32 (rcv_nxt kc + rcv_wnd kc)) <? 0);
      [|intros E; inversion E; subst; cbn [i_k]; split; assumption].
    assert (Hkd : shf_wf (set_acklist kc (acklist kc ++ [(sn, ts)]))).
    { apply shf_wf_set_acklist; [exact Hkc|]. apply Forall_app. split; [exact (W_al _ Hkc)|].
      constructor; [split; assumption|constructor]. }
    set (kd := set_acklist kc (acklist kc ++ [(sn, ts)])) in *. clearbody kd.
    destruct (itimediff sn (rcv_nxt kd) >=? 0);
      [|intros E; inversion E; subst; cbn [i_k]; split; assumption].
    match goal with |- context [parse_data kd ?x] => destruct (parse_data kd x) as [[ke ff]|w] eqn:Ep end; [|discriminate].
    intros E; inversion E; subst. cbn [i_k]. split; [|exact Hrest]. eapply shf_wf_parse_data; eassumption. }
  destruct (nth 4 data 0 =? c_IKCP_CMD_WASK); intros E; inversion E; subst; cbn [i_k]; (split; [|exact Hrest]).
  - shf_frame Hkc.
  - exact Hkc.
Qed.

Lemma shf_wf_input_loop reg : forall fuel a data a' e,
  shf_wf (i_k a) -> is_byte_list data -> input_loop fuel a data reg = Ok (a', e) -> shf_wf (i_k a').
Proof.
  induction fuel as [|f IH]; intros a data a' e Hw Hb E; cbn [input_loop] in E.
  - inversion E; subst. exact Hw.
  - destruct (blen data <? c_IKCP_OVERHEAD); [inversion E; subst; exact Hw|].
    destruct (input_seg a data reg) as [[[a1 rest]|w]|c] eqn:Es.
    + destruct (shf_wf_input_seg _ _ _ _ _ Hw Hb Es) as [H1 H2]. eapply IH; eassumption.
    + discriminate.
    + inversion E; subst. exact Hw.
Qed.

Lemma shf_wf_update_ack k rtt : shf_wf k -> shf_wf (update_ack k rtt).
Proof.
  intros Hw. unfold update_ack.
  match goal with |- shf_wf (let '(a, b) := ?x in _) => destruct x as [srtt var] end. shf_frame Hw.
Qed.

Lemma shf_wf_input_cwnd k una0 : shf_wf k -> shf_wf (input_cwnd k una0).
Proof.
  intros Hw. unfold input_cwnd.
  destruct ((nocwnd k =? 0) && (itimediff (snd_una k) una0 >? 0) && (cwnd k <? rmt_wnd k)); [|exact Hw].
  cbv zeta.
  match goal with |- shf_wf (let '(a, b) := ?x in _) => destruct x as [cw inc] end.
  destruct (cw >? rmt_wnd k); shf_frame Hw.
Qed.

Lemma shf_wf_input_pre k d reg nd now k' code fr :
  shf_wf k -> is_byte_list d -> input_pre k d reg nd now = Ok (k', code, fr) -> shf_wf k'.
Proof.
  intros Hw Hb. unfold input_pre. cbv zeta.
  destruct (blen d <? c_IKCP_OVERHEAD); [intros E; inversion E; subst; exact Hw|].
  destruct (input_loop (S (length d / 24)) (mkInp k 0 false false) d reg) as [[a e]|w] eqn:El; [|discriminate].
  pose proof (shf_wf_input_loop reg _ (mkInp k 0 false false) _ _ _ Hw Hb El) as Ha.
  destruct e as [|c]; [|intros E; inversion E; subst; exact Ha].
  assert (Hb1 : shf_wf (if i_rtt a && reg && (itimediff now (i_latest a) >=? 0)
                        then update_ack (i_k a) (itimediff now (i_latest a)) else i_k a)).
  { destruct (i_rtt a && reg && (itimediff now (i_latest a) >=? 0)); [apply shf_wf_update_ack|]; exact Ha. }
  match type of Hb1 with shf_wf ?x => set (kb := x) in * end. clearbody kb.
  pose proof (shf_wf_input_cwnd kb (snd_una k) Hb1) as Hc.
  set (kc := input_cwnd kb (snd_una k)) in *. clearbody kc.
  destruct (i_flush a); [intros E; inversion E; subst; exact Hc|].
  destruct (Z.of_nat (length (acklist kc)) >=? mtu kc / c_IKCP_OVERHEAD); [intros E; inversion E; subst; exact Hc|].
  destruct (nd && (Z.of_nat (length (acklist kc)) >? 0)); intros E; inversion E; subst; exact Hc.
Qed.

Lemma shf_wf_input k d reg nd now k' r o :
  shf_wf k -> is_byte_list d -> input k d reg nd now = Ok (k', r, o) -> shf_wf k'.
Proof.
  intros Hw Hb. unfold input.
  destruct (input_pre k d reg nd now) as [[[ka code] fr]|w] eqn:Ep; [|discriminate].
  pose proof (shf_wf_input_pre _ _ _ _ _ _ _ _ Hw Hb Ep) as Ha.
  destruct fr.
  - intros E; inversion E; subst. exact Ha.
  - destruct (flush ka FLUSH_ACKONLY now) as [[[kb nx] ob]|w] eqn:Ef; [|discriminate].
    intros E; inversion E; subst. eapply shf_wf_flush; eassumption.
  - destruct (flush ka FLUSH_FULL now) as [[[kb nx] ob]|w] eqn:Ef; [|discriminate].
    intros E; inversion E; subst. eapply shf_wf_flush; eassumption.
Qed.

(* ------------------------------------------------------------------ *)
(* Update, the configuration calls, one step                           *)
(* ------------------------------------------------------------------ *)
Lemma shf_wf_update k now k' o : shf_wf k -> update k now = Ok (k', o) -> shf_wf k'.
Proof.
  intros Hw. unfold update. cbv zeta.
  assert (Ha : shf_wf (if updated k =? 0 then set_timer k (state k) now 1 else k)).
  { destruct (updated k =? 0); [shf_frame Hw|exact Hw]. }
  set (ka := if updated k =? 0 then set_timer k (state k) now 1 else k) in *. clearbody ka.
  assert (Hb : shf_wf (fst (if (itimediff now (ts_flush ka) >=? 10000) || (itimediff now (ts_flush ka) <? -10000)
                            then (set_timer ka (state ka) now (updated ka), 0) else (ka, itimediff now (ts_flush ka))))).
  { destruct ((itimediff now (ts_flush ka) >=? 10000) || (itimediff now (ts_flush ka) <? -10000)); cbn [fst];
      [shf_frame Ha|exact Ha]. }
  destruct (if (itimediff now (ts_flush ka) >=? 10000) || (itimediff now (ts_flush ka) <? -10000)
            then (set_timer ka (state ka) now (updated ka), 0) else (ka, itimediff now (ts_flush ka))) as [kb slap].
  cbn [fst] in Hb.
  destruct (slap >=? 0); [|intros E; inversion E; subst; exact Hb].
  match goal with |- context [flush ?x FLUSH_FULL now] => assert (Hc : shf_wf x) by (shf_frame Hb);
    destruct (flush x FLUSH_FULL now) as [[[kd nx] ob]|w] eqn:Ef end; [|discriminate].
  intros E; inversion E; subst. eapply shf_wf_flush; eassumption.
Qed.

Lemma shf_wf_set_mtu k m k' r : shf_wf k -> set_mtu k m = (k', r) -> shf_wf k'.
Proof.
  intros Hw. unfold set_mtu.
  destruct ((m <=? c_IKCP_OVERHEAD) || (m >? c_mtuLimit)); [intros E; inversion E; subst; exact Hw|].
  destruct (max_queued k >? m - c_IKCP_OVERHEAD); intros E; inversion E; subst; [exact Hw|shf_frame Hw].
Qed.

Lemma shf_wf_set_nodelay k nd iv rs nc : shf_wf k -> shf_wf (set_nodelay k nd iv rs nc).
Proof.
  intros Hw. unfold set_nodelay.
  match goal with |- shf_wf (let '(a, b) := ?x in _) => destruct x as [ndv minrto] end. shf_frame Hw.
Qed.

Lemma shf_wf_step k o k' x : shf_wf k -> op_ok o -> step k o = Ok (k', x) -> shf_wf k'.
Proof.
  intros Hw Hok. destruct o as [b|n|d reg nd now|full now|now|now|m|nd iv rs nc]; cbn [step op_ok] in *.
  - destruct (send k b) as [[ka r]|w] eqn:E; [|discriminate]. intros X; inversion X; subst.
    eapply shf_wf_send; eassumption.
  - destruct (recv k n) as [[ka r] d] eqn:E. intros X; inversion X; subst. eapply shf_wf_recv; eassumption.
  - destruct (input k d reg nd now) as [[[ka r] o]|w] eqn:E; [|discriminate]. intros X; inversion X; subst.
    eapply shf_wf_input; eassumption.
  - destruct (flush k (if full then FLUSH_FULL else FLUSH_ACKONLY) now) as [[[ka nx] o]|w] eqn:E; [|discriminate].
    intros X; inversion X; subst. eapply shf_wf_flush; eassumption.
  - destruct (update k now) as [[ka o]|w] eqn:E; [|discriminate]. intros X; inversion X; subst.
    eapply shf_wf_update; eassumption.
  - intros X; inversion X; subst. exact Hw.
  - destruct (set_mtu k m) as [ka r] eqn:E. intros X; inversion X; subst. eapply shf_wf_set_mtu; eassumption.
  - intros X; inversion X; subst. apply shf_wf_set_nodelay. exact Hw.
Qed.
