(* C02 - "a healed network always drains the backlog": the whole-system progress theorem.
   Statements only; definitions in ProgressBase.v (read them first: sys2 = Net.v's system plus
   the history wireB of B's datagrams; reach2; link_inv; healed_round), proofs in Progress.v.

   Setting: data flows A -> B, acknowledgements B -> A.  A run (sys2_run) is any interleaving of
   API calls on the two endpoints in which B is only ever given datagrams A emitted earlier and
   A is only ever given datagrams B emitted earlier - any of them, any number of times, in any
   order (drop / duplicate / reorder / delay) - and B never calls Send.  Fault history before
   healing is arbitrary: it is just `reach2 s`.

   The healed round at clock value t (healed_round s t, a function of the state - no fuel, no
   temporal logic):  B reads until Recv = -1;  A flushes;  everything that flush emitted reaches
   B in order;  B reads until Recv = -1;  B flushes;  everything B emitted since A's flush
   reaches A in order.  (Not only the datagrams of B's last flush: when its acklist is long,
   Input flushes it itself, and then the last flush may have nothing left to say.)

   c02b_round: from EVERY reachable state in which something is outstanding and the oldest
   outstanding segment is due, the round is defined, ends in a reachable state, and strictly
   advances A's cumulative acknowledgement point.  Premises: the sequence-number space does not
   wrap (fewer than 2^31 - 2^16 segments accepted so far, Net.no_wrap), and contract B8 (no
   message has more fragments than B's receive window holds; vacuous for single-fragment
   messages, which is all a UDPSession ever sends). *)
From Coq Require Import ZArith List Bool Lia.
From KV.Base Require Import Consts Word WordLemmas.
From KV.Kcp Require Import Kcp Step Net InvAll NetAll NetExample Live ProgressBase Progress.
Import ListNotations.
Local Open Scope Z_scope.

(* 0. a run of the two-way system is a run of Net.v's system: C01's theorems apply to it *)
Theorem c02b_run_proj :
  forall s evs s', sys2_run s evs s' -> sys_run (s1 s) evs (s1 s').
Proof. exact pg_run_proj. Qed.
Print Assumptions c02b_run_proj.

(* 1. the link invariant (what A regards as acknowledged, B has received; every acknowledgement
   in the B -> A history is for a received index, every cumulative field is at most B's rcv_nxt;
   acknowledged segments do not stay at the head of snd_buf; B has moved every deliverable
   segment) is inductive ... *)
Theorem c02b_link_step :
  forall s e s', reach2 s -> link_inv s -> ev_ok2 s e -> sys2_step s e = Some s' ->
    no_wrap (numbered_of s') -> link_inv s'.
Proof. exact link_step. Qed.
Print Assumptions c02b_link_step.

(* ... and holds in every reachable state *)
Theorem c02b_link_reach :
  forall s, reach2 s -> no_wrap (numbered_of s) -> link_inv s.
Proof. exact link_reach. Qed.
Print Assumptions c02b_link_reach.

(* 2. the round never faults and stays inside the reachable states *)
Theorem c02b_round_total :
  forall s t, reach2 s -> is_u32 t -> exists s', healed_round s t = Some s' /\ reach2 s'.
Proof. exact c02_round_total. Qed.
Print Assumptions c02b_round_total.

(* 3. progress, with the no-wrap bound on the state the round ends in *)
Theorem c02b_round_progress :
  forall s t s', reach2 s -> is_u32 t -> head_due s t -> b8 s ->
    healed_round s t = Some s' -> no_wrap (numbered_of s') -> a_idx s < a_idx s'.
Proof. exact c02_round_progress. Qed.
Print Assumptions c02b_round_progress.

(* 4. the same with the bound on the start state only: the round renumbers queued segments but
   accepts no new data, so the bound on everything accepted so far is preserved *)
Theorem c02b_round :
  forall s t, reach2 s -> no_wrap_all s -> is_u32 t -> head_due s t -> b8 s ->
    exists s', healed_round s t = Some s' /\ reach2 s' /\ no_wrap_all s' /\ a_idx s < a_idx s'.
Proof. exact c02_round. Qed.
Print Assumptions c02b_round.

(* 5. the queue half: nothing outstanding, data queued, window open: a flush numbers (and
   sends) queued data, so the next round has a head to advance past *)
Theorem c02b_queue_progress :
  forall s t, reach2 s -> is_u32 t -> snd_buf (kA s) = [] -> snd_queue (kA s) <> [] ->
    rmt_wnd (kA s) > 0 -> (nocwnd (kA s) = 0 -> cwnd (kA s) > 0) ->
    exists s', sys2_step s (EA (OFlush true t)) = Some s' /\ reach2 s' /\ snd_buf (kA s') <> [].
Proof. exact c02_queue_progress. Qed.
Print Assumptions c02b_queue_progress.

(* 6. a closed window re-opens (C03's probe round, on the same two-way system).  probe_round s t:
   A flushes twice (at t, and when its probe timer is due: the first zero-window flush may only
   arm the timer), everything A emitted reaches B in order, B reads until Recv = -1 and flushes,
   everything B emitted since reaches A in order.  All WASK / WINS / ACK datagrams sent before
   the round may have been lost: that is `reach2 s`.  (B's reader is part of the round: without
   it a retransmitted PUSH delivered together with the WASK can fill a small window again, and
   the WINS would announce 0.)  probe_inv is preserved by every call (Live.probe_backoff). *)
Theorem c02b_probe_round :
  forall s t, reach2 s -> no_wrap (numbered_of s) -> probe_inv (kA s) -> is_u32 t ->
    rmt_wnd (kA s) = 0 -> b8 s ->
    exists s', probe_round s t = Some s' /\ reach2 s' /\ 0 < rmt_wnd (kA s').
Proof. exact c02_probe_round. Qed.
Print Assumptions c02b_probe_round.

(* 7. the rounds ARE runs: concrete finite lists of admissible events, none of them a Send of A *)
Theorem c02b_round_is_run :
  forall s t s', reach2 s -> is_u32 t -> healed_round s t = Some s' ->
    exists evs, sys2_run s evs s' /\ Forall pg_quiet evs.
Proof. exact c02_round_is_run. Qed.
Print Assumptions c02b_round_is_run.

Theorem c02b_probe_is_run :
  forall s t s', reach2 s -> is_u32 t -> probe_round s t = Some s' ->
    exists evs, sys2_run s evs s' /\ Forall pg_quiet evs.
Proof. exact c02_probe_is_run. Qed.
Print Assumptions c02b_probe_is_run.

(* 8. the backlog drains.  drain_round = (probe round if rmt_wnd = 0); two flushes of A (the
   first makes cwnd >= 1, the second numbers queued data when nothing is outstanding); the healed
   round at a clock value at which the head of snd_buf is due.  Every draining round strictly
   decreases the number of accepted segments not yet cumulatively acknowledged (unacked), so
   from EVERY reachable state at most `unacked s` rounds of a healed network leave WaitSnd = 0.
   Premises on the start state only: no wrap and B8 for everything accepted so far, and
   probe_inv (an invariant of every call).  With both congestion-control settings (nocwnd). *)
Theorem c02b_drains :
  forall s, reach2 s -> no_wrap_all s -> b8_all s -> probe_inv (kA s) ->
    exists n s', Z.of_nat n <= unacked s /\ drain_rounds n s = Some s' /\ reach2 s' /\
                 waitsnd (kA s') = 0.
Proof. exact c02_drains. Qed.
Print Assumptions c02b_drains.

(* 9. ... and everything accepted is delivered.  When nothing waits at A and B's reader has read
   all it can (PeekSize < 0), B's delivery queue is empty and its reader has been given exactly
   what A's Send accepted (message mode: the same messages; stream mode: the same bytes). *)
Theorem c02b_delivered :
  forall s, reach2 s -> no_wrap (numbered_of s) -> waitsnd (kA s) = 0 -> peeksize (kB s) < 0 -> b8 s ->
    rcv_queue (kB s) = [] /\
    (stream (kA s) = 0 -> rg_delivered (gB (s1 s)) = sg_accepted (gA (s1 s))) /\
    (stream (kA s) <> 0 -> concat (rg_delivered (gB (s1 s))) = concat (sg_accepted (gA (s1 s)))).
Proof. exact c02_delivered. Qed.
Print Assumptions c02b_delivered.

(* the draining rounds, then B's reader catches up: WaitSnd = 0 and delivered = accepted *)
Theorem c02b_drains_delivered :
  forall s, reach2 s -> no_wrap_all s -> b8_all s -> probe_inv (kA s) ->
    exists n s' s'', Z.of_nat n <= unacked s /\ drain_rounds n s = Some s' /\ b_drain s' = Some s'' /\
      reach2 s'' /\ waitsnd (kA s'') = 0 /\ rcv_queue (kB s'') = [] /\
      (stream (kA s'') = 0 -> rg_delivered (gB (s1 s'')) = sg_accepted (gA (s1 s''))) /\
      (stream (kA s'') <> 0 -> concat (rg_delivered (gB (s1 s''))) = concat (sg_accepted (gA (s1 s'')))).
Proof. exact c02_drains_delivered. Qed.
Print Assumptions c02b_drains_delivered.

(* ---- non-vacuity: a concrete reachable state with outstanding data ---- *)
(* NetExample's endpoints; A writes three bytes, its first transmission (at 1000) is lost.
   At 2000 the retransmission timer (1000 + rto 200) has expired: the healed round delivers the
   retransmission, B's reader gets the message, B acknowledges, A's snd_una moves from index 0
   to index 1 and nothing is outstanding any more. *)
Definition ex2_s0 : sys2 := mkSys2 ex_s0 [].

Definition ex2_events : list ev := [EA (OSend [1; 2; 3]); EA (OFlush true 1000)].

Definition ex2_s : sys2 :=
  fold_left (fun s e => match sys2_step s e with Some s' => s' | None => s end) ex2_events ex2_s0.

Lemma ex2_init : sys2_init ex2_s0.
Proof.
  split; [exact ex_init|]. repeat split; reflexivity.
Qed.

Lemma ex2_reach : reach2 ex2_s.
Proof.
  exists ex2_s0, ex2_events. split; [exact ex2_init|].
  unfold ex2_events.
  eapply run2_cons.
  - split; [split; [cbn; apply bytes_dec_ok; vm_compute; reflexivity|exact I]|exact I].
  - vm_compute. reflexivity.
  - eapply run2_cons.
    + split; [split; [exact I|cbn; unfold is_u32, W32; lia]|exact I].
    + vm_compute. reflexivity.
    + let f := eval vm_compute in ex2_s in change ex2_s with f. apply run2_nil.
Qed.

Example c02b_example :
  exists s t s',
    reach2 s /\ no_wrap_all s /\ is_u32 t /\ head_due s t /\ b8 s /\
    snd_buf (kA s) <> [] /\ a_idx s = 0 /\
    healed_round s t = Some s' /\ a_idx s' = 1 /\ snd_buf (kA s') = [] /\
    rg_delivered (gB (s1 s')) = [[1; 2; 3]] /\ sg_accepted (gA (s1 s')) = [[1; 2; 3]].
Proof.
  exists ex2_s, 2000.
  let r := eval vm_compute in (healed_round ex2_s 2000) in
  match r with Some ?s' => exists s' | _ => fail end.
  split; [exact ex2_reach|].
  split; [vm_compute; reflexivity|].
  split; [unfold is_u32, W32; lia|].
  split; [vm_compute; right; discriminate|].
  split; [vm_compute; repeat constructor|].
  split; [vm_compute; discriminate|].
  split; [vm_compute; reflexivity|].
  split; [vm_compute; reflexivity|].
  split; [vm_compute; reflexivity|].
  split; [vm_compute; reflexivity|].
  split; vm_compute; reflexivity.
Qed.
Print Assumptions c02b_example.
