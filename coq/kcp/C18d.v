(* C18 - no retransmission on a clean path, SENDER SIDE, when time passes INSIDE the calls
   (CleanT.v / CleanTProofs.v).  C18b.v proves the clean-sender theorem for Step.step / Step.run,
   whose flush/input/update see ONE clock value per call.  Here the user's output callback blocks
   `tx` milliseconds per datagram and the clock is re-read where the Go code re-reads it
   (FlushT.flush_t / input_t / update_t, C18c.v):
       clk now tx st = u32 (now + tx * #datagrams handed to the callback so far in this call).
   A transmitted segment gets ts = the NEW reading and resendts = the PREVIOUS reading + rto; the
   two readings are at most one callback time apart (c18c_timer_lag).

   Proved here, for ONE endpoint, every tx >= 0 and every sequence of API calls (same tx for the
   whole history): if (H1) acknowledgements are processed in order and (H2t) every outstanding
   segment is acknowledged before it is rx_minrto - tx old at ANY clock reading of ANY call, then
   every segment is put on the wire exactly once.  NO range premise on the clock is needed (all
   time differences are 32-bit wrap-safe itimediff's).  NOT proved (as in C18b): that a FIFO
   loss-free two-endpoint system produces such a history.

   Vocabulary (CleanT.v; cl_* of CleanBase.v / Clean.v as in C18b.v):
     step_t tx k o / run_t tx k ops
                           Step.step / Step.run with flush_t / input_t / update_t
     op_time_ok o          the clock argument of o (Input, Flush, Update) is in [0, 2^32)
     cl_seg_ok_t tx m s    fastack = 0 and: never transmitted, or transmitted once with
                           resendts = u32 (c + rto) for an INTEGER c (no wrap; only c + rto is reduced),
                           s_ts s - tx <= c <= s_ts s, and m <= rto <= 60000      (tx = 0: cl_seg_ok)
     cl_cinv_t tx k        queued segments have fastack = 0, buffer entries satisfy
                           cl_seg_ok_t tx (rx_minrto k), fastresend is an int32   (tx = 0: cl_cinv)
     ct_ndg tx k o         the number of datagrams the call o hands to the callback in state k
                           (= length of the output of step_t tx k o)
     cl_fresh_t tx k now n H2t for a call at `now` handing n datagrams to the callback: every
                           transmitted, unacknowledged entry s of snd_buf k has
                             0 <= itimediff now (s_ts s)  and
                             itimediff now (s_ts s) + tx * n < rx_minrto k - tx
                           i.e. it is younger than rx_minrto - tx even at the LAST reading of the
                           call; the readings at which cl_timeout is evaluated are
                           u32 (now + tx * j), 0 <= j <= n                       (tx = 0: cl_fresh)
     cl_op_ok_t tx k o     H1 (cl_acks_in_order, unchanged) and H2t with n = ct_ndg tx k o, asked for
                           the segments outstanding at the START of the call; NoDelay is not called
     clean_history_t tx k ops / clean_history_t_b
                           cl_op_ok_t at every call along the run_t trajectory / the same as a
                           boolean function
     ct_step ...           the outcome of flush_seg_t on one entry: s' = s, or s' = the segment
                           transmitted with ts = u32 (now + tx*nt), resendts = u32 (u32 (now + tx*nr) + rto),
                           n0 <= nr <= nt <= nr + 1, nt <= n1, and the cause (first transmission /
                           fast or early retransmit / cl_timeout at the reading u32 (now + tx*nr)) *)
From Coq Require Import ZArith List Bool.
From KV.Base Require Import Consts Word.
From KV.Kcp Require Import Kcp Step InvAll LiveBase CleanBase Clean FlushT FlushTProofs CleanT CleanTProofs.
Import ListNotations.
Local Open Scope Z_scope.

(* ---- 1. tx = 0 is Step.step / Step.run ---- *)
Theorem c18d_step_t_zero : forall k o, op_time_ok o -> step_t 0 k o = step k o.
Proof. exact ct_step_t_zero. Qed.
Print Assumptions c18d_step_t_zero.

Theorem c18d_run_t_zero : forall ops k, Forall op_time_ok ops -> run_t 0 k ops = run k ops.
Proof. exact ct_run_t_zero. Qed.
Print Assumptions c18d_run_t_zero.

(* ---- 2. flush_t keeps the invariant of Step.v (flush_ok of C01 is stated for flush) ---- *)
Theorem c18d_flush_t_inv :
  forall k ft now tx k' nx o,
    inv k -> flush_t k ft now tx = Ok (k', nx, o) ->
    inv k' /\ (rto_inv k -> rto_inv k') /\ rx_minrto k' = rx_minrto k /\ rx_rto k' = rx_rto k.
Proof. exact ct_flush_t_inv. Qed.
Print Assumptions c18d_flush_t_inv.

(* ... and its output is exactly, in order, control segments followed by the entries it
   transmitted, each with the clock readings it was stamped / armed from *)
Theorem c18d_flush_t_wire :
  forall k ft now tx k' nx o,
    inv k -> flush_t k ft now tx = Ok (k', nx, o) ->
    inv k' /\
    exists h1 sq sb nxt ns Wc Wp,
      lv_ph4 k ft = (sq, sb, nxt, ns) /\
      (ft = FLUSH_FULL ->
         cl_segs (ct_step (rx_rto k) (lv_resent k) ns now tx 0 (length o) h1) sb (snd_buf k') Wp) /\
      (ft <> FLUSH_FULL -> snd_buf k' = sb /\ Wp = []) /\
      cl_wire o (Wc ++ Wp) /\ Forall (fun w => s_cmd w <> c_IKCP_CMD_PUSH) Wc /\
      snd_queue k' = sq /\ fastresend k' = fastresend k /\ rx_minrto k' = rx_minrto k /\
      rx_rto k' = rx_rto k.
Proof. exact ct_flush_t_spec. Qed.
Print Assumptions c18d_flush_t_wire.

(* ---- 3. the timer a transmission of flush_t arms ---- *)
(* from the u32 form of c18c_timer_lag to the invariant, with no range premise: the reading the
   timer was armed from is an integer c at most tx below the (wrapped) timestamp *)
Theorem c18d_timer_armed :
  forall now tx rto (nr nt : nat), 0 <= tx -> (nr <= nt /\ nt <= S nr)%nat ->
    exists c, u32 (now + tx * Z.of_nat nt) - tx <= c <= u32 (now + tx * Z.of_nat nt) /\
              u32 (u32 (now + tx * Z.of_nat nr) + rto) = u32 (c + rto).
Proof. exact ct_armed. Qed.
Print Assumptions c18d_timer_armed.

(* ... it cannot fire at the reading now + p while (now - ts) + p < m - tx *)
Theorem c18d_no_rto_before_minrto_t :
  forall tx m now p s,
    0 <= tx ->
    (exists c, s_ts s - tx <= c <= s_ts s /\ s_resendts s = u32 (c + s_rto s)) -> m <= s_rto s <= 60000 ->
    0 <= p -> 0 <= itimediff now (s_ts s) -> itimediff now (s_ts s) + p < m - tx ->
    ~ cl_timeout (u32 (now + p)) s.
Proof. exact ct_no_timeout. Qed.
Print Assumptions c18d_no_rto_before_minrto_t.

(* ---- 4. the clean sender ---- *)
Theorem c18d_clean_sender_t :
  forall tx ops k k' outs,
    0 <= tx -> inv k -> rto_inv k -> cl_cinv_t tx k -> Forall op_ok ops -> clean_history_t tx k ops ->
    run_t tx k ops = Some (k', outs) ->
    Forall (fun s => s_xmit s <= 1 /\ s_fastack s = 0) (snd_buf k') /\
    Forall (fun x => cl_once (o_dgrams x)) outs.
Proof. exact ct_clean_sender_t. Qed.
Print Assumptions c18d_clean_sender_t.

(* ... in every state the history passes through *)
Theorem c18d_clean_sender_t_always :
  forall tx ops1 ops2 k k' outs,
    0 <= tx -> inv k -> rto_inv k -> cl_cinv_t tx k -> Forall op_ok (ops1 ++ ops2) ->
    clean_history_t tx k (ops1 ++ ops2) -> run_t tx k (ops1 ++ ops2) = Some (k', outs) ->
    exists k1 outs1, run_t tx k ops1 = Some (k1, outs1) /\
      Forall (fun s => s_xmit s <= 1 /\ s_fastack s = 0) (snd_buf k1) /\
      Forall (fun x => cl_once (o_dgrams x)) outs1.
Proof. exact ct_clean_sender_t_always. Qed.
Print Assumptions c18d_clean_sender_t_always.

(* the invariant behind it - together with inv and rto_inv, which the existing lemmas give for
   step only - is kept by every call of a clean history *)
Theorem c18d_clean_step_t :
  forall tx k o k' x,
    0 <= tx -> inv k -> rto_inv k -> cl_cinv_t tx k -> op_ok o -> cl_op_ok_t tx k o ->
    step_t tx k o = Ok (k', x) ->
    inv k' /\ rto_inv k' /\ cl_cinv_t tx k' /\ cl_once (o_dgrams x).
Proof. exact ct_step_clean. Qed.
Print Assumptions c18d_clean_step_t.

(* one flush_t: n = length o is the number of datagrams it hands to the callback *)
Theorem c18d_clean_flush_t :
  forall tx k ft now k' nx o,
    0 <= tx -> inv k -> rto_inv k -> cl_cinv_t tx k ->
    (ft = FLUSH_FULL -> cl_fresh_t tx k now (Z.of_nat (length o))) ->
    flush_t k ft now tx = Ok (k', nx, o) ->
    inv k' /\ rto_inv k' /\ cl_cinv_t tx k' /\ cl_once o.
Proof. exact ct_flush_clean. Qed.
Print Assumptions c18d_clean_flush_t.

(* a new endpoint is a valid starting point, for every tx >= 0 *)
Theorem c18d_new_endpoint_t :
  forall tx cv, 0 <= tx -> 0 <= cv < W32 ->
    inv (kcp_new cv) /\ rto_inv (kcp_new cv) /\ cl_cinv_t tx (kcp_new cv).
Proof.
  intros tx cv Htx Hcv. split; [apply inv_new; exact Hcv|]. split; [|apply ct_cinv_of_old; [exact Htx|apply cl_new_cinv]].
  unfold rto_inv, kcp_new. cbn [rx_minrto rx_rto]. unfold c_IKCP_RTO_MIN, c_IKCP_RTO_DEF. discriminate.
Qed.
Print Assumptions c18d_new_endpoint_t.

(* ---- 5. tx = 0 gives back C18b ---- *)
(* the old invariant is an instance of the new one for every tx >= 0 (c := s_ts s) ... *)
Theorem c18d_cinv_of_old : forall tx k, 0 <= tx -> cl_cinv k -> cl_cinv_t tx k.
Proof. exact ct_cinv_of_old. Qed.
Print Assumptions c18d_cinv_of_old.

(* ... and IS the new one at tx = 0 *)
Theorem c18d_cinv_zero : forall k, cl_cinv_t 0 k <-> cl_cinv k.
Proof. exact ct_cinv_zero. Qed.
Print Assumptions c18d_cinv_zero.

Theorem c18d_fresh_zero : forall k now n, cl_fresh_t 0 k now n <-> cl_fresh k now.
Proof. exact ct_fresh_zero. Qed.
Print Assumptions c18d_fresh_zero.

(* clean_history_t 0 is clean_history when the clock arguments are 32-bit clock values *)
Theorem c18d_history_zero :
  forall ops k, Forall op_time_ok ops -> (clean_history_t 0 k ops <-> clean_history k ops).
Proof. exact ct_history_zero. Qed.
Print Assumptions c18d_history_zero.

(* the tx = 0 instance of c18d_clean_sender_t is c18_clean_sender (C18b.v) for such histories;
   this lemma is DERIVED from ct_clean_sender_t, not from Clean.cl_clean_sender *)
Theorem c18d_zero_instance :
  forall ops k k' outs,
    Forall op_time_ok ops ->
    inv k -> rto_inv k -> cl_cinv k -> Forall op_ok ops -> clean_history k ops ->
    run k ops = Some (k', outs) ->
    Forall (fun s => s_xmit s <= 1 /\ s_fastack s = 0) (snd_buf k') /\
    Forall (fun x => cl_once (o_dgrams x)) outs.
Proof. exact ct_zero_instance. Qed.
Print Assumptions c18d_zero_instance.

(* ---- 6. clean_history_t is decidable on concrete histories ---- *)
Theorem c18d_clean_history_t_decide :
  forall tx ops k, clean_history_t_b tx k ops = true -> clean_history_t tx k ops.
Proof. exact ct_history_b_sound. Qed.
Print Assumptions c18d_clean_history_t_decide.

(* ---- 7. examples (CleanTProofs.v, section 6) ---- *)
(* Start: a new endpoint (conv 5) with the congestion window switched off (rx_minrto = 100,
   rx_rto = 200); tx = 2.  Four full-size messages (1376 bytes = mss) are queued; Update 1000
   transmits them in ONE flush, one 1400-byte datagram each, stamped 1000, 1000, 1002, 1004; the four
   ACKs (sn i, echoing ts_i, una i+1) are fed in order at 1030..1033; Update 1200 finds nothing to do.
   The history is clean (H1 + H2t), well-formed, and every sn is on the wire exactly once.
   Views: per call, the number of datagrams; per datagram, (cmd, sn, ts, length). *)
Theorem c18d_example :
  clean_history_t_b 2 ft_ex_k0 ct_ex_ops = true /\
  forallb ct_op_ok_b ct_ex_ops = true /\ forallb op_time_ok_b ct_ex_ops = true /\
  exists k' outs, run_t 2 ft_ex_k0 ct_ex_ops = Some (k', outs) /\
    snd_buf k' = [] /\ snd_queue k' = [] /\
    map (fun x => length (o_dgrams x)) outs = [0; 0; 0; 0; 4; 0; 0; 0; 0; 0]%nat /\
    map ct_ex_dgram_view (concat (map o_dgrams outs)) =
      [(81, 0, 1000, 1400%nat); (81, 1, 1000, 1400%nat); (81, 2, 1002, 1400%nat); (81, 3, 1004, 1400%nat)].
Proof. exact ct_example_history. Qed.
Print Assumptions c18d_example.

(* the start state satisfies the premises, so the theorem applies to the example *)
Theorem c18d_example_start : inv ft_ex_k0 /\ rto_inv ft_ex_k0 /\ cl_cinv_t 2 ft_ex_k0.
Proof. exact ct_example_start. Qed.
Print Assumptions c18d_example_start.

Theorem c18d_example_theorem :
  forall k' outs, run_t 2 ft_ex_k0 ct_ex_ops = Some (k', outs) ->
    Forall (fun s => s_xmit s <= 1 /\ s_fastack s = 0) (snd_buf k') /\
    Forall (fun x => cl_once (o_dgrams x)) outs.
Proof. exact ct_example_theorem. Qed.
Print Assumptions c18d_example_theorem.

(* the boundary of H2t: the last ACK (segment 3, stamped 1004) fed at time t; that Input hands no
   datagram to the callback, so H2t asks (t - 1004) + 2 * 0 < 100 - 2 *)
Theorem c18d_example_boundary :
  clean_history_t_b 2 ft_ex_k0 (ct_ex_ops_late 1101) = true /\
  clean_history_t_b 2 ft_ex_k0 (ct_ex_ops_late 1102) = false.
Proof. exact ct_example_boundary. Qed.
Print Assumptions c18d_example_boundary.
