(* C03 - a stalled reader throttles the sender; transfer resumes: the building blocks.
   Statements only.  No loss and no bloat while the reader is stalled are C01 (nothing in its
   theorem depends on the reader being active) and C04 (buffering bounds).  Here: a zero window
   stops admission; the probe timer arms, fires and backs off within [500 ms, 120 s]; a probe is
   answered with the current window; re-opening the window is announced; a window update
   re-opens admission.  The composition over lossy WASK/WINS exchanges (resumption) is decided
   by simulation of the real cores (harness monitors), see DESIGN.md. *)
From Coq Require Import ZArith List Bool.
From KV.Base Require Import Consts Word.
From KV.Kcp Require Import Kcp Step Net Live.
Import ListNotations.
Local Open Scope Z_scope.


(* 1. standstill: with a zero remote window no flush numbers (hence transmits) a new segment *)
Theorem c03_sender_standstill :
  forall k ft now k' nx o, inv k -> rmt_wnd k = 0 -> flush k ft now = Ok (k', nx, o) ->
    snd_nxt k' = snd_nxt k /\ snd_queue k' = snd_queue k /\ qlen (snd_buf k') = qlen (snd_buf k).
Proof. exact sender_standstill. Qed.
Print Assumptions c03_sender_standstill.

(* 2. the probe timer: armed by the first zero-window flush ... *)
Theorem c03_probe_arms :
  forall k ft now k' nx o, rmt_wnd k = 0 -> probe_wait k = 0 -> flush k ft now = Ok (k', nx, o) ->
    probe_wait k' = 500 /\ ts_probe k' = u32 (now + 500).
Proof. exact probe_arms. Qed.
Print Assumptions c03_probe_arms.

(* ... and when it expires a WASK goes out and the wait grows by half, capped at 120 s *)
Theorem c03_probe_fires :
  forall k ft now k' nx o, inv k -> rmt_wnd k = 0 -> probe_wait k <> 0 ->
    itimediff now (ts_probe k) >= 0 -> flush k ft now = Ok (k', nx, o) ->
    emits_cmd o c_IKCP_CMD_WASK (wnd_unused k) /\
    probe_wait k' = Z.min (u32 (Z.max (probe_wait k) 500 + Z.max (probe_wait k) 500 / 2)) 120000 /\
    ts_probe k' = u32 (now + probe_wait k').
Proof. exact probe_fires. Qed.
Print Assumptions c03_probe_fires.

(* 3. back-off bounds, for every operation sequence *)

Theorem c03_probe_backoff :
  forall ops k k' outs, inv k -> probe_inv k -> Forall op_ok ops -> run k ops = Some (k', outs) -> probe_inv k'.
Proof. exact probe_backoff. Qed.
Print Assumptions c03_probe_backoff.

(* 4. a probe (WASK) is answered: the next flush of either kind sends WINS with the true window *)
Theorem c03_wask_answered :
  forall a s rest regular, seg_wf s -> s_cmd s = c_IKCP_CMD_WASK -> s_conv s = conv (i_k a) -> inv (i_k a) ->
    exists a', input_seg a (encode_seg s ++ rest) regular = inl (Ok (a', rest)) /\
               Z.land (probe (i_k a')) c_IKCP_ASK_TELL <> 0.
Proof. exact wask_sets_tell. Qed.
Print Assumptions c03_wask_answered.

Theorem c03_tell_emits_wins :
  forall k ft now k' nx o, inv k -> Z.land (probe k) c_IKCP_ASK_TELL <> 0 ->
    flush k ft now = Ok (k', nx, o) ->
    emits_cmd o c_IKCP_CMD_WINS (wnd_unused k) /\ probe k' = 0.
Proof. exact tell_emits_wins. Qed.
Print Assumptions c03_tell_emits_wins.

(* 5. re-opening is announced: a Recv that takes the delivery queue from full to not full
   schedules a WINS *)
Theorem c03_reopen_announced :
  forall k n k' r d, inv k -> recv k n = (k', r, d) ->
    qlen (rcv_queue k) >= rcv_wnd k -> qlen (rcv_queue k') < rcv_wnd k' ->
    Z.land (probe k') c_IKCP_ASK_TELL <> 0 /\ wnd_unused k' > 0.
Proof. exact reopen_announced. Qed.
Print Assumptions c03_reopen_announced.

(* 6. a window update re-opens the sender: any regular segment from the peer sets rmt_wnd to its
   wnd field, and the next full flush admits queued data while the windows allow *)
Theorem c03_window_update :
  forall a s rest, seg_wf s -> cmd_ok (s_cmd s) -> s_conv s = conv (i_k a) -> inv (i_k a) ->
    (s_cmd s = c_IKCP_CMD_PUSH -> False) ->
    exists a', input_seg a (encode_seg s ++ rest) true = inl (Ok (a', rest)) /\ rmt_wnd (i_k a') = s_wnd s.
Proof. exact window_update. Qed.
Print Assumptions c03_window_update.

Theorem c03_resume_admits :
  forall k now k' nx o, inv k -> snd_buf k = [] -> snd_queue k <> [] -> rmt_wnd k > 0 ->
    (nocwnd k = 0 -> cwnd k > 0) ->
    flush k FLUSH_FULL now = Ok (k', nx, o) -> qlen (snd_buf k') >= 1.
Proof. exact resume_admits. Qed.
Print Assumptions c03_resume_admits.
