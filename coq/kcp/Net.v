(* Two endpoints and an arbitrary network: definitions for C01 (no proofs).
   Direction A -> B only (the system is symmetric; the theorems are instantiated twice).

   The network is not a data structure here: it is the set of all event lists in which every
   datagram handed to an endpoint's Input is one the peer emitted EARLIER (any number of
   times, in any order, after any delay - or never).  Drop = never delivered, duplicate =
   delivered twice, reorder/delay = delivered later. *)
From Coq Require Import ZArith List Bool.
From KV.Base Require Import Consts Word.
From KV.Kcp Require Import Kcp Step.
Import ListNotations.
Local Open Scope Z_scope.

(* ---- payload of a numbered segment ---- *)
Definition pay (s : seg) : Z * bytes := (s_frg s, s_data s).

(* header fields are in machine range (what makes parse (encode s) = s) *)
Definition seg_wf (s : seg) : Prop :=
  is_u32 (s_conv s) /\ 0 <= s_cmd s < 256 /\ 0 <= s_frg s < 256 /\ 0 <= s_wnd s < 65536 /\
  is_u32 (s_ts s) /\ is_u32 (s_sn s) /\ is_u32 (s_una s) /\ is_byte_list (s_data s) /\
  blen (s_data s) <= c_mtuLimit.

(* A datagram whose PUSH segments all carry payloads of `src`, numbered from isn:
   the segment with number u32(isn+i) carries src[i]. *)
Definition genuine_seg (isn : Z) (src : list (Z * bytes)) (s : seg) : Prop :=
  s_cmd s = c_IKCP_CMD_PUSH ->
  exists i, (i < length src)%nat /\ s_sn s = u32 (isn + Z.of_nat i) /\ nth_error src i = Some (pay s).

Definition genuine_dgram (isn : Z) (src : list (Z * bytes)) (d : bytes) : Prop :=
  exists segs, d = concat (map encode_seg segs) /\ Forall seg_wf segs /\ Forall (genuine_seg isn src) segs.

(* fewer than 2^31 - 2^16 segments numbered in a connection's life (the one bound; forced:
   after 2^32 segments an old datagram is indistinguishable from a new one) *)
Definition no_wrap (src : list (Z * bytes)) : Prop := Z.of_nat (length src) < H32 - 65536.

(* shape of the fragment counters a sender produces: inside a message frg counts down to 0
   (the list may end in the middle of a message: it grows as the window admits segments) *)
Definition src_wf (src : list (Z * bytes)) : Prop :=
  Forall (fun p => 0 <= fst p <= 254 /\ is_byte_list (snd p) /\ blen (snd p) <= c_mtuLimit) src /\
  forall i p q, nth_error src i = Some p -> nth_error src (S i) = Some q -> fst p > 0 -> fst q = fst p - 1.

(* ---- the sender's ghost view ---- *)
(* `numbered`: payloads of all segments ever moved from snd_queue to snd_buf, in order;
   index i has number u32(isn+i).  `accepted`: every buffer for which Send returned 0. *)
Record sender_ghost := mkSG { sg_isn : Z; sg_numbered : list (Z * bytes); sg_accepted : list bytes }.

(* a numbered segment still in snd_buf either carries its payload or is an acknowledged husk *)
Definition sb_matches (s : seg) (p : Z * bytes) : Prop :=
  s_frg s = fst p /\ (s_acked s = 1 \/ s_data s = snd p).

Definition stream_bytes (l : list (Z * bytes)) : bytes := concat (map snd l).

(* reassembly of complete messages from a payload list (frg counts down to 0); a trailing
   incomplete message is not a message yet *)
Fixpoint messages_aux (cur : bytes) (l : list (Z * bytes)) : list bytes :=
  match l with
  | [] => []
  | (f, d) :: t => if f =? 0 then (cur ++ d) :: messages_aux [] t else messages_aux (cur ++ d) t
  end.
Definition messages (l : list (Z * bytes)) : list bytes := messages_aux [] l.

(* the last payload of l (if any) closes a message *)
Definition at_boundary (l : list (Z * bytes)) : Prop :=
  match rev l with [] => True | p :: _ => fst p = 0 end.

Record sender_inv (g : sender_ghost) (k : kcp) : Prop := mkSI {
  SI_inv : inv k;
  SI_isn : is_u32 (sg_isn g) /\ is_u32 (conv k);
  SI_wf : src_wf (sg_numbered g ++ map pay (snd_queue k));
  SI_acks : Forall (fun a => is_u32 (fst a) /\ is_u32 (snd a)) (acklist k);
  SI_una : exists a, (a <= length (sg_numbered g))%nat /\ snd_una k = u32 (sg_isn g + Z.of_nat a) /\
             Forall2 sb_matches (snd_buf k) (skipn a (sg_numbered g));
  (* stream mode: bytes accepted = bytes numbered ++ bytes still queued *)
  SI_stream : stream k <> 0 ->
      stream_bytes (sg_numbered g) ++ concat (map s_data (snd_queue k)) = concat (sg_accepted g);
  (* message mode: the accepted buffers are the messages numbered or queued, boundaries kept *)
  SI_message : stream k = 0 ->
      messages (sg_numbered g ++ map pay (snd_queue k)) = sg_accepted g;
  (* every Send queues whole messages: the list always ends at a message boundary *)
  SI_boundary : at_boundary (sg_numbered g ++ map pay (snd_queue k))
}.

(* ghost effect of a call on the sender: Send records the accepted buffer; any call that
   flushes numbers the segments it moved into snd_buf (snd_buf only shrinks at its head) *)
Definition newly_numbered (k k' : kcp) : list (Z * bytes) :=
  let una_adv := u32 (snd_una k' - snd_una k) in      (* heads dropped by una / acks *)
  map pay (skipn (length (snd_buf k) - Z.to_nat una_adv) (snd_buf k')).

Definition ghost_sender (g : sender_ghost) (k : kcp) (o : op) (k' : kcp) (x : out) : sender_ghost :=
  let acc := match o with OSend b => if o_ret x =? 0 then sg_accepted g ++ [b] else sg_accepted g
                        | _ => sg_accepted g end in
  mkSG (sg_isn g) (sg_numbered g ++ newly_numbered k k') acc.

(* ---- the receiver's ghost view ---- *)
(* `delivered`: every non-negative Recv result, in order *)
Record receiver_ghost := mkRG { rg_isn : Z; rg_delivered : list bytes }.

Record receiver_inv (src : list (Z * bytes)) (g : receiver_ghost) (k : kcp) : Prop := mkRI {
  RI_inv : inv k;
  RI_isn : is_u32 (rg_isn g);
  (* r segments of src have been accepted in order; `done` of them handed to the reader, the
     rest waits in rcv_queue; the reader has been given whole messages only *)
  RI_nxt : exists r done, (done <= r <= length src)%nat /\ rcv_nxt k = u32 (rg_isn g + Z.of_nat r) /\
      map pay (rcv_queue k) = firstn (r - done) (skipn done src) /\
      rg_delivered g = messages (firstn done src) /\ at_boundary (firstn done src);
  (* parked out-of-order segments are segments of src *)
  RI_buf : Forall (fun s => exists i, (i < length src)%nat /\ s_sn s = u32 (rg_isn g + Z.of_nat i) /\
                                    nth_error src i = Some (pay s)) (rcv_buf k)
}.

Definition ghost_receiver (g : receiver_ghost) (o : op) (x : out) : receiver_ghost :=
  match o with
  | ORecv _ => if o_ret x >=? 0 then mkRG (rg_isn g) (rg_delivered g ++ [o_data x]) else g
  | _ => g
  end.

(* clock arguments are 32-bit values, byte strings are bytes *)
Definition op_ok32 (o : op) : Prop :=
  op_ok o /\
  match o with
  | OInput _ _ _ now | OFlush _ now | OUpdate now | OCheck now => is_u32 now
  | _ => True
  end.

(* ---- the two-endpoint system, direction A -> B ---- *)
Record sys := mkSys {
  sA : kcp; sB : kcp; gA : sender_ghost; gB : receiver_ghost;
  wire : list bytes      (* every datagram A has ever handed to its output callback *)
}.

Inductive ev := EA (o : op) | EB (o : op).

(* B only ever receives what A emitted earlier (any number of times, in any order); what A
   receives is unconstrained (B's genuine datagrams, or anything else). *)
Definition ev_ok (s : sys) (e : ev) : Prop :=
  match e with
  | EA o => op_ok32 o
  | EB o => op_ok32 o /\ match o with OInput d _ _ _ => In d (wire s) | _ => True end
  end.

Definition sys_step (s : sys) (e : ev) : option sys :=
  match e with
  | EA o => match step (sA s) o with
            | Ok (k', x) => Some (mkSys k' (sB s) (ghost_sender (gA s) (sA s) o k' x) (gB s) (wire s ++ o_dgrams x))
            | Panic _ => None end
  | EB o => match step (sB s) o with
            | Ok (k', x) => Some (mkSys (sA s) k' (gA s) (ghost_receiver (gB s) o x) (wire s))
            | Panic _ => None end
  end.

(* a run in which every event is admissible when it happens *)
Inductive sys_run : sys -> list ev -> sys -> Prop :=
| run_nil : forall s, sys_run s [] s
| run_cons : forall s e s1 t s2, ev_ok s e -> sys_step s e = Some s1 -> sys_run s1 t s2 -> sys_run s (e :: t) s2.

(* initial system: any two endpoints satisfying inv, empty queues on the A->B path, B expects A's first number *)
Definition sys_init (s : sys) : Prop :=
  inv (sA s) /\ inv (sB s) /\ is_u32 (conv (sA s)) /\
  snd_queue (sA s) = [] /\ snd_buf (sA s) = [] /\ acklist (sA s) = [] /\
  rcv_queue (sB s) = [] /\ rcv_buf (sB s) = [] /\
  rcv_nxt (sB s) = snd_una (sA s) /\
  gA s = mkSG (snd_una (sA s)) [] [] /\ gB s = mkRG (snd_una (sA s)) [] /\ wire s = [].

Definition is_prefix {T} (a b : list T) : Prop := exists c, b = a ++ c.
