(* C01 - reliable ordered stream: the reader sees a prefix of what was written (raw endpoints).
   Statements only.  System model: Net.v.  Two endpoints A (writer) and B (reader); ANY finite
   list of events: arbitrary API calls on either side with arbitrary arguments and arbitrary
   (not even monotone) clock values; B's Input receives only datagrams A emitted earlier - any
   of them, any number of times, in any order, after any delay, or never; A's Input receives
   anything at all.  No bound on the length of the run, on window sizes or on payloads. *)
From Coq Require Import ZArith List Bool.
From KV.Base Require Import Consts Word.
From KV.Kcp Require Import Kcp Step Net NetAll NetExample.
Import ListNotations.
Local Open Scope Z_scope.

(* stream mode: the bytes B's reader has been given are a prefix of the bytes A's Send accepted *)
Theorem c01_stream_prefix :
  forall s0 evs s, sys_init s0 -> sys_run s0 evs s -> stream (sA s0) <> 0 ->
    no_wrap (sg_numbered (gA s)) ->
    is_prefix (concat (rg_delivered (gB s))) (concat (sg_accepted (gA s))).
Proof. exact net_stream_prefix. Qed.
Print Assumptions c01_stream_prefix.

(* message mode: the messages B's reader has been given are a prefix of the messages A's Send
   accepted, each with its original boundaries *)
Theorem c01_message_prefix :
  forall s0 evs s, sys_init s0 -> sys_run s0 evs s -> stream (sA s0) = 0 ->
    no_wrap (sg_numbered (gA s)) ->
    is_prefix (rg_delivered (gB s)) (sg_accepted (gA s)).
Proof. exact net_message_prefix. Qed.
Print Assumptions c01_message_prefix.

(* the run itself never faults and both endpoints keep the C04 invariant *)
Theorem c01_run_safe :
  forall s0 evs s, sys_init s0 -> sys_run s0 evs s -> inv (sA s) /\ inv (sB s).
Proof. exact net_run_inv. Qed.
Print Assumptions c01_run_safe.

(* every datagram A ever emitted carries, under each sequence number, exactly the payload that
   number was given when the segment entered the send window - retransmissions included *)
Theorem c01_wire_genuine :
  forall s0 evs s, sys_init s0 -> sys_run s0 evs s ->
    Forall (genuine_dgram (sg_isn (gA s)) (sg_numbered (gA s))) (wire s).
Proof. exact net_wire_genuine. Qed.
Print Assumptions c01_wire_genuine.

(* feeding B any datagram of the history again - as a regular packet or as an FEC-recovered
   one - keeps the receiver invariant: duplicates and recovered packets are harmless *)
Theorem c01_fec_idempotent :
  forall src g k d regular nd now k' x,
    receiver_inv src g k -> src_wf src -> no_wrap src -> is_u32 now ->
    genuine_dgram (rg_isn g) src d ->
    step k (OInput d regular nd now) = Ok (k', x) ->
    receiver_inv src g k'.
Proof. exact receiver_input_idempotent. Qed.
Print Assumptions c01_fec_idempotent.

(* non-vacuity: a run in which data is written, lost once, retransmitted, duplicated and read *)
Example c01_example :
  exists s0 evs s, sys_init s0 /\ sys_run s0 evs s /\ stream (sA s0) = 0 /\
     no_wrap (sg_numbered (gA s)) /\ rg_delivered (gB s) = [[1; 2; 3]] /\ (length (wire s) >= 2)%nat.
Proof. exact net_example. Qed.
